// atn: the serialised lexer ATN of parser/jsonquery_lexer.go decoded and compared, token rule by token rule, with the
// token rules of JsonQuery.g4 (DESIGN §4.5). The sandbox has no ANTLR tool, so the generated tables cannot be regenerated;
// this check decides instead whether the tables that ARE shipped accept, rule for rule, the language the grammar file
// describes. It is a computation of the translator (not a Lean theorem): on success it emits the fact `lexerAtn =
// "equivalent"`, otherwise a shortest text on which a rule of the tables and the same rule of the grammar disagree - a
// concrete input the correspondence check of C20 then runs through the shipped lexer and the Lean lexer.
package main

import (
	"fmt"
	"go/ast"
	"sort"
	"strconv"
	"strings"
)

const maxRune = 0x10FFFF

// ---- regular expressions over rune classes, with Brzozowski derivatives ----

type rx struct {
	k    byte // 0 empty set, 'e' epsilon, 'c' class, 's' seq, 'a' alt, '*' star
	cls  [][2]rune
	a, b *rx
	key  string
}

var rxEmpty = &rx{k: 0, key: "0"}
var rxEps = &rx{k: 'e', key: "e"}

func normRanges(rs [][2]rune) [][2]rune {
	sort.Slice(rs, func(i, j int) bool { return rs[i][0] < rs[j][0] })
	var out [][2]rune
	for _, r := range rs {
		if r[0] > r[1] {
			continue
		}
		if n := len(out); n > 0 && r[0] <= out[n-1][1]+1 {
			if r[1] > out[n-1][1] {
				out[n-1][1] = r[1]
			}
		} else {
			out = append(out, r)
		}
	}
	return out
}

func complement(rs [][2]rune) [][2]rune {
	rs = normRanges(rs)
	var out [][2]rune
	next := rune(0)
	for _, r := range rs {
		if r[0] > next {
			out = append(out, [2]rune{next, r[0] - 1})
		}
		next = r[1] + 1
	}
	if next <= maxRune {
		out = append(out, [2]rune{next, maxRune})
	}
	return out
}

func mkCls(rs [][2]rune) *rx {
	rs = normRanges(rs)
	if len(rs) == 0 {
		return rxEmpty
	}
	var sb strings.Builder
	sb.WriteString("c")
	for _, r := range rs {
		fmt.Fprintf(&sb, "%x-%x,", r[0], r[1])
	}
	return &rx{k: 'c', cls: rs, key: sb.String()}
}
func mkSeq(a, b *rx) *rx {
	if a.k == 0 || b.k == 0 {
		return rxEmpty
	}
	if a.k == 'e' {
		return b
	}
	if b.k == 'e' {
		return a
	}
	return &rx{k: 's', a: a, b: b, key: "s(" + a.key + ")(" + b.key + ")"}
}
func mkAlt(a, b *rx) *rx {
	if a.k == 0 {
		return b
	}
	if b.k == 0 {
		return a
	}
	// flatten, sort, deduplicate: alternatives as a set
	var parts []*rx
	var flat func(x *rx)
	flat = func(x *rx) {
		if x.k == 'a' {
			flat(x.a)
			flat(x.b)
		} else {
			parts = append(parts, x)
		}
	}
	flat(a)
	flat(b)
	sort.Slice(parts, func(i, j int) bool { return parts[i].key < parts[j].key })
	var uniq []*rx
	for _, p := range parts {
		if len(uniq) == 0 || uniq[len(uniq)-1].key != p.key {
			uniq = append(uniq, p)
		}
	}
	acc := uniq[len(uniq)-1]
	for i := len(uniq) - 2; i >= 0; i-- {
		acc = &rx{k: 'a', a: uniq[i], b: acc, key: "a(" + uniq[i].key + ")(" + acc.key + ")"}
	}
	return acc
}
func mkStar(a *rx) *rx {
	if a.k == 0 || a.k == 'e' {
		return rxEps
	}
	if a.k == '*' {
		return a
	}
	return &rx{k: '*', a: a, key: "*(" + a.key + ")"}
}
func (x *rx) nullable() bool {
	switch x.k {
	case 'e', '*':
		return true
	case 's':
		return x.a.nullable() && x.b.nullable()
	case 'a':
		return x.a.nullable() || x.b.nullable()
	}
	return false
}
func (x *rx) deriv(c rune) *rx {
	switch x.k {
	case 'c':
		for _, r := range x.cls {
			if c >= r[0] && c <= r[1] {
				return rxEps
			}
		}
		return rxEmpty
	case 's':
		d := mkSeq(x.a.deriv(c), x.b)
		if x.a.nullable() {
			return mkAlt(d, x.b.deriv(c))
		}
		return d
	case 'a':
		return mkAlt(x.a.deriv(c), x.b.deriv(c))
	case '*':
		return mkSeq(x.a.deriv(c), x)
	}
	return rxEmpty
}
func (x *rx) bounds(out map[rune]bool) {
	switch x.k {
	case 'c':
		for _, r := range x.cls {
			out[r[0]] = true
			out[r[1]+1] = true
		}
	case 's', 'a':
		x.a.bounds(out)
		x.b.bounds(out)
	case '*':
		x.a.bounds(out)
	}
}

func (g *grammar) rxOf(n *gnode, depth int) (*rx, error) {
	if depth > 50 {
		return nil, fmt.Errorf("recursive lexer rule")
	}
	switch n.kind {
	case "lit":
		acc := rxEps
		rs := []rune(n.text)
		for i := len(rs) - 1; i >= 0; i-- {
			acc = mkSeq(mkCls([][2]rune{{rs[i], rs[i]}}), acc)
		}
		return acc, nil
	case "range":
		return mkCls([][2]rune{{n.lo, n.hi}}), nil
	case "set":
		return mkCls(append([][2]rune(nil), n.items...)), nil
	case "notset":
		return mkCls(complement(append([][2]rune(nil), n.items...))), nil
	case "any":
		return mkCls([][2]rune{{0, maxRune}}), nil
	case "ref":
		r, ok := g.byName[n.text]
		if !ok || !isLexerRuleName(n.text) {
			return nil, fmt.Errorf("unknown rule %s", n.text)
		}
		return g.ruleRx(r, depth+1)
	case "group":
		return g.rxOf(n.kids[0], depth)
	case "seq":
		acc := rxEps
		for i := len(n.kids) - 1; i >= 0; i-- {
			k, err := g.rxOf(n.kids[i], depth)
			if err != nil {
				return nil, err
			}
			acc = mkSeq(k, acc)
		}
		return acc, nil
	case "alt":
		acc := rxEmpty
		for _, kid := range n.kids {
			k, err := g.rxOf(kid, depth)
			if err != nil {
				return nil, err
			}
			acc = mkAlt(acc, k)
		}
		return acc, nil
	case "opt", "star", "plus":
		k, err := g.rxOf(n.kids[0], depth)
		if err != nil {
			return nil, err
		}
		switch n.kind {
		case "opt":
			return mkAlt(k, rxEps), nil
		case "star":
			return mkStar(k), nil
		}
		return mkSeq(k, mkStar(k)), nil
	}
	return nil, fmt.Errorf("unsupported node %s", n.kind)
}

func (g *grammar) ruleRx(r *grule, depth int) (*rx, error) {
	acc := rxEmpty
	for _, a := range r.alts {
		k, err := g.rxOf(a, depth)
		if err != nil {
			return nil, err
		}
		acc = mkAlt(acc, k)
	}
	return acc, nil
}

// ---- the serialised ATN (format version 4, see antlr4-go atn_deserializer.go) ----

type atnEdge struct {
	trg        int
	kind       int // 1 eps, 2 range, 3 rule, 4 predicate, 5 atom, 6 action, 7 set, 8 notset, 9 wildcard, 10 precedence
	a1, a2, a3 int
}
type atn struct {
	stateType []int
	stateRule []int
	edges     [][]atnEdge
	ruleStart []int
	ruleTok   []int
	ruleStop  []int
	sets      [][][2]rune
}

func decodeATN(data []int) (*atn, error) {
	pos := 0
	rd := func() (int, error) {
		if pos >= len(data) {
			return 0, fmt.Errorf("truncated")
		}
		v := data[pos]
		pos++
		return v, nil
	}
	must := func() int {
		v, err := rd()
		if err != nil {
			panic(err)
		}
		return v
	}
	var a atn
	var err error
	func() {
		defer func() {
			if r := recover(); r != nil {
				err = fmt.Errorf("%v", r)
			}
		}()
		if v := must(); v != 4 {
			panic(fmt.Sprintf("serialisation version %d", v))
		}
		if gt := must(); gt != 0 {
			panic("not a lexer ATN")
		}
		must() // max token type
		n := must()
		for i := 0; i < n; i++ {
			st := must()
			a.stateType = append(a.stateType, st)
			if st == 0 {
				a.stateRule = append(a.stateRule, -1)
				continue
			}
			a.stateRule = append(a.stateRule, must())
			if st == 12 || st == 3 || st == 4 || st == 5 { // loop end; block starts
				must()
			}
		}
		a.edges = make([][]atnEdge, n)
		for k := must(); k > 0; k-- { // non-greedy states
			must()
		}
		for k := must(); k > 0; k-- { // precedence states
			must()
		}
		nr := must()
		for i := 0; i < nr; i++ {
			a.ruleStart = append(a.ruleStart, must())
			a.ruleTok = append(a.ruleTok, must())
		}
		a.ruleStop = make([]int, nr)
		for s, t := range a.stateType {
			if t == 7 && a.stateRule[s] >= 0 && a.stateRule[s] < nr {
				a.ruleStop[a.stateRule[s]] = s
			}
		}
		for k := must(); k > 0; k-- { // modes
			must()
		}
		ns := must()
		for i := 0; i < ns; i++ {
			m := must()
			must() // containsEOF
			var set [][2]rune
			for j := 0; j < m; j++ {
				lo, hi := must(), must()
				set = append(set, [2]rune{rune(lo), rune(hi)})
			}
			a.sets = append(a.sets, set)
		}
		ne := must()
		for i := 0; i < ne; i++ {
			src, trg, kind := must(), must(), must()
			a1, a2, a3 := must(), must(), must()
			if src < 0 || src >= n || trg < 0 || trg >= n {
				panic("edge out of range")
			}
			a.edges[src] = append(a.edges[src], atnEdge{trg, kind, a1, a2, a3})
		}
	}()
	if err != nil {
		return nil, err
	}
	return &a, nil
}

type cfg struct {
	state int
	stack string // follow states, innermost last, comma separated
}

func (a *atn) closure(in []cfg, topStop int) map[cfg]bool {
	seen := map[cfg]bool{}
	work := append([]cfg(nil), in...)
	for len(work) > 0 {
		c := work[len(work)-1]
		work = work[:len(work)-1]
		if seen[c] || len(seen) > 200000 {
			continue
		}
		seen[c] = true
		if a.stateType[c.state] == 7 { // rule stop
			if c.stack != "" {
				i := strings.LastIndex(c.stack, ",")
				f, _ := strconv.Atoi(c.stack[i+1:])
				rest := ""
				if i > 0 {
					rest = c.stack[:i]
				}
				work = append(work, cfg{f, rest})
			}
			continue
		}
		for _, e := range a.edges[c.state] {
			switch e.kind {
			case 1, 4, 6, 10:
				work = append(work, cfg{e.trg, c.stack})
			case 3:
				if strings.Count(c.stack, ",") > 40 {
					continue
				}
				// edge: trg = start state of the called rule, a3... the follow state is the serialised target of the edge
				work = append(work, cfg{e.a1, c.stack + "," + strconv.Itoa(e.trg)})
			}
		}
	}
	_ = topStop
	return seen
}

func (a *atn) matches(e atnEdge, c rune) bool {
	in := func(set [][2]rune) bool {
		for _, r := range set {
			if c >= r[0] && c <= r[1] {
				return true
			}
		}
		return false
	}
	switch e.kind {
	case 2:
		return e.a3 == 0 && c >= rune(e.a1) && c <= rune(e.a2)
	case 5:
		return e.a3 == 0 && c == rune(e.a1)
	case 7:
		return e.a1 < len(a.sets) && in(a.sets[e.a1])
	case 8:
		return e.a1 < len(a.sets) && !in(a.sets[e.a1])
	case 9:
		return true
	}
	return false
}

func (a *atn) step(set map[cfg]bool, c rune) []cfg {
	var out []cfg
	for k := range set {
		if a.stateType[k.state] == 7 {
			continue
		}
		for _, e := range a.edges[k.state] {
			if a.matches(e, c) {
				out = append(out, cfg{e.trg, k.stack})
			}
		}
	}
	return out
}

func cfgKey(set map[cfg]bool) string {
	var ks []string
	for k := range set {
		ks = append(ks, strconv.Itoa(k.state)+":"+k.stack)
	}
	sort.Strings(ks)
	return strings.Join(ks, ";")
}

type atnWitness struct {
	Rule    string `json:"rule"`
	TextHex string `json:"text_hex"` // runes, hex, space separated
	Tables  bool   `json:"tables_accept"`
	Grammar bool   `json:"grammar_accepts"`
}

// lexerATNLean: the decoded tables as Lean data (Generated/LexerATN.lean), set by compareLexerATN when the tables are
// readable and inside the modelled fragment (no predicates, no EOF edges); "" otherwise
var lexerATNLean string

// atnToLean renders the decoded ATN and, per token rule in the priority order of the grammar, its start and stop state
// and a partition of the code points into intervals on which every character test reachable from the rule (tables and
// grammar) is constant. The partition is a hint: Lean checks that it covers 0..0x10FFFF and that it is uniform.
func atnToLean(a *atn, order []int, kinds []int, res []*rx) string {
	var sb strings.Builder
	sb.WriteString("import RulesModel.Model.ATN\n/-! GENERATED by /verif/extract (extract/atn.go) from the serialised ATN in /repo/parser/jsonquery_lexer.go — do not edit. -/\nnamespace Rules.Generated\nopen Rules.NFA\n\n")
	ivs := func(set [][2]rune) string {
		var ps []string
		for _, r := range set {
			ps = append(ps, fmt.Sprintf("(%d, %d)", r[0], r[1]))
		}
		return "[" + strings.Join(ps, ", ") + "]"
	}
	var edges []string
	for src, es := range a.edges {
		for _, e := range es {
			switch e.kind {
			case 1, 6:
				edges = append(edges, fmt.Sprintf(".eps %d %d", src, e.trg))
			case 2:
				if e.a3 != 0 {
					return ""
				}
				edges = append(edges, fmt.Sprintf(".chr %d ⟨false, [(%d, %d)]⟩ %d", src, e.a1, e.a2, e.trg))
			case 5:
				if e.a3 != 0 {
					return ""
				}
				edges = append(edges, fmt.Sprintf(".chr %d ⟨false, [(%d, %d)]⟩ %d", src, e.a1, e.a1, e.trg))
			case 7, 8:
				if e.a1 < 0 || e.a1 >= len(a.sets) {
					return ""
				}
				edges = append(edges, fmt.Sprintf(".chr %d ⟨%v, %s⟩ %d", src, e.kind == 8, ivs(a.sets[e.a1]), e.trg))
			case 9:
				edges = append(edges, fmt.Sprintf(".chr %d ⟨true, []⟩ %d", src, e.trg))
			case 3:
				edges = append(edges, fmt.Sprintf(".call %d %d %d", src, e.a1, e.trg))
			default:
				return "" // predicates: outside the modelled fragment
			}
		}
	}
	var stops []string
	for s, t := range a.stateType {
		if t == 7 {
			stops = append(stops, strconv.Itoa(s))
		}
	}
	sb.WriteString("def lexerAtnData : ATN := {\n  edges := [\n    " + strings.Join(edges, ",\n    ") + "],\n  stops := [" + strings.Join(stops, ", ") + "] }\n\n")
	sb.WriteString("/-- per token rule, in the priority order of the grammar: token type, start state, stop state, intervals of code points -/\n")
	var rows []string
	for i, ri := range order {
		// states reachable from the rule's start (through calls too)
		seen := map[int]bool{}
		work := []int{a.ruleStart[ri]}
		bounds := map[rune]bool{0: true}
		for len(work) > 0 {
			q := work[len(work)-1]
			work = work[:len(work)-1]
			if seen[q] {
				continue
			}
			seen[q] = true
			for _, e := range a.edges[q] {
				work = append(work, e.trg)
				switch e.kind {
				case 3:
					work = append(work, e.a1)
				case 2:
					bounds[rune(e.a1)] = true
					bounds[rune(e.a2)+1] = true
				case 5:
					bounds[rune(e.a1)] = true
					bounds[rune(e.a1)+1] = true
				case 7, 8:
					for _, r := range a.sets[e.a1] {
						bounds[r[0]] = true
						bounds[r[1]+1] = true
					}
				}
			}
		}
		res[i].bounds(bounds)
		var bs []int
		for b := range bounds {
			if b >= 0 && b <= maxRune {
				bs = append(bs, int(b))
			}
		}
		sort.Ints(bs)
		var cls []string
		for j, b := range bs {
			hi := int(maxRune)
			if j+1 < len(bs) {
				hi = bs[j+1] - 1
			}
			cls = append(cls, fmt.Sprintf("(%d, %d)", b, hi))
		}
		rows = append(rows, fmt.Sprintf("(%d, %d, %d, [%s])", kinds[i], a.ruleStart[ri], a.ruleStop[ri], strings.Join(cls, ", ")))
	}
	sb.WriteString("def lexerAtnRules : List (Nat × Nat × Nat × List (Nat × Nat)) := [\n  " + strings.Join(rows, ",\n  ") + "]\n\nend Rules.Generated\n")
	return sb.String()
}

// compareLexerATN returns ("equivalent" | "differs" | "unreadable: why", witnesses)
func compareLexerATN(file *ast.File, g *grammar, tokenRules []*grule, implicit []string, render func(ast.Node) string) (string, []atnWitness) {
	var data []int
	found := false
	ast.Inspect(file, func(n ast.Node) bool {
		as, ok := n.(*ast.AssignStmt)
		if !ok || len(as.Lhs) != 1 || len(as.Rhs) != 1 {
			return true
		}
		se, ok := as.Lhs[0].(*ast.SelectorExpr)
		if !ok || se.Sel.Name != "serializedATN" {
			return true
		}
		cl, ok := as.Rhs[0].(*ast.CompositeLit)
		if !ok {
			return true
		}
		found = true
		for _, e := range cl.Elts {
			v, err := strconv.Atoi(strings.ReplaceAll(render(e), " ", ""))
			if err != nil {
				found = false
				return false
			}
			data = append(data, v)
		}
		return false
	})
	if !found {
		return "unreadable: no serializedATN literal of integers", nil
	}
	a, err := decodeATN(data)
	if err != nil {
		return "unreadable: " + err.Error(), nil
	}
	// the token rules of the tables, by token type; those of the grammar: implicit literals first, then lexer rules in order
	type want struct {
		name string
		re   *rx
	}
	var wants []want
	for _, l := range implicit {
		r, _ := g.rxOf(&gnode{kind: "lit", text: l}, 0)
		wants = append(wants, want{"'" + l + "'", r})
	}
	for _, r := range tokenRules {
		re, err := g.ruleRx(r, 0)
		if err != nil {
			return "unreadable: " + err.Error(), nil
		}
		wants = append(wants, want{r.name, re})
	}
	byTok := map[int]int{}
	for ri, t := range a.ruleTok {
		if t > 0 {
			if _, dup := byTok[t]; dup {
				return "unreadable: two rules for one token type", nil
			}
			byTok[t] = ri
		}
	}
	prev := -1
	for tok := 1; tok <= len(byTok); tok++ {
		ri, ok := byTok[tok]
		if !ok || ri <= prev {
			return fmt.Sprintf("differs: the rules of the tables are not in the priority order of the grammar at token type %d", tok), nil
		}
		prev = ri
	}
	if len(byTok) != len(wants) {
		return fmt.Sprintf("differs: the tables define %d token types, the grammar %d", len(byTok), len(wants)), nil
	}
	bounds := map[rune]bool{0: true}
	for _, w := range wants {
		w.re.bounds(bounds)
	}
	for _, set := range a.sets {
		for _, r := range set {
			bounds[r[0]] = true
			bounds[r[1]+1] = true
		}
	}
	for _, es := range a.edges {
		for _, e := range es {
			switch e.kind {
			case 2:
				bounds[rune(e.a1)] = true
				bounds[rune(e.a2)+1] = true
			case 5:
				bounds[rune(e.a1)] = true
				bounds[rune(e.a1)+1] = true
			}
		}
	}
	{
		var order, kinds []int
		var res []*rx
		for tok := 1; tok <= len(wants); tok++ {
			order = append(order, byTok[tok])
			kinds = append(kinds, tok)
			res = append(res, wants[tok-1].re)
		}
		lexerATNLean = atnToLean(a, order, kinds, res)
	}
	var reps []rune
	for b := range bounds {
		if b >= 0 && b <= maxRune && !(b >= 0xD800 && b <= 0xDFFF) {
			reps = append(reps, b)
		}
	}
	sort.Slice(reps, func(i, j int) bool { return reps[i] < reps[j] })
	var wit []atnWitness
	for tok := 1; tok <= len(wants); tok++ {
		w := wants[tok-1]
		ri, ok := byTok[tok]
		if !ok {
			return fmt.Sprintf("differs: no rule of the tables for token type %d (%s)", tok, w.name), nil
		}
		type node struct {
			re   *rx
			set  map[cfg]bool
			word []rune
		}
		start := a.closure([]cfg{{a.ruleStart[ri], ""}}, a.ruleStop[ri])
		queue := []node{{w.re, start, nil}}
		seen := map[string]bool{}
		for len(queue) > 0 && len(seen) < 20000 {
			n := queue[0]
			queue = queue[1:]
			key := n.re.key + "|" + cfgKey(n.set)
			if seen[key] {
				continue
			}
			seen[key] = true
			acc := n.set[cfg{a.ruleStop[ri], ""}]
			if acc != n.re.nullable() {
				var hx []string
				for _, r := range n.word {
					hx = append(hx, fmt.Sprintf("%x", r))
				}
				wit = append(wit, atnWitness{w.name, strings.Join(hx, " "), acc, n.re.nullable()})
				break
			}
			if n.re.k == 0 && len(n.set) == 0 {
				continue
			}
			for _, c := range reps {
				d := n.re.deriv(c)
				s := a.closure(a.step(n.set, c), a.ruleStop[ri])
				if d.k == 0 && len(s) == 0 {
					continue
				}
				queue = append(queue, node{d, s, append(append([]rune(nil), n.word...), c)})
			}
		}
	}
	if len(wit) > 0 {
		return "differs", wit
	}
	return "equivalent", nil
}
