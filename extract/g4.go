package main

// A small reader for the subset of ANTLR4 grammar syntax that parser/JsonQuery.g4 uses:
// rules `name : alt | alt ;`, `fragment`, literals 'x' with escapes, ranges 'a'..'z', sets [...], `~`,
// grouping, suffixes ? * +, labels `op=(...)` and `#altLabel`, `//` comments.

import (
	"fmt"
	"strings"
	"unicode"
)

type g4tok struct {
	kind string // id, lit, set, punct
	text string // decoded text for lit; raw body for set
}

func g4lex(src string) ([]g4tok, error) {
	var out []g4tok
	rs := []rune(src)
	i := 0
	for i < len(rs) {
		c := rs[i]
		switch {
		case unicode.IsSpace(c):
			i++
		case c == '/' && i+1 < len(rs) && rs[i+1] == '/':
			for i < len(rs) && rs[i] != '\n' {
				i++
			}
		case c == '/' && i+1 < len(rs) && rs[i+1] == '*':
			i += 2
			for i+1 < len(rs) && !(rs[i] == '*' && rs[i+1] == '/') {
				i++
			}
			i += 2
		case c == '\'':
			i++
			var sb []rune
			for i < len(rs) && rs[i] != '\'' {
				if rs[i] == '\\' && i+1 < len(rs) {
					i++
					r, n, err := g4escape(rs[i:])
					if err != nil {
						return nil, err
					}
					sb = append(sb, r)
					i += n
				} else {
					sb = append(sb, rs[i])
					i++
				}
			}
			if i >= len(rs) {
				return nil, fmt.Errorf("unterminated literal")
			}
			i++
			out = append(out, g4tok{"lit", string(sb)})
		case c == '[':
			i++
			var sb []rune
			for i < len(rs) && rs[i] != ']' {
				if rs[i] == '\\' && i+1 < len(rs) {
					sb = append(sb, rs[i], rs[i+1])
					i += 2
				} else {
					sb = append(sb, rs[i])
					i++
				}
			}
			if i >= len(rs) {
				return nil, fmt.Errorf("unterminated set")
			}
			i++
			out = append(out, g4tok{"set", string(sb)})
		case unicode.IsLetter(c) || c == '_':
			j := i
			for j < len(rs) && (unicode.IsLetter(rs[j]) || unicode.IsDigit(rs[j]) || rs[j] == '_') {
				j++
			}
			out = append(out, g4tok{"id", string(rs[i:j])})
			i = j
		case c == '<':
			// element option such as <assoc=right>: kept as one token (it changes the meaning of the rule)
			j := i
			for j < len(rs) && rs[j] != '>' {
				j++
			}
			if j >= len(rs) {
				return nil, fmt.Errorf("unterminated <option>")
			}
			out = append(out, g4tok{"opt", string(rs[i : j+1])})
			i = j + 1
		case c == '.' && i+1 < len(rs) && rs[i+1] == '.':
			out = append(out, g4tok{"punct", ".."})
			i += 2
		case strings.ContainsRune(":;|()?*+~=#.", c):
			out = append(out, g4tok{"punct", string(c)})
			i++
		default:
			return nil, fmt.Errorf("unexpected character %q in grammar", c)
		}
	}
	return out, nil
}

// g4escape decodes the escape after a backslash; returns rune and number of runes consumed
func g4escape(rs []rune) (rune, int, error) {
	switch rs[0] {
	case 'n':
		return '\n', 1, nil
	case 'r':
		return '\r', 1, nil
	case 't':
		return '\t', 1, nil
	case 'b':
		return '\b', 1, nil
	case 'f':
		return '\f', 1, nil
	case 'u':
		if len(rs) >= 5 {
			var v rune
			for _, h := range rs[1:5] {
				v = v*16 + rune(hexv(h))
			}
			return v, 5, nil
		}
		return 0, 0, fmt.Errorf("bad \\u escape")
	default:
		return rs[0], 1, nil // \\ \' \- \] \"
	}
}

func hexv(h rune) int {
	switch {
	case h >= '0' && h <= '9':
		return int(h - '0')
	case h >= 'a' && h <= 'f':
		return int(h-'a') + 10
	case h >= 'A' && h <= 'F':
		return int(h-'A') + 10
	}
	return 0
}

// ---- grammar AST ----

type gnode struct {
	kind  string // lit, range, set, notset, ref, seq, alt, opt, star, plus, any
	text  string // lit text / ref name
	lo    rune   // range
	hi    rune
	items [][2]rune // set members as ranges
	kids  []*gnode
	label string // element label (op=) — informational
}

type grule struct {
	name     string
	fragment bool
	alts     []*gnode // each alternative (a seq)
	altLabel []string
}

type g4parser struct {
	toks []g4tok
	pos  int
}

func (p *g4parser) peek() g4tok {
	if p.pos < len(p.toks) {
		return p.toks[p.pos]
	}
	return g4tok{"eof", ""}
}
func (p *g4parser) next() g4tok { t := p.peek(); p.pos++; return t }
func (p *g4parser) isPunct(s string) bool {
	t := p.peek()
	return t.kind == "punct" && t.text == s
}

func parseG4(src string) (string, []*grule, error) {
	toks, err := g4lex(src)
	if err != nil {
		return "", nil, err
	}
	p := &g4parser{toks: toks}
	name := ""
	if t := p.peek(); t.kind == "id" && t.text == "grammar" {
		p.next()
		name = p.next().text
		if !p.isPunct(";") {
			return "", nil, fmt.Errorf("expected ; after grammar name")
		}
		p.next()
	}
	var rules []*grule
	for p.peek().kind != "eof" {
		r := &grule{}
		t := p.next()
		if t.kind != "id" {
			return "", nil, fmt.Errorf("expected rule name, got %q", t.text)
		}
		if t.text == "fragment" {
			r.fragment = true
			t = p.next()
		}
		r.name = t.text
		if !p.isPunct(":") {
			return "", nil, fmt.Errorf("expected : after %s", r.name)
		}
		p.next()
		for {
			alt, err := p.parseSeq()
			if err != nil {
				return "", nil, err
			}
			lbl := ""
			if p.isPunct("#") {
				p.next()
				lbl = p.next().text
			}
			r.alts = append(r.alts, alt)
			r.altLabel = append(r.altLabel, lbl)
			if p.isPunct("|") {
				p.next()
				continue
			}
			break
		}
		if !p.isPunct(";") {
			return "", nil, fmt.Errorf("expected ; at end of rule %s, got %q", r.name, p.peek().text)
		}
		p.next()
		rules = append(rules, r)
	}
	return name, rules, nil
}

func (p *g4parser) parseAlt() (*gnode, error) {
	first, err := p.parseSeq()
	if err != nil {
		return nil, err
	}
	alts := []*gnode{first}
	for p.isPunct("|") {
		p.next()
		n, err := p.parseSeq()
		if err != nil {
			return nil, err
		}
		alts = append(alts, n)
	}
	if len(alts) == 1 {
		return first, nil
	}
	return &gnode{kind: "alt", kids: alts}, nil
}

func (p *g4parser) parseSeq() (*gnode, error) {
	var kids []*gnode
	for {
		t := p.peek()
		if t.kind == "eof" || (t.kind == "punct" && (t.text == "|" || t.text == ";" || t.text == ")" || t.text == "#")) {
			break
		}
		e, err := p.parseElem()
		if err != nil {
			return nil, err
		}
		kids = append(kids, e)
	}
	if len(kids) == 1 {
		return kids[0], nil
	}
	return &gnode{kind: "seq", kids: kids}, nil
}

func (p *g4parser) parseElem() (*gnode, error) {
	label := ""
	if p.peek().kind == "id" && p.pos+1 < len(p.toks) && p.toks[p.pos+1].kind == "punct" && p.toks[p.pos+1].text == "=" {
		label = p.next().text
		p.next()
	}
	a, err := p.parseAtom()
	if err != nil {
		return nil, err
	}
	for {
		if p.isPunct("?") {
			p.next()
			a = &gnode{kind: "opt", kids: []*gnode{a}}
		} else if p.isPunct("*") {
			p.next()
			a = &gnode{kind: "star", kids: []*gnode{a}}
		} else if p.isPunct("+") {
			p.next()
			a = &gnode{kind: "plus", kids: []*gnode{a}}
		} else {
			break
		}
	}
	a.label = label
	return a, nil
}

func parseSetBody(body string) ([][2]rune, error) {
	rs := []rune(body)
	var elems []rune
	var isDash []bool
	for i := 0; i < len(rs); i++ {
		if rs[i] == '\\' && i+1 < len(rs) {
			r, n, err := g4escape(rs[i+1:])
			if err != nil {
				return nil, err
			}
			elems = append(elems, r)
			isDash = append(isDash, false)
			i += n
		} else {
			elems = append(elems, rs[i])
			isDash = append(isDash, rs[i] == '-')
		}
	}
	var out [][2]rune
	for i := 0; i < len(elems); i++ {
		if i+2 < len(elems) && isDash[i+1] {
			out = append(out, [2]rune{elems[i], elems[i+2]})
			i += 2
		} else {
			out = append(out, [2]rune{elems[i], elems[i]})
		}
	}
	return out, nil
}

func (p *g4parser) parseAtom() (*gnode, error) {
	t := p.next()
	switch {
	case t.kind == "punct" && t.text == "(":
		n, err := p.parseAlt()
		if err != nil {
			return nil, err
		}
		if !p.isPunct(")") {
			return nil, fmt.Errorf("expected )")
		}
		p.next()
		return &gnode{kind: "group", kids: []*gnode{n}}, nil
	case t.kind == "punct" && t.text == "~":
		a, err := p.parseAtom()
		if err != nil {
			return nil, err
		}
		switch a.kind {
		case "set":
			return &gnode{kind: "notset", items: a.items}, nil
		case "lit":
			rs := []rune(a.text)
			if len(rs) == 1 {
				return &gnode{kind: "notset", items: [][2]rune{{rs[0], rs[0]}}}, nil
			}
		}
		return nil, fmt.Errorf("unsupported operand of ~")
	case t.kind == "punct" && t.text == ".":
		return &gnode{kind: "any"}, nil
	case t.kind == "opt":
		return &gnode{kind: "option", text: strings.Join(strings.Fields(t.text), "")}, nil
	case t.kind == "lit":
		if p.isPunct("..") {
			p.next()
			u := p.next()
			if u.kind != "lit" {
				return nil, fmt.Errorf("expected literal after ..")
			}
			a, b := []rune(t.text), []rune(u.text)
			if len(a) != 1 || len(b) != 1 {
				return nil, fmt.Errorf("range bounds must be single characters")
			}
			return &gnode{kind: "range", lo: a[0], hi: b[0]}, nil
		}
		return &gnode{kind: "lit", text: t.text}, nil
	case t.kind == "set":
		items, err := parseSetBody(t.text)
		if err != nil {
			return nil, err
		}
		return &gnode{kind: "set", items: items}, nil
	case t.kind == "id":
		return &gnode{kind: "ref", text: t.text}, nil
	}
	return nil, fmt.Errorf("unexpected token %q", t.text)
}

func isLexerRuleName(n string) bool { return n != "" && unicode.IsUpper([]rune(n)[0]) }

// ---- regex emission (Lean terms of type Rules.Regex) ----

func leanAlts(parts []string) string {
	if len(parts) == 0 {
		return ".empty"
	}
	if len(parts) == 1 {
		return parts[0]
	}
	return "(.alt " + parts[0] + " " + leanAlts(parts[1:]) + ")"
}

func leanSeq(parts []string) string {
	if len(parts) == 0 {
		return ".eps"
	}
	if len(parts) == 1 {
		return parts[0]
	}
	return "(.seq " + parts[0] + " " + leanSeq(parts[1:]) + ")"
}

func (g *grammar) regexOf(n *gnode, depth int) (string, error) {
	if depth > 50 {
		return "", fmt.Errorf("recursive lexer rule")
	}
	switch n.kind {
	case "lit":
		var parts []string
		for _, r := range n.text {
			parts = append(parts, fmt.Sprintf("(.range %d %d)", r, r))
		}
		return leanSeq(parts), nil
	case "range":
		return fmt.Sprintf("(.range %d %d)", n.lo, n.hi), nil
	case "set":
		var parts []string
		for _, it := range n.items {
			parts = append(parts, fmt.Sprintf("(.range %d %d)", it[0], it[1]))
		}
		return leanAlts(parts), nil
	case "notset":
		var cs []string
		for _, it := range n.items {
			for c := it[0]; c <= it[1]; c++ {
				cs = append(cs, fmt.Sprintf("%d", c))
			}
		}
		return "(.notIn [" + strings.Join(cs, ", ") + "])", nil
	case "any":
		return "(.notIn [])", nil
	case "ref":
		r, ok := g.byName[n.text]
		if !ok || !isLexerRuleName(n.text) {
			return "", fmt.Errorf("lexer rule refers to unknown rule %s", n.text)
		}
		return g.ruleRegex(r, depth+1)
	case "group":
		return g.regexOf(n.kids[0], depth)
	case "seq":
		var parts []string
		for _, k := range n.kids {
			s, err := g.regexOf(k, depth)
			if err != nil {
				return "", err
			}
			parts = append(parts, s)
		}
		return leanSeq(parts), nil
	case "alt":
		var parts []string
		for _, k := range n.kids {
			s, err := g.regexOf(k, depth)
			if err != nil {
				return "", err
			}
			parts = append(parts, s)
		}
		return leanAlts(parts), nil
	case "opt":
		s, err := g.regexOf(n.kids[0], depth)
		if err != nil {
			return "", err
		}
		return "(.alt " + s + " .eps)", nil
	case "star":
		s, err := g.regexOf(n.kids[0], depth)
		if err != nil {
			return "", err
		}
		return "(.star " + s + ")", nil
	case "plus":
		s, err := g.regexOf(n.kids[0], depth)
		if err != nil {
			return "", err
		}
		return "(.seq " + s + " (.star " + s + "))", nil
	}
	return "", fmt.Errorf("unsupported node %s in lexer rule", n.kind)
}

func (g *grammar) ruleRegex(r *grule, depth int) (string, error) {
	var parts []string
	for _, a := range r.alts {
		s, err := g.regexOf(a, depth)
		if err != nil {
			return "", err
		}
		parts = append(parts, s)
	}
	return leanAlts(parts), nil
}

type grammar struct {
	name   string
	rules  []*grule
	byName map[string]*grule
}

// literals used in parser rules, in order of first appearance (ANTLR's implicit tokens T__0 …)
func (g *grammar) implicitLiterals() []string {
	var out []string
	seen := map[string]bool{}
	var walk func(n *gnode)
	walk = func(n *gnode) {
		if n.kind == "lit" && !seen[n.text] {
			seen[n.text] = true
			out = append(out, n.text)
		}
		for _, k := range n.kids {
			walk(k)
		}
	}
	for _, r := range g.rules {
		if isLexerRuleName(r.name) {
			continue
		}
		for _, a := range r.alts {
			walk(a)
		}
	}
	// a literal that is the whole body of exactly one lexer rule is an alias of that rule, not a new token
	var res []string
	for _, l := range out {
		alias := false
		for _, r := range g.rules {
			if isLexerRuleName(r.name) && !r.fragment && len(r.alts) == 1 && r.alts[0].kind == "lit" && r.alts[0].text == l {
				alias = true
			}
		}
		if !alias {
			res = append(res, l)
		}
	}
	return res
}

// canonical text of a node, for the parser-rule tie
func canon(n *gnode) string {
	s := ""
	switch n.kind {
	case "lit":
		s = fmt.Sprintf("%q", n.text)
	case "ref":
		s = n.text
	case "group":
		s = "(" + canon(n.kids[0]) + ")"
	case "seq":
		var p []string
		for _, k := range n.kids {
			p = append(p, canon(k))
		}
		s = strings.Join(p, " ")
	case "alt":
		var p []string
		for _, k := range n.kids {
			p = append(p, canon(k))
		}
		s = strings.Join(p, " | ")
	case "opt":
		s = canon(n.kids[0]) + "?"
	case "star":
		s = canon(n.kids[0]) + "*"
	case "plus":
		s = canon(n.kids[0]) + "+"
	case "option":
		s = n.text
	default:
		s = "<" + n.kind + ">"
	}
	if n.label != "" {
		s = n.label + "=" + s
	}
	return s
}

// all spellings of a lexer rule when it is a plain alternative of literals (else nil)
func spellings(r *grule) []string {
	var out []string
	for _, a := range r.alts {
		if a.kind != "lit" {
			return nil
		}
		out = append(out, a.text)
	}
	return out
}
