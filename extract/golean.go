// golean: translation of parser/jsonquery_visitor_impl.go into Lean definitions (Generated/Visitor.lean), DESIGN §4.4.
//
// Every function of that file becomes one Lean definition (a `Visit…` method becomes one arm of an `accept…`
// function over the parse-tree types of Model/Cst.lean), statement by statement:
//   - the pointer receiver is a value passed in and returned;  `recv.f = e`  ->  `let recv := { recv with f := e }`
//   - a panic (failed assertion, index out of range, nil method value, String() panicking) is `Except.error`
//   - `if`/`switch` whose branches fall through yield the tuple of the variables they assign; when some paths return
//     and others fall through, the statement yields `Sum returned fell-through`
//   - `defer func() { … }()` is run at every `return` that follows it, after the result has been evaluated
//
// The meaning of the target constructs is fixed in Model/GoRT.lean. Anything outside the supported subset makes the
// function (and with it the file) `unsupported: <reason>`; then Generated/Visitor.lean only says so and the theorem
// `Proofs/VisitorGen` cannot be re-checked: nothing is claimed from the source text (never an alarm by itself).
package main

import (
	"fmt"
	"go/ast"
	"go/token"
	"sort"
	"strconv"
	"strings"
)

type gt string // type tags of translated expressions

const (
	tBool    gt = "Bool"
	tText    gt = "String"      // token text
	tBytes   gt = "Bytes"       // any other Go string
	tInt     gt = "Int"         // int, int64
	tFloat   gt = "F64"         // float64
	tErr     gt = "Option GErr" // error
	tGErr    gt = "GErr"        // *NestedError (non-nil)
	tValue   gt = "Value"       // interface{} holding data of the input object
	tROp     gt = "ROp"         // interface{} in the rule-operand register
	tRet     gt = "Ret"         // interface{} returned by a Visit… method
	tMap     gt = "List (Bytes × Value)"
	tInts    gt = "List Int"
	tFloats  gt = "List F64"
	tStrs    gt = "List Bytes"
	tValues  gt = "List Value"
	tOper    gt = "Option OpKind"
	tMeth    gt = "Option MethodVal"
	tTok     gt = "Tok"
	tOptTok  gt = "Option Tok"
	tKind    gt = "Nat"
	tQuery   gt = "QueryCtx"
	tPath    gt = "AttrPathCtx"
	tOptPath gt = "Option AttrPathCtx"
	tValCtx  gt = "ValueCtx"
	tSubI    gt = "SubListCtx/ints"
	tSubF    gt = "SubListCtx/floats"
	tSubS    gt = "SubListCtx/strs"
	tOptSubI gt = "Option SubListCtx/ints"
	tOptSubF gt = "Option SubListCtx/floats"
	tOptSubS gt = "Option SubListCtx/strs"
	tLong    gt = "LongText"
	tStack   gt = "ObjStack"
	tJ       gt = "J"
	tNil     gt = "nil"
	tUnit    gt = "Unit"
	tKeys    gt = "List String"
	tGoVal   gt = "GoVal"
	tVer     gt = "Sv.Version"
	tWorld   gt = "W"
)

// opsProfile: the translation of the Operation implementations (one operand type, strings are data, the receiver of a
// method is never used as a value: the threaded `recv` is the log of Stringer calls)
var opsProfile bool

func (t gt) lean() string {
	s := string(t)
	if i := strings.Index(s, "/"); i >= 0 {
		s = s[:i]
	}
	return s
}

type child struct {
	acc string // accessor as written in Go: "Query#0", "op" (field), "GetText"
	typ gt
}
type visitSchema struct {
	accept, ctor string
	children     []child
}

var visitSchemas = map[string]visitSchema{
	"VisitParenExp":         {"acceptQuery", ".parenExp", []child{{"NOT", tOptTok}, {"Query", tQuery}}},
	"VisitLogicalExp":       {"acceptQuery", ".logicalExp", []child{{"Query#0", tQuery}, {"LOGICAL_OPERATOR", tTok}, {"Query#1", tQuery}}},
	"VisitPresentExp":       {"acceptQuery", ".presentExp", []child{{"AttrPath", tPath}}},
	"VisitCompareExp":       {"acceptQuery", ".compareExp", []child{{"AttrPath", tPath}, {"op", tTok}, {"Value", tValCtx}}},
	"VisitAttrPath":         {"acceptAttrPath", ".mk", []child{{"ATTRNAME", tTok}, {"SubAttr", tOptPath}}},
	"VisitBoolean":          {"acceptValue", ".boolean", []child{{"GetText", tText}}},
	"VisitNull":             {"acceptValue", ".null", nil},
	"VisitVersion":          {"acceptValue", ".version", []child{{"VERSION", tTok}}},
	"VisitString":           {"acceptValue", ".string", []child{{"GetText", tText}}},
	"VisitDouble":           {"acceptValue", ".double", []child{{"GetText", tText}}},
	"VisitLong":             {"acceptValue", ".long", []child{{"GetText", tLong}}},
	"VisitListOfInts":       {"acceptValue", ".listOfInts", []child{{"ListInts", tSubI}}},
	"VisitListOfDoubles":    {"acceptValue", ".listOfDoubles", []child{{"ListDoubles", tSubF}}},
	"VisitListOfStrings":    {"acceptValue", ".listOfStrings", []child{{"ListStrings", tSubS}}},
	"VisitSubListOfInts":    {"acceptSubListOfInts", ".mk", []child{{"INT", tTok}, {"SubListOfInts", tOptSubI}}},
	"VisitSubListOfDoubles": {"acceptSubListOfDoubles", ".mk", []child{{"DOUBLE", tTok}, {"SubListOfDoubles", tOptSubF}}},
	"VisitSubListOfStrings": {"acceptSubListOfStrings", ".mk", []child{{"STRING", tTok}, {"SubListOfStrings", tOptSubS}}},
}

// accept function -> (arms in constructor order, Lean type of the context, whether it needs `lower`)
var acceptOrder = []struct {
	name, ctx string
	lower     bool
	arms      []string
}{
	{"acceptAttrPath", "AttrPathCtx", false, []string{"VisitAttrPath"}},
	{"acceptSubListOfInts", "SubListCtx", false, []string{"VisitSubListOfInts"}},
	{"acceptSubListOfDoubles", "SubListCtx", false, []string{"VisitSubListOfDoubles"}},
	{"acceptSubListOfStrings", "SubListCtx", false, []string{"VisitSubListOfStrings"}},
	{"acceptValue", "ValueCtx", false, []string{"VisitBoolean", "VisitNull", "VisitVersion", "VisitString", "VisitDouble", "VisitLong", "VisitListOfInts", "VisitListOfDoubles", "VisitListOfStrings"}},
	{"acceptQuery", "QueryCtx", true, []string{"VisitParenExp", "VisitLogicalExp", "VisitPresentExp", "VisitCompareExp"}},
}

// methods that only forward to a child: `return recv0.X().Accept(recv)`; the Cst types pass them through
var forwarders = map[string]string{"VisitSubAttr": "AttrPath", "VisitListInts": "SubListOfInts", "VisitListDoubles": "SubListOfDoubles", "VisitListStrings": "SubListOfStrings"}

func acceptOf(t gt) (string, bool) {
	switch t {
	case tQuery:
		return "acceptQuery ops", true
	case tPath, tOptPath:
		return "acceptAttrPath", true
	case tValCtx:
		return "acceptValue", true
	case tSubI, tOptSubI:
		return "acceptSubListOfInts", true
	case tSubF, tOptSubF:
		return "acceptSubListOfDoubles", true
	case tSubS, tOptSubS:
		return "acceptSubListOfStrings", true
	}
	return "", false
}
func isOpt(t gt) bool {
	return strings.HasPrefix(string(t), "Option ") && t != tErr && t != tOper && t != tMeth
}

var opKinds = map[string]string{"NullOperation": "OpKind.null", "BoolOperation": "OpKind.bool", "IntOperation": "OpKind.int", "FloatOperation": "OpKind.float", "StringOperation": "OpKind.string", "VersionOperation": "OpKind.version"}
var cmpOps = map[string]string{"EQ": "CmpOp.eq", "NE": "CmpOp.ne", "GT": "CmpOp.gt", "LT": "CmpOp.lt", "GE": "CmpOp.ge", "LE": "CmpOp.le", "CO": "CmpOp.co", "SW": "CmpOp.sw", "EW": "CmpOp.ew", "IN": "CmpOp.in_"}
var errPatterns = map[string]string{"ErrInvalidOperation": "some (GErr.op OpErr.invalidOperation)", "ErrEvalOperandMissing": "some (GErr.op OpErr.missing)", "*ErrInvalidOperand": "some (GErr.op OpErr.invalidOperand)"}
var jFields = map[string]gt{"item": tMap, "stack": tStack, "currentOperation": tOper, "leftOp": tValue, "rightOp": tROp, "err": tErr, "debugErr": tErr}
var jFieldOrder = []string{"item", "stack", "currentOperation", "leftOp", "rightOp", "err", "debugErr"}
var stackFields = map[string]gt{"items": tValues}

func zeroOf(t gt) string {
	switch t {
	case tBool:
		return "false"
	case tValue:
		return "Value.null"
	case tROp:
		return "ROp.nil"
	case tRet, tMeth, tErr, tOper:
		return "none"
	case tMap, tInts, tFloats, tStrs, tValues, tBytes:
		return "[]"
	case tInt:
		return "0"
	case tStack:
		return "{ items := [] }"
	case tFloat:
		return "(F64.ofInt 0)"
	case tVer:
		return "Go.verZero"
	}
	return ""
}

type unsupported struct{ why string }

func fail(format string, a ...interface{}) { panic(unsupported{fmt.Sprintf(format, a...)}) }

// ---------------------------------------------------------------------------------------------------------------
// per-function information

type fnInfo struct {
	key     string // "JsonQueryVisitorImpl.setErr", "objStack.pop", "getString"
	lean    string // Lean name
	decl    *ast.FuncDecl
	recvT   gt   // "" for plain functions
	params  []gt // types of p0…
	result  gt   // tUnit when none; the product type when there are several
	results []gt // the components when there are several results
	mutates bool // assigns through the receiver
	panics  bool // can panic
	visit   bool // an arm of an accept function
}

type translator struct {
	fset   *token.FileSet
	fns    map[string]*fnInfo // by Go name as called: "recv.stack.pop" is resolved through types
	consts map[string]string  // JsonQueryParserEQ -> "13"
	render func(ast.Node) string
	// per function
	cur      *fnInfo
	vars     map[string]gt
	tmp      int
	schema   *visitSchema
	deferred [][]ast.Stmt
	pre      []string
	notes    []string
	bindName string // variable bound by the type switch being translated (operands: typed per branch)
	bindSubj string
}

func (tr *translator) fresh() string { tr.tmp++; return fmt.Sprintf("t%d", tr.tmp) }

func goTypeToGt(s string, ctx string) gt {
	if opsProfile {
		switch s {
		case "any", "Operand":
			return tGoVal
		case "string":
			return tBytes
		case "semver.Version":
			return tVer
		}
	}
	switch s {
	case "bool":
		return tBool
	case "string":
		return tText
	case "int", "int64":
		return tInt
	case "float64":
		return tFloat
	case "error":
		return tErr
	case "any", "Operand":
		return tValue
	case "map[string]any":
		return tMap
	case "[]int":
		return tInts
	case "[]float64":
		return tFloats
	case "[]string":
		return tStrs
	case "[]any":
		return tValues
	case "Operation":
		return tOper
	case "*objStack":
		return tStack
	case "*JsonQueryVisitorImpl":
		return tJ
	case "func(Operand, Operand) (bool, error)":
		return tMeth
	case "antlr.ParseTree":
		return tQuery
	}
	return ""
}

// ---------------------------------------------------------------------------------------------------------------
// syntactic analyses

func recvTypeName(fd *ast.FuncDecl, render func(ast.Node) string) string {
	if fd.Recv == nil || len(fd.Recv.List) != 1 {
		return ""
	}
	return strings.TrimPrefix(render(fd.Recv.List[0].Type), "*")
}

// calleeKey resolves a call's function to a key of tr.fns ("" when it is not one of the file's functions)
func (tr *translator) calleeKey(owner string, call *ast.CallExpr) (key string, recvExpr ast.Expr) {
	switch f := call.Fun.(type) {
	case *ast.Ident:
		if _, ok := tr.fns[f.Name]; ok {
			return f.Name, nil
		}
	case *ast.SelectorExpr:
		if opsProfile {
			// recv.m(...)  or  (&T{}).m(...)
			if id, ok := f.X.(*ast.Ident); ok && id.Name == "recv" {
				if _, ok := tr.fns[owner+"."+f.Sel.Name]; ok {
					return owner + "." + f.Sel.Name, nil
				}
			}
			if pe, ok := f.X.(*ast.ParenExpr); ok {
				if ue, ok := pe.X.(*ast.UnaryExpr); ok && ue.Op == token.AND {
					if cl, ok := ue.X.(*ast.CompositeLit); ok && len(cl.Elts) == 0 {
						k := tr.render(cl.Type) + "." + f.Sel.Name
						if _, ok := tr.fns[k]; ok {
							return k, nil
						}
					}
				}
			}
			return "", nil
		}
		// recv.m(...)  or  recv.stack.m(...)
		if id, ok := f.X.(*ast.Ident); ok && id.Name == "recv" {
			k := owner + "." + f.Sel.Name
			if _, ok := tr.fns[k]; ok {
				return k, f.X
			}
		}
		if se, ok := f.X.(*ast.SelectorExpr); ok {
			if id, ok := se.X.(*ast.Ident); ok && id.Name == "recv" && owner == "JsonQueryVisitorImpl" && se.Sel.Name == "stack" {
				k := "objStack." + f.Sel.Name
				if _, ok := tr.fns[k]; ok {
					return k, f.X
				}
			}
		}
	}
	return "", nil
}

func isAcceptCall(call *ast.CallExpr) bool {
	se, ok := call.Fun.(*ast.SelectorExpr)
	return ok && se.Sel.Name == "Accept"
}

func (tr *translator) analyse() {
	if opsProfile {
		for changed := true; changed; {
			changed = false
			for _, fi := range tr.fns {
				owner := recvTypeName(fi.decl, tr.render)
				reach := fi.mutates
				ast.Inspect(fi.decl.Body, func(n ast.Node) bool {
					if c, ok := n.(*ast.CallExpr); ok {
						if se, ok := c.Fun.(*ast.SelectorExpr); ok && se.Sel.Name == "String" && len(c.Args) == 0 {
							reach = true
						}
						if k, _ := tr.calleeKey(owner, c); k != "" && tr.fns[k].mutates {
							reach = true
						}
					}
					return true
				})
				if reach != fi.mutates {
					fi.mutates, fi.panics = reach, reach
					changed = true
				}
			}
		}
		return
	}
	for changed := true; changed; {
		changed = false
		for _, fi := range tr.fns {
			owner := recvTypeName(fi.decl, tr.render)
			mut, pan := fi.mutates, fi.panics
			localFuncs := map[string]bool{}
			ast.Inspect(fi.decl.Body, func(n ast.Node) bool {
				switch x := n.(type) {
				case *ast.ValueSpec:
					if x.Type != nil && strings.HasPrefix(tr.render(x.Type), "func(") {
						for _, nm := range x.Names {
							localFuncs[nm.Name] = true
						}
					}
				case *ast.AssignStmt:
					for _, l := range x.Lhs {
						if se, ok := l.(*ast.SelectorExpr); ok {
							root := se.X
							if s2, ok := root.(*ast.SelectorExpr); ok {
								root = s2.X
							}
							if id, ok := root.(*ast.Ident); ok && id.Name == "recv" {
								mut = true
							}
						}
					}
				case *ast.IndexExpr:
					pan = true // refined below: map reads do not panic, but only slices are indexed outside maps here
				case *ast.SliceExpr, *ast.TypeAssertExpr:
					if ta, ok := x.(*ast.TypeAssertExpr); !ok || ta.Type != nil {
						pan = true
					}
				case *ast.CallExpr:
					if isAcceptCall(x) {
						mut, pan = true, true
					}
					if id, ok := x.Fun.(*ast.Ident); ok && localFuncs[id.Name] {
						mut, pan = true, true
					}
					if k, _ := tr.calleeKey(owner, x); k != "" {
						c := tr.fns[k]
						if c.mutates {
							mut = true
						}
						if c.panics {
							pan = true
						}
					}
				}
				return true
			})
			if fi.visit {
				mut, pan = true, true
			}
			if mut != fi.mutates || pan != fi.panics {
				fi.mutates, fi.panics = mut, pan
				changed = true
			}
		}
	}
}

func alwaysReturns(list []ast.Stmt) bool {
	if len(list) == 0 {
		return false
	}
	switch s := list[len(list)-1].(type) {
	case *ast.ReturnStmt:
		return true
	case *ast.BlockStmt:
		return alwaysReturns(s.List)
	case *ast.IfStmt:
		if s.Else == nil {
			return false
		}
		return alwaysReturns(s.Body.List) && alwaysReturns([]ast.Stmt{s.Else})
	case *ast.SwitchStmt, *ast.TypeSwitchStmt:
		var body *ast.BlockStmt
		if sw, ok := s.(*ast.SwitchStmt); ok {
			body = sw.Body
		} else {
			body = s.(*ast.TypeSwitchStmt).Body
		}
		hasDefault := false
		for _, c := range body.List {
			cc := c.(*ast.CaseClause)
			if cc.List == nil {
				hasDefault = true
			}
			if !alwaysReturns(cc.Body) {
				return false
			}
		}
		return hasDefault
	}
	return false
}

func containsReturn(list []ast.Stmt) bool {
	found := false
	for _, s := range list {
		ast.Inspect(s, func(n ast.Node) bool {
			if _, ok := n.(*ast.FuncLit); ok {
				return false
			}
			if _, ok := n.(*ast.ReturnStmt); ok {
				found = true
			}
			return !found
		})
	}
	return found
}

// assignedOuter: variables assigned with `=` in list (declared outside it), plus "recv" when the receiver may change
func (tr *translator) assignedOuter(list []ast.Stmt) []string {
	set := map[string]bool{}
	declared := map[string]bool{}
	owner := recvTypeName(tr.cur.decl, tr.render)
	for _, s := range list {
		ast.Inspect(s, func(n ast.Node) bool {
			switch x := n.(type) {
			case *ast.FuncLit:
				return false
			case *ast.AssignStmt:
				for _, l := range x.Lhs {
					switch le := l.(type) {
					case *ast.Ident:
						if le.Name == "_" {
							continue
						}
						if x.Tok == token.DEFINE {
							declared[le.Name] = true
						} else if !declared[le.Name] {
							set[le.Name] = true
						}
					case *ast.SelectorExpr:
						set["recv"] = true
					}
				}
			case *ast.ValueSpec:
				for _, nm := range x.Names {
					declared[nm.Name] = true
				}
			case *ast.CallExpr:
				if isAcceptCall(x) {
					set["recv"] = true
				}
				if se, ok := x.Fun.(*ast.SelectorExpr); ok && opsProfile && se.Sel.Name == "String" && len(x.Args) == 0 {
					set["recv"] = true
				}
				if id, ok := x.Fun.(*ast.Ident); ok && tr.vars[id.Name] == tMeth {
					set["recv"] = true
				}
				if k, _ := tr.calleeKey(owner, x); k != "" && tr.fns[k].mutates {
					set["recv"] = true
				}
			}
			return true
		})
	}
	var out []string
	for k := range set {
		if k != "recv" {
			out = append(out, k)
		}
	}
	sort.Strings(out)
	if set["recv"] {
		out = append(out, "recv")
	}
	return out
}

func (tr *translator) canPanic(list []ast.Stmt) bool {
	owner := recvTypeName(tr.cur.decl, tr.render)
	pan := false
	if opsProfile {
		for _, s := range list {
			ast.Inspect(s, func(n ast.Node) bool {
				if c, ok := n.(*ast.CallExpr); ok {
					if se, ok := c.Fun.(*ast.SelectorExpr); ok && se.Sel.Name == "String" && len(c.Args) == 0 {
						pan = true
					}
					if k, _ := tr.calleeKey(owner, c); k != "" && tr.fns[k].panics {
						pan = true
					}
				}
				return true
			})
		}
		return pan
	}
	for _, s := range list {
		ast.Inspect(s, func(n ast.Node) bool {
			switch x := n.(type) {
			case *ast.FuncLit:
				return false
			case *ast.IndexExpr:
				if t := tr.peekType(x.X); t != tMap {
					pan = true
				}
			case *ast.SliceExpr:
				pan = true
			case *ast.TypeAssertExpr:
				if x.Type != nil {
					pan = true
				}
			case *ast.SelectorExpr:
				if id, ok := x.X.(*ast.Ident); ok && tr.vars[id.Name] == tOper {
					pan = true
				}
			case *ast.CallExpr:
				if isAcceptCall(x) {
					pan = true
				}
				if id, ok := x.Fun.(*ast.Ident); ok && tr.vars[id.Name] == tMeth {
					pan = true
				}
				if k, _ := tr.calleeKey(owner, x); k != "" && tr.fns[k].panics {
					pan = true
				}
			}
			return true
		})
	}
	return pan
}

// peekType: the type of an expression without emitting anything ("" when unknown)
func (tr *translator) peekType(e ast.Expr) (t gt) {
	defer func() {
		if r := recover(); r != nil {
			if _, ok := r.(unsupported); !ok {
				panic(r)
			}
			t = ""
		}
	}()
	save, savePre := tr.tmp, tr.pre
	tr.pre = nil
	_, t = tr.expr(e, "")
	tr.tmp, tr.pre = save, savePre
	return t
}

func (tr *translator) tupleType(vs []string) string {
	var ts []string
	for _, v := range vs {
		if v == "recv" {
			ts = append(ts, tr.cur.recvT.lean())
		} else {
			ts = append(ts, paren(tr.vars[v].lean()))
		}
	}
	if len(ts) == 0 {
		return "Unit"
	}
	return "(" + strings.Join(ts, " × ") + ")"
}

func (tr *translator) monName() string {
	if opsProfile {
		return "OM"
	}
	if tr.cur.recvT == tJ {
		return "VM"
	}
	return "PM"
}

// plainResult: the function's result tuple type without the monad
func (tr *translator) plainResult() string {
	var parts []string
	if tr.cur.result != tUnit {
		parts = append(parts, tr.cur.result.lean())
	}
	if tr.cur.mutates {
		parts = append(parts, tr.cur.recvT.lean())
	}
	if len(parts) == 0 {
		return "Unit"
	}
	return "(" + strings.Join(parts, " × ") + ")"
}

func tuple(vs []string) string {
	if len(vs) == 0 {
		return "()"
	}
	if len(vs) == 1 {
		return vs[0]
	}
	return "(" + strings.Join(vs, ", ") + ")"
}

func lit(e ast.Expr) (string, bool) {
	if bl, ok := e.(*ast.BasicLit); ok && bl.Kind == token.STRING {
		s, err := strconv.Unquote(bl.Value)
		return s, err == nil
	}
	return "", false
}

// ---------------------------------------------------------------------------------------------------------------
// expressions. Binders (`match … with | .ok t =>`, `let … :=`) needed before the term are appended to tr.pre.

func (tr *translator) flush() string {
	s := strings.Join(tr.pre, "")
	tr.pre = nil
	return s
}

func (tr *translator) errArm() string { return "| .error p => .error p\n" }

func (tr *translator) raise(p string) string {
	if tr.cur.recvT == tJ {
		return "Go.raise Panic." + p + " recv"
	}
	return ".error Panic." + p
}

func (tr *translator) coerce(term string, from, to gt) string {
	if to == "" || from == to {
		return term
	}
	if from == tNil {
		if z := zeroOf(to); z != "" {
			return z
		}
		if isOpt(to) {
			return "none"
		}
	}
	switch {
	case from == tMap && to == tValue:
		return "(Value.obj " + term + ")"
	case from == tBool && to == tROp:
		return "(ROp.bool " + term + ")"
	case from == tInt && to == tROp:
		return "(ROp.int " + term + ")"
	case from == tFloat && to == tROp:
		return "(ROp.float " + term + ")"
	case from == tBytes && to == tROp:
		return "(ROp.str " + term + ")"
	case from == tText && to == tROp:
		return "(ROp.str (bytesOf " + term + "))"
	case from == tInts && to == tROp:
		return "(ROp.ints " + term + ")"
	case from == tFloats && to == tROp:
		return "(ROp.floats " + term + ")"
	case from == tStrs && to == tROp:
		return "(ROp.strs " + term + ")"
	case from == tBool && to == tRet:
		return "(some " + term + ")"
	case from == tGErr && to == tErr:
		return "(some " + term + ")"
	case from == tText && to == tBytes:
		return "(bytesOf " + term + ")"
	case from == tInt && to == tFloat && opsProfile:
		if _, err := strconv.Atoi(term); err == nil {
			return "(F64.ofInt " + term + ")" // an untyped constant
		}
	case from == tInt && to == tGoVal:
		return "(GoVal.int " + term + ")"
	case from == tFloat && to == tGoVal:
		return "(GoVal.float " + term + ")"
	case from == tBytes && to == tGoVal:
		return "(GoVal.str " + term + ")"
	case from == tBool && to == tGoVal:
		return "(GoVal.bool " + term + ")"
	case from == tGErr && to == tErr:
		return "(some " + term + ")"
	}
	fail("no conversion from %s to %s (%s)", from, to, term)
	return ""
}

// pureArg: an expression that is dropped from the model (payload of a diagnostic) must be free of effects and total
func (tr *translator) pureArg(e ast.Expr) {
	ast.Inspect(e, func(n ast.Node) bool {
		switch x := n.(type) {
		case *ast.CallExpr:
			se, ok := x.Fun.(*ast.SelectorExpr)
			if !ok || len(x.Args) > 1 {
				fail("diagnostic payload with a call that is not an accessor: %s", tr.render(x))
			}
			root := se.X
			for {
				if c, ok := root.(*ast.CallExpr); ok {
					root = c.Fun
				} else if s, ok := root.(*ast.SelectorExpr); ok {
					root = s.X
				} else {
					break
				}
			}
			if id, ok := root.(*ast.Ident); !ok || id.Name != "p0" {
				fail("diagnostic payload with a call that is not an accessor of the context: %s", tr.render(x))
			}
		case *ast.IndexExpr, *ast.SliceExpr, *ast.TypeAssertExpr, *ast.FuncLit, *ast.StarExpr:
			fail("diagnostic payload that may panic: %s", tr.render(e))
		}
		return true
	})
}

func (tr *translator) childVar(acc string) (string, gt, bool) {
	if tr.schema == nil {
		return "", "", false
	}
	for _, c := range tr.schema.children {
		if c.acc == acc {
			name := "ctx_" + strings.ReplaceAll(acc, "#", "_")
			if acc == "GetText" {
				name = "ctx_text"
			}
			return name, c.typ, true
		}
	}
	return "", "", false
}

// isNilCheck recognises `X == nil` / `X != nil`
func isNilIdent(e ast.Expr) bool {
	id, ok := e.(*ast.Ident)
	return ok && id.Name == "nil"
}

func (tr *translator) expr(e ast.Expr, want gt) (string, gt) {
	term, t := tr.expr0(e, want)
	if want != "" && t != want {
		return tr.coerce(term, t, want), want
	}
	return term, t
}

func (tr *translator) expr0(e ast.Expr, want gt) (string, gt) {
	switch x := e.(type) {
	case *ast.ParenExpr:
		return tr.expr0(x.X, want)
	case *ast.Ident:
		switch x.Name {
		case "nil":
			return "nil", tNil
		case "true", "false":
			return x.Name, tBool
		case "recv":
			return "recv", tr.cur.recvT
		}
		if t, ok := tr.vars[x.Name]; ok {
			return x.Name, t
		}
		if c, ok := tr.consts[x.Name]; ok {
			return c, tKind
		}
		if opsProfile {
			switch x.Name {
			case "ErrInvalidOperation":
				return "(some (GErr.op OpErr.invalidOperation))", tErr
			case "ErrEvalOperandMissing":
				return "(some (GErr.op OpErr.missing))", tErr
			}
		}
		fail("unknown identifier %s", x.Name)
	case *ast.BasicLit:
		switch x.Kind {
		case token.INT:
			return x.Value, tInt
		case token.STRING:
			s, _ := lit(x)
			if want == tBytes {
				if s == "" {
					return "[]", tBytes
				}
				return "(bytesOf " + leanStr(s) + ")", tBytes
			}
			return leanStr(s), tText
		}
	case *ast.UnaryExpr:
		if x.Op == token.NOT {
			a, _ := tr.expr(x.X, tBool)
			return "(!" + a + ")", tBool
		}
		if x.Op == token.AND {
			if cl, ok := x.X.(*ast.CompositeLit); ok {
				tn := tr.render(cl.Type)
				if k, ok := opKinds[tn]; ok && len(cl.Elts) == 0 {
					return "(some " + k + ")", tOper
				}
				if tn == "objStack" && len(cl.Elts) == 0 {
					return "{ items := [] }", tStack
				}
				if tn == "JsonQueryVisitorImpl" {
					vals := map[string]string{}
					for _, el := range cl.Elts {
						kv, ok := el.(*ast.KeyValueExpr)
						if !ok {
							fail("positional struct literal")
						}
						fn := tr.render(kv.Key)
						ft, ok := jFields[fn]
						if !ok {
							fail("unknown field %s", fn)
						}
						v, _ := tr.expr(kv.Value, ft)
						vals[fn] = v
					}
					var parts []string
					for _, fn := range jFieldOrder {
						v, ok := vals[fn]
						if !ok {
							if fn == "stack" {
								fail("nil stack pointer")
							}
							v = zeroOf(jFields[fn])
						}
						parts = append(parts, fn+" := "+v)
					}
					parts = append(parts, "calls := []")
					return "{ " + strings.Join(parts, ", ") + " }", tJ
				}
			}
		}
	case *ast.BinaryExpr:
		return tr.binary(x)
	case *ast.SelectorExpr:
		// recv.f, recv.stack.items, p0.op, currentOp.EQ
		if id, ok := x.X.(*ast.Ident); ok {
			if id.Name == "recv" {
				fields := jFields
				if tr.cur.recvT == tStack {
					fields = stackFields
				}
				if t, ok := fields[x.Sel.Name]; ok {
					return "recv." + x.Sel.Name, t
				}
				fail("unknown field recv.%s", x.Sel.Name)
			}
			if id.Name == "p0" {
				if v, t, ok := tr.childVar(x.Sel.Name); ok {
					return v, t
				}
			}
			if tr.vars[id.Name] == tOper {
				op, ok := cmpOps[x.Sel.Name]
				if !ok {
					fail("unknown Operation method %s", x.Sel.Name)
				}
				t := tr.fresh()
				tr.pre = append(tr.pre, "match Go.methodVal "+id.Name+" "+op+" recv with\n"+tr.errArm()+"| .ok "+t+" =>\n")
				return t, tMeth
			}
		}
	case *ast.CallExpr:
		return tr.call(x, want)
	case *ast.TypeAssertExpr:
		a, at := tr.expr(x.X, "")
		tn := tr.render(x.Type)
		t := tr.fresh()
		switch {
		case at == tRet && tn == "bool":
			tr.pre = append(tr.pre, "match Go.assertBool "+a+" recv with\n"+tr.errArm()+"| .ok "+t+" =>\n")
			return t, tBool
		case at == tValue && tn == "map[string]any":
			tr.pre = append(tr.pre, "match Go.assertMap "+a+" with\n| none => "+tr.raise("notAMap")+"\n| some "+t+" =>\n")
			return t, tMap
		case at == tROp && tn == "[]int":
			tr.pre = append(tr.pre, "match Go.assertInts "+a+" with\n| none => "+tr.raise("typeAssert")+"\n| some "+t+" =>\n")
			return t, tInts
		case at == tROp && tn == "[]float64":
			tr.pre = append(tr.pre, "match Go.assertFloats "+a+" with\n| none => "+tr.raise("typeAssert")+"\n| some "+t+" =>\n")
			return t, tFloats
		case at == tROp && tn == "[]string":
			tr.pre = append(tr.pre, "match Go.assertStrs "+a+" with\n| none => "+tr.raise("typeAssert")+"\n| some "+t+" =>\n")
			return t, tStrs
		}
		fail("type assertion %s on %s", tn, at)
	case *ast.IndexExpr:
		a, at := tr.expr(x.X, "")
		switch at {
		case tMap:
			k, _ := tr.expr(x.Index, tText)
			return "(Go.mapIndex " + a + " " + k + ")", tValue
		case tValues:
			i, _ := tr.expr(x.Index, tInt)
			t := tr.fresh()
			tr.pre = append(tr.pre, "match "+tr.liftPM("Go.index "+a+" "+i)+" with\n"+tr.errArm()+"| .ok "+t+" =>\n")
			return t, tValue
		}
		fail("index on %s", at)
	case *ast.SliceExpr:
		a, at := tr.expr(x.X, "")
		if x.Slice3 || x.High == nil {
			fail("slice form")
		}
		hi, _ := tr.expr(x.High, tInt)
		t := tr.fresh()
		switch {
		case at == tText && x.Low != nil:
			lo, _ := tr.expr(x.Low, tInt)
			tr.pre = append(tr.pre, "match "+tr.liftPM("Go.substr "+a+" "+lo+" "+hi)+" with\n"+tr.errArm()+"| .ok "+t+" =>\n")
			return t, tBytes
		case x.Low == nil && (at == tValues || at == tInts || at == tFloats || at == tStrs):
			tr.pre = append(tr.pre, "match "+tr.liftPM("Go.sliceTo "+a+" "+hi)+" with\n"+tr.errArm()+"| .ok "+t+" =>\n")
			return t, at
		}
		fail("slice of %s", at)
	}
	fail("unsupported expression %s", tr.render(e))
	return "", ""
}

// liftPM: a helper-level panic inside a visitor method carries the calls made so far
func (tr *translator) liftPM(call string) string {
	if tr.cur.recvT == tJ {
		return "Go.lift recv (" + call + ")"
	}
	return call
}

func (tr *translator) binary(x *ast.BinaryExpr) (string, gt) {
	switch x.Op {
	case token.LOR, token.LAND:
		// `X == nil || X.IsEmpty()`  ->  X.isNone
		if x.Op == token.LOR {
			if l, ok := x.X.(*ast.BinaryExpr); ok && l.Op == token.EQL && isNilIdent(l.Y) {
				if c, ok := x.Y.(*ast.CallExpr); ok {
					if se, ok := c.Fun.(*ast.SelectorExpr); ok && se.Sel.Name == "IsEmpty" && tr.render(se.X) == tr.render(l.X) {
						a, at := tr.expr(l.X, "")
						if isOpt(at) {
							return a + ".isNone", tBool
						}
					}
				}
			}
		}
		a, _ := tr.expr(x.X, tBool)
		n := len(tr.pre)
		b, _ := tr.expr(x.Y, tBool)
		if len(tr.pre) != n {
			fail("effects in the right operand of a short-circuit operator")
		}
		if x.Op == token.LOR {
			return "(" + a + " || " + b + ")", tBool
		}
		return "(" + a + " && " + b + ")", tBool
	case token.EQL, token.NEQ:
		neg := x.Op == token.NEQ
		wrap := func(s string) (string, gt) {
			if neg {
				return "(!" + s + ")", tBool
			}
			return s, tBool
		}
		if isNilIdent(x.Y) {
			a, at := tr.expr(x.X, "")
			switch {
			case at == tValue:
				return wrap("(Go.isNilV " + a + ")")
			case at == tROp:
				return wrap("(Go.isNilR " + a + ")")
			case at == tGoVal:
				return wrap("(Go.isNilG " + a + ")")
			case at == tErr || at == tRet || at == tOper || at == tMeth || isOpt(at):
				if neg {
					return a + ".isSome", tBool
				}
				return a + ".isNone", tBool
			}
			fail("comparison of %s with nil", at)
		}
		a, at := tr.expr(x.X, "")
		b, bt := tr.expr(x.Y, at)
		if at == tFloat && bt == tFloat {
			if neg {
				return "(F64.ne " + a + " " + b + ")", tBool
			}
			return "(F64.eq " + a + " " + b + ")", tBool
		}
		if at != bt || !(at == tText || at == tKind || at == tInt || at == tBool || at == tBytes) {
			fail("comparison of %s and %s", at, bt)
		}
		return wrap("(" + a + " == " + b + ")")
	case token.GTR, token.LSS, token.GEQ, token.LEQ:
		a, at := tr.expr(x.X, "")
		b, _ := tr.expr(x.Y, at)
		switch at {
		case tInt:
			return "(decide (" + a + " " + x.Op.String() + " " + b + "))", tBool
		case tFloat:
			fn := map[token.Token]string{token.GTR: "F64.gt", token.LSS: "F64.lt", token.GEQ: "F64.ge", token.LEQ: "F64.le"}[x.Op]
			return "(" + fn + " " + a + " " + b + ")", tBool
		case tBytes:
			fn := map[token.Token]string{token.GTR: "Go.strGt", token.LSS: "Go.strLt", token.GEQ: "Go.strGe", token.LEQ: "Go.strLe"}[x.Op]
			return "(" + fn + " " + a + " " + b + ")", tBool
		}
		fail("ordered comparison of %s", at)
		return "", ""
	case token.SUB, token.ADD:
		a, _ := tr.expr(x.X, tInt)
		b, _ := tr.expr(x.Y, tInt)
		return "(" + a + " " + x.Op.String() + " " + b + ")", tInt
	}
	fail("operator %s", x.Op)
	return "", ""
}

// ---------------------------------------------------------------------------------------------------------------
// calls

func (tr *translator) call(x *ast.CallExpr, want gt) (string, gt) {
	owner := recvTypeName(tr.cur.decl, tr.render)
	fun := tr.render(x.Fun)
	// ---- built-ins and library functions
	switch fun {
	case "len":
		a, at := tr.expr(x.Args[0], "")
		if at == tText {
			return "(Go.strLen " + a + ")", tInt
		}
		if at == tValues || at == tInts || at == tFloats || at == tStrs {
			return "(Go.len " + a + ")", tInt
		}
		fail("len of %s", at)
	case "append":
		if len(x.Args) != 2 || x.Ellipsis != token.NoPos {
			fail("append form")
		}
		a, at := tr.expr(x.Args[0], "")
		el := map[gt]gt{tValues: tValue, tInts: tInt, tFloats: tFloat, tStrs: tBytes}[at]
		if el == "" {
			fail("append to %s", at)
		}
		b, _ := tr.expr(x.Args[1], el)
		return "(Go.append " + a + " " + b + ")", at
	case "make":
		t := goTypeToGt(tr.render(x.Args[0]), "")
		if len(x.Args) == 2 && tr.render(x.Args[1]) == "0" && (t == tInts || t == tFloats || t == tStrs || t == tValues) {
			return "[]", t
		}
		fail("make form")
	case "int", "int64":
		if opsProfile {
			a, at := tr.expr(x.Args[0], "")
			if at == tFloat {
				return "(Go.intOfFloat " + a + ")", tInt
			}
			if at == tInt {
				return a, tInt
			}
			fail("int(%s)", at)
		}
		return tr.expr(x.Args[0], tInt)
	case "float64":
		a, at := tr.expr(x.Args[0], "")
		if at == tInt {
			return "(F64.ofInt " + a + ")", tFloat
		}
		if at == tFloat {
			return a, tFloat
		}
		fail("float64(%s)", at)
	case "newErrInvalidOperand":
		for _, a := range x.Args {
			tr.pureOperandArg(a)
		}
		return "(GErr.op OpErr.invalidOperand)", tGErr
	case "strings.ToLower":
		a, _ := tr.expr(x.Args[0], tBytes)
		return "(lower " + a + ")", tBytes
	case "strings.Contains", "strings.HasPrefix", "strings.HasSuffix":
		a, _ := tr.expr(x.Args[0], tBytes)
		b, _ := tr.expr(x.Args[1], tBytes)
		fn := map[string]string{"strings.Contains": "Go.contains", "strings.HasPrefix": "Go.hasPrefix", "strings.HasSuffix": "Go.hasSuffix"}[fun]
		return "(" + fn + " " + a + " " + b + ")", tBool
	case "newNestedError":
		a, _ := tr.expr(x.Args[0], tErr)
		m, ok := lit(x.Args[1])
		if !ok {
			fail("newNestedError message is not a literal")
		}
		return "(Go.newNestedError " + a + " " + leanStr(m) + ")", tGErr
	case "errors.New", "fmt.Errorf":
		m, ok := lit(x.Args[0])
		if !ok {
			fail("error message is not a literal")
		}
		for _, a := range x.Args[1:] {
			tr.pureArg(a)
		}
		return "(GErr.new " + leanStr(m) + ")", tGErr
	}
	se, isSel := x.Fun.(*ast.SelectorExpr)
	// ---- X.Set(ErrVals{…}) on a *NestedError
	if isSel && se.Sel.Name == "Set" && len(x.Args) == 1 {
		if cl, ok := x.Args[0].(*ast.CompositeLit); ok && tr.render(cl.Type) == "ErrVals" {
			a, at := tr.expr(se.X, "")
			if at != tGErr {
				fail("Set on %s", at)
			}
			var keys []string
			for _, el := range cl.Elts {
				kv := el.(*ast.KeyValueExpr)
				k, ok := lit(kv.Key)
				if !ok {
					fail("ErrVals key is not a literal")
				}
				tr.pureArg(kv.Value)
				keys = append(keys, leanStr(k))
			}
			return "(GErr.Set " + a + " [" + strings.Join(keys, ", ") + "])", tGErr
		}
	}
	// ---- Accept
	if isAcceptCall(x) {
		if len(x.Args) != 1 || tr.render(x.Args[0]) != "recv" {
			fail("Accept with another visitor")
		}
		a, at := tr.expr(se.X, "")
		acc, ok := acceptOf(at)
		if !ok {
			fail("Accept on %s", at)
		}
		t := tr.fresh()
		if isOpt(at) {
			t0 := tr.fresh()
			tr.pre = append(tr.pre, "match "+a+" with\n| none => "+tr.raise("nilDeref")+"\n| some "+t0+" =>\n")
			a = t0
		}
		tr.pre = append(tr.pre, "match "+acc+" "+a+" recv with\n"+tr.errArm()+"| .ok ("+t+", recv) =>\n")
		return t, tRet
	}
	// ---- accessors of the context
	if isSel {
		if id, ok := se.X.(*ast.Ident); ok && id.Name == "p0" && tr.schema != nil {
			acc := se.Sel.Name
			if len(x.Args) == 1 {
				acc += "#" + tr.render(x.Args[0])
			}
			if v, t, ok := tr.childVar(acc); ok {
				return v, t
			}
			fail("unknown accessor %s of the context", acc)
		}
		if len(x.Args) == 0 && (se.Sel.Name == "GetText" || se.Sel.Name == "GetTokenType") {
			a, at := tr.expr(se.X, "")
			switch {
			case at == tTok && se.Sel.Name == "GetText":
				return a + ".text", tText
			case at == tTok && se.Sel.Name == "GetTokenType":
				return a + ".kind", tKind
			case at == tPath && se.Sel.Name == "GetText":
				return "(Cst.pathText " + a + ")", tText
			}
			fail("%s on %s", se.Sel.Name, at)
		}
	}
	if opsProfile && isSel && len(x.Args) <= 1 {
		if id, ok := se.X.(*ast.Ident); ok {
			switch vt := tr.vars[id.Name]; {
			case vt == tGoVal && se.Sel.Name == "String" && len(x.Args) == 0:
				if !tr.cur.mutates {
					fail("String() in a function not marked as reaching it")
				}
				t := tr.fresh()
				tr.pre = append(tr.pre, "match Go.callString "+id.Name+" recv with\n"+tr.errArm()+"| .ok ("+t+", recv) =>\n")
				return t, tBytes
			case vt == tVer && len(x.Args) == 1:
				if fn, ok := map[string]string{"EQ": "Go.verEQ", "NE": "Go.verNE", "GT": "Go.verGT", "LT": "Go.verLT", "GE": "Go.verGE", "LE": "Go.verLE"}[se.Sel.Name]; ok {
					b, _ := tr.expr(x.Args[0], tVer)
					return "(" + fn + " " + id.Name + " " + b + ")", tBool
				}
			}
		}
	}
	terms, types := tr.callN(x, owner, fun)
	if len(terms) != 1 {
		fail("call %s used as a single value has %d results", fun, len(terms))
	}
	return terms[0], types[0]
}

// callN: calls with several results and/or effects: strconv, the selected Operation method, the file's own functions
func (tr *translator) callN(x *ast.CallExpr, owner, fun string) ([]string, []gt) {
	switch fun {
	case "strconv.ParseBool":
		a, _ := tr.expr(x.Args[0], tText)
		v, e := tr.fresh(), tr.fresh()
		tr.pre = append(tr.pre, "let ("+v+", "+e+") := Go.ParseBool "+a+"\n")
		return []string{v, e}, []gt{tBool, tErr}
	case "strconv.ParseInt":
		if len(x.Args) != 3 || tr.render(x.Args[1]) != "10" || tr.render(x.Args[2]) != "64" {
			fail("ParseInt with another base or size")
		}
		a, at := tr.expr(x.Args[0], "")
		if at != tText && at != tLong {
			fail("ParseInt of %s", at)
		}
		v, e := tr.fresh(), tr.fresh()
		tr.pre = append(tr.pre, "let ("+v+", "+e+") := Go.ParseInt "+a+"\n")
		return []string{v, e}, []gt{tInt, tErr}
	case "semver.Make":
		a, _ := tr.expr(x.Args[0], tBytes)
		v, e := tr.fresh(), tr.fresh()
		tr.pre = append(tr.pre, "let ("+v+", "+e+") := Go.semverMake "+a+"\n")
		return []string{v, e}, []gt{tVer, tErr}
	case "strconv.ParseFloat":
		if len(x.Args) != 2 || tr.render(x.Args[1]) == "32" {
			fail("ParseFloat with 32 bits")
		}
		a, _ := tr.expr(x.Args[0], tText)
		v, e := tr.fresh(), tr.fresh()
		tr.pre = append(tr.pre, "let ("+v+", "+e+") := Go.ParseFloat "+a+"\n")
		return []string{v, e}, []gt{tFloat, tErr}
	}
	if id, ok := x.Fun.(*ast.Ident); ok && tr.vars[id.Name] == tMeth {
		if len(x.Args) != 2 {
			fail("Operation method with %d arguments", len(x.Args))
		}
		l, _ := tr.expr(x.Args[0], tValue)
		r, _ := tr.expr(x.Args[1], tROp)
		v, e := tr.fresh(), tr.fresh()
		tr.pre = append(tr.pre, "match Go.callOp ops "+id.Name+" "+l+" "+r+" recv with\n"+tr.errArm()+"| .ok ("+v+", "+e+", recv) =>\n")
		return []string{v, e}, []gt{tBool, tErr}
	}
	key, recvExpr := tr.calleeKey(owner, x)
	if key == "" {
		fail("call of %s", fun)
	}
	fi := tr.fns[key]
	if fi.visit || fi.lean == "" {
		fail("direct call of %s", key)
	}
	if len(x.Args) != len(fi.params) {
		fail("arity of %s", key)
	}
	callTxt := fi.lean
	if opsProfile {
		callTxt += " lower"
	} else if fi.lean == "J_Visit" {
		callTxt += " ops"
	}
	recvTerm := ""
	if opsProfile {
		if fi.mutates {
			recvTerm = "recv"
			callTxt += " recv"
		}
	} else if recvExpr != nil {
		recvTerm = tr.render(recvExpr) // recv or recv.stack
		callTxt += " " + recvTerm
	}
	for i, a := range x.Args {
		t, _ := tr.expr(a, fi.params[i])
		callTxt += " " + t
	}
	if fi.panics && fi.recvT != tJ && tr.cur.recvT == tJ {
		callTxt = "Go.lift recv (" + callTxt + ")"
	}
	if opsProfile && fi.mutates && !tr.cur.mutates {
		fail("a function that cannot reach String() calls one that can")
	}
	var res []string
	var pat []string
	resTypes := []gt{fi.result}
	if len(fi.results) > 1 {
		resTypes = fi.results
		for range fi.results {
			res = append(res, tr.fresh())
		}
		pat = append(pat, "("+strings.Join(res, ", ")+")")
	} else if fi.result != tUnit {
		r := tr.fresh()
		res = append(res, r)
		pat = append(pat, r)
	}
	upd := ""
	if fi.mutates {
		r := tr.fresh()
		pat = append(pat, r)
		if recvTerm == "recv" {
			upd = "let recv := " + r + "\n"
		} else {
			upd = "let recv := { recv with stack := " + r + " }\n"
		}
	}
	switch {
	case fi.panics:
		tr.pre = append(tr.pre, "match "+callTxt+" with\n"+tr.errArm()+"| .ok "+tuple(pat)+" =>\n"+upd)
	case fi.mutates || len(res) > 1:
		tr.pre = append(tr.pre, "let "+tuple(pat)+" := "+callTxt+"\n"+upd)
	default:
		if fi.result == tUnit {
			return nil, nil
		}
		return []string{"(" + callTxt + ")"}, []gt{fi.result}
	}
	if fi.result == tUnit {
		return nil, nil
	}
	return res, resTypes
}

// ---------------------------------------------------------------------------------------------------------------
// statements

type ctl struct {
	retRaw func(resultTuple string) string // how a complete result (value and receiver) leaves the current construct
	tail   func() string                   // what falling off the end of the list yields
	top    bool                            // the function's outermost block (where `defer` is allowed)
}

func (tr *translator) mon() bool { return tr.cur.panics }

func (tr *translator) ok(s string) string {
	if tr.mon() {
		return ".ok " + s
	}
	return s
}

func (tr *translator) resultTuple(val string) string {
	var parts []string
	if tr.cur.result != tUnit {
		parts = append(parts, val)
	}
	if tr.cur.mutates {
		parts = append(parts, "recv")
	}
	return tuple(parts)
}

func (tr *translator) doReturn(val string, c ctl) string {
	out := ""
	if len(tr.deferred) > 0 && tr.cur.result != tUnit {
		t := tr.fresh()
		out += "let " + t + " := " + val + "\n"
		val = t
	}
	// deferred calls run last-registered first
	var run []ast.Stmt
	for i := len(tr.deferred) - 1; i >= 0; i-- {
		run = append(run, tr.deferred[i]...)
	}
	saved := tr.deferred
	tr.deferred = nil
	out += tr.stmts(run, ctl{retRaw: func(string) string { fail("return inside a deferred function"); return "" },
		tail: func() string { return c.retRaw(tr.resultTuple(val)) }})
	tr.deferred = saved
	return out
}

type branch struct {
	cond  ast.Expr // nil: else / default
	pat   string   // for match chains
	body  []ast.Stmt
	bindT gt // type of the variable a type switch binds in this branch ("" = that of the subject)
}

func (tr *translator) stmts(list []ast.Stmt, c ctl) string {
	if len(list) == 0 {
		return c.tail()
	}
	s := list[0]
	rest := list[1:]
	sub := ctl{retRaw: c.retRaw, tail: c.tail}
	cont := func() string { return tr.stmts(rest, ctl{retRaw: c.retRaw, tail: c.tail, top: c.top}) }
	switch x := s.(type) {
	case *ast.BlockStmt:
		return tr.stmts(append(append([]ast.Stmt{}, x.List...), rest...), c)
	case *ast.EmptyStmt:
		return cont()
	case *ast.ReturnStmt:
		switch len(x.Results) {
		case 0:
			return tr.doReturn("", c)
		case 1:
			if len(tr.cur.results) > 1 {
				// return f(...) of a function with the same results
				call, ok := x.Results[0].(*ast.CallExpr)
				if !ok {
					fail("return of one expression from a function with several results")
				}
				terms, types := tr.callN(call, recvTypeName(tr.cur.decl, tr.render), tr.render(call.Fun))
				if len(terms) != len(tr.cur.results) {
					fail("result count mismatch")
				}
				for i := range terms {
					terms[i] = tr.coerce(terms[i], types[i], tr.cur.results[i])
				}
				return tr.flush() + tr.doReturn("("+strings.Join(terms, ", ")+")", c)
			}
			v, _ := tr.expr(x.Results[0], tr.cur.result)
			return tr.flush() + tr.doReturn(v, c)
		}
		if len(x.Results) == len(tr.cur.results) {
			var vs []string
			for i, r := range x.Results {
				v, _ := tr.expr(r, tr.cur.results[i])
				vs = append(vs, v)
			}
			return tr.flush() + tr.doReturn("("+strings.Join(vs, ", ")+")", c)
		}
		fail("return of several values")
	case *ast.DeclStmt:
		gd, ok := x.Decl.(*ast.GenDecl)
		if !ok || gd.Tok != token.VAR {
			fail("declaration %s", tr.render(x))
		}
		out := ""
		for _, sp := range gd.Specs {
			vs := sp.(*ast.ValueSpec)
			if len(vs.Values) != 0 {
				// var x T = e  /  var x = e
				if len(vs.Values) != len(vs.Names) {
					fail("var with a multi-valued initialiser")
				}
				for i, nm := range vs.Names {
					want := gt("")
					if vs.Type != nil {
						want = goTypeToGt(tr.render(vs.Type), "")
						if want == "" {
							fail("var of type %s", tr.render(vs.Type))
						}
					}
					term, t := tr.expr(vs.Values[i], want)
					if t == tNil {
						fail("nil without a type")
					}
					tr.vars[nm.Name] = t
					out += tr.flush() + "let " + nm.Name + " : " + t.lean() + " := " + term + "\n"
				}
				continue
			}
			if vs.Type == nil {
				fail("var without a type")
			}
			t := goTypeToGt(tr.render(vs.Type), "")
			z := zeroOf(t)
			if z == "" {
				fail("var of type %s", tr.render(vs.Type))
			}
			for _, nm := range vs.Names {
				tr.vars[nm.Name] = t
				out += "let " + nm.Name + " : " + t.lean() + " := " + z + "\n"
			}
		}
		return out + cont()
	case *ast.ExprStmt:
		call, ok := x.X.(*ast.CallExpr)
		if !ok {
			fail("expression statement %s", tr.render(x))
		}
		if isAcceptCall(call) {
			tr.expr(call, "")
		} else {
			tr.callN(call, recvTypeName(tr.cur.decl, tr.render), tr.render(call.Fun))
		}
		return tr.flush() + cont()
	case *ast.DeferStmt:
		fl, ok := x.Call.Fun.(*ast.FuncLit)
		if !ok || len(x.Call.Args) != 0 || !c.top {
			fail("defer form")
		}
		if containsReturn(fl.Body.List) || tr.canPanic(fl.Body.List) {
			fail("deferred function that returns a value or may panic")
		}
		tr.deferred = append(tr.deferred, fl.Body.List)
		return cont()
	case *ast.AssignStmt:
		return tr.assign(x) + cont()
	case *ast.RangeStmt:
		if !opsProfile || x.Tok != token.DEFINE || x.Value == nil {
			fail("range form")
		}
		if k, ok := x.Key.(*ast.Ident); !ok || k.Name != "_" {
			fail("range with an index variable")
		}
		v, ok := x.Value.(*ast.Ident)
		if !ok {
			fail("range value")
		}
		xs, xt := tr.expr(x.X, "")
		el := map[gt]gt{tInts: tInt, tFloats: tFloat, tStrs: tBytes}[xt]
		if el == "" {
			fail("range over %s", xt)
		}
		pre := tr.flush()
		for _, a := range tr.assignedOuter(x.Body.List) {
			if a != "recv" {
				fail("a loop body that assigns the outer variable %s", a)
			}
		}
		sv := map[string]gt{}
		for k2, t2 := range tr.vars {
			sv[k2] = t2
		}
		tr.vars[v.Name] = el
		r := tr.fresh()
		var out string
		if tr.mon() && tr.canPanic(x.Body.List) {
			b := tr.stmts(x.Body.List, ctl{retRaw: func(t string) string { return ".ok (some " + t + ", recv)" }, tail: func() string { return ".ok (none, recv)" }})
			out = pre + "match Go.forRangeM " + xs + " (fun " + v.Name + " recv => (" + b + ")) recv with\n" + tr.errArm() + "| .ok (some " + r + ", _) => " + c.retRaw(r) + "\n| .ok (none, recv) =>\n"
		} else {
			b := tr.stmts(x.Body.List, ctl{retRaw: func(t string) string { return "some " + t }, tail: func() string { return "none" }})
			out = pre + "match Go.forRange " + xs + " (fun " + v.Name + " => (" + b + ")) with\n| some " + r + " => " + c.retRaw(r) + "\n| none =>\n"
		}
		tr.vars = sv
		return out + cont()
	case *ast.IfStmt:
		if x.Init != nil {
			y := *x
			y.Init = nil
			return tr.stmts(append([]ast.Stmt{x.Init, &y}, rest...), c)
		}
		var brs []branch
		var cur ast.Stmt = x
		for cur != nil {
			switch y := cur.(type) {
			case *ast.IfStmt:
				if y.Init != nil {
					fail("if with an init statement")
				}
				brs = append(brs, branch{cond: y.Cond, body: y.Body.List})
				cur = y.Else
			case *ast.BlockStmt:
				brs = append(brs, branch{body: y.List})
				cur = nil
			}
		}
		return tr.chain("", brs, rest, c, sub)
	case *ast.SwitchStmt:
		if x.Init != nil || x.Tag == nil {
			fail("switch form")
		}
		tag, tt := tr.expr(x.Tag, "")
		pre := tr.flush()
		var brs []branch
		var def *branch
		for _, cl := range x.Body.List {
			cc := cl.(*ast.CaseClause)
			for _, st := range cc.Body {
				if bs, ok := st.(*ast.BranchStmt); ok {
					fail("%s in a switch", bs.Tok)
				}
			}
			if cc.List == nil {
				def = &branch{body: cc.Body}
				continue
			}
			switch tt {
			case tErr:
				if len(cc.List) != 1 {
					fail("several error values in one case")
				}
				p, ok := errPatterns[tr.render(cc.List[0])]
				if !ok {
					fail("case %s of an error switch", tr.render(cc.List[0]))
				}
				brs = append(brs, branch{pat: p, body: cc.Body})
			case tKind, tText, tInt:
				var cond ast.Expr
				for _, e := range cc.List {
					var eq ast.Expr = &ast.BinaryExpr{X: x.Tag, Op: token.EQL, Y: e}
					if cond == nil {
						cond = eq
					} else {
						cond = &ast.BinaryExpr{X: cond, Op: token.LOR, Y: eq}
					}
				}
				brs = append(brs, branch{cond: cond, body: cc.Body})
			default:
				fail("switch on %s", tt)
			}
		}
		if def == nil {
			def = &branch{}
		}
		brs = append(brs, *def)
		if tt == tErr {
			return pre + tr.chain(tag, brs, rest, c, sub)
		}
		return pre + tr.chain("", brs, rest, c, sub)
	case *ast.TypeSwitchStmt:
		if x.Init != nil {
			fail("type switch form")
		}
		var subj ast.Expr
		bind := ""
		switch a := x.Assign.(type) {
		case *ast.ExprStmt:
			subj = a.X.(*ast.TypeAssertExpr).X
		case *ast.AssignStmt:
			subj = a.Rhs[0].(*ast.TypeAssertExpr).X
			bind = a.Lhs[0].(*ast.Ident).Name
		}
		tag, tt := tr.expr(subj, "")
		pre := tr.flush()
		var brs []branch
		var def *branch
		covered := map[string]bool{}
		for _, cl := range x.Body.List {
			cc := cl.(*ast.CaseClause)
			if cc.List == nil {
				def = &branch{body: cc.Body}
				continue
			}
			if len(cc.List) != 1 {
				fail("several types in one case")
			}
			tn := tr.render(cc.List[0])
			switch tt {
			case tErr:
				p, ok := errPatterns[tn]
				if !ok {
					fail("case %s of a type switch on an error", tn)
				}
				brs = append(brs, branch{pat: p, body: cc.Body})
			case tGoVal:
				ctor, ok := map[string][2]string{"int": {"GoVal.int", string(tInt)}, "int32": {"GoVal.int32", string(tInt)}, "int64": {"GoVal.int64", string(tInt)}, "float64": {"GoVal.float", string(tFloat)},
					"string": {"GoVal.str", string(tBytes)}, "bool": {"GoVal.bool", string(tBool)}, "fmt.Stringer": {"GoVal.stringer", ""}}[tn]
				if !ok {
					fail("case %s of a type switch on an operand", tn)
				}
				br := branch{body: cc.Body}
				if ctor[1] == "" {
					br.pat = ctor[0] + " _ _"
					br.bindT = tGoVal
				} else if bind != "" && bind != "unused" {
					br.pat = ctor[0] + " " + bind
					br.bindT = gt(ctor[1])
				} else {
					br.pat = ctor[0] + " _"
				}
				brs = append(brs, br)
			case tQuery:
				p, ok := map[string]string{"*LogicalExpContext": ".logicalExp _ _ _", "*CompareExpContext": ".compareExp _ _ _", "*ParenExpContext": ".parenExp _ _", "*PresentExpContext": ".presentExp _"}[tn]
				if !ok {
					fail("case %s of a type switch on a parse tree", tn)
				}
				covered[tn] = true
				brs = append(brs, branch{pat: p, body: cc.Body})
			default:
				fail("type switch on %s", tt)
			}
		}
		if bind != "" && bind != "unused" {
			tr.vars[bind] = tt
			if tt == tGoVal {
				tr.bindName, tr.bindSubj = bind, tag
			} else {
				pre += "let " + bind + " := " + tag + "\n"
			}
		}
		if tt == tQuery && len(covered) == 4 {
			// every alternative of `query` has its case: the default branch is dead for trees of the parser
			tr.notes = append(tr.notes, tr.cur.key+": default branch of the type switch dropped (all four alternatives of `query` are covered)")
			def = nil
		} else if def == nil {
			def = &branch{}
		}
		if def != nil {
			brs = append(brs, *def)
		}
		return pre + tr.chain(tag, brs, rest, c, sub)
	}
	fail("unsupported statement %s", tr.render(s))
	return ""
}

// chain: a multi-way conditional (if/else-if/else, switch, type switch) followed by `rest`
func (tr *translator) chain(matchOn string, brs []branch, rest []ast.Stmt, c ctl, sub ctl) string {
	if matchOn == "" && brs[len(brs)-1].cond != nil {
		brs = append(brs, branch{}) // the implicit empty else
	}
	emit := func(bodies []string) string {
		var b strings.Builder
		if matchOn != "" {
			b.WriteString("match " + matchOn + " with\n")
			for i, br := range brs {
				p := br.pat
				if p == "" {
					p = "_"
				}
				b.WriteString("| " + p + " => (" + bodies[i] + ")\n")
			}
			return b.String()
		}
		pre := ""
		for i, br := range brs {
			if br.cond == nil {
				b.WriteString("(" + bodies[i] + ")")
				break
			}
			cnd, _ := tr.expr(br.cond, tBool)
			if i == 0 {
				pre = tr.flush()
			} else if len(tr.pre) != 0 {
				fail("effects in the condition of a later branch")
			}
			b.WriteString("if " + cnd + " then (" + bodies[i] + ") else\n")
		}
		return pre + b.String()
	}
	bindName, bindSubj := tr.bindName, tr.bindSubj
	tr.bindName, tr.bindSubj = "", ""
	body := func(br branch, list []ast.Stmt, cc ctl) string {
		pfx := ""
		if matchOn != "" && bindName != "" {
			if br.bindT != "" && br.bindT != tGoVal {
				tr.vars[bindName] = br.bindT
			} else {
				tr.vars[bindName] = tGoVal
				pfx = "let " + bindName + " := " + bindSubj + "\n"
			}
		}
		return pfx + tr.stmts(list, cc)
	}
	nAlways, nContain := 0, 0
	for _, br := range brs {
		if alwaysReturns(br.body) {
			nAlways++
		}
		if containsReturn(br.body) {
			nContain++
		}
	}
	last := brs[len(brs)-1]
	bodies := make([]string, len(brs))
	snapshot := func() map[string]gt {
		m := map[string]gt{}
		for k, v := range tr.vars {
			m[k] = v
		}
		return m
	}
	switch {
	case nAlways == len(brs):
		for i, br := range brs {
			sv := snapshot()
			bodies[i] = body(br, br.body, sub)
			tr.vars = sv
		}
		return emit(bodies)
	case nAlways == len(brs)-1 && !containsReturn(last.body) && (matchOn == "" || true) && nContain == nAlways:
		// every branch but the last returns: the last one continues with the rest
		for i, br := range brs[:len(brs)-1] {
			sv := snapshot()
			bodies[i] = body(br, br.body, sub)
			tr.vars = sv
			_ = i
		}
		bodies[len(brs)-1] = body(last, append(append([]ast.Stmt{}, last.body...), rest...), ctl{retRaw: c.retRaw, tail: c.tail, top: c.top})
		return emit(bodies)
	}
	// the variables the branches may change
	var all []ast.Stmt
	for _, br := range brs {
		all = append(all, br.body...)
	}
	vs := tr.assignedOuter(all)
	mon := tr.mon() && tr.canPanic(all)
	wrapOK := func(s string) string {
		if mon {
			return ".ok " + s
		}
		return s
	}
	contTxt := func() string { return tr.stmts(rest, ctl{retRaw: c.retRaw, tail: c.tail, top: c.top}) }
	if nContain == 0 {
		for i, br := range brs {
			sv := snapshot()
			bodies[i] = body(br, br.body, ctl{retRaw: sub.retRaw, tail: func() string { return wrapOK(tuple(vs)) }})
			tr.vars = sv
		}
		bodyTxt := emit(bodies)
		if mon {
			return "match ((" + bodyTxt + ") : " + tr.monName() + " " + tr.tupleType(vs) + ") with\n" + tr.errArm() + "| .ok " + tuple(vs) + " =>\n" + contTxt()
		}
		return "let " + tuple(vs) + " := (" + bodyTxt + ")\n" + contTxt()
	}
	// some paths return, others fall through
	mon = tr.mon()
	wrapOK = func(s string) string {
		if mon {
			return ".ok " + s
		}
		return s
	}
	for i, br := range brs {
		sv := snapshot()
		bodies[i] = body(br, br.body, ctl{retRaw: func(t string) string { return wrapOK("(Sum.inl " + t + ")") }, tail: func() string { return wrapOK("(Sum.inr " + tuple(vs) + ")") }})
		tr.vars = sv
	}
	bodyTxt := emit(bodies)
	r := tr.fresh()
	if mon {
		return "match ((" + bodyTxt + ") : " + tr.monName() + " (Sum " + tr.plainResult() + " " + tr.tupleType(vs) + ")) with\n" + tr.errArm() + "| .ok (Sum.inl " + r + ") => " + c.retRaw(r) + "\n| .ok (Sum.inr " + tuple(vs) + ") =>\n" + contTxt()
	}
	return "match ((" + bodyTxt + ") : Sum " + tr.plainResult() + " " + tr.tupleType(vs) + ") with\n| Sum.inl " + r + " => " + c.retRaw(r) + "\n| Sum.inr " + tuple(vs) + " =>\n" + contTxt()
}

func (tr *translator) assign(x *ast.AssignStmt) string {
	if x.Tok != token.ASSIGN && x.Tok != token.DEFINE {
		fail("assignment operator %s", x.Tok)
	}
	bindTo := func(l ast.Expr, term string, t gt) string {
		switch le := l.(type) {
		case *ast.Ident:
			if le.Name == "_" {
				return ""
			}
			if x.Tok == token.DEFINE {
				tr.vars[le.Name] = t
			} else if vt, ok := tr.vars[le.Name]; ok {
				term = tr.coerce(term, t, vt)
			} else {
				fail("assignment to unknown variable %s", le.Name)
			}
			if term == le.Name {
				return ""
			}
			return "let " + le.Name + " := " + term + "\n"
		case *ast.SelectorExpr:
			if id, ok := le.X.(*ast.Ident); ok && id.Name == "recv" {
				fields := jFields
				if tr.cur.recvT == tStack {
					fields = stackFields
				}
				ft, ok := fields[le.Sel.Name]
				if !ok {
					fail("unknown field recv.%s", le.Sel.Name)
				}
				return "let recv := { recv with " + le.Sel.Name + " := " + tr.coerce(term, t, ft) + " }\n"
			}
		}
		fail("assignment target %s", tr.render(l))
		return ""
	}
	if len(x.Lhs) == 1 && len(x.Rhs) == 1 {
		want := gt("")
		if se, ok := x.Lhs[0].(*ast.SelectorExpr); ok {
			if id, ok := se.X.(*ast.Ident); ok && id.Name == "recv" {
				if tr.cur.recvT == tStack {
					want = stackFields[se.Sel.Name]
				} else {
					want = jFields[se.Sel.Name]
				}
			}
		} else if id, ok := x.Lhs[0].(*ast.Ident); ok && x.Tok == token.ASSIGN {
			want = tr.vars[id.Name]
		}
		term, t := tr.expr(x.Rhs[0], want)
		if t == tNil {
			fail("nil without a type")
		}
		pre := tr.flush()
		return pre + bindTo(x.Lhs[0], term, t)
	}
	if len(x.Rhs) == 1 && len(x.Lhs) == 2 {
		if ta, ok := x.Rhs[0].(*ast.TypeAssertExpr); ok && ta.Type != nil {
			a, at := tr.expr(ta.X, "")
			fn, vt := "", gt("")
			if at == tGoVal {
				switch tr.render(ta.Type) {
				case "bool":
					fn, vt = "Go.asBool", tBool
				case "float64":
					fn, vt = "Go.asFloat", tFloat
				case "string":
					fn, vt = "Go.asStr", tBytes
				case "[]int":
					fn, vt = "Go.asInts", tInts
				case "[]float64":
					fn, vt = "Go.asFloats", tFloats
				case "[]string":
					fn, vt = "Go.asStrs", tStrs
				}
			}
			if fn == "" {
				fail("comma-ok assertion %s on %s", tr.render(ta.Type), at)
			}
			v, okv := tr.fresh(), tr.fresh()
			out := tr.flush() + "let (" + v + ", " + okv + ") := " + fn + " " + a + "\n"
			out += bindTo(x.Lhs[0], v, vt)
			out += bindTo(x.Lhs[1], okv, tBool)
			return out
		}
	}
	if len(x.Rhs) == 1 {
		call, ok := x.Rhs[0].(*ast.CallExpr)
		if !ok {
			fail("multiple assignment from %s", tr.render(x.Rhs[0]))
		}
		terms, types := tr.callN(call, recvTypeName(tr.cur.decl, tr.render), tr.render(call.Fun))
		if len(terms) != len(x.Lhs) {
			fail("assignment count mismatch")
		}
		out := tr.flush()
		for i, l := range x.Lhs {
			out += bindTo(l, terms[i], types[i])
		}
		return out
	}
	fail("parallel assignment")
	return ""
}

// ---------------------------------------------------------------------------------------------------------------
// functions and the file

func (tr *translator) resultType(fi *fnInfo) string {
	var parts []string
	if fi.result != tUnit {
		parts = append(parts, fi.result.lean())
	}
	if fi.mutates {
		parts = append(parts, fi.recvT.lean())
	}
	t := "Unit"
	if len(parts) == 1 {
		t = parts[0]
	} else if len(parts) == 2 {
		t = "(" + parts[0] + " × " + parts[1] + ")"
	}
	if fi.panics {
		if opsProfile {
			return "OM " + paren(t)
		}
		if fi.recvT == tJ {
			return "VM " + paren(t)
		}
		return "PM " + paren(t)
	}
	return t
}

func paren(s string) string {
	if strings.Contains(s, " ") && !strings.HasPrefix(s, "(") {
		return "(" + s + ")"
	}
	return s
}

func (tr *translator) body(fi *fnInfo) (out string, err string) {
	defer func() {
		if r := recover(); r != nil {
			u, ok := r.(unsupported)
			if !ok {
				panic(r)
			}
			err = u.why
		}
	}()
	tr.cur = fi
	tr.vars = map[string]gt{}
	tr.tmp = 0
	tr.pre = nil
	tr.deferred = nil
	tr.schema = nil
	if fi.visit {
		s := visitSchemas[fi.decl.Name.Name]
		tr.schema = &s
	}
	for i, p := range fi.params {
		tr.vars[fmt.Sprintf("p%d", i)] = p
	}
	c := ctl{top: true}
	c.retRaw = func(t string) string { return tr.ok(t) }
	c.tail = func() string {
		if fi.result != tUnit {
			fail("function may end without a return")
		}
		return tr.doReturn("", ctl{retRaw: c.retRaw})
	}
	out = tr.stmts(fi.decl.Body.List, c)
	return indent(out), ""
}

// indent: purely cosmetic (Lean does not care inside the parentheses the translation emits)
func indent(s string) string {
	lines := strings.Split(strings.TrimRight(s, "\n"), "\n")
	depth := 2
	var b strings.Builder
	for _, l := range lines {
		b.WriteString(strings.Repeat("  ", depth) + l + "\n")
	}
	return b.String()
}

// genVisitor: decls are the alpha-normalised functions of the hand-written files, keyed "Type.method" / "name".
// Returns the text of Generated/Visitor.lean and one status row per function of jsonquery_visitor_impl.go.
func genVisitor(fset *token.FileSet, decls map[string]*ast.FuncDecl, declFile map[string]string, tokenConsts [][2]string, render func(ast.Node) string) (string, [][2]string, []string) {
	tr := &translator{fset: fset, fns: map[string]*fnInfo{}, consts: map[string]string{}, render: render}
	for _, c := range tokenConsts {
		tr.consts["JsonQueryParser"+c[0]] = c[1]
	}
	// the visitor = the methods of JsonQueryVisitorImpl and objStack plus the plain functions of the package they call
	// (transitively), in whichever hand-written file of the package they live
	libFuncs := map[string]bool{"newNestedError": true}
	sel := map[string]bool{}
	var work []string
	for k, d := range decls {
		if o := recvTypeName(d, render); (o == "JsonQueryVisitorImpl" || o == "objStack" || k == "NewJsonQueryVisitorImpl") && d.Body != nil && strings.HasPrefix(declFile[k], "parser/") {
			sel[k] = true
			work = append(work, k)
		}
	}
	for len(work) > 0 {
		k := work[len(work)-1]
		work = work[:len(work)-1]
		ast.Inspect(decls[k].Body, func(n ast.Node) bool {
			if c, ok := n.(*ast.CallExpr); ok {
				if id, ok := c.Fun.(*ast.Ident); ok && !libFuncs[id.Name] && !sel[id.Name] {
					if d, ok := decls[id.Name]; ok && d.Recv == nil && d.Body != nil && strings.HasPrefix(declFile[id.Name], "parser/") {
						sel[id.Name] = true
						work = append(work, id.Name)
					}
				}
			}
			return true
		})
	}
	var keys []string
	for k := range sel {
		keys = append(keys, k)
	}
	sort.Strings(keys)
	var status [][2]string
	bad := func(k, why string) { status = append(status, [2]string{k, "unsupported: " + why}) }
	okAll := true
	for _, k := range keys {
		d := decls[k]
		owner := recvTypeName(d, render)
		fi := &fnInfo{key: k, decl: d, result: tUnit}
		name := d.Name.Name
		switch owner {
		case "":
			fi.lean = name
		case "objStack":
			fi.recvT, fi.lean = tStack, "objStack_"+name
		case "JsonQueryVisitorImpl":
			fi.recvT, fi.lean = tJ, "J_"+name
		default:
			bad(k, "method of an unknown type "+owner)
			okAll = false
			continue
		}
		_, fi.visit = visitSchemas[name]
		if fi.visit && owner != "JsonQueryVisitorImpl" {
			fi.visit = false
		}
		if d.Type.Params != nil {
			for _, f := range d.Type.Params.List {
				t := goTypeToGt(render(f.Type), "")
				n := len(f.Names)
				if n == 0 {
					n = 1
				}
				for i := 0; i < n; i++ {
					fi.params = append(fi.params, t)
				}
			}
		}
		if d.Type.Results != nil {
			if len(d.Type.Results.List) != 1 || len(d.Type.Results.List[0].Names) > 1 {
				bad(k, "several results")
				okAll = false
				continue
			}
			fi.result = goTypeToGt(render(d.Type.Results.List[0].Type), "")
			if fi.result == tText {
				fi.result = tBytes // a string a function returns is data, not a token text
			}
			if owner == "JsonQueryVisitorImpl" && fi.result == tValue {
				fi.result = tRet // the `interface{}` a visitor method returns
			}
		}
		tr.fns[k] = fi
	}
	// forwarders must have exactly the forwarding shape; they are passed through by the Cst types
	var forwards []string
	for name, acc := range forwarders {
		k := "JsonQueryVisitorImpl." + name
		fi, ok := tr.fns[k]
		if !ok {
			bad(k, "missing")
			okAll = false
			continue
		}
		want := "return p0." + acc + "().Accept(recv)"
		got := strings.TrimSuffix(strings.TrimPrefix(render(fi.decl.Body), "{ "), " }")
		if got != want {
			bad(k, "not a plain forwarder any more: "+got)
			okAll = false
		} else {
			status = append(status, [2]string{k, "forwards:" + acc})
			forwards = append(forwards, name+":"+acc)
		}
		delete(tr.fns, k)
	}
	sort.Strings(forwards)
	for _, a := range acceptOrder {
		for _, m := range a.arms {
			if _, ok := tr.fns["JsonQueryVisitorImpl."+m]; !ok {
				bad("JsonQueryVisitorImpl."+m, "missing")
				okAll = false
			}
		}
	}
	for _, fi := range tr.fns {
		for i, p := range fi.params {
			if fi.visit {
				fi.params[i] = "ctx"
			} else if p == "" {
				bad(fi.key, "parameter type")
				okAll = false
			}
		}
		if fi.result == "" {
			bad(fi.key, "result type")
			okAll = false
		}
	}
	if !okAll {
		return stubVisitor(status), status, nil
	}
	tr.analyse()
	// helpers in dependency order
	var helpers []*fnInfo
	done := map[string]bool{}
	var visit func(fi *fnInfo, depth int)
	visit = func(fi *fnInfo, depth int) {
		if done[fi.key] || fi.visit || depth > 50 {
			return
		}
		done[fi.key] = true
		owner := recvTypeName(fi.decl, render)
		ast.Inspect(fi.decl.Body, func(n ast.Node) bool {
			if c, ok := n.(*ast.CallExpr); ok {
				if k, _ := tr.calleeKey(owner, c); k != "" {
					visit(tr.fns[k], depth+1)
				}
			}
			return true
		})
		helpers = append(helpers, fi)
	}
	var hk []string
	for k, fi := range tr.fns {
		if !fi.visit && fi.decl.Name.Name != "Visit" {
			hk = append(hk, k)
		}
	}
	sort.Strings(hk)
	for _, k := range hk {
		visit(tr.fns[k], 0)
	}
	var b strings.Builder
	b.WriteString("import RulesModel.Model.GoRT\n/-! GENERATED by /verif/extract (golean.go) from /repo/parser/jsonquery_visitor_impl.go — do not edit.\nEvery definition is the statement-by-statement translation of the Go function named in its comment. -/\nset_option linter.unusedVariables false\nnamespace Rules.Gen\nopen Rules Rules.Go Rules.Cst\nopen Rules.P (Tok)\n\ndef translated : Bool := true\n\n")
	emitHelper := func(fi *fnInfo) {
		body, err := tr.body(fi)
		if err != "" {
			bad(fi.key, err)
			okAll = false
			return
		}
		sig := "def " + fi.lean
		if fi.lean == "J_Visit" {
			sig += " (ops : OpsImpl)"
		}
		if fi.recvT != "" {
			sig += " (recv : " + fi.recvT.lean() + ")"
		}
		for i, p := range fi.params {
			sig += fmt.Sprintf(" (p%d : %s)", i, p.lean())
		}
		fmt.Fprintf(&b, "/-- `%s` -/\n%s : %s :=\n%s\n", fi.key, sig, tr.resultType(fi), body)
		status = append(status, [2]string{fi.key, "translated"})
	}
	for _, fi := range helpers {
		emitHelper(fi)
	}
	for _, a := range acceptOrder {
		lo := ""
		if a.lower {
			lo = " (ops : OpsImpl)"
		}
		fmt.Fprintf(&b, "/-- `Accept` on a `%s`: one arm per `Visit…` method -/\ndef %s%s : %s → J → VM (Ret × J)\n", a.ctx, a.name, lo, a.ctx)
		for _, m := range a.arms {
			fi := tr.fns["JsonQueryVisitorImpl."+m]
			fi.result, fi.mutates, fi.panics = tRet, true, true
			body, err := tr.body(fi)
			if err != "" {
				bad(fi.key, err)
				okAll = false
				continue
			}
			sc := visitSchemas[m]
			pat := sc.ctor
			for _, c := range sc.children {
				v := "ctx_" + strings.ReplaceAll(c.acc, "#", "_")
				if c.acc == "GetText" {
					v = "ctx_text"
				}
				pat += " " + v
			}
			fmt.Fprintf(&b, "  -- `%s`\n  | %s, recv =>\n%s", fi.key, pat, body)
			status = append(status, [2]string{fi.key, "translated"})
		}
		b.WriteString("\n")
	}
	if fi, ok := tr.fns["JsonQueryVisitorImpl.Visit"]; ok {
		emitHelper(fi)
	}
	b.WriteString("/-- methods that only forward to a child (passed through by the Cst types) -/\ndef forwards : List String := " + leanStrs(forwards) + "\n\nend Rules.Gen\n")
	sort.Slice(status, func(i, j int) bool { return status[i][0] < status[j][0] })
	if !okAll {
		return stubVisitor(status), status, tr.notes
	}
	return b.String(), status, tr.notes
}

func stubVisitor(status [][2]string) string {
	var b strings.Builder
	b.WriteString("/-! GENERATED by /verif/extract (golean.go): parser/jsonquery_visitor_impl.go is outside the translated subset of Go.\n")
	for _, s := range status {
		if strings.HasPrefix(s[1], "unsupported") {
			b.WriteString("  " + s[0] + ": " + strings.ReplaceAll(s[1], "-/", "- /") + "\n")
		}
	}
	b.WriteString("-/\nnamespace Rules.Gen\ndef translated : Bool := false\nend Rules.Gen\n")
	return b.String()
}

// pureOperandArg: an argument that only ends up inside an error value (dropped from the model) must be a plain variable
func (tr *translator) pureOperandArg(e ast.Expr) {
	if _, ok := e.(*ast.Ident); !ok {
		fail("argument of an error constructor is not a plain variable: %s", tr.render(e))
	}
}

// ---------------------------------------------------------------------------------------------------------------
// the Operation implementations (operation.go, *_operation.go) -> Generated/Ops.lean

var opTypeOrder = []string{"NullOperation", "BoolOperation", "IntOperation", "FloatOperation", "StringOperation", "VersionOperation"}
var opMethodOrder = []string{"EQ", "NE", "GT", "LT", "GE", "LE", "CO", "SW", "EW", "IN"}

func genOps(fset *token.FileSet, decls map[string]*ast.FuncDecl, declFile map[string]string, embeds map[string][]string, render func(ast.Node) string) (string, [][2]string) {
	opsProfile = true
	defer func() { opsProfile = false }()
	tr := &translator{fset: fset, fns: map[string]*fnInfo{}, consts: map[string]string{}, render: render}
	isOp := map[string]bool{}
	for _, t := range opTypeOrder {
		isOp[t] = true
	}
	var status [][2]string
	okAll := true
	bad := func(k, why string) { status = append(status, [2]string{k, "unsupported: " + why}); okAll = false }
	sel := map[string]bool{}
	var work []string
	for k, d := range decls {
		if isOp[recvTypeName(d, render)] && d.Body != nil && strings.HasPrefix(declFile[k], "parser/") {
			sel[k] = true
			work = append(work, k)
		}
	}
	libFuncs := map[string]bool{"newErrInvalidOperand": true}
	for len(work) > 0 {
		k := work[len(work)-1]
		work = work[:len(work)-1]
		ast.Inspect(decls[k].Body, func(n ast.Node) bool {
			if c, ok := n.(*ast.CallExpr); ok {
				if id, ok := c.Fun.(*ast.Ident); ok && !libFuncs[id.Name] && !sel[id.Name] {
					if d, ok := decls[id.Name]; ok && d.Recv == nil && d.Body != nil && strings.HasPrefix(declFile[id.Name], "parser/") {
						sel[id.Name] = true
						work = append(work, id.Name)
					}
				}
			}
			return true
		})
	}
	var keys []string
	for k := range sel {
		keys = append(keys, k)
	}
	sort.Strings(keys)
	for _, k := range keys {
		d := decls[k]
		owner := recvTypeName(d, render)
		fi := &fnInfo{key: k, decl: d, result: tUnit}
		fi.lean = strings.ReplaceAll(k, ".", "_")
		_ = owner
		if d.Type.Params != nil {
			for _, f := range d.Type.Params.List {
				t := goTypeToGt(render(f.Type), "")
				n := len(f.Names)
				if n == 0 {
					n = 1
				}
				for i := 0; i < n; i++ {
					fi.params = append(fi.params, t)
				}
				if t == "" {
					bad(k, "parameter type "+render(f.Type))
				}
			}
		}
		if d.Type.Results != nil {
			for _, f := range d.Type.Results.List {
				t := goTypeToGt(render(f.Type), "")
				if t == "" {
					bad(k, "result type "+render(f.Type))
				}
				n := len(f.Names)
				if n == 0 {
					n = 1
				}
				if len(f.Names) > 0 {
					bad(k, "named results")
				}
				for i := 0; i < n; i++ {
					fi.results = append(fi.results, t)
				}
			}
			if len(fi.results) == 1 {
				fi.result = fi.results[0]
			} else if len(fi.results) > 1 {
				var ps []string
				for _, t := range fi.results {
					ps = append(ps, paren(t.lean()))
				}
				fi.result = gt("(" + strings.Join(ps, " × ") + ")")
			}
		}
		tr.fns[k] = fi
	}
	if !okAll {
		return stubOps(status), status
	}
	tr.analyse()
	for _, fi := range tr.fns {
		if fi.mutates {
			fi.recvT = tWorld
		}
	}
	// dependency order
	var order []*fnInfo
	done := map[string]bool{}
	var visit func(fi *fnInfo, depth int)
	visit = func(fi *fnInfo, depth int) {
		if done[fi.key] || depth > 60 {
			return
		}
		done[fi.key] = true
		owner := recvTypeName(fi.decl, render)
		ast.Inspect(fi.decl.Body, func(n ast.Node) bool {
			if c, ok := n.(*ast.CallExpr); ok {
				if k, _ := tr.calleeKey(owner, c); k != "" {
					visit(tr.fns[k], depth+1)
				}
			}
			return true
		})
		order = append(order, fi)
	}
	for _, k := range keys {
		visit(tr.fns[k], 0)
	}
	var b strings.Builder
	b.WriteString("import RulesModel.Model.GoRTOps\n/-! GENERATED by /verif/extract (golean.go, profile ops) from /repo/parser/operation.go and *_operation.go — do not edit.\nEvery definition is the statement-by-statement translation of the Go function named in its comment. -/\nset_option linter.unusedVariables false\nnamespace Rules.GenOps\nopen Rules Rules.Go\n\ndef translated : Bool := true\n\n")
	for _, fi := range order {
		body, err := tr.body(fi)
		if err != "" {
			bad(fi.key, err)
			continue
		}
		sig := "def " + fi.lean + " (lower : Bytes → Bytes)"
		if fi.mutates {
			sig += " (recv : W)"
		}
		for i, p := range fi.params {
			sig += fmt.Sprintf(" (p%d : %s)", i, p.lean())
		}
		fmt.Fprintf(&b, "/-- `%s` -/\n%s : %s :=\n%s\n", fi.key, sig, tr.resultType(fi), body)
		status = append(status, [2]string{fi.key, "translated"})
	}
	// dispatch: `currentOperation.<OP>` with Go's method promotion through the embedded struct
	b.WriteString("/-- `currentOperation.<OP>(left, right)`: the method of the concrete type, or the one promoted from the struct it embeds -/\ndef dispatch (lower : Bytes → Bytes) (k : OpKind) (op : CmpOp) (l r : GoVal) (w : W) : OM ((Bool × Option GErr) × W) :=\n  match k, op with\n")
	kindOf := map[string]string{"NullOperation": ".null", "BoolOperation": ".bool", "IntOperation": ".int", "FloatOperation": ".float", "StringOperation": ".string", "VersionOperation": ".version"}
	var rows []string
	for _, t := range opTypeOrder {
		for _, m := range opMethodOrder {
			owner := t
			for depth := 0; depth < 4; depth++ {
				if _, ok := tr.fns[owner+"."+m]; ok {
					break
				}
				if e := embeds[owner]; len(e) == 1 {
					owner = e[0]
				} else {
					owner = ""
					break
				}
			}
			fi := tr.fns[owner+"."+m]
			if owner == "" || fi == nil || len(fi.params) != 2 || len(fi.results) != 2 {
				bad(t+"."+m, "no such method")
				continue
			}
			call := ".ok (" + fi.lean + " lower l r, w)"
			if fi.mutates {
				call = fi.lean + " lower w l r"
			}
			op := strings.TrimPrefix(cmpOps[m], "CmpOp")
			fmt.Fprintf(&b, "  | %s, %s => %s\n", kindOf[t], op, call)
			rows = append(rows, t+"."+m+":"+owner)
		}
	}
	b.WriteString("\n/-- which declaration each (type, method) pair resolves to -/\ndef resolution : List String := " + leanStrs(rows) + "\n\nend Rules.GenOps\n")
	sort.Slice(status, func(i, j int) bool { return status[i][0] < status[j][0] })
	if !okAll {
		return stubOps(status), status
	}
	return b.String(), status
}

func stubOps(status [][2]string) string {
	var b strings.Builder
	b.WriteString("/-! GENERATED by /verif/extract (golean.go, profile ops): the Operation implementations are outside the translated subset of Go.\n")
	for _, s := range status {
		if strings.HasPrefix(s[1], "unsupported") {
			b.WriteString("  " + s[0] + ": " + strings.ReplaceAll(s[1], "-/", "- /") + "\n")
		}
	}
	b.WriteString("-/\nnamespace Rules.GenOps\ndef translated : Bool := false\nend Rules.GenOps\n")
	return b.String()
}
