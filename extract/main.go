// extract: the translator of DESIGN §4.1. Reads /repo's current working tree and rewrites
// RulesModel/Generated/{Grammar,Facts}.lean plus generated.json (same facts, for the harness and the evidence).
//
//	extract <repo> <outdir-lean> <out-json>
package main

import (
	"bytes"
	"encoding/json"
	"fmt"
	"go/ast"
	"go/parser"
	"go/printer"
	"go/token"
	"hash/fnv"
	"os"
	"path/filepath"
	"regexp"
	"sort"
	"strconv"
	"strings"
)

type facts struct {
	G4OK        bool                `json:"g4_ok"`
	G4Err       string              `json:"g4_err,omitempty"`
	LexerRules  []string            `json:"lexer_rules"`  // names in priority order (implicit literals as 'x')
	Spellings   map[string][]string `json:"spellings"`    // token name -> literal spellings (when a plain alternative of literals)
	ParserRules []string            `json:"parser_rules"` // canonical text per parser rule
	TokenConsts [][2]string         `json:"token_consts"` // from jsonquery_parser.go
	LexerConsts [][2]string         `json:"lexer_consts"` // from jsonquery_lexer.go
	ATNDigest   map[string]string   `json:"atn_digest"`   // file -> "len:fnv"
	OpTable     [][2]string         `json:"op_table"`     // "Type.Method" -> class
	Dispatch    [][2]string         `json:"dispatch"`     // token const -> method
	LitOps      [][2]string         `json:"lit_ops"`      // visitor method -> Operation type
	Coercions   [][2]string         `json:"coercions"`    // helper -> class
	Funcs       [][2]string         `json:"funcs"`        // hand-written function -> fingerprint of its normalised body
	PkgVars     []string            `json:"pkg_vars"`     // package-level variables of hand-written files
	GoStmts     int                 `json:"go_stmts"`
	SyncUses    []string            `json:"sync_uses"`
	Observers   []string            `json:"observers"` // types named in assertions / type switches of hand-written files
	ReflectUses []string            `json:"reflect_uses"`
	WriteSites  []string            `json:"write_sites"` // index assignments / delete / in hand-written files
}

func leanStr(s string) string {
	var b strings.Builder
	b.WriteByte('"')
	for _, r := range s {
		switch r {
		case '"':
			b.WriteString("\\\"")
		case '\\':
			b.WriteString("\\\\")
		case '\n':
			b.WriteString("\\n")
		case '\t':
			b.WriteString("\\t")
		case '\r':
			b.WriteString("\\r")
		default:
			if r < 0x20 {
				fmt.Fprintf(&b, "\\x%02x", r)
			} else {
				b.WriteRune(r)
			}
		}
	}
	b.WriteByte('"')
	return b.String()
}

func leanPairs(ps [][2]string) string {
	var parts []string
	for _, p := range ps {
		parts = append(parts, "("+leanStr(p[0])+", "+leanStr(p[1])+")")
	}
	return "[" + strings.Join(parts, ",\n  ") + "]"
}

func leanStrs(ss []string) string {
	var parts []string
	for _, s := range ss {
		parts = append(parts, leanStr(s))
	}
	return "[" + strings.Join(parts, ", ") + "]"
}

func main() {
	if len(os.Args) != 4 {
		fmt.Fprintln(os.Stderr, "usage: extract <repo> <outdir-lean> <out-json>")
		os.Exit(2)
	}
	repo, outdir, outjson := os.Args[1], os.Args[2], os.Args[3]
	var f facts
	f.SyncUses, f.ReflectUses, f.WriteSites, f.PkgVars, f.Observers = []string{}, []string{}, []string{}, []string{}, []string{}
	f.Spellings = map[string][]string{}
	f.ATNDigest = map[string]string{}

	// ---------- T1: the grammar file ----------
	var lexLean []string
	src, err := os.ReadFile(filepath.Join(repo, "parser", "JsonQuery.g4"))
	if err == nil {
		name, rules, perr := parseG4(string(src))
		if perr != nil {
			err = perr
		} else {
			g := &grammar{name: name, rules: rules, byName: map[string]*grule{}}
			for _, r := range rules {
				g.byName[r.name] = r
			}
			kind := 0
			for _, l := range g.implicitLiterals() {
				kind++
				re, _ := g.regexOf(&gnode{kind: "lit", text: l}, 0)
				lexLean = append(lexLean, fmt.Sprintf("(%d, %s)", kind, re))
				f.LexerRules = append(f.LexerRules, "'"+l+"'")
				f.Spellings["'"+l+"'"] = []string{l}
			}
			for _, r := range rules {
				if !isLexerRuleName(r.name) {
					var alts []string
					for i, a := range r.alts {
						s := canon(a)
						if r.altLabel[i] != "" {
							s += " #" + r.altLabel[i]
						}
						alts = append(alts, s)
					}
					f.ParserRules = append(f.ParserRules, r.name+" : "+strings.Join(alts, " | "))
					continue
				}
				if r.fragment {
					continue
				}
				kind++
				re, rerr := g.ruleRegex(r, 0)
				if rerr != nil {
					err = rerr
					break
				}
				lexLean = append(lexLean, fmt.Sprintf("(%d, %s)", kind, re))
				f.LexerRules = append(f.LexerRules, r.name)
				if sp := spellings(r); sp != nil {
					f.Spellings[r.name] = sp
				}
			}
		}
	}
	if err != nil {
		f.G4OK = false
		f.G4Err = err.Error()
	} else {
		f.G4OK = true
	}

	// ---------- Go sources ----------
	fset := token.NewFileSet()
	generated := map[string]bool{"jsonquery_lexer.go": true, "jsonquery_parser.go": true, "jsonquery_visitor.go": true}
	type gofile struct {
		path string
		name string
		file *ast.File
		hand bool
	}
	var files []gofile
	for _, dir := range []string{repo, filepath.Join(repo, "parser")} {
		ents, _ := os.ReadDir(dir)
		for _, e := range ents {
			n := e.Name()
			if e.IsDir() || !strings.HasSuffix(n, ".go") || strings.HasSuffix(n, "_test.go") {
				continue
			}
			p := filepath.Join(dir, n)
			af, perr := parser.ParseFile(fset, p, nil, parser.ParseComments)
			if perr != nil {
				continue
			}
			files = append(files, gofile{p, n, af, !generated[n]})
		}
	}
	render := func(n ast.Node) string {
		var b bytes.Buffer
		printer.Fprint(&b, fset, n)
		return strings.Join(strings.Fields(b.String()), " ")
	}
	fp := func(s string) string {
		h := fnv.New64a()
		h.Write([]byte(s))
		return fmt.Sprintf("%016x", h.Sum64())
	}

	// token constants and ATN digests
	for _, gf := range files {
		if gf.name != "jsonquery_parser.go" && gf.name != "jsonquery_lexer.go" {
			continue
		}
		prefix := "JsonQueryParser"
		dst := &f.TokenConsts
		if gf.name == "jsonquery_lexer.go" {
			prefix = "JsonQueryLexer"
			dst = &f.LexerConsts
		}
		ast.Inspect(gf.file, func(n ast.Node) bool {
			switch d := n.(type) {
			case *ast.GenDecl:
				if d.Tok == token.CONST {
					for _, sp := range d.Specs {
						vs := sp.(*ast.ValueSpec)
						for i, nm := range vs.Names {
							if strings.HasPrefix(nm.Name, prefix) && !strings.Contains(nm.Name, "RULE_") && i < len(vs.Values) {
								if bl, ok := vs.Values[i].(*ast.BasicLit); ok {
									*dst = append(*dst, [2]string{strings.TrimPrefix(nm.Name, prefix), bl.Value})
								}
							}
						}
					}
				}
			case *ast.AssignStmt:
				// staticData.serializedATN = []int32{...}
				if len(d.Lhs) == 1 && len(d.Rhs) == 1 {
					if se, ok := d.Lhs[0].(*ast.SelectorExpr); ok && se.Sel.Name == "serializedATN" {
						if cl, ok := d.Rhs[0].(*ast.CompositeLit); ok {
							h := fnv.New64a()
							for _, e := range cl.Elts {
								h.Write([]byte(render(e)))
								h.Write([]byte{','})
							}
							f.ATNDigest[gf.name] = fmt.Sprintf("%d:%016x", len(cl.Elts), h.Sum64())
						}
					}
				}
			}
			return true
		})
	}

	// operation table
	opTypes := []string{"NullOperation", "BoolOperation", "IntOperation", "FloatOperation", "StringOperation", "VersionOperation"}
	methods := []string{"EQ", "NE", "GT", "LT", "GE", "LE", "CO", "SW", "EW", "IN"}
	bodies := map[string]string{}
	embeds := map[string][]string{}
	for _, gf := range files {
		if !gf.hand {
			continue
		}
		for _, d := range gf.file.Decls {
			switch fd := d.(type) {
			case *ast.FuncDecl:
				pkg := "parser"
				if filepath.Dir(gf.path) == filepath.Clean(repo) {
					pkg = "root"
				}
				key := fd.Name.Name
				if pkg == "root" {
					key = "root." + key
				}
				if fd.Recv != nil && len(fd.Recv.List) == 1 {
					t := render(fd.Recv.List[0].Type)
					key = strings.TrimPrefix(t, "*") + "." + fd.Name.Name
				}
				if fd.Body != nil {
					b := render(fd.Body)
					b = strings.TrimSuffix(strings.TrimPrefix(b, "{ "), " }")
					bodies[key] = b
					f.Funcs = append(f.Funcs, [2]string{key, fp(b)})
				}
			case *ast.GenDecl:
				if fd.Tok == token.TYPE {
					for _, sp := range fd.Specs {
						ts := sp.(*ast.TypeSpec)
						if st, ok := ts.Type.(*ast.StructType); ok {
							for _, fl := range st.Fields.List {
								if len(fl.Names) == 0 {
									embeds[ts.Name.Name] = append(embeds[ts.Name.Name], render(fl.Type))
								}
							}
						}
					}
				}
				if fd.Tok == token.VAR {
					for _, sp := range fd.Specs {
						for _, nm := range sp.(*ast.ValueSpec).Names {
							f.PkgVars = append(f.PkgVars, filepath.Base(filepath.Dir(gf.path))+"/"+nm.Name)
						}
					}
				}
			}
		}
	}
	sort.Slice(f.Funcs, func(i, j int) bool { return f.Funcs[i][0] < f.Funcs[j][0] })
	if os.Getenv("EXTRACT_DUMP") != "" {
		var ks []string
		for k := range bodies {
			ks = append(ks, k)
		}
		sort.Strings(ks)
		for _, k := range ks {
			fmt.Printf("%s\t%s\n", k, bodies[k])
		}
	}
	relRe := regexp.MustCompile(`^(if _, ok := left\.\(float64\); ok \{ return \(&FloatOperation\{\}\)\.(\w+)\(left, right\) \} )?(\w+), (\w+), err := \w+\.get\(left, right\) if err != nil \{ return false, (err|nil) \} return (.+), nil$`)
	classify := func(typ, m, b string) string {
		switch b {
		case "return false, ErrInvalidOperation":
			return "invalid"
		case "return left == nil, nil":
			return "isnil"
		case "return left != nil, nil":
			return "notnil"
		}
		if mm := relRe.FindStringSubmatch(b); mm != nil {
			pre := ""
			if mm[1] != "" {
				if mm[2] != m {
					return "unrecognised"
				}
				pre = "fdel;"
			}
			l, r, mode, expr := mm[3], mm[4], mm[5], mm[6]
			rel := ""
			for _, op := range []string{"==", "!=", ">=", "<=", ">", "<"} {
				if expr == l+" "+op+" "+r {
					rel = op
					break
				}
			}
			if rel == "" {
				for _, fn := range []string{"Contains", "HasPrefix", "HasSuffix"} {
					if expr == "strings."+fn+"("+l+", "+r+")" {
						rel = fn
					}
				}
			}
			if rel == "" {
				if sm := regexp.MustCompile(`^` + l + `\.(\w+)\(` + r + `\)$`).FindStringSubmatch(expr); sm != nil {
					rel = "semver." + sm[1]
				}
			}
			if rel == "" {
				return "unrecognised"
			}
			if mode == "nil" {
				return pre + "rel(" + rel + ");swallow"
			}
			return pre + "rel(" + rel + ");propagate"
		}
		if known, ok := knownBodies[b]; ok {
			return known
		}
		return "unrecognised"
	}
	for _, t := range opTypes {
		for _, m := range methods {
			key := t + "." + m
			if b, ok := bodies[key]; ok {
				f.OpTable = append(f.OpTable, [2]string{key, classify(t, m, b)})
			} else if len(embeds[t]) == 1 {
				f.OpTable = append(f.OpTable, [2]string{key, "inherit:" + embeds[t][0]})
			} else {
				f.OpTable = append(f.OpTable, [2]string{key, "unrecognised"})
			}
		}
	}
	for _, h := range []string{"toInt", "toFloat", "StringOperation.getString", "IntOperation.get", "FloatOperation.get", "BoolOperation.get", "StringOperation.get", "VersionOperation.get", "getString",
		"JsonQueryVisitorImpl.VisitAttrPath", "JsonQueryVisitorImpl.VisitLogicalExp", "JsonQueryVisitorImpl.VisitParenExp", "JsonQueryVisitorImpl.VisitPresentExp", "JsonQueryVisitorImpl.Visit",
		"NewEvaluator", "Evaluator.Process", "Evaluator.Reset", "Evaluator.LastDebugErr", "Evaluate", "root.Evaluate", "IntOperation.IN", "FloatOperation.IN", "StringOperation.IN", "JsonQueryVisitorImpl.VisitCompareExp", "NestedError.Error", "NestedError.Set", "NestedError.Original", "ErrInvalidOperand.Error"} {
		b, ok := bodies[h]
		cls := "missing"
		if ok {
			cls = "unrecognised"
			if k, ok2 := knownBodies[b]; ok2 {
				cls = k
			}
		}
		f.Coercions = append(f.Coercions, [2]string{h, cls})
	}

	// dispatch and literal visitors
	caseRe := regexp.MustCompile(`case JsonQueryParser(\w+): apply = currentOp\.(\w+)`)
	if b, ok := bodies["JsonQueryVisitorImpl.VisitCompareExp"]; ok {
		for _, mm := range caseRe.FindAllStringSubmatch(b, -1) {
			f.Dispatch = append(f.Dispatch, [2]string{mm[1], mm[2]})
		}
	}
	curRe := regexp.MustCompile(`j\.currentOperation = &(\w+)\{\}`)
	var vnames []string
	for k := range bodies {
		if strings.HasPrefix(k, "JsonQueryVisitorImpl.Visit") {
			vnames = append(vnames, k)
		}
	}
	sort.Strings(vnames)
	for _, k := range vnames {
		for _, mm := range curRe.FindAllStringSubmatch(bodies[k], -1) {
			f.LitOps = append(f.LitOps, [2]string{strings.TrimPrefix(k, "JsonQueryVisitorImpl."), mm[1]})
		}
	}

	// inventory
	obs := map[string]bool{}
	refl := map[string]bool{}
	syncu := map[string]bool{}
	for _, gf := range files {
		if !gf.hand {
			continue
		}
		rel := filepath.Base(filepath.Dir(gf.path)) + "/" + gf.name
		ast.Inspect(gf.file, func(n ast.Node) bool {
			switch x := n.(type) {
			case *ast.GoStmt:
				f.GoStmts++
			case *ast.TypeAssertExpr:
				if x.Type != nil {
					obs[render(x.Type)] = true
				}
			case *ast.TypeSwitchStmt:
				for _, c := range x.Body.List {
					for _, e := range c.(*ast.CaseClause).List {
						obs[render(e)] = true
					}
				}
			case *ast.SelectorExpr:
				if id, ok := x.X.(*ast.Ident); ok {
					if id.Name == "reflect" {
						refl[rel+":"+x.Sel.Name] = true
					}
					if id.Name == "sync" || id.Name == "atomic" {
						syncu[rel+":"+id.Name+"."+x.Sel.Name] = true
					}
				}
			case *ast.AssignStmt:
				for _, l := range x.Lhs {
					if ie, ok := l.(*ast.IndexExpr); ok {
						f.WriteSites = append(f.WriteSites, rel+":"+strconv.Itoa(fset.Position(ie.Pos()).Line)+":"+render(ie))
					}
				}
			case *ast.CallExpr:
				if id, ok := x.Fun.(*ast.Ident); ok && id.Name == "delete" {
					f.WriteSites = append(f.WriteSites, rel+":"+strconv.Itoa(fset.Position(x.Pos()).Line)+":"+render(x))
				}
			}
			return true
		})
	}
	for k := range obs {
		f.Observers = append(f.Observers, k)
	}
	for k := range refl {
		f.ReflectUses = append(f.ReflectUses, k)
	}
	for k := range syncu {
		f.SyncUses = append(f.SyncUses, k)
	}
	sort.Strings(f.Observers)
	sort.Strings(f.ReflectUses)
	sort.Strings(f.SyncUses)
	sort.Strings(f.PkgVars)
	sort.Strings(f.WriteSites)

	// ---------- emit ----------
	os.MkdirAll(outdir, 0o755)
	var gl strings.Builder
	if !f.G4OK {
		// the grammar file could not be read: the driver falls back to the table the proofs were written against;
		// `Tie.g4_readable` then fails and names the problem (DESIGN §4.1 policy 4)
		fb := "import RulesModel.Expected.LexTable\n/-! GENERATED by /verif/extract: parser/JsonQuery.g4 could not be read (" + strings.ReplaceAll(f.G4Err, "-/", "- /") + "); falling back to the expected tables. -/\nnamespace Rules.Generated\nopen Rules\ndef g4ok : Bool := false\ndef lexerRules : List (Kind × Regex) := jqRules\ndef lexerRuleNames : List String := Expected.lexerRuleNames\ndef parserRules : List String := []\ndef spellings : List (String × List String) := Expected.spellings\nend Rules.Generated\n"
		os.WriteFile(filepath.Join(outdir, "Grammar.lean"), []byte(fb), 0o644)
	} else {
		gl.WriteString("import RulesModel.Model.Lexer\n/-! GENERATED by /verif/extract from /repo/parser/JsonQuery.g4 — do not edit. -/\nnamespace Rules.Generated\nopen Rules Rules.Regex\n\n")
		fmt.Fprintf(&gl, "def g4ok : Bool := %v\n\n", f.G4OK)
		gl.WriteString("/-- token rules in priority order: implicit literals of the parser rules first, then the lexer rules in file order -/\n")
		gl.WriteString("def lexerRules : List (Kind × Regex) := [\n  " + strings.Join(lexLean, ",\n  ") + "]\n\n")
		gl.WriteString("def lexerRuleNames : List String := " + leanStrs(f.LexerRules) + "\n\n")
		gl.WriteString("def parserRules : List String := [\n  " + strings.Join(mapStr(f.ParserRules, leanStr), ",\n  ") + "]\n\n")
		var sp [][2]string
		for _, n := range f.LexerRules {
			if s, ok := f.Spellings[n]; ok {
				sp = append(sp, [2]string{n, strings.Join(s, "\x00")})
			}
		}
		gl.WriteString("/-- token name ↦ its literal spellings (for tokens that are plain alternatives of literals) -/\n")
		gl.WriteString("def spellings : List (String × List String) := [\n  ")
		var spp []string
		for _, p := range sp {
			spp = append(spp, "("+leanStr(p[0])+", "+leanStrs(strings.Split(p[1], "\x00"))+")")
		}
		gl.WriteString(strings.Join(spp, ",\n  ") + "]\n\nend Rules.Generated\n")
		os.WriteFile(filepath.Join(outdir, "Grammar.lean"), []byte(gl.String()), 0o644)
	}

	var fl strings.Builder
	fl.WriteString("/-! GENERATED by /verif/extract from /repo's Go sources — do not edit. -/\nnamespace Rules.Generated\n\n")
	fl.WriteString("def tokenConsts : List (String × String) := " + leanPairs(f.TokenConsts) + "\n\n")
	fl.WriteString("def lexerConsts : List (String × String) := " + leanPairs(f.LexerConsts) + "\n\n")
	fl.WriteString("def opTable : List (String × String) := " + leanPairs(f.OpTable) + "\n\n")
	fl.WriteString("def dispatch : List (String × String) := " + leanPairs(f.Dispatch) + "\n\n")
	fl.WriteString("def litOps : List (String × String) := " + leanPairs(f.LitOps) + "\n\n")
	fl.WriteString("def coercions : List (String × String) := " + leanPairs(f.Coercions) + "\n\n")
	fl.WriteString("def pkgVars : List String := " + leanStrs(f.PkgVars) + "\n\n")
	fmt.Fprintf(&fl, "def goStmts : Nat := %d\n\n", f.GoStmts)
	fl.WriteString("def syncUses : List String := " + leanStrs(f.SyncUses) + "\n\n")
	fl.WriteString("def observers : List String := " + leanStrs(f.Observers) + "\n\n")
	fl.WriteString("def reflectUses : List String := " + leanStrs(f.ReflectUses) + "\n\n")
	fl.WriteString("end Rules.Generated\n")
	os.WriteFile(filepath.Join(outdir, "Facts.lean"), []byte(fl.String()), 0o644)

	js, _ := json.MarshalIndent(f, "", " ")
	os.WriteFile(outjson, js, 0o644)
}

func mapStr(ss []string, fn func(string) string) []string {
	var out []string
	for _, s := range ss {
		out = append(out, fn(s))
	}
	return out
}
