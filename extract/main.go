// extract: the translator of DESIGN §4.1. Reads /repo's current working tree and rewrites
// RulesModel/Generated/{Grammar,Facts}.lean plus generated.json (same facts, for the harness and the evidence).
//
//	extract <repo> <outdir-lean> <out-json>
package main

import (
	"bytes"
	"encoding/json"
	"fmt"
	"go/ast"
	"go/parser"
	"go/printer"
	"go/token"
	"hash/fnv"
	"os"
	"path/filepath"
	"regexp"
	"sort"
	"strconv"
	"strings"
)

type facts struct {
	G4OK        bool                `json:"g4_ok"`
	G4Err       string              `json:"g4_err,omitempty"`
	LexerRules  []string            `json:"lexer_rules"`  // names in priority order (implicit literals as 'x')
	Spellings   map[string][]string `json:"spellings"`    // token name -> literal spellings (when a plain alternative of literals)
	ParserRules []string            `json:"parser_rules"` // canonical text per parser rule
	TokenConsts [][2]string         `json:"token_consts"` // from jsonquery_parser.go
	LexerConsts [][2]string         `json:"lexer_consts"` // from jsonquery_lexer.go
	ATNDigest   map[string]string   `json:"atn_digest"`   // file -> "len:fnv"
	OpTable     [][2]string         `json:"op_table"`     // "Type.Method" -> class
	Dispatch    [][2]string         `json:"dispatch"`     // token const -> method
	LitOps      [][2]string         `json:"lit_ops"`      // visitor method -> Operation type
	Coercions   [][2]string         `json:"coercions"`    // helper -> class
	Funcs       [][2]string         `json:"funcs"`        // hand-written function -> fingerprint of its normalised body
	PkgVars     []string            `json:"pkg_vars"`     // package-level variables of hand-written files that may be written (or whose referent may be)
	PkgReadonly []string            `json:"pkg_readonly"` // package-level variables proved read-only by pkgVarAnalysis
	GoStmts     int                 `json:"go_stmts"`
	SyncUses    []string            `json:"sync_uses"`
	Observers   []string            `json:"observers"` // types named in assertions / type switches of hand-written files
	ReflectUses []string            `json:"reflect_uses"`
	Unreachable []string            `json:"unreachable"` // hand-written functions no function of the transcription-time API reaches (not counted for observers)
	WriteSites  []string            `json:"write_sites"` // index assignments / delete / in hand-written files
	VisitorGen  [][2]string         `json:"visitor_gen"` // function of jsonquery_visitor_impl.go -> translated | forwards:X | unsupported: why
	VisitorNote []string            `json:"visitor_notes"`
	LexerATN    string              `json:"lexer_atn"`      // equivalent | differs… | unreadable: why  (serialised lexer ATN vs the token rules of the .g4)
	LexerATNWit []atnWitness        `json:"lexer_atn_witnesses"`
	OpsGen      [][2]string         `json:"ops_gen"` // function of operation.go / *_operation.go -> translated | unsupported: why
}

func leanStr(s string) string {
	var b strings.Builder
	b.WriteByte('"')
	for _, r := range s {
		switch r {
		case '"':
			b.WriteString("\\\"")
		case '\\':
			b.WriteString("\\\\")
		case '\n':
			b.WriteString("\\n")
		case '\t':
			b.WriteString("\\t")
		case '\r':
			b.WriteString("\\r")
		default:
			if r < 0x20 {
				fmt.Fprintf(&b, "\\x%02x", r)
			} else {
				b.WriteRune(r)
			}
		}
	}
	b.WriteByte('"')
	return b.String()
}

func leanPairs(ps [][2]string) string {
	var parts []string
	for _, p := range ps {
		parts = append(parts, "("+leanStr(p[0])+", "+leanStr(p[1])+")")
	}
	return "[" + strings.Join(parts, ",\n  ") + "]"
}

func leanStrs(ss []string) string {
	var parts []string
	for _, s := range ss {
		parts = append(parts, leanStr(s))
	}
	return "[" + strings.Join(parts, ", ") + "]"
}

// alphaNormalise renames, in place, the receiver, the parameters, the named results and every local variable of fd to
// canonical names (recv, p0.., r0.., v0.. in order of first declaration), so that a pure renaming of identifiers does
// not change the normalised body the ties and the frozen transcription texts are compared with.
func alphaNormalise(fd *ast.FuncDecl) {
	names := map[*ast.Object]string{}
	if fd.Recv != nil {
		for _, f := range fd.Recv.List {
			for _, n := range f.Names {
				if n.Obj != nil {
					names[n.Obj] = "recv"
				}
			}
		}
	}
	k := 0
	if fd.Type.Params != nil {
		for _, f := range fd.Type.Params.List {
			for _, n := range f.Names {
				if n.Obj != nil && n.Name != "_" {
					names[n.Obj] = fmt.Sprintf("p%d", k)
				}
				k++
			}
		}
	}
	k = 0
	if fd.Type.Results != nil {
		for _, f := range fd.Type.Results.List {
			for _, n := range f.Names {
				if n.Obj != nil && n.Name != "_" {
					names[n.Obj] = fmt.Sprintf("r%d", k)
				}
				k++
			}
		}
	}
	if fd.Body == nil {
		return
	}
	lo, hi := fd.Body.Pos(), fd.Body.End()
	v := 0
	var idents []*ast.Ident
	ast.Inspect(fd, func(n ast.Node) bool {
		if id, ok := n.(*ast.Ident); ok {
			idents = append(idents, id)
		}
		return true
	})
	// a key of a struct literal is a field name, whatever the (deprecated) resolver of go/parser bound it to
	fieldKeys := map[*ast.Ident]bool{}
	ast.Inspect(fd, func(n ast.Node) bool {
		if cl, ok := n.(*ast.CompositeLit); ok {
			switch cl.Type.(type) {
			case *ast.MapType, *ast.ArrayType:
				return true
			}
			for _, el := range cl.Elts {
				if kv, ok := el.(*ast.KeyValueExpr); ok {
					if id, ok := kv.Key.(*ast.Ident); ok {
						fieldKeys[id] = true
					}
				}
			}
		}
		return true
	})
	orig := map[*ast.Object]string{}
	for _, id := range idents {
		if fieldKeys[id] {
			continue
		}
		o := id.Obj
		if o == nil || o.Kind != ast.Var || id.Name == "_" {
			continue
		}
		if _, done := names[o]; done {
			continue
		}
		if o.Pos() < lo || o.Pos() >= hi {
			continue // declared outside this function body (package level)
		}
		names[o] = fmt.Sprintf("v%d", v)
		orig[o] = id.Name
		v++
	}
	for _, id := range idents {
		if id.Obj != nil && !fieldKeys[id] {
			if nn, ok := names[id.Obj]; ok {
				id.Name = nn
			}
		}
	}
	// the binding occurrence of `switch x := y.(type)` carries no Object: give it the name its uses received
	ast.Inspect(fd.Body, func(n ast.Node) bool {
		ts, ok := n.(*ast.TypeSwitchStmt)
		if !ok {
			return true
		}
		as, ok := ts.Assign.(*ast.AssignStmt)
		if !ok || len(as.Lhs) != 1 {
			return true
		}
		bind, ok := as.Lhs[0].(*ast.Ident)
		if !ok || bind.Obj != nil {
			return true
		}
		nn := "unused"
		for o, name := range names {
			if orig[o] == bind.Name && o.Pos() >= ts.Pos() && o.Pos() < ts.End() {
				nn = name
			}
		}
		bind.Name = nn
		return true
	})
}

// pkgVarAnalysis returns, for every package-level variable "dir/name" of the given files, whether all of its uses are
// harmless reads. Conservative: anything not recognised as a harmless read makes the variable (potentially) mutable.
func pkgVarAnalysis(files []*ast.File, dirs []string) map[string]bool {
	type vinfo struct {
		refLike bool // initialised by a composite literal / make / & : the value refers to shared storage
		call    bool // initialised by some other call: nothing known about the value
		immut   bool // initialised by errors.New / fmt.Errorf: an immutable value; only an assignment to the variable changes it
	}
	vars := map[string]*vinfo{}
	ro := map[string]bool{}
	for i, f := range files {
		for _, d := range f.Decls {
			gd, ok := d.(*ast.GenDecl)
			if !ok || gd.Tok != token.VAR {
				continue
			}
			for _, sp := range gd.Specs {
				vs := sp.(*ast.ValueSpec)
				for k, nm := range vs.Names {
					vi := &vinfo{}
					if k < len(vs.Values) {
						switch x := vs.Values[k].(type) {
						case *ast.CompositeLit:
							vi.refLike = true
						case *ast.UnaryExpr:
							vi.refLike = true
						case *ast.CallExpr:
							if id, ok := x.Fun.(*ast.Ident); ok && (id.Name == "make" || id.Name == "new") {
								vi.refLike = true
							} else {
								vi.call = true
								if se, ok := x.Fun.(*ast.SelectorExpr); ok {
									if pk, ok := se.X.(*ast.Ident); ok && ((pk.Name == "errors" && se.Sel.Name == "New") || (pk.Name == "fmt" && se.Sel.Name == "Errorf")) {
										vi.immut = true
									}
								}
							}
						case *ast.BasicLit:
						default:
							vi.refLike = true
						}
					} else {
						vi.refLike = true // declared without a value: written somewhere, or useless
					}
					vars[dirs[i]+"/"+nm.Name] = vi
					ro[dirs[i]+"/"+nm.Name] = true
				}
			}
		}
	}
	for i, f := range files {
		var stack []ast.Node
		ast.Inspect(f, func(n ast.Node) bool {
			if n == nil {
				stack = stack[:len(stack)-1]
				return true
			}
			stack = append(stack, n)
			id, ok := n.(*ast.Ident)
			if !ok {
				return true
			}
			key := dirs[i] + "/" + id.Name
			vi, isVar := vars[key]
			if !isVar {
				return true
			}
			if id.Obj != nil && id.Obj.Kind != ast.Var {
				return true
			}
			if id.Obj != nil {
				// resolved within this file: must be the package-level declaration, not a local of the same name
				if vs, ok := id.Obj.Decl.(*ast.ValueSpec); !ok || len(stack) < 2 {
					_ = vs
					return true
				} else {
					top := false
					for _, d := range f.Decls {
						if gd, ok := d.(*ast.GenDecl); ok {
							for _, sp := range gd.Specs {
								if sp == ast.Spec(vs) {
									top = true
								}
							}
						}
					}
					if !top {
						return true
					}
				}
			}
			parent := stack[len(stack)-2]
			var grand ast.Node
			if len(stack) >= 3 {
				grand = stack[len(stack)-3]
			}
			harmless := false
			if vi.immut {
				harmless = true
				switch p := parent.(type) {
				case *ast.AssignStmt:
					for _, l := range p.Lhs {
						if l == ast.Expr(id) {
							harmless = false
						}
					}
				case *ast.IncDecStmt:
					harmless = false
				case *ast.UnaryExpr:
					harmless = p.Op != token.AND
				}
				if !harmless {
					ro[key] = false
				}
				return true
			}
			switch p := parent.(type) {
			case *ast.ValueSpec:
				for _, nm := range p.Names {
					if nm == id {
						harmless = true // the declaration itself
					}
				}
			case *ast.BinaryExpr:
				harmless = p.Op == token.EQL || p.Op == token.NEQ
			case *ast.CaseClause:
				harmless = true // `case ErrX:` of an expression switch is a comparison
			case *ast.ReturnStmt:
				harmless = !vi.refLike
			case *ast.RangeStmt:
				harmless = p.X == ast.Expr(id) && vi.refLike
			case *ast.CallExpr:
				if fn, ok := p.Fun.(*ast.Ident); ok && (fn.Name == "len" || fn.Name == "cap") {
					harmless = true
				}
			case *ast.IndexExpr:
				if p.X == ast.Expr(id) {
					harmless = true
					switch g := grand.(type) {
					case *ast.AssignStmt:
						for _, l := range g.Lhs {
							if l == ast.Expr(p) {
								harmless = false
							}
						}
					case *ast.IncDecStmt:
						harmless = false
					case *ast.UnaryExpr:
						harmless = g.Op != token.AND
					case *ast.CallExpr, *ast.SelectorExpr, *ast.IndexExpr, *ast.SliceExpr:
						// an element handed on (method call on it, further indexing, argument): elements of func or
						// scalar type are fine, anything else is not known – only direct calls of a func element pass
						if c, ok := g.(*ast.CallExpr); ok && c.Fun == ast.Expr(p) {
							harmless = true
						} else {
							harmless = false
						}
					}
				} else {
					harmless = !vi.refLike // used as an index value
				}
			}
			if !harmless {
				ro[key] = false
			}
			return true
		})
	}
	return ro
}

func main() {
	if len(os.Args) != 4 {
		fmt.Fprintln(os.Stderr, "usage: extract <repo> <outdir-lean> <out-json>")
		os.Exit(2)
	}
	repo, outdir, outjson := os.Args[1], os.Args[2], os.Args[3]
	var f facts
	f.SyncUses, f.ReflectUses, f.WriteSites, f.PkgVars, f.Observers = []string{}, []string{}, []string{}, []string{}, []string{}
	f.Spellings = map[string][]string{}
	f.ATNDigest = map[string]string{}

	// ---------- T1: the grammar file ----------
	var gram *grammar
	var tokRules []*grule
	var implicitLits []string
	var lexLean []string
	src, err := os.ReadFile(filepath.Join(repo, "parser", "JsonQuery.g4"))
	if err == nil {
		name, rules, perr := parseG4(string(src))
		if perr != nil {
			err = perr
		} else {
			g := &grammar{name: name, rules: rules, byName: map[string]*grule{}}
			for _, r := range rules {
				g.byName[r.name] = r
			}
			gram = g
			implicitLits = g.implicitLiterals()
			kind := 0
			for _, l := range g.implicitLiterals() {
				kind++
				re, _ := g.regexOf(&gnode{kind: "lit", text: l}, 0)
				lexLean = append(lexLean, fmt.Sprintf("(%d, %s)", kind, re))
				f.LexerRules = append(f.LexerRules, "'"+l+"'")
				f.Spellings["'"+l+"'"] = []string{l}
			}
			for _, r := range rules {
				if !isLexerRuleName(r.name) {
					var alts []string
					for i, a := range r.alts {
						s := canon(a)
						if r.altLabel[i] != "" {
							s += " #" + r.altLabel[i]
						}
						alts = append(alts, s)
					}
					f.ParserRules = append(f.ParserRules, r.name+" : "+strings.Join(alts, " | "))
					continue
				}
				if r.fragment {
					continue
				}
				kind++
				tokRules = append(tokRules, r)
				re, rerr := g.ruleRegex(r, 0)
				if rerr != nil {
					err = rerr
					break
				}
				lexLean = append(lexLean, fmt.Sprintf("(%d, %s)", kind, re))
				f.LexerRules = append(f.LexerRules, r.name)
				if sp := spellings(r); sp != nil {
					f.Spellings[r.name] = sp
				}
			}
		}
	}
	if err != nil {
		f.G4OK = false
		f.G4Err = err.Error()
	} else {
		f.G4OK = true
	}

	// ---------- Go sources ----------
	fset := token.NewFileSet()
	generated := map[string]bool{"jsonquery_lexer.go": true, "jsonquery_parser.go": true, "jsonquery_visitor.go": true}
	type gofile struct {
		path string
		name string
		file *ast.File
		hand bool
	}
	var files []gofile
	for _, dir := range []string{repo, filepath.Join(repo, "parser")} {
		ents, _ := os.ReadDir(dir)
		for _, e := range ents {
			n := e.Name()
			if e.IsDir() || !strings.HasSuffix(n, ".go") || strings.HasSuffix(n, "_test.go") {
				continue
			}
			p := filepath.Join(dir, n)
			af, perr := parser.ParseFile(fset, p, nil, parser.ParseComments)
			if perr != nil {
				continue
			}
			files = append(files, gofile{p, n, af, !generated[n]})
		}
	}
	render := func(n ast.Node) string {
		var b bytes.Buffer
		printer.Fprint(&b, fset, n)
		// `any` is an alias of the empty interface: one spelling for both
		return strings.ReplaceAll(strings.Join(strings.Fields(b.String()), " "), "interface{}", "any")
	}
	fp := func(s string) string {
		h := fnv.New64a()
		h.Write([]byte(s))
		return fmt.Sprintf("%016x", h.Sum64())
	}

	// token constants and ATN digests
	for _, gf := range files {
		if gf.name != "jsonquery_parser.go" && gf.name != "jsonquery_lexer.go" {
			continue
		}
		prefix := "JsonQueryParser"
		dst := &f.TokenConsts
		if gf.name == "jsonquery_lexer.go" {
			prefix = "JsonQueryLexer"
			dst = &f.LexerConsts
		}
		ast.Inspect(gf.file, func(n ast.Node) bool {
			switch d := n.(type) {
			case *ast.GenDecl:
				if d.Tok == token.CONST {
					for _, sp := range d.Specs {
						vs := sp.(*ast.ValueSpec)
						for i, nm := range vs.Names {
							if strings.HasPrefix(nm.Name, prefix) && !strings.Contains(nm.Name, "RULE_") && i < len(vs.Values) {
								if bl, ok := vs.Values[i].(*ast.BasicLit); ok {
									*dst = append(*dst, [2]string{strings.TrimPrefix(nm.Name, prefix), bl.Value})
								}
							}
						}
					}
				}
			case *ast.AssignStmt:
				// staticData.serializedATN = []int32{...}
				if len(d.Lhs) == 1 && len(d.Rhs) == 1 {
					if se, ok := d.Lhs[0].(*ast.SelectorExpr); ok && se.Sel.Name == "serializedATN" {
						if cl, ok := d.Rhs[0].(*ast.CompositeLit); ok {
							h := fnv.New64a()
							for _, e := range cl.Elts {
								h.Write([]byte(render(e)))
								h.Write([]byte{','})
							}
							f.ATNDigest[gf.name] = fmt.Sprintf("%d:%016x", len(cl.Elts), h.Sum64())
						}
					}
				}
			}
			return true
		})
	}

	// operation table
	opTypes := []string{"NullOperation", "BoolOperation", "IntOperation", "FloatOperation", "StringOperation", "VersionOperation"}
	methods := []string{"EQ", "NE", "GT", "LT", "GE", "LE", "CO", "SW", "EW", "IN"}
	bodies := map[string]string{}
	decls := map[string]*ast.FuncDecl{}
	declFile := map[string]string{}
	embeds := map[string][]string{}
	for _, gf := range files {
		if !gf.hand {
			continue
		}
		for _, d := range gf.file.Decls {
			switch fd := d.(type) {
			case *ast.FuncDecl:
				pkg := "parser"
				if filepath.Dir(gf.path) == filepath.Clean(repo) {
					pkg = "root"
				}
				key := fd.Name.Name
				if pkg == "root" {
					key = "root." + key
				}
				if fd.Recv != nil && len(fd.Recv.List) == 1 {
					t := render(fd.Recv.List[0].Type)
					key = strings.TrimPrefix(t, "*") + "." + fd.Name.Name
				}
				if fd.Body != nil {
					alphaNormalise(fd)
					b := render(fd.Body)
					b = strings.TrimSuffix(strings.TrimPrefix(b, "{ "), " }")
					bodies[key] = b
					decls[key] = fd
					declFile[key] = filepath.Base(filepath.Dir(gf.path)) + "/" + gf.name
					f.Funcs = append(f.Funcs, [2]string{key, fp(b)})
				}
			case *ast.GenDecl:
				if fd.Tok == token.TYPE {
					for _, sp := range fd.Specs {
						ts := sp.(*ast.TypeSpec)
						if st, ok := ts.Type.(*ast.StructType); ok {
							for _, fl := range st.Fields.List {
								if len(fl.Names) == 0 {
									embeds[ts.Name.Name] = append(embeds[ts.Name.Name], render(fl.Type))
								}
							}
						}
					}
				}
				if fd.Tok == token.VAR {
					for _, sp := range fd.Specs {
						for _, nm := range sp.(*ast.ValueSpec).Names {
							f.PkgVars = append(f.PkgVars, filepath.Base(filepath.Dir(gf.path))+"/"+nm.Name)
						}
					}
				}
			}
		}
	}
	sort.Slice(f.Funcs, func(i, j int) bool { return f.Funcs[i][0] < f.Funcs[j][0] })
	if os.Getenv("EXTRACT_DUMP") != "" {
		var ks []string
		for k := range bodies {
			ks = append(ks, k)
		}
		sort.Strings(ks)
		for _, k := range ks {
			fmt.Printf("%s\t%s\n", k, bodies[k])
		}
	}
	relRe := regexp.MustCompile(`^(if _, (\w+) := p0\.\(float64\); (\w+) \{ return \(&FloatOperation\{\}\)\.(\w+)\(p0, p1\) \} )?(\w+), (\w+), (\w+) := recv\.get\(p0, p1\) if (\w+) != nil \{ return false, (\w+) \} return (.+), nil$`)
	classify := func(typ, m, b string) string {
		switch b {
		case "return false, ErrInvalidOperation":
			return "invalid"
		case "return p0 == nil, nil":
			return "isnil"
		case "return p0 != nil, nil":
			return "notnil"
		}
		if mm := relRe.FindStringSubmatch(b); mm != nil {
			pre := ""
			if mm[1] != "" {
				if mm[4] != m || mm[2] != mm[3] {
					return "unrecognised"
				}
				pre = "fdel;"
			}
			l, r, errv, expr := mm[5], mm[6], mm[7], mm[10]
			if mm[8] != errv || (mm[9] != errv && mm[9] != "nil") {
				return "unrecognised"
			}
			mode := "err"
			if mm[9] == "nil" {
				mode = "nil"
			}
			rel := ""
			for _, op := range []string{"==", "!=", ">=", "<=", ">", "<"} {
				if expr == l+" "+op+" "+r {
					rel = op
					break
				}
			}
			if rel == "" {
				for _, fn := range []string{"Contains", "HasPrefix", "HasSuffix"} {
					if expr == "strings."+fn+"("+l+", "+r+")" {
						rel = fn
					}
				}
			}
			if rel == "" {
				if sm := regexp.MustCompile(`^` + l + `\.(\w+)\(` + r + `\)$`).FindStringSubmatch(expr); sm != nil {
					rel = "semver." + sm[1]
				}
			}
			if rel == "" {
				return "unrecognised"
			}
			if mode == "nil" {
				return pre + "rel(" + rel + ");swallow"
			}
			return pre + "rel(" + rel + ");propagate"
		}
		if known, ok := knownBodies[b]; ok {
			return known
		}
		return "unrecognised"
	}
	for _, t := range opTypes {
		for _, m := range methods {
			key := t + "." + m
			if b, ok := bodies[key]; ok {
				f.OpTable = append(f.OpTable, [2]string{key, classify(t, m, b)})
			} else if len(embeds[t]) == 1 {
				f.OpTable = append(f.OpTable, [2]string{key, "inherit:" + embeds[t][0]})
			} else {
				f.OpTable = append(f.OpTable, [2]string{key, "unrecognised"})
			}
		}
	}
	for _, h := range []string{"toInt", "toFloat", "StringOperation.getString", "IntOperation.get", "FloatOperation.get", "BoolOperation.get", "StringOperation.get", "VersionOperation.get", "getString",
		"JsonQueryVisitorImpl.VisitAttrPath", "JsonQueryVisitorImpl.VisitLogicalExp", "JsonQueryVisitorImpl.VisitParenExp", "JsonQueryVisitorImpl.VisitPresentExp", "JsonQueryVisitorImpl.Visit",
		"NewEvaluator", "Evaluator.Process", "Evaluator.Reset", "Evaluator.LastDebugErr", "Evaluate", "root.Evaluate", "IntOperation.IN", "FloatOperation.IN", "StringOperation.IN", "JsonQueryVisitorImpl.VisitCompareExp", "NestedError.Error", "NestedError.Set", "NestedError.Original", "ErrInvalidOperand.Error"} {
		b, ok := bodies[h]
		cls := "missing"
		if ok {
			cls = "unrecognised"
			if k, ok2 := knownBodies[b]; ok2 {
				cls = k
			}
		}
		f.Coercions = append(f.Coercions, [2]string{h, cls})
	}

	// dispatch and literal visitors
	// (a switch that is not of the transcribed form – one assignment `fn = op.<METHOD>` per token constant – yields the
	// single row ("unrecognised", ""): the tie then claims nothing and the correspondence alone carries the dispatch)
	swRe := regexp.MustCompile(`switch p0\.op\.GetTokenType\(\) \{ (.*?) default: `)
	caseRe := regexp.MustCompile(`^JsonQueryParser(\w+): (\w+) = (\w+)\.(\w+)$`)
	if b, ok := bodies["JsonQueryVisitorImpl.VisitCompareExp"]; ok {
		recognised := false
		if sm := swRe.FindStringSubmatch(b); sm != nil {
			recognised = true
			var fnv, opv string
			for _, cl := range strings.Split(sm[1], "case ") {
				cl = strings.TrimSpace(cl)
				if cl == "" {
					continue
				}
				mm := caseRe.FindStringSubmatch(cl)
				if mm == nil || (fnv != "" && (mm[2] != fnv || mm[3] != opv)) {
					recognised = false
					break
				}
				fnv, opv = mm[2], mm[3]
				f.Dispatch = append(f.Dispatch, [2]string{mm[1], mm[4]})
			}
			if recognised && !strings.Contains(b, opv+" := recv.currentOperation") {
				recognised = false
			}
		}
		if !recognised {
			f.Dispatch = [][2]string{{"unrecognised", ""}}
		}
	}
	curRe := regexp.MustCompile(`recv\.currentOperation = &(\w+)\{\}`)
	var vnames []string
	for k := range bodies {
		if strings.HasPrefix(k, "JsonQueryVisitorImpl.Visit") {
			vnames = append(vnames, k)
		}
	}
	sort.Strings(vnames)
	// the visitors of the alternatives of `value`: each must select its Operation type in the transcribed form
	// `recv.currentOperation = &T{}`; one that does it in another way (through a helper, a table, a constructor) is
	// reported as `unrecognised` and claims nothing (the correspondence alone carries it, budgets x4) - never omitted
	litVisitors := map[string]bool{"VisitBoolean": true, "VisitNull": true, "VisitVersion": true, "VisitString": true, "VisitDouble": true, "VisitLong": true,
		"VisitListOfInts": true, "VisitListOfDoubles": true, "VisitListOfStrings": true}
	for _, k := range vnames {
		name := strings.TrimPrefix(k, "JsonQueryVisitorImpl.")
		ms := curRe.FindAllStringSubmatch(bodies[k], -1)
		for _, mm := range ms {
			f.LitOps = append(f.LitOps, [2]string{name, mm[1]})
		}
		if len(ms) == 0 && litVisitors[name] {
			f.LitOps = append(f.LitOps, [2]string{name, "unrecognised"})
		}
	}

	// package-level variables: a variable whose every use in hand-written code is a read that cannot change it or what it
	// refers to (comparison, return of a non-reference value, index read / range / len of a literal table) is not state
	var hf []*ast.File
	var hd []string
	for _, gf := range files {
		if gf.hand {
			hf = append(hf, gf.file)
			hd = append(hd, filepath.Base(filepath.Dir(gf.path)))
		}
	}
	roVars := pkgVarAnalysis(hf, hd)
	var mutable []string
	for _, v := range f.PkgVars {
		if roVars[v] {
			f.PkgReadonly = append(f.PkgReadonly, v)
		} else {
			mutable = append(mutable, v)
		}
	}
	f.PkgVars = mutable
	if f.PkgVars == nil {
		f.PkgVars = []string{}
	}
	if f.PkgReadonly == nil {
		f.PkgReadonly = []string{}
	}
	sort.Strings(f.PkgReadonly)

	// inventory
	// reachability (by name, over-approximate): a function counts for the observer set only if one of the functions that
	// existed when the model was transcribed (apiRoots), or a package-level initialiser, can reach it
	reach := map[string]bool{}
	var work []string
	mark := func(k string) {
		if _, ok := decls[k]; ok && !reach[k] {
			reach[k] = true
			work = append(work, k)
		}
	}
	refs := func(n ast.Node) {
		ast.Inspect(n, func(m ast.Node) bool {
			switch x := m.(type) {
			case *ast.Ident:
				mark(x.Name)
				mark("root." + x.Name)
			case *ast.SelectorExpr:
				for k := range decls {
					if strings.HasSuffix(k, "."+x.Sel.Name) {
						mark(k)
					}
				}
			}
			return true
		})
	}
	for _, k := range apiRoots {
		mark(k)
	}
	for _, gf := range files {
		if !gf.hand {
			continue
		}
		for _, d := range gf.file.Decls {
			if gd, ok := d.(*ast.GenDecl); ok && gd.Tok == token.VAR {
				refs(gd)
			}
		}
	}
	for len(work) > 0 {
		k := work[len(work)-1]
		work = work[:len(work)-1]
		refs(decls[k].Body)
	}
	for k := range decls {
		if !reach[k] {
			f.Unreachable = append(f.Unreachable, k)
		}
	}
	sort.Strings(f.Unreachable)
	if f.Unreachable == nil {
		f.Unreachable = []string{}
	}
	obs := map[string]bool{}
	refl := map[string]bool{}
	syncu := map[string]bool{}
	// types declared by the GENERATED parser (parse-tree contexts, the lexer and parser themselves): an assertion to one
	// of them inspects the parse tree, not a value of the input object - it is no observer of input values
	genTypes := map[string]bool{}
	for _, gf := range files {
		if gf.hand {
			continue
		}
		for _, d := range gf.file.Decls {
			if gd, ok := d.(*ast.GenDecl); ok && gd.Tok == token.TYPE {
				for _, sp := range gd.Specs {
					genTypes[sp.(*ast.TypeSpec).Name.Name] = true
				}
			}
		}
	}
	inventory := func(rel string, root ast.Node, observers bool) {
		// a type that mentions a type parameter of the enclosing generic function is not ONE observer: what is observed
		// depends on the instantiations. It is recorded as such and claims nothing (the quotient then rests on the
		// correspondence for the values that function sees; budgets x4)
		tparams := map[string]bool{}
		if fd, ok := root.(*ast.FuncDecl); ok && fd.Type.TypeParams != nil {
			for _, fl := range fd.Type.TypeParams.List {
				for _, nm := range fl.Names {
					tparams[nm.Name] = true
				}
			}
		}
		obsName := func(e ast.Expr) string {
			generic := false
			ast.Inspect(e, func(n ast.Node) bool {
				if id, ok := n.(*ast.Ident); ok && tparams[id.Name] {
					generic = true
				}
				return true
			})
			if generic {
				return "<type parameter>"
			}
			return render(e)
		}
		addObs := func(e ast.Expr) {
			base := e
			if st, ok := base.(*ast.StarExpr); ok {
				base = st.X
			}
			if id, ok := base.(*ast.Ident); ok && genTypes[id.Name] {
				return
			}
			obs[obsName(e)] = true
		}
		ast.Inspect(root, func(n ast.Node) bool {
			switch x := n.(type) {
			case *ast.GoStmt:
				f.GoStmts++
			case *ast.TypeAssertExpr:
				if x.Type != nil && observers {
					addObs(x.Type)
				}
			case *ast.TypeSwitchStmt:
				if observers {
					for _, c := range x.Body.List {
						for _, e := range c.(*ast.CaseClause).List {
							addObs(e)
						}
					}
				}
			case *ast.SelectorExpr:
				if id, ok := x.X.(*ast.Ident); ok {
					if id.Name == "reflect" && observers {
						refl[rel+":"+x.Sel.Name] = true
					}
					if id.Name == "sync" || id.Name == "atomic" {
						syncu[rel+":"+id.Name+"."+x.Sel.Name] = true
					}
				}
			case *ast.AssignStmt:
				for _, l := range x.Lhs {
					if ie, ok := l.(*ast.IndexExpr); ok {
						f.WriteSites = append(f.WriteSites, rel+":"+strconv.Itoa(fset.Position(ie.Pos()).Line)+":"+render(ie))
					}
				}
			case *ast.CallExpr:
				if id, ok := x.Fun.(*ast.Ident); ok && id.Name == "delete" {
					f.WriteSites = append(f.WriteSites, rel+":"+strconv.Itoa(fset.Position(x.Pos()).Line)+":"+render(x))
				}
			}
			return true
		})
	}
	for _, gf := range files {
		if !gf.hand {
			continue
		}
		rel := filepath.Base(filepath.Dir(gf.path)) + "/" + gf.name
		for _, d := range gf.file.Decls {
			if fd, ok := d.(*ast.FuncDecl); ok {
				key := ""
				for k, v := range decls {
					if v == fd {
						key = k
					}
				}
				inventory(rel, fd, key == "" || reach[key])
			} else {
				inventory(rel, d, true)
			}
		}
	}
	for k := range obs {
		f.Observers = append(f.Observers, k)
	}
	for k := range refl {
		f.ReflectUses = append(f.ReflectUses, k)
	}
	for k := range syncu {
		f.SyncUses = append(f.SyncUses, k)
	}
	sort.Strings(f.Observers)
	sort.Strings(f.ReflectUses)
	sort.Strings(f.SyncUses)
	sort.Strings(f.PkgVars)
	sort.Strings(f.WriteSites)

	f.LexerATN = "unreadable: grammar file or lexer file not read"
	if gram != nil && f.G4OK {
		for _, gf := range files {
			if gf.name == "jsonquery_lexer.go" {
				f.LexerATN, f.LexerATNWit = compareLexerATN(gf.file, gram, tokRules, implicitLits, render)
			}
		}
	}
	// ---------- emit ----------
	os.MkdirAll(outdir, 0o755)
	var gl strings.Builder
	if !f.G4OK {
		// the grammar file could not be read: the driver falls back to the table the proofs were written against;
		// `Tie.g4_readable` then fails and names the problem (DESIGN §4.1 policy 4)
		fb := "import RulesModel.Expected.LexTable\n/-! GENERATED by /verif/extract: parser/JsonQuery.g4 could not be read (" + strings.ReplaceAll(f.G4Err, "-/", "- /") + "); falling back to the expected tables. -/\nnamespace Rules.Generated\nopen Rules\ndef g4ok : Bool := false\ndef lexerRules : List (Kind × Regex) := jqRules\ndef lexerRuleNames : List String := Expected.lexerRuleNames\ndef parserRules : List String := []\ndef spellings : List (String × List String) := Expected.spellings\nend Rules.Generated\n"
		os.WriteFile(filepath.Join(outdir, "Grammar.lean"), []byte(fb), 0o644)
	} else {
		gl.WriteString("import RulesModel.Model.Lexer\n/-! GENERATED by /verif/extract from /repo/parser/JsonQuery.g4 — do not edit. -/\nnamespace Rules.Generated\nopen Rules Rules.Regex\n\n")
		fmt.Fprintf(&gl, "def g4ok : Bool := %v\n\n", f.G4OK)
		gl.WriteString("/-- token rules in priority order: implicit literals of the parser rules first, then the lexer rules in file order -/\n")
		gl.WriteString("def lexerRules : List (Kind × Regex) := [\n  " + strings.Join(lexLean, ",\n  ") + "]\n\n")
		gl.WriteString("def lexerRuleNames : List String := " + leanStrs(f.LexerRules) + "\n\n")
		gl.WriteString("def parserRules : List String := [\n  " + strings.Join(mapStr(f.ParserRules, leanStr), ",\n  ") + "]\n\n")
		var sp [][2]string
		for _, n := range f.LexerRules {
			if s, ok := f.Spellings[n]; ok {
				sp = append(sp, [2]string{n, strings.Join(s, "\x00")})
			}
		}
		gl.WriteString("/-- token name ↦ its literal spellings (for tokens that are plain alternatives of literals) -/\n")
		gl.WriteString("def spellings : List (String × List String) := [\n  ")
		var spp []string
		for _, p := range sp {
			spp = append(spp, "("+leanStr(p[0])+", "+leanStrs(strings.Split(p[1], "\x00"))+")")
		}
		gl.WriteString(strings.Join(spp, ",\n  ") + "]\n\nend Rules.Generated\n")
		os.WriteFile(filepath.Join(outdir, "Grammar.lean"), []byte(gl.String()), 0o644)
	}

	var fl strings.Builder
	fl.WriteString("/-! GENERATED by /verif/extract from /repo's Go sources — do not edit. -/\nnamespace Rules.Generated\n\n")
	fl.WriteString("def tokenConsts : List (String × String) := " + leanPairs(f.TokenConsts) + "\n\n")
	fl.WriteString("def lexerConsts : List (String × String) := " + leanPairs(f.LexerConsts) + "\n\n")
	fl.WriteString("def opTable : List (String × String) := " + leanPairs(f.OpTable) + "\n\n")
	fl.WriteString("def dispatch : List (String × String) := " + leanPairs(f.Dispatch) + "\n\n")
	fl.WriteString("def litOps : List (String × String) := " + leanPairs(f.LitOps) + "\n\n")
	fl.WriteString("def coercions : List (String × String) := " + leanPairs(f.Coercions) + "\n\n")
	fl.WriteString("def pkgVars : List String := " + leanStrs(f.PkgVars) + "\n\n")
	fmt.Fprintf(&fl, "def goStmts : Nat := %d\n\n", f.GoStmts)
	fl.WriteString("def syncUses : List String := " + leanStrs(f.SyncUses) + "\n\n")
	fl.WriteString("def observers : List String := " + leanStrs(f.Observers) + "\n\n")
	fl.WriteString("def reflectUses : List String := " + leanStrs(f.ReflectUses) + "\n\n")
	fl.WriteString("/-- the serialised lexer ATN of jsonquery_lexer.go against the token rules of JsonQuery.g4, rule by rule (extract/atn.go) -/\ndef lexerAtn : String := " + leanStr(f.LexerATN) + "\n\n")
	fl.WriteString("end Rules.Generated\n")
	os.WriteFile(filepath.Join(outdir, "Facts.lean"), []byte(fl.String()), 0o644)

	if lexerATNLean == "" {
		// unreadable tables, or tables outside the modelled fragment: an empty table (Tie/LexerATNProof then proves nothing
		// about the lexer and says so)
		lexerATNLean = "import RulesModel.Model.ATN\n/-! GENERATED by /verif/extract: the lexer ATN could not be rendered (" + strings.ReplaceAll(f.LexerATN, "-/", "- /") + "). -/\nnamespace Rules.Generated\nopen Rules.NFA\ndef lexerAtnData : ATN := { edges := [], stops := [] }\ndef lexerAtnRules : List (Nat × Nat × Nat × List (Nat × Nat)) := []\nend Rules.Generated\n"
	}
	os.WriteFile(filepath.Join(outdir, "LexerATN.lean"), []byte(lexerATNLean), 0o644)

	vsrc, vstatus, vnotes := genVisitor(fset, decls, declFile, f.TokenConsts, render)
	f.VisitorGen, f.VisitorNote = vstatus, vnotes
	os.WriteFile(filepath.Join(outdir, "Visitor.lean"), []byte(vsrc), 0o644)
	osrc, ostatus := genOps(fset, decls, declFile, embeds, render)
	f.OpsGen = ostatus
	os.WriteFile(filepath.Join(outdir, "Ops.lean"), []byte(osrc), 0o644)

	js, _ := json.MarshalIndent(f, "", " ")
	os.WriteFile(outjson, js, 0o644)
}

func mapStr(ss []string, fn func(string) string) []string {
	var out []string
	for _, s := range ss {
		out = append(out, fn(s))
	}
	return out
}
