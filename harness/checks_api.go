package main

// L-api layer: C07 (no crash), C11 (reuse), C13 (input not modified), C14 (entry points agree), C19 (NestedError);
// L-conc: C12.

import (
	"bufio"
	"context"
	"encoding/json"
	"errors"
	"fmt"
	"math"
	"os"
	"os/exec"
	"runtime"
	"strconv"
	"strings"
	"sync"
	"time"
	"unicode/utf8"

	"github.com/nikunjy/rules/parser"
)

func init() {
	checks["C07"] = checkC07
	checks["C11"] = checkC11
	checks["C12"] = checkC12
	checks["C13"] = checkC13
	checks["C14"] = checkC14
	checks["C19"] = checkC19
}

// ---------- protocol value parser (replays, child mode) ----------
func parseAV(toks []string, pos *int) *AV {
	if *pos >= len(toks) {
		return nil
	}
	t := toks[*pos]
	*pos++
	nextInt := func() int64 { v, _ := strconv.ParseInt(toks[*pos], 10, 64); *pos++; return v }
	switch t {
	case "N":
		return avNull()
	case "B":
		b := toks[*pos] == "1"
		*pos++
		return &AV{K: AVBool, B: b}
	case "I":
		return &AV{K: AVInt, I: nextInt()}
	case "I32":
		return &AV{K: AVInt32, I: nextInt()}
	case "I64":
		return &AV{K: AVInt64, I: nextInt()}
	case "F":
		u, _ := strconv.ParseUint(toks[*pos], 16, 64)
		*pos++
		return avFloat(math.Float64frombits(u))
	case "S":
		s := unhx(toks[*pos])
		*pos++
		return avStr(s)
	case "T":
		id := int(nextInt())
		k := toks[*pos]
		*pos++
		if k == "P" {
			return &AV{K: AVStringerPanic, ID: id}
		}
		s := unhx(toks[*pos])
		*pos++
		return &AV{K: AVStringer, ID: id, S: s}
	case "X":
		return &AV{K: AVOther, Tag: int(nextInt())}
	case "O":
		n := int(nextInt())
		o := avObj()
		for i := 0; i < n; i++ {
			k := unhx(toks[*pos])
			*pos++
			o.Keys = append(o.Keys, k)
			o.Vals = append(o.Vals, parseAV(toks, pos))
		}
		return o
	}
	return nil
}

func avFromProto(s string) *AV {
	pos := 0
	return parseAV(strings.Split(s, " "), &pos)
}

// ---------- zoo objects ----------
func (c *Ctx) zooObject(root *Node) *AV {
	o := genObject(c.R, root, ObjOpts{AbsentPct: 10, NilPct: 8, NullParent: 10, NonObjMid: 25})
	if c.R.Chance(1, 6) {
		// sprinkle odd values at top level under the rule's first segments
		var ls []*Node
		root.Leaves(&ls)
		for _, lf := range ls {
			if c.R.Chance(1, 3) {
				o.Nil = false
				o.Set(lf.Path[0], &AV{K: AVOther, Tag: c.R.Intn(len(otherNames))})
			}
		}
	}
	return o
}

func (c *Ctx) anyRuleText() (string, *Node) {
	t := genTree(c.R, 1+c.R.Intn(6), 4, nil)
	s := c.style(c.R.Chance(1, 3)).Render(t)
	switch roll := c.R.Intn(100); {
	case roll < 55:
	case roll < 75:
		s = c.mutate(s)
	case roll < 85:
		s = c.tokenSoup()
	case roll < 93:
		s = c.randomBytes()
	case roll < 97:
		// deep nesting
		d := 20 + c.R.Intn(200)
		s = strings.Repeat(pick(c.R, []string{"(", "not (", "NOT( "}), d) + s + strings.Repeat(")", d)
	default:
		// long chains up to a few KiB
		var sb strings.Builder
		sb.WriteString(s)
		for sb.Len() < 1000+c.R.Intn(3000) {
			sb.WriteString(pick(c.R, []string{" and ", " or "}) + c.style(true).Render(genLeaf(c.R, 3)))
		}
		s = sb.String()
	}
	return s, t
}

// ---------- C07 ----------
type c07Case struct {
	Rule string   `json:"rule_hex"`
	Objs []string `json:"objs"`
	Deep int      `json:"deep,omitempty"` // > 0: the attribute x of the (only) object is a chain of that many nested pointers
}

type deepNode struct{ Next *deepNode }

func c07Judge(rule string, objs []*AV) (what string, detail string) {
	ev, err, esc := newEvaluator(rule)
	if esc != "" {
		return "a panic escaped NewEvaluator", esc
	}
	if err != nil {
		if _, f := errorText(err); f != "" {
			return "Error() of the error returned by NewEvaluator failed", f
		}
	}
	var kept []error // every error value and diagnostic a caller may still hold
	again := func(when string) (string, string) {
		for _, e := range kept {
			if _, f := errorText(e); f != "" {
				return "Error() of a value returned earlier failed " + when, f
			}
		}
		return "", ""
	}
	for _, o := range objs {
		m := o.GoMap()
		if ev != nil {
			ob := observeProcess(ev, m)
			func() {
				defer func() { recover() }()
				if d := ev.LastDebugErr(); d != nil {
					kept = append(kept, d)
				}
			}()
			switch {
			case ob.Escaped != "":
				return "a panic escaped", ob.Escaped
			case ob.E != "-" && ob.V:
				return "an error was returned together with verdict true", ob.Line()
			case ob.TextFail != "":
				return "Error() of a returned error failed", ob.TextFail
			}
		}
		rv, re, resc := rulesEvaluate(rule, m)
		if resc != "" {
			return "a panic escaped", resc
		}
		if re != "-" && rv {
			return "rules.Evaluate returned an error together with verdict true", re
		}
		if _, pesc := parserEvaluate(rule, m); pesc != "" {
			return "a panic escaped", pesc
		}
		if w, d := again("after a later Process call"); w != "" {
			return w, d
		}
	}
	defer func() {
		if what == "" {
			what, detail = again("after Reset")
		}
	}()
	if ev != nil {
		func() {
			defer func() {
				if r := recover(); r != nil {
					what, detail = "a panic escaped Reset", panicText(r)
				}
			}()
			ev.Reset()
		}()
	}
	return
}

func checkC07(c *Ctx) {
	c.Res.Rule = "rule texts (55% sentences, mutants, token soup, random bytes incl. invalid UTF-8, nesting to depth 220, chains to 4 KiB) x 1-3 objects from an adversarial zoo (nil map, non-objects in the middle of paths, NaN/Inf, typed nil, named map, slices, structs, funcs, channels, panicking Stringers), evaluated on one reused evaluator and through both Evaluate functions, in a child process watched for death and hangs; every public call wrapped in recover; checked: nothing escapes, error => verdict false, Error() of every returned error and of LastDebugErr returns; non-trivial = distinct (rule, objects) where some call returned an error or a diagnostic"
	n := c.budget(8000, 360000)
	// the cases are generated here, executed in a child
	var cases []c07Case
	gen := func() c07Case {
		s, t := c.anyRuleText()
		k := 1 + c.R.Intn(3)
		cs := c07Case{Rule: hx(s)}
		for j := 0; j < k; j++ {
			cs.Objs = append(cs.Objs, c.zooObject(t).String())
		}
		return cs
	}
	for _, w := range []struct{ r, o string }{{"x in [1,2]", "O 0"}, {"x in [\"a\"]", "O 0"}, {"x eq 1.2.3", "O 0"}, {"x eq 1.0e999", "O 1 78 F 3ff0000000000000"}, {"x in [1.5,2.5]", "O 0"},
		{"a.b eq 1", "O 1 61 I 5"}, {"x eq \"s\"", "O 1 78 T 1 P"}, {"not (x gt true)", "O 1 78 I 1"}, {"x co 1", "O 1 78 I 1"}} {
		cases = append(cases, c07Case{Rule: hx(w.r), Objs: []string{w.o, w.o}})
	}
	// many comparisons that each leave a diagnostic, in one evaluation (a diagnostic must not grow with their number)
	for _, joiner := range []string{" or ", " and not ("} {
		var sb strings.Builder
		for i := 0; i < 48; i++ {
			if i > 0 {
				sb.WriteString(joiner)
			}
			fmt.Fprintf(&sb, "k%d eq %d", i, i)
			if i > 0 && joiner != " or " {
				sb.WriteString(")")
			}
		}
		cases = append(cases, c07Case{Rule: hx(sb.String()), Objs: []string{"O 0", "O 1 6b30 S 61"}})
	}
	for i := 0; i < n; i++ {
		cases = append(cases, gen())
	}
	if c.Tier == "quick" {
		// an acyclic value nested millions deep (a chain of pointers): placed last, it costs two seconds and a gigabyte of stack
		cases = append(cases, c07Case{Rule: hx("x eq 1"), Objs: []string{"O 0"}, Deep: 3000000})
	}
	c.runC07Children(cases)
}

func (c *Ctx) runC07Children(cases []c07Case) {
	start := 0
	for start < len(cases) && !c.full() {
		// address space capped at 6 GB: a run-away allocation kills the child (and is reported), not the machine
		cmd := exec.Command("sh", "-c", "ulimit -v 6000000 2>/dev/null; exec \"$0\" -child c07", c.Self)
		cmd.Env = append(os.Environ(), "GOMEMLIMIT=2GiB")
		in, _ := cmd.StdinPipe()
		out, _ := cmd.StdoutPipe()
		cmd.Stderr = nil
		if err := cmd.Start(); err != nil {
			c.internal("cannot start child: " + err.Error())
			return
		}
		go func(from int) {
			w := bufio.NewWriter(in)
			enc := json.NewEncoder(w)
			for i := from; i < len(cases); i++ {
				enc.Encode(cases[i])
			}
			w.Flush()
			in.Close()
		}(start)
		lines := make(chan string, 1024)
		go func() {
			sc := bufio.NewScanner(out)
			sc.Buffer(make([]byte, 1<<20), 1<<24)
			for sc.Scan() {
				lines <- sc.Text()
			}
			close(lines)
		}()
		cur := start - 1
		ended := start - 1 // index of the last case the child reported as finished
		died := false
	loop:
		for {
			select {
			case l, ok := <-lines:
				if !ok {
					died = cur+1 < len(cases) || cur < start || ended != cur
					break loop
				}
				switch {
				case strings.HasPrefix(l, "BEGIN "):
					cur, _ = strconv.Atoi(l[6:])
					cur += start
				case strings.HasPrefix(l, "END "):
					ended = cur
					c.Res.Evaluations++
					if strings.HasSuffix(l, " nontrivial") {
						c.nontrivial(cases[cur].Rule, strings.Join(cases[cur].Objs, "|"))
					}
				case strings.HasPrefix(l, "VIOL "):
					var v Violation
					json.Unmarshal([]byte(l[5:]), &v)
					c.violate(v)
				}
			case <-time.After(20 * time.Second):
				cmd.Process.Kill()
				died = true
				break loop
			}
		}
		cmd.Wait()
		if !died || cur < start {
			if cur < start && died {
				c.internal("child died before the first case")
			}
			return
		}
		// the child died or hung inside case `cur`
		cs := cases[cur]
		var objs []string
		for _, o := range cs.Objs {
			objs = append(objs, avFromProto(o).Pretty())
		}
		v := Violation{What: "the process died or hung inside a public call (fatal runtime error, deadlock or endless loop)", Rule: unhx(cs.Rule), RuleHex: cs.Rule,
			Object: strings.Join(objs, " ; then "), ObjProto: strings.Join(cs.Objs, " | "), Kind: "history",
			Demand: "NewEvaluator, Process (repeatedly on one evaluator), Evaluate, LastDebugErr and Error() all return normally", Go: "child process killed after 20 s without progress or exited abnormally"}
		if cs.Deep > 0 {
			v.Key = "C07:value-nested-deeper-than-the-goroutine-stack"
			v.Object = fmt.Sprintf("{x: a chain of %d nested pointers (type node struct{ Next *node })}", cs.Deep)
			v.Go = "LastDebugErr().Error() -> encoding/json recurses once per level: fatal error: stack overflow (goroutine stack exceeds the 1 GB limit); the process is killed"
		}
		c.violate(v)
		start = cur + 1
	}
}

func childC07() {
	sc := bufio.NewScanner(os.Stdin)
	sc.Buffer(make([]byte, 1<<20), 1<<26)
	w := bufio.NewWriter(os.Stdout)
	i := 0
	for sc.Scan() {
		var cs c07Case
		if json.Unmarshal(sc.Bytes(), &cs) != nil {
			continue
		}
		fmt.Fprintf(w, "BEGIN %d\n", i)
		w.Flush()
		rule := unhx(cs.Rule)
		var objs []*AV
		for _, o := range cs.Objs {
			objs = append(objs, avFromProto(o))
		}
		if cs.Deep > 0 {
			var head *deepNode
			for k := 0; k < cs.Deep; k++ {
				head = &deepNode{Next: head}
			}
			if ev, _, _ := newEvaluator(rule); ev != nil {
				func() {
					defer func() { recover() }()
					ev.Process(map[string]interface{}{"x": head})
					if d := ev.LastDebugErr(); d != nil {
						_ = d.Error()
					}
				}()
			}
			fmt.Fprintf(w, "END %d\n", i)
			w.Flush()
			i++
			continue
		}
		what, detail := c07Judge(rule, objs)
		nt := ""
		if what != "" {
			var po []string
			for _, o := range objs {
				po = append(po, o.Pretty())
			}
			v := Violation{Property: "C07", Kind: "history", What: what, Rule: rule, RuleHex: cs.Rule, Object: strings.Join(po, " ; then "), ObjProto: strings.Join(cs.Objs, " | "),
				Demand: "every public call returns normally; an error comes with verdict false; Error() returns", Go: detail}
			b, _ := json.Marshal(v)
			fmt.Fprintf(w, "VIOL %s\n", b)
		} else {
			ev, _, _ := newEvaluator(rule)
			if ev != nil && len(objs) > 0 {
				ob := observeProcess(ev, objs[0].GoMap())
				if ob.E != "-" || ob.D != "-" {
					nt = " nontrivial"
				}
			}
		}
		fmt.Fprintf(w, "END %d%s\n", i, nt)
		w.Flush()
		i++
	}
}

func runChild(mode string) {
	switch mode {
	case "c07":
		childC07()
	case "conc":
		childConc()
	case "cold":
		childCold()
	case "coldtext":
		childColdText()
	}
}

// childCold: evaluates (rule, object) lines in a process in which nothing else has been parsed before.
func childCold() {
	sc := bufio.NewScanner(os.Stdin)
	sc.Buffer(make([]byte, 1<<20), 1<<26)
	w := bufio.NewWriter(os.Stdout)
	defer w.Flush()
	for sc.Scan() {
		f := strings.SplitN(sc.Text(), "\t", 2)
		if len(f) != 2 {
			continue
		}
		fmt.Fprintln(w, evalFresh(unhx(f[0]), avFromProto(f[1]).GoMap()).Line())
	}
}

// childColdText: the class and the text of the error one rule yields in a process in which nothing has been parsed before
func childColdText() {
	sc := bufio.NewScanner(os.Stdin)
	sc.Buffer(make([]byte, 1<<20), 1<<26)
	if sc.Scan() {
		o := evalFresh(unhx(sc.Text()), map[string]interface{}{})
		fmt.Println(o.E + "\t" + hx(o.ErrText))
	}
}

// coldErrText: (class, error text) of a rule in a fresh process; ok=false when the child could not be run
func (c *Ctx) coldErrText(rule string) (string, string, bool) {
	cmd := exec.Command(c.Self, "-child", "coldtext")
	cmd.Stdin = strings.NewReader(hx(rule) + "\n")
	out, err := cmd.Output()
	if err != nil {
		return "", "", false
	}
	f := strings.SplitN(strings.TrimRight(string(out), "\n"), "\t", 2)
	if len(f) != 2 {
		return "", "", false
	}
	return f[0], unhx(f[1]), true
}

func (c *Ctx) coldReference(lines []string) []string {
	cmd := exec.Command(c.Self, "-child", "cold")
	cmd.Stdin = strings.NewReader(strings.Join(lines, "\n") + "\n")
	out, err := cmd.Output()
	if err != nil {
		return nil
	}
	return strings.Split(strings.TrimRight(string(out), "\n"), "\n")
}

// ---------- C14 ----------
func checkC14(c *Ctx) {
	c.Res.Rule = "rule texts of every family (sentences, mutants, token soup, bytes, empty, blanks) x zoo objects; rules.Evaluate, parser.NewEvaluator+Process and parser.Evaluate side by side; compared: verdicts, error-or-not, and verdict false whenever an error is reported; non-trivial = distinct (rule, object) on which an error is reported or the verdict is true"
	n := c.budget(15000, 600000)
	for i := 0; i < n+len(corpusTexts) && !c.full(); i++ {
		var s string
		var t *Node
		if i < len(corpusTexts) {
			s, t = corpusTexts[i], genTree(c.R, 2, 2, nil)
		} else {
			s, t = c.anyRuleText()
			if len(s) > 600 {
				s = s[:600]
			}
		}
		o := c.zooObject(t)
		if i < len(corpusTexts) {
			o = avObj()
			o.Set("x", avInt(1))
			o.Set("y", avInt(2))
		}
		// bytes that are not UTF-8 inside a quoted literal: the lexer reads them as U+FFFD, which a string literal may
		// contain, so the text stays a sentence for every entry point alike
		if i >= len(corpusTexts) && c.R.Chance(1, 20) {
			if q := strings.Index(s, "\""); q >= 0 && q+1 < len(s) {
				s = s[:q+1] + pick(c.R, []string{"\xff", "a\xffb", "\xc3(", "\xed\xa0\x80", "\xf0\x28"}) + s[q+1:]
				c.count("non_utf8_bytes_inside_a_literal")
			}
		}
		m := o.GoMap()
		// a third of the cases: Process on an evaluator that has already processed other objects (some of them failing) -
		// still "NewEvaluator followed by Process"; the one-shot entry points must agree with it all the same
		var before []map[string]interface{}
		if i >= len(corpusTexts) && c.R.Chance(1, 3) {
			for k := 0; k < 1+c.R.Intn(2); k++ {
				before = append(before, c.zooObject(t).GoMap())
			}
			c.count("process_on_a_used_evaluator")
		}
		ob := evalOn(s, m, before)
		rv, re, resc := rulesEvaluate(s, m)
		pv, pesc := parserEvaluate(s, m)
		c.Res.Evaluations++
		if ob.Escaped != "" || resc != "" || pesc != "" {
			c.count("escaped_panic_is_C07s_business")
			continue
		}
		if ob.E != "-" || ob.V {
			c.nontrivial(s, o.String())
		}
		c.count("outcome_" + map[bool]string{true: "error", false: "verdict"}[ob.E != "-"])
		bad := ""
		switch {
		case rv != ob.V || (re != "-") != (ob.E != "-"):
			bad = fmt.Sprintf("rules.Evaluate returned (%v, err=%s) but NewEvaluator+Process returned (%v, err=%s)", rv, re, ob.V, ob.E)
		case pv != ob.V:
			bad = fmt.Sprintf("parser.Evaluate returned %v but NewEvaluator+Process returned %v", pv, ob.V)
		case ob.E != "-" && ob.V:
			bad = "an error is reported together with verdict true"
		}
		if bad != "" {
			c.violate(Violation{What: "the entry points disagree", Rule: s, RuleHex: hx(s), Object: o.Pretty(), ObjProto: o.String(), Demand: "same verdict and same error-or-not from all three entry points; false whenever an error is reported", Go: bad})
			continue
		}
		c.sample(map[string]string{"rule": s, "object": o.Pretty(), "outcome": ob.Line()})
		// a related text (other letter case / other white space) right afterwards: a cache keyed too coarsely shows here
		if c.R.Chance(1, 2) {
			s2 := relatedText(c.R, s)
			if s2 != s {
				ob2 := evalFresh(s2, m)
				rv2, re2, resc2 := rulesEvaluate(s2, m)
				pv2, pesc2 := parserEvaluate(s2, m)
				c.Res.Evaluations++
				c.count("related_text_followup")
				if ob2.Escaped == "" && resc2 == "" && pesc2 == "" && (rv2 != ob2.V || (re2 != "-") != (ob2.E != "-") || pv2 != ob2.V) {
					c.violate(Violation{Kind: "history", What: "the entry points disagree on a text evaluated after a related text", Rule: s2, RuleHex: hx(s2), Object: o.Pretty(), ObjProto: o.String(),
						Ops: fmt.Sprintf("first all three entry points on %q, then on %q", s, s2), Demand: "same verdict and same error-or-not from all three entry points",
						Go: fmt.Sprintf("rules.Evaluate=(%v,%s) NewEvaluator+Process=(%v,%s) parser.Evaluate=%v", rv2, re2, ob2.V, ob2.E, pv2)})
				}
			}
		}
	}
}

// ---------- C13 ----------
func checkC13(c *Ctx) {
	c.Res.Rule = "rules (well-formed and not) x objects with nested, shared (the same map reachable by two paths) and odd sub-values (named maps, map[interface{}]interface{}, slices); deep snapshot (structure, values, float bits, map identity) before and after Process, rules.Evaluate, parser.Evaluate and LastDebugErr().Error(), for verdict, error and recovered-panic outcomes; non-trivial = distinct (rule, object) whose evaluation reads at least one nested map"
	n := c.budget(20000, 450000)
	for i := 0; i < n && !c.full(); i++ {
		s, t := c.anyRuleText()
		if len(s) > 600 {
			s = s[:600]
		}
		o := c.zooObject(t)
		m := o.GoMap()
		// make sharing and odd containers
		var ls []*Node
		t.Leaves(&ls)
		if m != nil {
			for _, lf := range ls {
				if len(lf.Path) >= 2 && c.R.Chance(1, 3) {
					if sub, ok := m[lf.Path[0]].(map[string]interface{}); ok {
						m["shared_alias"] = sub
					} else if m[lf.Path[0]] == nil && c.R.Chance(1, 2) {
						ym := map[interface{}]interface{}{lf.Path[1]: "eu", 7: 1, "emails": []interface{}{map[interface{}]interface{}{"addr": "a@b"}, "x"},
							"child": map[string]interface{}{"port": 80, "deep": map[string]interface{}{"k": "v"}}}
						if len(lf.Path) > 2 {
							// an ordinary object below the yaml-shaped one, on the path: it stays the caller's
							ym[lf.Path[1]] = map[string]interface{}{lf.Path[2]: 1, "other": map[string]interface{}{"k": 1}}
						}
						m[lf.Path[0]] = ym
						m["yaml_child_alias"] = ym["child"]
					}
				}
				if len(lf.Path) == 1 && c.R.Chance(1, 8) {
					m[lf.Path[0]] = map[string]interface{}{"k": 1, "n": map[string]interface{}{"z": 2.5}}
				}
				if lf.T == NCmp && lf.Lit.Kind == "str" && len(lf.Path) == 1 && len(lf.Lit.Text) > 2 && c.R.Chance(1, 6) {
					// a JSON-style list of texts where a string is compared (next to a typed []string elsewhere in the object)
					m[lf.Path[0]] = []interface{}{strings.Trim(lf.Lit.Text, "\""), "green"}
					c.count("short_interface_slice_at_a_string_comparison")
				} else if lf.T == NCmp && strings.HasSuffix(lf.Lit.Kind, "list") && len(lf.Path) == 1 && c.R.Chance(1, 4) {
					// a short []interface{} attribute (what a JSON decoder gives) at a list comparison: next to a typed slice at
					// another list comparison of the same rule this is what a shared scratch buffer would be filled from
					l := []interface{}{}
					for _, e := range lf.Lit.Elems {
						if len(l) >= 2 {
							break
						}
						switch lf.Lit.Kind {
						case "ilist":
							if n, err := strconv.ParseInt(strings.TrimSpace(e), 10, 64); err == nil {
								l = append(l, int(n))
							}
						case "dlist":
							if f, err := strconv.ParseFloat(strings.TrimSpace(e), 64); err == nil {
								l = append(l, f)
							}
						default:
							l = append(l, strings.Trim(e, "\""))
						}
					}
					if len(l) > 0 {
						m[lf.Path[0]] = l
						c.count("short_interface_slice_at_a_list_comparison")
					}
				} else if lf.T == NCmp && (strings.HasSuffix(lf.Lit.Kind, "list") || lf.Lit.Kind == "str") && c.R.Chance(1, 3) {
					// a typed slice of many elements in no particular order where a list literal is compared: a set
					// operation that sorts or de-duplicates in place would reorder the caller's slice
					var v interface{}
					k := 13 + c.R.Intn(40)
					switch lf.Lit.Kind {
					case "ilist":
						x := make([]int, k)
						for j := range x {
							x[j] = (j*7919 + 907) % 1000
						}
						v = x
					case "dlist":
						x := make([]float64, k)
						for j := range x {
							x[j] = float64((j*7919+907)%1000) / 4
						}
						v = x
					default:
						x := make([]string, k)
						for j := range x {
							x[j] = fmt.Sprintf("s%03d", (j*7919+907)%1000)
							if j%5 == 1 {
								x[j] = "" // blank entries between the others: what an in-place filter would compact
							}
						}
						if lf.Lit.Kind == "str" && len(lf.Lit.Text) > 2 {
							x[k-1] = lf.Lit.Text[1 : len(lf.Lit.Text)-1]
						}
						v = x
					}
					if len(lf.Path) == 1 {
						m[lf.Path[0]] = v
					} else if sub, ok := m[lf.Path[0]].(map[string]interface{}); ok && sub != nil && len(lf.Path) == 2 {
						sub[lf.Path[1]] = v
					}
					c.count("long_unordered_typed_slice_at_a_list_comparison")
				}
				if c.R.Chance(1, 10) {
					// byte slices (their backing array belongs to the caller), also at the end of a nested path
					bs := []byte(pick(c.R, []string{"Bearer ABC", "ABC", "1.2.3", "Straße", "X"}))
					if len(lf.Path) == 1 {
						m[lf.Path[0]] = bs
					} else if sub, ok := m[lf.Path[0]].(map[string]interface{}); ok && sub != nil && len(lf.Path) == 2 {
						sub[lf.Path[1]] = bs
					}
				}
				if len(lf.Path) == 1 && c.R.Chance(1, 6) {
					// containers with awkward contents: long strings, non-finite floats, heterogeneous lists sharing a backing array
					base := []interface{}{nil, "admin", "dev", 1.5, map[string]interface{}{"deep": strings.Repeat("x", 300)}, true, 7}
					switch c.R.Intn(4) {
					case 0:
						m[lf.Path[0]] = map[string]interface{}{"note": strings.Repeat("long ", 60), "limit": math.Inf(1), "nan": math.NaN(), "l": base[1:4]}
					case 1:
						m[lf.Path[0]] = base[:4]
						m["same_backing_array"] = base[2:6]
					case 2:
						m[lf.Path[0]] = []interface{}{nil, lf.Lit.Text, strings.Trim(lf.Lit.Text, "\""), 1, 1.0}
					default:
						m[lf.Path[0]] = map[string]interface{}{"a": []interface{}{math.NaN(), strings.Repeat("y", 200)}, "b": map[string]interface{}{"c": map[string]interface{}{"d": strings.Repeat("z", 129)}}}
					}
				}
			}
		}
		before := snap(m)
		ev, _, _ := newEvaluator(s)
		var ob Obs
		if ev != nil {
			ob = observeProcess(ev, m)
			if c.R.Chance(1, 2) {
				// the same evaluator again on the same object, and Reset: whatever the first call keeps for later
				// (converted copies, buffers, a diagnostic that refers into the object) must not be written through
				observeProcess(ev, m)
				func() {
					defer func() { recover() }()
					ev.Reset()
				}()
				c.count("second_call_and_reset_on_the_same_object")
			}
		}
		after1 := snap(m)
		rulesEvaluate(s, m)
		parserEvaluate(s, m)
		after2 := snap(m)
		c.Res.Evaluations++
		nested := false
		for _, lf := range ls {
			if len(lf.Path) > 1 {
				nested = true
			}
		}
		if nested {
			c.nontrivial(s, before)
		}
		c.count("outcome_" + ob.E)
		if before != after1 || before != after2 {
			c.violate(Violation{What: "evaluation modified the input object", Rule: s, RuleHex: hx(s), Object: before, Demand: "the object is deeply equal to what it was before the call", Go: "after: " + after2 + " (outcome " + ob.Line() + ")"})
			continue
		}
		if i < 4 {
			c.sample(map[string]string{"rule": s, "object_snapshot": before, "outcome": ob.Line()})
		}
	}
}

// ---------- C11 ----------
func checkC11(c *Ctx) {
	c.Res.Rule = "histories of 5-40 Process/Reset/LastDebugErr calls on a pool of 1-6 evaluators for different rules created at random points (parser caches cold at first, warm later), objects of all kinds incl. panicking Stringers and non-objects inside paths; each Process is compared with a freshly created evaluator for the same text on the same object (verdict, error class, diagnostic, Stringer calls), LastDebugErr with the Lean evaluator state machine fed with those fresh answers (SEQP); non-trivial = distinct history containing >= 2 Process calls on one evaluator with different outcomes"
	n := c.budget(1500, 75000)
	for i := 0; i < n && !c.full(); i++ {
		type slot struct {
			text      string
			tree      *Node
			ev        *parser.Evaluator
			syn       bool
			opsP      []string // for SEQP
			outs      []string // observed
			hist      []string // readable
			kinds     map[string]bool
			variantOf string
			coldIn    []string
			coldGot   []string
			coldObj   []string
			lastMap   map[string]interface{}
			synCold   bool
		}
		var pool []*slot
		mk := func() {
			s, t := c.anyRuleText()
			if len(s) > 400 {
				s = c.style(false).Render(t)
			}
			variantOf := ""
			if len(pool) > 0 && c.R.Chance(1, 3) {
				// a text that differs from an earlier one only in letter case or white space
				base := pick(c.R, pool)
				if s2 := relatedText(c.R, base.text); s2 != base.text {
					s, t, variantOf = s2, base.tree, base.text
				}
			}
			if c.R.Chance(1, 8) {
				// outer white space is removed before the rule is read: the padded text is the same rule, also after Reset
				s = pick(c.R, []string{" ", "\n", " \n", "\t", "  ", "\r\n"}) + s + pick(c.R, []string{" ", "\n", " \n ", "\t", ""})
			}
			ev, err, esc := newEvaluator(s)
			if esc != "" || err != nil || ev == nil {
				return
			}
			fresh := evalFresh(s, nil)
			pool = append(pool, &slot{text: s, tree: t, ev: ev, syn: fresh.E == "syn", kinds: map[string]bool{}, variantOf: variantOf})
		}
		mk()
		if len(pool) == 0 {
			continue
		}
		steps := 5 + c.R.Intn(36)
		if c.R.Chance(1, 25) {
			steps = 130 + c.R.Intn(200) // a long life: behaviour gated on a number of calls shows only here
			c.count("long_history")
		}
		for k := 0; k < steps; k++ {
			if len(pool) < 6 && c.R.Chance(1, 6) && (steps < 100 || len(pool) < 2) {
				mk()
			}
			sl := pick(c.R, pool)
			switch roll := c.R.Intn(10); {
			case roll < 6:
				o := c.zooObject(sl.tree)
				m := o.GoMap()
				recycled := ""
				if sl.lastMap != nil && m != nil && len(m) == len(sl.lastMap) && c.R.Chance(1, 3) {
					// the caller recycles the map object of the previous call: same identity, same keys, new contents
					same := true
					for k := range m {
						if _, ok := sl.lastMap[k]; !ok {
							same = false
						}
					}
					if same {
						for k, v := range m {
							sl.lastMap[k] = v
						}
						m = sl.lastMap
						recycled = " [the map object of the previous Process call, refilled in place]"
						c.count("caller_map_recycled")
					}
				}
				sl.lastMap = m
				fresh := evalFresh(sl.text, m)
				got := observeProcess(sl.ev, m)
				if fresh.E == "escaped" || got.E == "escaped" {
					continue
				}
				if fresh.Line() != got.Line() || (fresh.E == "syn" && got.E == "syn" && fresh.ErrText != got.ErrText) {
					c.violate(Violation{Kind: "history", What: "Process on a reused evaluator differs from a fresh evaluator", Rule: sl.text, RuleHex: hx(sl.text), Object: o.Pretty() + recycled, ObjProto: o.String(),
						Ops: strings.Join(sl.hist, " ; "), Demand: "what a freshly created evaluator returns: " + fresh.Line(), Go: got.Line() + " " + got.ErrText})
					k = steps
					break
				}
				if got.E == "syn" && !sl.synCold && c.R.Chance(1, 3) {
					// the error of a malformed rule, text included, against a process in which nothing was parsed before
					sl.synCold = true
					if cls, txt, ok := c.coldErrText(sl.text); ok && cls == "syn" && txt != got.ErrText {
						c.violate(Violation{Kind: "history", What: "the error a malformed rule yields depends on what was parsed earlier in the process", Rule: sl.text, RuleHex: hx(sl.text),
							Ops:    fmt.Sprintf("%d other rule texts parsed earlier in this process, then NewEvaluator(%q).Process({})", c.Res.Evaluations, sl.text),
							Demand: "the error of a fresh process: " + txt, Go: got.ErrText})
						k = steps
						break
					}
					c.count("syntax_error_text_vs_cold_process")
				}
				if sl.variantOf != "" && !strings.Contains(o.String(), "X ") {
					sl.coldIn = append(sl.coldIn, hx(sl.text)+"\t"+o.String())
					sl.coldGot = append(sl.coldGot, got.Line())
					sl.coldObj = append(sl.coldObj, o.Pretty())
				}
				sl.opsP = append(sl.opsP, "P "+fresh.Fields())
				sl.outs = append(sl.outs, got.Line())
				sl.hist = append(sl.hist, "Process("+o.Pretty()+")")
				sl.kinds[got.Line()] = true
			case roll < 8:
				var d string
				func() {
					defer func() { recover() }()
					d = dbgClass(sl.ev.LastDebugErr())
				}()
				sl.opsP = append(sl.opsP, "D")
				sl.outs = append(sl.outs, "dbg="+d)
				sl.hist = append(sl.hist, "LastDebugErr()")
			default:
				func() {
					defer func() { recover() }()
					sl.ev.Reset()
				}()
				sl.opsP = append(sl.opsP, "R")
				sl.outs = append(sl.outs, "unit")
				sl.hist = append(sl.hist, "Reset()")
			}
		}
		if c.full() {
			break
		}
		for _, sl := range pool {
			if len(sl.coldIn) == 0 {
				continue
			}
			c.count("variant_text_vs_cold_process")
			ref := c.coldReference(sl.coldIn)
			for j := range ref {
				if j < len(sl.coldGot) && ref[j] != sl.coldGot[j] {
					c.violate(Violation{Kind: "history", What: "a rule parsed after a related rule (same text up to letter case / white space) behaves differently from the same rule in a fresh process",
						Rule: sl.text, RuleHex: hx(sl.text), Object: sl.coldObj[j], Ops: fmt.Sprintf("NewEvaluator(%q) earlier in the process, then NewEvaluator(%q).Process(...)", sl.variantOf, sl.text),
						Demand: "what a fresh process returns: " + ref[j], Go: sl.coldGot[j]})
					break
				}
			}
		}
		var lines []string
		var used []*slot
		for _, sl := range pool {
			if len(sl.opsP) == 0 {
				continue
			}
			syn := "0"
			if sl.syn {
				syn = "1"
			}
			lines = append(lines, "SEQP\t"+syn+"\t"+strings.Join(sl.opsP, " ; "))
			used = append(used, sl)
		}
		ans := c.ask(lines)
		for j, sl := range used {
			c.Res.Evaluations += len(sl.opsP)
			if len(sl.kinds) >= 2 {
				c.nontrivial(sl.text, strings.Join(sl.hist, ";"))
			}
			if got := strings.Join(sl.outs, " | "); got != ans[j] {
				c.violate(Violation{Kind: "history", What: "LastDebugErr does not describe only the most recent Process call / is not nil after Reset", Rule: sl.text, RuleHex: hx(sl.text), Ops: strings.Join(sl.hist, " ; "),
					Demand: ans[j], Go: got})
			}
		}
		if i < 3 && len(used) > 0 {
			c.sample(map[string]interface{}{"rule": used[0].text, "history": used[0].hist, "observed": used[0].outs})
		}
	}
}

// pua: a Go string (bytes) as the valid UTF-8 text the Lean model of C19 works on - every byte outside a valid UTF-8
// sequence becomes the private-use code point U+F700+byte (Model/NestedError.lean, escChar)
func pua(s string) string {
	var sb strings.Builder
	for i := 0; i < len(s); {
		r, size := utf8.DecodeRuneInString(s[i:])
		if r == utf8.RuneError && size == 1 {
			sb.WriteRune(rune(0xF700 + int(s[i])))
		} else {
			sb.WriteString(s[i : i+size])
		}
		i += size
	}
	return sb.String()
}

// ---------- C19 ----------
type wrapErr struct{ inner error }

func (w *wrapErr) Error() string { return "wrapped: " + w.inner.Error() }
func (w *wrapErr) Unwrap() error { return w.inner }

// values whose own marshalling method fails or panics: "not encodable" like a channel (C19: Error() never panics)
type errMarshal struct{}

func (errMarshal) MarshalJSON() ([]byte, error) { return nil, errors.New("no json for this value") }

type panicMarshal struct{ N int }

func (panicMarshal) MarshalJSON() ([]byte, error) { panic("MarshalJSON panics") }

type panicTextM struct{}

func (panicTextM) MarshalText() ([]byte, error) { panic("MarshalText panics") }

// safeMarshal: json.Marshal that reports a panicking marshalling method as an error
func safeMarshal(v interface{}) (b []byte, err error) {
	defer func() {
		if r := recover(); r != nil {
			b, err = nil, errors.New("marshalling method panicked")
		}
	}()
	return json.Marshal(v)
}

func checkC19(c *Ctx) {
	c.Res.Rule = "operation sequences on the exported NestedError API: a cause (errors.New, a %w-wrapping error, a custom Unwrap error) wrapped in 1-6 layers, Set with 0-4 key/value pairs per call (keys incl. err and msg; values encodable: ints, floats, strings with quotes/angle brackets/control characters, nested maps, slices, nil; not encodable: channels, funcs, NaN, +Inf, complex) before and after Error(), Error() and Original() repeated; texts compared with the Lean model byte for byte; non-trivial = distinct sequence with >= 2 layers and a Set"
	n := c.budget(20000, 450000)
	msgPool := []string{"a", "b", "bad\xffutf8", "\xed\xa0\x80", "\u2028sep", "outer \"q\"", "with <angle> & amp", "tab\there", "nl\nline", "", "ünï", "x: y", "{\"j\":1}", "back\\slash", "\x01ctl", " sep"}
	keyPool := []string{"k", "a_b", "Z", "attr_path", "err", "msg", "object_path_operand", "rule_operand", "k2", "0"}
	valPool := []func() interface{}{func() interface{} { return 1 }, func() interface{} { return "s<>&\"" }, func() interface{} { return 2.5 }, func() interface{} { return nil },
		func() interface{} { return []int{1, 2} }, func() interface{} { return map[string]interface{}{"b": 1, "a": "x"} }, func() interface{} { return true },
		func() interface{} { return make(chan int) }, func() interface{} { return func() {} }, func() interface{} { return math.NaN() }, func() interface{} { return math.Inf(1) },
		func() interface{} { return complex(1, 1) }, func() interface{} { return []interface{}{1, "a", nil} }, func() interface{} { return int64(1) << 60 }, func() interface{} { return "é " }, func() interface{} { return 1e21 },
		// maps with different key sets under one key in successive Sets: the later value replaces the earlier one, it is not merged into it
		func() interface{} { return map[string]interface{}{"path": "a.b", "type": "string"} }, func() interface{} { return map[string]interface{}{"path": "a.c"} },
		func() interface{} { return parser.ErrVals{"path": "z", "n": 1} }, func() interface{} { return parser.ErrVals{"other": true} },
		func() interface{} { return map[string]interface{}{"m": map[string]interface{}{"x": 1}} }, func() interface{} { return map[string]interface{}{"m": map[string]interface{}{"y": 2}} },
		func() interface{} { return map[string]interface{}{} },
		func() interface{} { return errMarshal{} }, func() interface{} { return panicMarshal{1} }, func() interface{} { return []interface{}{1, panicMarshal{2}} },
		func() interface{} { return map[string]interface{}{"in": panicTextM{}} }, func() interface{} { return &panicMarshal{3} }}
	for i := 0; i < n && !c.full(); i++ {
		var fields, hist, got []string
		text := pick(c.R, msgPool) + strconv.Itoa(c.R.Intn(10))
		var leaf error
		switch c.R.Intn(5) {
		case 4:
			// a cause that is not a NestedError itself but wraps one (an earlier diagnostic passed on with %w, or a custom
			// Unwrap error): Original() stops at the cause, it does not look through the cause's own chain
			inner := &parser.NestedError{Err: errors.New("root"), Msg: "earlier"}
			inner.Set(parser.ErrVals{"k": 1})
			if c.R.Chance(1, 2) {
				leaf = fmt.Errorf("while retrying: %w", inner)
			} else {
				leaf = &wrapErr{inner}
			}
			text = leaf.Error()
			c.count("cause_that_wraps_a_nested_error")
		case 0:
			leaf = fmt.Errorf("ctx: %w", errors.New("deep"))
			text = leaf.Error()
		case 1:
			leaf = &wrapErr{errors.New("deep")}
			text = leaf.Error()
		default:
			leaf = errors.New(text)
		}
		fields = append(fields, "LEAF "+hx(pua(text)))
		hist = append(hist, fmt.Sprintf("cause(%q)", text))
		var cur error = leaf
		var top *parser.NestedError
		var stack []*parser.NestedError // every layer, innermost first
		layers, sets := 0, 0
		steps := 2 + c.R.Intn(10)
		for k := 0; k < steps; k++ {
			roll := c.R.Intn(10)
			switch {
			case top == nil || (roll < 3 && layers < 6):
				msg := pick(c.R, msgPool)
				top = &parser.NestedError{Err: cur, Msg: msg}
				cur = top
				stack = append(stack, top)
				layers++
				fields = append(fields, "WRAP "+hx(pua(msg)))
				hist = append(hist, fmt.Sprintf("wrap(%q)", msg))
			case roll < 6:
				vals := parser.ErrVals{}
				var kv []string
				for j := c.R.Intn(4); j >= 0; j-- {
					key := pick(c.R, keyPool)
					v := pick(c.R, valPool)()
					if _, dup := vals[key]; dup {
						continue
					}
					vals[key] = v
					enc := "U"
					if b, err := safeMarshal(v); err == nil {
						enc = "E" + hx(string(b))
					}
					kv = append(kv, hx(key)+" "+enc)
				}
				top.Set(vals)
				// the caller keeps its map: using it again - handing it to ANOTHER error and attaching more to that one, or
				// changing it - must not reach the error under test (Set copies what it is given)
				switch c.R.Intn(6) {
				case 0:
					decoy := &parser.NestedError{Err: errors.New("decoy"), Msg: "decoy"}
					decoy.Set(vals)
					decoy.Set(parser.ErrVals{"k": "from the decoy", "only_on_decoy": 1})
					_ = decoy.Error()
					c.count("callers_map_reused_for_another_error")
				case 1:
					for k := range vals {
						vals[k] = "changed by the caller afterwards"
					}
					vals["added_by_the_caller_afterwards"] = true
					c.count("callers_map_changed_afterwards")
				}
				sets++
				fields = append(fields, "SET "+strings.Join(kv, " "))
				hist = append(hist, fmt.Sprintf("Set(%v)", strings.Join(kv, ",")))
			case roll == 6 && len(stack) > 1 && c.R.Chance(1, 2):
				// Set / Error() on a layer BELOW the outermost one (the caller kept a reference to it): what the layers above
				// report afterwards must follow
				d := 1 + c.R.Intn(len(stack)-1)
				inner := stack[len(stack)-1-d]
				if c.R.Chance(2, 3) {
					vals := parser.ErrVals{}
					var kv []string
					for j := c.R.Intn(3); j >= 0; j-- {
						key := pick(c.R, keyPool)
						v := pick(c.R, valPool)()
						if _, dup := vals[key]; dup {
							continue
						}
						vals[key] = v
						enc := "U"
						if b, err := safeMarshal(v); err == nil {
							enc = "E" + hx(string(b))
						}
						kv = append(kv, hx(key)+" "+enc)
					}
					inner.Set(vals)
					fields = append(fields, fmt.Sprintf("SETAT %d ", d)+strings.Join(kv, " "))
					hist = append(hist, fmt.Sprintf("layer[-%d].Set(%v)", d, strings.Join(kv, ",")))
				} else {
					t, f := errorText(inner)
					if f != "" && t == "" && strings.Contains(f, "panicked") {
						got = append(got, "PANIC")
					} else {
						got = append(got, hx(pua(t)))
					}
					fields = append(fields, fmt.Sprintf("ERRORAT %d", d))
					hist = append(hist, fmt.Sprintf("layer[-%d].Error()", d))
				}
				c.count("operation_on_an_inner_layer")
			case roll < 9:
				t, f := errorText(top)
				if f != "" && t == "" && strings.Contains(f, "panicked") {
					got = append(got, "PANIC")
				} else {
					got = append(got, hx(pua(t)))
				}
				fields = append(fields, "ERROR")
				hist = append(hist, "Error()")
			default:
				var o error
				func() {
					defer func() {
						if recover() != nil {
							o = nil
						}
					}()
					o = top.Original()
				}()
				if o == leaf {
					got = append(got, "leaf:"+hx(pua(text)))
				} else if o == nil {
					got = append(got, "nil")
				} else {
					got = append(got, "other:"+hx(safeText(o)))
				}
				fields = append(fields, "ORIG")
				hist = append(hist, "Original()")
			}
		}
		ans := c.ask1("NERR\t" + strings.Join(fields, "\t"))
		c.Res.Evaluations++
		if layers >= 2 && sets >= 1 {
			c.nontrivial(strings.Join(fields, "|"))
		}
		c.count(fmt.Sprintf("layers_%d", layers))
		if g := strings.Join(got, " | "); g != ans {
			dec := func(s string) string {
				var out []string
				for _, p := range strings.Split(s, " | ") {
					if i := strings.Index(p, ":"); i >= 0 {
						out = append(out, p[:i+1]+strconv.Quote(unhx(p[i+1:])))
					} else if p == "PANIC" || p == "nil" || p == "none" || p == "nested" {
						out = append(out, p)
					} else {
						out = append(out, strconv.Quote(unhx(p)))
					}
				}
				return strings.Join(out, " | ")
			}
			c.violate(Violation{Kind: "history", What: "NestedError does not keep its cause and context as specified", Ops: strings.Join(hist, " ; "), Demand: dec(ans), Go: dec(g), Extra: map[string]string{"protocol": strings.Join(fields, "\t")}})
			continue
		}
		if i < 4 {
			c.sample(map[string]interface{}{"ops": hist, "answers": got})
		}
	}
}

// ---------- C12 ----------
type concTrial struct {
	Seed       int64 `json:"seed"`
	Goroutines int   `json:"goroutines"`
	Calls      int   `json:"calls"`
	Procs      int   `json:"gomaxprocs"`
	SameRule   bool  `json:"same_rule"`
	LongRule   bool  `json:"long_rule"`
}

func checkC12(c *Ctx) {
	c.Res.Rule = "trials in fresh processes built with -race (so that the very first use of the package is concurrent): 8-48 goroutines x 30-200 calls of NewEvaluator / Process / rules.Evaluate / parser.Evaluate on their own Evaluator values, same and different rule texts (incl. lists of ints/doubles/strings, versions, nested paths), GOMAXPROCS in {1,2,4,16}, random Gosched; every result compared with the result of the same call made sequentially afterwards; any data race report is a violation; non-trivial = distinct trial configuration"
	// the number of trials depends on the tier only (a widened search passes -n for case counts, not for process trials)
	trials := 6
	if c.Tier == "thorough" {
		trials = 60
		if c.N > 0 {
			trials = 24
		}
	}
	race := os.Getenv("VERIF_RACE_BIN")
	if race == "" {
		c.internal("VERIF_RACE_BIN not set (the -race build of the harness)")
		return
	}
	for i := 0; i < trials && !c.full(); i++ {
		tr := concTrial{Seed: int64(c.R.U64() >> 1), Goroutines: 8 + c.R.Intn(41), Calls: 30 + c.R.Intn(171), Procs: pick(c.R, []int{1, 2, 4, 16}), SameRule: c.R.Chance(1, 3), LongRule: c.R.Chance(1, 2)}
		b, _ := json.Marshal(tr)
		cctx, cancel := context.WithTimeout(context.Background(), 180*time.Second)
		cmd := exec.CommandContext(cctx, race, "-child", "conc")
		cmd.Env = append(os.Environ(), "GORACE=halt_on_error=1 exitcode=66", "VERIF_CONC="+string(b), "GOMAXPROCS="+strconv.Itoa(tr.Procs))
		out, err := cmd.CombinedOutput()
		if cctx.Err() != nil {
			out = append(out, []byte("\nTRIAL DID NOT FINISH WITHIN 180 s (deadlock or livelock under concurrency)")...)
		}
		cancel()
		c.Res.Evaluations += tr.Goroutines * tr.Calls
		c.nontrivial(string(b))
		c.count(fmt.Sprintf("gomaxprocs_%d", tr.Procs))
		if err != nil {
			txt := string(out)
			if len(txt) > 3000 {
				txt = txt[:3000]
			}
			what := "a concurrent call returned something else than when run alone"
			if strings.Contains(txt, "DATA RACE") {
				what = "the race detector reported a data race"
			}
			c.violate(Violation{Kind: "schedule", What: what, Ops: string(b), Demand: "no data race; every call returns what it returns when run alone", Go: txt})
			continue
		}
		if i < 3 {
			c.sample(map[string]interface{}{"trial": tr, "result": strings.TrimSpace(string(out))})
		}
	}
}

func childConc() {
	var tr concTrial
	json.Unmarshal([]byte(os.Getenv("VERIF_CONC")), &tr)
	r := NewRNG(uint64(tr.Seed))
	st := &Style{R: r, Canon: false, Sp: map[string][]string{}}
	noStringer := func(a *AV) *AV {
		var fix func(x *AV)
		fix = func(x *AV) {
			if x.K == AVStringer || x.K == AVStringerPanic {
				x.K = AVStr
			}
			for _, v := range x.Vals {
				fix(v)
			}
		}
		fix(a)
		return a
	}
	type job struct {
		text string
		obj  map[string]interface{}
		kind int
		v    bool
		e    string
		d    string // LastDebugErr().Error() right after the call
	}
	nr := 1 + r.Intn(12)
	if tr.SameRule {
		nr = 1
	}
	var rulesT []string
	var trees []*Node
	for i := 0; i < nr; i++ {
		t := genTree(r, 1+r.Intn(6), 3, nil)
		trees = append(trees, t)
		s := st.Render(t)
		if r.Chance(1, 10) {
			s += " garbage"
		}
		rulesT = append(rulesT, s)
	}
	jobs := make([][]*job, tr.Goroutines)
	longText := ""
	var longObj map[string]interface{}
	if tr.LongRule {
		// one long rule text (about 15 KB: its first parse takes milliseconds) that every goroutine parses for itself as
		// its very first call, all released together - shared work on a rule text must not be observable
		var sb strings.Builder
		n := 900 + r.Intn(600)
		hit := r.Intn(n)
		for i := 0; i < n; i++ {
			if i > 0 {
				sb.WriteString(" or ")
			}
			fmt.Fprintf(&sb, "k%d eq %d", i%7, i)
		}
		longText = sb.String()
		longObj = map[string]interface{}{fmt.Sprintf("k%d", hit%7): hit}
	}
	for g := range jobs {
		if longText != "" {
			jobs[g] = append(jobs[g], &job{text: longText, obj: longObj, kind: g % 3})
		}
		for k := 0; k < tr.Calls; k++ {
			i := r.Intn(nr)
			o := noStringer(genObject(r, trees[i], ObjOpts{AbsentPct: 10, NilPct: 5, NullParent: 10, NonObjMid: 5}))
			jobs[g] = append(jobs[g], &job{text: rulesT[i], obj: o.GoMap(), kind: r.Intn(3)})
		}
	}
	run := func(j *job, ev *parser.Evaluator) (bool, string, string) {
		switch j.kind {
		case 0:
			if ev == nil {
				ev, _ = parser.NewEvaluator(j.text)
			}
			v, err := ev.Process(j.obj)
			d := ""
			if de := ev.LastDebugErr(); de != nil {
				d = safeText(de)
			}
			return v, errClass(err), d
		case 1:
			func() { defer func() { recover() }() }()
			v, e, _ := rulesEvaluateNoLog(j.text, j.obj)
			return v, e, ""
		default:
			return parser.Evaluate(j.text, j.obj), "-", ""
		}
	}
	var wg sync.WaitGroup
	startGate := make(chan struct{})
	for g := range jobs {
		wg.Add(1)
		go func(g int) {
			defer wg.Done()
			<-startGate
			evs := map[string]*parser.Evaluator{}
			lr := NewRNG(uint64(tr.Seed) + uint64(g)*7919)
			for _, j := range jobs[g] {
				var ev *parser.Evaluator
				if lr.Chance(1, 2) {
					ev = evs[j.text]
					if ev == nil {
						ev, _ = parser.NewEvaluator(j.text)
						evs[j.text] = ev
					}
				}
				j.v, j.e, j.d = run(j, ev)
				if lr.Chance(1, 5) {
					runtime.Gosched()
				}
			}
		}(g)
	}
	close(startGate)
	wg.Wait()
	bad := 0
	for g := range jobs {
		for _, j := range jobs[g] {
			v, e, d := run(j, nil)
			if v != j.v || e != j.e || d != j.d {
				if bad < 5 {
					fmt.Printf("MISMATCH rule=%q concurrent=(%v,%s,%s) alone=(%v,%s,%s)\n", j.text, j.v, j.e, j.d, v, e, d)
				}
				bad++
			}
		}
	}
	if bad > 0 {
		fmt.Printf("%d concurrent results differ from the sequential ones\n", bad)
		os.Exit(1)
	}
	fmt.Printf("ok goroutines=%d calls=%d rules=%d\n", tr.Goroutines, tr.Calls, nr)
}

func rulesEvaluateNoLog(rule string, obj map[string]interface{}) (v bool, e string, esc string) {
	defer func() {
		if r := recover(); r != nil {
			esc = panicText(r)
			e = "escaped"
		}
	}()
	b, err := rulesEval(rule, obj)
	return b, errClass(err), ""
}

// ---------- replay ----------
func runReplay(c *Ctx, path string) {
	b, err := os.ReadFile(path)
	if err != nil {
		c.internal("cannot read replay: " + err.Error())
		return
	}
	var v Violation
	if err := json.Unmarshal(b, &v); err != nil {
		c.internal("bad replay file: " + err.Error())
		return
	}
	c.Res.Property = v.Property
	fmt.Printf("replay of %s (%s): %s\n", v.Property, v.Kind, v.What)
	if v.RuleHex != "" && v.ObjProto != "" && !strings.Contains(v.ObjProto, "|") {
		rule := unhx(v.RuleHex)
		o := avFromProto(v.ObjProto)
		got := evalFresh(rule, o.GoMap())
		fmt.Printf("rule   : %q\nobject : %s\ndemand : %s\nbefore : %s\nnow    : %s %s\n", rule, o.Pretty(), v.Demand, v.Go, got.Line(), got.ErrText)
		fmt.Printf("model  : %s\n", c.ask1("EVAL\t"+lowerTable([]string{rule}, o)+"\t"+runeHex(rule)+"\t"+o.String()))
	} else if v.RuleHex != "" {
		rule := unhx(v.RuleHex)
		g := goLexParse(rule)
		fmt.Printf("rule   : %q\ndemand : %s\nbefore : %s\nnow    : lexErr=%v accept=%v shape=%s\nmodel  : %s\n", rule, v.Demand, v.Go, g.LexErr, g.Accept, g.Shape, c.ask1("PARSE\t"+runeHex(rule)))
	} else {
		fmt.Printf("ops    : %s\ndemand : %s\nbefore : %s\n", v.Ops, v.Demand, v.Go)
	}
}
