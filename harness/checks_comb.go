package main

// L-comb layer: a compound rule against the combination (Lean `combine`) of what the engine itself returns for
// each of its comparisons evaluated stand-alone on the same object. C01 C02 C06 C16 C17.

import (
	"fmt"
	"strconv"
	"strings"
)

func init() {
	checks["C01"] = checkC01
	checks["C02"] = checkC02
	checks["C06"] = checkC06
	checks["C16"] = checkC16
	checks["C17"] = checkC17
}

type combCase struct {
	root     *Node
	text     string
	obj      *AV
	whole    Obs
	leaves   []*Node
	leafObs  []Obs
	leafText []string
	expect   string // the driver's COMB answer
	shapeOK  bool   // all paths run through objects/null only
	goShape  string
}

// lastDiagLeaf walks the rule left to right with short circuit using the stand-alone outcomes and returns the index
// of the last reached comparison that has a diagnostic (-1 if none); ok=false when a failure/panic is met.
func lastDiagLeaf(n *Node, obs []Obs, next *int, last *int) (verdict bool, ok bool) {
	switch n.T {
	case NParen:
		v, ok := lastDiagLeaf(n.Q, obs, next, last)
		if n.Neg {
			v = !v
		}
		return v, ok
	case NLogic:
		l, ok := lastDiagLeaf(n.L, obs, next, last)
		if !ok {
			return false, false
		}
		if l == n.Or {
			// short circuit: skip the leaves of the right operand
			var skip []*Node
			n.R.Leaves(&skip)
			*next += len(skip)
			return l, true
		}
		return lastDiagLeaf(n.R, obs, next, last)
	default:
		i := *next
		*next++
		if obs[i].D != "-" {
			*last = i
		}
		if obs[i].E != "-" {
			return false, false
		}
		return obs[i].V, true
	}
}

func (c *Ctx) mkComb(root *Node, obj *AV, canon bool) *combCase {
	cc := &combCase{root: root, obj: obj, text: c.style(canon).Render(root)}
	// (until round 5 the composition properties other than C01 took the grouping the engine's own parser gives the text,
	// so that a change of associativity tripped C01/C20 only. But which comparisons are REACHED - C06, C16 - and what a
	// compound yields - C02, C17 - are stated for the grammar's grouping: a parser that groups differently breaks them
	// too, and a change written against one of them must be reported by its own check.)
	root.Leaves(&cc.leaves)
	m := obj.GoMap()
	poison := poisonObjects(c.R, root)
	if poison != nil {
		c.count("whole_on_reused_evaluator")
	}
	cc.whole = evalOn(cc.text, m, poison)
	if c.R.Chance(1, 8) && len(cc.whole.Calls) == 0 && cc.whole.E != "escaped" {
		// the same rule through the one-shot entry point of the root package, on this object and on the empty / nil
		// object: a compound rule is the same combination of its comparisons whichever entry point evaluates it
		for _, o := range []map[string]interface{}{m, {}, nil} {
			ref := cc.whole
			if o == nil || len(o) == 0 {
				ref = evalFresh(cc.text, o)
			}
			rv, re, resc := rulesEvaluate(cc.text, o)
			c.count("root_evaluate_cross_check")
			if resc == "" && ref.E != "escaped" && (rv != ref.V || (re != "-") != (ref.E != "-")) {
				c.violate(Violation{What: "rules.Evaluate gives the rule another outcome than NewEvaluator+Process on the same object", Rule: cc.text, RuleHex: hx(cc.text),
					Object: fmt.Sprintf("%v", snap(o)), ObjProto: obj.String(), Demand: "the outcome of Process: " + ref.Line(), Go: fmt.Sprintf("rules.Evaluate -> (%v, err=%s)", rv, re)})
				break
			}
		}
	}
	cc.shapeOK = true
	for _, lf := range cc.leaves {
		lt := c.style(true).Render(lf)
		cc.leafText = append(cc.leafText, lt)
		cc.leafObs = append(cc.leafObs, evalFresh(lt, m))
		if _, ok := denote(obj, lf.Path); !ok {
			cc.shapeOK = false
		}
	}
	return cc
}

func (cc *combCase) line() string {
	next := 0
	sk := cc.root.Skeleton(&next)
	var sb strings.Builder
	sb.WriteString(strconv.Itoa(len(cc.leafObs)))
	for _, o := range cc.leafObs {
		e := o.E
		if e == "newerr" || e == "escaped" {
			e = "panic"
		}
		o2 := o
		o2.E = e
		sb.WriteString(" " + o2.Fields())
	}
	return "COMB\t" + sk + "\t" + sb.String()
}

func (c *Ctx) resolveComb(batch []*combCase) {
	var lines []string
	for _, cc := range batch {
		lines = append(lines, cc.line())
	}
	ans := c.ask(lines)
	for i, cc := range batch {
		cc.expect = ans[i]
	}
}

func (cc *combCase) viol(what, demand string) Violation {
	var lp []string
	for i, t := range cc.leafText {
		lp = append(lp, fmt.Sprintf("%q => %s", t, cc.leafObs[i].Line()))
	}
	return Violation{What: what, Rule: cc.text, RuleHex: hx(cc.text), Object: cc.obj.Pretty(), ObjProto: cc.obj.String(), Demand: demand,
		Go: cc.whole.Line() + " " + cc.whole.ErrText, Model: cc.expect, Extra: map[string]string{"comparisons_alone": strings.Join(lp, " ; ")}}
}

var corpusComb = []struct {
	rule string
	obj  func() *AV
}{
	{"y == 1 and x.a == 1", func() *AV { o := avObj(); o.Set("y", avInt(1)); return o }},
	{"x.a.b == 1 or z == 1", func() *AV { o := avObj(); o.Set("z", avInt(1)); return o }},
	{"x.y.z pr or a eq 1", func() *AV { o := avObj(); o.Set("x", avNull()); o.Set("a", avInt(1)); return o }},
	{"a.b.c.d eq 1 or x eq 7", func() *AV {
		o := avObj()
		a := avObj()
		a.Set("x", avInt(5))
		o.Set("a", a)
		o.Set("x", avInt(7))
		return o
	}},
	{"a.b in [1, 2] or y in [3]", func() *AV { o := avObj(); o.Set("a", avNull()); o.Set("y", avInt(1)); return o }},
	{"a gt null or b le \"bc\" or k in [1]", func() *AV { return avObj() }},
	{"x eq 1 and a.b.c pr", func() *AV { o := avObj(); o.Set("x", avInt(1)); return o }},
	{"not (not (x eq 1))", func() *AV { o := avObj(); o.Set("x", avInt(1)); return o }},
	{"not ((x eq 1))", func() *AV { o := avObj(); o.Set("x", avInt(1)); return o }},
	{"a eq 1 or b eq 1 and c eq 1", func() *AV { o := avObj(); o.Set("a", avInt(1)); o.Set("b", avInt(1)); o.Set("c", avInt(0)); return o }},
	{"x ge 1.2.0 and x lt 2.0.0", func() *AV { o := avObj(); o.Set("x", avStr("1.5.0")); return o }},
	{"not (x gt true)", func() *AV { o := avObj(); o.Set("x", avInt(1)); return o }},
	{"y eq 1 and not (x gt true)", func() *AV { o := avObj(); o.Set("x", avInt(1)); o.Set("y", avInt(1)); return o }},
	{"x eq 2 and y gt true", func() *AV { o := avObj(); o.Set("x", avInt(1)); o.Set("y", &AV{K: AVBool, B: true}); return o }},
}

// corpusTrees parses corpus rules with the shipped parser's shape (used only to know the leaves); falls back to skipping.
func (c *Ctx) corpusCombCases() []*combCase {
	var out []*combCase
	for _, w := range corpusComb {
		root := treeFromShape(goLexParse(w.rule).Shape)
		if root == nil {
			continue
		}
		obj := w.obj()
		cc := &combCase{root: root, obj: obj, text: w.rule}
		root.Leaves(&cc.leaves)
		m := obj.GoMap()
		cc.whole = evalFresh(cc.text, m)
		cc.shapeOK = true
		for _, lf := range cc.leaves {
			lt := c.style(true).Render(lf)
			cc.leafText = append(cc.leafText, lt)
			cc.leafObs = append(cc.leafObs, evalFresh(lt, m))
		}
		out = append(out, cc)
	}
	return out
}

// treeFromShape rebuilds a Node tree from a shape S-expression.
func treeFromShape(shape string) *Node {
	if shape == "" {
		return nil
	}
	toks := strings.Split(shape, " ")
	pos := 0
	var parse func() *Node
	parse = func() *Node {
		if pos >= len(toks) {
			return nil
		}
		t := toks[pos]
		pos++
		switch t {
		case "A", "O":
			l := parse()
			r := parse()
			if l == nil || r == nil {
				return nil
			}
			return &Node{T: NLogic, Or: t == "O", L: l, R: r}
		case "P", "N":
			q := parse()
			if q == nil {
				return nil
			}
			return &Node{T: NParen, Neg: t == "N", Q: q}
		case "R":
			p := toks[pos]
			pos++
			return &Node{T: NPres, Path: strings.Split(p, ".")}
		case "C":
			p := toks[pos]
			op, _ := strconv.Atoi(toks[pos+1])
			ls := toks[pos+2]
			pos += 3
			return &Node{T: NCmp, Path: strings.Split(p, "."), Op: op, Lit: litFromShape(ls)}
		}
		return nil
	}
	return parse()
}

func unhx(h string) string {
	if h == "-" {
		return ""
	}
	b := make([]byte, len(h)/2)
	for i := range b {
		v, _ := strconv.ParseUint(h[2*i:2*i+2], 16, 8)
		b[i] = byte(v)
	}
	return string(b)
}

func litFromShape(s string) Lit {
	switch {
	case s == "n":
		return Lit{Kind: "null", Text: "null"}
	case strings.HasPrefix(s, "b:"):
		return Lit{Kind: "bool", Text: s[2:]}
	case strings.HasPrefix(s, "v:"):
		return Lit{Kind: "ver", Text: s[2:]}
	case strings.HasPrefix(s, "s:"):
		return Lit{Kind: "str", Text: unhx(s[2:])}
	case strings.HasPrefix(s, "d:"):
		return Lit{Kind: "dbl", Text: s[2:]}
	case strings.HasPrefix(s, "l:"):
		return Lit{Kind: "long", Text: s[2:]}
	case strings.HasPrefix(s, "L26:"):
		return Lit{Kind: "ilist", Elems: strings.Split(s[4:], ";")}
	case strings.HasPrefix(s, "L25:"):
		return Lit{Kind: "dlist", Elems: strings.Split(s[4:], ";")}
	case strings.HasPrefix(s, "L24:"):
		var el []string
		for _, h := range strings.Split(s[4:], ";") {
			el = append(el, unhx(h))
		}
		return Lit{Kind: "slist", Elems: el}
	}
	return Lit{Kind: "null", Text: "null"}
}

func (c *Ctx) combLoop(n int, maxLeaves int, leafGen func() *Node, opt ObjOpts, judge func(cc *combCase) *Violation) {
	var batch []*combCase
	rejected := func(cc *combCase) bool {
		// a rule or comparison the engine itself rejects as malformed is outside "for all well-formed rules":
		// whether the shipped parser accepts every sentence of the grammar is C20's question
		if cc.whole.E == "syn" {
			return true
		}
		for _, o := range cc.leafObs {
			if o.E == "syn" {
				return true
			}
		}
		return false
	}
	flush := func() {
		c.resolveComb(batch)
		for _, cc := range batch {
			c.Res.Evaluations++
			if rejected(cc) {
				c.count("outside_domain_rejected_by_the_engines_parser")
				continue
			}
			if v := judge(cc); v != nil {
				// shrink: smaller rule / smaller object on which the same check still fails
				c.quiet = true
				best, bestV := cc, v
				for round := 0; round < 40; round++ {
					progress := false
					for _, cand := range shrinkCandidates(best.root, best.obj) {
						nc := c.mkComb(cand.root, cand.obj, true)
						c.resolveComb([]*combCase{nc})
						if rejected(nc) {
							continue
						}
						if v2 := judge(nc); v2 != nil {
							best, bestV, progress = nc, v2, true
							break
						}
					}
					if !progress {
						break
					}
				}
				c.quiet = false
				if best != cc {
					if bestV.Extra == nil {
						bestV.Extra = map[string]string{}
					}
					bestV.Extra["shrunk_from_rule"] = cc.text
					bestV.Extra["shrunk_from_object"] = cc.obj.Pretty()
				}
				c.violate(*bestV)
			}
		}
		batch = batch[:0]
	}
	batch = append(batch, c.corpusCombCases()...)
	flush()
	// long flat chains in which exactly ONE operand decides (all others are neutral): an operand dropped, skipped or
	// regrouped somewhere in a long chain shows at once, whatever its position
	for k := 0; k < 10 && !c.full(); k++ {
		nOps := 60 + c.R.Intn(90)
		or := c.R.Chance(1, 2)
		j := c.R.Intn(nOps)
		if k < 4 {
			j = []int{0, 1, nOps - 65, nOps - 1}[k]
			if j < 0 {
				j = 2
			}
		}
		obj := avObj()
		var acc *Node
		for i := 0; i < nOps; i++ {
			lf := &Node{T: NCmp, Path: []string{"p" + strconv.Itoa(i)}, Op: 13, Lit: Lit{Kind: "long", Text: strconv.Itoa(i)}}
			val := int64(i)
			if (i == j) != or {
				val = int64(i) + 1000 // and-chain: only operand j is false; or-chain: only operand j is true
			}
			obj.Set(lf.Path[0], avInt(val))
			if acc == nil {
				acc = lf
			} else {
				acc = &Node{T: NLogic, Or: or, L: acc, R: lf}
			}
		}
		c.count("long_chain_single_decisive_operand")
		batch = append(batch, c.mkComb(acc, obj, true))
	}
	flush()
	for i := 0; i < n && !c.full(); i++ {
		k := 2 + c.R.Intn(maxLeaves-1)
		if c.R.Chance(1, 12) {
			k = maxLeaves + c.R.Intn(maxLeaves)
		}
		gen := leafGen
		if c.R.Chance(1, 10) {
			// a rule about ONE attribute: every comparison on the same path with the same kind of literal - the same
			// literal again, another spelling of it, a near miss - mostly `eq`: `p eq "s" or p eq "ſ"`, `x eq 1 and x ne 1.0`
			var first *Node
			for tries := 0; tries < 20 && (first == nil || first.T != NCmp); tries++ {
				first = leafGen()
			}
			if first != nil && first.T == NCmp {
				c.count("rule_about_one_attribute")
				if k > 5 {
					k = 2 + c.R.Intn(4)
				}
				cnt := 0
				gen = func() *Node {
					cnt++
					if cnt == 1 {
						return first
					}
					n := &Node{T: NCmp, Path: append([]string(nil), first.Path...), Op: first.Op, Lit: relatedLit(c.R, first.Lit)}
					switch c.R.Intn(10) {
					case 0, 1:
						n.Op = map[int]int{13: 14, 14: 13, 15: 18, 18: 15, 16: 17, 17: 16}[first.Op]
						if n.Op == 0 {
							n.Op = first.Op
						}
					case 2:
						n.Op = 13 + c.R.Intn(6)
					case 3, 4, 5:
						n.Op = 13
					}
					if strings.HasSuffix(n.Lit.Kind, "list") {
						n.Op = 12
					} else if n.Op == 12 {
						n.Op = 13
					}
					return n
				}
			}
		}
		root := genTree(c.R, k, 4, gen)
		if c.R.Chance(1, 20) {
			// alternatives: a FLAT chain `p eq l1 or p eq l2 or …` (or with `and`, now and then another operator) on one
			// attribute, half of the time with string literals whose letters have case-folding relatives
			first := leafGen()
			for tries := 0; tries < 20 && first.T != NCmp; tries++ {
				first = leafGen()
			}
			if first.T == NCmp {
				c.count("flat_alternatives_on_one_attribute")
				first.Op = 13
				if c.R.Chance(1, 2) {
					first.Lit = Lit{Kind: "str", Text: quote(pick(c.R, []string{"s", "mass", "kelvin", "σ", "istanbul", "μm", "straße", "SET", "k", "i", "οδος", "åre"}))}
				}
				or := c.R.Chance(7, 10)
				var acc *Node = first
				for j := 1 + c.R.Intn(4); j > 0; j-- {
					n := &Node{T: NCmp, Path: append([]string(nil), first.Path...), Op: 13, Lit: relatedLit(c.R, first.Lit)}
					if c.R.Chance(1, 10) {
						n.Op = 14
					}
					if strings.HasSuffix(n.Lit.Kind, "list") {
						n.Op = 12
					}
					acc = &Node{T: NLogic, Or: or, L: acc, R: n}
				}
				if first.Lit.Kind == "ilist" || first.Lit.Kind == "dlist" || first.Lit.Kind == "slist" {
					first.Op = 12
				}
				root = acc
			}
		}
		obj := genObject(c.R, root, opt)
		batch = append(batch, c.mkComb(root, obj, c.R.Chance(1, 3)))
		if len(batch) >= 200 {
			flush()
		}
	}
	flush()
}

type shrinkCand struct {
	root *Node
	obj  *AV
}

func cloneAV(a *AV) *AV {
	if a == nil {
		return nil
	}
	b := *a
	b.Keys = append([]string(nil), a.Keys...)
	b.Vals = make([]*AV, len(a.Vals))
	for i, v := range a.Vals {
		b.Vals[i] = cloneAV(v)
	}
	return &b
}

// all one-step reductions of a rule (a connective replaced by one operand, parentheses dropped) …
func treeReductions(n *Node) []*Node {
	var out []*Node
	fix := func(x *Node, rightOperand bool) *Node {
		if rightOperand && x.T == NLogic {
			return &Node{T: NParen, Q: x}
		}
		return x
	}
	switch n.T {
	case NLogic:
		out = append(out, n.L, n.R)
		for _, l := range treeReductions(n.L) {
			out = append(out, &Node{T: NLogic, Or: n.Or, L: l, R: n.R})
		}
		for _, r := range treeReductions(n.R) {
			out = append(out, &Node{T: NLogic, Or: n.Or, L: n.L, R: fix(r, true)})
		}
	case NParen:
		out = append(out, n.Q)
		if n.Neg {
			out = append(out, &Node{T: NParen, Q: n.Q})
		}
		for _, q := range treeReductions(n.Q) {
			out = append(out, &Node{T: NParen, Neg: n.Neg, Q: q})
		}
	default:
		if len(n.Path) > 1 {
			c2 := *n
			c2.Path = n.Path[len(n.Path)-1:]
			_ = c2 // shortening a path changes what it denotes; left to the object reductions
		}
	}
	return out
}

// … and of an object (a key dropped, a value replaced by nil), at any depth
func objReductions(a *AV) []*AV {
	var out []*AV
	for i := range a.Keys {
		b := cloneAV(a)
		b.Keys = append(b.Keys[:i:i], b.Keys[i+1:]...)
		b.Vals = append(b.Vals[:i:i], b.Vals[i+1:]...)
		out = append(out, b)
		if a.Vals[i].K == AVObj {
			for _, sub := range objReductions(a.Vals[i]) {
				b2 := cloneAV(a)
				b2.Vals[i] = sub
				out = append(out, b2)
			}
		} else if a.Vals[i].K != AVNull {
			b3 := cloneAV(a)
			b3.Vals[i] = avNull()
			out = append(out, b3)
		}
	}
	return out
}

func shrinkCandidates(root *Node, obj *AV) []shrinkCand {
	var out []shrinkCand
	for _, t := range treeReductions(root) {
		out = append(out, shrinkCand{t, obj})
	}
	for _, o := range objReductions(obj) {
		out = append(out, shrinkCand{root, o})
	}
	if len(out) > 150 {
		out = out[:150]
	}
	return out
}

func validLeaf(r *RNG, maxSeg int) *Node {
	for {
		lf := genLeaf(r, maxSeg)
		if lf.T == NPres {
			return lf
		}
		// supported operator for the literal kind, representable literal
		ok := false
		switch lf.Lit.Kind {
		case "bool", "null":
			ok = lf.Op == 13 || lf.Op == 14
		case "ver", "dbl", "long":
			ok = lf.Op >= 13 && lf.Op <= 18
		case "str":
			ok = lf.Op >= 13
		case "ilist", "dlist", "slist":
			ok = lf.Op == 12
		}
		if !ok {
			continue
		}
		return lf
	}
}

func checkC01(c *Ctx) {
	c.Res.Rule = "compound rules of 2-24 comparisons (chains to 8 operands per level, nesting to depth 12, not/NOT and parentheses anywhere) rendered from random trees in the grammar's normal form, every comparison also evaluated stand-alone by the engine on the same object; domain: all comparisons individually error-free; compared: verdict against the Boolean combination of the stand-alone verdicts (Lean `combine`), and the parse-tree skeleton against the left-associative reading; non-trivial = distinct (rule, object) whose comparisons take both truth values"
	n := c.budget(12000, 240000)
	maxLeaves := 12
	c.combLoop(n, maxLeaves, func() *Node { return validLeaf(c.R, 3) }, ObjOpts{AbsentPct: 10, NilPct: 5, NullParent: 8}, func(cc *combCase) *Violation {
		for _, o := range cc.leafObs {
			if o.E != "-" {
				c.count("outside_domain_leaf_error")
				return nil
			}
		}
		c.count(fmt.Sprintf("leaves_%02d", min(len(cc.leaves), 25)))
		c.count(fmt.Sprintf("depth_%02d", min(cc.root.Depth(), 15)))
		sawT, sawF := false, false
		for _, o := range cc.leafObs {
			if o.V {
				sawT = true
			} else {
				sawF = true
			}
		}
		if sawT && sawF {
			c.nontrivial(cc.text, cc.obj.String())
		}
		ev := modelField(cc.expect, "v")
		if cc.whole.E != "-" || (ev == "1") != cc.whole.V {
			v := cc.viol("the verdict of a compound rule is not the Boolean combination of its comparisons", "verdict "+ev+" and no error")
			return &v
		}
		// grouping: the parse tree skeleton must be the left-associative one
		g := goLexParse(strings.TrimSpace(cc.text))
		next := 0
		if sk := cc.root.Skeleton(&next); g.Accept && skeletonOfShape(g.Shape) != sk {
			v := cc.viol("the rule is grouped differently from the left-associative, equal-precedence reading", "grouping "+sk+" but the parser read "+skeletonOfShape(g.Shape))
			return &v
		}
		c.sample(map[string]string{"rule": cc.text, "object": cc.obj.Pretty(), "expected": cc.expect})
		return nil
	})
}

// chainTo builds {p0: {p1: … {pn: v}}} below `into`
func chainTo(into *AV, path []string, v *AV) {
	cur := into
	for i := 0; i < len(path)-1; i++ {
		nx := cur.Get(path[i])
		if nx == nil || nx.K != AVObj {
			nx = avObj()
			cur.Set(path[i], nx)
		}
		cur = nx
	}
	cur.Set(path[len(path)-1], v)
}

// c02Denotation: `p op lit` on O must behave like `q0 op lit` on {q0: the value p denotes in O} – whatever other keys O has,
// in particular keys named like later segments of p at the root or inside other objects.
func (c *Ctx) c02Denotation(n int) {
	for i := 0; i < n && !c.full(); i++ {
		lf := genLeaf(c.R, 4)
		if len(lf.Path) < 2 && c.R.Chance(2, 3) {
			lf.Path = append(lf.Path, genName(c.R), genName(c.R))
		}
		idc := 0
		obj := avObj()
		cut := len(lf.Path)
		if c.R.Chance(4, 10) {
			cut = c.R.Intn(len(lf.Path))
		}
		if cut == len(lf.Path) {
			chainTo(obj, lf.Path, nearValue(c.R, lf, &idc))
		} else if cut > 0 || c.R.Chance(1, 2) {
			if c.R.Chance(1, 2) {
				chainTo(obj, lf.Path[:cut+1], avNull())
			} else if cut > 0 {
				if c.R.Chance(1, 3) {
					// a nil map of the object type: a non-nil interface value in which every lookup is absent
					chainTo(obj, lf.Path[:cut], &AV{K: AVObj, Nil: true})
					c.count("path_through_a_nil_map")
				} else {
					chainTo(obj, lf.Path[:cut], avObj())
				}
			}
		}
		// decoys: what a lookup restarted at the wrong place would find
		for j := 1; j < len(lf.Path); j++ {
			if c.R.Chance(1, 2) && obj.Get(lf.Path[j]) == nil {
				chainTo(obj, lf.Path[j:], nearValue(c.R, lf, &idc))
			}
		}
		if c.R.Chance(1, 2) {
			addDecoys(c.R, obj, [][]string{lf.Path}, func() *AV { return nearValue(c.R, lf, &idc) })
		}
		den, ok := denote(obj, lf.Path)
		if !ok {
			continue
		}
		flat := avObj()
		if den != nil {
			flat.Set("q0", den)
		}
		lf2 := *lf
		lf2.Path = []string{"q0"}
		t1, t2 := c.style(c.R.Chance(1, 3)).Render(lf), c.style(true).Render(&lf2)
		a := evalOn(t1, obj.GoMap(), poisonObjects(c.R, lf))
		b := evalFresh(t2, flat.GoMap())
		c.Res.Evaluations++
		c.count("path_denotation")
		if len(lf.Path) > 1 {
			c.nontrivial(t1, obj.String())
		}
		if a.V != b.V || a.E != b.E || (a.D == "-") != (b.D == "-") || callsStr(a.Calls) != callsStr(b.Calls) {
			c.violate(Violation{What: "a dotted path does not denote the value reached by successive key lookups (absent as soon as a step is missing or null)",
				Rule: t1, RuleHex: hx(t1), Object: obj.Pretty(), ObjProto: obj.String(),
				Demand: fmt.Sprintf("the path denotes %s, so the outcome of %q on %s: %s", den.PrettyOrAbsent(), t2, flat.Pretty(), b.Line()), Go: a.Line() + " " + a.ErrText})
		}
	}
}

func checkC02(c *Ctx) {
	c.Res.Rule = "compound rules whose comparisons use paths of 1-4 segments over objects with missing keys, explicit nil and nil parents in the middle followed by further comparisons, several list literals and differently typed literals per rule; every comparison evaluated stand-alone by the engine on the same object; domain: object-shaped paths; compared: verdict, error class, diagnostic presence and Stringer call order against Lean `combine` of the stand-alone outcomes; non-trivial = distinct (rule, object) with >= 2 comparisons reached of which one has an absent attribute"
	n := c.budget(12000, 240000)
	c.c02Denotation(n)
	c.combLoop(n, 8, func() *Node {
		lf := genLeaf(c.R, 4)
		if c.R.Chance(1, 3) && lf.T == NCmp {
			lf.Lit = genLit(c.R, pick(c.R, []string{"ilist", "dlist", "slist"}))
			lf.Op = 12
		}
		return lf
	}, ObjOpts{AbsentPct: 15, NilPct: 8, NullParent: 25}, func(cc *combCase) *Violation {
		if !cc.shapeOK {
			c.count("outside_domain_non_object_in_path")
			return nil
		}
		absent := false
		for _, lf := range cc.leaves {
			if a, _ := denote(cc.obj, lf.Path); a == nil {
				absent = true
			}
		}
		if absent && len(cc.leaves) >= 2 {
			c.nontrivial(cc.text, cc.obj.String())
		}
		c.count(fmt.Sprintf("leaves_%02d", min(len(cc.leaves), 25)))
		if cc.whole.Line() != cc.expect {
			v := cc.viol("a comparison inside a compound rule does not yield what it yields as a stand-alone rule", cc.expect)
			return &v
		}
		// the diagnostic must describe the comparison it belongs to: its text is the text that comparison produces alone
		next, last := 0, -1
		if _, ok := lastDiagLeaf(cc.root, cc.leafObs, &next, &last); ok && last >= 0 && cc.whole.D != "-" {
			c.count("diagnostic_text_compared")
			if cc.whole.DbgText != cc.leafObs[last].DbgText {
				v := cc.viol("the diagnostic of a comparison inside a compound rule differs from its diagnostic as a stand-alone rule",
					"LastDebugErr().Error() = "+cc.leafObs[last].DbgText+" (that of "+cc.leafText[last]+" alone), got "+cc.whole.DbgText)
				return &v
			}
		}
		c.sample(map[string]string{"rule": cc.text, "object": cc.obj.Pretty(), "expected": cc.expect})
		return nil
	})
}

func unsupported(kind string, op int) bool {
	switch kind {
	case "bool", "null":
		return op != 13 && op != 14
	case "long", "dbl":
		return op >= 19
	case "ver":
		return op >= 19 || op == 12
	}
	return false
}

func checkC06(c *Ctx) {
	c.Res.Rule = "(a) table: every literal kind x every operator x attribute classes as single comparisons - unsupported operator => ErrInvalidOperation with verdict false whatever the attribute, supported operator with absent or wrongly typed attribute => false without error; (b) compound rules with 0-4 unsupported comparisons at random positions, under not and parentheses, objects deciding what is reached, Stringer attributes observing reach order; compared with Lean `combine` of the stand-alone outcomes: verdict, errors.Is(err, ErrInvalidOperation), Stringer call order; non-trivial = distinct (rule, object) containing an unsupported comparison"
	n := c.budget(12000, 240000)
	// (a) the table, exhaustively over kind x op x attribute class
	attrClasses := []func() *AV{func() *AV { return nil }, func() *AV { return avNull() }, func() *AV { return avInt(1) }, func() *AV { return avFloat(1.5) }, func() *AV { return avStr("1.0.0") },
		func() *AV { return &AV{K: AVBool, B: true} }, func() *AV { o := avObj(); o.Set("b", avInt(1)); return o }, func() *AV { return &AV{K: AVOther, Tag: 8} }, func() *AV { return &AV{K: AVStringer, ID: 1, S: "abc"} }, func() *AV { return &AV{K: AVInt64, I: 1} },
		// typed nil pointer, pointer to a scalar, encoding/json's Number (a Stringer) with a non-numeric / numeric / empty text, any other odd type
		func() *AV { return &AV{K: AVOther, Tag: 4} }, func() *AV { return &AV{K: AVOther, Tag: 24} }, func() *AV { return &AV{K: AVStringer, ID: 0, S: pick(c.R, []string{"abc", "", "42", "1,5", "0x"})} },
		func() *AV { return &AV{K: AVOther, Tag: c.R.Intn(len(otherNames))} }}
	for _, kind := range litKinds {
		for op := 12; op <= 21; op++ {
			for _, ac := range attrClasses {
				var lit Lit
				for {
					lit = genLit(c.R, kind)
					probe := evalFresh(c.style(true).Render(&Node{T: NCmp, Path: []string{"x"}, Op: 13, Lit: lit}), nil)
					if probe.E != "badlit" {
						break
					}
				}
				lf := &Node{T: NCmp, Path: []string{"x"}, Op: op, Lit: lit}
				obj := avObj()
				if a := ac(); a != nil {
					obj.Set("x", a)
				}
				text := c.style(false).Render(lf)
				got := evalFresh(text, obj.GoMap())
				c.Res.Evaluations++
				c.count("table_cells")
				if got.E == "syn" {
					c.count("outside_domain_rejected_by_the_engines_parser")
					continue
				}
				uns := unsupported(kind, op)
				if uns {
					c.nontrivial(text, obj.String())
				}
				scalar := kind != "ilist" && kind != "dlist" && kind != "slist"
				bad := ""
				switch {
				case uns && (got.E != "invop" || got.V):
					bad = "ErrInvalidOperation with verdict false"
				case !uns && scalar && (got.E != "-"):
					bad = "no error (an absent or wrongly typed attribute is simply false)"
				case !uns && scalar && got.V && (obj.Get("x") == nil) && !(kind == "null" && op == 13):
					bad = "verdict false for an absent attribute"
				}
				if bad != "" {
					c.violate(Violation{What: "operator support table violated", Rule: text, RuleHex: hx(text), Object: obj.Pretty(), ObjProto: obj.String(), Demand: bad, Go: got.Line() + " " + got.ErrText})
				}
			}
		}
	}
	// (b) reach and finality
	c.combLoop(n, 8, func() *Node {
		lf := genLeaf(c.R, 3)
		if lf.T == NCmp && c.R.Chance(1, 4) {
			// force an unsupported operator
			lf.Lit = genLit(c.R, pick(c.R, []string{"bool", "null", "long", "dbl", "ver"}))
			for !unsupported(lf.Lit.Kind, lf.Op) {
				lf.Op = 12 + c.R.Intn(10)
			}
		}
		return lf
	}, ObjOpts{AbsentPct: 15, NilPct: 5, NullParent: 8}, func(cc *combCase) *Violation {
		if !cc.shapeOK {
			c.count("outside_domain_non_object_in_path")
			return nil
		}
		nuns := 0
		for _, lf := range cc.leaves {
			if lf.T == NCmp && unsupported(lf.Lit.Kind, lf.Op) {
				nuns++
			}
		}
		for _, o := range cc.leafObs {
			if o.E == "panic" || o.E == "escaped" || o.E == "newerr" {
				c.count("outside_domain_panicking_stringer")
				return nil
			}
		}
		c.count(fmt.Sprintf("unsupported_%d", min(nuns, 5)))
		if nuns > 0 {
			c.nontrivial(cc.text, cc.obj.String())
		}
		ev, ee, ec := modelField(cc.expect, "v"), modelField(cc.expect, "e"), modelField(cc.expect, "c")
		if ee == "invop" {
			c.count("failure_reached")
		} else if nuns > 0 {
			c.count("failure_skipped_by_short_circuit")
		}
		gotE := cc.whole.E
		if (ev == "1") != cc.whole.V || gotE != ee || callsStr(cc.whole.Calls) != ec {
			v := cc.viol("failure of an unsupported operator is not reported exactly when reached / is not final", "verdict "+ev+", error class "+ee+", Stringer calls "+ec)
			return &v
		}
		c.sample(map[string]string{"rule": cc.text, "object": cc.obj.Pretty(), "expected": cc.expect})
		return nil
	})
}

// fixNilLeaves replaces Go-nil AV pointers (from attribute class "absent") by explicit nulls
func fixNilLeaves(a *AV) {
	for i, v := range a.Vals {
		if v == nil {
			a.Vals[i] = avNull()
		} else if v.K == AVObj {
			fixNilLeaves(v)
		}
	}
}

func checkC16(c *Ctx) {
	c.Res.Rule = "(a) table: every literal kind x operator x attribute class as a single comparison: LastDebugErr()!=nil compared with the model's `undecidable`, Error() must return a non-empty text without panicking; (b) compound rules: LastDebugErr()!=nil iff some reached comparison has a diagnostic when evaluated alone (Lean `combine`); domain: convertible literals, object-shaped paths; non-trivial = distinct (rule, object) in which some comparison is undecidable"
	n := c.budget(12000, 240000)
	attrClasses := []func() *AV{func() *AV { return nil }, func() *AV { return avNull() }, func() *AV { return avInt(1) }, func() *AV { return avFloat(1.5) }, func() *AV { return avStr("1.0.0") }, func() *AV { return avStr("s") },
		func() *AV { return &AV{K: AVBool, B: true} }, func() *AV { o := avObj(); o.Set("b", avInt(1)); return o }, func() *AV { return &AV{K: AVOther, Tag: 8} }, func() *AV { return &AV{K: AVOther, Tag: 2} }, func() *AV { return &AV{K: AVOther, Tag: 3} },
		func() *AV { return &AV{K: AVStringer, ID: 1, S: "abc"} }, func() *AV { return &AV{K: AVInt64, I: 1} }, func() *AV { return &AV{K: AVInt32, I: 1} }, func() *AV { return avStr("1.0") },
		func() *AV { return &AV{K: AVOther, Tag: 4} }, func() *AV {
			return &AV{K: AVStringer, ID: 0, S: pick(c.R, []string{"abc", "", "42", "1,5", "0x", "--1"})}
		}, func() *AV { return &AV{K: AVOther, Tag: c.R.Intn(len(otherNames))} },
		// a Stringer that uses the evaluator in progress while it is asked for its text (values.go), one whose text changes
		func() *AV { return &AV{K: AVStringer, ID: 3001, S: "abc"} }, func() *AV { return &AV{K: AVStringer, ID: 7001, S: "abc"} }}
	var cells []*leafCase
	for _, kind := range litKinds {
		for op := 12; op <= 21; op++ {
			for _, ac := range attrClasses {
				lit := genLit(c.R, kind)
				lf := &Node{T: NCmp, Path: []string{"x"}, Op: op, Lit: lit}
				obj := avObj()
				if a := ac(); a != nil {
					obj.Set("x", a)
				}
				cells = append(cells, &leafCase{leaf: lf, text: c.style(false).Render(lf), obj: obj})
			}
			if kind == "ver" {
				// the literal's own text (parsed as a version many times by now) with malformed build metadata: not a version
				lit := genLit(c.R, kind)
				lf := &Node{T: NCmp, Path: []string{"x"}, Op: op, Lit: lit}
				obj := avObj()
				obj.Set("x", avStr(lit.Text+pick(c.R, []string{"+", "+a..b", "+x_y", "+a+b"})))
				cells = append(cells, &leafCase{leaf: lf, text: c.style(false).Render(lf), obj: obj})
			}
		}
	}
	// the same cells behind paths of 2-4 segments with the attribute present, absent, or cut off by a missing or nil parent;
	// presence tests and null tests included (they are always decided)
	for rep := 0; rep < c.budget(4, 40); rep++ {
		for _, kind := range append([]string{"pr"}, litKinds...) {
			for op := 12; op <= 21; op++ {
				path := genPath(c.R, 4)
				for len(path) < 2 {
					path = append(path, genName(c.R))
				}
				var lf *Node
				if kind == "pr" {
					lf = &Node{T: NPres, Path: path}
				} else {
					lf = &Node{T: NCmp, Path: path, Op: op, Lit: genLit(c.R, kind)}
				}
				obj := avObj()
				switch c.R.Intn(4) {
				case 0:
					chainTo(obj, path, pick(c.R, attrClasses)())
					if obj.Get(path[0]) == nil {
						obj = avObj()
					}
				case 1:
					cut := c.R.Intn(len(path))
					chainTo(obj, path[:cut+1], avNull())
				case 2:
					if cut := c.R.Intn(len(path)); cut > 0 {
						chainTo(obj, path[:cut], avObj())
					}
				}
				fixNilLeaves(obj)
				if c.R.Chance(1, 2) {
					// keys that look like the path without being on it (the rest of the path at the top of the object when the
					// walk breaks off, letter-case variants, dotted keys): inert by every property
					addDecoys(c.R, obj, [][]string{path}, func() *AV {
						for {
							if v := pick(c.R, attrClasses)(); v != nil {
								return v
							}
						}
					})
					c.count("table_cells_with_decoy_keys")
				}
				cells = append(cells, &leafCase{leaf: lf, text: c.style(false).Render(lf), obj: obj})
			}
		}
	}
	for _, w := range []struct {
		text string
		a    *AV
	}{{"x le 1.5", avStr("s")}, {"x lt 1.5", avStr("s")}, {"x in [1,2]", nil}, {"x in [\"a\"]", nil}, {"x eq 1.2.3", nil}, {"x eq 1.0e999", nil}, {"x eq 1.0e999", avFloat(1)}, {"x gt 1.2.3", avStr("not-a-version")}, {"x le 2.0.0", avStr("01.0.0")}, {"x in [1.5,2.5]", nil}} {
		lf := parseLeafForCorpus(w.text)
		o := avObj()
		if w.a != nil {
			o.Set("x", w.a)
		}
		cells = append(cells, &leafCase{leaf: lf, text: w.text, obj: o})
	}
	c.evalLeafBatch(cells)
	for _, lc := range cells {
		c.Res.Evaluations++
		c.count("table_cells")
		if lc.goObs.E == "badlit" || modelField(lc.model, "e") == "badlit" {
			continue
		}
		if lc.goObs.E == "syn" {
			c.count("outside_domain_rejected_by_the_engines_parser")
			continue
		}
		if a := lc.attr; a != nil && lc.leaf.T == NCmp && (a.K == AVInt32 || a.K == AVInt64) && (lc.leaf.Lit.Kind == "dbl" || lc.leaf.Lit.Kind == "dlist") {
			// whether an int32/int64 attribute can be compared with a decimal literal is constrained by no property
			c.count("unconstrained_int64_vs_decimal")
			continue
		}
		md := modelField(lc.model, "d")
		if md != "-" {
			c.nontrivial(lc.text, lc.obj.String())
		}
		if lc.goObs.TextFail != "" || lc.goObs.Escaped != "" {
			c.violate(lc.viol("the diagnostic cannot be printed", "Error() returns a non-empty text and does not panic; got: "+lc.goObs.TextFail+lc.goObs.Escaped))
			continue
		}
		if (md != "-") != (lc.goObs.D != "-") {
			c.violate(lc.viol("LastDebugErr does not tell exactly when the comparison could not be decided", "LastDebugErr()!=nil must be "+strconv.FormatBool(md != "-")))
			continue
		}
		if md != lc.goObs.D {
			c.drift(lc.viol("diagnostic class differs (unconstrained by C16)", md))
		}
	}
	// an undecidable comparison followed by one whose Stringer panics: the call ends in a recovered panic and the
	// diagnostic of the first comparison must still be reported (the statement does not exempt failing calls)
	for i := 0; i < n/20 && !c.full(); i++ {
		a := genLeaf(c.R, 3)
		for a.T != NCmp || a.Lit.Kind == "null" {
			a = genLeaf(c.R, 3)
		}
		b := &Node{T: NCmp, Path: []string{"sq9"}, Op: 13 + c.R.Intn(9), Lit: genLit(c.R, "str")}
		if a.Path[0] == "sq9" {
			continue
		}
		obj := avObj()
		obj.Set("sq9", &AV{K: AVStringerPanic, ID: 1 + c.R.Intn(5)})
		var rule *Node
		if c.R.Chance(1, 2) {
			rule = &Node{T: NLogic, Or: true, L: a, R: b}
		} else {
			rule = &Node{T: NLogic, L: &Node{T: NParen, Neg: true, Q: a}, R: b}
		}
		text := c.style(c.R.Chance(1, 3)).Render(rule)
		alone := evalFresh(c.style(true).Render(a), obj.GoMap())
		got := evalOn(text, obj.GoMap(), poisonObjects(c.R, rule))
		c.Res.Evaluations++
		c.count("undecidable_then_panicking_stringer")
		if alone.E != "-" || alone.D == "-" {
			continue // the first comparison fails the rule by itself or is decided (unsupported operator, odd literal)
		}
		c.nontrivial(text, obj.String())
		if got.E != "panic" || got.D == "-" || got.V {
			c.violate(Violation{What: "LastDebugErr does not tell exactly when a reached comparison could not be decided", Rule: text, RuleHex: hx(text), Object: obj.Pretty(), ObjProto: obj.String(),
				Demand: "the first comparison is reached and undecidable (alone: " + alone.Line() + "), the second ends the call in a recovered panic: verdict false, an error, LastDebugErr()!=nil",
				Go:     got.Line() + " " + got.ErrText})
		}
	}
	c.combLoop(n, 8, func() *Node { return genLeaf(c.R, 3) }, ObjOpts{AbsentPct: 20, NilPct: 8, NullParent: 10}, func(cc *combCase) *Violation {
		if !cc.shapeOK {
			c.count("outside_domain_non_object_in_path")
			return nil
		}
		for _, o := range cc.leafObs {
			if o.E == "badlit" || o.E == "escaped" || o.E == "newerr" {
				c.count("outside_domain_bad_literal")
				return nil
			}
			if o.E == "panic" {
				c.count("a_reached_comparison_ends_the_call_in_a_recovered_panic")
			}
		}
		some := false
		for _, o := range cc.leafObs {
			if o.D != "-" {
				some = true
			}
		}
		if some {
			c.nontrivial(cc.text, cc.obj.String())
		}
		if cc.whole.TextFail != "" {
			v := cc.viol("the diagnostic cannot be printed", "Error() returns a non-empty text and does not panic; got: "+cc.whole.TextFail)
			return &v
		}
		md := modelField(cc.expect, "d")
		if (md != "-") != (cc.whole.D != "-") {
			v := cc.viol("LastDebugErr does not tell exactly when a reached comparison could not be decided", "LastDebugErr()!=nil must be "+strconv.FormatBool(md != "-"))
			return &v
		}
		c.sample(map[string]string{"rule": cc.text, "object": cc.obj.Pretty(), "expected": cc.expect})
		return nil
	})
}

func checkC17(c *Ctx) {
	c.Res.Rule = "sub-rules A, B, C (1-5 comparisons each, including failing ones) drawn at random, both sides of each law (double negation, both De Morgan laws, associativity of and/or, idempotence, commutativity when A and B cannot fail) rendered as rule texts and evaluated by the engine on the same object; outcomes compared (same verdict, or both fail); no reference interpreter; non-trivial = distinct (law, A, B, C, object) where the sides are different texts and at least one sub-rule is true and one false or failing"
	n := c.budget(8000, 180000)
	P := func(x *Node) *Node { return &Node{T: NParen, Q: x} }
	Not := func(x *Node) *Node { return &Node{T: NParen, Neg: true, Q: x} }
	And := func(x, y *Node) *Node { return &Node{T: NLogic, L: x, R: prim(y)} }
	Or := func(x, y *Node) *Node { return &Node{T: NLogic, Or: true, L: x, R: prim(y)} }
	_ = P
	outcome := func(o Obs) string {
		if o.E != "-" {
			return "fail"
		}
		return strconv.FormatBool(o.V)
	}
	for i := 0; i < n && !c.full(); i++ {
		leafGen := func() *Node {
			lf := genLeaf(c.R, 3)
			if lf.T == NCmp && c.R.Chance(1, 6) {
				lf.Lit = genLit(c.R, pick(c.R, []string{"bool", "null", "long"}))
				for !unsupported(lf.Lit.Kind, lf.Op) {
					lf.Op = 12 + c.R.Intn(10)
				}
			}
			return lf
		}
		A := genTree(c.R, 1+c.R.Intn(4), 3, leafGen)
		B := genTree(c.R, 1+c.R.Intn(4), 3, leafGen)
		C := genTree(c.R, 1+c.R.Intn(3), 3, leafGen)
		all := And(And(A, B), C)
		obj := genObject(c.R, all, ObjOpts{AbsentPct: 12, NilPct: 5, NullParent: 10, NonObjMid: 3})
		if c.R.Chance(1, 15) {
			// a path of three or more steps whose last container is a map of another Go type (map[string]string) holding
			// the last step's key: whatever the engine does with it, it must do the same on both sides of every law
			var ls []*Node
			all.Leaves(&ls)
			for _, lf := range ls {
				if len(lf.Path) >= 3 && !obj.Nil {
					lf.Path[len(lf.Path)-1] = pick(c.R, []string{"env", "a", "b", "c", "x", "k"})
					cur := obj
					for _, seg := range lf.Path[:len(lf.Path)-2] {
						nx := cur.Get(seg)
						if nx == nil || nx.K != AVObj {
							nx = avObj()
							cur.Set(seg, nx)
						}
						cur = nx
					}
					cur.Set(lf.Path[len(lf.Path)-2], &AV{K: AVOther, Tag: 16})
					c.count("typed_string_map_as_last_container")
					break
				}
			}
		}
		m := obj.GoMap()
		canFail := func(t *Node) bool {
			var ls []*Node
			t.Leaves(&ls)
			for _, lf := range ls {
				if evalFresh(c.style(true).Render(lf), m).E != "-" {
					return true
				}
			}
			return false
		}
		type law struct {
			name string
			l, r *Node
		}
		laws := []law{
			{"double negation", Not(Not(A)), A},
			{"De Morgan (and)", Not(And(A, B)), Or(Not(A), Not(B))},
			{"De Morgan (or)", Not(Or(A, B)), And(Not(A), Not(B))},
			{"associativity of and", And(And(A, B), C), And(A, And(B, C))},
			{"associativity of or", Or(Or(A, B), C), Or(A, Or(B, C))},
			{"idempotence of and", And(A, A), A},
			{"idempotence of or", Or(A, A), A},
		}
		if !canFail(A) && !canFail(B) {
			laws = append(laws, law{"commutativity of and", And(A, B), And(B, A)}, law{"commutativity of or", Or(A, B), Or(B, A)})
			c.count("commutativity_applicable")
		}
		oa, ob := outcome(evalFresh(c.style(true).Render(A), m)), outcome(evalFresh(c.style(true).Render(B), m))
		for _, lw := range laws {
			lt, rt := c.style(c.R.Chance(1, 2)).Render(lw.l), c.style(c.R.Chance(1, 2)).Render(lw.r)
			// one side now and then on an evaluator that has already processed other objects (failing ones among them): the
			// laws are about the rules, not about the history of the evaluator that happens to evaluate a side
			lo, ro := evalOn(lt, m, poisonObjects(c.R, lw.l)), evalFresh(rt, m)
			c.Res.Evaluations++
			c.count("law_" + lw.name)
			if oa != ob {
				c.nontrivial(lw.name, lt, rt, obj.String())
			}
			if outcome(lo) != outcome(ro) {
				c.violate(Violation{What: "law of Boolean algebra violated: " + lw.name, Rule: lt, RuleHex: hx(lt), Object: obj.Pretty(), ObjProto: obj.String(),
					Demand: "the same outcome as " + fmt.Sprintf("%q", rt) + " which is " + outcome(ro) + " (" + ro.Line() + ")", Go: outcome(lo) + " (" + lo.Line() + " " + lo.ErrText + ")",
					Extra: map[string]string{"other_side": rt, "law": lw.name}})
				break
			}
		}
		if i < 3 {
			c.sample(map[string]string{"A": c.style(true).Render(A), "B": c.style(true).Render(B), "C": c.style(true).Render(C), "object": obj.Pretty()})
		}
	}
}

// prim wraps a connective in parentheses so that it can be a right operand (grammar normal form).
func prim(x *Node) *Node {
	if x.T == NLogic {
		return &Node{T: NParen, Q: x}
	}
	return x
}
