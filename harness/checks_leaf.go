package main

// L-leaf layer: single-comparison rules against the full model (EVAL) and against independent oracles
// computed here with math/big and the Go standard library. C03 C04 C08 C09 C10 C18, leaf tables of C06 and C16.

import (
	"fmt"
	"math"
	"math/big"
	"strconv"
	"strings"

	"github.com/blang/semver"
	"github.com/nikunjy/rules/parser"
)

func init() {
	checks["C03"] = checkC03
	checks["C04"] = checkC04
	checks["C08"] = checkC08
	checks["C09"] = checkC09
	checks["C10"] = checkC10
	checks["C18"] = checkC18
}

type leafCase struct {
	leaf     *Node
	text     string
	obj      *AV
	attr     *AV  // value the path denotes (nil = absent), per the harness's own denote
	shapedOK bool // path ran through objects / null only
	goObs    Obs
	model    string
}

// denote: the value a dotted path denotes in an abstract object (nil,true = absent; ok=false = non-object in the middle)
func denote(obj *AV, path []string) (*AV, bool) {
	cur := obj
	for i, k := range path {
		if cur == nil || cur.K == AVNull {
			return nil, true
		}
		if cur.K != AVObj {
			return nil, false
		}
		cur = cur.Get(k)
		_ = i
	}
	if cur == nil || cur.K == AVNull {
		return nil, true
	}
	return cur, true
}

func (c *Ctx) evalLeafBatch(cases []*leafCase) {
	var lines []string
	for _, lc := range cases {
		poison := poisonObjects(c.R, lc.leaf)
		if poison != nil {
			c.count("on_reused_evaluator")
		}
		lc.goObs = evalOn(lc.text, lc.obj.GoMap(), poison)
		lc.attr, lc.shapedOK = denote(lc.obj, lc.leaf.Path)
		lines = append(lines, "EVAL\t"+lowerTable([]string{lc.text}, lc.obj)+"\t"+runeHex(lc.text)+"\t"+lc.obj.String())
	}
	ans := c.ask(lines)
	for i, lc := range cases {
		lc.model = ans[i]
	}
	// The one-shot entry point of the root package, on the same object plus an unrelated attribute of an odd Go type:
	// the comparison must not care which entry point evaluates it nor what else the object holds.
	for _, lc := range cases {
		if !c.R.Chance(1, 8) || lc.goObs.E == "escaped" || lc.goObs.E == "panic" || len(lc.goObs.Calls) > 0 {
			continue
		}
		obj := lc.obj.GoMap()
		if obj == nil || lc.obj.Get("zz_side") != nil {
			continue
		}
		obj["zz_side"] = mkOther(pick(c.R, []int{16, 1, 4, 9, 17, 12}))
		rv, re, resc := rulesEvaluate(lc.text, obj)
		c.count("root_evaluate_with_odd_sibling")
		if resc != "" {
			continue
		}
		if rv != lc.goObs.V || (re != "-") != (lc.goObs.E != "-") {
			c.violate(Violation{What: "rules.Evaluate on the same object plus an unrelated attribute gives this comparison another outcome than NewEvaluator+Process",
				Rule: lc.text, RuleHex: hx(lc.text), Object: lc.obj.Pretty() + " plus zz_side=" + fmt.Sprintf("%T", obj["zz_side"]), ObjProto: lc.obj.String(),
				Demand: "the outcome of Process on the object: " + lc.goObs.Line(), Go: fmt.Sprintf("rules.Evaluate -> (%v, err=%s)", rv, re), Model: lc.model})
		}
	}
	// Reuse after a failed call: the comparison as the right operand of `(gq eq 1 and zq co 1) or …` on one evaluator that
	// first processes an object on which the guard reaches the unsupported comparison (the call fails), then the object
	// of the case with the guard off. The comparisons are stated for any position in a rule and any history of the
	// evaluator, so the second call must give the verdict the comparison has alone, with no error.
	for _, lc := range cases {
		if !c.R.Chance(1, 6) || modelField(lc.model, "e") != "-" || lc.goObs.E != "-" || lc.leaf.T == NLogic || lc.leaf.T == NParen {
			continue
		}
		if lc.obj.Get("gq") != nil || lc.obj.Get("zq") != nil {
			continue
		}
		guard := &Node{T: NParen, Q: &Node{T: NLogic, L: &Node{T: NCmp, Path: []string{"gq"}, Op: 13, Lit: Lit{Kind: "long", Text: "1"}},
			R: &Node{T: NCmp, Path: []string{"zq"}, Op: 19, Lit: Lit{Kind: "long", Text: "1"}}}}
		rule := &Node{T: NLogic, Or: true, L: guard, R: lc.leaf}
		text := c.style(true).Render(rule)
		on := map[string]interface{}{"gq": 1}
		obj := lc.obj.GoMap()
		if obj == nil {
			continue
		}
		obj["gq"] = 2
		got := evalOn(text, obj, []map[string]interface{}{on})
		c.count("reuse_after_failed_call")
		if got.V != lc.goObs.V || got.E != "-" {
			c.violate(Violation{What: "after a call that failed on an unsupported comparison elsewhere in the rule, the same evaluator gives this comparison another outcome than it has alone",
				Rule: text, RuleHex: hx(text), Object: lc.obj.Pretty() + " plus gq=2 (previous call on the same evaluator: {gq: 1})", ObjProto: lc.obj.String(),
				Demand: fmt.Sprintf("verdict %v and no error, as for %q alone", lc.goObs.V, lc.text), Go: got.Line() + " " + got.ErrText, Model: lc.model})
		}
	}
	// After an operand whose path breaks early: `dq.eqq.fq.hq pr or …` / `not (dq.eqq.fq eq null) or …` where the walk of the
	// first operand stops one, two or three steps before its end (missing key, explicit nil, or an empty object on the way).
	// The first operand is false and error-free, so the rule must give what the comparison gives alone.
	for _, lc := range cases {
		if !c.R.Chance(1, 6) || modelField(lc.model, "e") != "-" || lc.goObs.E != "-" || lc.leaf.T == NLogic || lc.leaf.T == NParen {
			continue
		}
		if lc.obj.Get("dq") != nil || lc.obj.K != AVObj {
			continue
		}
		depth := 2 + c.R.Intn(3)
		path := []string{"dq", "eqq", "fq", "hq"}[:depth]
		obj := lc.obj.GoMap()
		if obj == nil {
			obj = map[string]interface{}{}
		}
		var holder map[string]interface{} = obj
		brk := c.R.Intn(depth) // the step at which the walk stops
		for i := 0; i < brk; i++ {
			nx := map[string]interface{}{}
			holder[path[i]] = nx
			holder = nx
		}
		if c.R.Chance(1, 2) {
			holder[path[brk]] = nil
		}
		var first *Node
		if c.R.Chance(1, 2) {
			first = &Node{T: NPres, Path: path}
		} else {
			first = &Node{T: NParen, Neg: true, Q: &Node{T: NCmp, Path: path, Op: 13, Lit: Lit{Kind: "null", Text: "null"}}}
		}
		rule := &Node{T: NLogic, Or: true, L: first, R: lc.leaf}
		text := c.style(true).Render(rule)
		got := evalOn(text, obj, nil)
		c.count(fmt.Sprintf("after_a_path_broken_%d_steps_before_its_end", depth-brk))
		if got.V != lc.goObs.V || got.E != "-" {
			c.violate(Violation{What: "after an operand whose path ends early (missing or nil parent) this comparison gives another outcome than it has alone",
				Rule: text, RuleHex: hx(text), Object: fmt.Sprintf("%s plus the chain %v broken at step %d", lc.obj.Pretty(), path, brk), ObjProto: lc.obj.String(),
				Demand: fmt.Sprintf("verdict %v and no error, as for %q alone", lc.goObs.V, lc.text), Go: got.Line() + " " + got.ErrText, Model: lc.model})
		}
	}
}

func modelField(line, key string) string {
	for _, f := range strings.Split(line, " ") {
		if strings.HasPrefix(f, key+"=") {
			return f[len(key)+1:]
		}
	}
	return "?"
}

func (c *Ctx) mkLeafCase(leaf *Node, attrGen func(idc *int) *AV, canonPct int) *leafCase {
	obj := avObj()
	cur := obj
	for i := 0; i < len(leaf.Path)-1; i++ {
		nx := avObj()
		cur.Set(leaf.Path[i], nx)
		cur = nx
	}
	idc := 0
	if a := attrGen(&idc); a != nil {
		cur.Set(leaf.Path[len(leaf.Path)-1], a)
	}
	if c.R.Chance(1, 6) {
		idc2 := 200
		addDecoys(c.R, obj, [][]string{leaf.Path}, func() *AV { return nearValue(c.R, leaf, &idc2) })
	}
	return &leafCase{leaf: leaf, text: c.style(c.R.Chance(canonPct, 100)).Render(leaf), obj: obj}
}

func (lc *leafCase) viol(what, demand string) Violation {
	return Violation{What: what, Rule: lc.text, RuleHex: hx(lc.text), Object: lc.obj.Pretty(), ObjProto: lc.obj.String(), Demand: demand,
		Go: lc.goObs.Line() + " " + lc.goObs.ErrText, Model: lc.model}
}

// pairCheck: the same comparisons inside a compound (`A or B` / `A and B` on the merged object) must give the
// combination of the oracle verdicts - the properties are stated for comparisons anywhere in a rule.
type pairMem struct {
	lc       *leafCase
	expected bool
}

func (c *Ctx) pairCheck(prev *pairMem, lc *leafCase, expected bool, what string) {
	defer func() { prev.lc, prev.expected = lc, expected }()
	if prev.lc == nil || prev.lc.leaf.Path[0] == lc.leaf.Path[0] || !c.R.Chance(1, 2) {
		return
	}
	a, b := prev.lc, lc
	for _, k := range b.obj.Keys {
		if a.obj.Get(k) != nil {
			return // the two objects cannot be merged: a (decoy) key of one is a key of the other
		}
	}
	if a.obj.Get(b.leaf.Path[0]) != nil || b.obj.Get(a.leaf.Path[0]) != nil {
		return // … or a (decoy) key of one is where the OTHER comparison looks (its own attribute may be absent)
	}
	obj := avObj()
	for i, k := range a.obj.Keys {
		obj.Set(k, a.obj.Vals[i])
	}
	for i, k := range b.obj.Keys {
		obj.Set(k, b.obj.Vals[i])
	}
	or := c.R.Chance(1, 2)
	rule := &Node{T: NLogic, Or: or, L: a.leaf, R: b.leaf}
	want := prev.expected && expected
	if or {
		want = prev.expected || expected
	}
	text := c.style(c.R.Chance(1, 3)).Render(rule)
	got := evalOn(text, obj.GoMap(), poisonObjects(c.R, rule))
	c.count("pair_in_compound")
	if got.V != want || got.E != "-" {
		c.violate(Violation{What: what + " (inside a compound rule)", Rule: text, RuleHex: hx(text), Object: obj.Pretty(), ObjProto: obj.String(),
			Demand: fmt.Sprintf("verdict %v, no error (the two comparisons alone are %v and %v by the oracle)", want, prev.expected, expected), Go: got.Line() + " " + got.ErrText})
	}
}

// ---------- C03 ----------

func ratOfAV(a *AV) (r *big.Rat, special string, numeric bool) {
	switch a.K {
	case AVInt, AVInt32, AVInt64:
		return new(big.Rat).SetInt64(a.I), "", true
	case AVFloat:
		switch {
		case math.IsNaN(a.F):
			return nil, "nan", true
		case math.IsInf(a.F, 1):
			return nil, "+inf", true
		case math.IsInf(a.F, -1):
			return nil, "-inf", true
		}
		return new(big.Rat).SetFloat64(a.F), "", true
	}
	return nil, "", false
}

func relBig(op int, cmp int) bool {
	switch op {
	case 13:
		return cmp == 0
	case 14:
		return cmp != 0
	case 15:
		return cmp > 0
	case 16:
		return cmp < 0
	case 17:
		return cmp >= 0
	case 18:
		return cmp <= 0
	}
	return false
}

func checkC03(c *Ctx) {
	c.Res.Rule = "single comparisons `path op literal` with an integer or decimal literal (boundary pools: 0, +-1, 2^31, 2^53+-1, int64 limits, halfway decimals, exponents, subnormals) in every spelling of the six relational operators, attribute drawn near the literal (equal, +-1, +-ulp, +-fraction, NaN, +-Inf, -0, int/int32/int64/float64) or of a non-numeric type; expected verdict computed independently with math/big; non-trivial = distinct (literal, operator, attribute) with a numeric attribute inside the quantifier domain"
	n := c.budget(25000, 900000)
	var batch []*leafCase
	prev := &pairMem{}
	judge := func() {
		c.evalLeafBatch(batch)
		for _, lc := range batch {
			c.Res.Evaluations++
			l := lc.leaf.Lit
			if modelField(lc.model, "e") == "badlit" {
				c.count("skipped_unrepresentable_literal")
				continue
			}
			if lc.goObs.E == "badlit" {
				// the literal IS representable (strconv on its text succeeds in the model and in the oracle below)
				c.violate(lc.viol("a numeric literal inside the representable range is rejected", "the literal "+l.Text+" is representable: the comparison is decided by the mathematical order, no error"))
				continue
			}
			var litRat *big.Rat
			litIsInt := l.Kind == "long"
			if litIsInt {
				v, ok := parseLongText(l.Text)
				if !ok {
					continue
				}
				litRat = new(big.Rat).SetInt64(v)
			} else {
				f, err := strconv.ParseFloat(l.Text, 64)
				if err != nil {
					c.count("skipped_unrepresentable_literal")
					continue
				}
				litRat = new(big.Rat).SetFloat64(f)
			}
			a := lc.attr
			var expected bool
			domain := true
			switch {
			case a == nil:
				expected = false
				c.count("attr_absent")
			default:
				ar, special, numeric := ratOfAV(a)
				switch {
				case a.K == AVStringer || a.K == AVStringerPanic:
					expected = false
					c.count("attr_non_numeric")
				case !numeric:
					expected = false
					c.count("attr_non_numeric")
				case special == "nan":
					expected = lc.leaf.Op == 14
					c.count("attr_nan")
				case special == "+inf":
					expected = relBig(lc.leaf.Op, 1)
					c.count("attr_inf")
				case special == "-inf":
					expected = relBig(lc.leaf.Op, -1)
					c.count("attr_inf")
				default:
					lim := new(big.Rat).SetInt64(1 << 53)
					absLit := new(big.Rat).Abs(litRat)
					absA := new(big.Rat).Abs(ar)
					switch {
					case litIsInt && a.K == AVFloat && absLit.Cmp(lim) > 0:
						domain = false
					case !litIsInt && a.K == AVInt && absA.Cmp(lim) > 0:
						domain = false
					case !litIsInt && (a.K == AVInt32 || a.K == AVInt64):
						domain = false // int32/int64 are claimed against integer literals only
					}
					expected = relBig(lc.leaf.Op, ar.Cmp(litRat))
					c.count("attr_" + []string{"", "", "int", "int32", "int64", "float64"}[a.K])
					if domain {
						c.nontrivial(l.Text, strconv.Itoa(lc.leaf.Op), a.String())
					}
				}
			}
			if !domain {
				c.count("outside_quantifier")
				if modelField(lc.model, "v") != map[bool]string{true: "1", false: "0"}[lc.goObs.V] {
					c.drift(lc.viol("model and code differ outside C03's quantifier", ""))
				}
				continue
			}
			c.count("op_" + opSym[lc.leaf.Op])
			if lc.goObs.V != expected || lc.goObs.E != "-" {
				c.violate(lc.viol("numeric comparison disagrees with the mathematical order", fmt.Sprintf("verdict %v, no error (attribute %s, literal %s)", expected, a.PrettyOrAbsent(), l.Text)))
				continue
			}
			mv := modelField(lc.model, "v")
			if (mv == "1") != expected {
				c.internal("Lean model disagrees with the math/big oracle: " + lc.text + " on " + lc.obj.Pretty() + " -> " + lc.model)
			}
			c.pairCheck(prev, lc, expected, "numeric comparison disagrees with the mathematical order")
			c.sample(map[string]string{"rule": lc.text, "object": lc.obj.Pretty(), "verdict": strconv.FormatBool(expected)})
		}
		batch = batch[:0]
	}
	// validation of the modelled std-lib pieces (not a statement about /repo): strconv.ParseFloat and float64(int)
	{
		var lines, want []string
		add := func(t string) {
			f, err := strconv.ParseFloat(t, 64)
			w := "range"
			if err == nil {
				w = strconv.FormatUint(math.Float64bits(f), 16)
				if f == 0 && !math.Signbit(f) {
					w = "0"
				}
			}
			lines = append(lines, "FLT\t"+t)
			want = append(want, w)
		}
		for _, t := range dblPool {
			add(t)
		}
		for _, t := range badDblPool {
			add(t)
		}
		for i := 0; i < c.budget(3000, 180000); i++ {
			add(genDbl(c.R))
		}
		for i := 0; i < 500; i++ {
			// halfway cases around 2^53 and long digit strings
			add(strconv.FormatUint(9007199254740992+uint64(c.R.Intn(64)), 10) + "." + strconv.Itoa(c.R.Intn(10)) + strings.Repeat("0", c.R.Intn(30)) + strconv.Itoa(c.R.Intn(2)))
		}
		nflt := len(lines)
		for _, t := range longPool {
			if v, ok := parseLongText(t); ok {
				lines = append(lines, "INTF\t"+t)
				w := strconv.FormatUint(math.Float64bits(float64(v)), 16)
				if v == 0 {
					w = "0"
				}
				want = append(want, w)
			}
		}
		for i := 0; i < 2000; i++ {
			v := int64(c.R.U64() >> uint(c.R.Intn(12)))
			if c.R.Chance(1, 2) {
				v = -v
			}
			lines = append(lines, "INTF\t"+strconv.FormatInt(v, 10))
			w := strconv.FormatUint(math.Float64bits(float64(v)), 16)
			if v == 0 {
				w = "0"
			}
			want = append(want, w)
		}
		ans := c.ask(lines)
		bad := 0
		for i := range lines {
			if ans[i] != want[i] && bad < 5 {
				bad++
				c.internal("model of strconv.ParseFloat / float64(int) disagrees with Go: " + lines[i] + " -> model " + ans[i] + ", Go " + want[i])
			}
		}
		c.Res.Notes = append(c.Res.Notes, fmt.Sprintf("model validation: %d decimal literals against strconv.ParseFloat and %d integers against float64(int), bit for bit", nflt, len(lines)-nflt))
		c.count("model_validation_cases")
		c.Res.Dist["model_validation_cases"] = len(lines)
	}
	// corpus: the witnesses of defect D3 and friends
	for _, w := range []struct {
		text string
		a    *AV
	}{{"x eq 1", avFloat(1.7)}, {"x gt 1", avFloat(1.7)}, {"x lt 1", avFloat(math.NaN())}, {"x lt 1", avFloat(math.Inf(1))}, {"x eq 2", avFloat(2.0)}, {"x ne 1", avFloat(math.NaN())},
		{"x == 9007199254740992", &AV{K: AVInt64, I: 9007199254740993}}, {"x > 9007199254740992", &AV{K: AVInt64, I: 9007199254740993}}, {"x gt 1.5e10", avFloat(2e10)}, {"x lt 9223372036854775807", avInt(5)}} {
		lf := parseLeafForCorpus(w.text)
		o := avObj()
		o.Set("x", w.a)
		batch = append(batch, &leafCase{leaf: lf, text: w.text, obj: o})
	}
	judge()
	for i := 0; i < n && !c.full(); i++ {
		kind := "long"
		if c.R.Chance(1, 2) {
			kind = "dbl"
		}
		lf := &Node{T: NCmp, Path: genPath(c.R, 3), Op: 13 + c.R.Intn(6), Lit: genLit(c.R, kind)}
		batch = append(batch, c.mkLeafCase(lf, func(idc *int) *AV {
			if c.R.Chance(1, 20) {
				return nil
			}
			return nearValue(c.R, lf, idc)
		}, 20))
		if len(batch) >= 500 {
			judge()
		}
	}
	judge()
}

func (a *AV) PrettyOrAbsent() string {
	if a == nil {
		return "absent"
	}
	return a.Pretty()
}

// parseLeafForCorpus reads "path op literal" written with blanks (corpus entries only).
func parseLeafForCorpus(text string) *Node {
	f := strings.SplitN(text, " ", 3)
	lf := &Node{T: NCmp, Path: strings.Split(f[0], ".")}
	for k, s := range opSym {
		if strings.EqualFold(s, f[1]) {
			lf.Op = k
		}
	}
	switch f[1] {
	case "==":
		lf.Op = 13
	case "!=":
		lf.Op = 14
	case ">":
		lf.Op = 15
	case "<":
		lf.Op = 16
	case ">=":
		lf.Op = 17
	case "<=":
		lf.Op = 18
	}
	t := f[2]
	switch {
	case t == "true" || t == "false":
		lf.Lit = Lit{Kind: "bool", Text: t}
	case t == "null":
		lf.Lit = Lit{Kind: "null", Text: t}
	case strings.HasPrefix(t, "\""):
		lf.Lit = Lit{Kind: "str", Text: t}
	case strings.HasPrefix(t, "["):
		inner := strings.Split(strings.Trim(t, "[]"), ",")
		for i := range inner {
			inner[i] = strings.TrimSpace(inner[i])
		}
		k := "ilist"
		if strings.HasPrefix(inner[0], "\"") {
			k = "slist"
		} else if strings.Contains(inner[0], ".") {
			k = "dlist"
		}
		lf.Lit = Lit{Kind: k, Elems: inner}
	case strings.Count(t, ".") == 2:
		lf.Lit = Lit{Kind: "ver", Text: t}
	case strings.Contains(t, "."):
		lf.Lit = Lit{Kind: "dbl", Text: t}
	default:
		lf.Lit = Lit{Kind: "long", Text: t}
	}
	return lf
}

// ---------- C04 ----------

func strRelGo(op int, a, b string) bool {
	switch op {
	case 13:
		return a == b
	case 14:
		return a != b
	case 15:
		return a > b
	case 16:
		return a < b
	case 17:
		return a >= b
	case 18:
		return a <= b
	case 19:
		return strings.Contains(a, b)
	case 20:
		return strings.HasPrefix(a, b)
	case 21:
		return strings.HasSuffix(a, b)
	}
	return false
}

func checkC04(c *Ctx) {
	allowEscapedScalars = false // "literals containing backslash escapes are outside this claim"
	c.Res.Rule = "single comparisons with a quoted literal without backslash (empty, blanks, mixed case, non-ASCII incl. characters whose lower-casing changes the byte length, control characters) under the nine string operators in every spelling; attribute = the literal / a case variant / a prefix, suffix or infix extension / invalid UTF-8 / a fmt.Stringer / a non-string; expected verdict computed with strings.ToLower and Go's own string relations; non-trivial = distinct (literal, operator, attribute) with a string-like attribute"
	n := c.budget(25000, 900000)
	var batch []*leafCase
	prev := &pairMem{}
	judge := func() {
		c.evalLeafBatch(batch)
		for _, lc := range batch {
			c.Res.Evaluations++
			body := lc.leaf.Lit.Text[1 : len(lc.leaf.Lit.Text)-1]
			body = string([]rune(body))
			a := lc.attr
			var expected bool
			switch {
			case a == nil:
				expected = false
				c.count("attr_absent")
			case a.K == AVStr || a.K == AVStringer:
				expected = strRelGo(lc.leaf.Op, strings.ToLower(a.S), strings.ToLower(body))
				c.count("attr_string_like")
				c.nontrivial(body, strconv.Itoa(lc.leaf.Op), a.String())
				if strings.ToLower(a.S) != a.S || strings.ToLower(body) != body {
					c.count("case_matters")
				}
			case a.K == AVStringerPanic:
				c.count("skipped_panicking_stringer")
				continue
			default:
				expected = false
				c.count("attr_non_string")
			}
			c.count("op_" + opSym[lc.leaf.Op])
			if lc.goObs.V != expected || lc.goObs.E != "-" {
				c.violate(lc.viol("string comparison disagrees with the lower-cased texts", fmt.Sprintf("verdict %v, no error (attribute %s, literal body %q)", expected, a.PrettyOrAbsent(), body)))
				continue
			}
			if lc.model != "NOLOWER" && (modelField(lc.model, "v") == "1") != expected {
				c.internal("Lean model disagrees with the strings oracle: " + lc.text + " on " + lc.obj.Pretty() + " -> " + lc.model)
			}
			c.pairCheck(prev, lc, expected, "string comparison disagrees with the lower-cased texts")
			c.sample(map[string]string{"rule": lc.text, "object": lc.obj.Pretty(), "verdict": strconv.FormatBool(expected)})
		}
		batch = batch[:0]
	}
	for _, w := range []struct{ text, a string }{{`x eq "k"`, "K"}, {`x ne "k"`, "K"}, {`x eq "s"`, "ſ"}, {`x gt "s"`, "ſ"}, {`x eq "σ"`, "ς"}, {`x eq "i"`, "İ"}, {"x eq \"a\tb\"", "A\tB"}, {`x sw "AB"`, "abc"}, {`x ew "BC"`, "abc"}, {`x co "B"`, "abc"}, {`x eq " abc"`, "abc"}, {`x eq ""`, ""}} {
		lf := parseLeafForCorpus(w.text)
		o := avObj()
		o.Set("x", avStr(w.a))
		batch = append(batch, &leafCase{leaf: lf, text: w.text, obj: o})
	}
	judge()
	for i := 0; i < n && !c.full(); i++ {
		lf := &Node{T: NCmp, Path: genPath(c.R, 3), Op: 13 + c.R.Intn(9), Lit: genLit(c.R, "str")}
		batch = append(batch, c.mkLeafCase(lf, func(idc *int) *AV {
			if c.R.Chance(1, 25) {
				return nil
			}
			return nearValue(c.R, lf, idc)
		}, 20))
		if len(batch) >= 500 {
			judge()
		}
	}
	judge()
}

// ---------- C08 ----------

func checkC08(c *Ctx) {
	c.Res.Rule = "`p in [v1..vn]` (1-6 elements incl. duplicates, all comma spacings) against the expanded `p eq v1 or ... or p eq vn`, both evaluated by the engine on the same object, for integer, decimal and string lists; attribute = a member / case variant / float64 equal to an integer member / neighbour / other type / absent; also inside compound rules with several lists; non-trivial = distinct (list, attribute) where the attribute has the list's type family"
	n := c.budget(12000, 600000)
	for i := 0; i < n && !c.full(); i++ {
		kind := pick(c.R, []string{"ilist", "dlist", "slist"})
		lf := &Node{T: NCmp, Path: genPath(c.R, 3), Op: 12, Lit: genLit(c.R, kind)}
		idc := 0
		var attr *AV
		if !c.R.Chance(1, 15) {
			attr = nearValue(c.R, lf, &idc)
		}
		if c.R.Chance(1, 100) {
			// a long list whose only matching element sits near its end (or just past a round position)
			nEl := pick(c.R, []int{66, 130, 257, 300, 1025, 1100, 1500})
			pos := nEl - 1 - c.R.Intn(3)
			l := Lit{Kind: kind}
			for e := 0; e < nEl; e++ {
				switch kind {
				case "ilist":
					l.Elems = append(l.Elems, strconv.Itoa(3*e+1))
				case "dlist":
					l.Elems = append(l.Elems, strconv.Itoa(3*e+1)+".5")
				default:
					l.Elems = append(l.Elems, quote("s"+strconv.Itoa(e)))
				}
			}
			lf.Lit = l
			switch kind {
			case "ilist":
				attr = pick(c.R, []*AV{avInt(int64(3*pos + 1)), avFloat(float64(3*pos + 1)), {K: AVInt64, I: int64(3*pos + 1)}})
			case "dlist":
				attr = avFloat(float64(3*pos+1) + 0.5)
			default:
				attr = avStr(pick(c.R, []string{"s", "S"}) + strconv.Itoa(pos))
			}
			c.count("long_list_member_near_the_end")
		}
		obj := avObj()
		cur := obj
		for j := 0; j < len(lf.Path)-1; j++ {
			nx := avObj()
			cur.Set(lf.Path[j], nx)
			cur = nx
		}
		if attr != nil {
			cur.Set(lf.Path[len(lf.Path)-1], attr)
		}
		// the expanded disjunction
		var chain *Node
		elemKind := map[string]string{"ilist": "long", "dlist": "dbl", "slist": "str"}[kind]
		for _, e := range lf.Lit.Elems {
			eq := &Node{T: NCmp, Path: lf.Path, Op: 13, Lit: Lit{Kind: elemKind, Text: e}}
			if chain == nil {
				chain = eq
			} else {
				chain = &Node{T: NLogic, Or: true, L: chain, R: eq}
			}
		}
		inRule, orRule := lf, chain
		if c.R.Chance(1, 3) {
			// inside a compound with another list before it
			other := &Node{T: NCmp, Path: genPath(c.R, 2), Op: 12, Lit: genLit(c.R, pick(c.R, []string{"ilist", "dlist", "slist"}))}
			neg := &Node{T: NParen, Neg: true, Q: other}
			wrap := func(x *Node) *Node {
				return &Node{T: NLogic, Or: false, L: &Node{T: NLogic, Or: true, L: other, R: neg}, R: &Node{T: NParen, Q: x}}
			}
			inRule, orRule = wrap(lf), wrap(chain)
			c.count("in_compound")
		}
		st := c.style(c.R.Chance(1, 5))
		inText, orText := st.Render(inRule), c.style(true).Render(orRule)
		m := obj.GoMap()
		// the list rule now and then on an evaluator that has already seen other objects (members among them)
		a := evalOn(inText, m, poisonObjects(c.R, inRule))
		b := evalFresh(orText, m)
		c.Res.Evaluations++
		c.count("kind_" + kind)
		if a.E == "badlit" || b.E == "badlit" {
			c.count("skipped_unrepresentable_element")
			continue
		}
		if attr != nil && (attr.K == AVStringerPanic) {
			c.count("skipped_panicking_stringer")
			continue
		}
		if attr != nil {
			c.nontrivial(inText, attr.String())
		}
		if a.E != "-" && b.E != "-" {
			c.count("both_sides_fail_outside_claim")
			continue
		}
		if a.V != b.V || a.E != "-" || b.E != "-" {
			c.violate(Violation{What: "`in` disagrees with the disjunction of `eq` over the list elements", Rule: inText, RuleHex: hx(inText), Object: obj.Pretty(), ObjProto: obj.String(),
				Demand: "the verdict of " + fmt.Sprintf("%q", orText) + ": " + b.Line(), Go: a.Line() + " " + a.ErrText})
			continue
		}
		if len(inText) > 3000 {
			continue // (C08 compares the engine with itself; the model is asked about rules of ordinary size only)
		}
		ans := c.ask1("EVAL\t" + lowerTable([]string{inText}, obj) + "\t" + runeHex(inText) + "\t" + obj.String())
		if ans != "NOLOWER" && (modelField(ans, "v") == "1") != a.V {
			c.drift(Violation{What: "model and engine differ on an `in` rule (C08 itself compares the engine with itself)", Rule: inText, Object: obj.Pretty(), Go: a.Line(), Model: ans})
		}
		c.sample(map[string]string{"in": inText, "expanded": orText, "object": obj.Pretty(), "verdict": strconv.FormatBool(a.V)})
	}
}

// ---------- C09 ----------

// semverRef: semver.org 2.0.0 precedence with unbounded numeric components (independent of blang/semver and of the Lean model).
type svRef struct {
	nums [3]*big.Int
	pre  []string
}

func isDigits(s string) bool {
	if s == "" {
		return false
	}
	for i := 0; i < len(s); i++ {
		if s[i] < '0' || s[i] > '9' {
			return false
		}
	}
	return true
}

func isAlnumHy(s string) bool {
	if s == "" {
		return false
	}
	for i := 0; i < len(s); i++ {
		ch := s[i]
		if !(ch >= '0' && ch <= '9' || ch >= 'a' && ch <= 'z' || ch >= 'A' && ch <= 'Z' || ch == '-') {
			return false
		}
	}
	return true
}

func parseSvRef(s string) (*svRef, bool) {
	core := s
	if i := strings.IndexByte(core, '+'); i >= 0 {
		for _, b := range strings.Split(core[i+1:], ".") {
			if !isAlnumHy(b) {
				return nil, false
			}
		}
		core = core[:i]
	}
	var pre []string
	if i := strings.IndexByte(core, '-'); i >= 0 {
		pre = strings.Split(core[i+1:], ".")
		for _, p := range pre {
			if !isAlnumHy(p) {
				return nil, false
			}
			if isDigits(p) && len(p) > 1 && p[0] == '0' {
				return nil, false
			}
		}
		core = core[:i]
	}
	parts := strings.Split(core, ".")
	if len(parts) != 3 {
		return nil, false
	}
	v := &svRef{pre: pre}
	for i, p := range parts {
		if !isDigits(p) || (len(p) > 1 && p[0] == '0') {
			return nil, false
		}
		v.nums[i], _ = new(big.Int).SetString(p, 10)
	}
	return v, true
}

func cmpSvRef(a, b *svRef) int {
	for i := 0; i < 3; i++ {
		if c := a.nums[i].Cmp(b.nums[i]); c != 0 {
			return c
		}
	}
	switch {
	case len(a.pre) == 0 && len(b.pre) == 0:
		return 0
	case len(a.pre) == 0:
		return 1
	case len(b.pre) == 0:
		return -1
	}
	for i := 0; i < len(a.pre) && i < len(b.pre); i++ {
		x, y := a.pre[i], b.pre[i]
		xd, yd := isDigits(x), isDigits(y)
		switch {
		case xd && yd:
			xi, _ := new(big.Int).SetString(x, 10)
			yi, _ := new(big.Int).SetString(y, 10)
			if c := xi.Cmp(yi); c != 0 {
				return c
			}
		case xd:
			return -1
		case yd:
			return 1
		default:
			if x != y {
				if x < y {
					return -1
				}
				return 1
			}
		}
	}
	switch {
	case len(a.pre) < len(b.pre):
		return -1
	case len(a.pre) > len(b.pre):
		return 1
	}
	return 0
}

func hasHugeComponent(s string) bool {
	lim, _ := new(big.Int).SetString("18446744073709551616", 10)
	f := func(r rune) bool { return r < '0' || r > '9' }
	for _, p := range strings.FieldsFunc(s, f) {
		if v, ok := new(big.Int).SetString(p, 10); ok && v.Cmp(lim) >= 0 {
			return true
		}
	}
	return false
}

func checkC09(c *Ctx) {
	c.Res.Rule = "single comparisons with a version literal X.Y.Z (multi-digit components, 2^64 boundary) under the six relational operators in every spelling; attribute = valid semantic versions near the literal (bumped components, pre-release lists mixing numeric and alphanumeric identifiers, build metadata), near-misses (`1.0`, `v1.0.0`, `1.0.0.`, leading zeros, empty identifiers, blanks), Stringers and other types; expected verdict from an independent semver.org precedence with unbounded integers; non-trivial = distinct (literal, operator, attribute) where the attribute is a valid semantic version"
	n := c.budget(25000, 900000)
	var batch []*leafCase
	prev := &pairMem{}
	judge := func() {
		c.evalLeafBatch(batch)
		for _, lc := range batch {
			c.Res.Evaluations++
			lit := lc.leaf.Lit.Text
			a := lc.attr
			expected := false
			valid := false
			if a != nil && a.K == AVStr {
				if av, ok := parseSvRef(a.S); ok {
					lv, _ := parseSvRef(lit)
					valid = true
					expected = relBig(lc.leaf.Op, cmpSvRef(av, lv))
				}
			}
			if valid {
				c.count("attr_valid_semver")
				c.nontrivial(lit, strconv.Itoa(lc.leaf.Op), a.S)
			} else {
				c.count("attr_other")
			}
			c.count("op_" + opSym[lc.leaf.Op])
			if lc.goObs.V != expected || lc.goObs.E != "-" {
				v := lc.viol("version comparison disagrees with semantic-version precedence", fmt.Sprintf("verdict %v, no error (attribute %s, literal %s)", expected, a.PrettyOrAbsent(), lit))
				if valid && (hasHugeComponent(lit) || hasHugeComponent(a.S)) && lc.goObs.E == "-" && !lc.goObs.V {
					v.Key = "C09:numeric-component-not-below-2^64"
				}
				c.violate(v)
				continue
			}
			if (modelField(lc.model, "v") == "1") != lc.goObs.V {
				if valid && (hasHugeComponent(lit) || hasHugeComponent(a.S)) {
					// beyond 2^64 the model follows the library's 64-bit limit (known finding); an engine that agrees with
					// the unbounded oracle there is not wrong
					c.count("engine_agrees_with_the_unbounded_oracle_beyond_2^64")
				} else {
					c.internal("Lean model disagrees with the engine on a version comparison: " + lc.text + " on " + lc.obj.Pretty() + " -> " + lc.model)
				}
			}
			c.pairCheck(prev, lc, expected, "version comparison disagrees with semantic-version precedence")
			c.sample(map[string]string{"rule": lc.text, "object": lc.obj.Pretty(), "verdict": strconv.FormatBool(expected)})
		}
		batch = batch[:0]
	}
	// validation of the transcription of blang/semver (Parse + Compare) against the library itself
	{
		var lines, want []string
		pool := append(append([]string{}, verPool...), semverNear...)
		for i := 0; i < c.budget(3000, 180000); i++ {
			a := pick(c.R, pool) + pick(c.R, semverSuffix)
			b := pick(c.R, pool) + pick(c.R, semverSuffix)
			if c.R.Chance(1, 3) {
				b = a
			}
			w := "err"
			if va, e1 := semver.Make(a); e1 == nil {
				if vb, e2 := semver.Make(b); e2 == nil {
					w = []string{"lt", "eq", "gt"}[va.Compare(vb)+1]
				}
			}
			lines = append(lines, "SEMVER\t"+hx(a)+"\t"+hx(b))
			want = append(want, w)
		}
		ans := c.ask(lines)
		bad := 0
		for i := range lines {
			got := ans[i]
			if got == "errA" || got == "errB" {
				got = "err"
			}
			if got != want[i] && bad < 5 {
				bad++
				c.internal("model of blang/semver disagrees with the library: " + lines[i] + " -> model " + ans[i] + ", library " + want[i])
			}
		}
		c.Res.Dist["model_validation_cases"] = len(lines)
		c.Res.Notes = append(c.Res.Notes, fmt.Sprintf("model validation: %d version pairs against blang/semver v3.5.1 (Make + Compare)", len(lines)))
	}
	for _, w := range []struct{ text, a string }{{"x gt 1.9.0", "1.10.0"}, {"x lt 1.0.0", "1.0.0-beta"}, {"x eq 1.0.0", "1.0.0+build"}, {"x eq 1.0.0", "1.0"}, {"x eq 1.0.0", "v1.0.0"}, {"x eq 1.0.0", "1.0.0."}, {"x gt 1.0.0", "1.01.0"}, {"x eq 1.0.0", "01.0.0"}, {"x lt 1.0.0", "1.0.0-alpha.1"}, {"x gt 1.0.0-x", "1.0.0"}} {
		if strings.Contains(w.text, "-x") {
			continue
		}
		lf := parseLeafForCorpus(w.text)
		o := avObj()
		o.Set("x", avStr(w.a))
		batch = append(batch, &leafCase{leaf: lf, text: w.text, obj: o})
	}
	judge()
	for i := 0; i < n && !c.full(); i++ {
		lf := &Node{T: NCmp, Path: genPath(c.R, 3), Op: 13 + c.R.Intn(6), Lit: genLit(c.R, "ver")}
		batch = append(batch, c.mkLeafCase(lf, func(idc *int) *AV {
			if c.R.Chance(1, 25) {
				return nil
			}
			return nearValue(c.R, lf, idc)
		}, 20))
		if len(batch) >= 500 {
			judge()
		}
	}
	judge()
}

// ---------- C10 ----------

func checkC10(c *Ctx) {
	c.Res.Rule = "`p pr`, `p eq|ne null`, `p eq|ne true|false` with paths of 1-5 segments; the object holds at the path every value class (false, 0, \"\", empty object, nil, typed nil pointer, bool, numbers, strings, Stringers, slices ...) or misses it at a random depth (missing key or explicit nil parent); stand-alone and as the second operand of a compound whose first operand resolves another attribute; expected verdict from the statement; non-trivial = distinct (rule shape, value class, depth at which the path ends)"
	n := c.budget(25000, 600000)
	for i := 0; i < n && !c.full(); i++ {
		path := genPath(c.R, 5)
		var lf *Node
		switch c.R.Intn(3) {
		case 0:
			lf = &Node{T: NPres, Path: path}
		case 1:
			lf = &Node{T: NCmp, Path: path, Op: 13 + c.R.Intn(2), Lit: Lit{Kind: "null", Text: "null"}}
		default:
			lf = &Node{T: NCmp, Path: path, Op: 13 + c.R.Intn(2), Lit: genLit(c.R, "bool")}
		}
		// build the object
		obj := avObj()
		cur := obj
		cut := len(path)
		if c.R.Chance(3, 10) {
			cut = c.R.Intn(len(path))
		}
		class := "value"
		for j := 0; j < len(path); j++ {
			if j == cut {
				if c.R.Chance(1, 2) {
					cur.Set(path[j], avNull())
					class = "nil-parent"
				} else {
					class = "missing"
				}
				break
			}
			if j == len(path)-1 {
				var v *AV
				switch c.R.Intn(14) {
				case 0:
					v = &AV{K: AVBool, B: false}
				case 1:
					v = &AV{K: AVBool, B: true}
				case 2:
					v = avInt(0)
				case 3:
					v = avStr("")
				case 4:
					v = avObj()
				case 5:
					v = avNull()
				case 6:
					v = &AV{K: AVOther, Tag: 4}
				case 7:
					v = avFloat(0)
				case 8:
					v = avStr(pick(c.R, []string{"true", "false", "null"}))
				case 9:
					v = &AV{K: AVOther, Tag: c.R.Intn(len(otherNames))}
				case 10:
					v = &AV{K: AVStringer, ID: 1, S: "true"}
				case 11:
					v = avInt(1)
				case 12:
					v = &AV{K: AVInt64, I: 0}
				default:
					v = avFloat(math.NaN())
				}
				class = fmt.Sprintf("kind%d", v.K)
				if v.K == AVOther {
					class = "other:" + otherNames[v.Tag]
				}
				cur.Set(path[j], v)
				break
			}
			nx := avObj()
			cur.Set(path[j], nx)
			cur = nx
		}
		// the same nested object also under other keys of the root (one Go map at several places)
		if len(path) > 1 && c.R.Chance(1, 6) {
			if sub := obj.Get(path[0]); sub != nil && sub.K == AVObj {
				obj.Set("aa_alias", sub)
				if c.R.Chance(1, 2) {
					obj.Set("zz_alias", sub)
				}
				c.count("with_aliased_nested_object")
			}
		}
		if c.R.Chance(1, 3) {
			addDecoys(c.R, obj, [][]string{path}, func() *AV {
				return pick(c.R, []*AV{avInt(1), {K: AVBool, B: true}, {K: AVBool, B: false}, avStr("x"), avInt(0)})
			})
			c.count("with_decoy_keys")
		}
		a, _ := denote(obj, path)
		var expected bool
		switch {
		case lf.T == NPres:
			expected = a != nil
		case lf.Lit.Kind == "null":
			expected = (a == nil) == (lf.Op == 13)
		default:
			want := lf.Lit.Text == "true"
			if a != nil && a.K == AVBool {
				expected = (a.B == want) == (lf.Op == 13)
			}
		}
		rule := lf
		inCompound := c.R.Chance(4, 10)
		if lf.T == NCmp && c.R.Chance(1, 6) {
			// the comparison and its complement (or itself again) on the same attribute, joined by or / and: for a non-bool
			// attribute `flag eq true` and `flag ne true` are BOTH false, so their disjunction is false
			other := &Node{T: NCmp, Path: lf.Path, Op: lf.Op, Lit: lf.Lit}
			if c.R.Chance(3, 4) {
				other.Op = 27 - lf.Op // 13 <-> 14
			}
			expOther := expected
			if other.Op != lf.Op {
				switch {
				case lf.Lit.Kind == "null":
					expOther = !expected
				default:
					expOther = false
					if a != nil && a.K == AVBool {
						expOther = !expected
					}
				}
			}
			or := c.R.Chance(1, 2)
			if c.R.Chance(1, 2) {
				rule = &Node{T: NLogic, Or: or, L: lf, R: other}
			} else {
				rule = &Node{T: NLogic, Or: or, L: other, R: lf}
			}
			if or {
				expected = expected || expOther
			} else {
				expected = expected && expOther
			}
			inCompound = false
			c.count("comparison_and_its_complement_on_one_attribute")
		}
		if inCompound && c.R.Chance(1, 3) {
			// a first operand whose path breaks off BELOW an existing parent (the parent survives on whatever the visitor
			// keeps of the walk), and that parent holds a key named like the attribute of the second operand with a value of
			// another presence / nullness / truth: the second operand must still be resolved from the top of the object
			inner := avObj()
			var decoy *AV
			switch {
			case a == nil:
				decoy = pick(c.R, []*AV{{K: AVBool, B: true}, {K: AVBool, B: false}, avInt(0)})
			case a.K == AVBool:
				decoy = pick(c.R, []*AV{{K: AVBool, B: !a.B}, avNull()})
			default:
				decoy = pick(c.R, []*AV{avNull(), {K: AVBool, B: true}, {K: AVBool, B: false}})
			}
			inner.Set(path[0], decoy)
			inner.Set("other", avInt(1))
			obj.Set("hh9", inner)
			deep := []string{"hh9", "gone", "q"}
			if c.R.Chance(1, 3) {
				deep = append(deep, "r")
			}
			if c.R.Chance(1, 2) {
				first := &Node{T: NPres, Path: deep}
				rule = &Node{T: NLogic, Or: true, L: first, R: lf}
			} else {
				first := &Node{T: NCmp, Path: deep, Op: 13, Lit: Lit{Kind: "null", Text: "null"}}
				rule = &Node{T: NLogic, Or: false, L: first, R: lf}
			}
			inCompound = false
			c.count("after_a_path_that_breaks_off_below_an_existing_parent")
		}
		if inCompound {
			// a first operand that is true and leaves a non-nil left operand behind
			obj.Set("zz9", avInt(1))
			first := &Node{T: NCmp, Path: []string{"zz9"}, Op: 13, Lit: Lit{Kind: "long", Text: "1"}}
			rule = &Node{T: NLogic, Or: false, L: first, R: lf}
		}
		text := c.style(c.R.Chance(1, 4)).Render(rule)
		poison := poisonObjects(c.R, rule)
		if poison != nil {
			c.count("on_reused_evaluator")
		}
		got := evalOn(text, obj.GoMap(), poison)
		c.Res.Evaluations++
		c.nontrivial(lf.Lit.Kind, strconv.Itoa(lf.Op), strconv.Itoa(lf.T), class, strconv.Itoa(len(path)), strconv.Itoa(cut), strconv.FormatBool(inCompound))
		c.count("class_" + class)
		if got.V != expected || got.E != "-" {
			c.violate(Violation{What: "presence / null / boolean test does not mean what it says", Rule: text, RuleHex: hx(text), Object: obj.Pretty(), ObjProto: obj.String(),
				Demand: fmt.Sprintf("verdict %v, no error (the path denotes %s)", expected, a.PrettyOrAbsent()), Go: got.Line() + " " + got.ErrText})
			continue
		}
		if i%4 == 0 {
			ans := c.ask1("EVAL\t-\t" + runeHex(text) + "\t" + obj.String())
			if (modelField(ans, "v") == "1") != expected {
				c.internal("Lean model disagrees with the statement-derived oracle: " + text + " on " + obj.Pretty() + " -> " + ans)
			}
		}
		c.sample(map[string]string{"rule": text, "object": obj.Pretty(), "verdict": strconv.FormatBool(expected)})
	}
}

// ---------- C18 ----------

type sixResult [6]bool // eq ne gt lt ge le

func sixFromRules(c *Ctx, path []string, lit Lit, m map[string]interface{}) (sixResult, bool) {
	var r sixResult
	for i := 0; i < 6; i++ {
		lf := &Node{T: NCmp, Path: path, Op: 13 + i, Lit: lit}
		text := c.style(c.R.Chance(1, 2)).Render(lf)
		// now and then on an evaluator that has already processed other objects (among them one that breaks the path off
		// at a scalar): the order is a property of the rule and the object, not of the evaluator's past
		o := evalOn(text, m, poisonObjects(c.R, lf))
		if o.E != "-" {
			return r, false
		}
		r[i] = o.V
		if c.R.Chance(1, 4) && len(o.Calls) == 0 {
			// the same comparison through the one-shot entry point of the root package: the order must not depend on it
			if rv, re, resc := rulesEvaluate(text, m); resc == "" && (rv != o.V || re != "-") {
				c.violate(Violation{What: "rules.Evaluate gives a comparison another outcome than NewEvaluator+Process", Rule: text, RuleHex: hx(text),
					Object: fmt.Sprintf("%v", snap(m)), Demand: "verdict " + strconv.FormatBool(o.V) + ", no error", Go: fmt.Sprintf("rules.Evaluate -> (%v, err=%s)", rv, re)})
				return r, false
			}
		}
	}
	return r, true
}

func sixDirect(op parser.Operation, left, right interface{}) (r sixResult, ok bool) {
	defer func() {
		if recover() != nil {
			ok = false
		}
	}()
	fns := []func(parser.Operand, parser.Operand) (bool, error){op.EQ, op.NE, op.GT, op.LT, op.GE, op.LE}
	for i, f := range fns {
		v, _ := f(left, right)
		r[i] = v
	}
	return r, true
}

func lawsOK(r sixResult) string {
	eq, ne, gt, lt, ge, le := r[0], r[1], r[2], r[3], r[4], r[5]
	if !eq && !ne && !gt && !lt && !ge && !le {
		return ""
	}
	cnt := 0
	for _, b := range []bool{lt, eq, gt} {
		if b {
			cnt++
		}
	}
	switch {
	case cnt != 1:
		return fmt.Sprintf("exactly one of lt/eq/gt must hold, got lt=%v eq=%v gt=%v", lt, eq, gt)
	case ne != !eq:
		return "ne must be the negation of eq"
	case le != (lt || eq):
		return "le must be lt or eq"
	case ge != (gt || eq):
		return "ge must be gt or eq"
	}
	return ""
}

func checkC18(c *Ctx) {
	c.Res.Rule = "for each ordered literal kind (integer, decimal, string, version): an attribute value and 2-3 literals from boundary pools (all pairs of the pools in thorough, random beyond); the six single-comparison rules are evaluated by the engine on the same object and the exported Operation methods are called directly with the same operands; laws: trichotomy, ne = not eq, le = lt or eq, ge = gt or eq, monotonicity in the literal, all-false when not comparable; no reference interpreter; non-trivial = distinct (attribute, literal pair) on which the attribute is comparable (some operator true)"
	n := c.budget(16000, 360000)
	litOrder := func(kind string, a, b Lit) (int, bool) {
		switch kind {
		case "long":
			x, ok1 := parseLongText(a.Text)
			y, ok2 := parseLongText(b.Text)
			if !ok1 || !ok2 {
				return 0, false
			}
			return big.NewInt(x).Cmp(big.NewInt(y)), true
		case "dbl":
			x, e1 := strconv.ParseFloat(a.Text, 64)
			y, e2 := strconv.ParseFloat(b.Text, 64)
			if e1 != nil || e2 != nil {
				return 0, false
			}
			switch {
			case x < y:
				return -1, true
			case x > y:
				return 1, true
			}
			return 0, true
		case "str":
			x, y := strings.ToLower(a.Text[1:len(a.Text)-1]), strings.ToLower(b.Text[1:len(b.Text)-1])
			return strings.Compare(x, y), true
		case "ver":
			x, ok1 := parseSvRef(a.Text)
			y, ok2 := parseSvRef(b.Text)
			if !ok1 || !ok2 || hasHugeComponent(a.Text) || hasHugeComponent(b.Text) {
				return 0, false
			}
			return cmpSvRef(x, y), true
		}
		return 0, false
	}
	goLit := func(kind string, l Lit) (interface{}, bool) {
		switch kind {
		case "long":
			v, ok := parseLongText(l.Text)
			return int(v), ok
		case "dbl":
			v, err := strconv.ParseFloat(l.Text, 64)
			return v, err == nil
		case "str":
			return string([]rune(l.Text[1 : len(l.Text)-1])), true
		default:
			return l.Text, true
		}
	}
	ops := map[string]parser.Operation{"long": &parser.IntOperation{}, "dbl": &parser.FloatOperation{}, "str": &parser.StringOperation{}, "ver": &parser.VersionOperation{}}
	for i := 0; i < n && !c.full(); i++ {
		kind := pick(c.R, []string{"long", "dbl", "str", "ver"})
		path := genPath(c.R, 4)
		l1, l2 := genLit(c.R, kind), genLit(c.R, kind)
		lf := &Node{T: NCmp, Path: path, Op: 13, Lit: l1}
		idc := 0
		attr := nearValue(c.R, lf, &idc)
		if attr.K == AVStringerPanic || (attr.K == AVFloat && math.IsNaN(attr.F)) {
			continue
		}
		obj := avObj()
		cur := obj
		for j := 0; j < len(path)-1; j++ {
			nx := avObj()
			cur.Set(path[j], nx)
			cur = nx
		}
		cur.Set(path[len(path)-1], attr)
		m := obj.GoMap()
		c.Res.Evaluations++
		c.count("kind_" + kind)
		r1, ok1 := sixFromRules(c, path, l1, m)
		r2, ok2 := sixFromRules(c, path, l2, m)
		if !ok1 || !ok2 {
			c.count("skipped_unrepresentable_literal")
			continue
		}
		report := func(what string, lit Lit, r sixResult, via string) {
			c.violate(Violation{What: "the six operators of one family are not a consistent order (" + via + ")", Rule: strings.Join(path, ".") + " <op> " + lit.Text, Object: obj.Pretty(), ObjProto: obj.String(),
				Demand: what, Go: fmt.Sprintf("eq=%v ne=%v gt=%v lt=%v ge=%v le=%v", r[0], r[1], r[2], r[3], r[4], r[5]), Extra: map[string]string{"literal1": l1.Text, "literal2": l2.Text, "via": via}})
		}
		if msg := lawsOK(r1); msg != "" {
			report(msg, l1, r1, "rules")
			continue
		}
		if msg := lawsOK(r2); msg != "" {
			report(msg, l2, r2, "rules")
			continue
		}
		comparable := r1[0] || r1[1]
		if comparable {
			c.nontrivial(attr.String(), l1.Text, l2.Text)
		}
		// "for an attribute not comparable with the literal all six are false": comparability judged here, not by the engine
		notComparable := false
		switch kind {
		case "long":
			notComparable = !(attr.K == AVInt || attr.K == AVInt32 || attr.K == AVInt64 || attr.K == AVFloat)
		case "dbl":
			notComparable = !(attr.K == AVInt || attr.K == AVFloat || attr.K == AVInt32 || attr.K == AVInt64)
		case "str":
			notComparable = !(attr.K == AVStr || attr.K == AVStringer)
		case "ver":
			if attr.K != AVStr {
				notComparable = true
			} else if _, ok := parseSvRef(attr.S); !ok {
				notComparable = true
			}
		}
		if notComparable {
			c.count("attribute_not_comparable_by_the_reference")
			for _, rr := range []struct {
				l Lit
				r sixResult
			}{{l1, r1}, {l2, r2}} {
				if rr.r[0] || rr.r[1] || rr.r[2] || rr.r[3] || rr.r[4] || rr.r[5] {
					report("the attribute is not comparable with a "+kind+" literal (not of the family's type / not a semantic version), so all six operators must be false", rr.l, rr.r, "rules")
					break
				}
			}
		}
		if ord, ok := litOrder(kind, l1, l2); ok && comparable && (r2[0] || r2[1]) {
			lo, hi, rlo, rhi := l1, l2, r1, r2
			if ord > 0 {
				lo, hi, rlo, rhi = l2, l1, r2, r1
			}
			if ord != 0 {
				if rlo[3] && !rhi[3] {
					report(fmt.Sprintf("monotone: a lt %s holds, so a lt %s must hold", lo.Text, hi.Text), hi, rhi, "rules")
					continue
				}
				if rhi[2] && !rlo[2] {
					report(fmt.Sprintf("monotone: a gt %s holds, so a gt %s must hold", hi.Text, lo.Text), lo, rlo, "rules")
					continue
				}
			} else if rlo != rhi {
				report("equal literals must give equal answers", hi, rhi, "rules")
				continue
			}
		}
		// direct calls of the exported Operation implementations
		left := attr.Go(map[*AV]interface{}{})
		for _, l := range []Lit{l1, l2} {
			gv, ok := goLit(kind, l)
			if !ok {
				continue
			}
			d, okd := sixDirect(ops[kind], left, gv)
			if !okd {
				continue
			}
			if msg := lawsOK(d); msg != "" {
				report(msg, l, d, "direct call of "+fmt.Sprintf("%T", ops[kind]))
				break
			}
		}
		if i < 4 {
			c.sample(map[string]string{"attribute": attr.Pretty(), "literal1": l1.Text, "literal2": l2.Text, "six(lit1)": fmt.Sprint(r1), "six(lit2)": fmt.Sprint(r2)})
		}
	}
}
