package main

// L-text layer: C20 (shipped lexer/parser vs the grammar model), C05 (malformed rules rejected), C15 (respelling).

import (
	"fmt"
	"strconv"
	"strings"
)

func init() {
	checks["C20"] = checkC20
	checks["C05"] = checkC05
	checks["C15"] = checkC15
}

var tokenAlphabet = []string{" ", "\n", "(", ")", "[", "]", ",", ".", "-", "\"", "\\", "pr", "not", "NOT", "and", "or", "AND", "OR", "true", "false", "null", "eq", "EQ", "==", "!=", "<", ">", "<=", ">=", "=", "!", "in", "IN", "co", "sw", "ew",
	"x", "y", "order", "e5", "E", "1", "0", "01", "12", "1.5", "1.2.3", "1e5", "e+5", "E-2", "1.0e3", "\"a\"", "\"\"", "\"a b\"", "~", "\t", "é", "\\n", "\\u00e9", ":", "_", "a-b", "1.", ".5", "--", "  ", ", ", " ,"}

func (c *Ctx) mutate(s string) string {
	rs := []rune(s)
	k := 1 + c.R.Intn(3)
	for i := 0; i < k; i++ {
		pos := c.R.Intn(len(rs) + 1)
		switch c.R.Intn(5) {
		case 0: // delete
			if len(rs) > 0 {
				p := c.R.Intn(len(rs))
				rs = append(rs[:p:p], rs[p+1:]...)
			}
		case 1: // insert a token-ish piece
			ins := []rune(pick(c.R, tokenAlphabet))
			rs = append(rs[:pos:pos], append(ins, rs[pos:]...)...)
		case 2: // replace one char
			if len(rs) > 0 {
				p := c.R.Intn(len(rs))
				rs[p] = []rune(pick(c.R, tokenAlphabet))[0]
			}
		case 3: // swap
			if len(rs) > 1 {
				p := c.R.Intn(len(rs) - 1)
				rs[p], rs[p+1] = rs[p+1], rs[p]
			}
		case 4: // duplicate a slice
			if len(rs) > 0 {
				p := c.R.Intn(len(rs))
				q := p + c.R.Intn(min(4, len(rs)-p)+1)
				dup := append([]rune(nil), rs[p:q]...)
				rs = append(rs[:q:q], append(dup, rs[q:]...)...)
			}
		}
	}
	return string(rs)
}

func (c *Ctx) tokenSoup() string {
	n := 1 + c.R.Intn(12)
	var sb strings.Builder
	for i := 0; i < n; i++ {
		sb.WriteString(pick(c.R, tokenAlphabet))
		if c.R.Chance(1, 2) {
			sb.WriteString(" ")
		}
	}
	return sb.String()
}

func (c *Ctx) randomBytes() string {
	n := c.R.Intn(40)
	b := make([]byte, n)
	for i := range b {
		switch c.R.Intn(4) {
		case 0:
			b[i] = byte(c.R.Intn(256))
		default:
			b[i] = byte(32 + c.R.Intn(95))
		}
	}
	return string(b)
}

// genText returns a string, its family and (for sentences) the tree it was rendered from.
func (c *Ctx) genText(maxLeaves int) (string, string, *Node) {
	roll := c.R.Intn(100)
	t := genTree(c.R, 1+c.R.Intn(maxLeaves), 4, nil)
	s := c.style(c.R.Chance(1, 4)).Render(t)
	switch {
	case roll < 45:
		return s, "sentence", t
	case roll < 52:
		return c.nearMiss(t), "near_miss", t
	case roll < 80:
		return c.mutate(s), "mutant", t
	case roll < 92:
		return c.tokenSoup(), "soup", t
	default:
		return c.randomBytes(), "bytes", t
	}
}

func runeHex(s string) string { return hx(string([]rune(s))) }

// nearMiss: a well-formed rule with ONE lexical near miss planted at a place random edits rarely hit - white space other
// than a blank at a blank's place (CR LF, tab, CR), a sign / leading zero / padding inside a list (short or long), an
// exponent with leading zeros. The model decides whether the result is still a sentence.
func (c *Ctx) nearMiss(t *Node) string {
	r := c.R
	s := c.style(true).Render(t)
	switch r.Intn(6) {
	case 5:
		// characters at the very beginning or end of the text that a careless trim might take for white space (control
		// characters, zero-width and byte-order marks) or that strings.TrimSpace really removes (NBSP, NEL, U+2028, U+3000 -
		// then the text stays a sentence): alone or next to real blanks / newlines
		odd := pick(r, []string{"\x00", "\x01", "\x08", "\x0e", "\x1b", "\x1f", "\x7f", "\u200b", "\ufeff", "\u00a0", "\u0085", "\u2028", "\u3000", "\u180e", "\x1c"})
		pad := pick(r, []string{"", " ", "\n", " \n", "\t"})
		switch r.Intn(4) {
		case 0:
			return odd + pad + s
		case 1:
			return s + pad + odd
		case 2:
			return pad + odd + pad + s + pad
		default:
			return odd + s + odd
		}
	case 4:
		// a name starting with a character names cannot start with; two blanks where the grammar allows one or two
		switch r.Intn(3) {
		case 0:
			return pick(r, []string{"_", "-", ":", "9"}) + s
		case 1:
			return strings.Replace(s, " (", "  (", 1)
		default:
			return strings.Replace(s, " ", "  ", 1)
		}
	case 0:
		// after one of the blanks
		var idx []int
		for i := 0; i < len(s); i++ {
			if s[i] == ' ' {
				idx = append(idx, i)
			}
		}
		if len(idx) == 0 {
			return s + "\r\n"
		}
		i := pick(r, idx)
		return s[:i+1] + pick(r, []string{"\r\n", "\r", "\t", "\n\r\n", "\r\n\r\n", "\u00a0", "\v"}) + s[i+1:]
	case 1:
		// a list of integers (short or long) with one near-miss element or separator
		n := pick(r, []int{2, 5, 66, 70, 300})
		el := make([]string, n)
		for i := range el {
			el[i] = strconv.Itoa(r.Intn(1000))
		}
		j := r.Intn(n)
		el[j] = pick(r, []string{"-5", "+5", "007", "5 ", " 5", "5\t", "\t5", "0x5", "5.", "1_000", "-0", "5\n", "05"})
		sep := ","
		if r.Chance(1, 3) {
			sep = pick(r, []string{" ,", ",\t", ",\n", ", ", ",  "})
		}
		pre := "x in ["
		if r.Chance(1, 3) {
			pre = s + " or x in ["
		}
		return pre + strings.Join(el, sep) + "]"
	case 2:
		// an exponent with leading zeros or odd signs, alone and in a list
		d := pick(r, []string{"1.5e-05", "2.0E+007", "1.0e05", "1.5e+0", "1.5e00", "2.5E-00", "1.0e--5", "1.0e+-5", "1e+05", "1e-05"})
		if r.Chance(1, 2) {
			return "x lt " + d
		}
		return s + " and y in [0.1, " + d + "]"
	default:
		// the same for lists of strings / decimals: padding before the comma or next to the brackets
		kind := pick(r, []string{"dlist", "slist"})
		l := genLit(r, kind)
		j := r.Intn(len(l.Elems))
		l.Elems[j] = pick(r, []string{" ", "\t", ""}) + l.Elems[j] + pick(r, []string{" ", "\t", " \n"})
		return "x in [" + strings.Join(l.Elems, ",") + "]"
	}
}

var corpusTexts = []string{
	"order eq 1", "or", "x eq 1.2.3", "x eq 1.2", "x <= 1", "x eq 1e5", "x eq 1e+5", "x ~ 1", "e5 eq 1", "E0 pr", "a.e-5 pr", "x eq -2E7",
	"x eq 1 AND y eq 2", "x eq 1 garbage", "x lt 1e5", "x eq 01", "x IN [1 , 2]", "x eq 1 and(y eq 1)", "not x eq 1", "x eq 1\n", "x eq 1 \n\nand y eq 2", "x eq 1 \nand y eq 2",
	"x in [1.5, 2]", "x in [1, 2.5]", "x in [1,2]", "x in [\"a\", \"b\"]", "x eq \"a\\sb\"", "x eq \"a\\nb\"", "x eq \"a\tb\"", "x eq 1.5e10", "x eq -1.0e-300",
	"( (a pr))", "not ( (a pr))", "not((a pr))", "NOT (a pr)", "(a pr)", "a pr and b pr or c pr", "a pr and (b pr or c pr)", "", " ", "x", "x eq", "x eq 1 and", "(x eq 1", "x eq 1)", "x.y.z eq null", "x. y pr", "x .y pr",
	"x eq true", "x eq TRUE", "x pr", "x PR", "x eq \"\"", "x eq \"", "x in []", "x in [1,]", "x in [1", "x eq - 1", "x eq -1", "x eq --1", "x eq -1.5", "x eq -1.2.3", "x eq 1.2.3.4", "x eq 00", "x eq 0", "x eq 0.0", "x eq 0.", "x eq .5",
}

// c20Judge compares the shipped lexer/parser with the model on one string; "" = they agree
func (c *Ctx) c20Judge(str string) (what, demand, gos, ms string) {
	g := goLexParse(str)
	h := runeHex(str)
	ans := c.ask([]string{"LEX\t" + h, "PARSE\t" + h})
	lexA, parA := ans[0], ans[1]
	if g.Panic != "" {
		return "the shipped lexer/parser panicked", "lexer and parser report errors through their listeners", g.Panic, parA
	}
	mLexErr := lexA == "LEXERR"
	if mLexErr != g.LexErr {
		return "lexical-error flag differs from the grammar's token rules", fmt.Sprintf("lexical error expected by the grammar: %v", mLexErr), fmt.Sprintf("lexErr=%v tokens=%s", g.LexErr, g.Tokens), lexA
	}
	if !mLexErr {
		if mt := strings.TrimPrefix(strings.TrimPrefix(lexA, "OK"), " "); mt != g.Tokens {
			return "token stream differs from maximal munch over the grammar's token rules", "tokens " + mt, g.Tokens, mt
		}
	}
	mAccept := strings.HasPrefix(parA, "OK ")
	if mAccept != g.Accept {
		return "accept/reject differs from the grammar", fmt.Sprintf("sentence of JsonQuery.g4: %v", mAccept), fmt.Sprintf("accept=%v", g.Accept), parA
	}
	if mAccept {
		if m := strings.TrimPrefix(parA, "OK "); m != g.Shape {
			return "parse tree differs from the structure the grammar prescribes", m, g.Shape, m
		}
		if o := evalFresh(str, map[string]interface{}{}); o.E == "syn" || o.E == "newerr" {
			return "the engine's entry point rejects a sentence of the grammar", "NewEvaluator + Process report no syntax error for a sentence of JsonQuery.g4", o.Line() + " " + o.ErrText, parA
		}
	}
	return "", "", "", ""
}

// shrinkText deletes characters (and halves) while `bad` still holds
func shrinkText(s string, bad func(string) bool) string {
	rs := []rune(s)
	attempts := 0
	for progress := true; progress && attempts < 400; {
		progress = false
		for size := len(rs) / 2; size >= 1 && !progress; size /= 2 {
			for i := 0; i+size <= len(rs) && attempts < 400; i += size {
				cand := append(append([]rune(nil), rs[:i]...), rs[i+size:]...)
				attempts++
				if bad(string(cand)) {
					rs, progress = cand, true
					break
				}
			}
		}
	}
	return string(rs)
}

func checkC20(c *Ctx) {
	c.Res.Rule = "strings: 45% sentences rendered from random trees of the extracted grammar with random spellings, 35% 1-3 step mutations of sentences, 12% token soup, 8% random bytes; a case is non-trivial and distinct when its string is new and it is a sentence with >= 2 tokens or a string on which lexer or parser must report an error after at least one good token"
	n := c.budget(25000, 1200000)
	type tc struct {
		s, fam string
		t      *Node
		g      GoText
	}
	var batch []tc
	flush := func() {
		var lines []string
		for _, x := range batch {
			h := runeHex(x.s)
			lines = append(lines, "LEX\t"+h, "PARSE\t"+h)
		}
		ans := c.ask(lines)
		for i, x := range batch {
			lexA, parA := ans[2*i], ans[2*i+1]
			c.Res.Evaluations++
			c.count("family_" + x.fam)
			g := x.g
			report := func(what, demand, gos, ms string) {
				small := shrinkText(x.s, func(t string) bool { w, _, _, _ := c.c20Judge(t); return w == what })
				extra := map[string]string{"family": x.fam}
				if small != x.s {
					extra["shrunk_from"] = x.s
					_, demand, gos, ms = c.c20Judge(small)
				}
				c.violate(Violation{What: what, Rule: small, RuleHex: hx(small), Demand: demand, Go: gos, Model: ms, Extra: extra})
			}
			if g.Panic != "" {
				report("the shipped lexer/parser panicked", "lexer and parser report errors through their listeners", g.Panic, parA)
				continue
			}
			mLexErr := lexA == "LEXERR"
			if mLexErr != g.LexErr {
				report("lexical-error flag differs from the grammar's token rules", fmt.Sprintf("lexical error expected by the grammar: %v", mLexErr), fmt.Sprintf("lexErr=%v tokens=%s", g.LexErr, g.Tokens), lexA)
				continue
			}
			if !mLexErr {
				mt := strings.TrimPrefix(strings.TrimPrefix(lexA, "OK"), " ")
				if mt != g.Tokens {
					report("token stream differs from maximal munch over the grammar's token rules", "tokens "+mt, g.Tokens, mt)
					continue
				}
			}
			mAccept := strings.HasPrefix(parA, "OK ")
			if mAccept != g.Accept {
				report("accept/reject differs from the grammar", fmt.Sprintf("sentence of JsonQuery.g4: %v", mAccept), fmt.Sprintf("accept=%v", g.Accept), parA)
				continue
			}
			if mAccept {
				ms := strings.TrimPrefix(parA, "OK ")
				if ms != g.Shape {
					report("parse tree differs from the structure the grammar prescribes", ms, g.Shape, ms)
					continue
				}
				if x.fam == "sentence" && x.t != nil && x.t.Shape() != ms {
					c.genStale("generator/model disagree on a generated sentence: " + x.s + " :: " + x.t.Shape() + " vs " + ms)
				}
				// the recogniser as shipped is reached through NewEvaluator: a sentence must not come back as a syntax error
				if o := evalFresh(x.s, map[string]interface{}{}); o.E == "syn" || o.E == "newerr" {
					report("the engine's entry point rejects a sentence of the grammar", "NewEvaluator + Process report no syntax error for a sentence of JsonQuery.g4", o.Line()+" "+o.ErrText, parA)
					continue
				}
				if x.fam == "sentence" && x.t != nil && c.R.Chance(1, 3) {
					// ... and what the entry point evaluates must be the tree the grammar prescribes: the sentence and the
					// canonical spelling of its tree have the same outcome on an object built for that tree
					m := c.zooObject(x.t).GoMap()
					o1, o2 := evalFresh(x.s, m), evalFresh(c.style(true).Render(x.t), m)
					if o1.E != "escaped" && o2.E != "escaped" && o1.E != "panic" && o2.E != "panic" && (o1.V != o2.V || o1.E != o2.E) {
						report("the engine's entry point reads a sentence differently from the tree the grammar prescribes", "the outcome of the canonical spelling of its tree: "+o2.Line(), o1.Line()+" "+o1.ErrText, parA)
						continue
					}
					c.count("evaluated_like_its_canonical_spelling")
				}
				c.count("accepted_by_the_entry_point_too")
				c.count("accepted")
				if strings.Count(g.Tokens, " ") >= 1 {
					c.nontrivial(x.s)
				}
			} else {
				if x.fam == "sentence" {
					c.genStale("generated sentence rejected by the model: " + x.s + " -> " + parA)
				}
				c.count("rejected")
				if mLexErr {
					c.count("lexerr")
				}
				if strings.Count(g.Tokens, " ") >= 1 {
					c.nontrivial(x.s)
				}
			}
			c.sample(map[string]string{"text": x.s, "family": x.fam, "model": parA})
		}
		batch = batch[:0]
	}
	for _, s := range corpusTexts {
		batch = append(batch, tc{s, "corpus", nil, goLexParse(s)})
	}
	flush()
	for i := 0; i < n && !c.full(); i++ {
		s, fam, t := c.genText(8)
		batch = append(batch, tc{s, fam, t, goLexParse(s)})
		if len(batch) >= 500 {
			flush()
		}
	}
	flush()
}

func checkC05(c *Ctx) {
	c.Res.Rule = "rule texts as for C20 (mutants and soups weighted up) each with 3 objects drawn for the sentence it was derived from (so that the well-formed prefix tends to be true); classified by the Lean recogniser on the trimmed text; non-trivial = distinct text that is NOT a sentence and has >= 2 good tokens"
	n := c.budget(10000, 450000)
	type tc struct {
		s, fam string
		objs   []*AV
	}
	var batch []tc
	flush := func() {
		var lines []string
		for _, x := range batch {
			lines = append(lines, "EVAL\t-\t"+runeHex(x.s)+"\tO 0")
		}
		ans := c.ask(lines)
		for i, x := range batch {
			c.Res.Evaluations++
			c.count("family_" + x.fam)
			isSentence := !strings.Contains(ans[i], "e=syn")
			if ans[i] == "NOLOWER" {
				isSentence = true
			}
			if isSentence {
				c.count("sentences")
				continue
			}
			c.count("non_sentences")
			if g := goLexParse(strings.TrimSpace(x.s)); strings.Count(g.Tokens, " ") >= 1 {
				c.nontrivial(x.s)
			}
			c.sample(map[string]string{"text": x.s, "family": x.fam, "classified": "not a sentence"})
			for _, o := range x.objs {
				m := o.GoMap()
				ob := evalFresh(x.s, m)
				rv, re, resc := rulesEvaluate(x.s, m)
				pv, pesc := parserEvaluate(x.s, m)
				bad := ""
				switch {
				case ob.Escaped != "" || resc != "" || pesc != "":
					bad = "a panic escaped: " + ob.Escaped + resc + pesc
				case ob.V || ob.E == "-":
					bad = fmt.Sprintf("NewEvaluator+Process returned verdict=%v err=%s", ob.V, ob.E)
				case rv || re == "-":
					bad = fmt.Sprintf("rules.Evaluate returned verdict=%v err=%s", rv, re)
				case pv:
					bad = "parser.Evaluate returned true"
				}
				if bad == "" {
					// the rejection must not wear off: Reset and repeated calls on the same evaluator
					if ev, err, esc := newEvaluator(x.s); esc == "" && err == nil && ev != nil {
						first := observeProcess(ev, m)
						func() { defer func() { recover() }(); ev.Reset() }()
						second := observeProcess(ev, m)
						if first.V || first.E == "-" || second.V || second.E == "-" {
							bad = fmt.Sprintf("on one evaluator: Process -> (%v, err=%s); Reset(); Process -> (%v, err=%s)", first.V, first.E, second.V, second.E)
						}
					}
				}
				if bad != "" {
					c.violate(Violation{What: "a text that is not a sentence of the grammar was evaluated", Rule: x.s, RuleHex: hx(x.s), Object: o.Pretty(), ObjProto: o.String(),
						Demand: "non-nil error and verdict false from rules.Evaluate and NewEvaluator+Process, false from parser.Evaluate", Go: bad, Model: ans[i], Extra: map[string]string{"family": x.fam}})
					break
				}
			}
		}
		batch = batch[:0]
	}
	// validation of the model's strings.TrimSpace
	{
		var lines, want []string
		for i := 0; i < 2000; i++ {
			s := pick(c.R, []string{" ", "\n", "\t", "\r\n", "\u00a0", "\u2003", "\u0085", "\u3000", "\v\f", "x", "\xff", "\u200b"}) + c.randomBytes() + pick(c.R, []string{" ", "\n", "\t \n", "\u2028", "\u00a0 ", "", "\xe2\x80", "\u1680"})
			lines = append(lines, "TRIM\t"+runeHex(s))
			want = append(want, hx(string([]rune(strings.TrimSpace(s)))))
		}
		ans := c.ask(lines)
		for i := range lines {
			if ans[i] != want[i] {
				c.internal("model of strings.TrimSpace disagrees with Go on " + lines[i] + ": " + ans[i] + " vs " + want[i])
				break
			}
		}
		c.Res.Notes = append(c.Res.Notes, "model validation: 2000 strings against strings.TrimSpace")
	}
	for _, s := range corpusTexts {
		t := genTree(c.R, 2, 2, nil)
		batch = append(batch, tc{s, "corpus", []*AV{{K: AVObj, Keys: []string{"x", "y"}, Vals: []*AV{avInt(1), avInt(2)}}, genObject(c.R, t, ObjOpts{AbsentPct: 20})}})
	}
	flush()
	for i := 0; i < n && !c.full(); i++ {
		t := genTree(c.R, 1+c.R.Intn(5), 3, nil)
		s := c.style(c.R.Chance(1, 3)).Render(t)
		fam := "sentence"
		switch roll := c.R.Intn(100); {
		case roll < 15:
		case roll < 22:
			s, fam = c.nearMiss(t), "near_miss"
		case roll < 55:
			s, fam = c.mutate(s), "mutant"
		case roll < 75:
			// a complete rule followed by something
			s, fam = s+pick(c.R, []string{" garbage", " AND y eq 2", " OR x pr", "e5", " 1", ")", " (", " and", " or ", "\n\nand x pr", ",", " pr", " eq 1", "\tand x pr", " and  x pr", " and\nx pr"}), "suffix"
		case roll < 85:
			s, fam = pick(c.R, []string{"not ", "NOT ", "! ", "(", "not not ", "and "})+s, "prefix"
		case roll < 95:
			s, fam = c.tokenSoup(), "soup"
		default:
			s, fam = c.randomBytes(), "bytes"
		}
		if c.R.Chance(1, 6) {
			s = pick(c.R, []string{" ", "\n", "\t", " ", "\r\n"}) + s + pick(c.R, []string{" ", "\n", "\t \n", " "})
		}
		objs := []*AV{genObject(c.R, t, ObjOpts{AbsentPct: 5}), genObject(c.R, t, ObjOpts{AbsentPct: 5}), genObject(c.R, t, ObjOpts{AbsentPct: 30, NilPct: 10})}
		batch = append(batch, tc{s, fam, objs})
		if len(batch) >= 300 {
			flush()
		}
	}
	flush()
}

// wrapVariant returns a copy of the tree with redundant parentheses around some sub-rules.
func wrapVariant(r *RNG, n *Node, p int) *Node {
	var cp *Node
	switch n.T {
	case NParen:
		cp = &Node{T: NParen, Neg: n.Neg, Q: wrapVariant(r, n.Q, p)}
	case NLogic:
		cp = &Node{T: NLogic, Or: n.Or, L: wrapVariant(r, n.L, p), R: wrapVariant(r, n.R, p)}
	default:
		c2 := *n
		cp = &c2
	}
	for r.Chance(p, 100) {
		cp = &Node{T: NParen, Q: cp}
	}
	return cp
}

// single comparisons with values near the literal, canonical spelling against respelled variants: a fast path for one
// exact spelling shows here
func (c *Ctx) c15LeafStream(n int) {
	for i := 0; i < n && !c.full(); i++ {
		lf := genLeaf(c.R, 2)
		if lf.T == NCmp && c.R.Chance(1, 2) {
			lf.Lit = genLit(c.R, "str")
			lf.Op = 13 + c.R.Intn(2)
		}
		idc := 0
		obj := avObj()
		cur := obj
		for j := 0; j < len(lf.Path)-1; j++ {
			nx := avObj()
			cur.Set(lf.Path[j], nx)
			cur = nx
		}
		if !c.R.Chance(1, 10) {
			cur.Set(lf.Path[len(lf.Path)-1], nearValue(c.R, lf, &idc))
		}
		if len(lf.Path) >= 2 && c.R.Chance(1, 6) {
			// a non-object (or null) where the path expects an object: the failing / absent outcomes must not depend on spelling either
			obj.Set(lf.Path[0], pick(c.R, []*AV{avInt(5), avStr("scalar"), {K: AVBool, B: true}, {K: AVNull}, {K: AVOther, Tag: 0}}))
			c.count("leaf_respelling_non_object_in_path")
		}
		canon := c.style(true).Render(lf)
		m := obj.GoMap()
		base := evalFresh(canon, m)
		for k := 0; k < 4; k++ {
			var vt *Node = lf
			if k >= 2 {
				vt = wrapVariant(c.R, lf, 50)
			}
			vs := c.style(false).Render(vt)
			c.Res.Evaluations++
			c.count("leaf_respelling")
			if vs == canon {
				continue
			}
			c.nontrivial(canon, vs, obj.String())
			got := evalFresh(vs, m)
			if got.Line() != base.Line() {
				c.violate(Violation{What: "a respelled variant of a rule has a different outcome", Rule: vs, RuleHex: hx(vs), Object: obj.Pretty(), ObjProto: obj.String(),
					Demand: "the outcome of the canonical spelling " + fmt.Sprintf("%q", canon) + ": " + base.Line(), Go: got.Line() + " " + got.ErrText, Extra: map[string]string{"canonical": canon}})
				break
			}
		}
	}
}

func checkC15(c *Ctx) {
	c.Res.Rule = "random well-formed rules (1-10 comparisons), each rendered canonically and in 6 respelled variants (every alternative spelling from the extracted grammar, optional blanks, newlines after blanks, blanks after commas, redundant parentheses around random sub-rules) and evaluated on 3 objects; non-trivial = distinct (rule, variant) whose text differs from the canonical text"
	n := c.budget(2000, 120000)
	// one very long rule (beyond 64 KiB) with and without a newline after one of its blanks: size must not make
	// permitted white space significant (engine compared with itself; the model is not asked about texts of this size)
	{
		var sb strings.Builder
		nOps := 5200 + c.R.Intn(1500)
		hit := c.R.Intn(nOps)
		for i := 0; i < nOps; i++ {
			if i > 0 {
				sb.WriteString(" or ")
			}
			fmt.Fprintf(&sb, "k%d eq %d", i%5, i)
		}
		canon := sb.String()
		obj := map[string]interface{}{fmt.Sprintf("k%d", hit%5): hit}
		base := evalFresh(canon, obj)
		first := strings.Index(canon, " ")
		last := strings.LastIndex(canon, " ")
		mid := strings.Index(canon[len(canon)/2:], " ") + len(canon)/2
		for _, v := range []string{canon[:first+1] + "\n" + canon[first+1:], canon[:last+1] + "\n\n" + canon[last+1:], canon[:mid+1] + "\n" + canon[mid+1:], "(" + canon + ")"} {
			got := evalFresh(v, obj)
			c.Res.Evaluations++
			c.count("huge_rule_respelling")
			if got.Line() != base.Line() {
				c.violate(Violation{What: "a respelled variant of a very long rule has a different outcome", Rule: fmt.Sprintf("%d comparisons `k<i mod 5> eq <i>` joined by or, %d bytes, with a newline inserted after the blank at byte %d (or wrapped in parentheses)", nOps, len(v), strings.Index(v, "\n")),
					RuleHex: "", Object: fmt.Sprintf("%v", obj), Demand: "the outcome of the one-line spelling: " + base.Line(), Go: got.Line() + " " + got.ErrText})
				break
			}
		}
	}
	c.c15LeafStream(n * 4)
	for i := 0; i < n && !c.full(); i++ {
		t := genTree(c.R, 1+c.R.Intn(10), 3, nil)
		canon := c.style(true).Render(t)
		objs := []*AV{genObject(c.R, t, ObjOpts{AbsentPct: 10, NilPct: 5, NullParent: 10}), genObject(c.R, t, ObjOpts{AbsentPct: 10}), genObject(c.R, t, ObjOpts{AbsentPct: 40, NilPct: 10, NullParent: 10})}
		var base []Obs
		for _, o := range objs {
			base = append(base, evalFresh(canon, o.GoMap()))
		}
		var lines []string
		var vts []*Node
		var vtexts []string
		for k := 0; k < 6; k++ {
			vt := t
			if k >= 2 {
				vt = wrapVariant(c.R, t, 25)
			}
			vs := c.style(false).Render(vt)
			vts = append(vts, vt)
			vtexts = append(vtexts, vs)
			lines = append(lines, "PARSE\t"+runeHex(vs))
		}
		ans := c.ask(lines)
		for k, vs := range vtexts {
			c.Res.Evaluations++
			if ans[k] != "OK "+vts[k].Shape() {
				c.genStale("model does not read a respelled variant as the tree it was rendered from: " + vs + " -> " + ans[k])
				continue
			}
			if vs != canon {
				c.nontrivial(canon, vs)
			}
			c.count(fmt.Sprintf("variant_kind_%d", k/2))
			for j, o := range objs {
				got := evalFresh(vs, o.GoMap())
				if got.Line() != base[j].Line() {
					c.violate(Violation{What: "a respelled variant of a rule has a different outcome", Rule: vs, RuleHex: hx(vs), Object: o.Pretty(), ObjProto: o.String(),
						Demand: "the outcome of the canonical spelling " + fmt.Sprintf("%q", canon) + ": " + base[j].Line(), Go: got.Line() + " " + got.ErrText,
						Extra: map[string]string{"canonical": canon}})
					break
				}
			}
		}
		if i < 3 {
			c.sample(map[string]interface{}{"canonical": canon, "variants": vtexts})
		}
	}
}
