package main

// Generators. Every random choice comes from one RNG seeded from VERIF_SEED, so a case replays exactly.

import (
	"math"
	"math/big"
	"sort"
	"strconv"
	"strings"
	"unicode/utf8"
)

type RNG struct{ s uint64 }

func NewRNG(seed uint64) *RNG { return &RNG{seed*0x9E3779B97F4A7C15 + 0x1234567} }
func (r *RNG) U64() uint64 {
	r.s += 0x9E3779B97F4A7C15
	z := r.s
	z = (z ^ (z >> 30)) * 0xBF58476D1CE4E5B9
	z = (z ^ (z >> 27)) * 0x94D049BB133111EB
	return z ^ (z >> 31)
}
func (r *RNG) Intn(n int) int {
	if n <= 0 {
		return 0
	}
	return int(r.U64() % uint64(n))
}
func (r *RNG) Chance(num, den int) bool { return r.Intn(den) < num }
func (r *RNG) Shuffle(n int, swap func(i, j int)) {
	for i := n - 1; i > 0; i-- {
		swap(i, r.Intn(i+1))
	}
}
func pick[T any](r *RNG, xs []T) T { return xs[r.Intn(len(xs))] }

// ---- rule trees ----
const (
	NCmp = iota
	NPres
	NParen
	NLogic
)

type Lit struct {
	Kind  string // bool null ver str dbl long ilist dlist slist
	Text  string // token text (str: with quotes; long: with optional '-' and EXP)
	Elems []string
}

type Node struct {
	T    int
	Neg  bool
	Or   bool
	L, R *Node
	Q    *Node
	Path []string
	Op   int // token kind 12..21
	Lit  Lit
}

var opNames = map[int]string{12: "IN", 13: "EQ", 14: "NE", 15: "GT", 16: "LT", 17: "GE", 18: "LE", 19: "CO", 20: "SW", 21: "EW"}
var opSym = map[int]string{12: "in", 13: "eq", 14: "ne", 15: "gt", 16: "lt", 17: "ge", 18: "le", 19: "co", 20: "sw", 21: "ew"}

func (l Lit) Shape() string {
	switch l.Kind {
	case "bool":
		return "b:" + l.Text
	case "null":
		return "n"
	case "ver":
		return "v:" + l.Text
	case "str":
		return "s:" + hx(l.Text)
	case "dbl":
		return "d:" + l.Text
	case "long":
		return "l:" + l.Text
	case "ilist":
		return "L26:" + strings.Join(l.Elems, ";")
	case "dlist":
		return "L25:" + strings.Join(l.Elems, ";")
	case "slist":
		h := make([]string, len(l.Elems))
		for i, e := range l.Elems {
			h[i] = hx(e)
		}
		return "L24:" + strings.Join(h, ";")
	}
	return "?"
}

// Shape is the S-expression the grammar prescribes for this tree (same syntax as shapeOf / the driver's PARSE).
func (n *Node) Shape() string {
	switch n.T {
	case NParen:
		if n.Neg {
			return "N " + n.Q.Shape()
		}
		return "P " + n.Q.Shape()
	case NLogic:
		if n.Or {
			return "O " + n.L.Shape() + " " + n.R.Shape()
		}
		return "A " + n.L.Shape() + " " + n.R.Shape()
	case NPres:
		return "R " + strings.Join(n.Path, ".")
	default:
		return "C " + strings.Join(n.Path, ".") + " " + strconv.Itoa(n.Op) + " " + n.Lit.Shape()
	}
}

// Skeleton: connectives only, leaves numbered left to right ("L i").
func (n *Node) Skeleton(next *int) string {
	switch n.T {
	case NParen:
		if n.Neg {
			return "N " + n.Q.Skeleton(next)
		}
		return "P " + n.Q.Skeleton(next)
	case NLogic:
		l := n.L.Skeleton(next)
		r := n.R.Skeleton(next)
		if n.Or {
			return "O " + l + " " + r
		}
		return "A " + l + " " + r
	default:
		s := "L " + strconv.Itoa(*next)
		*next++
		return s
	}
}

func skeletonOfShape(shape string) string {
	toks := strings.Split(shape, " ")
	var out []string
	idx := 0
	for i := 0; i < len(toks); i++ {
		switch toks[i] {
		case "A", "O", "P", "N":
			out = append(out, toks[i])
		case "R":
			out = append(out, "L", strconv.Itoa(idx))
			idx++
			i++
		case "C":
			out = append(out, "L", strconv.Itoa(idx))
			idx++
			i += 3
		default:
			out = append(out, "?"+toks[i])
		}
	}
	return strings.Join(out, " ")
}

func (n *Node) Leaves(out *[]*Node) {
	switch n.T {
	case NParen:
		n.Q.Leaves(out)
	case NLogic:
		n.L.Leaves(out)
		n.R.Leaves(out)
	default:
		*out = append(*out, n)
	}
}

func (n *Node) Depth() int {
	switch n.T {
	case NParen:
		return 1 + n.Q.Depth()
	case NLogic:
		a, b := n.L.Depth(), n.R.Depth()
		if b > a {
			a = b
		}
		return 1 + a
	}
	return 0
}

// ---- rendering ----
type Style struct {
	R     *RNG
	Canon bool // canonical spelling: first spelling of every token, single blanks, no optional blanks
	Sp    map[string][]string
}

func (st *Style) spell(tok string, dflt string) string {
	sp := st.Sp[tok]
	if len(sp) == 0 {
		return dflt
	}
	if st.Canon {
		return sp[0]
	}
	return pick(st.R, sp)
}

func (st *Style) sp() string {
	if st.Canon || st.R.Chance(8, 10) {
		return " "
	}
	return " " + strings.Repeat("\n", 1+st.R.Intn(3))
}

func (st *Style) optsp() string {
	if st.Canon || st.R.Chance(6, 10) {
		return ""
	}
	return st.sp()
}

func (st *Style) comma() string {
	if st.Canon || st.R.Chance(5, 10) {
		return ","
	}
	return "," + strings.Repeat(" ", 1+st.R.Intn(3))
}

func (st *Style) lit(l Lit) string {
	switch l.Kind {
	case "ilist", "dlist":
		var sb strings.Builder
		sb.WriteString("[")
		for i, e := range l.Elems {
			if i > 0 {
				sb.WriteString(st.comma())
			}
			sb.WriteString(e)
		}
		sb.WriteString("]")
		return sb.String()
	case "slist":
		var sb strings.Builder
		sb.WriteString("[")
		for i, e := range l.Elems {
			if i > 0 {
				sb.WriteString(st.comma())
			}
			sb.WriteString(e)
		}
		sb.WriteString("]")
		return sb.String()
	}
	return l.Text
}

func (st *Style) Render(n *Node) string {
	switch n.T {
	case NParen:
		s := ""
		if n.Neg {
			s = st.spell("NOT", "not")
		}
		return s + st.optsp() + "(" + st.optsp() + st.Render(n.Q) + st.optsp() + ")"
	case NLogic:
		op := "and"
		if n.Or {
			op = "or"
		}
		return st.Render(n.L) + st.sp() + op + st.sp() + st.Render(n.R)
	case NPres:
		return strings.Join(n.Path, ".") + st.sp() + "pr"
	default:
		return strings.Join(n.Path, ".") + st.sp() + st.spell(opNames[n.Op], opSym[n.Op]) + st.sp() + st.lit(n.Lit)
	}
}

// ---- pools ----
var namePool = []string{"x", "y", "z", "a", "b", "c", "k", "name", "order", "nota", "prx", "e5", "E", "inx", "trueish", "nullable", "andy", "orb",
	"a-b", "a_b", "a:b", "X9", "eqx", "NOTE", "gte", "version", "Or", "And", "Pr", "e", "E1x", "q1",
	"is-NULL", "opt:TRUE", "x-OR", "go-AND-stop", "FALSE-y", "PR", "nullx", "e1", "E12", "AND", "OR", "TRUE", "NULL", "In", "Not", "trUe"}

var keywords = map[string]bool{"not": true, "NOT": true, "and": true, "or": true, "true": true, "false": true, "null": true, "IN": true, "in": true,
	"eq": true, "EQ": true, "ne": true, "NE": true, "gt": true, "GT": true, "lt": true, "LT": true, "ge": true, "GE": true, "le": true, "LE": true,
	"co": true, "CO": true, "sw": true, "SW": true, "ew": true, "EW": true, "pr": true}

func genName(r *RNG) string {
	if r.Chance(9, 10) {
		return pick(r, namePool)
	}
	const first = "abcdefghijklmnopqrstuvwxyzABCDEFGHIJKLMNOPQRSTUVWXYZ"
	const rest = first + "0123456789-_:"
	for {
		n := 1 + r.Intn(6)
		b := []byte{first[r.Intn(len(first))]}
		for i := 1; i < n; i++ {
			b = append(b, rest[r.Intn(len(rest))])
		}
		if !keywords[string(b)] {
			return string(b)
		}
	}
}

func genPath(r *RNG, maxSeg int) []string {
	n := 1
	if r.Chance(4, 10) {
		n = 1 + r.Intn(maxSeg)
	}
	if maxSeg > 1 && r.Chance(1, bigOneIn) {
		n = pick(r, []int{33, 40, 130})
	}
	p := make([]string, n)
	for i := range p {
		p[i] = genName(r)
	}
	return p
}

var longPool = []string{"0", "1", "-1", "2", "3", "7", "10", "-10", "100", "2147483647", "2147483648", "-2147483648", "-2147483649",
	"9007199254740991", "9007199254740992", "9007199254740993", "-9007199254740992", "-9007199254740993",
	"9223372036854775807", "-9223372036854775808", "4611686018427387904", "-4611686018427387904", "6000000000000000000", "-6000000000000000000", "-0", "42", "255", "256", "65536", "10", "20", "1000"}

var badLongPool = []string{"1e+5", "2E+3", "-1e+2", "9223372036854775808", "-9223372036854775809", "99999999999999999999", "0e+0", "7E+10"}

var dblPool = []string{"0.0", "-0.0", "1.0", "-1.0", "1.5", "-1.5", "2.50", "0.1", "0.5", "1.7", "2.0", "100.25", "1.0e3", "1.5E-3", "2.5e+10", "1.0e10", "1.25e-10",
	"1.0e308", "1.7976931348623157e308", "4.9e-324", "2.2250738585072014e-308", "0.0e999", "9007199254740993.0", "9007199254740992.0", "123456789.123456789",
	"0.30000000000000004", "3.14", "-2.718", "1.0E0", "10.0", "0.000001", "1.0e-400", "-1.0e-300", "2147483647.5", "9223372036854775807.0"}

var badDblPool = []string{"1.0e999", "-1.0e999", "1.8e308", "1.0e400"}

var verPool = []string{"1.0.0", "1.2.3", "1.10.0", "1.9.0", "0.0.0", "0.0.1", "10.20.30", "2.0.0", "1.0.10", "1.1.0", "1.1.1", "0.9.99", "3.0.0", "100.0.0", "1.0.9",
	"18446744073709551615.0.0", "1.18446744073709551615.1", "65535.0.0", "65536.0.0", "70000.1.2", "4464.1.2", "16777215.0.0", "16777216.0.0", "1.65536.0", "1.0.16777216", "4294967296.0.0"}

var hugeVerPool = []string{"18446744073709551616.0.0", "1.18446744073709551616.0", "1.0.99999999999999999999"}

var strPool = []string{"", "abc", "ABC", "aBc", "ab", "bc", "b", "a b", " abc", "abc ", "  ", "cde", "Straße", "STRASSE", "strasse", "İ", "i", "ǅ", "ǆ", "K", "k", "ſ", "s", "ς", "σ", "Σ",
	"héllo", "HÉLLO", "日本語", "x", "X", "zz", "Zz", "1.0.0", "true", "null", "a.b", "[1]", "a,b", "(a)", "Ω", "ω", "Å", "å", "é", "É", "ab\tcd", "line\nbreak", "Ⱥ", "ⱥ", "ẞ", "ß", "line1\r\nline2", "\r\n", "a\rb", "\n", "tab\there ", "Ω", "Å", "\u2028x", "nul\x00byte", "\x7f", "𝒳𝒴", "ＡＢ", "ǰ", "ŉ", "<nil>", "<NIL>", "Ⅷ", "ⅷ", "Ⓐ", "ⓐ", "(", ")", "((", "a(b", "x )", "x  z", "x !", "x 5", "a\tb  c", "10", "1.5", "1.2.3", "5",
	"1.10.0", "1.9.0", "1.0.0-alpha", "1.0.0", "1.0.0-2", "1.0.0-10", "1.0.0+build.1", "1.0.0+build.2", "Doe, John", "y,z", ","}

// bodies whose proper prefixes are also suffixes / infixes of them
var overlapPool = []string{"path[0]", "a_b", "x@y", "a^b", "{k}", "a|b", "p~q", "x`y", "aab", "abab", "aaba", "cocola", "bingbot", "abcabd", "ÉéÉx", "aAb", "xyxyz", "aa", "abaab", "ßßs", "1.1.0", "a a b"}

// bodies with the escape sequences the grammar allows (the engine keeps them verbatim: no unescaping). Used for the
// elements of string lists only: C04 leaves literals with backslashes outside its claim.
var escPool = []string{`a\"`, `\"`, `\\`, `x\"y`, `\n`, `\u00e9`, `q\\`, `\"\"`, `\/`, `\"a`, `a\\\"`}

func quote(body string) string { return "\"" + body + "\"" }

func genLit(r *RNG, kind string) Lit {
	switch kind {
	case "bool":
		return Lit{Kind: "bool", Text: pick(r, []string{"true", "false"})}
	case "null":
		return Lit{Kind: "null", Text: "null"}
	case "ver":
		if r.Chance(1, 25) {
			return Lit{Kind: "ver", Text: pick(r, hugeVerPool)}
		}
		if r.Chance(7, 10) {
			return Lit{Kind: "ver", Text: pick(r, verPool)}
		}
		return Lit{Kind: "ver", Text: strconv.Itoa(r.Intn(30)) + "." + strconv.Itoa(r.Intn(30)) + "." + strconv.Itoa(r.Intn(30))}
	case "str":
		return Lit{Kind: "str", Text: quote(genBody(r))}
	case "dbl":
		return Lit{Kind: "dbl", Text: genDbl(r)}
	case "long":
		return Lit{Kind: "long", Text: genLong(r)}
	case "ilist":
		n := 1 + r.Intn(5)
		if r.Chance(1, bigOneIn) {
			n = pick(r, []int{65, 70, 260, 1100})
		}
		l := Lit{Kind: "ilist"}
		for i := 0; i < n; i++ {
			e := genLong(r)
			e = strings.TrimPrefix(e, "-")
			if strings.ContainsAny(e, "eE") {
				e = "5"
			}
			if r.Chance(1, 40) {
				e = "9223372036854775808"
			}
			l.Elems = append(l.Elems, e)
		}
		if r.Chance(2, 10) {
			l.Elems = append(l.Elems, l.Elems[0])
		}
		return l
	case "dlist":
		n := 1 + r.Intn(5)
		if r.Chance(1, bigOneIn) {
			n = pick(r, []int{65, 70, 260, 1100})
		}
		l := Lit{Kind: "dlist"}
		for i := 0; i < n; i++ {
			l.Elems = append(l.Elems, genDbl(r))
		}
		return l
	case "slist":
		n := 1 + r.Intn(5)
		if r.Chance(1, bigOneIn) {
			n = pick(r, []int{65, 70, 260, 1100})
		}
		l := Lit{Kind: "slist"}
		for i := 0; i < n; i++ {
			if r.Chance(1, 8) {
				l.Elems = append(l.Elems, quote(pick(r, escPool)))
			} else {
				l.Elems = append(l.Elems, quote(genBody(r)))
			}
		}
		if r.Chance(2, 10) {
			l.Elems = append(l.Elems, l.Elems[0])
		}
		return l
	}
	return Lit{Kind: "null", Text: "null"}
}

// allowEscapedScalars: scalar string literals may contain the grammar's escape sequences (C04 leaves them outside its claim and switches this off)
var allowEscapedScalars = true

func genBody(r *RNG) string {
	if allowEscapedScalars && r.Chance(1, 15) {
		return pick(r, escPool)
	}
	if r.Chance(1, 12) {
		// a body that overlaps itself (its first characters occur again inside it): what a hand-written substring /
		// prefix / suffix search has to back up over
		return pick(r, overlapPool)
	}
	if r.Chance(8, 10) {
		return pick(r, strPool)
	}
	n := r.Intn(8)
	var sb strings.Builder
	alphabet := []rune("abcXYZ 019-_.,:;()[]<>=!é€Ωßİ𝒳")
	for i := 0; i < n; i++ {
		sb.WriteRune(alphabet[r.Intn(len(alphabet))])
	}
	return sb.String()
}

func genLong(r *RNG) string {
	switch {
	case r.Chance(1, 30):
		return pick(r, badLongPool)
	case r.Chance(6, 10):
		return pick(r, longPool)
	case r.Chance(1, 2):
		return strconv.Itoa(r.Intn(41) - 20)
	default:
		return strconv.FormatInt(int64(r.U64()>>uint(r.Intn(63))), 10)
	}
}

func genDbl(r *RNG) string {
	switch {
	case r.Chance(1, 30):
		return pick(r, badDblPool)
	case r.Chance(6, 10):
		return pick(r, dblPool)
	default:
		s := strconv.Itoa(r.Intn(2000)-1000) + "." + strconv.Itoa(r.Intn(1000))
		if strings.HasPrefix(s, "-0") && len(s) > 2 && s[2] != '.' {
			s = "0.5"
		}
		if r.Chance(1, 4) {
			s += pick(r, []string{"e", "E"}) + pick(r, []string{"", "+", "-"}) + strconv.Itoa(r.Intn(20))
		}
		return s
	}
}

var litKinds = []string{"bool", "null", "ver", "str", "dbl", "long", "ilist", "dlist", "slist"}

func genLeaf(r *RNG, maxSeg int) *Node {
	if r.Chance(1, 8) {
		return &Node{T: NPres, Path: genPath(r, maxSeg)}
	}
	kind := pick(r, litKinds)
	op := 12 + r.Intn(10)
	// bias towards supported combinations, keep unsupported ones too
	if r.Chance(7, 10) {
		switch kind {
		case "bool", "null":
			op = 13 + r.Intn(2)
		case "ver", "dbl", "long":
			op = 13 + r.Intn(6)
		case "str":
			op = 13 + r.Intn(9)
		default:
			op = 12
		}
	}
	return &Node{T: NCmp, Path: genPath(r, maxSeg), Op: op, Lit: genLit(r, kind)}
}

// genTree builds a tree in the grammar's normal form: the right operand of a connective is never a bare
// connective (it is parenthesised), so the tree is exactly what the left-associative grammar yields for its rendering.
// bigTree: shapes whose SIZE is the point - long flat chains, many negated groups, deep nesting (defects gated on a
// length, a depth or a count stay invisible to small random rules)
func bigTree(r *RNG, leaf func() *Node) *Node {
	switch r.Intn(4) {
	case 0:
		n := pick(r, []int{66, 70, 131, 300})
		acc := leaf()
		allAnd, allOr := r.Chance(1, 4), r.Chance(1, 4)
		for i := 1; i < n; i++ {
			or := r.Chance(1, 2)
			if allAnd {
				or = false
			} else if allOr {
				or = true
			}
			acc = &Node{T: NLogic, Or: or, L: acc, R: leaf()}
		}
		return acc
	case 1:
		n := pick(r, []int{64, 130, 200})
		acc := &Node{T: NParen, Neg: true, Q: leaf()}
		or := r.Chance(1, 2)
		for i := 1; i < n; i++ {
			acc = &Node{T: NLogic, Or: or, L: acc, R: &Node{T: NParen, Neg: true, Q: leaf()}}
		}
		return acc
	case 2:
		d := pick(r, []int{130, 260})
		t := leaf()
		for i := 0; i < d; i++ {
			t = &Node{T: NParen, Neg: r.Chance(1, 3), Q: t}
		}
		return t
	default:
		d := pick(r, []int{70, 130})
		t := leaf()
		for i := 0; i < d; i++ {
			t = &Node{T: NLogic, Or: r.Chance(1, 2), L: leaf(), R: &Node{T: NParen, Q: t}}
		}
		return t
	}
}

var bigOneIn = 400

// lookAlike: a literal of another kind whose text prints like l
// foldVariant: a text that strings.EqualFold equates with s although strings.ToLower does not (or the other way round)
func foldVariant(r *RNG, s string) string {
	pairs := [][2]string{{"s", "ſ"}, {"S", "ſ"}, {"σ", "ς"}, {"k", "\u212a"}, {"K", "\u212a"}, {"i", "İ"}, {"μ", "µ"}, {"ß", "ẞ"}, {"θ", "ϑ"}, {"å", "\u212b"}}
	r.Shuffle(len(pairs), func(a, b int) { pairs[a], pairs[b] = pairs[b], pairs[a] })
	for _, p := range pairs {
		if strings.Contains(s, p[0]) {
			return strings.Replace(s, p[0], p[1], 1)
		}
		if strings.Contains(s, p[1]) {
			return strings.Replace(s, p[1], p[0], 1)
		}
	}
	return s + pick(r, []string{"ſ", "ς", "İ", "µ"})
}

// relatedLit: the same literal, another spelling of the same value, or a near miss of it (see genTree)
func relatedLit(r *RNG, l Lit) Lit {
	switch l.Kind {
	case "str":
		body := l.Text[1 : len(l.Text)-1]
		if strings.Contains(body, "\\") {
			return l
		}
		switch r.Intn(5) {
		case 0:
			return l
		case 1:
			return Lit{Kind: "str", Text: quote(swapCase(body))}
		case 2:
			return Lit{Kind: "str", Text: quote(strings.ToUpper(body))}
		case 3:
			return Lit{Kind: "str", Text: quote(foldVariant(r, body))}
		default:
			return Lit{Kind: "str", Text: quote(body + "x")}
		}
	case "long":
		if n, ok := parseLongText(l.Text); ok && r.Chance(1, 2) {
			if r.Chance(1, 2) {
				return Lit{Kind: "dbl", Text: strconv.FormatInt(n, 10) + pick(r, []string{".0", ".00", ".5"})}
			}
			if n == 0 {
				return Lit{Kind: "long", Text: "-0"}
			}
			return Lit{Kind: "long", Text: strconv.FormatInt(n+int64(r.Intn(3))-1, 10)}
		}
		return l
	case "dbl":
		if !strings.ContainsAny(l.Text, "eE") && r.Chance(1, 2) {
			return Lit{Kind: "dbl", Text: l.Text + pick(r, []string{"0", "00", "e0", "1"})}
		}
		return l
	case "bool":
		if r.Chance(1, 3) {
			return Lit{Kind: "bool", Text: map[string]string{"true": "false", "false": "true"}[l.Text]}
		}
		return l
	}
	return l
}

func lookAlike(r *RNG, l Lit) (Lit, bool) {
	switch l.Kind {
	case "str":
		body := l.Text[1 : len(l.Text)-1]
		for _, k := range []struct{ kind, text string }{{"bool", "true"}, {"bool", "false"}, {"null", "null"}} {
			if body == k.text {
				return Lit{Kind: k.kind, Text: k.text}, true
			}
		}
		if body == "<nil>" {
			return Lit{Kind: "null", Text: "null"}, true
		}
		if isDigits(body) && (len(body) == 1 || body[0] != '0') && len(body) < 18 {
			return Lit{Kind: "long", Text: body}, true
		}
		if parts := strings.Split(body, "."); len(parts) == 3 && isDigits(parts[0]) && isDigits(parts[1]) && isDigits(parts[2]) {
			return Lit{Kind: "ver", Text: body}, true
		}
		if parts := strings.Split(body, "."); len(parts) == 2 && isDigits(parts[0]) && isDigits(parts[1]) {
			return Lit{Kind: "dbl", Text: body}, true
		}
		return Lit{}, false
	case "bool", "long", "dbl", "ver":
		return Lit{Kind: "str", Text: quote(l.Text)}, true
	case "null":
		return Lit{Kind: "str", Text: quote(pick(r, []string{"<nil>", "null"}))}, true
	}
	return Lit{}, false
}

func genTree(r *RNG, leaves int, maxSeg int, leaf func() *Node) *Node {
	if leaf == nil {
		leaf = func() *Node { return genLeaf(r, maxSeg) }
	}
	// paths are reused inside one rule now and then: the same path again, a dotted suffix of it, or an extension of it
	var used [][]string
	var usedLeaves []*Node
	base := leaf
	leaf = func() *Node {
		n := base()
		if (n.T == NCmp || n.T == NPres) && len(n.Path) > 0 {
			if len(usedLeaves) > 0 && n.T == NCmp && r.Chance(1, 9) {
				// a RELATIVE of the comparison just before it (mostly its sibling in a chain): the same path, a literal that
				// is the same value or nearly so (the same text, another spelling of the same number, another letter case, a
				// text that is equal under case FOLDING but not after lower-casing), the same operator, its complement or
				// another one: `flag eq true or flag ne true`, `x eq 1.5 and x eq 1.50`, `n eq "Bob" and n eq "bob"`,
				// `p eq "s" or p eq "ſ"` - shapes an engine might be tempted to simplify
				prev := usedLeaves[len(usedLeaves)-1]
				n.Path = append([]string(nil), prev.Path...)
				n.Lit = relatedLit(r, prev.Lit)
				switch r.Intn(4) {
				case 0:
					n.Op = prev.Op
				case 1:
					n.Op = map[int]int{13: 14, 14: 13, 15: 18, 18: 15, 16: 17, 17: 16}[prev.Op]
					if n.Op == 0 {
						n.Op = prev.Op
					}
				case 2:
					n.Op = 13
				default:
					n.Op = 12 + r.Intn(10)
				}
				if strings.HasSuffix(n.Lit.Kind, "list") {
					n.Op = 12
				} else if n.Op == 12 {
					n.Op = 13
				}
			} else if len(usedLeaves) > 0 && n.T == NCmp && r.Chance(1, 12) {
				// the same path and operator as an earlier comparison, with a literal of ANOTHER kind that prints alike
				// ("true" / true, "1.5" / 1.5, "1.2.3" / 1.2.3, "5" / 5, "<nil>" / null)
				prev := pick(r, usedLeaves)
				if la, ok := lookAlike(r, prev.Lit); ok {
					n.Path = append([]string(nil), prev.Path...)
					n.Op = prev.Op
					n.Lit = la
				}
			} else if len(usedLeaves) > 0 && n.T == NCmp && r.Chance(1, 14) {
				// the same comparison on an attribute whose name differs from an earlier one only in LETTER CASE (attribute
				// names are case-sensitive map keys, keywords and string comparisons are not): `Tier eq "gold" or tier eq "gold"`
				prev := pick(r, usedLeaves)
				p2 := append([]string(nil), prev.Path...)
				i := r.Intn(len(p2))
				fl := strings.ToUpper(p2[i][:1])
				if fl == p2[i][:1] {
					fl = strings.ToLower(fl)
				}
				if v := fl + p2[i][1:]; v != p2[i] && !keywords[v] {
					p2[i] = v
					n.Path, n.Op, n.Lit = p2, prev.Op, prev.Lit
				}
			} else if len(used) > 0 && r.Chance(1, 6) {
				p := pick(r, used)
				switch {
				case r.Chance(6, 10):
					n.Path = append([]string(nil), p...)
				case len(p) > 1 && r.Chance(1, 2):
					n.Path = append([]string(nil), p[1+r.Intn(len(p)-1):]...)
				default:
					n.Path = append(append([]string(nil), p...), genName(r))
				}
			}
			used = append(used, n.Path)
			if n.T == NCmp {
				usedLeaves = append(usedLeaves, n)
			}
		}
		return n
	}
	if leaves > 1 && r.Chance(1, bigOneIn) {
		return bigTree(r, leaf)
	}
	var prim func(budget int) *Node
	var query func(budget int) *Node
	prim = func(budget int) *Node {
		if budget <= 1 {
			if r.Chance(1, 6) {
				return &Node{T: NParen, Neg: r.Chance(1, 2), Q: leaf()}
			}
			return leaf()
		}
		return &Node{T: NParen, Neg: r.Chance(4, 10), Q: query(budget)}
	}
	query = func(budget int) *Node {
		if budget <= 1 {
			return prim(1)
		}
		// chain of k operands
		k := 2
		if budget > 2 {
			k = 2 + r.Intn(min(budget-1, 5))
		}
		parts := make([]int, k)
		for i := range parts {
			parts[i] = 1
		}
		for extra := budget - k; extra > 0; extra-- {
			parts[r.Intn(k)]++
		}
		acc := prim(parts[0])
		for i := 1; i < k; i++ {
			acc = &Node{T: NLogic, Or: r.Chance(1, 2), L: acc, R: prim(parts[i])}
		}
		return acc
	}
	if r.Chance(1, 10) {
		return &Node{T: NParen, Neg: r.Chance(1, 2), Q: query(leaves)}
	}
	return query(leaves)
}

func min(a, b int) int {
	if a < b {
		return a
	}
	return b
}

// ---- objects conditioned on a rule ----

func avStr(s string) *AV    { return &AV{K: AVStr, S: s} }
func avInt(i int64) *AV     { return &AV{K: AVInt, I: i} }
func avFloat(f float64) *AV { return &AV{K: AVFloat, F: f} }
func avNull() *AV           { return &AV{K: AVNull} }
func avObj() *AV            { return &AV{K: AVObj} }

func parseLongText(t string) (int64, bool) {
	v, err := strconv.ParseInt(t, 10, 64)
	return v, err == nil
}

var specialFloats = []float64{math.NaN(), math.Inf(1), math.Inf(-1), 0, math.Copysign(0, -1), math.MaxFloat64, -math.MaxFloat64, math.SmallestNonzeroFloat64,
	9223372036854775808.0, -9223372036854775808.0, 9223372036854774784.0, 18446744073709551616.0, 9007199254740992.0, 9007199254740994.0, -9007199254740992.0,
	4294967296.0, 2147483648.0, -2147483649.0, 1e19, -1e19, 1e300, 0.1, 0.5, 1e-300}

var semverNear = []string{"1.0", "v1.0.0", "1.0.0.", "01.0.0", "1.00.0", "1.0.0-", "1.0.0-01", " 1.0.0", "1.0.0 ", "1.0.0-a..b", "1.0.0+", "1.0.0+a+b", "", "1", "1.0.0.0", "a.b.c", "1.0.0-é", "-1.0.0", "+1.0.0", "1..0",
	"18446744073709551616.0.0", "1.0.0-18446744073709551616", "1.0.0-\u212a", "1.0.0+\u0130", "2.0.0-\u212a", "1.0.0-\u017f", "1.0.0-é"}
var semverSuffix = []string{"", "-beta", "-beta.2", "-alpha.1", "-1", "-0", "-rc.1+build.5", "+build", "+b.1.2", "-alpha.beta", "-alpha-x", "-10", "-2", "-a", "-A", "-beta.11", "-beta.2.1", "-rc-", "--", "+exp-", "-rc-1", "-x-y-", "-0a", "-a.0"}

func nearValue(r *RNG, leaf *Node, idc *int) *AV {
	stringer := func(s string) *AV {
		*idc++
		if r.Chance(1, 12) {
			if r.Chance(1, 2) {
				return &AV{K: AVStringerPanic, ID: *idc + 1000 + 1000*r.Intn(2)}
			}
			return &AV{K: AVStringerPanic, ID: *idc}
		}
		if r.Chance(1, 10) {
			return &AV{K: AVStringer, ID: *idc, S: "<nil>"}
		}
		if r.Chance(1, 10) {
			// encoding/json's Number (objects decoded with UseNumber): a string type with a String method, i.e. a
			// fmt.Stringer to the engine - also when its text looks like a number
			return &AV{K: AVStringer, ID: 0, S: pick(r, []string{"10", "2.50", "-1", "1e3", "abc", "", "1.0.0", "9007199254740993", s})}
		}
		if r.Chance(1, 20) {
			return &AV{K: AVStringer, ID: *idc + 3000, S: s} // re-entrant (values.go)
		}
		if r.Chance(1, 12) {
			return &AV{K: AVStringer, ID: *idc + 7000, S: s} // a pointer whose text changes between evaluations (values.go, evalOn)
		}
		return &AV{K: AVStringer, ID: *idc, S: s}
	}
	wrong := func() *AV {
		switch r.Intn(9) {
		case 0:
			return avStr(pick(r, strPool))
		case 1:
			return &AV{K: AVBool, B: r.Chance(1, 2)}
		case 2:
			return avInt(int64(r.Intn(5)))
		case 3:
			return avFloat(float64(r.Intn(5)) + 0.5)
		case 4:
			// an object where a scalar is expected; its keys are names real payloads use (credentials, ids, the names the
			// engine itself uses in diagnostics), one level or two deep
			o := avObj()
			if r.Chance(1, 2) {
				o.Set("a", avInt(1))
			}
			for n := r.Intn(4); n > 0; n-- {
				k := pick(r, commonKeys)
				switch r.Intn(4) {
				case 0:
					in := avObj()
					in.Set(pick(r, commonKeys), avStr("hunter2"))
					o.Set(k, in)
				case 1:
					o.Set(k, avInt(int64(r.Intn(100))))
				default:
					o.Set(k, avStr(pick(r, []string{"hunter2", "bob", "x", "Bearer abc"})))
				}
			}
			return o
		case 5:
			return &AV{K: AVOther, Tag: r.Intn(len(otherNames))}
		case 6:
			return stringer(pick(r, strPool))
		case 7:
			return &AV{K: AVInt64, I: int64(r.Intn(5))}
		default:
			return avStr(pick(r, verPool))
		}
	}
	if leaf.T == NPres {
		return wrong()
	}
	if r.Chance(15, 100) {
		return wrong()
	}
	l := leaf.Lit
	numNear := func(n int64) *AV {
		d := int64(r.Intn(3) - 1)
		if r.Chance(1, 14) {
			// far away from the literal: the ends of the int64 range and values 2^62 apart (differences that do not fit in int64)
			far := pick(r, []int64{math.MaxInt64, math.MinInt64, math.MaxInt64 - 1, math.MinInt64 + 1, 1 << 62, -(1 << 62), (1 << 62) + 1, 6000000000000000000, -6000000000000000000})
			if r.Chance(1, 3) {
				return &AV{K: AVInt64, I: far}
			}
			return avInt(far)
		}
		switch r.Intn(12) {
		case 0, 1, 2:
			return avInt(n + d)
		case 3:
			return &AV{K: AVInt64, I: n + d}
		case 4:
			if n+d >= math.MinInt32 && n+d <= math.MaxInt32 {
				return &AV{K: AVInt32, I: n + d}
			}
			return avInt(n)
		case 5, 6:
			return avFloat(float64(n + d))
		case 7:
			return avFloat(float64(n) + pick(r, []float64{0.5, -0.5, 0.25, 0.7, -0.3, 1e-9}))
		case 8:
			return avFloat(pick(r, specialFloats))
		case 9:
			return avFloat(math.Nextafter(float64(n), math.Inf(r.Intn(2)*2-1)))
		default:
			return avInt(n)
		}
	}
	fltNear := func(v float64) *AV {
		switch r.Intn(10) {
		case 0, 1, 2:
			return avFloat(v)
		case 3:
			return avFloat(math.Nextafter(v, math.Inf(1)))
		case 4:
			return avFloat(math.Nextafter(v, math.Inf(-1)))
		case 5:
			if math.Abs(v) < 1e15 {
				return avInt(int64(v))
			}
			return avInt(1)
		case 6:
			if math.Abs(v) < 1e15 {
				return avInt(int64(v) + int64(r.Intn(3)-1))
			}
			return avFloat(-v)
		case 7:
			return avFloat(pick(r, specialFloats))
		case 8:
			return avFloat(v + pick(r, []float64{1, -1, 0.5}))
		default:
			return avFloat(-v)
		}
	}
	strNear := func(body string) *AV {
		var s string
		if r.Chance(1, 8) {
			// equal under case folding, different after lower-casing (or the reverse)
			s = foldVariant(r, body)
			if r.Chance(1, 6) {
				return stringer(s)
			}
			return avStr(s)
		}
		switch r.Intn(12) {
		case 0, 1:
			s = body
		case 2:
			s = strings.ToUpper(body)
		case 3:
			s = strings.ToLower(body)
		case 4:
			s = body + pick(r, []string{"x", " ", "Z", "é"})
		case 5:
			s = pick(r, []string{"x", " ", "A", "ß"}) + body
		case 6:
			rs := []rune(body)
			if len(rs) > 0 {
				s = string(rs[:r.Intn(len(rs)+1)])
			}
		case 7:
			rs := []rune(body)
			if len(rs) > 0 {
				s = string(rs[r.Intn(len(rs)+1):])
			}
		case 8:
			s = "a" + body + "b"
		case 9:
			if r.Chance(1, 2) {
				// a partial match that breaks off, with the real occurrence starting inside it (or right after it)
				rs := []rune(body)
				if len(rs) > 1 {
					j := 1 + r.Intn(len(rs)-1)
					s = string(rs[:j]) + body
					if r.Chance(1, 4) {
						s = body + string(rs[j:])
					}
					if r.Chance(1, 3) {
						s = pick(r, []string{"x", "", string(rs[:1])}) + s + pick(r, []string{"", "y", string(rs[len(rs)-1:])})
					}
					if r.Chance(1, 4) {
						s = swapCase(s)
					}
					break
				}
			}
			s = pick(r, strPool)
		case 10:
			if r.Chance(1, 2) {
				// one ASCII byte with bit 0x20 flipped: the other case of a letter - or, for `@[\]^_` and their
				// partners, a different character that a hand-written ASCII case fold may confuse with it
				bs := []byte(body)
				var idx []int
				for i, b := range bs {
					if b >= 0x40 && b < 0x80 {
						idx = append(idx, i)
					}
				}
				if len(idx) > 0 {
					bs[idx[r.Intn(len(idx))]] ^= 0x20
					s = string(bs)
					break
				}
			}
			// invalid UTF-8 around the body
			s = body + "\xff"
		default:
			if r.Chance(1, 2) {
				s = foldVariant(r, body)
			} else {
				s = swapCase(body)
			}
		}
		if r.Chance(1, 5) {
			return stringer(s)
		}
		return avStr(s)
	}
	verNear := func(v string) *AV {
		parts := strings.SplitN(v, ".", 3)
		switch r.Intn(10) {
		case 0, 1:
			return avStr(v + pick(r, semverSuffix))
		case 2, 3, 4:
			i := r.Intn(3)
			n, err := strconv.ParseUint(parts[i], 10, 64)
			if err == nil {
				delta := []int64{-1, 1, 9, 10}[r.Intn(4)]
				if int64(n)+delta >= 0 && n < 1<<62 {
					parts[i] = strconv.FormatInt(int64(n)+delta, 10)
				}
			}
			return avStr(strings.Join(parts, ".") + pick(r, semverSuffix))
		case 5:
			if r.Chance(1, 3) {
				// one numeric component of the literal plus 2^64: a parser that accumulates digits in a uint64 without an
				// overflow check reads it as the literal itself
				i := r.Intn(3)
				if n, ok := new(big.Int).SetString(strings.SplitN(parts[i], "-", 2)[0], 10); ok && len(parts) == 3 && !strings.ContainsAny(parts[i], "-+") {
					n.Add(n, new(big.Int).Lsh(big.NewInt(1), 64))
					q := append([]string(nil), parts...)
					q[i] = n.String()
					return avStr(strings.Join(q, "."))
				}
			}
			return avStr(pick(r, semverNear))
		case 6:
			if r.Chance(1, 2) {
				// the literal's own text with MALFORMED build metadata: not a version, whatever was parsed before
				return avStr(v + pick(r, []string{"+", "+a..b", "+x_y", "+a+b", "+ ", "+é"}))
			}
			return avStr(pick(r, verPool) + pick(r, semverSuffix))
		case 7:
			return stringer(v)
		default:
			return avStr(v)
		}
	}
	switch l.Kind {
	case "bool":
		if r.Chance(7, 10) {
			return &AV{K: AVBool, B: r.Chance(1, 2)}
		}
		return wrong()
	case "null":
		if r.Chance(1, 2) {
			return avNull()
		}
		return wrong()
	case "long":
		n, ok := parseLongText(l.Text)
		if !ok {
			n = int64(r.Intn(5))
		}
		return numNear(n)
	case "dbl":
		v, err := strconv.ParseFloat(l.Text, 64)
		if err != nil {
			v = 1.0
		}
		return fltNear(v)
	case "ver":
		return verNear(l.Text)
	case "str":
		return strNear(l.Text[1 : len(l.Text)-1])
	case "ilist":
		e := pick(r, l.Elems)
		if r.Chance(1, 12) {
			return avStr(strings.TrimSpace(e)) // a string that PRINTS like a member: a member of nothing
		}
		n, ok := parseLongText(e)
		if !ok {
			n = 1
		}
		return numNear(n)
	case "dlist":
		e := pick(r, l.Elems)
		if r.Chance(1, 12) {
			return avStr(strings.TrimSpace(e))
		}
		v, err := strconv.ParseFloat(e, 64)
		if err != nil {
			v = 1
		}
		return fltNear(v)
	case "slist":
		if r.Chance(1, 10) {
			// a multi-valued attribute with the very elements of the literal (same length), not in order and in other letter
			// cases: a []string or a []interface{}
			els := make([]string, len(l.Elems))
			for i, e := range l.Elems {
				els[i] = e[1 : len(e)-1]
				if r.Chance(1, 2) {
					els[i] = swapCase(els[i])
				}
			}
			r.Shuffle(len(els), func(a, b int) { els[a], els[b] = els[b], els[a] })
			return &AV{K: AVOther, Tag: pick(r, []int{19, 8}), Strs: els}
		}
		e := pick(r, l.Elems)
		if n, err := strconv.ParseInt(e[1:len(e)-1], 10, 64); err == nil && r.Chance(1, 4) {
			return avInt(n) // a number that prints like a member of the string list
		}
		return strNear(e[1 : len(e)-1])
	}
	return wrong()
}

func swapCase(s string) string {
	var sb strings.Builder
	for i, c := range s {
		if i%2 == 0 {
			sb.WriteString(strings.ToUpper(string(c)))
		} else {
			sb.WriteString(strings.ToLower(string(c)))
		}
	}
	return sb.String()
}

// addDecoys puts keys into obj that none of `paths` denotes but that LOOK like one of them: a run of two or more segments
// joined by dots as ONE key of the root object (the whole path, a prefix, a suffix); letter-case variants of a segment in
// the object in which that segment is looked up (two variants with different values, so that no single one is "the"
// match; below a variant of an inner segment the rest of the path is spelled out). By every property these keys are
// inert: a path denotes what successive EXACT key lookups reach. Never touches a key a path uses.
func addDecoys(r *RNG, obj *AV, paths [][]string, val func() *AV, protect ...[]string) {
	if obj == nil || obj.K != AVObj {
		return
	}
	used := map[string]bool{}
	for _, p := range paths {
		for _, s := range p {
			used[s] = true
		}
	}
	for _, p := range protect {
		for _, s := range p {
			used[s] = true
		}
	}
	put := func(o *AV, k string, v *AV) {
		if used[k] || o.Get(k) != nil || v == nil {
			return
		}
		o.Set(k, v)
		o.Nil = false
	}
	// names no path may meet at a given depth: a key put at depth d is inert iff no path has that name as its d-th segment
	segAt := map[int]map[string]bool{}
	for _, ps := range [][][]string{paths, protect} {
		for _, p := range ps {
			for d, s := range p {
				if segAt[d] == nil {
					segAt[d] = map[string]bool{}
				}
				segAt[d][s] = true
			}
		}
	}
	putAt := func(o *AV, depth int, k string, v *AV) {
		if segAt[depth][k] || o.Get(k) != nil || v == nil {
			return
		}
		o.Set(k, v)
		o.Nil = false
	}
	for pi, p := range paths {
		if len(p) < 2 || !r.Chance(1, 2) {
			continue
		}
		// where the walk of p ends: the deepest existing object and the first step that is missing or null
		cur, lvl := obj, 0
		for lvl < len(p)-1 {
			nx := cur.Get(p[lvl])
			if nx == nil || nx.K != AVObj {
				break
			}
			cur, lvl = nx, lvl+1
		}
		if cur.Nil && lvl > 0 {
			// the walk ends in a nil map of the object type (a non-nil interface holding a nil map: every lookup in it is
			// absent): a walk that confuses "nil" with "start at the top" would look the key up in the root
			if r.Chance(2, 3) {
				putAt(obj, 0, p[lvl], val())
			}
			continue
		}
		if nx := cur.Get(p[lvl]); lvl < len(p)-1 && (nx == nil || nx.K == AVNull) {
			// the walk breaks off before the last step. What a walk that loses its place might look at next:
			// the REST of the path from the top of the object ...
			if r.Chance(1, 2) {
				putAt(obj, 0, p[lvl+1], val())
			}
			// ... or, for the next comparison, ITS attribute inside the parent that survived
			if lvl > 0 && len(paths) > 1 {
				q := paths[(pi+1+r.Intn(len(paths)-1))%len(paths)]
				putAt(cur, lvl, q[0], val())
			}
		}
	}
	for _, p := range paths {
		switch r.Intn(3) {
		case 0:
			if len(p) > 1 {
				i := r.Intn(len(p) - 1)
				j := i + 2 + r.Intn(len(p)-i-1)
				if r.Chance(1, 2) {
					i, j = 0, len(p)
				}
				put(obj, strings.Join(p[i:j], "."), val())
			}
		default:
			// walk the exact keys as far as a random depth or as far as objects go
			depth := r.Intn(len(p))
			cur := obj
			lvl := 0
			for lvl < depth {
				nx := cur.Get(p[lvl])
				if nx == nil || nx.K != AVObj {
					break
				}
				cur = nx
				lvl++
			}
			seg := p[lvl]
			vars := []string{strings.ToUpper(seg), swapCase(seg), strings.ToLower(seg), strings.Title(strings.ToLower(seg))}
			r.Shuffle(len(vars), func(a, b int) { vars[a], vars[b] = vars[b], vars[a] })
			n := 0
			for _, vn := range vars {
				if vn == seg || n >= 2 {
					continue
				}
				var v *AV
				if lvl == len(p)-1 {
					v = val()
					if n == 1 {
						v = pick(r, []*AV{avStr("silver"), avInt(7), {K: AVBool, B: false}, avStr("basic")})
					}
				} else if n == 0 {
					v = avObj()
					chainTo(v, p[lvl+1:], val())
				} else {
					v = pick(r, []*AV{avStr("basic"), avInt(7), avObj()})
				}
				if cur.Get(vn) == nil && !used[vn] {
					put(cur, vn, v)
					n++
				}
			}
		}
	}
}

// commonKeys: attribute names of real payloads (what a "helpful" special case is most likely to be keyed on)
var commonKeys = []string{"password", "passwd", "secret", "token", "api_key", "apikey", "authorization", "Password", "accessToken", "id", "name", "type", "value", "key",
	"err", "msg", "path", "operation", "attr_path", "rule_operand", "object_path_operand", "$ref", "__proto__", "length", "items", "email", "user", "credentials"}

// ObjOpts steers how an object is drawn for a rule.
type ObjOpts struct {
	NonObjMid  int // percent chance that a multi-segment path runs into a non-object (C07 only)
	AbsentPct  int
	NilPct     int
	NullParent int
}

func genObject(r *RNG, root *Node, opt ObjOpts) *AV {
	obj := avObj()
	var leaves []*Node
	root.Leaves(&leaves)
	idc := 0
	for _, lf := range leaves {
		cur := obj
		p := lf.Path
		roll := r.Intn(100)
		switch {
		case roll < opt.AbsentPct:
			// leave absent (but maybe create part of the parents)
			for i := 0; i < len(p)-1 && r.Chance(1, 2); i++ {
				nx := cur.Get(p[i])
				if nx == nil {
					nx = avObj()
					cur.Set(p[i], nx)
				}
				if nx.K != AVObj {
					break
				}
				cur = nx
			}
			continue
		case roll < opt.AbsentPct+opt.NullParent && len(p) > 1:
			// an explicit nil or a missing key somewhere in the middle
			cut := r.Intn(len(p) - 1)
			ok := true
			for i := 0; i < cut; i++ {
				nx := cur.Get(p[i])
				if nx == nil {
					nx = avObj()
					cur.Set(p[i], nx)
				}
				if nx.K != AVObj {
					ok = false
					break
				}
				cur = nx
			}
			if ok && cur.Get(p[cut]) == nil && r.Chance(1, 2) {
				if r.Chance(1, 4) {
					cur.Set(p[cut], &AV{K: AVObj, Nil: true}) // a nil map[string]interface{}: present, an object, holds nothing
					// ... and, now and then, the key that is looked up in it sits at the top of the object (inert: no path starts with it)
					k, free := p[cut+1], true
					for _, l2 := range leaves {
						if l2.Path[0] == k {
							free = false
						}
					}
					if free && obj.Get(k) == nil && r.Chance(2, 3) {
						obj.Set(k, nearValue(r, lf, &idc))
					}
				} else {
					cur.Set(p[cut], avNull())
				}
			}
			continue
		case roll < opt.AbsentPct+opt.NullParent+opt.NonObjMid && len(p) > 1:
			cut := r.Intn(len(p) - 1)
			ok := true
			for i := 0; i < cut; i++ {
				nx := cur.Get(p[i])
				if nx == nil {
					nx = avObj()
					cur.Set(p[i], nx)
				}
				if nx.K != AVObj {
					ok = false
					break
				}
				cur = nx
			}
			if ok && cur.Get(p[cut]) == nil {
				cur.Set(p[cut], pick(r, []*AV{avInt(5), avStr("s"), {K: AVOther, Tag: r.Intn(len(otherNames))}, {K: AVBool, B: true}, avFloat(1.5), {K: AVOther, Tag: 16}, {K: AVOther, Tag: 9},
					{K: AVStringerPanic, ID: 1900 + r.Intn(50)}, {K: AVStringerPanic, ID: 2900 + r.Intn(50)}, {K: AVStringer, ID: 900 + r.Intn(50), S: "mid"}}))
			}
			continue
		}
		ok := true
		for i := 0; i < len(p)-1; i++ {
			nx := cur.Get(p[i])
			if nx == nil {
				nx = avObj()
				cur.Set(p[i], nx)
			}
			if nx.K != AVObj {
				ok = false
				break
			}
			cur = nx
		}
		if !ok {
			continue
		}
		if ex := cur.Get(p[len(p)-1]); ex != nil && r.Chance(2, 3) {
			continue // keep the value another leaf put there (shared attribute)
		}
		if roll >= 100-opt.NilPct {
			cur.Set(p[len(p)-1], avNull())
		} else {
			cur.Set(p[len(p)-1], nearValue(r, lf, &idc))
		}
	}
	if len(obj.Keys) == 0 && r.Chance(1, 2) {
		obj.Nil = true
	}
	// a few unrelated keys
	if r.Chance(1, 5) {
		obj.Set("unrelated", avStr("zzz"))
		obj.Nil = false
	}
	// aliasing: one and the same Go map stored at two places of the object (values.Go keeps *AV identity): under a
	// second key of the root, or - when two paths of the rule have parents that are both absent - as the parent of both
	if len(leaves) > 0 && r.Chance(1, 10) {
		lf := pick(r, leaves)
		if len(lf.Path) > 1 {
			if sub := obj.Get(lf.Path[0]); sub != nil && sub.K == AVObj {
				for _, name := range []string{"aa_alias", "zz_alias"} {
					if obj.Get(name) == nil && r.Chance(1, 2) {
						obj.Set(name, sub)
					}
				}
				for _, other := range leaves {
					if len(other.Path) == len(lf.Path) && other.Path[0] != lf.Path[0] && obj.Get(other.Path[0]) == nil && r.Chance(1, 2) {
						obj.Set(other.Path[0], sub)
					}
				}
				obj.Nil = false
			}
		}
	}
	// decoys: keys that LOOK like a path of the rule but are not it (see addDecoys)
	if len(leaves) > 0 && r.Chance(1, 5) {
		var ps [][]string
		for _, lf := range leaves {
			if r.Chance(1, 2) {
				ps = append(ps, lf.Path)
			}
		}
		lf := pick(r, leaves)
		idc2 := 100
		var all [][]string
		for _, l2 := range leaves {
			all = append(all, l2.Path)
		}
		addDecoys(r, obj, ps, func() *AV { return nearValue(r, lf, &idc2) }, all...)
	}
	return obj
}

// lowerTable: every string a case can lower-case (attribute strings and quoted pieces of the rule text), non-ASCII only.
func lowerTable(ruleTexts []string, obj *AV) string {
	set := map[string]bool{}
	if obj != nil {
		obj.Strings(set)
	}
	for _, rt := range ruleTexts {
		rt = string([]rune(rt))
		parts := strings.Split(rt, "\"")
		for _, p := range parts {
			set[p] = true
		}
	}
	var sb strings.Builder
	first := true
	keys := make([]string, 0, len(set))
	for s := range set {
		keys = append(keys, s)
	}
	sort.Strings(keys)
	for _, s := range keys {
		ascii := true
		for i := 0; i < len(s); i++ {
			if s[i] >= utf8.RuneSelf {
				ascii = false
				break
			}
		}
		if ascii {
			continue
		}
		if !first {
			sb.WriteString(" ")
		}
		first = false
		sb.WriteString(hx(s) + " " + hx(strings.ToLower(s)))
	}
	if first {
		return "-"
	}
	return sb.String()
}

// poisonObjects: objects for earlier calls on the same evaluator: a scalar in the middle of a path (recovered panic),
// everything absent, everything undecidable.
func poisonObjects(r *RNG, root *Node) []map[string]interface{} {
	if !r.Chance(4, 10) {
		return nil
	}
	var ls []*Node
	root.Leaves(&ls)
	var out []map[string]interface{}
	n := 1 + r.Intn(2)
	for i := 0; i < n; i++ {
		switch r.Intn(4) {
		case 3:
			// every attribute holds a value its comparison is TRUE for where that is easy to say (a member of the list, the
			// literal itself): what an evaluator might remember about a value and hand out for one that only prints alike
			o := avObj()
			for _, lf := range ls {
				if lf.T != NCmp {
					continue
				}
				var v *AV
				switch lf.Lit.Kind {
				case "ilist":
					if n, err := strconv.ParseInt(strings.TrimSpace(lf.Lit.Elems[0]), 10, 64); err == nil {
						v = avInt(n)
					}
				case "dlist":
					if f, err := strconv.ParseFloat(strings.TrimSpace(lf.Lit.Elems[0]), 64); err == nil {
						v = avFloat(f)
					}
				case "slist":
					if e := lf.Lit.Elems[0]; len(e) >= 2 && !strings.Contains(e, "\\") {
						v = avStr(e[1 : len(e)-1])
					}
				case "long":
					if n, ok := parseLongText(lf.Lit.Text); ok {
						v = avInt(n)
					}
				case "str":
					if t := lf.Lit.Text; len(t) >= 2 && !strings.Contains(t, "\\") {
						v = avStr(t[1 : len(t)-1])
					}
				}
				if v != nil {
					chainTo(o, lf.Path, v)
				}
			}
			out = append(out, o.GoMap())
		case 0:
			o := avObj()
			lf := pick(r, ls)
			cur := o
			cut := 0
			if len(lf.Path) > 1 {
				cut = r.Intn(len(lf.Path) - 1)
			}
			for j := 0; j < cut; j++ {
				nx := avObj()
				nx.Set("x", avInt(5))
				cur.Set(lf.Path[j], nx)
				cur = nx
			}
			cur.Set(lf.Path[cut], pick(r, []*AV{avStr("scalar"), avInt(5), {K: AVBool, B: true}}))
			out = append(out, o.GoMap())
		case 1:
			out = append(out, map[string]interface{}{})
		default:
			out = append(out, genObject(r, root, ObjOpts{AbsentPct: 30, NilPct: 10, NullParent: 10, NonObjMid: 30}).GoMap())
		}
	}
	if r.Chance(1, 60) {
		// a long life before the call under test (behaviour gated on a number of calls)
		for len(out) < 105+r.Intn(30) {
			out = append(out, genObject(r, root, ObjOpts{AbsentPct: 20, NilPct: 5}).GoMap())
		}
	}
	return out
}

// relatedText perturbs a rule text the way a careless cache key would identify it with the original:
// case of one letter, amount/kind of white space.
func relatedText(r *RNG, s string) string {
	rs := []rune(s)
	if len(rs) == 0 {
		return s
	}
	switch r.Intn(4) {
	case 0:
		for tries := 0; tries < 20; tries++ {
			i := r.Intn(len(rs))
			c := rs[i]
			switch {
			case c >= 'a' && c <= 'z':
				rs[i] = c - 32
				return string(rs)
			case c >= 'A' && c <= 'Z':
				rs[i] = c + 32
				return string(rs)
			}
		}
	case 1:
		for tries := 0; tries < 20; tries++ {
			i := r.Intn(len(rs))
			if rs[i] == ' ' {
				ins := pick(r, []string{" ", "\t", "\n", "  "})
				return string(rs[:i]) + ins + string(rs[i:])
			}
		}
	case 2:
		return strings.ToUpper(s)
	default:
		return strings.ToLower(s)
	}
	return s
}
