module verif/harness

go 1.21

require (
	github.com/antlr4-go/antlr/v4 v4.13.0
	github.com/blang/semver v3.5.1+incompatible
	github.com/nikunjy/rules v0.0.0
)

require golang.org/x/exp v0.0.0-20230515195305-f3d0a9c9a5cc // indirect

replace github.com/nikunjy/rules => /repo
