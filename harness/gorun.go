package main

// Running the real code (exported API only) and canonicalising what it returns.

import (
	"errors"
	"fmt"
	"sort"
	"strconv"
	"strings"

	"github.com/antlr4-go/antlr/v4"
	rules "github.com/nikunjy/rules"
	"github.com/nikunjy/rules/parser"
)

type errListener struct {
	*antlr.DefaultErrorListener
	n int
}

func (l *errListener) SyntaxError(_ antlr.Recognizer, _ interface{}, _, _ int, _ string, _ antlr.RecognitionException) {
	l.n++
}

// GoText is what the shipped lexer/parser make of a string.
type GoText struct {
	LexErr bool
	Tokens string // "k:hex k:hex" (without EOF)
	Accept bool   // no listener error and the token stream at EOF after Query()
	Shape  string // S-expression of the parse tree (only meaningful when Accept)
	Panic  string
}

func goLexParse(s string) (res GoText) {
	defer func() {
		if r := recover(); r != nil {
			res.Panic = panicText(r)
			res.Accept = false
		}
	}()
	lexL := &errListener{}
	lex := parser.NewJsonQueryLexer(antlr.NewInputStream(s))
	lex.RemoveErrorListeners()
	lex.AddErrorListener(lexL)
	tokens := antlr.NewCommonTokenStream(lex, antlr.TokenDefaultChannel)
	tokens.Fill()
	var tp []string
	for _, t := range tokens.GetAllTokens() {
		if t.GetTokenType() == antlr.TokenEOF {
			continue
		}
		tp = append(tp, strconv.Itoa(t.GetTokenType())+":"+hx(t.GetText()))
	}
	res.Tokens = strings.Join(tp, " ")
	res.LexErr = lexL.n > 0
	parL := &errListener{}
	p := parser.NewJsonQueryParser(tokens)
	p.RemoveErrorListeners()
	p.AddErrorListener(parL)
	tree := p.Query()
	res.Accept = !res.LexErr && parL.n == 0 && tokens.LA(1) == antlr.TokenEOF
	if res.Accept {
		res.Shape = shapeOf(tree)
	}
	return
}

func pathOf(ap parser.IAttrPathContext) string {
	var segs []string
	for ap != nil {
		c := ap.(*parser.AttrPathContext)
		segs = append(segs, c.ATTRNAME().GetText())
		sa := c.SubAttr()
		if sa == nil {
			break
		}
		ap = sa.(*parser.SubAttrContext).AttrPath()
	}
	return strings.Join(segs, ".")
}

func litOf(v parser.IValueContext) string {
	switch c := v.(type) {
	case *parser.BooleanContext:
		return "b:" + c.GetText()
	case *parser.NullContext:
		return "n"
	case *parser.VersionContext:
		return "v:" + c.GetText()
	case *parser.StringContext:
		return "s:" + hx(c.GetText())
	case *parser.DoubleContext:
		return "d:" + c.GetText()
	case *parser.LongContext:
		return "l:" + c.GetText()
	case *parser.ListOfIntsContext:
		var el []string
		sl := c.ListInts().(*parser.ListIntsContext).SubListOfInts()
		for sl != nil {
			sc := sl.(*parser.SubListOfIntsContext)
			el = append(el, sc.INT().GetText())
			sl = sc.SubListOfInts()
		}
		return "L26:" + strings.Join(el, ";")
	case *parser.ListOfDoublesContext:
		var el []string
		sl := c.ListDoubles().(*parser.ListDoublesContext).SubListOfDoubles()
		for sl != nil {
			sc := sl.(*parser.SubListOfDoublesContext)
			el = append(el, sc.DOUBLE().GetText())
			sl = sc.SubListOfDoubles()
		}
		return "L25:" + strings.Join(el, ";")
	case *parser.ListOfStringsContext:
		var el []string
		sl := c.ListStrings().(*parser.ListStringsContext).SubListOfStrings()
		for sl != nil {
			sc := sl.(*parser.SubListOfStringsContext)
			el = append(el, hx(sc.STRING().GetText()))
			sl = sc.SubListOfStrings()
		}
		return "L24:" + strings.Join(el, ";")
	}
	return fmt.Sprintf("?%T", v)
}

func shapeOf(t antlr.Tree) string {
	switch c := t.(type) {
	case *parser.ParenExpContext:
		if c.NOT() != nil {
			return "N " + shapeOf(c.Query())
		}
		return "P " + shapeOf(c.Query())
	case *parser.LogicalExpContext:
		op := c.LOGICAL_OPERATOR().GetText()
		tag := "?" + op
		if op == "and" {
			tag = "A"
		} else if op == "or" {
			tag = "O"
		}
		return tag + " " + shapeOf(c.Query(0)) + " " + shapeOf(c.Query(1))
	case *parser.PresentExpContext:
		return "R " + pathOf(c.AttrPath())
	case *parser.CompareExpContext:
		return "C " + pathOf(c.AttrPath()) + " " + strconv.Itoa(c.GetOp().GetTokenType()) + " " + litOf(c.Value())
	}
	return fmt.Sprintf("?%T", t)
}

// Obs is the canonical observation of one Process call (plus LastDebugErr afterwards).
type Obs struct {
	V        bool
	E        string // -, invop, badlit, unk, syn, panic
	D        string // -, invop, missing, invopnd, other
	Calls    []int
	Escaped  string // a panic that escaped a public call (C07)
	ErrText  string
	DbgText  string
	TextFail string // Error() panicked or returned ""
}

func (o Obs) Line() string {
	v := "0"
	if o.V {
		v = "1"
	}
	return "v=" + v + " e=" + o.E + " d=" + o.D + " c=" + callsStr(o.Calls)
}

// fields as the driver reads them back (COMB / SEQP)
func (o Obs) Fields() string {
	v := "0"
	if o.V {
		v = "1"
	}
	return v + " " + o.E + " " + o.D + " " + callsStr(o.Calls)
}

func callsStr(c []int) string {
	if len(c) == 0 {
		return "-"
	}
	p := make([]string, len(c))
	for i, x := range c {
		p[i] = strconv.Itoa(x)
	}
	return strings.Join(p, ",")
}

func errClass(err error) string {
	if err == nil {
		return "-"
	}
	if errors.Is(err, parser.ErrInvalidOperation) {
		return "invop"
	}
	var ne *strconv.NumError
	if errors.As(err, &ne) {
		return "badlit"
	}
	var nested *parser.NestedError
	if errors.As(err, &nested) {
		if o := nested.Original(); o != nil {
			if errors.As(o, &ne) {
				return "badlit"
			}
		}
		if nested.Msg == "Error converting boolean" {
			return "badlit"
		}
	}
	msg := safeText(err)
	if strings.HasPrefix(msg, "Invalid rule") {
		return "syn"
	}
	if strings.HasPrefix(msg, "Unknown operation") {
		return "unk"
	}
	return "panic"
}

func dbgClass(err error) string {
	if err == nil {
		return "-"
	}
	ne, ok := err.(*parser.NestedError)
	if !ok {
		return "other"
	}
	o := ne.Original()
	switch {
	case o == parser.ErrInvalidOperation:
		return "invop"
	case o == parser.ErrEvalOperandMissing:
		return "missing"
	}
	if _, ok := o.(*parser.ErrInvalidOperand); ok {
		return "invopnd"
	}
	return "other"
}

func safeText(err error) (s string) {
	defer func() {
		if r := recover(); r != nil {
			s = ""
		}
	}()
	return err.Error()
}

// errorText calls Error() the way a user would; reports a panic or an empty text.
func errorText(err error) (text string, fail string) {
	defer func() {
		if r := recover(); r != nil {
			fail = "Error() panicked: " + panicText(r)
		}
	}()
	text = err.Error()
	if text == "" {
		fail = "Error() returned the empty string"
	}
	return
}

// process runs ev.Process(obj) and observes everything a caller can see.
func observeProcess(ev *parser.Evaluator, obj map[string]interface{}) (o Obs) {
	callLog = callLog[:0]
	func() {
		defer func() {
			if r := recover(); r != nil {
				o.Escaped = "Process: " + panicText(r)
			}
		}()
		currentEv = ev
		v, err := ev.Process(obj)
		currentEv = nil
		o.V = v
		o.E = errClass(err)
		if err != nil {
			o.ErrText, o.TextFail = errorText(err)
		}
	}()
	o.Calls = append([]int(nil), callLog...)
	if o.Escaped != "" {
		o.E = "escaped"
		return
	}
	func() {
		defer func() {
			if r := recover(); r != nil {
				o.Escaped = "LastDebugErr: " + panicText(r)
			}
		}()
		d := ev.LastDebugErr()
		o.D = dbgClass(d)
		if d != nil {
			t, f := errorText(d)
			o.DbgText = t
			if f != "" && o.TextFail == "" {
				o.TextFail = "LastDebugErr()." + f
			}
		}
	}()
	return
}

func newEvaluator(rule string) (ev *parser.Evaluator, err error, escaped string) {
	defer func() {
		if r := recover(); r != nil {
			escaped = "NewEvaluator: " + panicText(r)
		}
	}()
	// Every eighth evaluator is PRECEDED by an evaluator (created, used once on an empty object, dropped) for a text that
	// is a different rule but would share a key that is slightly too coarse: the same text up to the letter case of one
	// attribute name, or up to the length of a run of blanks inside a string literal. What was parsed earlier in the
	// process must not matter (C11), so this changes no expected outcome.
	decoyTick++
	if v := collapseOuterBlanks(rule); v != rule && decoyTick%3 == 1 && len(rule) < 2000 {
		// a text with wider white space than one blank between its words: its single-blank sibling first
		func() {
			defer func() { recover() }()
			saved := append([]int(nil), callLog...)
			if e2, _ := parser.NewEvaluator(v); e2 != nil {
				e2.Process(map[string]interface{}{})
			}
			noteDecoy(fmt.Sprintf("NewEvaluator(%q).Process({})", v))
			callLog = append(callLog[:0], saved...)
		}()
	}
	if decoyTick%8 == 5 {
		if v := nearbyRuleText(rule, decoyTick); v != rule {
			func() {
				defer func() { recover() }()
				saved := append([]int(nil), callLog...)
				if e2, _ := parser.NewEvaluator(v); e2 != nil {
					e2.Process(map[string]interface{}{})
				}
				noteDecoy(fmt.Sprintf("NewEvaluator(%q).Process({})", v))
				if decoyTick%16 == 13 {
					rules.Evaluate(v, map[string]interface{}{})
					parser.Evaluate(v, map[string]interface{}{})
				}
				callLog = append(callLog[:0], saved...)
			}()
		}
	}
	// ... and every eighth one by evaluations that END BADLY on other evaluators (dropped at once): a path walk that
	// panics half-way (three segments, a scalar at the second), an integer / decimal list whose later element cannot be
	// converted. Whatever such a call leaves behind in recycled objects (a pool of visitors, a free list, a shared buffer)
	// must not reach the next evaluation.
	if decoyTick%8 == 1 {
		func() {
			defer func() { recover() }()
			saved := append([]int(nil), callLog...)
			noteDecoy([]string{"Evaluate(`p9.q9.r9 eq 1`, {p9:{q9:5,k:7,x:1,y:\"s\"}})", "Evaluate(`q9 in [7, 1, 99999999999999999999]`, {q9:7})", "Evaluate(`q9 in [1.5, 1.0e999]`, {q9:1.5})"}[(decoyTick/8)%3])
			switch (decoyTick / 8) % 3 {
			case 0:
				parser.Evaluate("p9.q9.r9 eq 1", map[string]interface{}{"p9": map[string]interface{}{"q9": 5, "k": 7, "x": 1, "y": "s"}})
			case 1:
				parser.Evaluate("q9 in [7, 1, 99999999999999999999]", map[string]interface{}{"q9": 7})
			default:
				parser.Evaluate("q9 in [1.5, 1.0e999]", map[string]interface{}{"q9": 1.5})
			}
			callLog = append(callLog[:0], saved...)
		}()
	}
	ev, err = parser.NewEvaluator(rule)
	// Every third evaluator is followed by the creation of an evaluator for another rule text (the previous one seen)
	// before it is used: an evaluator must not depend on what is parsed after it (C11), and the per-property checks must
	// see a parse tree that still reads a recycled buffer. The decoy is dropped at once; it changes no expected outcome.
	if decoyTick%3 == 0 && lastRuleText != "" && lastRuleText != rule {
		func() {
			defer func() { recover() }()
			parser.NewEvaluator(lastRuleText)
		}()
	}
	lastRuleText = rule
	return
}

// nearbyRuleText: another rule whose text collides with `rule` under lower-casing or under collapsing runs of blanks
func nearbyRuleText(rule string, tick int) string {
	b := []byte(rule)
	inStr := false
	var names, blanks, outer []int
	for i := 0; i < len(b); i++ {
		c := b[i]
		switch {
		case c == '\\' && inStr:
			i++
		case c == '"':
			inStr = !inStr
		case inStr && c == ' ':
			blanks = append(blanks, i)
		case !inStr && c == ' ':
			outer = append(outer, i)
		case !inStr && ((c >= 'a' && c <= 'z') || (c >= 'A' && c <= 'Z')) && (i == 0 || b[i-1] == ' ' || b[i-1] == '(' || b[i-1] == '.' || b[i-1] == '\n'):
			// first letter of a word outside a string: an attribute name or a keyword (a keyword with one letter of the
			// other case is an attribute name or a syntax error - a different rule either way)
			names = append(names, i)
		}
	}
	if tick%24 == 13 {
		if v := collapseOuterBlanks(rule); v != rule {
			return v
		}
	}
	if len(outer) > 0 && tick%16 == 13 {
		// one blank between two words doubled: a malformed sibling (the grammar allows exactly one blank there)
		i := outer[tick%len(outer)]
		return string(b[:i]) + " " + string(b[i:])
	}
	if len(blanks) > 0 && tick%16 == 5 {
		i := blanks[tick%len(blanks)]
		return string(b[:i]) + " " + string(b[i:])
	}
	if len(names) > 0 {
		i := names[tick%len(names)]
		b[i] ^= 0x20
		return string(b)
	}
	return rule
}

// recentDecoys: the last few things newEvaluator evaluated on the side (reported with a violation as part of its history)
var recentDecoys []string

func noteDecoy(s string) {
	if len(s) > 300 {
		s = s[:300] + "..."
	}
	recentDecoys = append(recentDecoys, s)
	if len(recentDecoys) > 4 {
		recentDecoys = recentDecoys[len(recentDecoys)-4:]
	}
}

// collapseOuterBlanks: the rule with every run of blanks, tabs and line breaks OUTSIDE string literals collapsed to one
// blank: for a malformed text (two blanks, a tab, a newline before the blank) this is often its well-formed sibling
func collapseOuterBlanks(rule string) string {
	var sb strings.Builder
	inS, run := false, false
	for i := 0; i < len(rule); i++ {
		c := rule[i]
		switch {
		case inS && c == '\\' && i+1 < len(rule):
			sb.WriteByte(c)
			i++
			sb.WriteByte(rule[i])
			continue
		case c == '"':
			inS = !inS
		}
		if !inS && (c == ' ' || c == '\t' || c == '\n' || c == '\r') {
			if !run {
				sb.WriteByte(' ')
			}
			run = true
			continue
		}
		run = false
		sb.WriteByte(c)
	}
	return sb.String()
}

var decoyTick int
var lastRuleText string

// evalFresh: NewEvaluator + Process on a fresh evaluator.
func evalFresh(rule string, obj map[string]interface{}) Obs {
	ev, err, esc := newEvaluator(rule)
	if esc != "" {
		return Obs{E: "escaped", Escaped: esc, D: "-"}
	}
	if err != nil {
		t, f := errorText(err)
		return Obs{E: "newerr", D: "-", ErrText: t, TextFail: f}
	}
	o := observeProcess(ev, obj)
	crossCheckEntryPoints(rule, obj, &o)
	return o
}

// crossCheckEntryPoints: every fourth fresh evaluation is repeated through rules.Evaluate and parser.Evaluate; they must
// give the verdict (and, for rules.Evaluate, the error class) NewEvaluator+Process gave - the properties are stated for the
// library, whichever entry point is used. A disagreement is reported as an outcome no property allows (class `entry`).
var crossTick int

func crossCheckEntryPoints(rule string, obj map[string]interface{}, o *Obs) {
	crossTick++
	if crossTick%4 != 0 || o.E == "escaped" {
		return
	}
	saved := append([]int(nil), callLog...)
	defer func() { callLog = append(callLog[:0], saved...) }()
	rv, re, resc := rulesEvaluate(rule, obj)
	pv, pesc := parserEvaluate(rule, obj)
	if resc != "" || pesc != "" {
		return // an escaping panic is C07's business (and panicking Stringers may well behave differently per call)
	}
	if o.E == "panic" || re == "panic" {
		return
	}
	if rv != o.V || re != o.E || pv != o.V {
		o.ErrText = fmt.Sprintf("entry points disagree: NewEvaluator+Process (%v, %s), rules.Evaluate (%v, %s), parser.Evaluate %v", o.V, o.E, rv, re, pv)
		o.E = "entry"
	}
}

func rulesEvaluate(rule string, obj map[string]interface{}) (v bool, e string, esc string) {
	defer func() {
		if r := recover(); r != nil {
			esc = "rules.Evaluate: " + panicText(r)
		}
	}()
	callLog = callLog[:0]
	b, err := rules.Evaluate(rule, obj)
	return b, errClass(err), ""
}

func parserEvaluate(rule string, obj map[string]interface{}) (v bool, esc string) {
	defer func() {
		if r := recover(); r != nil {
			esc = "parser.Evaluate: " + panicText(r)
		}
	}()
	callLog = callLog[:0]
	return parser.Evaluate(rule, obj), ""
}

func rulesEval(rule string, obj map[string]interface{}) (bool, error) {
	return rules.Evaluate(rule, obj)
}

// evalOn evaluates on a fresh evaluator or (when poison != nil) on an evaluator that has first processed `poison`
// objects: every property is stated for Process in general, so its projection must also hold after earlier calls.
// mutableStringers: the *strMut values reachable through nested maps of obj
func mutableStringers(v interface{}, out *[]*strMut) {
	switch x := v.(type) {
	case map[string]interface{}:
		for _, e := range x {
			mutableStringers(e, out)
		}
	case *strMut:
		*out = append(*out, x)
	}
}

var inPlaceTick int

func evalOn(rule string, obj map[string]interface{}, poison []map[string]interface{}) Obs {
	var muts []*strMut
	mutableStringers(obj, &muts)
	if len(poison) == 0 && len(muts) == 0 && (inPlaceTick+1)%7 != 3 {
		inPlaceTick++
		return evalFresh(rule, obj)
	}
	ev, err, esc := newEvaluator(rule)
	if esc != "" {
		return Obs{E: "escaped", Escaped: esc, D: "-"}
	}
	if err != nil {
		t, f := errorText(err)
		return Obs{E: "newerr", D: "-", ErrText: t, TextFail: f}
	}
	for _, p := range poison {
		observeProcess(ev, p)
	}
	inPlaceTick++
	if inPlaceTick%7 == 3 && len(obj) > 0 && len(obj) < 40 {
		// the caller's map once before with one of its values replaced IN PLACE (same map object, same keys), then put
		// back: whatever an evaluator or the package remembers about "this object" must not outlive the change
		keys := make([]string, 0, len(obj))
		for k := range obj {
			keys = append(keys, k)
		}
		sort.Strings(keys)
		k := keys[inPlaceTick%len(keys)]
		old := obj[k]
		var repl interface{}
		switch v := old.(type) {
		case int:
			repl = v + 1
		case float64:
			repl = v + 1
		case string:
			repl = v + "~"
		case bool:
			repl = !v
		case nil:
			repl = 1
		default:
			repl = nil
		}
		obj[k] = repl
		observeProcess(ev, obj)
		obj[k] = old
	}
	if len(muts) > 0 {
		// the same object once before with OTHER texts in its mutable Stringers (same pointers): the evaluation under
		// test must read the texts of now
		for _, m := range muts {
			m.s = "zq" + m.s
		}
		observeProcess(ev, obj)
		for _, m := range muts {
			m.s = strings.TrimPrefix(m.s, "zq")
		}
	}
	return observeProcess(ev, obj)
}

// panicText formats a recovered panic value; the value may be a Stringer whose String() panics with itself, on which fmt
// panics again - then only its type is given
func panicText(r interface{}) (s string) {
	defer func() {
		if recover() != nil {
			s = fmt.Sprintf("panic value of type %T (formatting it panics again)", r)
		}
	}()
	return fmt.Sprint(r)
}
