package main

// rulesharness: the correspondence check of DESIGN §4.2–4.4.
//
//	rulesharness -prop C03 -tier quick -seed 1 -drv <rulesdrv> -facts <generated.json> -out <result.json> [-n N] [-replay file]
//
// It generates cases from one PRNG state, runs the real code in-process, pipes the same cases to the Lean
// driver and compares per property projection. It never prints VIOLATION lines itself; /verif/check does.

import (
	"bufio"
	"encoding/json"
	"flag"
	"fmt"
	"hash/fnv"
	"io"
	"os"
	"os/exec"
	"sort"
	"strconv"
	"strings"
	"time"
)

type Violation struct {
	Property string            `json:"property"`
	Kind     string            `json:"kind"` // input | history | schedule | tie
	What     string            `json:"what"`
	Rule     string            `json:"rule,omitempty"`
	RuleHex  string            `json:"rule_hex,omitempty"`
	Object   string            `json:"object,omitempty"`
	ObjProto string            `json:"object_proto,omitempty"`
	Ops      string            `json:"ops,omitempty"`
	Demand   string            `json:"property_demands,omitempty"`
	Go       string            `json:"go_returned,omitempty"`
	Model    string            `json:"model_returned,omitempty"`
	Extra    map[string]string `json:"extra,omitempty"`
	Key      string            `json:"key,omitempty"` // stable key for known findings
}

type Result struct {
	Property     string         `json:"property"`
	Tier         string         `json:"tier"`
	Seed         int64          `json:"seed"`
	Evaluations  int            `json:"evaluations"`
	Nontrivial   int            `json:"distinct_nontrivial"`
	Rule         string         `json:"rule"`
	Samples      []interface{}  `json:"samples"`
	Dist         map[string]int `json:"distribution"`
	Violations   []Violation    `json:"violations"`
	Keyed        []Violation    `json:"keyed_violations"` // violations that carry a stable cause key (matched against known_findings.txt by /verif/check)
	KeyedCounts  map[string]int `json:"keyed_counts"`
	ModelDiffs   []Violation    `json:"model_disagreements"` // model vs code differences outside the property's projection (drift, never an alarm)
	Exhaustive   bool           `json:"exhaustive"`
	Notes        []string       `json:"notes"`
	InternalErrs []string       `json:"internal_errors"`
	ModelArms    map[string]int `json:"model_arms"`      // arms of the Lean model exercised by this run's EVAL requests (counted by the driver)
	GenStale     []string       `json:"generator_stale"` // generated "sentences" the model does not read as generated: an internal error unless the grammar file was edited
	WallS        float64        `json:"wall_s"`
}

type Facts struct {
	Spellings map[string][]string `json:"spellings"`
	G4OK      bool                `json:"g4_ok"`
	// texts on which a token rule of the shipped lexer tables and the same rule of the grammar file disagree (extract/atn.go)
	LexerATNWit []struct {
		Rule    string `json:"rule"`
		TextHex string `json:"text_hex"`
	} `json:"lexer_atn_witnesses"`
}

type Ctx struct {
	R       *RNG
	Res     *Result
	Facts   Facts
	N       int
	Tier    string
	drvIn   io.WriteCloser
	drvOut  *bufio.Reader
	drvCmd  *exec.Cmd
	seen    map[uint64]bool
	maxViol int
	DrvPath string
	Self    string
	quiet   bool // while shrinking: no counting, no samples
	Scale   int
}

func (c *Ctx) startDriver(path string) error {
	cmd := exec.Command(path)
	in, err := cmd.StdinPipe()
	if err != nil {
		return err
	}
	out, err := cmd.StdoutPipe()
	if err != nil {
		return err
	}
	cmd.Stderr = os.Stderr
	if err := cmd.Start(); err != nil {
		return err
	}
	c.drvIn, c.drvOut, c.drvCmd = in, bufio.NewReaderSize(out, 1<<20), cmd
	return nil
}

// ask sends request lines and returns one answer per line.
func (c *Ctx) ask(lines []string) []string {
	if len(lines) == 0 {
		return nil
	}
	done := make(chan error, 1)
	go func() {
		w := bufio.NewWriterSize(c.drvIn, 1<<20)
		for _, l := range lines {
			w.WriteString(l)
			w.WriteByte('\n')
		}
		w.WriteString("FLUSH\n")
		done <- w.Flush()
	}()
	out := make([]string, 0, len(lines))
	for range lines {
		s, err := c.drvOut.ReadString('\n')
		if err != nil {
			c.Res.InternalErrs = append(c.Res.InternalErrs, "driver died: "+err.Error())
			for len(out) < len(lines) {
				out = append(out, "DRIVERDEAD")
			}
			break
		}
		out = append(out, strings.TrimRight(s, "\n"))
	}
	<-done
	return out
}

func (c *Ctx) ask1(line string) string { return c.ask([]string{line})[0] }

func (c *Ctx) count(k string) {
	if !c.quiet {
		c.Res.Dist[k]++
	}
}

func (c *Ctx) nontrivial(parts ...string) {
	if c.quiet {
		return
	}
	h := fnv.New64a()
	for _, p := range parts {
		h.Write([]byte(p))
		h.Write([]byte{0})
	}
	k := h.Sum64()
	if !c.seen[k] {
		c.seen[k] = true
		c.Res.Nontrivial++
	}
}

func (c *Ctx) sample(v interface{}) {
	if !c.quiet && len(c.Res.Samples) < 6 {
		c.Res.Samples = append(c.Res.Samples, v)
	}
}

func (c *Ctx) violate(v Violation) {
	v.Property = c.Res.Property
	if v.Kind == "" {
		v.Kind = "input"
	}
	if v.Key != "" {
		// a violation with a stable cause key (candidate known finding): keep up to 3 examples per key, never stop the run
		c.Res.KeyedCounts[v.Key]++
		if c.Res.KeyedCounts[v.Key] <= 3 {
			c.Res.Keyed = append(c.Res.Keyed, v)
		}
		return
	}
	if len(c.Res.Violations) < c.maxViol {
		// what else this process evaluated shortly before (newEvaluator's decoys): part of the history if the cause is
		// state that outlives an evaluation
		if len(recentDecoys) > 0 {
			if v.Extra == nil {
				v.Extra = map[string]string{}
			}
			v.Extra["earlier_in_this_process"] = strings.Join(recentDecoys, " ; ")
		}
		c.Res.Violations = append(c.Res.Violations, v)
	}
	c.count("violations_seen")
}

func (c *Ctx) drift(v Violation) {
	if len(c.Res.ModelDiffs) < 20 {
		c.Res.ModelDiffs = append(c.Res.ModelDiffs, v)
	}
	c.count("unconstrained_drift")
}

func (c *Ctx) internal(msg string) {
	if len(c.Res.InternalErrs) < 20 {
		c.Res.InternalErrs = append(c.Res.InternalErrs, msg)
	}
}

func (c *Ctx) genStale(msg string) {
	c.count("generator_disagrees_with_model")
	if len(c.Res.GenStale) < 10 {
		c.Res.GenStale = append(c.Res.GenStale, msg)
	}
}

func (c *Ctx) full() bool { return len(c.Res.Violations) >= c.maxViol }

var checks = map[string]func(*Ctx){}

func main() {
	prop := flag.String("prop", "", "property id")
	tier := flag.String("tier", "quick", "quick|thorough")
	seed := flag.Int64("seed", 1, "seed")
	drv := flag.String("drv", "", "path of rulesdrv")
	factsPath := flag.String("facts", "", "generated.json")
	out := flag.String("out", "", "result json")
	n := flag.Int("n", 0, "number of generated cases (0 = tier default)")
	replay := flag.String("replay", "", "replay file")
	child := flag.String("child", "", "internal: child mode")
	scale := flag.Int("scale", 1, "multiply the tier's case budgets (used when a modelled function changed)")
	flag.Parse()

	if *child != "" {
		runChild(*child)
		return
	}
	start := time.Now()
	res := &Result{Property: *prop, Tier: *tier, Seed: *seed, Dist: map[string]int{}, Samples: []interface{}{}, Violations: []Violation{}, Keyed: []Violation{}, KeyedCounts: map[string]int{}, ModelDiffs: []Violation{}, Notes: []string{}, InternalErrs: []string{}, GenStale: []string{}}
	ctx := &Ctx{R: NewRNG(uint64(*seed)), Res: res, Tier: *tier, seen: map[uint64]bool{}, maxViol: 5, DrvPath: *drv}
	ctx.Self, _ = os.Executable()
	if *factsPath != "" {
		b, err := os.ReadFile(*factsPath)
		if err == nil {
			json.Unmarshal(b, &ctx.Facts)
		}
	}
	for _, w := range ctx.Facts.LexerATNWit {
		var rs []rune
		for _, f := range strings.Fields(w.TextHex) {
			if v, err := strconv.ParseInt(f, 16, 32); err == nil {
				rs = append(rs, rune(v))
			}
		}
		t := string(rs)
		// the text alone and where a token of its kind can stand in a rule
		corpusTexts = append(corpusTexts, t, "x eq "+t, t+" pr", "x"+t+"eq"+t+"1", "x in ["+t+"]", "("+t+")", "x"+t+"pr", "x eq 1"+t+"and"+t+"y eq 2", "x eq 1"+t)
	}
	if ctx.Facts.Spellings == nil {
		ctx.Facts.Spellings = map[string][]string{}
	}
	ctx.N = *n
	ctx.Scale = *scale
	if err := ctx.startDriver(*drv); err != nil {
		fmt.Fprintln(os.Stderr, "cannot start driver:", err)
		os.Exit(2)
	}
	if *replay != "" {
		runReplay(ctx, *replay)
	} else {
		fn, ok := checks[*prop]
		if !ok {
			fmt.Fprintln(os.Stderr, "unknown property", *prop)
			os.Exit(2)
		}
		fn(ctx)
	}
	// which arms of the model did the EVAL requests of this run take?
	res.ModelArms = map[string]int{}
	if st := ctx.ask1("STATS"); st != "" && st != "DRIVERDEAD" && st != "BADCMD" {
		for _, kv := range strings.Split(st, ";") {
			if i := strings.LastIndex(kv, "="); i > 0 {
				n, _ := strconv.Atoi(kv[i+1:])
				res.ModelArms[kv[:i]] = n
			}
		}
	}
	ctx.drvIn.Close()
	ctx.drvCmd.Wait()
	res.WallS = time.Since(start).Seconds()
	// deterministic order of the distribution keys is given by encoding/json (sorted)
	sort.Slice(res.Violations, func(i, j int) bool { return false })
	b, _ := json.MarshalIndent(res, "", " ")
	if *out != "" {
		os.WriteFile(*out, b, 0o644)
	} else {
		os.Stdout.Write(b)
	}
	if len(res.InternalErrs) > 0 {
		os.Exit(2)
	}
}

func (c *Ctx) budget(quick, thorough int) int {
	if c.N > 0 {
		return c.N
	}
	sc := c.Scale
	if sc < 1 {
		sc = 1
	}
	if c.Tier == "thorough" {
		return thorough * sc
	}
	return quick * sc
}

func (c *Ctx) style(canon bool) *Style {
	return &Style{R: c.R, Canon: canon, Sp: c.Facts.Spellings}
}
