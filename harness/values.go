package main

// Abstract values (the quotient of DESIGN §3.2), their Go representatives, their protocol syntax,
// and deep snapshots (C13).

import (
	"encoding/hex"
	"encoding/json"
	"fmt"
	"github.com/nikunjy/rules/parser"
	"math"
	"reflect"
	"sort"
	"strconv"
	"strings"
)

type AVKind int

const (
	AVNull AVKind = iota
	AVBool
	AVInt
	AVInt32
	AVInt64
	AVFloat
	AVStr
	AVObj
	AVStringer // returns S
	AVStringerPanic
	AVOther
)

type AV struct {
	K    AVKind
	B    bool
	I    int64
	F    float64
	S    string
	ID   int // stringer id
	Tag  int // other
	Keys []string
	Vals []*AV
	Nil  bool     // AVObj at top level: a nil map
	Strs []string // AVOther: when set, the value is this []string (or []interface{} of these strings when Tag is 8): a
	// multi-valued attribute made from the elements of a list literal (for the model still "other")
}

func hx(s string) string {
	if s == "" {
		return "-"
	}
	return hex.EncodeToString([]byte(s))
}

// protocol syntax (prefix notation, space separated)
func (a *AV) Proto(sb *strings.Builder) {
	switch a.K {
	case AVNull:
		sb.WriteString("N")
	case AVBool:
		if a.B {
			sb.WriteString("B 1")
		} else {
			sb.WriteString("B 0")
		}
	case AVInt:
		sb.WriteString("I " + strconv.FormatInt(a.I, 10))
	case AVInt32:
		sb.WriteString("I32 " + strconv.FormatInt(a.I, 10))
	case AVInt64:
		sb.WriteString("I64 " + strconv.FormatInt(a.I, 10))
	case AVFloat:
		sb.WriteString("F " + fmt.Sprintf("%016x", math.Float64bits(a.F)))
	case AVStr:
		sb.WriteString("S " + hx(a.S))
	case AVStringer:
		sb.WriteString("T " + strconv.Itoa(a.ID) + " R " + hx(a.S))
	case AVStringerPanic:
		sb.WriteString("T " + strconv.Itoa(a.ID) + " P")
	case AVOther:
		sb.WriteString("X " + strconv.Itoa(a.Tag))
	case AVObj:
		sb.WriteString("O " + strconv.Itoa(len(a.Keys)))
		for i, k := range a.Keys {
			sb.WriteString(" " + hx(k) + " ")
			a.Vals[i].Proto(sb)
		}
	}
}

func (a *AV) String() string {
	var sb strings.Builder
	a.Proto(&sb)
	return sb.String()
}

// readable Go-like rendering for replay files
func (a *AV) Pretty() string {
	switch a.K {
	case AVNull:
		return "nil"
	case AVBool:
		return strconv.FormatBool(a.B)
	case AVInt:
		return strconv.FormatInt(a.I, 10)
	case AVInt32:
		return "int32(" + strconv.FormatInt(a.I, 10) + ")"
	case AVInt64:
		return "int64(" + strconv.FormatInt(a.I, 10) + ")"
	case AVFloat:
		return "float64(" + strconv.FormatFloat(a.F, 'g', -1, 64) + ")"
	case AVStr:
		return strconv.Quote(a.S)
	case AVStringer:
		if a.ID == 0 {
			return fmt.Sprintf("json.Number(%q)", a.S)
		}
		if a.S == "<nil>" {
			return fmt.Sprintf("Stringer#%d(typed nil pointer, String() returns \"<nil>\")", a.ID)
		}
		return fmt.Sprintf("Stringer#%d(%q)", a.ID, a.S)
	case AVStringerPanic:
		if a.ID >= 1000 {
			return fmt.Sprintf("Stringer#%d(String() panics with the Stringer itself as panic value)", a.ID)
		}
		return fmt.Sprintf("Stringer#%d(panics)", a.ID)
	case AVOther:
		return "other:" + otherNames[a.Tag%len(otherNames)]
	case AVObj:
		var p []string
		for i, k := range a.Keys {
			p = append(p, strconv.Quote(k)+": "+a.Vals[i].Pretty())
		}
		if a.Nil {
			return "map(nil)"
		}
		return "{" + strings.Join(p, ", ") + "}"
	}
	return "?"
}

// ---- Stringers; every call is logged ----
var callLog []int

type strOK struct {
	id int
	s  string
}

// strMut: a Stringer with a pointer receiver and a text that can change - a record the caller updates in place
type strMut struct {
	id int
	s  string
}

func (t *strMut) String() string {
	callLog = append(callLog, t.id)
	return t.s
}

// currentEv: the evaluator whose Process call is in progress (set by observeProcess). A Stringer with an id from 3000 on
// is RE-ENTRANT: while it is asked for its text it uses that same evaluator (LastDebugErr, then Process on an empty
// object) - what a value that renders itself with the help of a rule does. For the engine it is an ordinary Stringer.
var currentEv *parser.Evaluator
var reentered bool

func (t strOK) String() string {
	callLog = append(callLog, t.id)
	if t.id >= 3000 && currentEv != nil && !reentered {
		reentered = true
		func() {
			defer func() { recover(); reentered = false }()
			ev := currentEv
			_ = ev.LastDebugErr()
			ev.Process(map[string]interface{}{})
		}()
	}
	return t.s
}

// typed nil pointers whose String() tolerates the nil receiver (like (*big.Int)(nil)): eight distinct types so that up to
// eight of them in one object log their own ids
var nilIDs [8]int
var nilSlot int

type nilSafe0 struct{ _ int }
type nilSafe1 struct{ _ int }
type nilSafe2 struct{ _ int }
type nilSafe3 struct{ _ int }
type nilSafe4 struct{ _ int }
type nilSafe5 struct{ _ int }
type nilSafe6 struct{ _ int }
type nilSafe7 struct{ _ int }

func (p *nilSafe0) String() string { callLog = append(callLog, nilIDs[0]); return "<nil>" }
func (p *nilSafe1) String() string { callLog = append(callLog, nilIDs[1]); return "<nil>" }
func (p *nilSafe2) String() string { callLog = append(callLog, nilIDs[2]); return "<nil>" }
func (p *nilSafe3) String() string { callLog = append(callLog, nilIDs[3]); return "<nil>" }
func (p *nilSafe4) String() string { callLog = append(callLog, nilIDs[4]); return "<nil>" }
func (p *nilSafe5) String() string { callLog = append(callLog, nilIDs[5]); return "<nil>" }
func (p *nilSafe6) String() string { callLog = append(callLog, nilIDs[6]); return "<nil>" }
func (p *nilSafe7) String() string { callLog = append(callLog, nilIDs[7]); return "<nil>" }

func mkNilSafe(id int) interface{} {
	nilSlot = (nilSlot + 1) % 8
	nilIDs[nilSlot] = id
	switch nilSlot {
	case 0:
		return (*nilSafe0)(nil)
	case 1:
		return (*nilSafe1)(nil)
	case 2:
		return (*nilSafe2)(nil)
	case 3:
		return (*nilSafe3)(nil)
	case 4:
		return (*nilSafe4)(nil)
	case 5:
		return (*nilSafe5)(nil)
	case 6:
		return (*nilSafe6)(nil)
	}
	return (*nilSafe7)(nil)
}

type strPanic struct{ id int }

func (t strPanic) String() string {
	callLog = append(callLog, t.id)
	panic("String() of a user value panics")
}

// a Stringer that panics with ITSELF as the panic value: whoever formats the recovered value with fmt calls String()
// again, and fmt re-panics on the nested panic (ids >= 1000 denote this variant, so that a replayed prototype keeps it)
type strSelfPanic struct{ id int }

func (t strSelfPanic) String() string {
	callLog = append(callLog, t.id)
	panic(t)
}

type namedMap map[string]interface{}
type namedBool bool
type namedString string
type namedInt int

// a self-panicking Stringer that encoding/json cannot encode either (ids >= 2000)
type strSelfPanicFn struct {
	id int
	F  func()
}

func (t strSelfPanicFn) String() string {
	callLog = append(callLog, t.id)
	panic(t)
}

type someStruct struct {
	A int
	b string
}

var otherNames = []string{"[]int", "struct", "chan", "func", "typed-nil-ptr", "named-map", "uint8", "float32", "[]interface{}", "map[string]int", "uint64", "nil-slice", "ptr-to-map", "complex128", "int16", "uint", "map[string]string", "[]interface{} of 20", "named-bool", "[]string of 12", "named-string", "named-int", "[]byte holding a version", "[]byte holding text", "*bool", "*named-bool", "*string", "[]string not in order", "[]interface{} with nil inside", "uint64 above MaxInt64", "max uint", "max uintptr", "int8", "[]byte holding upper-case ASCII", "yaml-shaped map with a list of maps", "uint32", "[2]int array", "[16]byte array", "[0]bool array", "pointer to an array"}

func mkOther(tag int) interface{} {
	switch tag % len(otherNames) {
	case 0:
		return []int{1, 2}
	case 1:
		return someStruct{1, "x"}
	case 2:
		return make(chan int)
	case 3:
		return func() {}
	case 4:
		return (*int)(nil)
	case 5:
		return namedMap{"a": 1}
	case 6:
		return uint8(1)
	case 7:
		return float32(1.5)
	case 8:
		return []interface{}{1, "a", nil}
	case 9:
		return map[string]int{"a": 1}
	case 10:
		return uint64(1)
	case 11:
		return []string(nil)
	case 12:
		m := map[string]interface{}{"a": 1}
		return &m
	case 13:
		return complex(1, 2)
	case 14:
		return int16(3)
	case 16:
		return map[string]string{"env": "prod", "a": "1", "b": "x", "c": "abc", "x": "1.0.0", "k": "true"}
	case 17:
		l := make([]interface{}, 20)
		for i := range l {
			l[i] = i
		}
		return l
	case 18:
		return namedBool(true)
	case 19:
		l := make([]string, 12)
		for i := range l {
			l[i] = "tag" + strconv.Itoa(i)
		}
		return l
	case 20:
		return namedString("abc")
	case 21:
		return namedInt(1)
	case 22:
		return []byte("1.2.3")
	case 23:
		return []byte("not a version")
	case 24:
		b := true
		return &b
	case 25:
		b := namedBool(true)
		return &b
	case 26:
		s := "abc"
		return &s
	case 27:
		return []string{"writer", "Admin", "reader"}
	case 28:
		return []interface{}{"red", nil, "blue", nil}
	case 29:
		return uint64(1) << 63
	case 30:
		return ^uint(0)
	case 31:
		return ^uintptr(0)
	case 32:
		return int8(-1)
	case 33:
		return []byte("Bearer ABC")
	case 34:
		return map[interface{}]interface{}{"name": "ann", 7: 1, "emails": []interface{}{map[interface{}]interface{}{"addr": "a@b"}, "x"}}
	case 35:
		return uint32(7)
	case 36:
		return [2]int{1, 2}
	case 37:
		return [16]byte{1, 2, 3}
	case 38:
		return [0]bool{}
	case 39:
		return &[2]int{1, 2}
	default:
		return uint(7)
	}
}

// Go builds the Go value of an abstract one. Shared sub-objects: the same *AV yields the same map.
func (a *AV) Go(shared map[*AV]interface{}) interface{} {
	switch a.K {
	case AVNull:
		return nil
	case AVBool:
		return a.B
	case AVInt:
		return int(a.I)
	case AVInt32:
		return int32(a.I)
	case AVInt64:
		return int64(a.I)
	case AVFloat:
		return a.F
	case AVStr:
		return a.S
	case AVStringer:
		if a.ID == 0 {
			return json.Number(a.S) // a Stringer of the standard library; its String() calls cannot be logged (id 0 is never printed)
		}
		if a.S == "<nil>" {
			return mkNilSafe(a.ID) // a typed nil pointer whose String() accepts the nil receiver, like (*big.Int)(nil)
		}
		if a.ID >= 7000 {
			return &strMut{a.ID, a.S} // a pointer whose text the caller may change between two evaluations (gorun.go evalOn)
		}
		return strOK{a.ID, a.S}
	case AVStringerPanic:
		if a.ID >= 2000 {
			return strSelfPanicFn{a.ID, func() {}}
		}
		if a.ID >= 1000 {
			return strSelfPanic{a.ID}
		}
		return strPanic{a.ID}
	case AVOther:
		if a.Strs != nil {
			if a.Tag == 8 {
				l := make([]interface{}, len(a.Strs))
				for i, x := range a.Strs {
					l[i] = x
				}
				return l
			}
			return append([]string(nil), a.Strs...)
		}
		return mkOther(a.Tag)
	case AVObj:
		if v, ok := shared[a]; ok {
			return v
		}
		if a.Nil && len(a.Keys) == 0 {
			// a nil map of the object type inside the object: a non-nil interface value, every lookup in it is absent
			return map[string]interface{}(nil)
		}
		m := make(map[string]interface{}, len(a.Keys))
		shared[a] = m
		for i, k := range a.Keys {
			m[k] = a.Vals[i].Go(shared)
		}
		return m
	}
	return nil
}

func (a *AV) GoMap() map[string]interface{} {
	if a.Nil {
		return nil
	}
	return a.Go(map[*AV]interface{}{}).(map[string]interface{})
}

func (a *AV) Get(k string) *AV {
	for i, kk := range a.Keys {
		if kk == k {
			return a.Vals[i]
		}
	}
	return nil
}

func (a *AV) Set(k string, v *AV) {
	for i, kk := range a.Keys {
		if kk == k {
			a.Vals[i] = v
			return
		}
	}
	a.Keys = append(a.Keys, k)
	a.Vals = append(a.Vals, v)
}

// all strings inside (for the lower-case table)
func (a *AV) Strings(out map[string]bool) {
	switch a.K {
	case AVStr, AVStringer:
		out[a.S] = true
	case AVObj:
		for _, v := range a.Vals {
			v.Strings(out)
		}
	}
}

// ---- deep snapshot of a Go value (C13): structure, values, float bits, map identity ----
func snapshot(v interface{}, ids map[uintptr]int, sb *strings.Builder) {
	switch x := v.(type) {
	case nil:
		sb.WriteString("nil")
	case map[string]interface{}:
		if x == nil {
			sb.WriteString("nilmap")
			return
		}
		p := reflect.ValueOf(x).Pointer()
		if id, ok := ids[p]; ok {
			fmt.Fprintf(sb, "ref#%d", id)
			return
		}
		ids[p] = len(ids)
		keys := make([]string, 0, len(x))
		for k := range x {
			keys = append(keys, k)
		}
		sort.Strings(keys)
		fmt.Fprintf(sb, "map#%d{", ids[p])
		for _, k := range keys {
			fmt.Fprintf(sb, "%q:", k)
			snapshot(x[k], ids, sb)
			sb.WriteString(",")
		}
		sb.WriteString("}")
	case float64:
		fmt.Fprintf(sb, "f64:%016x", math.Float64bits(x))
	case float32:
		fmt.Fprintf(sb, "f32:%08x", math.Float32bits(x))
	case string:
		fmt.Fprintf(sb, "s:%q", x)
	case namedMap:
		sb.WriteString("named{")
		keys := make([]string, 0, len(x))
		for k := range x {
			keys = append(keys, k)
		}
		sort.Strings(keys)
		for _, k := range keys {
			fmt.Fprintf(sb, "%q:", k)
			snapshot(x[k], ids, sb)
			sb.WriteString(",")
		}
		sb.WriteString("}")
	case []interface{}:
		sb.WriteString("[")
		for _, e := range x {
			snapshot(e, ids, sb)
			sb.WriteString(",")
		}
		sb.WriteString("]")
	case *map[string]interface{}:
		sb.WriteString("ptr:")
		snapshot(*x, ids, sb)
	case func():
		sb.WriteString("func")
	case chan int:
		fmt.Fprintf(sb, "chan:%d", len(x))
	default:
		switch x := v.(type) {
		case *strMut:
			fmt.Fprintf(sb, "strMut:%d:%q", x.id, x.s)
		case strOK:
			fmt.Fprintf(sb, "strOK:%d:%q", x.id, x.s) // never format a test Stringer with %v: that would call (and log) String()
		case strPanic:
			fmt.Fprintf(sb, "strPanic:%d", x.id)
		case strSelfPanic:
			fmt.Fprintf(sb, "strSelfPanic:%d", x.id)
		case strSelfPanicFn:
			fmt.Fprintf(sb, "strSelfPanicFn:%d", x.id)
		default:
			fmt.Fprintf(sb, "%T:%s:%s", v, panicTextV(v), goSyntaxV(v))
		}
	}
}

func snap(v interface{}) string {
	var sb strings.Builder
	snapshot(v, map[uintptr]int{}, &sb)
	return sb.String()
}

// goSyntaxV: %#v of an arbitrary value (shows the dynamic types inside containers), guarded like panicTextV
func goSyntaxV(v interface{}) (s string) {
	defer func() {
		if recover() != nil {
			s = "<unprintable>"
		}
	}()
	return fmt.Sprintf("%#v", v)
}

// panicTextV: %v of an arbitrary value, guarded (a value's own String() may panic in a way fmt does not absorb)
func panicTextV(v interface{}) (s string) {
	defer func() {
		if recover() != nil {
			s = "<unprintable>"
		}
	}()
	return fmt.Sprintf("%v", v)
}
