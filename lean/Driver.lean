import RulesModel.Model.Spec
import RulesModel.Model.NestedError
import RulesModel.Generated.Grammar
import Std.Data.HashMap
/-!
# `rulesdrv`: the model behind a line protocol (DESIGN §4.2)

One request per line (tab-separated fields), one answer per line. Imports Model/* and Generated/* only
(core Lean, no Mathlib) so that it links as an executable.
-/
open Rules
open Rules.P (Tree Lit Tok STRING)

namespace Drv

def hexVal (c : Char) : Nat :=
  if '0' ≤ c ∧ c ≤ '9' then c.toNat - 48
  else if 'a' ≤ c ∧ c ≤ 'f' then c.toNat - 87
  else if 'A' ≤ c ∧ c ≤ 'F' then c.toNat - 55 else 0

/-- "-" is the empty string -/
def unhex (s : String) : Bytes :=
  if s = "-" then [] else
  let rec go : List Char → List UInt8
    | a :: b :: r => UInt8.ofNat (hexVal a * 16 + hexVal b) :: go r
    | _ => []
  go s.toList

def hexDigit (n : Nat) : Char := if n < 10 then Char.ofNat (48 + n) else Char.ofNat (87 + n)

def hex (b : Bytes) : String :=
  if b.isEmpty then "-" else
  String.ofList (b.foldr (fun x acc => hexDigit (x.toNat / 16) :: hexDigit (x.toNat % 16) :: acc) [])

def hexOfString (s : String) : String := hex (bytesOf s)

/-- rule text (already `string([]rune(s))`, i.e. valid UTF-8) → runes -/
def runesOf (b : Bytes) : List Char :=
  match String.fromUTF8? (ByteArray.mk b.toArray) with
  | some s => s.toList
  | none => []

def parseIntStr (s : String) : Int :=
  match s.toList with
  | '-' :: r => -((String.ofList r).toNat!)
  | _ => s.toNat!

/-! ### values in prefix notation -/

partial def parseValue : List String → Option (Value × List String)
  | "N" :: r => some (.null, r)
  | "B" :: b :: r => some (.bool (b == "1"), r)
  | "I" :: n :: r => some (.int (parseIntStr n), r)
  | "I32" :: n :: r => some (.int32 (parseIntStr n), r)
  | "I64" :: n :: r => some (.int64 (parseIntStr n), r)
  | "F" :: h :: r =>
    let n := h.toList.foldl (fun a c => a * 16 + hexVal c) 0
    some (.float (F64.ofBits (UInt64.ofNat n)), r)
  | "S" :: h :: r => some (.str (unhex h), r)
  | "T" :: id :: "R" :: h :: r => some (.stringer id.toNat! (.ret (unhex h)), r)
  | "T" :: id :: "P" :: r => some (.stringer id.toNat! .panics, r)
  | "X" :: t :: r => some (.other t.toNat!, r)
  | "O" :: n :: r =>
    let rec go (k : Nat) (acc : List (Bytes × Value)) (r : List String) : Option (Value × List String) :=
      match k with
      | 0 => some (.obj acc.reverse, r)
      | k + 1 =>
        match r with
        | key :: r1 =>
          match parseValue r1 with
          | some (v, r2) => go k ((unhex key, v) :: acc) r2
          | none => none
        | [] => none
    go n.toNat! [] r
  | _ => none

def parseObj (s : String) : Option (List (Bytes × Value)) :=
  match parseValue (s.splitOn " ") with
  | some (.obj kvs, _) => some kvs
  | _ => none

/-! ### lower-casing: ASCII computed, everything else looked up in the table sent with the case -/

def isAscii (b : Bytes) : Bool := b.all (· < 128)
def asciiLower (b : Bytes) : Bytes := b.map (fun c => if 65 ≤ c ∧ c ≤ 90 then c + 32 else c)

def parseLowMap (s : String) : List (Bytes × Bytes) :=
  let rec go : List String → List (Bytes × Bytes)
    | a :: b :: r => (unhex a, unhex b) :: go r
    | _ => []
  if s = "-" then [] else go (s.splitOn " ")

def lowerFn (m : List (Bytes × Bytes)) (b : Bytes) : Bytes :=
  if isAscii b then asciiLower b else
  match m.lookup b with
  | some l => l
  | none => b

partial def valueStrings : Value → List Bytes
  | .str s => [s]
  | .stringer _ (.ret s) => [s]
  | .obj kvs => kvs.foldl (fun acc kv => acc ++ valueStrings kv.2) []
  | _ => []

def litStrings : Lit → List Bytes
  | .str t => [getStringLit t]
  | .list k xs => if k = STRING then xs.map getStringLit else []
  | _ => []

def treeStrings : Tree → List Bytes
  | .paren _ q => treeStrings q
  | .logical _ l r => treeStrings l ++ treeStrings r
  | .present _ => []
  | .compare _ _ v => litStrings v

def lowOK (m : List (Bytes × Bytes)) (ss : List Bytes) : Bool :=
  ss.all (fun b => isAscii b || (m.lookup b).isSome)

/-! ### printing -/

def errStr : Option EvalErr → String
  | none => "-"
  | some .invalidOperation => "invop"
  | some .badLiteral => "badlit"
  | some .unknownOp => "unk"
  | some .syntax => "syn"
  | some (.panic _) => "panic"

def dbgStr : Option Dbg → String
  | none => "-"
  | some .invalidOperation => "invop"
  | some .missing => "missing"
  | some .invalidOperand => "invopnd"
  | some .other => "other"

/-- Stringer id 0 stands for a Stringer of the Go standard library (json.Number) whose calls the harness cannot log:
it is left out of the printed call list on both sides -/
def callsStr (c0 : List Nat) : String :=
  let c := c0.filter (· != 0)
  if c.isEmpty then "-" else ",".intercalate (c.map toString)

def outStr (o : ProcOut) : String :=
  s!"v={if o.verdict then 1 else 0} e={errStr o.err} d={dbgStr o.debug} c={callsStr o.calls}"

def parseErr : String → Option EvalErr
  | "invop" => some .invalidOperation
  | "badlit" => some .badLiteral
  | "unk" => some .unknownOp
  | "syn" => some .syntax
  | "panic" => some (.panic .stringer)
  | _ => none

def parseDbg : String → Option Dbg
  | "invop" => some .invalidOperation
  | "missing" => some .missing
  | "invopnd" => some .invalidOperand
  | "other" => some .other
  | _ => none

def parseCalls (s : String) : List Nat :=
  if s = "-" then [] else (s.splitOn ",").map String.toNat!

/-- "v e d c" as four space-separated fields -/
def parseOut : List String → Option (ProcOut × List String)
  | v :: e :: d :: c :: r => some ({ verdict := v == "1", err := parseErr e, debug := parseDbg d, calls := parseCalls c }, r)
  | _ => none

def litStr : Lit → String
  | .bool t => "b:" ++ t
  | .null => "n"
  | .version t => "v:" ++ t
  | .str t => "s:" ++ hexOfString t
  | .double t => "d:" ++ t
  | .long neg i e => "l:" ++ (if neg then "-" else "") ++ i ++ e.getD ""
  | .list k xs => s!"L{k}:" ++ ";".intercalate (xs.map (fun x => if k = STRING then hexOfString x else x))

def treeStr : Tree → String
  | .paren neg q => (if neg then "N " else "P ") ++ treeStr q
  | .logical op l r => (if op = "or" then "O " else if op = "and" then "A " else "?" ++ op ++ " ") ++ treeStr l ++ " " ++ treeStr r
  | .present p => "R " ++ ".".intercalate p
  | .compare p k v => "C " ++ ".".intercalate p ++ s!" {k} " ++ litStr v

/-! ### shapes for COMB: a tree whose leaves are indices into a table of outcomes -/

partial def parseShape : List String → Option (Tree × List String)
  | "A" :: r => do let (l, r1) ← parseShape r; let (q, r2) ← parseShape r1; pure (.logical "and" l q, r2)
  | "O" :: r => do let (l, r1) ← parseShape r; let (q, r2) ← parseShape r1; pure (.logical "or" l q, r2)
  | "P" :: r => do let (q, r1) ← parseShape r; pure (.paren false q, r1)
  | "N" :: r => do let (q, r1) ← parseShape r; pure (.paren true q, r1)
  | "L" :: i :: r => some (.present [i], r)
  | _ => none

def parseOuts (n : Nat) (r : List String) : Option (List ProcOut) :=
  match n with
  | 0 => some []
  | n + 1 => do let (o, r1) ← parseOut r; let os ← parseOuts n r1; pure (o :: os)

def leafTable (tbl : Array ProcOut) : Tree → ProcOut
  | .present [i] => tbl.getD i.toNat! syntaxOut
  | _ => syntaxOut

/-! ### API op sequences -/

def apiOutStr : ApiOut → String
  | .proc o => outStr o
  | .unit => "unit"
  | .dbg d => "dbg=" ++ dbgStr d

/-- ops separated by " ; " : `P <obj>` | `R` | `D` -/
def parseOps (s : String) : Option (List ApiOp) :=
  (s.splitOn " ; ").mapM fun t =>
    match t.splitOn " " with
    | ["R"] => some .reset
    | ["D"] => some .lastDebug
    | "P" :: r => match parseValue r with
      | some (.obj kvs, _) => some (.process kvs)
      | _ => none
    | _ => none

/-- ops for SEQP: `P v e d c` (the answer Go's own fresh evaluator gave) | `R` | `D` -/
def parseOpsP (s : String) : Option (List (ApiOp × Option ProcOut)) :=
  (s.splitOn " ; ").mapM fun t =>
    match t.splitOn " " with
    | ["R"] => some (.reset, none)
    | ["D"] => some (.lastDebug, none)
    | "P" :: r => match parseOut r with
      | some (o, _) => some (.process [], some o)
      | none => none
    | _ => none

def runP (e : Evaluator) : List (ApiOp × Option ProcOut) → List ApiOut
  | [] => []
  | (op, ans) :: rest =>
    let (e', o) := stepWith (fun _ _ => ans.getD syntaxOut) e op
    o :: runP e' rest

def opName : CmpOp → String
  | .eq => "eq" | .ne => "ne" | .gt => "gt" | .lt => "lt" | .ge => "ge" | .le => "le" | .co => "co" | .sw => "sw" | .ew => "ew" | .in_ => "in"

def kindName : OpKind → String
  | .null => "null" | .bool => "bool" | .int => "int" | .float => "float" | .string => "string" | .version => "version"

def valClass : Value → String
  | .null => "absent" | .bool _ => "bool" | .int _ => "int" | .int32 _ => "int32" | .int64 _ => "int64" | .float _ => "float64"
  | .str _ => "string" | .obj _ => "object" | .stringer _ _ => "stringer" | .other _ => "other"

/-- which arm of the model a comparison takes: literal type . operator . attribute class . result class -/
def leafKey (lower : Bytes → Bytes) (item : List (Bytes × Value)) : Tree → String
  | .present p => match denote item p with
    | .ok v => "pr." ++ valClass v
    | .error _ => "pr.panic"
  | .compare p k lit =>
    match denote item p, litOperand lit, cmpOfKind k with
    | .error _, _, _ => "cmp.path-panic"
    | _, none, _ => "cmp.bad-literal"
    | _, _, none => "cmp.unknown-op"
    | .ok v, some (kind, r), some op =>
      let res := match apply lower kind op v r with
        | .ok true _ => "true" | .ok false _ => "false" | .panic _ => "panic"
        | .err .invalidOperation _ => "invalid-operation" | .err .missing _ => "missing"
        | .err .invalidOperand _ => "invalid-operand" | .err .other _ => "other-error"
      kindName kind ++ "." ++ opName op ++ "." ++ valClass v ++ "." ++ res
  | _ => "?"

def tokStr (t : Token) : String := s!"{t.kind}:{hexOfString (String.ofList t.text)}"

def handle (rules : List (Rules.Kind × Regex)) (line : String) : String :=
  match line.splitOn "\t" with
  | ["LEX", h] =>
    match lex rules (runesOf (unhex h)) with
    | none => "LEXERR"
    | some ts => "OK " ++ " ".intercalate (ts.map tokStr)
  | ["PARSE", h] =>
    match lex rules (runesOf (unhex h)) with
    | none => "LEXERR"
    | some ts =>
      match P.parse (ts.map toTok) with
      | none => "SYNERR"
      | some t => "OK " ++ treeStr t
  | ["TRIM", h] => hexOfString (String.ofList (trimSpace (runesOf (unhex h))))
  | ["EVAL", lm, h, obj] =>
    match parseObj obj with
    | none => "BADOBJ"
    | some item =>
      let m := parseLowMap lm
      let e := newEvaluator rules (runesOf (unhex h))
      let ss := (valueStrings (.obj item)) ++ (match e.tree with | some t => treeStrings t | none => [])
      if !lowOK m ss then "NOLOWER" else
      outStr (e.process (lowerFn m) item).2
  | ["SEQ", lm, h, ops] =>
    match parseOps ops with
    | none => "BADOPS"
    | some ops =>
      let m := parseLowMap lm
      let e := newEvaluator rules (runesOf (unhex h))
      let ss := ops.foldl (fun acc op => match op with | .process item => acc ++ valueStrings (.obj item) | _ => acc)
        (match e.tree with | some t => treeStrings t | none => [])
      if !lowOK m ss then "NOLOWER" else
      " | ".intercalate ((runWith (processTree (lowerFn m)) e ops).map apiOutStr)
  | ["SEQP", syn, ops] =>
    match parseOpsP ops with
    | none => "BADOPS"
    | some ops =>
      let e : Evaluator := { tree := if syn = "1" then none else some (.present ["x"]), lastDebug := none }
      " | ".intercalate ((runP e ops).map apiOutStr)
  | ["COMB", shape, leaves] =>
    match parseShape (shape.splitOn " ") with
    | none => "BADSHAPE"
    | some (t, _) =>
      match leaves.splitOn " " with
      | n :: r =>
        match parseOuts n.toNat! r with
        | none => "BADLEAVES"
        | some os => outStr (combine (leafTable os.toArray) t)
      | [] => "BADLEAVES"
  | ["FLT", t] =>
    match parseFloatLit t with
    | none => "range"
    | some f => String.ofList (Nat.toDigits 16 (F64.toBits f))
  | ["INTF", n] => String.ofList (Nat.toDigits 16 (F64.toBits (F64.ofInt (parseIntStr n))))
  | ["SEMVER", a, b] =>
    match Sv.parse (natBytes (unhex a)), Sv.parse (natBytes (unhex b)) with
    | none, _ => "errA"
    | _, none => "errB"
    | some x, some y => (match x.cmp y with | .lt => "lt" | .eq => "eq" | .gt => "gt")
  | "NERR" :: rest => NErr.handle rest
  | _ => "BADCMD"

/-- model arms exercised by an EVAL request (reached comparisons only) -/
def statKeys (rules : List (Rules.Kind × Regex)) (line : String) : List String :=
  match line.splitOn "\t" with
  | ["EVAL", lm, h, obj] =>
    match parseObj obj with
    | none => []
    | some item =>
      let e := newEvaluator rules (runesOf (unhex h))
      match e.tree with
      | none => ["syntax-error"]
      | some t => (reached (lowerFn (parseLowMap lm)) item t).map (leafKey (lowerFn (parseLowMap lm)) item)
  | _ => []

partial def loop (rules : List (Rules.Kind × Regex)) (hin hout : IO.FS.Stream) (stats : IO.Ref (Std.HashMap String Nat)) : IO Unit := do
  let line ← hin.getLine
  if line.isEmpty then return ()
  let l := if line.endsWith "\n" then (line.dropEnd 1).toString else line
  if l == "FLUSH" then hout.flush
  else if l == "STATS" then
    let m ← stats.get
    let arr := m.toArray.qsort (fun a b => a.1 < b.1)
    hout.putStrLn (";".intercalate (arr.toList.map fun (k, v) => s!"{k}={v}"))
  else
    hout.putStrLn (handle rules l)
    if l.startsWith "EVAL" then
      for k in statKeys rules l do
        stats.modify fun m => m.insert k (m.getD k 0 + 1)
  loop rules hin hout stats

end Drv

def main : IO Unit := do
  let hin ← IO.getStdin
  let hout ← IO.getStdout
  let stats ← IO.mkRef (∅ : Std.HashMap String Nat)
  Drv.loop Rules.Generated.lexerRules hin hout stats
  hout.flush
