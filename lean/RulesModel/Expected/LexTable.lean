import RulesModel.Model.LexSep
/-!
# The tables the proofs were written against (DESIGN §4.1)

Frozen copies of what /verif/extract produced from the tree the model was transcribed from.
`Generated.*` (rewritten from /repo on every run) is tied to these in `RulesModel/Tie/*.lean`.
-/
namespace Rules
open Regex

/-- token rules of parser/JsonQuery.g4 in priority order (implicit literals first) -/
def jqRules : List (Kind × Regex) := [
  (1, (.range 40 40)),
  (2, (.range 41 41)),
  (3, (.seq (.range 112 112) (.range 114 114))),
  (4, (.range 46 46)),
  (5, (.range 45 45)),
  (6, (.range 91 91)),
  (7, (.range 93 93)),
  (8, (.alt (.seq (.range 110 110) (.seq (.range 111 111) (.range 116 116))) (.seq (.range 78 78) (.seq (.range 79 79) (.range 84 84))))),
  (9, (.alt (.seq (.range 97 97) (.seq (.range 110 110) (.range 100 100))) (.seq (.range 111 111) (.range 114 114)))),
  (10, (.alt (.seq (.range 116 116) (.seq (.range 114 114) (.seq (.range 117 117) (.range 101 101)))) (.seq (.range 102 102) (.seq (.range 97 97) (.seq (.range 108 108) (.seq (.range 115 115) (.range 101 101))))))),
  (11, (.seq (.range 110 110) (.seq (.range 117 117) (.seq (.range 108 108) (.range 108 108))))),
  (12, (.alt (.seq (.range 73 73) (.range 78 78)) (.seq (.range 105 105) (.range 110 110)))),
  (13, (.alt (.seq (.range 101 101) (.range 113 113)) (.alt (.seq (.range 69 69) (.range 81 81)) (.seq (.range 61 61) (.range 61 61))))),
  (14, (.alt (.seq (.range 110 110) (.range 101 101)) (.alt (.seq (.range 78 78) (.range 69 69)) (.seq (.range 33 33) (.range 61 61))))),
  (15, (.alt (.seq (.range 103 103) (.range 116 116)) (.alt (.seq (.range 71 71) (.range 84 84)) (.range 62 62)))),
  (16, (.alt (.seq (.range 108 108) (.range 116 116)) (.alt (.seq (.range 76 76) (.range 84 84)) (.range 60 60)))),
  (17, (.alt (.seq (.range 103 103) (.range 101 101)) (.alt (.seq (.range 71 71) (.range 69 69)) (.seq (.range 62 62) (.range 61 61))))),
  (18, (.alt (.seq (.range 108 108) (.range 101 101)) (.alt (.seq (.range 76 76) (.range 69 69)) (.seq (.range 60 60) (.range 61 61))))),
  (19, (.alt (.seq (.range 99 99) (.range 111 111)) (.seq (.range 67 67) (.range 79 79)))),
  (20, (.alt (.seq (.range 115 115) (.range 119 119)) (.seq (.range 83 83) (.range 87 87)))),
  (21, (.alt (.seq (.range 101 101) (.range 119 119)) (.seq (.range 69 69) (.range 87 87)))),
  (22, (.seq (.alt (.range 65 90) (.range 97 122)) (.star (.alt (.range 45 45) (.alt (.range 95 95) (.alt (.range 58 58) (.alt (.range 48 57) (.alt (.range 65 90) (.range 97 122))))))))),
  (23, (.seq (.alt (.range 48 48) (.seq (.range 49 57) (.star (.range 48 57)))) (.seq (.range 46 46) (.seq (.alt (.range 48 48) (.seq (.range 49 57) (.star (.range 48 57)))) (.seq (.range 46 46) (.alt (.range 48 48) (.seq (.range 49 57) (.star (.range 48 57))))))))),
  (24, (.seq (.range 34 34) (.seq (.star (.alt (.seq (.range 92 92) (.alt (.alt (.range 34 34) (.alt (.range 92 92) (.alt (.range 47 47) (.alt (.range 98 98) (.alt (.range 102 102) (.alt (.range 110 110) (.alt (.range 114 114) (.range 116 116)))))))) (.seq (.range 117 117) (.seq (.alt (.range 48 57) (.alt (.range 97 102) (.range 65 70))) (.seq (.alt (.range 48 57) (.alt (.range 97 102) (.range 65 70))) (.seq (.alt (.range 48 57) (.alt (.range 97 102) (.range 65 70))) (.alt (.range 48 57) (.alt (.range 97 102) (.range 65 70))))))))) (.notIn [34, 92]))) (.range 34 34)))),
  (25, (.seq (.alt (.range 45 45) .eps) (.seq (.alt (.range 48 48) (.seq (.range 49 57) (.star (.range 48 57)))) (.seq (.range 46 46) (.seq (.seq (.range 48 57) (.star (.range 48 57))) (.alt (.seq (.alt (.range 69 69) (.range 101 101)) (.seq (.alt (.alt (.range 43 43) (.range 45 45)) .eps) (.alt (.range 48 48) (.seq (.range 49 57) (.star (.range 48 57)))))) .eps)))))),
  (26, (.alt (.range 48 48) (.seq (.range 49 57) (.star (.range 48 57))))),
  (27, (.seq (.alt (.range 69 69) (.range 101 101)) (.seq (.alt (.alt (.range 43 43) (.range 45 45)) .eps) (.alt (.range 48 48) (.seq (.range 49 57) (.star (.range 48 57))))))),
  (28, (.range 10 10)),
  (29, (.seq (.range 44 44) (.star (.range 32 32)))),
  (30, (.seq (.range 32 32) (.star (.range 10 10))))]

namespace Expected
def lexerRuleNames : List String := ["'('", "')'", "'pr'", "'.'", "'-'", "'['", "']'", "NOT", "LOGICAL_OPERATOR", "BOOLEAN", "NULL", "IN", "EQ", "NE", "GT", "LT", "GE", "LE", "CO", "SW", "EW", "ATTRNAME", "VERSION", "STRING", "DOUBLE", "INT", "EXP", "NEWLINE", "COMMA", "SP"]

def parserRules : List String := [
  "query : NOT? SP? \"(\" SP? query SP? \")\" #parenExp | query SP LOGICAL_OPERATOR SP query #logicalExp | attrPath SP \"pr\" #presentExp | attrPath SP op=(EQ | NE | GT | LT | GE | LE | CO | SW | EW | IN) SP value #compareExp",
  "attrPath : ATTRNAME subAttr?",
  "subAttr : \".\" attrPath",
  "value : BOOLEAN #boolean | NULL #null | VERSION #version | STRING #string | DOUBLE #double | \"-\"? INT EXP? #long | listInts #listOfInts | listDoubles #listOfDoubles | listStrings #listOfStrings",
  "listStrings : \"[\" subListOfStrings",
  "subListOfStrings : STRING COMMA subListOfStrings | STRING \"]\"",
  "listDoubles : \"[\" subListOfDoubles",
  "subListOfDoubles : DOUBLE COMMA subListOfDoubles | DOUBLE \"]\"",
  "listInts : \"[\" subListOfInts",
  "subListOfInts : INT COMMA subListOfInts | INT \"]\""]

def spellings : List (String × List String) := [
  ("'('", ["("]),
  ("')'", [")"]),
  ("'pr'", ["pr"]),
  ("'.'", ["."]),
  ("'-'", ["-"]),
  ("'['", ["["]),
  ("']'", ["]"]),
  ("NOT", ["not", "NOT"]),
  ("LOGICAL_OPERATOR", ["and", "or"]),
  ("BOOLEAN", ["true", "false"]),
  ("NULL", ["null"]),
  ("IN", ["IN", "in"]),
  ("EQ", ["eq", "EQ", "=="]),
  ("NE", ["ne", "NE", "!="]),
  ("GT", ["gt", "GT", ">"]),
  ("LT", ["lt", "LT", "<"]),
  ("GE", ["ge", "GE", ">="]),
  ("LE", ["le", "LE", "<="]),
  ("CO", ["co", "CO"]),
  ("SW", ["sw", "SW"]),
  ("EW", ["ew", "EW"]),
  ("NEWLINE", ["\n"])]

def tokenConsts : List (String × String) := [("T__0", "1"),
  ("T__1", "2"),
  ("T__2", "3"),
  ("T__3", "4"),
  ("T__4", "5"),
  ("T__5", "6"),
  ("T__6", "7"),
  ("NOT", "8"),
  ("LOGICAL_OPERATOR", "9"),
  ("BOOLEAN", "10"),
  ("NULL", "11"),
  ("IN", "12"),
  ("EQ", "13"),
  ("NE", "14"),
  ("GT", "15"),
  ("LT", "16"),
  ("GE", "17"),
  ("LE", "18"),
  ("CO", "19"),
  ("SW", "20"),
  ("EW", "21"),
  ("ATTRNAME", "22"),
  ("VERSION", "23"),
  ("STRING", "24"),
  ("DOUBLE", "25"),
  ("INT", "26"),
  ("EXP", "27"),
  ("NEWLINE", "28"),
  ("COMMA", "29"),
  ("SP", "30")]

def lexerConsts : List (String × String) := [("T__0", "1"),
  ("T__1", "2"),
  ("T__2", "3"),
  ("T__3", "4"),
  ("T__4", "5"),
  ("T__5", "6"),
  ("T__6", "7"),
  ("NOT", "8"),
  ("LOGICAL_OPERATOR", "9"),
  ("BOOLEAN", "10"),
  ("NULL", "11"),
  ("IN", "12"),
  ("EQ", "13"),
  ("NE", "14"),
  ("GT", "15"),
  ("LT", "16"),
  ("GE", "17"),
  ("LE", "18"),
  ("CO", "19"),
  ("SW", "20"),
  ("EW", "21"),
  ("ATTRNAME", "22"),
  ("VERSION", "23"),
  ("STRING", "24"),
  ("DOUBLE", "25"),
  ("INT", "26"),
  ("EXP", "27"),
  ("NEWLINE", "28"),
  ("COMMA", "29"),
  ("SP", "30")]

def opTable : List (String × String) := [("NullOperation.EQ", "isnil"),
  ("NullOperation.NE", "notnil"),
  ("NullOperation.GT", "invalid"),
  ("NullOperation.LT", "invalid"),
  ("NullOperation.GE", "invalid"),
  ("NullOperation.LE", "invalid"),
  ("NullOperation.CO", "invalid"),
  ("NullOperation.SW", "invalid"),
  ("NullOperation.EW", "invalid"),
  ("NullOperation.IN", "invalid"),
  ("BoolOperation.EQ", "rel(==);propagate"),
  ("BoolOperation.NE", "rel(!=);propagate"),
  ("BoolOperation.GT", "inherit:NullOperation"),
  ("BoolOperation.LT", "inherit:NullOperation"),
  ("BoolOperation.GE", "inherit:NullOperation"),
  ("BoolOperation.LE", "inherit:NullOperation"),
  ("BoolOperation.CO", "inherit:NullOperation"),
  ("BoolOperation.SW", "inherit:NullOperation"),
  ("BoolOperation.EW", "inherit:NullOperation"),
  ("BoolOperation.IN", "inherit:NullOperation"),
  ("IntOperation.EQ", "fdel;rel(==);propagate"),
  ("IntOperation.NE", "fdel;rel(!=);propagate"),
  ("IntOperation.GT", "fdel;rel(>);propagate"),
  ("IntOperation.LT", "fdel;rel(<);propagate"),
  ("IntOperation.GE", "fdel;rel(>=);propagate"),
  ("IntOperation.LE", "fdel;rel(<=);propagate"),
  ("IntOperation.CO", "inherit:NullOperation"),
  ("IntOperation.SW", "inherit:NullOperation"),
  ("IntOperation.EW", "inherit:NullOperation"),
  ("IntOperation.IN", "as-modelled:IntOperation.IN"),
  ("FloatOperation.EQ", "rel(==);propagate"),
  ("FloatOperation.NE", "rel(!=);propagate"),
  ("FloatOperation.GT", "rel(>);propagate"),
  ("FloatOperation.LT", "rel(<);propagate"),
  ("FloatOperation.GE", "rel(>=);propagate"),
  ("FloatOperation.LE", "rel(<=);propagate"),
  ("FloatOperation.CO", "inherit:NullOperation"),
  ("FloatOperation.SW", "inherit:NullOperation"),
  ("FloatOperation.EW", "inherit:NullOperation"),
  ("FloatOperation.IN", "as-modelled:FloatOperation.IN"),
  ("StringOperation.EQ", "rel(==);propagate"),
  ("StringOperation.NE", "rel(!=);propagate"),
  ("StringOperation.GT", "rel(>);propagate"),
  ("StringOperation.LT", "rel(<);propagate"),
  ("StringOperation.GE", "rel(>=);propagate"),
  ("StringOperation.LE", "rel(<=);propagate"),
  ("StringOperation.CO", "rel(Contains);propagate"),
  ("StringOperation.SW", "rel(HasPrefix);propagate"),
  ("StringOperation.EW", "rel(HasSuffix);propagate"),
  ("StringOperation.IN", "as-modelled:StringOperation.IN"),
  ("VersionOperation.EQ", "rel(semver.EQ);propagate"),
  ("VersionOperation.NE", "rel(semver.NE);propagate"),
  ("VersionOperation.GT", "rel(semver.GT);propagate"),
  ("VersionOperation.LT", "rel(semver.LT);propagate"),
  ("VersionOperation.GE", "rel(semver.GE);propagate"),
  ("VersionOperation.LE", "rel(semver.LE);propagate"),
  ("VersionOperation.CO", "inherit:NullOperation"),
  ("VersionOperation.SW", "inherit:NullOperation"),
  ("VersionOperation.EW", "inherit:NullOperation"),
  ("VersionOperation.IN", "inherit:NullOperation")]

def dispatch : List (String × String) := [("EQ", "EQ"),
  ("NE", "NE"),
  ("GT", "GT"),
  ("LT", "LT"),
  ("LE", "LE"),
  ("GE", "GE"),
  ("CO", "CO"),
  ("SW", "SW"),
  ("EW", "EW"),
  ("IN", "IN")]

def litOps : List (String × String) := [("VisitBoolean", "BoolOperation"),
  ("VisitDouble", "FloatOperation"),
  ("VisitListOfDoubles", "FloatOperation"),
  ("VisitListOfInts", "IntOperation"),
  ("VisitListOfStrings", "StringOperation"),
  ("VisitLong", "IntOperation"),
  ("VisitNull", "NullOperation"),
  ("VisitString", "StringOperation"),
  ("VisitVersion", "VersionOperation")]

def coercions : List (String × String) := [("toInt", "as-modelled:toInt"),
  ("toFloat", "as-modelled:toFloat"),
  ("StringOperation.getString", "as-modelled:StringOperation.getString"),
  ("IntOperation.get", "as-modelled:IntOperation.get"),
  ("FloatOperation.get", "as-modelled:FloatOperation.get"),
  ("BoolOperation.get", "as-modelled:BoolOperation.get"),
  ("StringOperation.get", "as-modelled:StringOperation.get"),
  ("VersionOperation.get", "as-modelled:VersionOperation.get"),
  ("getString", "as-modelled:getString"),
  ("JsonQueryVisitorImpl.VisitAttrPath", "as-modelled:JsonQueryVisitorImpl.VisitAttrPath"),
  ("JsonQueryVisitorImpl.VisitLogicalExp", "as-modelled:JsonQueryVisitorImpl.VisitLogicalExp"),
  ("JsonQueryVisitorImpl.VisitParenExp", "as-modelled:JsonQueryVisitorImpl.VisitParenExp"),
  ("JsonQueryVisitorImpl.VisitPresentExp", "as-modelled:JsonQueryVisitorImpl.VisitPresentExp"),
  ("JsonQueryVisitorImpl.Visit", "as-modelled:JsonQueryVisitorImpl.Visit"),
  ("NewEvaluator", "as-modelled:NewEvaluator"),
  ("Evaluator.Process", "as-modelled:Evaluator.Process"),
  ("Evaluator.Reset", "as-modelled:Evaluator.Reset"),
  ("Evaluator.LastDebugErr", "as-modelled:Evaluator.LastDebugErr"),
  ("Evaluate", "as-modelled:Evaluate"),
  ("root.Evaluate", "as-modelled:root.Evaluate"),
  ("IntOperation.IN", "as-modelled:IntOperation.IN"),
  ("FloatOperation.IN", "as-modelled:FloatOperation.IN"),
  ("StringOperation.IN", "as-modelled:StringOperation.IN"),
  ("JsonQueryVisitorImpl.VisitCompareExp", "as-modelled:JsonQueryVisitorImpl.VisitCompareExp"),
  ("NestedError.Error", "as-modelled:NestedError.Error"),
  ("NestedError.Set", "as-modelled:NestedError.Set"),
  ("NestedError.Original", "as-modelled:NestedError.Original"),
  ("ErrInvalidOperand.Error", "as-modelled:ErrInvalidOperand.Error")]

def pkgVars : List String := []

def observers : List String := ["*CompareExpContext", "*ErrInvalidOperand", "*LogicalExpContext", "*NestedError", "*ParenExpContext", "*PresentExpContext", "[]float64", "[]int", "[]string", "bool", "float64", "fmt.Stringer", "int", "int32", "int64", "map[string]any", "string"]

def goStmts : Nat := 0
def syncUses : List String := []
def reflectUses : List String := []
end Expected

def kinds (s : String) : Option (List Kind) := (lex jqRules s.toList).map (·.map (·.kind))

-- finite lexer facts named in C20, checked by evaluation in the kernel
example : kinds "order eq 1" = some [22, 30, 13, 30, 26] := by decide +kernel
example : kinds "or" = some [9] := by decide +kernel
example : kinds "1.2.3" = some [23] := by decide +kernel
example : kinds "1.2" = some [25] := by decide +kernel
example : kinds "<=" = some [18] := by decide +kernel
example : kinds "1e5" = some [26, 22] := by decide +kernel
example : kinds "1e+5" = some [26, 27] := by decide +kernel
example : kinds "x ~ 1" = none := by decide +kernel



-- the JsonQuery table: a word starting with any letter, followed by a blank, a dot or a parenthesis, is cut there
example : (List.range 26).all (fun i => sepOK jqRules (97 + i) 32 && sepOK jqRules (65 + i) 32
    && sepOK jqRules (97 + i) 46 && sepOK jqRules (65 + i) 46 && sepOK jqRules (97 + i) 41 && sepOK jqRules (97 + i) 40) = true := by
  decide +kernel



end Rules
