import RulesModel.Model.LexSep
/-!
# The JsonQuery token table the proofs were written against (DESIGN §4.1, T1)
`Generated.lexerRules` (rewritten from parser/JsonQuery.g4 on every run) is tied to this table in Proofs/Tie.lean.
-/
namespace Rules
open Regex

def digit : Regex := rng '0' '9'
def alpha : Regex := alts [rng 'A' 'Z', rng 'a' 'z']
def nameChar : Regex := alts [ch '-', ch '_', ch ':', digit, alpha]
def int : Regex := alts [ch '0', .seq (rng '1' '9') (.star digit)]
def exp : Regex := .seq (alts [ch 'E', ch 'e']) (.seq (opt (alts [ch '+', ch '-'])) int)
def hex : Regex := alts [digit, rng 'a' 'f', rng 'A' 'F']
def esc : Regex := .seq (ch '\\') (alts [alts ("\"\\/bfnrt".toList.map ch), .seq (ch 'u') (.seq hex (.seq hex (.seq hex hex)))])
def strRe : Regex := .seq (ch '"') (.seq (.star (alts [esc, .notIn ['"'.toNat, '\\'.toNat]])) (ch '"'))

def jqRules : List (Kind × Regex) := [
  (1, lit "("), (2, lit ")"), (3, lit "pr"), (4, lit "."), (5, lit "-"), (6, lit "["), (7, lit "]"),
  (8, alts [lit "not", lit "NOT"]), (9, alts [lit "and", lit "or"]), (10, alts [lit "true", lit "false"]), (11, lit "null"),
  (12, alts [lit "IN", lit "in"]), (13, alts [lit "eq", lit "EQ", lit "=="]), (14, alts [lit "ne", lit "NE", lit "!="]),
  (15, alts [lit "gt", lit "GT", lit ">"]), (16, alts [lit "lt", lit "LT", lit "<"]),
  (17, alts [lit "ge", lit "GE", lit ">="]), (18, alts [lit "le", lit "LE", lit "<="]),
  (19, alts [lit "co", lit "CO"]), (20, alts [lit "sw", lit "SW"]), (21, alts [lit "ew", lit "EW"]),
  (22, .seq alpha (.star nameChar)),
  (23, .seq int (.seq (ch '.') (.seq int (.seq (ch '.') int)))),
  (24, strRe),
  (25, .seq (opt (ch '-')) (.seq int (.seq (ch '.') (.seq (plus digit) (opt exp))))),
  (26, int), (27, exp), (28, ch '\n'), (29, .seq (ch ',') (.star (ch ' '))), (30, .seq (ch ' ') (.star (ch '\n')))]

def kinds (s : String) : Option (List Kind) := (lex jqRules s.toList).map (·.map (·.kind))

-- finite lexer facts named in C20, checked by evaluation in the kernel
example : kinds "order eq 1" = some [22, 30, 13, 30, 26] := by decide +kernel
example : kinds "or" = some [9] := by decide +kernel
example : kinds "1.2.3" = some [23] := by decide +kernel
example : kinds "1.2" = some [25] := by decide +kernel
example : kinds "<=" = some [18] := by decide +kernel
example : kinds "1e5" = some [26, 22] := by decide +kernel
example : kinds "1e+5" = some [26, 27] := by decide +kernel
example : kinds "x ~ 1" = none := by decide +kernel



-- the JsonQuery table: a word starting with any letter, followed by a blank, a dot or a parenthesis, is cut there
example : (List.range 26).all (fun i => sepOK jqRules (97 + i) 32 && sepOK jqRules (65 + i) 32
    && sepOK jqRules (97 + i) 46 && sepOK jqRules (65 + i) 46 && sepOK jqRules (97 + i) 41 && sepOK jqRules (97 + i) 40) = true := by
  decide +kernel


end Rules
