import RulesModel.Model.ENFA
import RulesModel.Model.Regex
/-!
# Two ε-NFAs: a regex read as an automaton, and a serialised ANTLR lexer ATN

* `rxM` – states are *continuations* (lists of regexes still to be matched); `rx_lang : Lang rxM [r] s ↔ Matches r s`.
* `atnM A stop` – states are `(ATN state, stack of follow states)`; this **is** the model of how the ANTLR runtime reads
  a lexer ATN for one token rule (ε-, action- and predicate-free: `jsonquery_lexer.go` has neither actions nor
  predicates; the translator refuses other ATNs): an ε-edge moves, a rule edge pushes its follow state and enters the
  callee, a rule-stop state pops, a character edge consumes one code point that passes its test; accepted = the stop
  state of the token rule with an empty stack.
* `explore` – an (untrusted) search for a bisimulation certificate; what counts is `NFA.checkCert` on its result.
-/
namespace Rules.NFA
open Rules Rules.Regex

/-! ### regex continuations -/
def rxEps : List Regex → List (List Regex)
  | .eps :: k => [k]
  | .seq a b :: k => [a :: b :: k]
  | .alt a b :: k => [a :: k, b :: k]
  | .star a :: k => [k, a :: .star a :: k]
  | _ => []

def rxChr : List Regex → List (CharPred × List Regex)
  | .range lo hi :: k => [(⟨false, [(lo, hi)]⟩, k)]
  | .notIn cs :: k => [(⟨true, cs.map fun c => (c, c)⟩, k)]
  | _ => []

def rxM : ENFA (List Regex) := { eps := rxEps, chr := rxChr, acc := List.isEmpty }

/-- a string split along a continuation -/
def MatchesK : List Regex → List Char → Prop
  | [], s => s = []
  | r :: k, s => ∃ s1 s2, s = s1 ++ s2 ∧ Matches r s1 ∧ MatchesK k s2

theorem test_range (lo hi c : Nat) : (CharPred.mk false [(lo, hi)]).test c = (decide (lo ≤ c) && decide (c ≤ hi)) := by
  simp [CharPred.test]

theorem test_notIn (cs : List Nat) (c : Nat) : (CharPred.mk true (cs.map fun x => (x, x))).test c = !decide (c ∈ cs) := by
  simp only [CharPred.test, List.any_map]
  have : (cs.any ((fun iv : Nat × Nat => decide (iv.1 ≤ c) && decide (c ≤ iv.2)) ∘ fun x => (x, x))) = decide (c ∈ cs) := by
    induction cs with
    | nil => simp
    | cons x rest ih =>
      simp only [List.any_cons, ih, Function.comp, List.mem_cons]
      by_cases h : c = x
      · subst h; simp
      · have : ¬ (x ≤ c ∧ c ≤ x) := by omega
        simp [h, this]
  rw [this]
  cases decide (c ∈ cs) <;> rfl

theorem rx_sound {k : List Regex} {s : List Char} (h : Lang rxM k s) : MatchesK k s := by
  induction h with
  | @acc q ha =>
    cases q with
    | nil => rfl
    | cons _ _ => simp [rxM] at ha
  | @eps q q' s he _ ih =>
    match q, he with
    | .eps :: k, he =>
      simp only [rxM, rxEps, List.mem_singleton] at he
      subst he
      exact ⟨[], s, rfl, .eps, ih⟩
    | .seq a b :: k, he =>
      simp only [rxM, rxEps, List.mem_singleton] at he
      subst he
      obtain ⟨s1, r1, rfl, ha, s2, s3, rfl, hb, hk⟩ := ih
      exact ⟨s1 ++ s2, s3, by simp, .seq ha hb, hk⟩
    | .alt a b :: k, he =>
      simp only [rxM, rxEps, List.mem_cons, List.mem_nil_iff, or_false] at he
      rcases he with rfl | rfl
      · obtain ⟨s1, s2, rfl, ha, hk⟩ := ih
        exact ⟨s1, s2, rfl, .altL ha, hk⟩
      · obtain ⟨s1, s2, rfl, hb, hk⟩ := ih
        exact ⟨s1, s2, rfl, .altR hb, hk⟩
    | .star a :: k, he =>
      simp only [rxM, rxEps, List.mem_cons, List.mem_nil_iff, or_false] at he
      rcases he with rfl | rfl
      · exact ⟨[], s, rfl, .starNil, ih⟩
      · obtain ⟨s1, r1, rfl, ha, s2, s3, rfl, hs, hk⟩ := ih
        exact ⟨s1 ++ s2, s3, by simp, .starCons ha hs, hk⟩
    | [], he => simp [rxM, rxEps] at he
    | .empty :: k, he => simp [rxM, rxEps] at he
    | .range _ _ :: k, he => simp [rxM, rxEps] at he
    | .notIn _ :: k, he => simp [rxM, rxEps] at he
  | @chr q p q' c s hm ht _ ih =>
    match q, hm with
    | .range lo hi :: k, hm =>
      simp only [rxM, rxChr, List.mem_singleton, Prod.mk.injEq] at hm
      obtain ⟨rfl, rfl⟩ := hm
      rw [test_range] at ht
      simp only [Bool.and_eq_true, decide_eq_true_eq] at ht
      exact ⟨[c], s, rfl, .range ht.1 ht.2, ih⟩
    | .notIn cs :: k, hm =>
      simp only [rxM, rxChr, List.mem_singleton, Prod.mk.injEq] at hm
      obtain ⟨rfl, rfl⟩ := hm
      rw [test_notIn] at ht
      simp only [Bool.not_eq_true', decide_eq_false_iff_not] at ht
      exact ⟨[c], s, rfl, .notIn ht, ih⟩
    | [], hm => simp [rxM, rxChr] at hm
    | .empty :: k, hm => simp [rxM, rxChr] at hm
    | .eps :: k, hm => simp [rxM, rxChr] at hm
    | .seq _ _ :: k, hm => simp [rxM, rxChr] at hm
    | .alt _ _ :: k, hm => simp [rxM, rxChr] at hm
    | .star _ :: k, hm => simp [rxM, rxChr] at hm

theorem rx_push {r : Regex} {s1 : List Char} (h : Matches r s1) :
    ∀ (k : List Regex) (s2 : List Char), Lang rxM k s2 → Lang rxM (r :: k) (s1 ++ s2) := by
  induction h with
  | eps => intro k s2 hk; exact .eps (by simp [rxM, rxEps]) hk
  | @range lo hi c h1 h2 =>
    intro k s2 hk
    exact .chr (p := ⟨false, [(lo, hi)]⟩) (by simp [rxM, rxChr]) (by rw [test_range]; simp [h1, h2]) hk
  | @notIn cs c h1 =>
    intro k s2 hk
    exact .chr (p := ⟨true, cs.map fun x => (x, x)⟩) (by simp [rxM, rxChr]) (by rw [test_notIn]; simp [h1]) hk
  | @seq a b s t _ _ iha ihb =>
    intro k s2 hk
    have := iha (b :: k) (t ++ s2) (ihb k s2 hk)
    rw [List.append_assoc]
    exact .eps (by simp [rxM, rxEps]) this
  | altL _ ih => intro k s2 hk; exact .eps (by simp [rxM, rxEps]) (ih k s2 hk)
  | altR _ ih => intro k s2 hk; exact .eps (by simp [rxM, rxEps]) (ih k s2 hk)
  | starNil => intro k s2 hk; exact .eps (by simp [rxM, rxEps]) hk
  | @starCons a s t _ _ iha ihs =>
    intro k s2 hk
    have := iha (.star a :: k) (t ++ s2) (ihs k s2 hk)
    rw [List.append_assoc]
    exact .eps (by simp [rxM, rxEps]) this

theorem rx_complete : ∀ (k : List Regex) (s : List Char), MatchesK k s → Lang rxM k s
  | [], s, h => by cases h; exact .acc rfl
  | r :: k, s, h => by
    obtain ⟨s1, s2, rfl, hr, hk⟩ := h
    exact rx_push hr k s2 (rx_complete k s2 hk)

/-- **the continuation automaton of a regex accepts exactly what the regex matches** -/
theorem rx_lang (r : Regex) (s : List Char) : Lang rxM [r] s ↔ Matches r s := by
  constructor
  · intro h
    obtain ⟨s1, s2, rfl, hr, hk⟩ := rx_sound h
    cases hk
    simpa using hr
  · intro h
    exact rx_complete [r] s ⟨s, [], by simp, h, rfl⟩

/-! ### the serialised lexer ATN -/
inductive Edge where
  | eps (src dst : Nat)
  | chr (src : Nat) (p : CharPred) (dst : Nat)
  | call (src callee follow : Nat)
  deriving DecidableEq, Repr

structure ATN where
  edges : List Edge
  stops : List Nat
  deriving Repr

abbrev Cfg := Nat × List Nat

def atnEps (A : ATN) (c : Cfg) : List Cfg :=
  if A.stops.contains c.1 then
    (match c.2 with
     | f :: st => [(f, st)]
     | [] => [])
  else A.edges.filterMap fun e =>
    match e with
    | .eps s d => if s = c.1 then some (d, c.2) else none
    | .call s cal f => if s = c.1 then some (cal, f :: c.2) else none
    | .chr _ _ _ => none

def atnChr (A : ATN) (c : Cfg) : List (CharPred × Cfg) :=
  if A.stops.contains c.1 then [] else A.edges.filterMap fun e =>
    match e with
    | .chr s p d => if s = c.1 then some (p, (d, c.2)) else none
    | _ => none

def atnM (A : ATN) (stop : Nat) : ENFA Cfg :=
  { eps := atnEps A, chr := atnChr A, acc := fun c => decide (c.1 = stop) && c.2.isEmpty }

/-! ### searching for a certificate (nothing here is trusted) -/
section search
variable {σ : Type} [DecidableEq σ]

def insertAll (S : List σ) (xs : List σ) : List σ := xs.foldl (fun acc x => if acc.contains x then acc else acc ++ [x]) S

def closeList (M : ENFA σ) : Nat → List σ → List σ
  | 0, S => S
  | n + 1, S =>
    let S' := insertAll S (S.flatMap M.eps)
    if S'.length = S.length then S else closeList M n S'

def stepSet (M : ENFA σ) (S : List σ) (a : Nat) : List σ :=
  insertAll [] (S.flatMap fun q => (M.chr q).filterMap fun py => if py.1.test a then some py.2 else none)

def sameSet (A B : List σ) : Bool := A.all B.contains && B.all A.contains
end search

section explore
variable {σ₁ σ₂ : Type} [DecidableEq σ₁] [DecidableEq σ₂]

def addPair (ps : List (List σ₁ × List σ₂)) (pq : List σ₁ × List σ₂) : List (List σ₁ × List σ₂) :=
  if ps.any (fun x => sameSet x.1 pq.1 && sameSet x.2 pq.2) then ps else ps ++ [pq]

def explore (M₁ : ENFA σ₁) (M₂ : ENFA σ₂) (cls : List (Nat × Nat)) (fc : Nat) :
    Nat → Nat → List (List σ₁ × List σ₂) → List (List σ₁ × List σ₂)
  | 0, _, ps => ps
  | n + 1, i, ps =>
    match ps[i]? with
    | none => ps
    | some pq =>
      explore M₁ M₂ cls fc n (i + 1)
        (cls.foldl (fun ps ab => addPair ps (closeList M₁ fc (stepSet M₁ pq.1 ab.1), closeList M₂ fc (stepSet M₂ pq.2 ab.1))) ps)
end explore

/-- the certificate the search finds for one token rule -/
def ruleCert (A : ATN) (re : Regex) (start stop : Nat) (cls : List (Nat × Nat)) (fuel : Nat) : Cert (List Regex) Cfg :=
  { pairs := explore rxM (atnM A stop) cls fuel fuel 0 [(closeList rxM fuel [[re]], closeList (atnM A stop) fuel [(start, [])])],
    classes := cls }

/-- everything `rule_equiv` needs, as one executable test -/
def ruleOK (A : ATN) (re : Regex) (start stop : Nat) (cls : List (Nat × Nat)) (fuel : Nat) : Bool :=
  let C := ruleCert A re start stop cls fuel
  checkCert rxM (atnM A stop) C &&
  (match C.pairs.head? with
   | some pq => pq.1.contains [re] && pq.2.contains (start, []) &&
       justB rxM (fun x => decide (x = [re])) pq.1 && justB (atnM A stop) (fun x => decide (x = (start, []))) pq.2
   | none => false)

/-- **the ATN of a token rule accepts exactly what the grammar's rule matches**, when the test passes -/
theorem rule_equiv (A : ATN) (re : Regex) (start stop : Nat) (cls : List (Nat × Nat)) (fuel : Nat)
    (h : ruleOK A re start stop cls fuel = true) (s : List Char) :
    Lang (atnM A stop) (start, []) s ↔ Matches re s := by
  simp only [ruleOK, Bool.and_eq_true] at h
  obtain ⟨hc, hh⟩ := h
  cases hp : (ruleCert A re start stop cls fuel).pairs.head? with
  | none => simp [hp] at hh
  | some pq =>
    simp only [hp, Bool.and_eq_true, List.contains_iff_mem] at hh
    obtain ⟨⟨⟨h1, h2⟩, hj1⟩, hj2⟩ := hh
    have hm : pq ∈ (ruleCert A re start stop cls fuel).pairs := List.mem_of_mem_head? hp
    have := cert_start rxM (atnM A stop) _ hc [re] (start, []) pq.1 pq.2 hm h1 h2 hj1 hj2 s
    rw [← rx_lang re s]
    exact this.symm

end Rules.NFA
