import RulesModel.Model.Visitor
import RulesModel.Model.Lexer
/-!
# `evaluate.go` (both packages): NewEvaluator, Process, Reset, LastDebugErr, the two `Evaluate` functions
and the compositional reading `combine` of a rule (Spec layer, DESIGN §3.9).

Everything is generic in the token table `rules` (instantiated with the table regenerated from JsonQuery.g4)
and in `lower` (strings.ToLower).
-/
namespace Rules
open Rules.P (Tree Lit Kind Tok)

/-- Unicode White_Space, as `strings.TrimSpace` uses it -/
def isSpaceRune (c : Char) : Bool :=
  let n := c.toNat
  n == 0x20 || (0x09 ≤ n && n ≤ 0x0D) || n == 0x85 || n == 0xA0 || n == 0x1680 ||
  (0x2000 ≤ n && n ≤ 0x200A) || n == 0x2028 || n == 0x2029 || n == 0x202F || n == 0x205F || n == 0x3000

def trimSpace (s : List Char) : List Char :=
  ((s.dropWhile isSpaceRune).reverse.dropWhile isSpaceRune).reverse

def toTok (t : Token) : Tok := ⟨t.kind, String.ofList t.text⟩

/-- lexer + parser: the tree of a rule text, `none` when the text is not a sentence -/
def lexParse (rules : List (Kind × Regex)) (s : List Char) : Option Tree :=
  match lex rules s with
  | none => none
  | some ts => P.parse (ts.map toTok)

/-- `Sentence`: the text is derived by the grammar (lexically by the token table, syntactically by `D`) -/
def Sentence (rules : List (Kind × Regex)) (s : List Char) : Prop :=
  ∃ ts t, lex rules s = some ts ∧ P.D false (ts.map toTok) t

structure Evaluator where
  tree : Option Tree              -- `none`: Evaluator.syntaxErr is set
  lastDebug : Option Dbg
  deriving Repr

/-- `parser.NewEvaluator` (never returns an error itself; repair D4 stores the syntax error) -/
def newEvaluator (rules : List (Kind × Regex)) (text : List Char) : Evaluator :=
  { tree := lexParse rules (trimSpace text), lastDebug := none }

def syntaxOut : ProcOut := { verdict := false, err := some .syntax, debug := none, calls := [] }

/-- `Evaluator.Process`, parametric in what evaluating the tree on an object yields -/
def Evaluator.processWith (pf : Tree → List (Bytes × Value) → ProcOut) (e : Evaluator)
    (item : List (Bytes × Value)) : Evaluator × ProcOut :=
  match e.tree with
  | none => ({ e with lastDebug := none }, syntaxOut)
  | some t =>
    let o := pf t item
    ({ e with lastDebug := o.debug }, o)

def Evaluator.process (lower : Bytes → Bytes) := Evaluator.processWith (processTree lower)

inductive ApiOp where
  | process (item : List (Bytes × Value))
  | reset
  | lastDebug

inductive ApiOut where
  | proc (o : ProcOut)
  | unit
  | dbg (d : Option Dbg)
  deriving Repr, DecidableEq

def stepWith (pf : Tree → List (Bytes × Value) → ProcOut) (e : Evaluator) : ApiOp → Evaluator × ApiOut
  | .process item => let (e', o) := e.processWith pf item; (e', .proc o)
  | .reset => ({ e with lastDebug := none }, .unit)
  | .lastDebug => (e, .dbg e.lastDebug)

def runWith (pf : Tree → List (Bytes × Value) → ProcOut) (e : Evaluator) : List ApiOp → List ApiOut
  | [] => []
  | op :: ops => let (e', o) := stepWith pf e op; o :: runWith pf e' ops

/-- `rules.Evaluate` -/
def rulesEvaluate (rules : List (Kind × Regex)) (lower : Bytes → Bytes) (text : List Char)
    (item : List (Bytes × Value)) : ProcOut :=
  ((newEvaluator rules text).process lower item).2

/-- `parser.Evaluate` -/
def parserEvaluate (rules : List (Kind × Regex)) (lower : Bytes → Bytes) (text : List Char)
    (item : List (Bytes × Value)) : Bool :=
  ((newEvaluator rules text).process lower item).2.verdict

/-! ### Spec layer: a rule is the short-circuit combination of its comparisons evaluated alone -/

/-- outcome of a compound rule from the outcomes `leaf l` of its comparisons evaluated stand-alone:
left to right, `and`/`or` short-circuit, `not` negates, the first failure is final, the diagnostic is
that of the last reached comparison that has one, Stringer calls are concatenated. -/
def combine (leaf : Tree → ProcOut) : Tree → ProcOut
  | .paren neg q =>
    let o := combine leaf q
    if o.err.isSome then o else { o with verdict := if neg then !o.verdict else o.verdict }
  | .logical op l r =>
    let a := combine leaf l
    if a.err.isSome then a
    else if op = "or" then
      (if a.verdict then a else
        let b := combine leaf r
        { b with debug := b.debug.orElse (fun _ => a.debug), calls := a.calls ++ b.calls })
    else
      (if !a.verdict then a else
        let b := combine leaf r
        { b with debug := b.debug.orElse (fun _ => a.debug), calls := a.calls ++ b.calls })
  | t => leaf t

end Rules
