import RulesModel.Model.Grammar
/-!
# The parse tree the generated ANTLR parser hands to the visitor (one type per `…Context` of `jsonquery_parser.go`)

`Tree` (Model/Grammar.lean) is what the *model* evaluates: paths as lists of names, literals as `Lit`. The
hand-written Go visitor, however, walks ANTLR context objects: `ctx.SubAttr()`, `ctx.Query(0)`, `ctx.NOT()`,
`ctx.op.GetTokenType()`, `ctx.INT().GetText()` … . The translator (`/verif/extract/golean.go`) turns each
`Visit…` method into a Lean function over the types below; the accessor names of the Go code are the field /
pattern-variable names used there. `abs` forgets the concrete shape: it is the function under which the
translated visitor is proved equal to the model (`Proofs/VisitorGen.lean`).

A terminal node or token is `Tok` (`GetText()` = `.text`, `GetTokenType()` = `.kind`). An optional child
(`NOT?`, `subAttr?`, the recursive tail of a list) is an `Option`: `ctx.X() == nil || ctx.X().IsEmpty()` is
`X.isNone` (a context built by the parser for a matched rule is never "empty").
-/
namespace Rules.Cst
open Rules.P (Tok Tree Lit Kind)

/-- `attrPath : ATTRNAME subAttr?` with `subAttr : '.' attrPath` (`AttrPathContext`, `SubAttrContext`) -/
inductive AttrPathCtx where
  | mk (ATTRNAME : Tok) (SubAttr : Option AttrPathCtx)
  deriving Repr

/-- `subListOfInts : INT COMMA subListOfInts | INT ']'` and its two siblings: one element token, optional tail -/
inductive SubListCtx where
  | mk (elem : Tok) (sub : Option SubListCtx)
  deriving Repr

/-- the text of a `long` value (`'-'? INT EXP?`): `ctx.GetText()` is the concatenation of the three parts -/
structure LongText where
  neg : Bool
  int : String
  exp : Option String
  deriving Repr

/-- `value` alternatives (`BooleanContext` … `ListOfStringsContext`); `listInts : '[' subListOfInts` etc. are
passed through (`VisitListInts` only forwards to its child) -/
inductive ValueCtx where
  | boolean (text : String)
  | null
  | version (VERSION : Tok)
  | string (text : String)
  | double (text : String)
  | long (text : LongText)
  | listOfInts (ListInts : SubListCtx)
  | listOfDoubles (ListDoubles : SubListCtx)
  | listOfStrings (ListStrings : SubListCtx)
  deriving Repr

/-- `query` alternatives (`ParenExpContext`, `LogicalExpContext`, `PresentExpContext`, `CompareExpContext`) -/
inductive QueryCtx where
  | parenExp (NOT : Option Tok) (Query : QueryCtx)
  | logicalExp (Query0 : QueryCtx) (LOGICAL_OPERATOR : Tok) (Query1 : QueryCtx)
  | presentExp (AttrPath : AttrPathCtx)
  | compareExp (AttrPath : AttrPathCtx) (op : Tok) (Value : ValueCtx)
  deriving Repr

/-! ### abstraction to the model's trees -/

def absPath : AttrPathCtx → List String
  | .mk n none => [n.text]
  | .mk n (some s) => n.text :: absPath s

def absList : SubListCtx → List String
  | .mk e none => [e.text]
  | .mk e (some s) => e.text :: absList s

def absValue : ValueCtx → Lit
  | .boolean t => .bool t
  | .null => .null
  | .version v => .version v.text
  | .string t => .str t
  | .double t => .double t
  | .long t => .long t.neg t.int t.exp
  | .listOfInts l => .list P.INT (absList l)
  | .listOfDoubles l => .list P.DOUBLE (absList l)
  | .listOfStrings l => .list P.STRING (absList l)

def abs : QueryCtx → Tree
  | .parenExp n q => .paren n.isSome (abs q)
  | .logicalExp l op r => .logical op.text (abs l) (abs r)
  | .presentExp p => .present (absPath p)
  | .compareExp p op v => .compare (absPath p) op.kind (absValue v)

/-- `ctx.AttrPath().GetText()`: names joined by the dots' texts – only ever stored inside a diagnostic -/
def pathText : AttrPathCtx → String
  | .mk n none => n.text
  | .mk n (some s) => n.text ++ "." ++ pathText s

/-! ### the other direction: every model tree the parser can produce is the abstraction of a parse tree -/

def cstPath : String → List String → AttrPathCtx
  | n, [] => .mk ⟨P.ATTR, n⟩ none
  | n, m :: ms => .mk ⟨P.ATTR, n⟩ (some (cstPath m ms))

def cstList (k : Kind) : String → List String → SubListCtx
  | e, [] => .mk ⟨k, e⟩ none
  | e, f :: fs => .mk ⟨k, e⟩ (some (cstList k f fs))

end Rules.Cst
