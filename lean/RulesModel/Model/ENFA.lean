/-!
# ε-NFAs over characters and a checkable bisimulation certificate

Two automata accept the same language from two sets of states when a finite list of pairs of state sets is closed under
"read one character" on both sides and paired sets agree on acceptance. `checkCert` is that test, executable; `cert_sound`
is the theorem that makes its verdict a statement about **all strings**. Characters are handled through a finite partition
of the code points into intervals on which every character test occurring on the edges out of a set is constant
(`uniformB`), so one representative per interval decides the whole interval.

Used for: the lexer ATN shipped in `jsonquery_lexer.go` against the token rules of `JsonQuery.g4` (`Tie/LexerATNProof`).
-/
namespace Rules.NFA

/-- a test on code points: membership in a finite union of closed intervals, possibly negated -/
structure CharPred where
  neg : Bool
  ivs : List (Nat × Nat)
  deriving DecidableEq, Repr

def CharPred.test (p : CharPred) (c : Nat) : Bool := p.neg != p.ivs.any (fun iv => decide (iv.1 ≤ c) && decide (c ≤ iv.2))

structure ENFA (σ : Type) where
  eps : σ → List σ
  chr : σ → List (CharPred × σ)
  acc : σ → Bool

variable {σ : Type}

/-- the strings accepted from a state -/
inductive Lang (M : ENFA σ) : σ → List Char → Prop
  | acc {q} : M.acc q = true → Lang M q []
  | eps {q q' s} : q' ∈ M.eps q → Lang M q' s → Lang M q s
  | chr {q p q' c s} : (p, q') ∈ M.chr q → p.test c.toNat = true → Lang M q' s → Lang M q (c :: s)

def LangSet (M : ENFA σ) (S : List σ) (s : List Char) : Prop := ∃ q ∈ S, Lang M q s

variable [DecidableEq σ]

def closedB (M : ENFA σ) (S : List σ) : Bool := S.all fun q => (M.eps q).all fun q' => S.contains q'

theorem closed_mem {M : ENFA σ} {S : List σ} (h : closedB M S = true) {q q' : σ} (hq : q ∈ S) (he : q' ∈ M.eps q) : q' ∈ S := by
  have := List.all_eq_true.1 (List.all_eq_true.1 h q hq) q' he
  simpa using this

/-- in an ε-closed set, acceptance of the empty string is acceptance of a member -/
theorem lang_nil_closed {M : ENFA σ} {S : List σ} (hc : closedB M S = true) {q : σ} {s : List Char} (h : Lang M q s) :
    s = [] → q ∈ S → ∃ q' ∈ S, M.acc q' = true := by
  induction h with
  | acc ha => intro _ hq; exact ⟨_, hq, ha⟩
  | eps he _ ih => intro hs hq; exact ih hs (closed_mem hc hq he)
  | chr _ _ _ _ => intro hs; cases hs

/-- in an ε-closed set, reading a character is a character edge out of a member -/
theorem lang_cons_closed {M : ENFA σ} {S : List σ} (hc : closedB M S = true) {q : σ} {s : List Char} (h : Lang M q s) :
    ∀ c t, s = c :: t → q ∈ S → ∃ q0 ∈ S, ∃ p y, (p, y) ∈ M.chr q0 ∧ p.test c.toNat = true ∧ Lang M y t := by
  induction h with
  | acc _ => intro c t hs; cases hs
  | eps he _ ih => intro c t hs hq; exact ih c t hs (closed_mem hc hq he)
  | @chr q p q' c' s' hm ht hl _ =>
    intro c t hs hq
    cases hs
    exact ⟨q, hq, p, q', hm, ht, hl⟩

/-! ### intervals on which the character tests out of a set are constant -/
def ivUniform (iv : Nat × Nat) (a b : Nat) : Bool := decide (b < iv.1) || decide (iv.2 < a) || (decide (iv.1 ≤ a) && decide (b ≤ iv.2))

def uniformB (M : ENFA σ) (S : List σ) (a b : Nat) : Bool :=
  S.all fun q => (M.chr q).all fun py => py.1.ivs.all fun iv => ivUniform iv a b

theorem any_uniform (ivs : List (Nat × Nat)) (a b x y : Nat) (h : ivs.all (fun iv => ivUniform iv a b) = true)
    (hx : a ≤ x ∧ x ≤ b) (hy : a ≤ y ∧ y ≤ b) :
    ivs.any (fun iv => decide (iv.1 ≤ x) && decide (x ≤ iv.2)) = ivs.any (fun iv => decide (iv.1 ≤ y) && decide (y ≤ iv.2)) := by
  induction ivs with
  | nil => rfl
  | cons iv rest ih =>
    simp only [List.all_cons, Bool.and_eq_true] at h
    simp only [List.any_cons]
    rw [ih h.2]
    congr 1
    have h1 := h.1
    simp only [ivUniform, Bool.or_eq_true, Bool.and_eq_true, decide_eq_true_eq] at h1
    rcases h1 with (h1 | h1) | h1
    · have e1 : decide (iv.1 ≤ x) = false := by simp; omega
      have e2 : decide (iv.1 ≤ y) = false := by simp; omega
      simp [e1, e2]
    · have e1 : decide (x ≤ iv.2) = false := by simp; omega
      have e2 : decide (y ≤ iv.2) = false := by simp; omega
      simp [e1, e2]
    · have e1 : decide (iv.1 ≤ x) = true := by simp; omega
      have e2 : decide (iv.1 ≤ y) = true := by simp; omega
      have e3 : decide (x ≤ iv.2) = true := by simp; omega
      have e4 : decide (y ≤ iv.2) = true := by simp; omega
      simp [e1, e2, e3, e4]

theorem test_uniform (p : CharPred) (a b x y : Nat) (h : p.ivs.all (fun iv => ivUniform iv a b) = true)
    (hx : a ≤ x ∧ x ≤ b) (hy : a ≤ y ∧ y ≤ b) : p.test x = p.test y := by
  unfold CharPred.test
  rw [any_uniform p.ivs a b x y h hx hy]

omit [DecidableEq σ] in
theorem uniform_edge {M : ENFA σ} {S : List σ} {a b : Nat} (h : uniformB M S a b = true) {q : σ} (hq : q ∈ S)
    {p : CharPred} {y : σ} (hm : (p, y) ∈ M.chr q) (x z : Nat) (hx : a ≤ x ∧ x ≤ b) (hz : a ≤ z ∧ z ≤ b) :
    p.test x = p.test z :=
  test_uniform p a b x z (List.all_eq_true.1 (List.all_eq_true.1 h q hq) (p, y) hm) hx hz

/-! ### the successor set of a set under one character -/
/-- every `a`-successor of a member of `P` is in `P'` -/
def coversB (M : ENFA σ) (P : List σ) (a : Nat) (P' : List σ) : Bool :=
  P.all fun q => (M.chr q).all fun py => !py.1.test a || P'.contains py.2

def direct (M : ENFA σ) (P : List σ) (a : Nat) (x : σ) : Bool :=
  P.any fun q => (M.chr q).any fun py => py.1.test a && decide (py.2 = x)

/-- the members of `P'` known to be reachable by ε-moves from members satisfying `d`, after `n` rounds -/
def justSet (M : ENFA σ) (d : σ → Bool) (P' : List σ) : Nat → List σ
  | 0 => P'.filter d
  | n + 1 => P'.filter fun x => (justSet M d P' n).contains x || (justSet M d P' n).any fun y => (M.eps y).contains x

/-- every member of `P'` is reachable by ε-moves from a member satisfying `d` -/
def justB (M : ENFA σ) (d : σ → Bool) (P' : List σ) : Bool :=
  P'.all fun x => (justSet M d P' P'.length).contains x

/-- whatever holds of the `d`-members and is inherited along ε-edges holds of every member of a justified set -/
theorem just_ind {M : ENFA σ} {d : σ → Bool} {P' : List σ} (Good : σ → Prop) (h0 : ∀ x, d x = true → Good x)
    (hstep : ∀ y x, Good y → x ∈ M.eps y → Good x) : ∀ n, ∀ x ∈ justSet M d P' n, Good x := by
  intro n
  induction n with
  | zero =>
    intro x hx
    simp only [justSet, List.mem_filter] at hx
    exact h0 x hx.2
  | succ n ih =>
    intro x hx
    simp only [justSet, List.mem_filter, Bool.or_eq_true, List.contains_iff_mem, List.any_eq_true] at hx
    rcases hx.2 with h | ⟨y, hy, he⟩
    · exact ih x h
    · exact hstep y x (ih y hy) he

theorem just_all {M : ENFA σ} {d : σ → Bool} {P' : List σ} (hj : justB M d P' = true) (Good : σ → Prop)
    (h0 : ∀ x, d x = true → Good x) (hstep : ∀ y x, Good y → x ∈ M.eps y → Good x) : ∀ x ∈ P', Good x := by
  intro x hx
  have := List.all_eq_true.1 hj x hx
  exact just_ind Good h0 hstep _ x (by simpa using this)

theorem just_sound {M : ENFA σ} {P P' : List σ} {a b r : Nat} (hu : uniformB M P a b = true) (hr : a ≤ r ∧ r ≤ b)
    (hj : justB M (direct M P r) P' = true) (c : Char) (hc : a ≤ c.toNat ∧ c.toNat ≤ b) (t : List Char) :
    ∀ x ∈ P', Lang M x t → LangSet M P (c :: t) := by
  intro x hx hl
  refine just_all hj (fun x => ∀ t, Lang M x t → LangSet M P (c :: t)) ?_ ?_ x hx t hl
  · intro x hd t hl
    simp only [direct, List.any_eq_true, Bool.and_eq_true, decide_eq_true_eq] at hd
    obtain ⟨q, hq, py, hm, ht, he⟩ := hd
    subst he
    have := uniform_edge hu hq (p := py.1) (y := py.2) hm r c.toNat hr hc
    exact ⟨q, hq, .chr hm (by rw [← this]; exact ht) hl⟩
  · intro y x hy he t hl
    exact hy t (.eps he hl)

/-- a set justified from one state accepts nothing that state does not accept -/
theorem just_start {M : ENFA σ} {q0 : σ} {S : List σ} (hj : justB M (fun x => decide (x = q0)) S = true) (t : List Char) :
    LangSet M S t → Lang M q0 t := by
  rintro ⟨x, hx, hl⟩
  refine just_all hj (fun x => ∀ t, Lang M x t → Lang M q0 t) ?_ ?_ x hx t hl
  · intro x hd t hl
    simp only [decide_eq_true_eq] at hd
    subst hd; exact hl
  · intro y x hy he t hl
    exact hy t (.eps he hl)

/-! ### the certificate -/
/-- the intervals cover the code points `0 … 0x10FFFF` without a gap, starting at `from` -/
def coverB : Nat → List (Nat × Nat) → Bool
  | lo, [] => decide (0x10FFFF < lo)
  | lo, (a, b) :: rest => decide (a = lo) && decide (a ≤ b) && coverB (b + 1) rest

theorem cover_find : ∀ (cls : List (Nat × Nat)) (lo x : Nat), coverB lo cls = true → lo ≤ x → x ≤ 0x10FFFF →
    ∃ ab ∈ cls, ab.1 ≤ x ∧ x ≤ ab.2
  | [], lo, x, h, h1, h2 => by simp [coverB] at h; omega
  | (a, b) :: rest, lo, x, h, h1, h2 => by
    simp only [coverB, Bool.and_eq_true, decide_eq_true_eq] at h
    by_cases hx : x ≤ b
    · exact ⟨(a, b), by simp, by simp; omega, hx⟩
    · obtain ⟨ab, hm, hab⟩ := cover_find rest (b + 1) x h.2 (by omega) h2
      exact ⟨ab, by simp [hm], hab⟩

structure Cert (σ₁ σ₂ : Type) where
  pairs : List (List σ₁ × List σ₂)
  classes : List (Nat × Nat)

variable {σ₁ σ₂ : Type} [DecidableEq σ₁] [DecidableEq σ₂]

def succOK (M : ENFA σ) (P : List σ) (a : Nat) (P' : List σ) : Bool := coversB M P a P' && justB M (direct M P a) P'

def checkPair (M₁ : ENFA σ₁) (M₂ : ENFA σ₂) (C : Cert σ₁ σ₂) (PQ : List σ₁ × List σ₂) : Bool :=
  closedB M₁ PQ.1 && closedB M₂ PQ.2 && (PQ.1.any M₁.acc == PQ.2.any M₂.acc) &&
  C.classes.all fun ab =>
    uniformB M₁ PQ.1 ab.1 ab.2 && uniformB M₂ PQ.2 ab.1 ab.2 &&
    C.pairs.any fun PQ' => succOK M₁ PQ.1 ab.1 PQ'.1 && succOK M₂ PQ.2 ab.1 PQ'.2

def checkCert (M₁ : ENFA σ₁) (M₂ : ENFA σ₂) (C : Cert σ₁ σ₂) : Bool :=
  coverB 0 C.classes && C.pairs.all (checkPair M₁ M₂ C)

theorem char_le (c : Char) : c.toNat ≤ 0x10FFFF := by
  have h := c.valid
  simp only [UInt32.isValidChar, Nat.isValidChar] at h
  have : c.toNat = c.val.toNat := rfl
  omega

/-- one direction of a step, symmetric in the two automata -/
theorem step_half {M : ENFA σ} {M' : ENFA σ₂} {P P' : List σ} {Q Q' : List σ₂} {a b : Nat}
    (hcP : closedB M P = true) (huP : uniformB M P a b = true) (huQ : uniformB M' Q a b = true)
    (hcov : coversB M P a P' = true) (hjust : justB M' (direct M' Q a) Q' = true) (hab : a ≤ b)
    (c : Char) (hc : a ≤ c.toNat ∧ c.toNat ≤ b) (t : List Char)
    (ih : LangSet M P' t → LangSet M' Q' t) (h : LangSet M P (c :: t)) : LangSet M' Q (c :: t) := by
  obtain ⟨q, hq, hl⟩ := h
  obtain ⟨q0, hq0, p, y, hm, ht, hy⟩ := lang_cons_closed hcP hl c t rfl hq
  have hta : p.test a = true := by
    rw [uniform_edge huP hq0 hm a c.toNat ⟨Nat.le_refl _, hab⟩ hc]; exact ht
  have hyP' : y ∈ P' := by
    have := List.all_eq_true.1 (List.all_eq_true.1 hcov q0 hq0) (p, y) hm
    simpa [hta] using this
  obtain ⟨x, hx, hlx⟩ := ih ⟨y, hyP', hy⟩
  exact just_sound huQ ⟨Nat.le_refl _, hab⟩ hjust c hc t x hx hlx

/-- **a checked certificate relates languages**: paired sets accept the same strings -/
theorem cert_sound (M₁ : ENFA σ₁) (M₂ : ENFA σ₂) (C : Cert σ₁ σ₂) (h : checkCert M₁ M₂ C = true) :
    ∀ (s : List Char) (PQ : List σ₁ × List σ₂), PQ ∈ C.pairs → (LangSet M₁ PQ.1 s ↔ LangSet M₂ PQ.2 s) := by
  simp only [checkCert, Bool.and_eq_true] at h
  obtain ⟨hcov, hall⟩ := h
  intro s
  induction s with
  | nil =>
    intro PQ hPQ
    have hp := List.all_eq_true.1 hall PQ hPQ
    simp only [checkPair, Bool.and_eq_true, beq_iff_eq] at hp
    obtain ⟨⟨⟨hc1, hc2⟩, hacc⟩, _⟩ := hp
    constructor
    · rintro ⟨q, hq, hl⟩
      obtain ⟨q', hq', ha⟩ := lang_nil_closed hc1 hl rfl hq
      have : PQ.2.any M₂.acc = true := by rw [← hacc]; exact List.any_eq_true.2 ⟨q', hq', ha⟩
      obtain ⟨x, hx, hax⟩ := List.any_eq_true.1 this
      exact ⟨x, hx, .acc hax⟩
    · rintro ⟨q, hq, hl⟩
      obtain ⟨q', hq', ha⟩ := lang_nil_closed hc2 hl rfl hq
      have : PQ.1.any M₁.acc = true := by rw [hacc]; exact List.any_eq_true.2 ⟨q', hq', ha⟩
      obtain ⟨x, hx, hax⟩ := List.any_eq_true.1 this
      exact ⟨x, hx, .acc hax⟩
  | cons c t ih =>
    intro PQ hPQ
    have hp := List.all_eq_true.1 hall PQ hPQ
    simp only [checkPair, Bool.and_eq_true, beq_iff_eq] at hp
    obtain ⟨⟨⟨hc1, hc2⟩, _⟩, hcls⟩ := hp
    obtain ⟨ab, habm, hab⟩ := cover_find C.classes 0 c.toNat hcov (Nat.zero_le _) (char_le c)
    have hk := List.all_eq_true.1 hcls ab habm
    simp only [Bool.and_eq_true, List.any_eq_true, succOK] at hk
    obtain ⟨⟨hu1, hu2⟩, PQ', hPQ', ⟨hcov1, hj1⟩, hcov2, hj2⟩ := hk
    have hle : ab.1 ≤ ab.2 := by omega
    have ih' := ih PQ' hPQ'
    constructor
    · exact step_half hc1 hu1 hu2 hcov1 hj2 hle c hab t ih'.1
    · exact step_half hc2 hu2 hu1 hcov2 hj1 hle c hab t ih'.2

/-- **from a checked certificate to the two start states**: when the first pair consists of two ε-closed sets that contain
the start states and are justified from them, the two start states accept the same strings -/
theorem cert_start (M₁ : ENFA σ₁) (M₂ : ENFA σ₂) (C : Cert σ₁ σ₂) (h : checkCert M₁ M₂ C = true) (q₁ : σ₁) (q₂ : σ₂)
    (P : List σ₁) (Q : List σ₂) (hm : (P, Q) ∈ C.pairs) (h1 : q₁ ∈ P) (h2 : q₂ ∈ Q)
    (hj1 : justB M₁ (fun x => decide (x = q₁)) P = true) (hj2 : justB M₂ (fun x => decide (x = q₂)) Q = true)
    (s : List Char) : Lang M₁ q₁ s ↔ Lang M₂ q₂ s := by
  have := cert_sound M₁ M₂ C h s (P, Q) hm
  constructor
  · intro hl
    exact just_start hj2 s (this.1 ⟨q₁, h1, hl⟩)
  · intro hl
    exact just_start hj1 s (this.2 ⟨q₂, h2, hl⟩)

end Rules.NFA
