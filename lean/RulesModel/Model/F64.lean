/-! Model: exact model of IEEE binary64 values, decimal → binary64 rounding (strconv.ParseFloat), comparisons. -/
namespace Rules

inductive F64 where
  | nan
  | inf (neg : Bool)
  | fin (neg : Bool) (m : Nat) (e : Int)    -- (-1)^neg * m * 2^e
  deriving Repr, DecidableEq

namespace F64

/-- decode from IEEE bits -/
def ofBits (b : UInt64) : F64 :=
  let n := b.toNat
  let sign := n / 2^63 == 1
  let ex := (n / 2^52) % 2048
  let frac := n % 2^52
  if ex == 2047 then (if frac == 0 then .inf sign else .nan)
  else if ex == 0 then .fin sign frac (-1074)
  else .fin sign (frac + 2^52) (Int.ofNat ex - 1075)

/-- encode (assumes canonical m < 2^53 etc.; used only to print model results) -/
def toBits : F64 → Nat
  | .nan => 0x7FF8000000000001
  | .inf neg => (if neg then 2^63 else 0) + 2047 * 2^52
  | .fin neg m e =>
    let s := if neg then 2^63 else 0
    if m == 0 then s else
    -- normalise m to [2^52, 2^53) when possible
    let l := Nat.log2 m
    let (m', e') : Nat × Int :=
      if l ≥ 52 then (m / 2^(l-52), e + (l-52 : Nat)) else
        let sh := min (52 - l) (e + 1074).toNat
        (m * 2^sh, e - sh)
    if m' ≥ 2^52 then s + ((e' + 1075).toNat) * 2^52 + (m' - 2^52) else s + m'

/-- the rounded significand/exponent as a value; `none` = beyond the largest finite binary64 (overflow) -/
def mkFin (neg : Bool) (m : Nat) (e : Int) : Option F64 :=
  if e + 52 > 1023 ∧ m ≥ 2^52 then none else some (.fin neg m e)

/-- round the non-negative rational n/d (d > 0) to nearest binary64, ties to even. none = overflow. -/
def roundRat (neg : Bool) (n d : Nat) : Option F64 :=
  if n == 0 then some (.fin neg 0 0) else
  -- find k with 2^52 ≤ (n/d)/2^k < 2^53, clamp k ≥ -1074
  let ln : Int := Nat.log2 n
  let ld : Int := Nat.log2 d
  let k0 : Int := ln - ld - 52         -- estimate; exact exponent is k0 or k0-1
  -- q(k) = floor(n / (d * 2^k)) ; choose k so that 2^52 ≤ q < 2^53
  let scaled (k : Int) : Nat × Nat :=    -- numerator, denominator of (n/d)/2^k
    if k ≥ 0 then (n, d * 2^k.toNat) else (n * 2^(-k).toNat, d)
  let k1 := let (a, b) := scaled k0; if a / b < 2^52 then k0 - 1 else k0
  let k := if k1 < -1074 then -1074 else k1
  let (a, b) := scaled k
  let q := a / b
  let r := a % b
  -- round half even
  let q' := if 2 * r > b then q + 1 else if 2 * r == b then (if q % 2 == 1 then q + 1 else q) else q
  let (m, e) : Nat × Int := if q' == 2^53 then (2^52, k + 1) else (q', k)
  mkFin neg m e

/-- decimal literal: digits * 10^exp10 -/
def ofDecimal (neg : Bool) (digits : Nat) (exp10 : Int) : Option F64 :=
  if digits == 0 then some (.fin neg 0 0) else
  if exp10 > 400 then none else
  if exp10 < -800 - (Nat.log2 digits : Int) then some (.fin neg 0 0) else
  if exp10 ≥ 0 then roundRat neg (digits * 10^exp10.toNat) 1 else roundRat neg digits (10^(-exp10).toNat)

/-- exact comparison of finite values by cross-scaling -/
def cmpFin (n1 : Bool) (m1 : Nat) (e1 : Int) (n2 : Bool) (m2 : Nat) (e2 : Int) : Ordering :=
  let v1 : Int := if n1 then -(m1 : Int) else m1
  let v2 : Int := if n2 then -(m2 : Int) else m2
  let e := min e1 e2
  compare (v1 * 2^(e1 - e).toNat) (v2 * 2^(e2 - e).toNat)

def lt : F64 → F64 → Bool
  | .nan, _ | _, .nan => false
  | .inf n1, .inf n2 => n1 && !n2
  | .inf n1, .fin .. => n1
  | .fin .., .inf n2 => !n2
  | .fin n1 m1 e1, .fin n2 m2 e2 => cmpFin n1 m1 e1 n2 m2 e2 == .lt

def eq : F64 → F64 → Bool
  | .nan, _ | _, .nan => false
  | .inf n1, .inf n2 => n1 == n2
  | .inf _, .fin .. | .fin .., .inf _ => false
  | .fin n1 m1 e1, .fin n2 m2 e2 => cmpFin n1 m1 e1 n2 m2 e2 == .eq


/-- Go `float64(n)` for an `int` n: exact for |n| ≤ 2^53 (by definition), nearest-even otherwise. -/
def ofInt (n : Int) : F64 :=
  if n.natAbs ≤ 2^53 then .fin (decide (n < 0)) n.natAbs 0
  else match roundRat (decide (n < 0)) n.natAbs 1 with
    | some f => f
    | none => .inf (decide (n < 0))

/-- IEEE comparisons as Go's `<, >, <=, >=, ==, !=` on float64 -/
def gt (a b : F64) : Bool := lt b a
def le (a b : F64) : Bool := lt a b || eq a b
def ge (a b : F64) : Bool := lt b a || eq a b
def ne (a b : F64) : Bool := !eq a b

def isNaN : F64 → Bool
  | .nan => true
  | _ => false

end F64

/-! ### literal texts → numbers (strconv.ParseInt / ParseFloat on the token shapes of the grammar) -/

def digitsToNat (cs : List Char) : Nat := cs.foldl (fun a c => a * 10 + (c.toNat - 48)) 0

def allDigits (cs : List Char) : Bool := !cs.isEmpty && cs.all Char.isDigit

/-- `strconv.ParseInt(text, 10, 64)` where text = `-`? INT EXP? : an exponent part makes it fail,
and so does a value outside int64. -/
def parseIntLit (neg : Bool) (i : String) (e : Option String) : Option Int :=
  if e.isSome then none
  else if !allDigits i.toList then none
  else
    let v : Int := digitsToNat i.toList
    let n : Int := if neg then -v else v
    if -(2^63 : Int) ≤ n ∧ n < (2^63 : Int) then some n else none

/-- split a DOUBLE / EXP token text: `-`? int `.` frac ([eE][+-]? int)? -/
def splitDouble (t : List Char) : Option (Bool × List Char × List Char × Int) :=
  let (neg, t1) := match t with
    | '-' :: r => (true, r)
    | r => (false, r)
  let ip := t1.takeWhile Char.isDigit
  match t1.dropWhile Char.isDigit with
  | '.' :: r =>
    let fp := r.takeWhile Char.isDigit
    let rest := r.dropWhile Char.isDigit
    if !allDigits ip || !allDigits fp then none else
    match rest with
    | [] => some (neg, ip, fp, 0)
    | c :: r2 =>
      if c = 'e' ∨ c = 'E' then
        let (eneg, r3) := match r2 with
          | '-' :: q => (true, q)
          | '+' :: q => (false, q)
          | q => (false, q)
        if allDigits r3 then
          let ev : Int := digitsToNat r3
          some (neg, ip, fp, if eneg then -ev else ev)
        else none
      else none
  | _ => none

/-- `strconv.ParseFloat(text, 64)` on a DOUBLE token: `none` = range error (the only possible error). -/
def parseFloatLit (t : String) : Option F64 :=
  match splitDouble t.toList with
  | none => none
  | some (neg, ip, fp, ev) =>
    F64.ofDecimal neg (digitsToNat (ip ++ fp)) (ev - fp.length)

end Rules
