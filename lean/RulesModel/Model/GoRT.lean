import RulesModel.Model.Visitor
import RulesModel.Model.Cst
/-!
# Run-time prelude of the translated visitor (`Generated/Visitor.lean`)

`/verif/extract/golean.go` translates every function of `parser/jsonquery_visitor_impl.go` into a Lean
definition, statement by statement. This file fixes the *meaning of the Go constructs* the translation uses;
it is the trusted part of that tie (DESIGN §4.4, §10): slices as lists, `interface{}` values as `Value` /
`ROp` / `Ret` depending on the register they live in, `error` values as `Option GErr`, a panic as
`Except.error`, a pointer receiver as a value passed in and returned.

Nothing here mentions the model's visitor: `Proofs/VisitorGen.lean` proves the translated functions equal to
`Rules.visit` under the abstraction `Cst.abs`.
-/
namespace Rules.Go
open Rules Rules.Cst
open Rules.P (Tok Kind)

/-- helpers without access to the visitor: a panic is just its kind -/
abbrev PM := Except Panic

/-- a Go `error` value, as far as the visitor distinguishes them -/
inductive GErr where
  | op (e : OpErr)                 -- returned by an Operation method: the two sentinels, *ErrInvalidOperand, anything else
  | strconv                        -- *strconv.NumError
  | nested (inner : Option GErr) (msg : String) (keys : List String)   -- newNestedError(inner, msg).Set(ErrVals{keys…})
  | new (msg : String)             -- errors.New(msg) / fmt.Errorf(msg, …)
  deriving Repr

/-- `*objStack` -/
structure ObjStack where
  items : List Value               -- []interface{}, bottom first
  deriving Repr

/-- `*JsonQueryVisitorImpl` (the embedded `antlr.ParseTreeVisitor` is never used) -/
structure J where
  item : List (Bytes × Value)
  stack : ObjStack
  currentOperation : Option OpKind
  leftOp : Value
  rightOp : ROp
  err : Option GErr
  debugErr : Option GErr
  calls : List Nat                 -- ghost: the Stringers asked for their text so far
  deriving Repr

/-- what a `Visit…` method returns (`interface{}`): `nil` or a `bool` -/
abbrev Ret := Option Bool

/-- `currentOp.EQ` : a method value = receiver + method -/
structure MethodVal where
  recv : OpKind
  op : CmpOp

/-- the class of a Go `error` value, as `Process` lets a caller tell them apart -/
def clsErr : GErr → EvalErr
  | .op _ => .invalidOperation
  | .strconv => .badLiteral
  | .nested _ _ _ => .badLiteral
  | .new _ => .unknownOp

/-- the class of a diagnostic -/
def clsDbg : GErr → Dbg
  | .nested (some (.op .invalidOperation)) _ _ => .invalidOperation
  | .nested (some (.op .missing)) _ _ => .missing
  | .nested (some (.op .invalidOperand)) _ _ => .invalidOperand
  | _ => .other

def raise {α} (p : Panic) (j : J) : VM α := .error ⟨p, j.calls, j.debugErr.map clsDbg⟩
/-- a helper's panic surfaces in a visitor method -/
def lift {α} (j : J) : PM α → VM α
  | .ok a => .ok a
  | .error p => .error ⟨p, j.calls, j.debugErr.map clsDbg⟩

/-! ### slices, strings -/
def len {α} (l : List α) : Int := l.length
/-- `s[i]` -/
def index (l : List Value) (i : Int) : PM Value :=
  if i < 0 then .error .indexRange else
  match l[i.toNat]? with
  | some v => .ok v
  | none => .error .indexRange
/-- `s[:hi]` -/
def sliceTo {α} (l : List α) (hi : Int) : PM (List α) :=
  if hi < 0 ∨ hi > l.length then .error .indexRange else .ok (l.take hi.toNat)
def append {α} (l : List α) (x : α) : List α := l ++ [x]
/-- `len(s)` of a token text (bytes) -/
def strLen (s : String) : Int := (bytesOf s).length
/-- `s[lo:hi]` of a token text -/
def substr (s : String) (lo hi : Int) : PM Bytes :=
  if lo < 0 ∨ hi < lo ∨ hi > (bytesOf s).length then .error .indexRange
  else .ok (((bytesOf s).take hi.toNat).drop lo.toNat)

/-! ### interface values -/
def isNilV : Value → Bool := Value.isNull
def isNilR : ROp → Bool
  | .nil => true
  | _ => false
/-- `item.(map[string]interface{})` -/
def assertMap : Value → Option (List (Bytes × Value))
  | .obj kvs => some kvs
  | _ => none
def assertInts : ROp → Option (List Int)
  | .ints l => some l
  | _ => none
def assertFloats : ROp → Option (List F64)
  | .floats l => some l
  | _ => none
def assertStrs : ROp → Option (List Bytes)
  | .strs l => some l
  | _ => none
/-- `m[key]` -/
def mapIndex (m : List (Bytes × Value)) (key : String) : Value := Value.get m (bytesOf key)

/-! ### strconv on the token shapes of the grammar (the model's functions: trusted, validated by the
correspondence streams FLT / INTF) -/
def ParseBool (t : String) : Bool × Option GErr :=
  if t = "true" then (true, none) else if t = "false" then (false, none) else (false, some .strconv)
class IntText (α : Type) where
  parse : α → Option Int
instance : IntText String := ⟨fun t => parseIntLit false t none⟩
instance : IntText LongText := ⟨fun t => parseIntLit t.neg t.int t.exp⟩
def ParseInt {α} [IntText α] (t : α) : Int × Option GErr :=
  match IntText.parse t with
  | some v => (v, none)
  | none => (0, some .strconv)
def ParseFloat (t : String) : F64 × Option GErr :=
  match parseFloatLit t with
  | some v => (v, none)
  | none => (F64.ofInt 0, some .strconv)

/-! ### Operation values -/
/-- `apply = currentOp.EQ` : evaluating a method value of a nil interface panics -/
def methodVal (recv : Option OpKind) (op : CmpOp) (j : J) : VM (Option MethodVal) :=
  match recv with
  | none => raise .nilOp j
  | some k => .ok (some ⟨k, op⟩)
/-- what Go sees of the outcome of an Operation method when the Stringer calls made so far are `w`: `(bool, error)` and
the extended log, or a panic (out of a `String()`) carrying the log -/
def embed (w : List Nat) : OpRes → Except (List Nat) ((Bool × Option GErr) × List Nat)
  | .ok b c => .ok ((b, none), w ++ c)
  | .err e c => .ok ((false, some (.op e)), w ++ c)
  | .panic c => .error (w ++ c)

/-- an implementation of `currentOperation.<OP>(left, right)`: Operation type, operator, operands, calls so far -/
abbrev OpsImpl := OpKind → CmpOp → Value → ROp → List Nat → Except (List Nat) ((Bool × Option GErr) × List Nat)

/-- the model's Operation table as such an implementation -/
def modelOps (lower : Bytes → Bytes) : OpsImpl := fun k op l r w => embed w (Rules.apply lower k op l r)

/-- the result of `apply(l, r)` as Go sees it: `(bool, error)`; the Stringer calls are recorded on the way -/
def callOp (ops : OpsImpl) (f : Option MethodVal) (l : Value) (r : ROp) (j : J) : VM (Bool × Option GErr × J) :=
  match f with
  | none => raise .nilOp j          -- call of a nil func value
  | some m =>
  match ops m.recv m.op l r j.calls with
  | .error w => .error ⟨.stringer, w, j.debugErr.map clsDbg⟩
  | .ok ((b, e), w) => .ok (b, e, { j with calls := w })

def newNestedError (inner : Option GErr) (msg : String) : GErr := .nested inner msg []
def GErr.Set : GErr → List String → GErr
  | .nested i m _, ks => .nested i m ks
  | e, _ => e

/-- `x.(bool)` on a visitor result -/
def assertBool (r : Ret) (j : J) : VM Bool :=
  match r with
  | some b => .ok b
  | none => raise .typeAssert j

end Rules.Go
