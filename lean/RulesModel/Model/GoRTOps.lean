import RulesModel.Model.GoRT
/-!
# Run-time prelude of the translated `Operation` implementations (`Generated/Ops.lean`)

`/verif/extract/golean.go` (profile `ops`) translates `operation.go` and the six `*_operation.go` files statement by
statement. This file fixes the meaning of what those translations use: one type `GoVal` for both operands (they are both
`Operand = interface{}` in Go – the split into attribute values `Value` and rule operands `ROp` is the model's), the log
of Stringer calls threaded through every function that can reach a `String()` call (`recv : W`; a panicking `String()` is
`Except.error` carrying the log), the Go operators on `int` / `float64` / `string`, `strings.*` on byte strings, and
blang/semver through the transcription `Sv.parse` / `Version.cmp`.
-/
namespace Rules.Go
open Rules

inductive GoVal where
  | nil
  | bool (b : Bool)
  | int (n : Int)
  | int32 (n : Int)
  | int64 (n : Int)
  | float (f : F64)
  | str (s : Bytes)
  | obj (kvs : List (Bytes × Value))
  | stringer (id : Nat) (beh : StrBeh)
  | other (tag : Nat)
  | ints (l : List Int)
  | floats (l : List F64)
  | strs (l : List Bytes)

def GoVal.ofV : Value → GoVal
  | .null => .nil
  | .bool b => .bool b
  | .int n => .int n
  | .int32 n => .int32 n
  | .int64 n => .int64 n
  | .float f => .float f
  | .str s => .str s
  | .obj kvs => .obj kvs
  | .stringer id beh => .stringer id beh
  | .other t => .other t

def GoVal.ofR : ROp → GoVal
  | .nil => .nil
  | .bool b => .bool b
  | .int n => .int n
  | .float f => .float f
  | .str s => .str s
  | .ints l => .ints l
  | .floats l => .floats l
  | .strs l => .strs l

/-- the Stringers asked for their text so far, in call order -/
abbrev W := List Nat
/-- a function that may reach a `String()` call: the panic of a `String()` method carries the log -/
abbrev OM := Except W

def isNilG : GoVal → Bool
  | .nil => true
  | _ => false

/-- `opVal.String()` on a value the type switch found to be a `fmt.Stringer` -/
def callString (v : GoVal) (w : W) : OM (Bytes × W) :=
  match v with
  | .stringer id (.ret s) => .ok (s, w ++ [id])
  | .stringer id .panics => .error (w ++ [id])
  | _ => .ok ([], w)             -- not reachable: the case is taken for Stringers only

/-! ### comma-ok assertions: the zero value and `false` when the dynamic type is another one -/
def asBool : GoVal → Bool × Bool
  | .bool b => (b, true)
  | _ => (false, false)
def asFloat : GoVal → F64 × Bool
  | .float f => (f, true)
  | _ => (F64.ofInt 0, false)
def asStr : GoVal → Bytes × Bool
  | .str s => (s, true)
  | _ => ([], false)
def asInts : GoVal → List Int × Bool
  | .ints l => (l, true)
  | _ => ([], false)
def asFloats : GoVal → List F64 × Bool
  | .floats l => (l, true)
  | _ => ([], false)
def asStrs : GoVal → List Bytes × Bool
  | .strs l => (l, true)
  | _ => ([], false)

/-- `int(x)` for a float64 `x`: not modelled (the visitor never pairs `IntOperation` with a float64 rule operand, and a
float64 attribute is delegated to `FloatOperation` before `toInt` is reached; `Proofs/OpsGen` states this as a hypothesis) -/
def intOfFloat (_ : F64) : Int := 0

/-! ### Go's ordered comparison of strings (bytes), as the model's `strRel` spells it -/
def strLt (a b : Bytes) : Bool := bytesLt a b
def strGt (a b : Bytes) : Bool := bytesLt b a
def strLe (a b : Bytes) : Bool := bytesLt a b || a == b
def strGe (a b : Bytes) : Bool := bytesLt b a || a == b
def hasPrefix (s p : Bytes) : Bool := isPrefixB p s
def hasSuffix (s p : Bytes) : Bool := isPrefixB p.reverse s.reverse
def contains (s sub : Bytes) : Bool := containsB s sub

/-! ### blang/semver -/
def verZero : Sv.Version := ⟨0, 0, 0, [], []⟩
def semverMake (s : Bytes) : Sv.Version × Option GErr :=
  match Sv.parse (natBytes s) with
  | some v => (v, none)
  | none => (verZero, some (.op .other))
def verEQ (a b : Sv.Version) : Bool := verRel .eq (a.cmp b)
def verNE (a b : Sv.Version) : Bool := verRel .ne (a.cmp b)
def verGT (a b : Sv.Version) : Bool := verRel .gt (a.cmp b)
def verLT (a b : Sv.Version) : Bool := verRel .lt (a.cmp b)
def verGE (a b : Sv.Version) : Bool := verRel .ge (a.cmp b)
def verLE (a b : Sv.Version) : Bool := verRel .le (a.cmp b)

/-! ### `for _, x := range xs { … }` whose body may return: `some r` = the function returned `r` -/
def forRange {α ρ} (xs : List α) (body : α → Option ρ) : Option ρ :=
  match xs with
  | [] => none
  | x :: rest => match body x with
    | some r => some r
    | none => forRange rest body

def forRangeM {α ρ} (xs : List α) (body : α → W → OM (Option ρ × W)) (w : W) : OM (Option ρ × W) :=
  match xs with
  | [] => .ok (none, w)
  | x :: rest => match body x w with
    | .error e => .error e
    | .ok (some r, w') => .ok (some r, w')
    | .ok (none, w') => forRangeM rest body w'

end Rules.Go
