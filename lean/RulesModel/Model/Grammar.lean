/-! Model: JsonQuery `query` rule — derivation relation, recursive-descent parser, soundness. -/
namespace Rules.P

abbrev Kind := Nat
structure Tok where
  kind : Kind
  text : String
  deriving Repr, DecidableEq

-- token kinds (JsonQuery.tokens)
def LP := 1  def RP := 2  def PR := 3  def DOT := 4  def MINUS := 5  def LB := 6  def RB := 7
def NOT := 8 def LOGOP := 9 def BOOLEAN := 10 def NULL := 11
def ATTR := 22 def VERSION := 23 def STRING := 24 def DOUBLE := 25 def INT := 26 def EXP := 27
def COMMA := 29 def SP := 30

def isCmp (k : Kind) : Bool := 12 ≤ k && k ≤ 21

inductive Lit where
  | bool (t : String) | null | version (t : String) | str (t : String) | double (t : String)
  | long (neg : Bool) (i : String) (e : Option String)
  | list (k : Kind) (xs : List String)         -- k ∈ {INT, DOUBLE, STRING}
  deriving Repr, DecidableEq

inductive Tree where
  | paren (neg : Bool) (q : Tree)
  | logical (op : String) (l r : Tree)
  | present (path : List String)
  | compare (path : List String) (op : Kind) (v : Lit)
  deriving Repr, DecidableEq

/-! ### derivations -/
inductive DPath : List Tok → List String → Prop
  | one (n) : DPath [⟨ATTR, n⟩] [n]
  | dot (n d) {ts p} : DPath ts p → DPath (⟨ATTR, n⟩ :: ⟨DOT, d⟩ :: ts) (n :: p)

inductive DList (k : Kind) : List Tok → List String → Prop
  | last (t b) : DList k [⟨k, t⟩, ⟨RB, b⟩] [t]
  | cons (t c) {ts xs} : DList k ts xs → DList k (⟨k, t⟩ :: ⟨COMMA, c⟩ :: ts) (t :: xs)

inductive DValue : List Tok → Lit → Prop
  | bool (t) : DValue [⟨BOOLEAN, t⟩] (.bool t)
  | null (t) : DValue [⟨NULL, t⟩] .null
  | version (t) : DValue [⟨VERSION, t⟩] (.version t)
  | str (t) : DValue [⟨STRING, t⟩] (.str t)
  | double (t) : DValue [⟨DOUBLE, t⟩] (.double t)
  | long (m : Option String) (i) (e : Option String) :
      DValue ((m.toList.map (⟨MINUS, ·⟩)) ++ [⟨INT, i⟩] ++ (e.toList.map (⟨EXP, ·⟩))) (.long m.isSome i e)
  | list (k) (hk : k = INT ∨ k = DOUBLE ∨ k = STRING) (b) {ts xs} : DList k ts xs → DValue (⟨LB, b⟩ :: ts) (.list k xs)

def optTok (k : Kind) (o : Option String) : List Tok := o.toList.map (⟨k, ·⟩)

/-- `D true` = primary (parenExp | presentExp | compareExp), `D false` = query (left-associative chain) -/
inductive D : Bool → List Tok → Tree → Prop
  | paren (n s1 s2 s3 : Option String) (l r : String) {ts t} : D false ts t →
      D true (optTok NOT n ++ optTok SP s1 ++ [⟨LP, l⟩] ++ optTok SP s2 ++ ts ++ optTok SP s3 ++ [⟨RP, r⟩]) (.paren n.isSome t)
  | present (s pr : String) {ps p} : DPath ps p → D true (ps ++ [⟨SP, s⟩, ⟨PR, pr⟩]) (.present p)
  | compare (s1 o s2 : String) (k : Kind) (hk : isCmp k = true) {ps p vs v} : DPath ps p → DValue vs v →
      D true (ps ++ [⟨SP, s1⟩, ⟨k, o⟩, ⟨SP, s2⟩] ++ vs) (.compare p k v)
  | prim {ts t} : D true ts t → D false ts t
  | logical (s1 op s2 : String) {ts1 t1 ts2 t2} : D false ts1 t1 → D true ts2 t2 →
      D false (ts1 ++ [⟨SP, s1⟩, ⟨LOGOP, op⟩, ⟨SP, s2⟩] ++ ts2) (.logical op t1 t2)

/-! ### parser -/
def parsePath : List Tok → Option (List String × List Tok)
  | ⟨k, n⟩ :: ⟨k2, d⟩ :: rest =>
      if k = ATTR then
        if k2 = DOT then (match parsePath rest with | some (p, r) => some (n :: p, r) | none => none)
        else some ([n], ⟨k2, d⟩ :: rest)
      else none
  | [⟨k, n⟩] => if k = ATTR then some ([n], []) else none
  | [] => none

def parseList (k : Kind) : List Tok → Option (List String × List Tok)
  | ⟨k1, t⟩ :: ⟨k2, _⟩ :: rest =>
      if k1 = k then
        if k2 = RB then some ([t], rest)
        else if k2 = COMMA then (match parseList k rest with | some (xs, r) => some (t :: xs, r) | none => none)
        else none
      else none
  | _ => none

def parseValue : List Tok → Option (Lit × List Tok)
  | [] => none
  | ⟨k, t⟩ :: rest =>
    if k = BOOLEAN then some (.bool t, rest)
    else if k = NULL then some (.null, rest)
    else if k = VERSION then some (.version t, rest)
    else if k = STRING then some (.str t, rest)
    else if k = DOUBLE then some (.double t, rest)
    else if k = INT then
      (match rest with
       | ⟨k2, e⟩ :: rest2 => if k2 = EXP then some (.long false t (some e), rest2) else some (.long false t none, rest)
       | [] => some (.long false t none, []))
    else if k = MINUS then
      (match rest with
       | ⟨k1, i⟩ :: rest1 =>
         if k1 = INT then
           (match rest1 with
            | ⟨k2, e⟩ :: rest2 => if k2 = EXP then some (.long true i (some e), rest2) else some (.long true i none, rest1)
            | [] => some (.long true i none, []))
         else none
       | [] => none)
    else if k = LB then
      (match rest with
       | ⟨k1, _⟩ :: _ =>
         if k1 = INT ∨ k1 = DOUBLE ∨ k1 = STRING then
           (match parseList k1 rest with | some (xs, r) => some (.list k1 xs, r) | none => none)
         else none
       | [] => none)
    else none

def eatOpt (k : Kind) : List Tok → Bool × List Tok
  | ⟨k1, t⟩ :: rest => if k1 = k then (true, rest) else (false, ⟨k1, t⟩ :: rest)
  | [] => (false, [])

mutual
def parsePrim : Nat → List Tok → Option (Tree × List Tok)
  | 0, _ => none
  | fuel + 1, ts =>
    let (neg, ts1) := eatOpt NOT ts
    let (_, ts2) := eatOpt SP ts1
    match ts2 with
    | ⟨k, _⟩ :: ts3 =>
      if k = LP then
        let (_, ts4) := eatOpt SP ts3
        match parseQuery fuel ts4 with
        | none => none
        | some (q, ts5) =>
          let (_, ts6) := eatOpt SP ts5
          match ts6 with
          | ⟨k', _⟩ :: ts7 => if k' = RP then some (.paren neg q, ts7) else none
          | [] => none
      else if neg then none
      else
        -- attrPath SP (pr | op SP value); note: no NOT / SP was eaten here unless followed by '(' … must restart from ts
        match parsePath ts with
        | none => none
        | some (p, r1) =>
          match r1 with
          | ⟨k1, _⟩ :: ⟨k2, _⟩ :: r2 =>
            if k1 = SP then
              if k2 = PR then some (.present p, r2)
              else if isCmp k2 then
                match r2 with
                | ⟨k3, _⟩ :: r3 =>
                  if k3 = SP then (match parseValue r3 with | some (v, r4) => some (.compare p k2 v, r4) | none => none)
                  else none
                | [] => none
              else none
            else none
          | _ => none
    | [] => none
def parseQuery : Nat → List Tok → Option (Tree × List Tok)
  | 0, _ => none
  | fuel + 1, ts =>
    match parsePrim fuel ts with
    | none => none
    | some (t, rest) => parseLoop fuel t rest
def parseLoop : Nat → Tree → List Tok → Option (Tree × List Tok)
  | 0, _, _ => none
  | fuel + 1, acc, ts =>
    match ts with
    | ⟨k1, _⟩ :: ⟨k2, op⟩ :: ⟨k3, s⟩ :: rest =>
      if k1 = SP ∧ k2 = LOGOP then
        if k3 = SP then
          match parsePrim fuel rest with
          | none => none
          | some (t, rest') => parseLoop fuel (.logical op acc t) rest'
        else none
      else some (acc, ts)
    | _ => some (acc, ts)
end

def parse (ts : List Tok) : Option Tree :=
  match parseQuery (2 * ts.length + 2) ts with
  | some (t, []) => some t
  | _ => none

-- sanity
def T (k : Kind) (s : String := "") : Tok := ⟨k, s⟩
#eval parse [T ATTR "a", T SP, T 13, T SP, T INT "1", T SP, T LOGOP "or", T SP, T ATTR "b", T SP, T PR, T SP, T LOGOP "and", T SP, T NOT, T SP, T LP, T SP, T ATTR "c", T DOT, T ATTR "d", T SP, T 12, T SP, T LB, T INT "1", T COMMA, T INT "2", T RB, T RP]

end Rules.P
