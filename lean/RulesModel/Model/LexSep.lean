import RulesModel.Model.Lexer
/-! Model: static analyses on regexes and the two boundary lemmas (G), (H) for lexer round trips. -/
namespace Rules
open Regex

/-- a finite union of closed code-point intervals -/
abbrev CSet := List (Nat × Nat)
def CSet.mem (s : CSet) (x : Nat) : Bool := s.any (fun (lo, hi) => lo ≤ x && x ≤ hi)

theorem CSet.mem_append (a b : CSet) (x : Nat) : (a ++ b).mem x = (a.mem x || b.mem x) := by
  simp [CSet.mem, List.any_append]

/-- complement of a finite set of points, as intervals over [0, 0x10FFFF] (points need not be sorted: we over-approximate by the whole range minus nothing when unsorted; here we simply return the full range, which is sound for an over-approximation) -/
def fullRange : CSet := [(0, 0x10FFFF)]

def firstChars : Regex → CSet
  | .empty => [] | .eps => []
  | .range lo hi => [(lo, hi)]
  | .notIn _ => fullRange
  | .seq a b => firstChars a ++ (if a.nullable then firstChars b else [])
  | .alt a b => firstChars a ++ firstChars b
  | .star a => firstChars a

def charsOf : Regex → CSet
  | .empty => [] | .eps => []
  | .range lo hi => [(lo, hi)]
  | .notIn _ => fullRange
  | .seq a b => charsOf a ++ charsOf b
  | .alt a b => charsOf a ++ charsOf b
  | .star a => charsOf a

/-- characters that may occur at a position ≥ 1 of a match -/
def tailChars : Regex → CSet
  | .empty => [] | .eps => [] | .range .. => [] | .notIn _ => []
  | .seq a b => tailChars a ++ (if (firstChars a).isEmpty then [] else charsOf b) ++ (if a.nullable then tailChars b else [])
  | .alt a b => tailChars a ++ tailChars b
  | .star a => charsOf a

theorem char_lt (c : Char) : c.toNat ≤ 0x10FFFF := by
  have h := c.valid
  unfold UInt32.isValidChar Nat.isValidChar at h
  show c.val.toNat ≤ _
  omega

theorem take_len_add {α} (l1 l2 : List α) (i : Nat) : (l1 ++ l2).take (l1.length + i) = l1 ++ l2.take i := by
  induction l1 with
  | nil => simp
  | cons a l ih => simp [Nat.succ_add, ih]

theorem charsOf_sound {r : Regex} {s : List Char} (h : Matches r s) : ∀ x ∈ s, (charsOf r).mem x.toNat = true := by
  induction h with
  | eps => simp
  | range h1 h2 => simp [charsOf, CSet.mem, h1, h2]
  | notIn _ => intro x hx; simp at hx; subst hx; simp [charsOf, fullRange, CSet.mem]; exact char_lt _
  | seq _ _ ih1 ih2 =>
    intro x hx; simp only [charsOf, CSet.mem_append, Bool.or_eq_true]
    rcases List.mem_append.1 hx with h | h
    · exact .inl (ih1 x h)
    · exact .inr (ih2 x h)
  | altL _ ih => intro x hx; simp only [charsOf, CSet.mem_append, Bool.or_eq_true]; exact .inl (ih x hx)
  | altR _ ih => intro x hx; simp only [charsOf, CSet.mem_append, Bool.or_eq_true]; exact .inr (ih x hx)
  | starNil => simp
  | starCons _ _ ih1 ih2 =>
    intro x hx
    rcases List.mem_append.1 hx with h | h
    · exact ih1 x h
    · exact ih2 x h

theorem firstChars_sound {r : Regex} {s : List Char} (h : Matches r s) :
    ∀ c t, s = c :: t → (firstChars r).mem c.toNat = true := by
  induction h with
  | eps => intro c t h; cases h
  | range h1 h2 => intro c t h; cases h; simp [firstChars, CSet.mem, h1, h2]
  | notIn _ => intro c t h; cases h; simp [firstChars, fullRange, CSet.mem]; exact char_lt _
  | @seq a b s1 s2 m1 m2 ih1 ih2 =>
    intro c t h
    simp only [firstChars, CSet.mem_append, Bool.or_eq_true]
    cases s1 with
    | nil =>
      have hn := (nullable_iff a).2 m1
      simp only [List.nil_append] at h
      right; simp [hn, ih2 c t h]
    | cons d s1 =>
      simp only [List.cons_append, List.cons.injEq] at h
      left; exact ih1 c s1 (by rw [h.1])
  | altL _ ih => intro c t h; simp only [firstChars, CSet.mem_append, Bool.or_eq_true]; exact .inl (ih c t h)
  | altR _ ih => intro c t h; simp only [firstChars, CSet.mem_append, Bool.or_eq_true]; exact .inr (ih c t h)
  | starNil => intro c t h; cases h
  | @starCons a s1 s2 m1 m2 ih1 ih2 =>
    intro c t h
    cases s1 with
    | nil => exact ih2 c t (by simpa using h)
    | cons d s1 =>
      simp only [List.cons_append, List.cons.injEq] at h
      exact ih1 c s1 (by rw [h.1])

theorem firstChars_nonempty {r : Regex} {c : Char} {t : List Char} (h : Matches r (c :: t)) :
    (firstChars r).isEmpty = false := by
  have := firstChars_sound h c t rfl
  cases hf : firstChars r with
  | nil => simp [hf, CSet.mem] at this
  | cons _ _ => rfl

theorem tailChars_sound {r : Regex} {s : List Char} (h : Matches r s) :
    ∀ c t, s = c :: t → ∀ x ∈ t, (tailChars r).mem x.toNat = true := by
  induction h with
  | eps => intro c t h; cases h
  | range _ _ => intro c t h; cases h; simp
  | notIn _ => intro c t h; cases h; simp
  | @seq a b s1 s2 m1 m2 ih1 ih2 =>
    intro c t h x hx
    simp only [tailChars, CSet.mem_append, Bool.or_eq_true]
    cases s1 with
    | nil =>
      have hn := (nullable_iff a).2 m1
      simp only [List.nil_append] at h
      right; simp [hn, ih2 c t h x hx]
    | cons d s1 =>
      simp only [List.cons_append, List.cons.injEq] at h
      obtain ⟨rfl, rfl⟩ := h
      rcases List.mem_append.1 hx with hx | hx
      · left; left; exact ih1 d s1 rfl x hx
      · left; right
        rw [firstChars_nonempty m1]
        simpa using charsOf_sound m2 x hx
  | altL _ ih => intro c t h x hx; simp only [tailChars, CSet.mem_append, Bool.or_eq_true]; exact .inl (ih c t h x hx)
  | altR _ ih => intro c t h x hx; simp only [tailChars, CSet.mem_append, Bool.or_eq_true]; exact .inr (ih c t h x hx)
  | starNil => intro c t h; cases h
  | @starCons a s1 s2 m1 m2 _ _ =>
    intro c t h x hx
    have hall := charsOf_sound (Matches.starCons m1 m2)
    simp only [tailChars]
    have : x ∈ s1 ++ s2 := by rw [h]; exact List.mem_cons_of_mem _ hx
    -- charsOf (star a) = charsOf a
    simpa [charsOf] using hall x this

/-- `longest` is determined by which prefixes match -/
theorem longest_congr (r : Regex) (s s' : List Char)
    (h : ∀ k, (k ≤ s.length ∧ Matches r (s.take k)) ↔ (k ≤ s'.length ∧ Matches r (s'.take k))) :
    longest r s = longest r s' := by
  have h1 := longest_spec r s
  have h2 := longest_spec r s'
  cases e1 : longest r s with
  | none =>
    simp only [e1] at h1
    cases e2 : longest r s' with
    | none => rfl
    | some n =>
      simp only [e2] at h2
      exact absurd ((h n).2 ⟨h2.1, h2.2.1⟩).2 (h1 n ((h n).2 ⟨h2.1, h2.2.1⟩).1)
  | some n =>
    simp only [e1] at h1
    cases e2 : longest r s' with
    | none =>
      simp only [e2] at h2
      exact absurd ((h n).1 ⟨h1.1, h1.2.1⟩).2 (h2 n ((h n).1 ⟨h1.1, h1.2.1⟩).1)
    | some m =>
      simp only [e2] at h2
      have a := (h n).1 ⟨h1.1, h1.2.1⟩
      have b := (h m).2 ⟨h2.1, h2.2.1⟩
      have : ¬ n < m := fun hlt => h1.2.2 m hlt b.1 b.2
      have : ¬ m < n := fun hlt => h2.2.2 n hlt a.1 a.2
      congr 1; omega

/-- (G): a following character that cannot occur inside a match of `r` (after position 0) cuts `r` off -/
theorem longest_cut (r : Regex) (w : List Char) (c : Char) (v : List Char) (hw : w ≠ [])
    (hc : (tailChars r).mem c.toNat = false) : longest r (w ++ c :: v) = longest r w := by
  apply longest_congr
  intro k
  constructor
  · rintro ⟨hk, hm⟩
    by_cases hle : k ≤ w.length
    · exact ⟨hle, by rwa [List.take_append_of_le_length hle] at hm⟩
    · exfalso
      -- the matched prefix contains c at position |w| ≥ 1
      obtain ⟨d, w', rfl⟩ : ∃ d w', w = d :: w' := by cases w with | nil => exact absurd rfl hw | cons d w' => exact ⟨d, w', rfl⟩
      have hk' : w'.length + 1 < k := by simpa using hle
      have : ∃ rest, (d :: w' ++ c :: v).take k = d :: (w' ++ c :: rest) := by
        obtain ⟨j, rfl⟩ : ∃ j, k = (d :: w').length + (j + 1) := ⟨k - (w'.length + 2), by simp; omega⟩
        rw [take_len_add]
        exact ⟨v.take j, by simp⟩
      obtain ⟨rest, this⟩ := this
      rw [this] at hm
      have := tailChars_sound hm d _ rfl c (by simp)
      simp [hc] at this
  · rintro ⟨hk, hm⟩
    exact ⟨by simp; omega, by rwa [List.take_append_of_le_length hk]⟩

/-- (H): a rule whose matches cannot start with the first character of `w` sees the same thing whatever follows -/
theorem longest_nofirst (r : Regex) (d : Char) (w' s2 s2' : List Char)
    (hd : (firstChars r).mem d.toNat = false) : longest r (d :: w' ++ s2) = longest r (d :: w' ++ s2') := by
  apply longest_congr
  intro k
  cases k with
  | zero => simp
  | succ k =>
    constructor <;> rintro ⟨_, hm⟩ <;> exfalso
    all_goals
      simp only [List.cons_append, List.take_succ_cons] at hm
      have := firstChars_sound hm d _ rfl
      simp [hd] at this

/-- per-rule agreement lifts to the maximal-munch choice -/
theorem bestMatch_congr (rules : List (Kind × Regex)) (s s' : List Char)
    (h : ∀ x ∈ rules, longest x.2 s = longest x.2 s') : bestMatch rules s = bestMatch rules s' := by
  unfold bestMatch
  generalize (none : Option (Kind × Nat)) = acc
  induction rules generalizing acc with
  | nil => rfl
  | cons x rs ih =>
    obtain ⟨k, r⟩ := x
    simp only [List.foldl_cons]
    rw [h (k, r) List.mem_cons_self]
    exact ih (fun y hy => h y (List.mem_cons_of_mem _ hy)) _

/-- decidable side condition for "token text `w` followed by character `c`": every rule is cut off by `c` or cannot start with `w₀` -/
def sepOK (rules : List (Kind × Regex)) (w0 c : Nat) : Bool :=
  rules.all (fun (_, r) => !(tailChars r).mem c || !(firstChars r).mem w0)

theorem bestMatch_sep (rules : List (Kind × Regex)) (d : Char) (w' : List Char) (c : Char) (v : List Char)
    (h : sepOK rules d.toNat c.toNat = true) :
    bestMatch rules (d :: w' ++ c :: v) = bestMatch rules (d :: w') := by
  apply bestMatch_congr
  intro x hx
  obtain ⟨k, r⟩ := x
  have := List.all_eq_true.1 h (k, r) hx
  simp only [Bool.or_eq_true, Bool.not_eq_true'] at this
  rcases this with h1 | h1
  · exact longest_cut r (d :: w') c v (by simp) h1
  · have := longest_nofirst r d w' (c :: v) [] h1
    simpa using this

end Rules
