import RulesModel.Model.Regex
/-! Model: maximal-munch lexer over a rule table; the JsonQuery token table; theorems. -/
namespace Rules
open Regex

abbrev Kind := Nat

structure Token where
  kind : Kind
  text : List Char
  deriving Repr, DecidableEq

/-- best (longest, then earliest) non-empty match among the rules at the head of `s` -/
def bestMatch (rules : List (Kind × Regex)) (s : List Char) : Option (Kind × Nat) :=
  rules.foldl (fun acc (k, r) =>
    match longest r s with
    | some n => if n = 0 then acc else
        match acc with
        | some (_, m) => if m < n then some (k, n) else acc
        | none => some (k, n)
    | none => acc) none

def lexFuel (rules : List (Kind × Regex)) : Nat → List Char → Option (List Token)
  | _, [] => some []
  | 0, _ :: _ => none
  | fuel + 1, s@(_ :: _) =>
    match bestMatch rules s with
    | none => none
    | some (k, n) =>
      match lexFuel rules fuel (s.drop n) with
      | none => none
      | some ts => some (⟨k, s.take n⟩ :: ts)

def lex (rules : List (Kind × Regex)) (s : List Char) : Option (List Token) := lexFuel rules s.length s

/-! ### the JsonQuery table (hand-written here; generated from the .g4 in the real thing) -/
def lit (s : String) : Regex := s.toList.foldr (fun c r => .seq (.range c.toNat c.toNat) r) .eps
def alts : List Regex → Regex
  | [] => .empty
  | [r] => r
  | r :: rs => .alt r (alts rs)
def opt (r : Regex) : Regex := .alt r .eps
def plus (r : Regex) : Regex := .seq r (.star r)
def ch (c : Char) : Regex := .range c.toNat c.toNat
def rng (a b : Char) : Regex := .range a.toNat b.toNat

def digit : Regex := rng '0' '9'
def alpha : Regex := alts [rng 'A' 'Z', rng 'a' 'z']
def nameChar : Regex := alts [ch '-', ch '_', ch ':', digit, alpha]
def int : Regex := alts [ch '0', .seq (rng '1' '9') (.star digit)]
def exp : Regex := .seq (alts [ch 'E', ch 'e']) (.seq (opt (alts [ch '+', ch '-'])) int)
def hex : Regex := alts [digit, rng 'a' 'f', rng 'A' 'F']
def esc : Regex := .seq (ch '\\') (alts [alts ("\"\\/bfnrt".toList.map ch), .seq (ch 'u') (.seq hex (.seq hex (.seq hex hex)))])
def strRe : Regex := .seq (ch '"') (.seq (.star (alts [esc, .notIn ['"'.toNat, '\\'.toNat]])) (ch '"'))

def jqRules : List (Kind × Regex) := [
  (1, lit "("), (2, lit ")"), (3, lit "pr"), (4, lit "."), (5, lit "-"), (6, lit "["), (7, lit "]"),
  (8, alts [lit "not", lit "NOT"]), (9, alts [lit "and", lit "or"]), (10, alts [lit "true", lit "false"]), (11, lit "null"),
  (12, alts [lit "IN", lit "in"]), (13, alts [lit "eq", lit "EQ", lit "=="]), (14, alts [lit "ne", lit "NE", lit "!="]),
  (15, alts [lit "gt", lit "GT", lit ">"]), (16, alts [lit "lt", lit "LT", lit "<"]),
  (17, alts [lit "ge", lit "GE", lit ">="]), (18, alts [lit "le", lit "LE", lit "<="]),
  (19, alts [lit "co", lit "CO"]), (20, alts [lit "sw", lit "SW"]), (21, alts [lit "ew", lit "EW"]),
  (22, .seq alpha (.star nameChar)),
  (23, .seq int (.seq (ch '.') (.seq int (.seq (ch '.') int)))),
  (24, strRe),
  (25, .seq (opt (ch '-')) (.seq int (.seq (ch '.') (.seq (plus digit) (opt exp))))),
  (26, int), (27, exp), (28, ch '\n'), (29, .seq (ch ',') (.star (ch ' '))), (30, .seq (ch ' ') (.star (ch '\n')))]

def kinds (s : String) : Option (List Kind) := (lex jqRules s.toList).map (·.map (·.kind))

-- finite lexer facts named in C20, checked by evaluation in the kernel
example : kinds "order eq 1" = some [22, 30, 13, 30, 26] := by decide +kernel
example : kinds "or" = some [9] := by decide +kernel
example : kinds "1.2.3" = some [23] := by decide +kernel
example : kinds "1.2" = some [25] := by decide +kernel
example : kinds "<=" = some [18] := by decide +kernel
example : kinds "1e5" = some [26, 22] := by decide +kernel
example : kinds "1e+5" = some [26, 27] := by decide +kernel
example : kinds "x ~ 1" = none := by decide +kernel

/-! ### theorems (any table) -/
theorem bestMatch_pos (rules : List (Kind × Regex)) (s : List Char) (k : Kind) (n : Nat)
    (h : bestMatch rules s = some (k, n)) : 0 < n ∧ n ≤ s.length ∧ ∃ r, (k, r) ∈ rules ∧ Matches r (s.take n) := by
  unfold bestMatch at h
  -- generalise the accumulator
  suffices H : ∀ (acc : Option (Kind × Nat)),
      (∀ k n, acc = some (k, n) → 0 < n ∧ n ≤ s.length ∧ ∃ r, (k, r) ∈ rules ∧ Matches r (s.take n)) →
      ∀ (rs : List (Kind × Regex)), (∀ x ∈ rs, x ∈ rules) →
      ∀ k n, rs.foldl (fun acc (k, r) =>
        match longest r s with
        | some n => if n = 0 then acc else
            match acc with
            | some (_, m) => if m < n then some (k, n) else acc
            | none => some (k, n)
        | none => acc) acc = some (k, n) → 0 < n ∧ n ≤ s.length ∧ ∃ r, (k, r) ∈ rules ∧ Matches r (s.take n) from
    H none (by simp) rules (fun _ h => h) k n h
  intro acc hacc rs
  induction rs generalizing acc with
  | nil => intro _ k n h; exact hacc k n h
  | cons x rs ih =>
    intro hsub k n h
    obtain ⟨kx, rx⟩ := x
    simp only [List.foldl_cons] at h
    refine ih _ ?_ (fun y hy => hsub y (List.mem_cons_of_mem _ hy)) k n h
    intro k' n' hk'
    have hspec := longest_spec rx s
    cases hl : longest rx s with
    | none => simp only [hl] at hk'; exact hacc k' n' hk'
    | some m =>
      simp only [hl] at hk' hspec
      split at hk'
      · exact hacc k' n' hk'
      · rename_i hm0
        have hnew : 0 < m ∧ m ≤ s.length ∧ ∃ r, (kx, r) ∈ rules ∧ Matches r (s.take m) :=
          ⟨by omega, hspec.1, rx, hsub _ (List.mem_cons_self), hspec.2.1⟩
        cases hacc' : acc with
        | none => simp only [hacc'] at hk'; cases hk'; exact hnew
        | some p =>
          obtain ⟨ka, ma⟩ := p
          simp only [hacc'] at hk'
          split at hk'
          · cases hk'; exact hnew
          · exact hacc k' n' (hacc' ▸ hk')

theorem lexFuel_partition (rules : List (Kind × Regex)) (fuel : Nat) (s : List Char) (ts : List Token)
    (h : lexFuel rules fuel s = some ts) : (ts.map (·.text)).flatten = s := by
  induction fuel generalizing s ts with
  | zero => cases s <;> simp_all [lexFuel]
  | succ fuel ih =>
    cases s with
    | nil => simp_all [lexFuel]
    | cons c cs =>
      simp only [lexFuel] at h
      split at h
      · cases h
      · rename_i k n hb
        split at h
        · cases h
        · rename_i ts' hrec
          cases h
          have := ih _ _ hrec
          simp [this, List.take_append_drop]

end Rules
