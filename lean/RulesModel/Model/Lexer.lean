import RulesModel.Model.Regex
/-! Model: maximal-munch lexer over a rule table; the JsonQuery token table; theorems. -/
namespace Rules
open Regex

abbrev Kind := Nat

structure Token where
  kind : Kind
  text : List Char
  deriving Repr, DecidableEq

/-- best (longest, then earliest) non-empty match among the rules at the head of `s` -/
def bestMatch (rules : List (Kind × Regex)) (s : List Char) : Option (Kind × Nat) :=
  rules.foldl (fun acc (k, r) =>
    match longest r s with
    | some n => if n = 0 then acc else
        match acc with
        | some (_, m) => if m < n then some (k, n) else acc
        | none => some (k, n)
    | none => acc) none

def lexFuel (rules : List (Kind × Regex)) : Nat → List Char → Option (List Token)
  | _, [] => some []
  | 0, _ :: _ => none
  | fuel + 1, s@(_ :: _) =>
    match bestMatch rules s with
    | none => none
    | some (k, n) =>
      match lexFuel rules fuel (s.drop n) with
      | none => none
      | some ts => some (⟨k, s.take n⟩ :: ts)

def lex (rules : List (Kind × Regex)) (s : List Char) : Option (List Token) := lexFuel rules s.length s

/-! ### regex combinators used by the generated table -/
def lit (s : String) : Regex := s.toList.foldr (fun c r => .seq (.range c.toNat c.toNat) r) .eps
def alts : List Regex → Regex
  | [] => .empty
  | [r] => r
  | r :: rs => .alt r (alts rs)
def opt (r : Regex) : Regex := .alt r .eps
def plus (r : Regex) : Regex := .seq r (.star r)
def ch (c : Char) : Regex := .range c.toNat c.toNat
def rng (a b : Char) : Regex := .range a.toNat b.toNat


/-! ### theorems (any table) -/
theorem bestMatch_pos (rules : List (Kind × Regex)) (s : List Char) (k : Kind) (n : Nat)
    (h : bestMatch rules s = some (k, n)) : 0 < n ∧ n ≤ s.length ∧ ∃ r, (k, r) ∈ rules ∧ Matches r (s.take n) := by
  unfold bestMatch at h
  -- generalise the accumulator
  suffices H : ∀ (acc : Option (Kind × Nat)),
      (∀ k n, acc = some (k, n) → 0 < n ∧ n ≤ s.length ∧ ∃ r, (k, r) ∈ rules ∧ Matches r (s.take n)) →
      ∀ (rs : List (Kind × Regex)), (∀ x ∈ rs, x ∈ rules) →
      ∀ k n, rs.foldl (fun acc (k, r) =>
        match longest r s with
        | some n => if n = 0 then acc else
            match acc with
            | some (_, m) => if m < n then some (k, n) else acc
            | none => some (k, n)
        | none => acc) acc = some (k, n) → 0 < n ∧ n ≤ s.length ∧ ∃ r, (k, r) ∈ rules ∧ Matches r (s.take n) from
    H none (by simp) rules (fun _ h => h) k n h
  intro acc hacc rs
  induction rs generalizing acc with
  | nil => intro _ k n h; exact hacc k n h
  | cons x rs ih =>
    intro hsub k n h
    obtain ⟨kx, rx⟩ := x
    simp only [List.foldl_cons] at h
    refine ih _ ?_ (fun y hy => hsub y (List.mem_cons_of_mem _ hy)) k n h
    intro k' n' hk'
    have hspec := longest_spec rx s
    cases hl : longest rx s with
    | none => simp only [hl] at hk'; exact hacc k' n' hk'
    | some m =>
      simp only [hl] at hk' hspec
      split at hk'
      · exact hacc k' n' hk'
      · rename_i hm0
        have hnew : 0 < m ∧ m ≤ s.length ∧ ∃ r, (kx, r) ∈ rules ∧ Matches r (s.take m) :=
          ⟨by omega, hspec.1, rx, hsub _ (List.mem_cons_self), hspec.2.1⟩
        cases hacc' : acc with
        | none => simp only [hacc'] at hk'; cases hk'; exact hnew
        | some p =>
          obtain ⟨ka, ma⟩ := p
          simp only [hacc'] at hk'
          split at hk'
          · cases hk'; exact hnew
          · exact hacc k' n' (hacc' ▸ hk')

theorem lexFuel_partition (rules : List (Kind × Regex)) (fuel : Nat) (s : List Char) (ts : List Token)
    (h : lexFuel rules fuel s = some ts) : (ts.map (·.text)).flatten = s := by
  induction fuel generalizing s ts with
  | zero => cases s <;> simp_all [lexFuel]
  | succ fuel ih =>
    cases s with
    | nil => simp_all [lexFuel]
    | cons c cs =>
      simp only [lexFuel] at h
      split at h
      · cases h
      · rename_i k n hb
        split at h
        · cases h
        · rename_i ts' hrec
          cases h
          have := ih _ _ hrec
          simp [this, List.take_append_drop]

end Rules
