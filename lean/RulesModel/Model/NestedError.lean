/-!
# `nester_error.go`: NestedError (C19)

`Error()` mutates `Vals` (of this layer and, through `e.Err.Error()`, of every inner layer), so the model
returns the new error next to the text. A value attached with `Set` is abstracted to its JSON rendering
(`enc json`, as `json.Marshal` renders that value alone) or `unenc` when `json.Marshal` rejects it.
-/
namespace Rules

inductive JVal where
  | enc (json : String)
  | unenc
  deriving Repr, DecidableEq

/-- an `error` value: a plain cause, or a `*NestedError` -/
inductive NE where
  | leaf (text : String)
  | nest (cause : NE) (msg : String) (vals : List (String × JVal))
  deriving Repr

namespace NE

/-- `m[k] = v` on an association list standing for a Go map -/
def setKey (k : String) (v : JVal) : List (String × JVal) → List (String × JVal)
  | [] => [(k, v)]
  | (k', v') :: rest => if k' = k then (k, v) :: rest else (k', v') :: setKey k v rest

/-- `e.Vals.Merge(vals.Dupe())` -/
def merge (vals new : List (String × JVal)) : List (String × JVal) :=
  new.foldl (fun acc kv => setKey kv.1 kv.2 acc) vals

def hexd (n : Nat) : Char := if n < 10 then Char.ofNat (48 + n) else Char.ofNat (87 + n)

/-- `encoding/json` string escaping (HTML-safe variant, as `json.Marshal` uses). Go strings are byte strings: a byte
that is not part of a valid UTF-8 sequence is written as `\ufffd` by the encoder (one per byte) but stays what it is in the
plain fallback text. The model's texts are Lean `String`s; the code points U+F780 … U+F7FF (private use) stand for the
bytes 0x80 … 0xFF *outside* valid UTF-8 (the harness maps them in both directions). -/
def escChar (c : Char) : List Char :=
  if 0xF780 ≤ c.toNat ∧ c.toNat ≤ 0xF7FF then "\\ufffd".toList else
  if c = '"' then ['\\', '"'] else if c = '\\' then ['\\', '\\']
  else if c = '\n' then ['\\', 'n'] else if c = '\r' then ['\\', 'r'] else if c = '\t' then ['\\', 't']
  else if c.toNat = 8 then ['\\', 'b'] else if c.toNat = 12 then ['\\', 'f']
  else if c.toNat < 0x20 ∨ c = '<' ∨ c = '>' ∨ c = '&' then
    ['\\', 'u', '0', '0', hexd (c.toNat / 16), hexd (c.toNat % 16)]
  else if c.toNat = 0x2028 then "\\u2028".toList else if c.toNat = 0x2029 then "\\u2029".toList
  else [c]

def jsonString (s : String) : String :=
  String.ofList ('"' :: (s.toList.flatMap escChar ++ ['"']))

/-- insertion of a key/value pair into a list sorted by key (Go's `json.Marshal` sorts map keys) -/
def insertSorted (kv : String × JVal) : List (String × JVal) → List (String × JVal)
  | [] => [kv]
  | x :: rest => if kv.1 < x.1 then kv :: x :: rest else x :: insertSorted kv rest

def sortKeys (l : List (String × JVal)) : List (String × JVal) := l.foldr insertSorted []

def encodable (l : List (String × JVal)) : Bool := l.all (fun kv => kv.2 != .unenc)

def renderField : String × JVal → String
  | (k, .enc j) => jsonString k ++ ":" ++ j
  | (k, .unenc) => jsonString k ++ ":null"

def renderObj (l : List (String × JVal)) : String :=
  "{" ++ ",".intercalate ((sortKeys l).map renderField) ++ "}"

/-- `(*NestedError).Original` -/
def original : NE → NE
  | .leaf t => .leaf t
  | .nest (.leaf t) _ _ => .leaf t
  | .nest c _ _ => original c

def depth : NE → Nat
  | .leaf _ => 0
  | .nest c _ _ => c.depth + 1

/-- `Error()`: the text and the error as it is afterwards. The fallback branch calls `e.Err.Error()` a second
time, on the cause *as the first call left it*; that this terminates needs the fact that `Error()` does not
change the nesting depth, which is why the result carries it. -/
def errorAux : (e : NE) → { p : String × NE // p.2.depth = e.depth }
  | .leaf t => ⟨(t, .leaf t), rfl⟩
  | .nest c msg vals =>
    let r1 := errorAux c
    let vals' := setKey "msg" (.enc (jsonString msg)) (setKey "err" (.enc (jsonString r1.1.1)) vals)
    if encodable vals' then ⟨(renderObj vals', .nest r1.1.2 msg vals'), by simp [depth, r1.2]⟩
    else
      have : r1.1.2.depth < (NE.nest c msg vals).depth := by simp [depth, r1.2]
      let r2 := errorAux r1.1.2          -- the fallback calls `e.Err.Error()` again
      ⟨(msg ++ ": " ++ r2.1.1, .nest r2.1.2 msg vals'), by simp [depth, r2.2, r1.2]⟩
termination_by e => e.depth
decreasing_by
  · simp [depth]
  · simpa [depth] using this

def error (e : NE) : String × NE := (errorAux e).1

/-- `Set` on the outermost layer (a no-op on a plain cause, which has no `Set`) -/
def set (new : List (String × JVal)) : NE → NE
  | .leaf t => .leaf t
  | .nest c msg vals => .nest c msg (merge vals new)

/-- `Set` on the layer `d` levels below the outermost one -/
def setAt : Nat → List (String × JVal) → NE → NE
  | 0, new, e => set new e
  | d + 1, new, .nest c msg vals => .nest (setAt d new c) msg vals
  | _ + 1, _, .leaf t => .leaf t

/-- `Error()` on the layer `d` levels below the outermost one (it leaves `err` / `msg` behind in that layer's values) -/
def errorAt : Nat → NE → String × NE
  | 0, e => error e
  | d + 1, .nest c msg vals => let (t, c') := errorAt d c; (t, .nest c' msg vals)
  | _ + 1, .leaf t => (t, .leaf t)

end NE

/-! ### driver commands -/
namespace NErr

def hexVal (c : Char) : Nat :=
  if '0' ≤ c ∧ c ≤ '9' then c.toNat - 48
  else if 'a' ≤ c ∧ c ≤ 'f' then c.toNat - 87
  else if 'A' ≤ c ∧ c ≤ 'F' then c.toNat - 55 else 0

def unhexStr (s : String) : String :=
  if s = "-" then "" else
  let rec go : List Char → List UInt8
    | a :: b :: r => UInt8.ofNat (hexVal a * 16 + hexVal b) :: go r
    | _ => []
  match String.fromUTF8? (ByteArray.mk (go s.toList).toArray) with
  | some t => t
  | none => ""

def hexd (n : Nat) : Char := if n < 10 then Char.ofNat (48 + n) else Char.ofNat (87 + n)

def hexStr (s : String) : String :=
  let b := s.toUTF8.toList
  if b.isEmpty then "-" else
  String.ofList (b.foldr (fun x acc => hexd (x.toNat / 16) :: hexd (x.toNat % 16) :: acc) [])

def parsePairs : List String → List (String × JVal)
  | k :: v :: r =>
    (unhexStr k, if v = "U" then JVal.unenc else JVal.enc (unhexStr ((v.drop 1).toString))) :: parsePairs r
  | _ => []

/-- ops (each a tab-separated field): `LEAF hex` | `WRAP hex` | `SET k v k v …` | `ERROR` | `ORIG`;
answers joined by " | " (texts in hex) -/
def run (e : Option NE) : List String → List String
  | [] => []
  | f :: rest =>
    match f.splitOn " " with
    | ["LEAF", h] => run (some (.leaf (unhexStr h))) rest
    | ["WRAP", h] => run (e.map (fun c => .nest c (unhexStr h) [])) rest
    | "SET" :: kvs => run (e.map (NE.set (parsePairs kvs))) rest
    | "SETAT" :: d :: kvs => run (e.map (NE.setAt d.toNat! (parsePairs kvs))) rest
    | ["ERRORAT", d] =>
      match e with
      | none => "none" :: run e rest
      | some x => let (t, x') := NE.errorAt d.toNat! x; hexStr t :: run (some x') rest
    | ["ERROR"] =>
      match e with
      | none => "none" :: run e rest
      | some x => let (t, x') := x.error; hexStr t :: run (some x') rest
    | ["ORIG"] =>
      match e with
      | some x => (match x.original with | .leaf t => "leaf:" ++ hexStr t | _ => "nested") :: run e rest
      | none => "none" :: run e rest
    | _ => "BADOP" :: run e rest

def handle (fields : List String) : String := " | ".intercalate (run none fields)

end NErr
end Rules
