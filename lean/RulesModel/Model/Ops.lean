import RulesModel.Model.Value
import RulesModel.Model.Semver
/-!
# The typed `Operation` implementations (`*_operation.go`, `operation.go`) — DESIGN §3.8, Appendix B

`apply lower k op left right` is `currentOperation.<OP>(leftOp, rightOp)` where `k` says which of the six
`Operation` types `currentOperation` is. `lower` stands for `strings.ToLower` (every theorem is for all
`lower`; the driver receives Go's own answers for the strings of a case).
-/
namespace Rules

/-- the rule operand register `j.rightOp` -/
inductive ROp where
  | nil
  | bool (b : Bool)
  | int (n : Int)
  | float (f : F64)
  | str (s : Bytes)                 -- string literal body, or version literal text
  | ints (l : List Int)
  | floats (l : List F64)
  | strs (l : List Bytes)
  deriving Repr

/-- which `Operation` implementation `j.currentOperation` points to -/
inductive OpKind where
  | null | bool | int | float | string | version
  deriving Repr, DecidableEq

inductive CmpOp where
  | eq | ne | gt | lt | ge | le | co | sw | ew | in_
  deriving Repr, DecidableEq

/-- error value returned by an Operation method -/
inductive OpErr where
  | invalidOperation     -- ErrInvalidOperation
  | missing              -- ErrEvalOperandMissing
  | invalidOperand       -- *ErrInvalidOperand
  | other                -- any other error (blang/semver parse errors)
  deriving Repr, DecidableEq

/-- result of an Operation method: `(bool, error)`, or a panic out of `String()`;
`calls` = ids of the Stringers asked for their text, in call order -/
inductive OpRes where
  | ok (b : Bool) (calls : List Nat)
  | err (e : OpErr) (calls : List Nat)
  | panic (calls : List Nat)
  deriving Repr, DecidableEq

def OpRes.addCalls (pre : List Nat) : OpRes → OpRes
  | .ok b c => .ok b (pre ++ c)
  | .err e c => .err e (pre ++ c)
  | .panic c => .panic (pre ++ c)

/-! ### coercions (`toInt`, `toFloat`, `getString`) -/

/-- `toInt` on the attribute side. (float64 is handled before `toInt` is reached, see `intRel`.) -/
def toIntL : Value → Option Int
  | .int n => some n
  | .int32 n => some n
  | .int64 n => some n
  | _ => none

/-- `toInt` on the rule operand -/
def toIntR : ROp → Option Int
  | .int n => some n
  | .float f => none      -- direct calls only; the visitor never produces this combination
  | _ => none

def toFloatL : Value → Option F64
  | .int n => some (F64.ofInt n)
  | .float f => some f
  | _ => none

def toFloatR : ROp → Option F64
  | .int n => some (F64.ofInt n)
  | .float f => some f
  | _ => none

/-- outcome of `StringOperation.getString(operand)` on the attribute side -/
inductive GS where
  | str (s : Bytes) (calls : List Nat)
  | invalid
  | panic (calls : List Nat)

def getStringL : Value → GS
  | .str s => .str s []
  | .stringer id (.ret s) => .str s [id]
  | .stringer id .panics => .panic [id]
  | _ => .invalid

def getStringR : ROp → Option Bytes
  | .str s => some s
  | _ => none

/-! ### the six relations -/

def intRel : CmpOp → Int → Int → Bool
  | .eq, a, b => a == b
  | .ne, a, b => a != b
  | .gt, a, b => decide (a > b)
  | .lt, a, b => decide (a < b)
  | .ge, a, b => decide (a ≥ b)
  | .le, a, b => decide (a ≤ b)
  | _, _, _ => false

def floatRel : CmpOp → F64 → F64 → Bool
  | .eq, a, b => F64.eq a b
  | .ne, a, b => F64.ne a b
  | .gt, a, b => F64.gt a b
  | .lt, a, b => F64.lt a b
  | .ge, a, b => F64.ge a b
  | .le, a, b => F64.le a b
  | _, _, _ => false

/-- Go string `<` : lexicographic on bytes -/
def bytesLt : Bytes → Bytes → Bool
  | [], [] => false
  | [], _ :: _ => true
  | _ :: _, [] => false
  | a :: as, b :: bs => if a < b then true else if b < a then false else bytesLt as bs

def isPrefixB : Bytes → Bytes → Bool
  | [], _ => true
  | _ :: _, [] => false
  | a :: as, b :: bs => a == b && isPrefixB as bs

/-- `strings.Contains(l, r)` -/
def containsB (l r : Bytes) : Bool :=
  match l with
  | [] => r.isEmpty
  | _ :: t => isPrefixB r l || containsB t r

def strRel : CmpOp → Bytes → Bytes → Bool
  | .eq, a, b => a == b
  | .ne, a, b => a != b
  | .gt, a, b => bytesLt b a
  | .lt, a, b => bytesLt a b
  | .ge, a, b => bytesLt b a || a == b
  | .le, a, b => bytesLt a b || a == b
  | .co, a, b => containsB a b
  | .sw, a, b => isPrefixB b a
  | .ew, a, b => isPrefixB b.reverse a.reverse
  | .in_, _, _ => false

def verRel : CmpOp → Ordering → Bool
  | .eq, o => o == .eq
  | .ne, o => o != .eq
  | .gt, o => o == .gt
  | .lt, o => o == .lt
  | .ge, o => o != .lt
  | .le, o => o != .gt
  | _, _ => false

def isRelational : CmpOp → Bool
  | .eq | .ne | .gt | .lt | .ge | .le => true
  | _ => false

/-! ### the Operation types -/

/-- `NullOperation` -/
def nullOp (op : CmpOp) (left : Value) : OpRes :=
  match op with
  | .eq => .ok left.isNull []
  | .ne => .ok (!left.isNull) []
  | _ => .err .invalidOperation []

/-- `BoolOperation` (embeds NullOperation) -/
def boolOp (op : CmpOp) (left : Value) (right : ROp) : OpRes :=
  match op with
  | .eq | .ne =>
    match left with
    | .null => .err .missing []
    | .bool l =>
      match right with
      | .bool r => .ok (if op = .eq then l == r else l != r) []
      | _ => .err .invalidOperand []
    | _ => .err .invalidOperand []
  | _ => .err .invalidOperation []

/-- `FloatOperation.get` followed by the relation -/
def floatRelOp (op : CmpOp) (left : Value) (right : ROp) : OpRes :=
  match left with
  | .null => .err .missing []
  | _ =>
    match toFloatL left with
    | none => .err .invalidOperand []
    | some l =>
      match toFloatR right with
      | none => .err .invalidOperand []
      | some r => .ok (floatRel op l r) []

/-- `IntOperation.{EQ,…,LE}`: a float64 attribute is compared as a float (repair D3), otherwise `get` -/
def intRelOp (op : CmpOp) (left : Value) (right : ROp) : OpRes :=
  match left with
  | .float _ => floatRelOp op left right
  | .null => .err .missing []
  | _ =>
    match toIntL left with
    | none => .err .invalidOperand []
    | some l =>
      match toIntR right with
      | none => .err .invalidOperand []
      | some r => .ok (intRel op l r) []

/-- the loop of `IntOperation.IN`: `o.EQ(left, num)` per element -/
def intInLoop (left : Value) : List Int → OpRes
  | [] => .ok false []
  | n :: rest =>
    match intRelOp .eq left (.int n) with
    | .ok true c => .ok true c
    | .ok false _ => intInLoop left rest
    | r => r

def intOp (op : CmpOp) (left : Value) (right : ROp) : OpRes :=
  match op with
  | .co | .sw | .ew => .err .invalidOperation []
  | .in_ =>
    match right with
    | .ints l => intInLoop left l
    | _ => .err .invalidOperand []
  | _ => intRelOp op left right

def floatOp (op : CmpOp) (left : Value) (right : ROp) : OpRes :=
  match op with
  | .co | .sw | .ew => .err .invalidOperation []
  | .in_ =>
    match toFloatL left with
    | none => .err .invalidOperand []
    | some l =>
      match right with
      | .floats rs => .ok (rs.any (fun r => F64.eq r l)) []
      | _ => .err .invalidOperand []
  | _ => floatRelOp op left right

/-- `StringOperation.get` followed by the relation -/
def strRelOp (lower : Bytes → Bytes) (op : CmpOp) (left : Value) (right : ROp) : OpRes :=
  match left with
  | .null => .err .missing []
  | _ =>
    match getStringL left with
    | .invalid => .err .invalidOperand []
    | .panic c => .panic c
    | .str l c =>
      match getStringR right with
      | none => .err .invalidOperand c
      | some r => .ok (strRel op (lower l) (lower r)) c

/-- the loop of `StringOperation.IN`: `o.EQ(left, val)` per element (each asks a Stringer again) -/
def strInLoop (lower : Bytes → Bytes) (left : Value) : List Bytes → OpRes
  | [] => .ok false []
  | v :: rest =>
    match strRelOp lower .eq left (.str v) with
    | .ok true c => .ok true c
    | .ok false c => (strInLoop lower left rest).addCalls c
    | r => r

def stringOp (lower : Bytes → Bytes) (op : CmpOp) (left : Value) (right : ROp) : OpRes :=
  match op with
  | .in_ =>
    match right with
    | .strs l => strInLoop lower left l
    | _ => .err .invalidOperand []
  | _ => strRelOp lower op left right

def natBytes (b : Bytes) : List Nat := b.map UInt8.toNat

/-- `VersionOperation` -/
def versionOp (op : CmpOp) (left : Value) (right : ROp) : OpRes :=
  match op with
  | .co | .sw | .ew | .in_ => .err .invalidOperation []
  | _ =>
    match left with
    | .str l =>
      match getStringR right with
      | none => .err .invalidOperand []
      | some r =>
        match Sv.parse (natBytes l) with
        | none => .err .other []
        | some lv =>
          match Sv.parse (natBytes r) with
          | none => .err .other []
          | some rv => .ok (verRel op (lv.cmp rv)) []
    | _ => .err .invalidOperand []

/-- `currentOperation.<OP>(leftOp, rightOp)` -/
def apply (lower : Bytes → Bytes) (k : OpKind) (op : CmpOp) (left : Value) (right : ROp) : OpRes :=
  match k with
  | .null => nullOp op left
  | .bool => boolOp op left right
  | .int => intOp op left right
  | .float => floatOp op left right
  | .string => stringOp lower op left right
  | .version => versionOp op left right

end Rules
