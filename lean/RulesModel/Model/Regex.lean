/-! Model: generic regex-derivative maximal-munch lexer with its specification theorems. -/
namespace Rules

inductive Regex where
  | empty                       -- ∅
  | eps                         -- ε
  | range (lo hi : Nat)         -- one char with code in [lo, hi]
  | notIn (cs : List Nat)       -- one char not in cs
  | seq (a b : Regex)
  | alt (a b : Regex)
  | star (a : Regex)
  deriving Repr, DecidableEq

namespace Regex

/-- denotational semantics -/
inductive Matches : Regex → List Char → Prop
  | eps : Matches .eps []
  | range {lo hi c} : lo ≤ c.toNat → c.toNat ≤ hi → Matches (.range lo hi) [c]
  | notIn {cs c} : c.toNat ∉ cs → Matches (.notIn cs) [c]
  | seq {a b s t} : Matches a s → Matches b t → Matches (.seq a b) (s ++ t)
  | altL {a b s} : Matches a s → Matches (.alt a b) s
  | altR {a b s} : Matches b s → Matches (.alt a b) s
  | starNil {a} : Matches (.star a) []
  | starCons {a s t} : Matches a s → Matches (.star a) t → Matches (.star a) (s ++ t)

def nullable : Regex → Bool
  | .empty => false | .eps => true | .range .. => false | .notIn _ => false
  | .seq a b => a.nullable && b.nullable
  | .alt a b => a.nullable || b.nullable
  | .star _ => true

def deriv (c : Char) : Regex → Regex
  | .empty => .empty | .eps => .empty
  | .range lo hi => if lo ≤ c.toNat ∧ c.toNat ≤ hi then .eps else .empty
  | .notIn cs => if c.toNat ∈ cs then .empty else .eps
  | .seq a b => if a.nullable then .alt (.seq (a.deriv c) b) (b.deriv c) else .seq (a.deriv c) b
  | .alt a b => .alt (a.deriv c) (b.deriv c)
  | .star a => .seq (a.deriv c) (.star a)

/-- cheap emptiness check used to stop early (sound: isEmpty r → no match) -/
def isEmpty : Regex → Bool
  | .empty => true
  | .seq a b => a.isEmpty || b.isEmpty
  | .alt a b => a.isEmpty && b.isEmpty
  | _ => false

def matchesB (r : Regex) : List Char → Bool
  | [] => r.nullable
  | c :: cs => (r.deriv c).matchesB cs

/-- length of the longest prefix of `s` matched by `r` (none if no prefix, incl. the empty one, matches) -/
def longest (r : Regex) (s : List Char) : Option Nat :=
  go r s 0 (if r.nullable then some 0 else none)
where
  go (r : Regex) (s : List Char) (n : Nat) (best : Option Nat) : Option Nat :=
    match s with
    | [] => best
    | c :: cs =>
      let r' := r.deriv c
      if r'.isEmpty then best else
      go r' cs (n + 1) (if r'.nullable then some (n + 1) else best)

theorem matches_seq_iff {a b : Regex} {s : List Char} :
    Matches (.seq a b) s ↔ ∃ s1 s2, s = s1 ++ s2 ∧ Matches a s1 ∧ Matches b s2 := by
  constructor
  · intro h; cases h with | seq h1 h2 => exact ⟨_, _, rfl, h1, h2⟩
  · rintro ⟨s1, s2, rfl, h1, h2⟩; exact .seq h1 h2

theorem matches_alt_iff {a b : Regex} {s : List Char} :
    Matches (.alt a b) s ↔ Matches a s ∨ Matches b s := by
  constructor
  · intro h; cases h with
    | altL h => exact .inl h
    | altR h => exact .inr h
  · rintro (h | h); exact .altL h; exact .altR h

theorem nullable_iff (r : Regex) : r.nullable = true ↔ Matches r [] := by
  induction r with
  | empty => simp [nullable]; intro h; cases h
  | eps => simp [nullable]; exact .eps
  | range lo hi => simp [nullable]; intro h; cases h
  | notIn cs => simp [nullable]; intro h; cases h
  | seq a b iha ihb =>
    simp only [nullable, Bool.and_eq_true, iha, ihb, matches_seq_iff]
    constructor
    · rintro ⟨h1, h2⟩; exact ⟨[], [], rfl, h1, h2⟩
    · rintro ⟨s1, s2, hs, h1, h2⟩
      have : s1 = [] ∧ s2 = [] := by simpa using hs.symm
      exact ⟨this.1 ▸ h1, this.2 ▸ h2⟩
  | alt a b iha ihb =>
    simp only [nullable, Bool.or_eq_true, iha, ihb, matches_alt_iff]
  | star a _ => simp [nullable]; exact .starNil

/-- a star match on a non-empty string can be split with a non-empty first piece -/
theorem star_cons_inv {a : Regex} {c : Char} {s : List Char} (h : Matches (.star a) (c :: s)) :
    ∃ s1 s2, s = s1 ++ s2 ∧ Matches a (c :: s1) ∧ Matches (.star a) s2 := by
  generalize hr : Regex.star a = r at h
  generalize hs : c :: s = t at h
  induction h with
  | starNil => cases hs
  | @starCons a' u v h1 h2 _ ih2 =>
    cases hr
    cases u with
    | nil => exact ih2 rfl (by simpa using hs)
    | cons d u =>
      simp only [List.cons_append, List.cons.injEq] at hs
      obtain ⟨rfl, rfl⟩ := hs
      exact ⟨u, v, rfl, h1, h2⟩
  | _ => cases hr

theorem deriv_iff (r : Regex) (c : Char) (s : List Char) :
    Matches (r.deriv c) s ↔ Matches r (c :: s) := by
  induction r generalizing s with
  | empty => simp [deriv]; constructor <;> (intro h; cases h)
  | eps => simp [deriv]; constructor <;> (intro h; cases h)
  | range lo hi =>
    simp only [deriv]
    split
    · rename_i hc
      constructor
      · intro h; cases h; exact .range hc.1 hc.2
      · intro h; cases h; exact .eps
    · rename_i hc
      constructor
      · intro h; cases h
      · intro h; cases h with | range h1 h2 => exact absurd ⟨h1, h2⟩ hc
  | notIn cs =>
    simp only [deriv]
    split
    · rename_i hc
      constructor
      · intro h; cases h
      · intro h; cases h with | notIn h1 => exact absurd hc h1
    · rename_i hc
      constructor
      · intro h; cases h; exact .notIn hc
      · intro h; cases h; exact .eps
  | seq a b iha ihb =>
    simp only [deriv]
    split
    · rename_i hn
      rw [matches_alt_iff, matches_seq_iff, ihb, matches_seq_iff]
      constructor
      · rintro (⟨s1, s2, rfl, h1, h2⟩ | h)
        · exact ⟨c :: s1, s2, rfl, (iha _).1 h1, h2⟩
        · exact ⟨[], c :: s, rfl, (nullable_iff a).1 hn, h⟩
      · rintro ⟨s1, s2, hs, h1, h2⟩
        cases s1 with
        | nil => simp at hs; right; exact hs ▸ h2
        | cons d s1 =>
          simp at hs; obtain ⟨rfl, rfl⟩ := hs
          left; exact ⟨s1, s2, rfl, (iha _).2 h1, h2⟩
    · rename_i hn
      rw [matches_seq_iff, matches_seq_iff]
      constructor
      · rintro ⟨s1, s2, rfl, h1, h2⟩
        exact ⟨c :: s1, s2, rfl, (iha _).1 h1, h2⟩
      · rintro ⟨s1, s2, hs, h1, h2⟩
        cases s1 with
        | nil => exact absurd ((nullable_iff a).2 h1) hn
        | cons d s1 =>
          simp at hs; obtain ⟨rfl, rfl⟩ := hs
          exact ⟨s1, s2, rfl, (iha _).2 h1, h2⟩
  | alt a b iha ihb =>
    simp only [deriv, matches_alt_iff, iha, ihb]
  | star a iha =>
    simp only [deriv, matches_seq_iff]
    constructor
    · rintro ⟨s1, s2, rfl, h1, h2⟩
      exact (Matches.starCons ((iha _).1 h1) h2 : Matches (.star a) ((c :: s1) ++ s2))
    · intro h
      obtain ⟨s1, s2, rfl, h1, h2⟩ := star_cons_inv h
      exact ⟨s1, s2, rfl, (iha _).2 h1, h2⟩

theorem matchesB_iff (r : Regex) (s : List Char) : r.matchesB s = true ↔ Matches r s := by
  induction s generalizing r with
  | nil => simp [matchesB, nullable_iff]
  | cons c cs ih => simp [matchesB, ih, deriv_iff]

theorem isEmpty_sound (r : Regex) (h : r.isEmpty = true) (s : List Char) : ¬ Matches r s := by
  induction r generalizing s with
  | empty => intro h; cases h
  | seq a b iha ihb =>
    simp only [isEmpty, Bool.or_eq_true] at h
    rw [matches_seq_iff]
    rintro ⟨s1, s2, _, h1, h2⟩
    cases h with
    | inl h => exact iha h _ h1
    | inr h => exact ihb h _ h2
  | alt a b iha ihb =>
    simp only [isEmpty, Bool.and_eq_true] at h
    rw [matches_alt_iff]
    rintro (h1 | h1)
    · exact iha h.1 _ h1
    · exact ihb h.2 _ h1
  | _ => simp [isEmpty] at h

theorem go_spec (r : Regex) (s : List Char) (n : Nat) (best : Option Nat) :
    (longest.go r s n best = best ∧ ∀ k, 1 ≤ k → k ≤ s.length → ¬ Matches r (s.take k)) ∨
    (∃ k, 1 ≤ k ∧ k ≤ s.length ∧ longest.go r s n best = some (n + k) ∧ Matches r (s.take k) ∧
        ∀ k', k < k' → k' ≤ s.length → ¬ Matches r (s.take k')) := by
  induction s generalizing r n best with
  | nil => left; simp [longest.go]; intro k h1 h2; omega
  | cons c cs ih =>
    simp only [longest.go]
    split
    · rename_i he
      left; refine ⟨rfl, ?_⟩
      intro k h1 _ hm
      obtain ⟨k, rfl⟩ : ∃ j, k = j + 1 := ⟨k - 1, by omega⟩
      simp only [List.take_succ_cons] at hm
      exact isEmpty_sound _ he _ ((deriv_iff r c _).2 hm)
    · rcases ih (r.deriv c) (n + 1) (if (r.deriv c).nullable then some (n + 1) else best) with ⟨hgo, hno⟩ | ⟨k, hk1, hk2, hgo, hm, hmax⟩
      · -- no longer prefix of cs matches the derivative
        by_cases hn : (r.deriv c).nullable = true
        · right
          refine ⟨1, by omega, by simp, ?_, ?_, ?_⟩
          · rw [hgo]; simp [hn]
          · simpa using (deriv_iff r c []).1 ((nullable_iff _).1 hn)
          · intro k' h1 h2 hm
            obtain ⟨j, rfl⟩ : ∃ j, k' = j + 1 := ⟨k' - 1, by omega⟩
            simp only [List.take_succ_cons] at hm
            exact hno j (by omega) (by simpa using h2) ((deriv_iff r c _).2 hm)
        · left
          refine ⟨by rw [hgo]; simp [hn], ?_⟩
          intro k h1 h2 hm
          obtain ⟨j, rfl⟩ : ∃ j, k = j + 1 := ⟨k - 1, by omega⟩
          simp only [List.take_succ_cons] at hm
          have hd := (deriv_iff r c _).2 hm
          cases j with
          | zero => simp at hd; exact hn ((nullable_iff _).2 hd)
          | succ j => exact hno (j + 1) (by omega) (by simpa using h2) hd
      · right
        refine ⟨k + 1, by omega, by simpa using hk2, ?_, ?_, ?_⟩
        · rw [hgo]; congr 1; omega
        · simpa [List.take_succ_cons] using (deriv_iff r c _).1 hm
        · intro k' h1 h2 hm'
          obtain ⟨j, rfl⟩ : ∃ j, k' = j + 1 := ⟨k' - 1, by omega⟩
          simp only [List.take_succ_cons] at hm'
          exact hmax j (by omega) (by simpa using h2) ((deriv_iff r c _).2 hm')

/-- `longest` returns the length of the longest matching prefix -/
theorem longest_spec (r : Regex) (s : List Char) :
    match longest r s with
    | none => ∀ k, k ≤ s.length → ¬ Matches r (s.take k)
    | some n => n ≤ s.length ∧ Matches r (s.take n) ∧ ∀ k, n < k → k ≤ s.length → ¬ Matches r (s.take k) := by
  unfold longest
  rcases go_spec r s 0 (if r.nullable then some 0 else none) with ⟨hgo, hno⟩ | ⟨k, hk1, hk2, hgo, hm, hmax⟩
  · rw [hgo]
    by_cases hn : r.nullable = true
    · simp only [hn, if_true]
      refine ⟨by omega, by simpa using (nullable_iff r).1 hn, ?_⟩
      intro k h1 h2; exact hno k (by omega) h2
    · simp only [hn]
      intro k h2
      cases k with
      | zero => simpa [nullable_iff] using hn
      | succ k => exact hno (k + 1) (by omega) h2
  · rw [hgo]
    simp only [Nat.zero_add]
    exact ⟨hk2, hm, hmax⟩

end Regex
end Rules
