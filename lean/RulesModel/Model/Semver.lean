import RulesModel.Model.SemverOrder
/-!
# blang/semver v3.5.1 `Parse` (= `Make`) transcribed on byte strings (DESIGN §3.5)
`Version.cmp` (in SemverOrder.lean) transcribes `Compare`.
-/
namespace Rules.Sv

/-- `strings.Split(s, sep)` for a one-byte separator: always at least one part -/
def splitAll (sep : Nat) : List Nat → List (List Nat)
  | [] => [[]]
  | c :: cs =>
    if c = sep then [] :: splitAll sep cs
    else match splitAll sep cs with
      | [] => [[c]]
      | p :: ps => (c :: p) :: ps

/-- split at the first occurrence of `sep` (`strings.IndexRune` + slicing) -/
def splitFirst (sep : Nat) : List Nat → Option (List Nat × List Nat)
  | [] => none
  | c :: cs =>
    if c = sep then some ([], cs)
    else match splitFirst sep cs with
      | none => none
      | some (a, b) => some (c :: a, b)

def isDigitB (b : Nat) : Bool := 48 ≤ b && b ≤ 57
def isAlnumB (b : Nat) : Bool := isDigitB b || (65 ≤ b && b ≤ 90) || (97 ≤ b && b ≤ 122) || b == 45

def digitsVal (s : List Nat) : Nat := s.foldl (fun a c => a * 10 + (c - 48)) 0

/-- `containsOnly(s, numbers)`, `!hasLeadingZeroes(s)`, `strconv.ParseUint(s, 10, 64)` succeeded -/
def parseNum (s : List Nat) : Option Nat :=
  if s.isEmpty then none
  else if !s.all isDigitB then none
  else if s.length > 1 && s.head? == some 48 then none
  else if digitsVal s < 2^64 then some (digitsVal s) else none

/-- `NewPRVersion` -/
def parsePR (s : List Nat) : Option Ident :=
  if s.isEmpty then none
  else if s.all isDigitB then
    (if s.length > 1 && s.head? == some 48 then none
     else if digitsVal s < 2^64 then some (.num (digitsVal s)) else none)
  else if s.all isAlnumB then some (.alpha s)
  else none

def parseBuildPart (s : List Nat) : Option (List Nat) :=
  if s.isEmpty then none else if s.all isAlnumB then some s else none

def mapAllM {α β} (f : α → Option β) : List α → Option (List β)
  | [] => some []
  | a :: as => match f a, mapAllM f as with
    | some b, some bs => some (b :: bs)
    | _, _ => none

/-- `semver.Parse` -/
def parse (s : List Nat) : Option Version :=
  if s.isEmpty then none else
  match splitFirst 46 s with
  | none => none
  | some (majS, r1) =>
    match splitFirst 46 r1 with
    | none => none
    | some (minS, r2) =>
      match parseNum majS, parseNum minS with
      | some major, some minor =>
        let (patch1, buildParts) : List Nat × List (List Nat) :=
          match splitFirst 43 r2 with
          | some (a, b) => (a, splitAll 46 b)
          | none => (r2, [])
        let (patchS, preParts) : List Nat × List (List Nat) :=
          match splitFirst 45 patch1 with
          | some (a, b) => (a, splitAll 46 b)
          | none => (patch1, [])
        match parseNum patchS, mapAllM parsePR preParts, mapAllM parseBuildPart buildParts with
        | some patch, some pre, some build => some ⟨major, minor, patch, pre, build⟩
        | _, _, _ => none
      | _, _ => none

end Rules.Sv
