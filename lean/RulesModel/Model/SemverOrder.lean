/-! Model: semver precedence as a total preorder (blang/semver Compare). -/
namespace Rules.Sv

inductive Ident where
  | num (n : Nat)
  | alpha (s : List Nat)      -- bytes
  deriving Repr, DecidableEq

/-- three-way comparison on lists of naturals (Go string comparison on bytes) -/
def cmpBytes : List Nat → List Nat → Ordering
  | [], [] => .eq
  | [], _ :: _ => .lt
  | _ :: _, [] => .gt
  | a :: as, b :: bs => if a < b then .lt else if b < a then .gt else cmpBytes as bs

def Ident.cmp : Ident → Ident → Ordering
  | .num a, .num b => compare a b
  | .num _, .alpha _ => .lt
  | .alpha _, .num _ => .gt
  | .alpha a, .alpha b => cmpBytes a b

/-- PRVersion list comparison: first difference decides; a longer list with equal prefix is greater -/
def cmpPre : List Ident → List Ident → Ordering
  | [], [] => .eq
  | [], _ :: _ => .lt
  | _ :: _, [] => .gt
  | a :: as, b :: bs => match a.cmp b with
    | .eq => cmpPre as bs
    | o => o

structure Version where
  major : Nat
  minor : Nat
  patch : Nat
  pre : List Ident
  build : List (List Nat)
  deriving Repr, DecidableEq

/-- blang/semver Version.Compare -/
def Version.cmp (v o : Version) : Ordering :=
  if v.major ≠ o.major then compare v.major o.major
  else if v.minor ≠ o.minor then compare v.minor o.minor
  else if v.patch ≠ o.patch then compare v.patch o.patch
  else match v.pre, o.pre with
    | [], [] => .eq
    | [], _ :: _ => .gt
    | _ :: _, [] => .lt
    | a, b => cmpPre a b

/-! An order is "good" if it is reflexive, antisymmetric in the Ordering sense (swap) and transitive. -/
structure Good {α} (c : α → α → Ordering) : Prop where
  swap : ∀ a b, c b a = (c a b).swap
  trans_lt : ∀ a b d, c a b = .lt → c b d = .lt → c a d = .lt
  eq_trans_l : ∀ a b d, c a b = .eq → c b d = c a d

theorem good_nat : Good (compare : Nat → Nat → Ordering) where
  swap a b := by
    rcases Nat.lt_trichotomy a b with h | h | h
    · rw [Nat.compare_eq_lt.2 h, Nat.compare_eq_gt.2 h]; rfl
    · subst h; simp
    · rw [Nat.compare_eq_gt.2 h, Nat.compare_eq_lt.2 h]; rfl
  trans_lt a b d h1 h2 := by
    rw [Nat.compare_eq_lt] at *; omega
  eq_trans_l a b d h := by
    rw [Nat.compare_eq_eq] at h; subst h; rfl

/-- lexicographic lifting with "shorter is smaller" preserves goodness -/
def lexCmp {α} (c : α → α → Ordering) : List α → List α → Ordering
  | [], [] => .eq
  | [], _ :: _ => .lt
  | _ :: _, [] => .gt
  | a :: as, b :: bs => match c a b with
    | .eq => lexCmp c as bs
    | o => o

theorem good_lex {α} (c : α → α → Ordering) (g : Good c) : Good (lexCmp c) where
  swap := by
    intro a
    induction a with
    | nil => intro b; cases b <;> rfl
    | cons x xs ih =>
      intro b
      cases b with
      | nil => rfl
      | cons y ys =>
        simp only [lexCmp]
        rw [g.swap x y]
        cases h : c x y <;> simp [Ordering.swap, ih]
  trans_lt := by
    intro a
    induction a with
    | nil => intro b d h1 h2; cases b <;> cases d <;> simp_all [lexCmp]
    | cons x xs ih =>
      intro b d h1 h2
      cases b with
      | nil => simp [lexCmp] at h1
      | cons y ys =>
        cases d with
        | nil => simp [lexCmp] at h2
        | cons z zs =>
          simp only [lexCmp] at *
          cases hxy : c x y with
          | gt => simp [hxy] at h1
          | lt =>
            cases hyz : c y z with
            | gt => simp [hyz] at h2
            | lt => rw [g.trans_lt x y z hxy hyz]
            | eq =>
              have := g.eq_trans_l y z x hyz
              rw [g.swap x y, g.swap x z, hxy] at this
              have hxz : c x z = .lt := by
                cases h : c x z <;> simp_all [Ordering.swap]
              rw [hxz]
          | eq =>
            simp only [hxy] at h1
            rw [← g.eq_trans_l x y z hxy]
            cases hyz : c y z with
            | gt => simp [hyz] at h2
            | lt => rfl
            | eq => simp only [hyz] at h2 ⊢; exact ih ys zs h1 h2
  eq_trans_l := by
    intro a
    induction a with
    | nil => intro b d h; cases b <;> simp_all [lexCmp]
    | cons x xs ih =>
      intro b d h
      cases b with
      | nil => simp [lexCmp] at h
      | cons y ys =>
        simp only [lexCmp] at h
        cases hxy : c x y with
        | lt => simp [hxy] at h
        | gt => simp [hxy] at h
        | eq =>
          simp only [hxy] at h
          cases d with
          | nil => rfl
          | cons z zs =>
            simp only [lexCmp]
            rw [g.eq_trans_l x y z hxy]
            cases c x z <;> simp [ih ys zs h]

end Rules.Sv
