import RulesModel.Model.Api
/-!
# Spec layer (DESIGN §3.9): the short, compositional semantics the properties talk about

* `denote`      – what a dotted path denotes in an object (three equations)
* `litOperand`  – what a literal denotes: the typed operation and the rule operand (or a bad literal)
* `leafOut`     – outcome of one comparison, from `denote`, `litOperand` and the operation table `apply`
* `evalOut`     – outcome of a rule: left-to-right short-circuit combination of `leafOut`
* `toProc`      – the observable result (`ProcOut`) of an outcome

`Proofs/Refine.lean` proves that the visitor state machine of `Model/Visitor.lean` computes exactly this.
-/
namespace Rules
open Rules.P (Tree Lit Kind INT DOUBLE STRING)

/-- A dotted path denotes the value reached by successive key lookups; `absent` (= null) as soon as a step is
missing or null – the remaining steps are not looked at; a non-object in the middle is a (recovered) panic. -/
def denoteV : Value → List String → Except Panic Value
  | v, [] => .ok v
  | .null, _ :: _ => .ok .null
  | .obj kvs, k :: ks => denoteV (Value.get kvs (bytesOf k)) ks
  | _, _ :: _ => .error .notAMap

def denote (item : List (Bytes × Value)) (path : List String) : Except Panic Value :=
  match path with
  | [] => .ok .null
  | _ => denoteV (.obj item) path

def mapOpt {α β} (f : α → Option β) : List α → Option (List β)
  | [] => some []
  | a :: as => match f a with
    | none => none
    | some b => match mapOpt f as with
      | none => none
      | some bs => some (b :: bs)

/-- what a literal denotes: which `Operation` compares it and the operand it contributes;
`none` = the literal cannot be converted (evaluation error) -/
def litOperand : Lit → Option (OpKind × ROp)
  | .bool t => if t = "true" then some (.bool, .bool true) else if t = "false" then some (.bool, .bool false) else none
  | .null => some (.null, .nil)
  | .version t => some (.version, .str (bytesOf t))
  | .str t => some (.string, .str (getStringLit t))
  | .double t => match parseFloatLit t with
    | none => some (.float, .nil)                       -- out of range: operand nil, no evaluation error
    | some v => some (.float, .float v)
  | .long neg i e => match parseIntLit neg i e with
    | none => none
    | some v => some (.int, .int v)
  | .list k xs =>
    if k = INT then
      match xs with
      | [] => some (.int, .nil)
      | _ => (mapOpt (fun t => parseIntLit false t none) xs).map (fun vs => (.int, .ints vs))
    else if k = DOUBLE then
      match xs with
      | [] => some (.float, .nil)
      | _ => (mapOpt parseFloatLit xs).map (fun vs => (.float, .floats vs))
    else
      match xs with
      | [] => some (.string, .nil)
      | _ => some (.string, .strs (xs.map getStringLit))

inductive Res where
  | verdict (b : Bool)
  | fail (e : EvalErr)
  | panic (p : Panic)
  deriving Repr, DecidableEq

/-- outcome of (part of) a rule on an object -/
structure Out where
  res : Res
  dbg : Option Dbg        -- diagnostic of the last reached comparison that has one
  calls : List Nat        -- Stringers asked for their text, in order
  deriving Repr, DecidableEq

def dbgOfErr : OpErr → Dbg
  | .invalidOperation => .invalidOperation
  | .missing => .missing
  | .invalidOperand => .invalidOperand
  | .other => .other

/-- outcome of a single comparison / presence test -/
def leafOut (lower : Bytes → Bytes) (item : List (Bytes × Value)) : Tree → Out
  | .present path =>
    match denote item path with
    | .error p => ⟨.panic p, none, []⟩
    | .ok v => ⟨.verdict (!v.isNull), none, []⟩
  | .compare path k lit =>
    match denote item path with
    | .error p => ⟨.panic p, none, []⟩
    | .ok v =>
      match litOperand lit with
      | none => ⟨.fail .badLiteral, none, []⟩
      | some (kind, r) =>
        match cmpOfKind k with
        | none => ⟨.fail .unknownOp, none, []⟩
        | some op =>
          match apply lower kind op v r with
          | .panic c => ⟨.panic .stringer, none, c⟩
          | .ok b c => ⟨.verdict b, none, c⟩
          | .err .invalidOperation c => ⟨.fail .invalidOperation, some .invalidOperation, c⟩
          | .err e c => ⟨.verdict false, some (dbgOfErr e), c⟩
  | _ => ⟨.fail .syntax, none, []⟩          -- not a leaf (never used)

/-- `a` then `b` (b was reached after a) -/
def Out.seq (a b : Out) : Out :=
  { res := b.res, dbg := b.dbg.orElse (fun _ => a.dbg), calls := a.calls ++ b.calls }

/-- outcome of a rule: `and`/`or` evaluate left to right with short circuit, `not` negates,
a failure or panic is final -/
def evalOut (lower : Bytes → Bytes) (item : List (Bytes × Value)) : Tree → Out
  | .paren neg q =>
    let o := evalOut lower item q
    match o.res with
    | .verdict b => { o with res := .verdict (if neg then !b else b) }
    | _ => o
  | .logical op l r =>
    let a := evalOut lower item l
    match a.res with
    | .verdict x =>
      if op = "or" then (if x then a else a.seq (evalOut lower item r))
      else (if !x then a else a.seq (evalOut lower item r))
    | _ => a
  | t => leafOut lower item t

/-- what the caller of `Process` observes -/
def toProc (o : Out) : ProcOut :=
  match o.res with
  | .verdict b => { verdict := b, err := none, debug := o.dbg, calls := o.calls }
  | .fail e => { verdict := false, err := some e, debug := o.dbg, calls := o.calls }
  | .panic p => { verdict := false, err := some (.panic p), debug := o.dbg, calls := o.calls }

/-- leaves of a rule, left to right -/
def leaves : Tree → List Tree
  | .paren _ q => leaves q
  | .logical _ l r => leaves l ++ leaves r
  | t => [t]

/-- the comparisons reached under left-to-right short-circuit evaluation, in order -/
def reached (lower : Bytes → Bytes) (item : List (Bytes × Value)) : Tree → List Tree
  | .paren _ q => reached lower item q
  | .logical op l r =>
    match (evalOut lower item l).res with
    | .verdict x =>
      if op = "or" then (if x then reached lower item l else reached lower item l ++ reached lower item r)
      else (if !x then reached lower item l else reached lower item l ++ reached lower item r)
    | _ => reached lower item l
  | t => [t]

/-- plain truth-functional reading of a rule given the verdict of each comparison -/
def boolOf (v : Tree → Bool) : Tree → Bool
  | .paren neg q => if neg then !(boolOf v q) else boolOf v q
  | .logical op l r => if op = "or" then (boolOf v l || boolOf v r) else (boolOf v l && boolOf v r)
  | t => v t

end Rules
