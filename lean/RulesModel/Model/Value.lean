import RulesModel.Model.F64
/-!
# Values: the quotient of Go values the engine can observe (DESIGN §1 F1, §3.2)

The engine looks at an attribute value only through `== nil`, type assertions / switches to
`bool, int, int32, int64, float64, string, fmt.Stringer, map[string]interface{}` and `String()`.
Every Go value is therefore, for every property, one of the constructors below.
-/
namespace Rules

/-- Go strings are byte sequences. -/
abbrev Bytes := List UInt8

/-- what `String()` of a `fmt.Stringer` does when the engine calls it -/
inductive StrBeh where
  | ret (s : Bytes)
  | panics
  deriving Repr, DecidableEq

inductive Value where
  | null
  | bool (b : Bool)
  | int (n : Int)
  | int32 (n : Int)
  | int64 (n : Int)
  | float (f : F64)
  | str (s : Bytes)
  | obj (kvs : List (Bytes × Value))
  | stringer (id : Nat) (beh : StrBeh)
  | other (tag : Nat)          -- slice, struct, chan, func, typed nil, named map, uint8, float32 …
  deriving Repr

/-- Go `m[key]` on `map[string]interface{}`: nil when missing (also on a nil map = `obj []`). -/
def Value.get : List (Bytes × Value) → Bytes → Value
  | [], _ => .null
  | (k, v) :: rest, key => if k = key then v else Value.get rest key

def Value.isNull : Value → Bool
  | .null => true
  | _ => false

/-- bytes of a (rule-text) string: Go `string(runes)` is the UTF-8 encoding -/
def bytesOf (s : String) : Bytes := s.toUTF8.data.toList

/-- sub-value relation (used by the frame theorem C13) -/
inductive SubValue : Value → Value → Prop
  | refl (v) : SubValue v v
  | step {v k w kvs} : (k, w) ∈ kvs → SubValue v w → SubValue v (.obj kvs)

end Rules
