import RulesModel.Model.Ops
import RulesModel.Model.Grammar
/-!
# The hand-written visitor (`jsonquery_visitor_impl.go`) and `Evaluator.Process` (`evaluate.go`) — Impl layer

Each definition mirrors one Go method statement by statement: the same registers (`stack`, `leftOp`,
`rightOp`, `currentOperation`, `err`, `debugErr`), the same early returns, the deferred `rightOp = nil`,
failed type assertions and panicking `String()` methods as `Except.error`, and the `recover()` of
`Process`. `calls` records the Stringers asked for their text (the observation channel of C06).
-/
namespace Rules
open Rules.P (Tree Lit Kind INT DOUBLE STRING)

inductive Panic where
  | notAMap          -- `item.(map[string]interface{})` on a non-nil non-map value
  | typeAssert       -- `j.rightOp.([]T)` on a register of another type
  | stringer         -- a user `String()` method panicked
  | nilOp            -- method call on a nil `currentOperation`
  | indexRange       -- index / slice bounds out of range (only the translated code can say it; `Proofs/VisitorGen` shows it is never reached)
  | nilDeref         -- method call on a nil context (idem)
  deriving Repr, DecidableEq

/-- evaluation error (`visitor.err`, returned by Process) -/
inductive EvalErr where
  | invalidOperation         -- ErrInvalidOperation
  | badLiteral               -- strconv error of an integer literal / list element
  | unknownOp                -- "Unknown operation"
  | syntax                   -- the rule text is not a sentence (Evaluator.syntaxErr)
  | panic (p : Panic)        -- recovered panic
  deriving Repr, DecidableEq

/-- class of the diagnostic stored by `setDebugErr` -/
inductive Dbg where
  | invalidOperation | missing | invalidOperand | other
  deriving Repr, DecidableEq

structure VState where
  item : List (Bytes × Value)        -- j.item (a nil map is `[]`)
  stack : List Value                 -- j.stack.items, top first
  leftOp : Value
  rightOp : ROp
  curOp : Option OpKind
  err : Option EvalErr
  debugErr : Option Dbg
  calls : List Nat
  deriving Repr

def VState.init (item : List (Bytes × Value)) : VState :=
  { item, stack := [], leftOp := .null, rightOp := .nil, curOp := none, err := none, debugErr := none, calls := [] }

/-- a panic unwinds to `Process`; what survives is what it was, which Stringers had been called and the diagnostic recorded so far -/
structure PanicInfo where
  p : Panic
  calls : List Nat
  debug : Option Dbg       -- `visitor.debugErr` when the panic was raised (kept by `Process`, repair D10)
  deriving Repr

abbrev VM := Except PanicInfo

/-- `VisitAttrPath` (with repair D1); `path` = the ATTRNAME texts, outermost first -/
def visitAttrPath (s : VState) : List String → VM VState
  | [] => .ok { s with leftOp := .null, stack := [] }     -- no such tree comes out of the parser (a path has >= 1 name)
  | [k] =>
    let item : Value := match s.stack with
      | top :: _ => top                 -- pop
      | [] => .obj s.item
    match item with
    | .null => .ok { s with leftOp := .null, stack := [] }
    | .obj kvs => .ok { s with leftOp := Value.get kvs (bytesOf k), stack := [] }
    | _ => .error ⟨.notAMap, s.calls, s.debugErr⟩
  | k :: k' :: ks =>
    let item : Value := match s.stack with
      | top :: _ => top                 -- peek
      | [] => .obj s.item
    match item with
    | .null => .ok { s with leftOp := .null, stack := [] }
    | .obj kvs => visitAttrPath { s with stack := Value.get kvs (bytesOf k) :: s.stack } (k' :: ks)
    | _ => .error ⟨.notAMap, s.calls, s.debugErr⟩

/-- `getString` of the visitor: strip the quotes of a STRING token text -/
def getStringLit (t : String) : Bytes :=
  let b := bytesOf t
  if b.length > 2 then (b.drop 1).dropLast else []

-- token kinds of the three list element types (shared with the grammar model)



/-- `VisitSubListOfInts` -/
def visitSubInts (s : VState) : List String → VM VState
  | [] => .ok s
  | t :: rest =>
    let s1 := match s.rightOp with
      | .nil => { s with rightOp := .ints [] }
      | _ => s
    match s1.rightOp with
    | .ints l =>
      match parseIntLit false t none with
      | none => .ok { s1 with err := some .badLiteral }
      | some v =>
        let s2 := { s1 with rightOp := .ints (l ++ [v]) }
        visitSubInts s2 rest      -- (returns at once when no element is left)
    | _ => .error ⟨.typeAssert, s.calls, s.debugErr⟩

/-- `VisitSubListOfDoubles` -/
def visitSubFloats (s : VState) : List String → VM VState
  | [] => .ok s
  | t :: rest =>
    let s1 := match s.rightOp with
      | .nil => { s with rightOp := .floats [] }
      | _ => s
    match s1.rightOp with
    | .floats l =>
      match parseFloatLit t with
      | none => .ok { s1 with err := some .badLiteral }
      | some v =>
        let s2 := { s1 with rightOp := .floats (l ++ [v]) }
        visitSubFloats s2 rest      -- (returns at once when no element is left)
    | _ => .error ⟨.typeAssert, s.calls, s.debugErr⟩

/-- `VisitSubListOfStrings` -/
def visitSubStrs (s : VState) : List String → VM VState
  | [] => .ok s
  | t :: rest =>
    let s1 := match s.rightOp with
      | .nil => { s with rightOp := .strs [] }
      | _ => s
    match s1.rightOp with
    | .strs l =>
      let s2 := { s1 with rightOp := .strs (l ++ [getStringLit t]) }
      visitSubStrs s2 rest
    | _ => .error ⟨.typeAssert, s.calls, s.debugErr⟩

/-- `ctx.Value().Accept(j)`: the literal visitors -/
def visitLit (s : VState) : Lit → VM VState
  | .bool t =>
    let s1 := { s with curOp := some .bool }
    if t = "true" then .ok { s1 with rightOp := .bool true }
    else if t = "false" then .ok { s1 with rightOp := .bool false }
    else .ok { s1 with rightOp := .nil, err := some .badLiteral }
  | .null => .ok { s with curOp := some .null, rightOp := .nil }
  | .version t => .ok { s with curOp := some .version, rightOp := .str (bytesOf t) }
  | .str t => .ok { s with curOp := some .string, rightOp := .str (getStringLit t) }
  | .double t =>
    let s1 := { s with curOp := some .float }
    match parseFloatLit t with
    | none => .ok { s1 with rightOp := .nil }            -- "TODO set err somewhere"
    | some v => .ok { s1 with rightOp := .float v }
  | .long neg i e =>
    let s1 := { s with curOp := some .int }
    match parseIntLit neg i e with
    | none => .ok { s1 with rightOp := .nil, err := some .badLiteral }
    | some v => .ok { s1 with rightOp := .int v }
  | .list k xs =>
    if k = INT then visitSubInts { s with curOp := some .int } xs
    else if k = DOUBLE then visitSubFloats { s with curOp := some .float } xs
    else visitSubStrs { s with curOp := some .string } xs

/-- the `switch ctx.op.GetTokenType()` of `VisitCompareExp` -/
def cmpOfKind (k : Kind) : Option CmpOp :=
  if k = 13 then some .eq else if k = 14 then some .ne else if k = 15 then some .gt
  else if k = 16 then some .lt else if k = 18 then some .le else if k = 17 then some .ge
  else if k = 19 then some .co else if k = 20 then some .sw else if k = 21 then some .ew
  else if k = 12 then some .in_ else none

/-- `VisitCompareExp` -/
def visitCompare (lower : Bytes → Bytes) (s : VState) (path : List String) (k : Kind) (lit : Lit) : VM (Bool × VState) :=
  match visitAttrPath s path with
  | .error p => .error p
  | .ok s1 =>
    match visitLit s1 lit with
    | .error p => .error p
    | .ok s2 =>
      if s2.err.isSome then .ok (false, s2) else
      match cmpOfKind k with
      | none => .ok (false, { s2 with err := some .unknownOp })
      | some op =>
        match s2.curOp with
        | none => .error ⟨.nilOp, s2.calls, s2.debugErr⟩
        | some ok =>
          match apply lower ok op s2.leftOp s2.rightOp with
          | .panic c => .error ⟨.stringer, s2.calls ++ c, s2.debugErr⟩
          | .ok b c => .ok (b, { s2 with rightOp := .nil, calls := s2.calls ++ c })
          | .err e c =>
            let s3 := { s2 with rightOp := .nil, calls := s2.calls ++ c }
            match e with
            | .invalidOperation => .ok (false, { s3 with err := some .invalidOperation, debugErr := some .invalidOperation })
            | .missing => .ok (false, { s3 with debugErr := some .missing })
            | .invalidOperand => .ok (false, { s3 with debugErr := some .invalidOperand })
            | .other => .ok (false, { s3 with debugErr := some .other })

/-- `VisitPresentExp` -/
def visitPresent (s : VState) (path : List String) : VM (Bool × VState) :=
  match visitAttrPath s path with
  | .error p => .error p
  | .ok s1 => .ok (!s1.leftOp.isNull, s1)

/-- `Accept` on a query node: `VisitParenExp`, `VisitLogicalExp` (with repair D2), `VisitPresentExp`, `VisitCompareExp` -/
def visit (lower : Bytes → Bytes) : Tree → VState → VM (Bool × VState)
  | .paren neg q, s =>
    match visit lower q s with
    | .error p => .error p
    | .ok (r, s') => .ok (if neg then !r else r, s')
  | .logical op l r, s =>
    match visit lower l s with
    | .error p => .error p
    | .ok (a, s1) =>
      if s1.err.isSome then .ok (false, s1)
      else if op = "or" then (if a then .ok (a, s1) else visit lower r s1)
      else (if !a then .ok (a, s1) else visit lower r s1)
  | .present path, s => visitPresent s path
  | .compare path k lit, s => visitCompare lower s path k lit

/-- what `Process` returns and leaves behind -/
structure ProcOut where
  verdict : Bool
  err : Option EvalErr
  debug : Option Dbg          -- `Evaluator.lastDebugErr` after the call
  calls : List Nat
  deriving Repr, DecidableEq

/-- `Evaluator.Process` on a parsed rule: fresh visitor, `Visit`, `recover()` -/
def processTree (lower : Bytes → Bytes) (t : Tree) (item : List (Bytes × Value)) : ProcOut :=
  match visit lower t (VState.init item) with
  | .error p => { verdict := false, err := some (.panic p.p), debug := p.debug, calls := p.calls }
  | .ok (b, s) =>
    match s.err with
    | some e => { verdict := false, err := some e, debug := s.debugErr, calls := s.calls }
    | none => { verdict := b, err := none, debug := s.debugErr, calls := s.calls }

end Rules
