import RulesModel.Proofs.C02
import RulesModel.Proofs.ParseComplete
/-!
# C01 — Compound rules are the Boolean combination of their comparisons

* `C01_combination` : if every comparison of a rule is individually error-free, the rule has no error and its
  verdict is the plain truth-functional combination (`boolOf`: `&&`, `||`, `!`) of the comparisons' verdicts –
  every depth, every mix, whatever the comparisons are (induction over the tree).
* `C01_process`     : the same, stated for `Process` of the visitor state machine.
* `C01_chain`       : a chain `p₀ op₁ p₁ … opₙ pₙ` written without parentheses derives, and therefore parses to
  (`parse_iff`), the *left* fold, `and` and `or` at the same level; `D_unique`: no other reading exists.
-/
namespace Rules
open Rules.P (Tree Lit Kind Tok D)

def isVerdict (r : Res) : Bool := match r with | .verdict _ => true | _ => false
def verdictOf (o : Out) : Bool := match o.res with | .verdict b => b | _ => false

theorem C01_combination (lower : Bytes → Bytes) (item : List (Bytes × Value)) (t : Tree)
    (h : ∀ l ∈ leaves t, isVerdict (leafOut lower item l).res = true) :
    (evalOut lower item t).res = .verdict (boolOf (fun l => verdictOf (leafOut lower item l)) t) := by
  induction t with
  | present p =>
    have := h (Tree.present p) (by simp [leaves])
    simp only [evalOut, boolOf, verdictOf]
    cases hr : (leafOut lower item (Tree.present p)).res <;> simp_all [isVerdict]
  | compare p k v =>
    have := h (Tree.compare p k v) (by simp [leaves])
    simp only [evalOut, boolOf, verdictOf]
    cases hr : (leafOut lower item (Tree.compare p k v)).res <;> simp_all [isVerdict]
  | paren neg q ih =>
    have := ih (fun l hl => h l (by simpa [leaves] using hl))
    simp only [evalOut, this, boolOf]
  | logical op l r ihl ihr =>
    have hl := ihl (fun x hx => h x (by simp [leaves, hx]))
    have hr := ihr (fun x hx => h x (by simp [leaves, hx]))
    simp only [evalOut, hl, boolOf]
    by_cases hop : op = "or"
    · cases hx : boolOf (fun l => verdictOf (leafOut lower item l)) l <;> simp [hop, hl, hr, hx, Out.seq]
    · cases hx : boolOf (fun l => verdictOf (leafOut lower item l)) l <;> simp [hop, hl, hr, hx, Out.seq]

/-- `leaves` only returns comparisons and presence tests, whose outcome is `leafOut` -/
theorem evalOut_leaf (lower : Bytes → Bytes) (item : List (Bytes × Value)) (t : Tree) :
    ∀ x ∈ leaves t, evalOut lower item x = leafOut lower item x := by
  induction t with
  | present p => intro x hx; simp [leaves] at hx; subst hx; rfl
  | compare p k v => intro x hx; simp [leaves] at hx; subst hx; rfl
  | paren n q ih => intro x hx; exact ih x (by simpa [leaves] using hx)
  | logical op l r ihl ihr =>
    intro x hx
    simp only [leaves, List.mem_append] at hx
    rcases hx with hx | hx
    · exact ihl x hx
    · exact ihr x hx

/-- stated on the implementation model: verdict and absence of error of `Process` -/
theorem C01_process (lower : Bytes → Bytes) (item : List (Bytes × Value)) (t : Tree)
    (h : ∀ l ∈ leaves t, (processTree lower l item).err = none) :
    (processTree lower t item).err = none ∧
    (processTree lower t item).verdict = boolOf (fun l => (processTree lower l item).verdict) t := by
  have hv : ∀ l ∈ leaves t, isVerdict (leafOut lower item l).res = true := by
    intro l hl
    have h1 := h l hl
    rw [processTree_eq, evalOut_leaf lower item t l hl] at h1
    unfold toProc at h1
    cases hr : (leafOut lower item l).res <;> simp_all [isVerdict]
  have hc := C01_combination lower item t hv
  rw [processTree_eq]
  refine ⟨by simp [toProc, hc], ?_⟩
  simp only [toProc, hc]
  -- the verdict function agrees leaf by leaf
  have : ∀ t' : Tree, boolOf (fun l => verdictOf (leafOut lower item l)) t' =
      boolOf (fun l => (processTree lower l item).verdict) t' := by
    intro t'
    induction t' with
    | present p =>
      simp only [boolOf, processTree_eq, evalOut, toProc, verdictOf]
      cases (leafOut lower item (Tree.present p)).res <;> rfl
    | compare p k v =>
      simp only [boolOf, processTree_eq, evalOut, toProc, verdictOf]
      cases (leafOut lower item (Tree.compare p k v)).res <;> rfl
    | paren n q ih => simp only [boolOf]; rw [ih]
    | logical op a b iha ihb => simp only [boolOf]; rw [iha, ihb]
  exact this t

/-! ### left associativity, equal precedence -/

/-- the left fold of a chain of operands -/
def chainTree (t0 : Tree) : List (String × Tree) → Tree
  | [] => t0
  | (op, t) :: rest => chainTree (.logical op t0 t) rest

def chainToks (ts0 : List Tok) : List (String × String × String × List Tok) → List Tok
  | [] => ts0
  | (s1, op, s2, ts) :: rest => chainToks (ts0 ++ [⟨P.SP, s1⟩, ⟨P.LOGOP, op⟩, ⟨P.SP, s2⟩] ++ ts) rest

/-- A chain of primaries (parenthesised groups, presence tests, comparisons) joined by `and`/`or` derives the
left-nested tree, whatever the operators are: `a or b and c` ↦ `(a or b) and c`. -/
theorem C01_chain (ts0 : List Tok) (t0 : Tree) (h0 : D false ts0 t0)
    (segs : List (String × String × String × List Tok × Tree))
    (hs : ∀ x ∈ segs, D true x.2.2.2.1 x.2.2.2.2) :
    D false (chainToks ts0 (segs.map fun x => (x.1, x.2.1, x.2.2.1, x.2.2.2.1)))
      (chainTree t0 (segs.map fun x => (x.2.1, x.2.2.2.2))) := by
  induction segs generalizing ts0 t0 with
  | nil => simpa [chainToks, chainTree] using h0
  | cons x rest ih =>
    obtain ⟨s1, op, s2, ts, t⟩ := x
    simp only [List.map_cons, chainToks, chainTree]
    apply ih
    · exact D.logical s1 op s2 h0 (hs (s1, op, s2, ts, t) (by simp))
    · intro y hy; exact hs y (by simp [hy])

/-- … and the parser returns exactly that tree (soundness + completeness + uniqueness of `parse`). -/
theorem C01_chain_parse (ts0 : List Tok) (t0 : Tree) (h0 : D false ts0 t0)
    (segs : List (String × String × String × List Tok × Tree))
    (hs : ∀ x ∈ segs, D true x.2.2.2.1 x.2.2.2.2) :
    P.parse (chainToks ts0 (segs.map fun x => (x.1, x.2.1, x.2.2.1, x.2.2.2.1))) =
      some (chainTree t0 (segs.map fun x => (x.2.1, x.2.2.2.2))) :=
  (P.parse_iff _ _).2 (C01_chain ts0 t0 h0 segs hs)

/-- non-vacuity: `a or b and c` (a true, b true, c false) is `(a or b) and c` = false, not `a or (b and c)` = true -/
example :
    let a := Tree.compare ["a"] 13 (.long false "1" none)
    let b := Tree.compare ["b"] 13 (.long false "1" none)
    let c := Tree.compare ["c"] 13 (.long false "1" none)
    let item := [(bytesOf "a", Value.int 1), (bytesOf "b", .int 1), (bytesOf "c", .int 0)]
    (evalOut id item (chainTree a [("or", b), ("and", c)])).res = .verdict false ∧
    (evalOut id item (.logical "or" a (.paren false (.logical "and" b c)))).res = .verdict true := by
  decide +kernel

end Rules
