import RulesModel.Proofs.Refine
/-!
# C02 — An attribute path denotes one value, independent of the rest of the rule

* `C02_path`      : `VisitAttrPath` from any state with an empty stack stores `denote item path` (every path length),
                    whatever the other registers hold.
* `C02_literal`   : the literal visitors store the operand the literal denotes, whatever the other registers hold.
* `C02_locality`  : a rule's outcome is `combine` of the outcomes of its comparisons evaluated as stand-alone rules –
                    for every rule (any nesting) and every object.  Non-object values in the middle of a path are
                    covered too (they are recovered panics on both sides).
-/
namespace Rules
open Rules.P (Tree Lit Kind)

theorem C02_path (s : VState) (hs : s.stack = []) (path : List String) :
    visitAttrPath s path =
      match denote s.item path with
      | .ok v => .ok { s with leftOp := v, stack := [] }
      | .error p => .error ⟨p, s.calls, s.debugErr⟩ :=
  visitAttrPath_spec s hs path

/-- "absent as soon as a step is missing or null; the remaining steps are not looked at" -/
theorem C02_absent_prefix (rest : List String) (k : String) : denoteV .null (k :: rest) = .ok .null := rfl

theorem C02_step (kvs : List (Bytes × Value)) (k : String) (rest : List String) :
    denoteV (.obj kvs) (k :: rest) = denoteV (Value.get kvs (bytesOf k)) rest := rfl

theorem C02_literal (s : VState) (h : s.rightOp = .nil) (lit : Lit) (k : OpKind) (r : ROp)
    (hl : litOperand lit = some (k, r)) :
    visitLit s lit = .ok { s with curOp := some k, rightOp := r } := by
  have := visitLit_spec s h lit
  simpa [hl] using this

theorem toProc_err_isSome (o : Out) : (toProc o).err.isSome = (match o.res with | .verdict _ => false | _ => true) := by
  unfold toProc; cases o.res <;> rfl

/-- a failure (as opposed to a recovered panic) is never reported with a panic error value -/
theorem leafOut_fail_not_panic (lower : Bytes → Bytes) (item : List (Bytes × Value)) (t : Tree) (e : EvalErr)
    (h : (leafOut lower item t).res = .fail e) : ∀ p, e ≠ .panic p := by
  intro p hp
  subst hp
  cases t with
  | present path => simp only [leafOut] at h; split at h <;> simp at h
  | compare path k lit =>
    simp only [leafOut] at h
    repeat (first | (split at h) | (simp at h))
  | paren neg q => simp [leafOut] at h
  | logical op l r => simp [leafOut] at h

theorem evalOut_fail_not_panic (lower : Bytes → Bytes) (item : List (Bytes × Value)) (t : Tree) :
    ∀ e, (evalOut lower item t).res = .fail e → ∀ p, e ≠ .panic p := by
  induction t with
  | present path => intro e h; exact leafOut_fail_not_panic lower item _ e (by simpa [evalOut] using h)
  | compare path k lit => intro e h; exact leafOut_fail_not_panic lower item _ e (by simpa [evalOut] using h)
  | paren neg q ih =>
    intro e h
    simp only [evalOut] at h
    cases hr : (evalOut lower item q).res with
    | verdict b => simp [hr] at h
    | fail e' => simp only [hr] at h; exact ih e (by rw [hr, h])
    | panic p' => simp only [hr] at h; cases h
  | logical op l r ihl ihr =>
    intro e h
    simp only [evalOut] at h
    cases hr : (evalOut lower item l).res with
    | fail e' => simp only [hr] at h; exact ihl e (by rw [hr, h])
    | panic p' => simp only [hr] at h; cases h
    | verdict x =>
      simp only [hr] at h
      by_cases hop : op = "or"
      · cases x with
        | true => simp [hop, hr] at h
        | false => simp only [hop, if_true, Out.seq] at h; exact ihr e (by simpa using h)
      · cases x with
        | false => simp [hop, hr] at h
        | true => simp only [hop, if_false, Out.seq] at h; exact ihr e (by simpa using h)

/-- the observable of a rule = `combine` of the observables of its comparisons -/
theorem toProc_evalOut_eq_combine (lower : Bytes → Bytes) (item : List (Bytes × Value)) (t : Tree) :
    toProc (evalOut lower item t) = combine (fun l => toProc (evalOut lower item l)) t := by
  induction t with
  | present p => simp [combine]
  | compare p k v => simp [combine]
  | paren neg q ih =>
    simp only [combine, ← ih, evalOut]
    cases hr : (evalOut lower item q).res <;> simp [toProc, hr]
  | logical op l r ihl ihr =>
    simp only [combine, ← ihl, ← ihr, evalOut]
    cases hr : (evalOut lower item l).res with
    | panic p => simp [toProc, hr]
    | fail e => simp [toProc, hr]
    | verdict x =>
      by_cases hop : op = "or"
      · cases x with
        | true => simp [toProc, hr, hop]
        | false =>
          simp only [toProc, hr, hop, if_true, Out.seq]
          cases hrr : (evalOut lower item r).res with
          | fail e =>
            have := evalOut_fail_not_panic lower item r e hrr
            cases e <;> simp_all
          | _ => simp
      · cases x with
        | false => simp [toProc, hr, hop]
        | true =>
          simp only [toProc, hr, hop, if_false, Out.seq]
          cases hrr : (evalOut lower item r).res with
          | fail e =>
            have := evalOut_fail_not_panic lower item r e hrr
            cases e <;> simp_all
          | _ => simp

/-- **C02 (locality).** A comparison placed anywhere inside a compound rule yields exactly what the same
comparison yields as a stand-alone rule: `Process` of the whole rule is the short-circuit combination of
`Process` of its comparisons. -/
theorem C02_locality (lower : Bytes → Bytes) (t : Tree) (item : List (Bytes × Value)) :
    processTree lower t item = combine (fun l => processTree lower l item) t := by
  rw [processTree_eq, toProc_evalOut_eq_combine]
  congr 1
  funext l
  rw [processTree_eq]

/-- non-vacuity: a path through a missing intermediate followed by another comparison (the D1 witness) -/
example : (evalOut id [(bytesOf "y", .int 1)]
    (.logical "and" (.compare ["y"] 13 (.long false "1" none)) (.compare ["x", "a"] 13 (.long false "1" none)))).res
    = .verdict false := by decide +kernel

end Rules
