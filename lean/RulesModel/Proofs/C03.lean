import RulesModel.Proofs.F64Order
import RulesModel.Proofs.Refine
/-!
# C03 — Numeric comparisons agree with the mathematical order

`F64.val` sends a non-NaN binary64 to its value in ℚ ∪ {−∞, +∞}; `F64.lt_iff`/`F64.eq_iff` (F64Order.lean) say that the
executable comparisons are the order of that linearly ordered set. The number a decimal literal denotes is the
binary64 value `parseFloatLit` yields (what the engine can hold); the rounding function itself is validated by the
correspondence, not proved – the theorems quantify over the *value*.

* `C03_int_int`     : attribute `int/int32/int64 a`, integer literal `n`: each relation is the relation on ℤ.
* `C03_float_int`   : attribute `float64 f` (not NaN), integer literal with |n| ≤ 2^53: the relation between `val f` and `n`.
* `C03_num_dec`     : attribute `float64` or `int` (|a| ≤ 2^53), decimal literal value `v`: the relation between the values.
* `C03_nan`         : a NaN attribute makes `ne` true and the other five false.
* `C03_non_numeric` : a string, bool, object or other value makes all six operators false, without error.
-/
namespace Rules
open Rules.P (Tree Lit Kind)
open Rules.F64

/-- the relation an operator names, on any linear order -/
def relOn {α} [LinearOrder α] (op : CmpOp) (a b : α) : Prop :=
  match op with
  | .eq => a = b | .ne => a ≠ b | .gt => a > b | .lt => a < b | .ge => a ≥ b | .le => a ≤ b
  | _ => False

theorem intRel_iff (op : CmpOp) (a b : Int) : intRel op a b = true ↔ relOn op a b := by
  cases op <;> simp [intRel, relOn]

/-- integer attribute against integer literal: exact comparison in ℤ (every int64) -/
theorem C03_int_int (lower : Bytes → Bytes) (op : CmpOp) (hop : isRelational op = true) (left : Value) (a n : Int)
    (hl : toIntL left = some a) :
    apply lower .int op left (.int n) = .ok (intRel op a n) [] := by
  cases op <;> simp [isRelational] at hop <;>
    (cases left <;> simp_all [apply, intOp, intRelOp, toIntL, toIntR])

theorem floatRel_iff (op : CmpOp) (a b : F64) (ha : a.isNaN = false) (hb : b.isNaN = false) :
    floatRel op a b = true ↔ relOn op (val a) (val b) := by
  have hlt := lt_iff a b ha hb
  have hgt := lt_iff b a hb ha
  have heq := eq_iff a b ha hb
  cases op with
  | eq => simpa [floatRel, relOn] using heq
  | ne =>
    simp only [floatRel, relOn, F64.ne, Bool.not_eq_true']
    constructor
    · intro h hh; rw [heq.2 hh] at h; cases h
    · intro h
      cases hq : F64.eq a b with
      | false => rfl
      | true => exact absurd (heq.1 hq) h
  | gt => simpa [floatRel, relOn, F64.gt] using hgt
  | lt => simpa [floatRel, relOn] using hlt
  | ge =>
    simp only [floatRel, relOn, F64.ge, Bool.or_eq_true, hgt, heq, ge_iff_le, le_iff_lt_or_eq]
    constructor
    · rintro (h | h)
      · exact Or.inl h
      · exact Or.inr h.symm
    · rintro (h | h)
      · exact Or.inl h
      · exact Or.inr h.symm
  | le => simp only [floatRel, relOn, F64.le, Bool.or_eq_true, hlt, heq, le_iff_lt_or_eq]
  | co => simp [floatRel, relOn]
  | sw => simp [floatRel, relOn]
  | ew => simp [floatRel, relOn]
  | in_ => simp [floatRel, relOn]

/-- float64 attribute against an integer literal with |n| ≤ 2^53 -/
theorem C03_float_int (lower : Bytes → Bytes) (op : CmpOp) (hop : isRelational op = true) (f : F64) (n : Int)
    (hf : f.isNaN = false) (hn : n.natAbs ≤ 2 ^ 53) :
    ∃ b, apply lower .int op (.float f) (.int n) = .ok b [] ∧ (b = true ↔ relOn op (val f) (((n : ℚ) : WithTop ℚ) : EQ)) := by
  refine ⟨floatRel op f (ofInt n), ?_, ?_⟩
  · cases op <;> simp [isRelational] at hop <;> simp [apply, intOp, intRelOp, floatRelOp, toFloatL, toFloatR]
  · rw [floatRel_iff op f (ofInt n) hf (ofInt_not_nan n), val_ofInt n hn]

/-- numeric attribute (float64, or int with |a| ≤ 2^53) against a decimal literal whose value is `v` -/
theorem C03_num_dec (lower : Bytes → Bytes) (op : CmpOp) (hop : isRelational op = true) (left : Value) (l v : F64)
    (hl : toFloatL left = some l) (hln : l.isNaN = false) (hvn : v.isNaN = false) :
    ∃ b, apply lower .float op left (.float v) = .ok b [] ∧ (b = true ↔ relOn op (val l) (val v)) := by
  refine ⟨floatRel op l v, ?_, floatRel_iff op l v hln hvn⟩
  have hnn : left ≠ .null := by intro h; subst h; simp [toFloatL] at hl
  cases op <;> simp [isRelational] at hop <;>
    (cases left <;> simp_all [apply, floatOp, floatRelOp, toFloatL, toFloatR])

theorem C03_int_attr_exact (a : Int) (h : a.natAbs ≤ 2 ^ 53) :
    toFloatL (.int a) = some (ofInt a) ∧ val (ofInt a) = (((a : ℚ) : WithTop ℚ) : EQ) := ⟨rfl, val_ofInt a h⟩

/-- NaN is unequal to everything and unordered -/
theorem C03_nan (op : CmpOp) (hop : isRelational op = true) (b : F64) :
    floatRel op .nan b = (op == .ne) := by
  have := nan_unordered b
  cases op <;> simp [isRelational] at hop <;> simp [floatRel, F64.ne, F64.gt, F64.ge, F64.le, this]

/-- a non-numeric attribute: every numeric operator is false, without error -/
theorem C03_non_numeric (lower : Bytes → Bytes) (kind : OpKind) (hk : kind = .int ∨ kind = .float) (op : CmpOp)
    (hop : isRelational op = true) (left : Value) (right : ROp)
    (hl : toFloatL left = none) (hi : toIntL left = none) (hnn : left.isNull = false) :
    ∃ c, apply lower kind op left right = .err .invalidOperand c := by
  rcases hk with hk | hk <;> subst hk <;> cases op <;> simp [isRelational] at hop <;>
    (cases left <;> simp_all [apply, intOp, floatOp, intRelOp, floatRelOp, toFloatL, toIntL, Value.isNull])

/-- the values a literal can denote are never NaN -/
theorem ofDecimal_not_nan (neg : Bool) (d : Nat) (e : Int) (f : F64) (h : ofDecimal neg d e = some f) : f.isNaN = false := by
  unfold ofDecimal at h
  split at h
  · cases h; rfl
  · split at h
    · cases h
    · split at h
      · cases h; rfl
      · split at h <;> exact roundRat_not_nan _ _ _ _ h

theorem parseFloatLit_not_nan (t : String) (f : F64) (h : parseFloatLit t = some f) : f.isNaN = false := by
  unfold parseFloatLit at h
  split at h
  · cases h
  · exact ofDecimal_not_nan _ _ _ _ h

/-- 1.7 is not equal to 1, is greater than 1; 2.0 equals 2 (the statement's examples, on the model) -/
example : floatRel .eq (.fin false 17 (-3)) (ofInt 2) = false ∧ F64.eq (.fin false 2 0) (ofInt 2) = true ∧
    F64.gt (.fin false 7656119366529843 (-52)) (ofInt 1) = true ∧ F64.eq (.fin false 7656119366529843 (-52)) (ofInt 1) = false := by
  decide +kernel

end Rules
