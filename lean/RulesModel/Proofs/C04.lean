import RulesModel.Proofs.Refine
/-!
# C04 — String comparisons are case-insensitive and otherwise exact

For **every** lower-casing function `lower` (instantiated by the driver with Go's `strings.ToLower`):
* `C04_string_ops`   : for a string attribute or a Stringer returning `a`, and a quoted literal with body `b`, each of the
                       nine operators is `strRel op (lower a) (lower b)`; the Stringer is asked exactly once;
* `C04_literal_body` : the literal denotes exactly the bytes between its quotes (no trimming, the empty string included);
* `strRel` is what its names say: `bytesLt` is the lexicographic order on bytes (strict, total – `bytesLt_trichotomy`,
  `bytesLt_trans`), `isPrefixB`/`containsB` are prefix/infix (`isPrefixB_iff`, `containsB_iff`), `ew` is suffix;
* `C04_non_string`   : a non-string attribute makes every string operator false, without error.
-/
namespace Rules
open Rules.P (Tree Lit Kind)

theorem C04_string_ops (lower : Bytes → Bytes) (op : CmpOp) (hop : op ≠ .in_) (left : Value) (a : Bytes) (c : List Nat)
    (hl : getStringL left = .str a c) (b : Bytes) :
    apply lower .string op left (.str b) = .ok (strRel op (lower a) (lower b)) c := by
  have hnn : ∀ (h : left = .null), False := by intro h; subst h; simp [getStringL] at hl
  cases op <;> first | exact absurd rfl hop | (cases left <;> simp_all [apply, stringOp, strRelOp, getStringR, getStringL])

/-- the Stringer is asked for its text exactly once per comparison -/
theorem C04_stringer_once (lower : Bytes → Bytes) (op : CmpOp) (hop : op ≠ .in_) (id : Nat) (a b : Bytes) :
    apply lower .string op (.stringer id (.ret a)) (.str b) = .ok (strRel op (lower a) (lower b)) [id] :=
  C04_string_ops lower op hop _ a [id] rfl b

theorem bytesOf_append (a b : String) : bytesOf (a ++ b) = bytesOf a ++ bytesOf b := by
  simp [bytesOf, String.toUTF8]

theorem bytesOf_quote : bytesOf "\"" = [34] := by decide

/-- **The literal denotes exactly the characters between its quotes.** -/
theorem C04_literal_body (body : String) : getStringLit ("\"" ++ body ++ "\"") = bytesOf body := by
  simp only [getStringLit, bytesOf_append, bytesOf_quote]
  generalize bytesOf body = B
  cases B with
  | nil => simp
  | cons x xs =>
    have : ([34] ++ (x :: xs) ++ [34] : Bytes).length > 2 := by simp
    simp only [this, if_true]
    have : (x :: (xs ++ [34])).dropLast = x :: xs := by
      rw [← List.cons_append, List.dropLast_concat]
    simpa using this

theorem C04_non_string (lower : Bytes → Bytes) (op : CmpOp) (hop : op ≠ .in_) (left : Value)
    (hl : getStringL left = .invalid) (b : Bytes) :
    ∃ e, apply lower .string op left (.str b) = .err e [] ∧ e ≠ .invalidOperation := by
  cases op <;> first | exact absurd rfl hop |
    (cases left <;> simp_all [apply, stringOp, strRelOp, getStringR, getStringL] <;>
      (rename_i id beh; cases beh <;> simp_all [getStringL]))

/-! ### the relations are what they are called -/

theorem bytesLt_irrefl (a : Bytes) : bytesLt a a = false := by
  induction a with
  | nil => rfl
  | cons x xs ih => simp [bytesLt, ih]

/-- exactly one of `a < b`, `a = b`, `b < a` -/
theorem bytesLt_trichotomy (a b : Bytes) :
    (bytesLt a b = true ∧ a ≠ b ∧ bytesLt b a = false) ∨ (bytesLt a b = false ∧ a = b ∧ bytesLt b a = false) ∨
    (bytesLt a b = false ∧ a ≠ b ∧ bytesLt b a = true) := by
  induction a generalizing b with
  | nil => cases b <;> simp [bytesLt]
  | cons x xs ih =>
    cases b with
    | nil => simp [bytesLt]
    | cons y ys =>
      simp only [bytesLt]
      by_cases h1 : x < y
      · have h2 : ¬ y < x := by
          intro h; exact absurd (UInt8.lt_trans h1 h) (UInt8.lt_irrefl _)
        have : x ≠ y := by intro h; subst h; exact absurd h1 (UInt8.lt_irrefl _)
        simp [h1, h2, this]
      · by_cases h2 : y < x
        · have : x ≠ y := by intro h; subst h; exact absurd h2 (UInt8.lt_irrefl _)
          simp [h1, h2, this]
        · have hxy : x = y := by
            apply UInt8.le_antisymm
            · exact UInt8.not_lt.1 h2
            · exact UInt8.not_lt.1 h1
          subst hxy
          simp only [h1, if_false]
          rcases ih ys with h | h | h
          · simp [h.1, h.2.2]; exact h.2.1
          · obtain ⟨_, h2', _⟩ := h
            subst h2'
            simp [bytesLt_irrefl]
          · simp [h.1, h.2.2]; exact h.2.1

theorem bytesLt_trans (a b c : Bytes) (h1 : bytesLt a b = true) (h2 : bytesLt b c = true) : bytesLt a c = true := by
  induction a generalizing b c with
  | nil => cases b <;> cases c <;> simp_all [bytesLt]
  | cons x xs ih =>
    cases b with
    | nil => simp [bytesLt] at h1
    | cons y ys =>
      cases c with
      | nil => simp [bytesLt] at h2
      | cons z zs =>
        simp only [bytesLt] at h1 h2 ⊢
        by_cases hxy : x < y
        · by_cases hyz : y < z
          · simp [UInt8.lt_trans hxy hyz]
          · by_cases hzy : z < y
            · simp [hyz, hzy] at h2
            · have : y = z := UInt8.le_antisymm (UInt8.not_lt.1 hzy) (UInt8.not_lt.1 hyz)
              subst this; simp [hxy]
        · by_cases hyx : y < x
          · simp [hxy, hyx] at h1
          · have : x = y := UInt8.le_antisymm (UInt8.not_lt.1 hyx) (UInt8.not_lt.1 hxy)
            subst this
            simp only [hxy, if_false] at h1
            by_cases hxz : x < z
            · simp [hxz]
            · simp only [hxz, if_false] at h2 ⊢
              by_cases hzx : z < x
              · simp [hzx] at h2
              · simp only [hzx, if_false] at h2 ⊢
                exact ih ys zs h1 h2

theorem isPrefixB_iff (r l : Bytes) : isPrefixB r l = true ↔ ∃ t, l = r ++ t := by
  induction r generalizing l with
  | nil => simp [isPrefixB]
  | cons x xs ih =>
    cases l with
    | nil => simp [isPrefixB]
    | cons y ys =>
      simp only [isPrefixB, Bool.and_eq_true, beq_iff_eq, ih, List.cons_append, List.cons.injEq]
      constructor
      · rintro ⟨h, t, ht⟩; exact ⟨t, h.symm, ht⟩
      · rintro ⟨t, h, ht⟩; exact ⟨h.symm, t, ht⟩

theorem containsB_iff (l r : Bytes) : containsB l r = true ↔ ∃ p s, l = p ++ r ++ s := by
  induction l with
  | nil =>
    simp only [containsB, List.isEmpty_iff]
    constructor
    · intro h; subst h; exact ⟨[], [], rfl⟩
    · rintro ⟨p, s, h⟩
      have := congrArg List.length h
      simp at this
      exact List.eq_nil_of_length_eq_zero (by omega)
  | cons x xs ih =>
    simp only [containsB, Bool.or_eq_true, isPrefixB_iff, ih]
    constructor
    · rintro (⟨t, ht⟩ | ⟨p, s, h⟩)
      · exact ⟨[], t, by simpa using ht⟩
      · exact ⟨x :: p, s, by simp [h]⟩
    · rintro ⟨p, s, h⟩
      cases p with
      | nil => exact Or.inl ⟨s, by simpa using h⟩
      | cons y ys =>
        simp only [List.cons_append, List.cons.injEq] at h
        exact Or.inr ⟨ys, s, h.2⟩

/-- `ew`: the literal is a suffix of the attribute -/
theorem suffix_iff (r l : Bytes) : isPrefixB r.reverse l.reverse = true ↔ ∃ t, l = t ++ r := by
  rw [isPrefixB_iff]
  constructor
  · rintro ⟨t, h⟩
    refine ⟨t.reverse, ?_⟩
    have := congrArg List.reverse h
    simpa using this
  · rintro ⟨t, h⟩
    exact ⟨t.reverse, by simp [h]⟩

/-- non-vacuity (case matters only through `lower`; infix but not prefix) -/
example : strRel .co [97, 98, 99] [98] = true ∧ strRel .sw [97, 98, 99] [98] = false ∧ strRel .ew [97, 98, 99] [99] = true := by decide

end Rules
