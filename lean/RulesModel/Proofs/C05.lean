import RulesModel.Proofs.ParseComplete
import RulesModel.Proofs.Refine
/-!
# C05 — Malformed rules are rejected, never partially evaluated

`Sentence rules s`: `s` is lexed by the token table into tokens that the grammar relation `D` derives.
* `lexParse_iff`       : the executable recogniser accepts exactly the sentences (`parse_iff` + the lexer).
* `C05_only_sentences` : if the trimmed text is not a sentence, then for **every** object all three entry points
                         report the syntax error with verdict false (`parser.Evaluate` returns false).
* `C05_verdict_sentence` : conversely an outcome without error implies the trimmed text is a sentence.
The token table is a parameter: the driver instantiates it with the table regenerated from JsonQuery.g4.
-/
namespace Rules
open Rules.P (Tree Kind)

theorem lexParse_iff (rules : List (Kind × Regex)) (s : List Char) :
    (∃ t, lexParse rules s = some t) ↔ Sentence rules s := by
  unfold lexParse Sentence
  cases hl : lex rules s with
  | none => simp
  | some ts =>
    constructor
    · rintro ⟨t, ht⟩; exact ⟨ts, t, rfl, (P.parse_iff _ _).1 ht⟩
    · rintro ⟨ts', t, h1, h2⟩
      cases h1
      exact ⟨t, (P.parse_iff _ _).2 h2⟩

theorem C05_only_sentences (rules : List (Kind × Regex)) (lower : Bytes → Bytes) (text : List Char)
    (h : ¬ Sentence rules (trimSpace text)) (item : List (Bytes × Value)) :
    rulesEvaluate rules lower text item = syntaxOut ∧
    ((newEvaluator rules text).process lower item).2 = syntaxOut ∧
    parserEvaluate rules lower text item = false := by
  have hn : lexParse rules (trimSpace text) = none := by
    cases hp : lexParse rules (trimSpace text) with
    | none => rfl
    | some t => exact absurd ((lexParse_iff rules _).1 ⟨t, hp⟩) h
  simp [rulesEvaluate, parserEvaluate, newEvaluator, Evaluator.process, Evaluator.processWith, hn, syntaxOut]

theorem C05_verdict_sentence (rules : List (Kind × Regex)) (lower : Bytes → Bytes) (text : List Char)
    (item : List (Bytes × Value)) (h : (rulesEvaluate rules lower text item).err = none) :
    Sentence rules (trimSpace text) := by
  apply Classical.byContradiction
  intro hns
  have := (C05_only_sentences rules lower text hns item).1
  rw [this] at h
  simp [syntaxOut] at h

/-- no object can make a non-sentence true -/
theorem C05_never_true (rules : List (Kind × Regex)) (lower : Bytes → Bytes) (text : List Char)
    (h : ¬ Sentence rules (trimSpace text)) : ∀ item, (rulesEvaluate rules lower text item).verdict = false := by
  intro item
  rw [(C05_only_sentences rules lower text h item).1]; rfl

end Rules
