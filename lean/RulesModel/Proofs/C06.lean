import RulesModel.Proofs.C01
/-!
# C06 — Unsupported operators fail loudly iff reached; type mismatch never errors

* `C06_table_unsupported` / `C06_table_supported` : the operator-support table of the six `Operation` types.
* `C06_final`        : a failure (or recovered panic) of the left operand is the outcome of the whole connective –
                       nothing later can turn it into a verdict or replace the error.
* `C06_reached_shape`: all reached comparisons but the last one are verdicts; the last one decides a failure.
* `C06_fail_iff`     : the evaluation fails with error `e` iff a *reached* comparison fails with `e`.
* `C06_calls`        : the Stringers asked for their text are exactly those of the reached comparisons, in order.
* `C06_mismatch_no_error` : an operand error other than "invalid operation" (absent attribute, wrong type) makes the
                       comparison false without error, for every operator including `ne`.
All for every rule shape (induction over the tree) and every object.
-/
namespace Rules
open Rules.P (Tree Lit Kind)

/-- the operators a literal's `Operation` type does not define itself -/
def unsupportedOp : OpKind → CmpOp → Bool
  | .null, op | .bool, op => !(op == .eq || op == .ne)
  | .int, op | .float, op => op == .co || op == .sw || op == .ew
  | .version, op => op == .co || op == .sw || op == .ew || op == .in_
  | .string, _ => false

theorem C06_table_unsupported (lower : Bytes → Bytes) (k : OpKind) (op : CmpOp) (h : unsupportedOp k op = true)
    (left : Value) (right : ROp) : apply lower k op left right = .err .invalidOperation [] := by
  cases k <;> cases op <;> simp_all [unsupportedOp, apply, nullOp, boolOp, intOp, floatOp, versionOp]

theorem intInLoop_not_invalidOperation (left : Value) (l : List Int) :
    ∀ c, intInLoop left l ≠ .err .invalidOperation c := by
  induction l with
  | nil => simp [intInLoop]
  | cons n rest ih =>
    intro c
    simp only [intInLoop, intRelOp, floatRelOp]
    cases left <;> simp [toIntL, toIntR, toFloatL, toFloatR] <;> (try split) <;> simp_all

theorem strRelOp_not_invalidOperation (lower : Bytes → Bytes) (op : CmpOp) (left : Value) (right : ROp) :
    ∀ c, strRelOp lower op left right ≠ .err .invalidOperation c := by
  intro c
  unfold strRelOp
  cases left <;> simp [getStringL] <;> (try split) <;> (try split) <;> simp_all

theorem strInLoop_not_invalidOperation (lower : Bytes → Bytes) (left : Value) (l : List Bytes) :
    ∀ c, strInLoop lower left l ≠ .err .invalidOperation c := by
  induction l with
  | nil => simp [strInLoop]
  | cons v rest ih =>
    intro c
    simp only [strInLoop]
    have h1 := strRelOp_not_invalidOperation lower .eq left (.str v)
    cases hr : strRelOp lower .eq left (.str v) with
    | ok b c' =>
      cases b with
      | true => simp
      | false =>
        simp only [OpRes.addCalls]
        cases hs : strInLoop lower left rest with
        | ok b2 c2 => simp
        | err e c2 =>
          intro he
          injection he with h1 h2
          subst h1
          exact absurd hs (ih c2)
        | panic c2 => simp
    | err e c' =>
      intro he
      injection he with h1' h2
      subst h1'
      exact absurd hr (h1 c')
    | panic c' => simp

/-- a supported operator never reports "invalid operation", whatever the operands are -/
theorem C06_table_supported (lower : Bytes → Bytes) (k : OpKind) (op : CmpOp) (h : unsupportedOp k op = false)
    (left : Value) (right : ROp) : ∀ c, apply lower k op left right ≠ .err .invalidOperation c := by
  intro c
  cases k with
  | null => cases op <;> simp_all [unsupportedOp, apply, nullOp]
  | bool =>
    cases op <;> simp_all [unsupportedOp, apply, boolOp] <;>
      (cases left <;> simp <;> cases right <;> simp)
  | int =>
    cases op <;> simp_all [unsupportedOp, apply, intOp] <;>
      first
      | (cases right <;> simp <;> exact intInLoop_not_invalidOperation _ _ _)
      | (simp only [intRelOp, floatRelOp]; cases left <;> simp [toIntL, toFloatL] <;> (try split) <;> (try split) <;> simp_all)
  | float =>
    cases op <;> simp_all [unsupportedOp, apply, floatOp] <;>
      first
      | (simp only [floatRelOp]; cases left <;> simp [toFloatL] <;> (try split) <;> (try split) <;> simp_all)
      | (cases left <;> simp [toFloatL] <;> cases right <;> simp)
  | string =>
    cases op <;> simp only [apply, stringOp] <;>
      first
      | exact strRelOp_not_invalidOperation lower _ left right c
      | (cases right <;> simp <;> exact strInLoop_not_invalidOperation lower _ _ _)
  | version =>
    cases op <;> simp_all [unsupportedOp, apply, versionOp] <;>
      (cases left <;> simp <;> (repeat (first | split | simp_all)))

/-! ### reach and finality -/

/-- the right operand is skipped: `or` with a true left side, `and` with a false one -/
def shortCircuits (op : String) (x : Bool) : Bool := if op = "or" then x else !x

theorem evalOut_logical_stop (lower : Bytes → Bytes) (item : List (Bytes × Value)) (op : String) (l r : Tree)
    (h : isVerdict (evalOut lower item l).res = false) :
    evalOut lower item (.logical op l r) = evalOut lower item l ∧
    reached lower item (.logical op l r) = reached lower item l := by
  simp only [evalOut, reached]
  cases hr : (evalOut lower item l).res <;> simp_all [isVerdict]

theorem evalOut_logical_short (lower : Bytes → Bytes) (item : List (Bytes × Value)) (op : String) (l r : Tree) (x : Bool)
    (h : (evalOut lower item l).res = .verdict x) (hs : shortCircuits op x = true) :
    evalOut lower item (.logical op l r) = evalOut lower item l ∧
    reached lower item (.logical op l r) = reached lower item l := by
  simp only [evalOut, reached, h]
  by_cases hop : op = "or" <;> cases x <;> simp_all [shortCircuits]

theorem evalOut_logical_seq (lower : Bytes → Bytes) (item : List (Bytes × Value)) (op : String) (l r : Tree) (x : Bool)
    (h : (evalOut lower item l).res = .verdict x) (hs : shortCircuits op x = false) :
    evalOut lower item (.logical op l r) = (evalOut lower item l).seq (evalOut lower item r) ∧
    reached lower item (.logical op l r) = reached lower item l ++ reached lower item r := by
  simp only [evalOut, reached, h]
  by_cases hop : op = "or" <;> cases x <;> simp_all [shortCircuits]

theorem evalOut_paren_res (lower : Bytes → Bytes) (item : List (Bytes × Value)) (neg : Bool) (q : Tree) :
    isVerdict (evalOut lower item (.paren neg q)).res = isVerdict (evalOut lower item q).res ∧
    (isVerdict (evalOut lower item q).res = false → evalOut lower item (.paren neg q) = evalOut lower item q) ∧
    (evalOut lower item (.paren neg q)).calls = (evalOut lower item q).calls ∧
    (evalOut lower item (.paren neg q)).dbg = (evalOut lower item q).dbg := by
  simp only [evalOut]
  cases hr : (evalOut lower item q).res <;> simp [isVerdict, hr]

/-- **Finality.** Once the left operand has failed (or panicked) the connective has that outcome, whatever follows. -/
theorem C06_final_logical (lower : Bytes → Bytes) (item : List (Bytes × Value)) (op : String) (l r : Tree)
    (h : isVerdict (evalOut lower item l).res = false) :
    evalOut lower item (.logical op l r) = evalOut lower item l :=
  (evalOut_logical_stop lower item op l r h).1

theorem C06_final_paren (lower : Bytes → Bytes) (item : List (Bytes × Value)) (neg : Bool) (q : Tree)
    (h : isVerdict (evalOut lower item q).res = false) :
    evalOut lower item (.paren neg q) = evalOut lower item q :=
  (evalOut_paren_res lower item neg q).2.1 h

/-- all reached comparisons but the last are verdicts, and the last one carries a non-verdict outcome -/
theorem C06_reached_shape (lower : Bytes → Bytes) (item : List (Bytes × Value)) (t : Tree) :
    (isVerdict (evalOut lower item t).res = true → ∀ l ∈ reached lower item t, isVerdict (leafOut lower item l).res = true) ∧
    (isVerdict (evalOut lower item t).res = false → ∃ pre last, reached lower item t = pre ++ [last] ∧
        (∀ l ∈ pre, isVerdict (leafOut lower item l).res = true) ∧
        (leafOut lower item last).res = (evalOut lower item t).res) := by
  induction t with
  | present p =>
    refine ⟨?_, ?_⟩
    · intro h l hl; simp [reached] at hl; subst hl; simpa [evalOut] using h
    · intro _; exact ⟨[], Tree.present p, by simp [reached], by simp, by simp [evalOut]⟩
  | compare p k v =>
    refine ⟨?_, ?_⟩
    · intro h l hl; simp [reached] at hl; subst hl; simpa [evalOut] using h
    · intro _; exact ⟨[], Tree.compare p k v, by simp [reached], by simp, by simp [evalOut]⟩
  | paren neg q ih =>
    have hp := evalOut_paren_res lower item neg q
    refine ⟨?_, ?_⟩
    · intro h; simpa [reached] using ih.1 (by rw [← hp.1]; exact h)
    · intro h
      have hq : isVerdict (evalOut lower item q).res = false := by rw [← hp.1]; exact h
      simpa [reached, hp.2.1 hq] using ih.2 hq
  | logical op l r ihl ihr =>
    cases hv : isVerdict (evalOut lower item l).res with
    | false =>
      obtain ⟨e1, e2⟩ := evalOut_logical_stop lower item op l r hv
      rw [e1, e2]; exact ihl
    | true =>
      have hl := ihl.1 hv
      obtain ⟨x, hx⟩ : ∃ x, (evalOut lower item l).res = .verdict x := by
        cases hr : (evalOut lower item l).res <;> simp_all [isVerdict]
      cases hs : shortCircuits op x with
      | true =>
        obtain ⟨e1, e2⟩ := evalOut_logical_short lower item op l r x hx hs
        rw [e1, e2]; exact ihl
      | false =>
        obtain ⟨e1, e2⟩ := evalOut_logical_seq lower item op l r x hx hs
        rw [e1, e2]
        simp only [Out.seq]
        refine ⟨?_, ?_⟩
        · intro h y hy
          rcases List.mem_append.1 hy with hy | hy
          · exact hl y hy
          · exact ihr.1 h y hy
        · intro h
          obtain ⟨pre, last, h1, h2, h3⟩ := ihr.2 h
          refine ⟨reached lower item l ++ pre, last, by rw [h1, List.append_assoc], ?_, h3⟩
          intro y hy
          rcases List.mem_append.1 hy with hy | hy
          · exact hl y hy
          · exact h2 y hy

/-- **Failure iff reached.** The evaluation fails with `e` exactly when a comparison that is reached under
left-to-right short-circuit evaluation fails with `e`. -/
theorem C06_fail_iff (lower : Bytes → Bytes) (item : List (Bytes × Value)) (t : Tree) (e : EvalErr) :
    (evalOut lower item t).res = .fail e ↔ ∃ l ∈ reached lower item t, (leafOut lower item l).res = .fail e := by
  have hs := C06_reached_shape lower item t
  constructor
  · intro h
    obtain ⟨pre, last, h1, _, h3⟩ := hs.2 (by simp [isVerdict, h])
    exact ⟨last, by simp [h1], by rw [h3, h]⟩
  · rintro ⟨l, hl, hf⟩
    cases hv : isVerdict (evalOut lower item t).res with
    | true =>
      have := hs.1 hv l hl
      simp [isVerdict, hf] at this
    | false =>
      obtain ⟨pre, last, h1, h2, h3⟩ := hs.2 hv
      rw [h1] at hl
      rcases List.mem_append.1 hl with hl | hl
      · have := h2 l hl; simp [isVerdict, hf] at this
      · simp at hl; subst hl; rw [← h3, hf]

/-- the Stringer call log is the concatenation of the logs of the reached comparisons, in order -/
theorem C06_calls (lower : Bytes → Bytes) (item : List (Bytes × Value)) (t : Tree) :
    (evalOut lower item t).calls = (reached lower item t).flatMap (fun l => (leafOut lower item l).calls) := by
  induction t with
  | present p => simp [evalOut, reached]
  | compare p k v => simp [evalOut, reached]
  | paren neg q ih => rw [(evalOut_paren_res lower item neg q).2.2.1, ih]; simp [reached]
  | logical op l r ihl ihr =>
    cases hv : isVerdict (evalOut lower item l).res with
    | false =>
      obtain ⟨e1, e2⟩ := evalOut_logical_stop lower item op l r hv
      rw [e1, e2]; exact ihl
    | true =>
      obtain ⟨x, hx⟩ : ∃ x, (evalOut lower item l).res = .verdict x := by
        cases hr : (evalOut lower item l).res <;> simp_all [isVerdict]
      cases hs : shortCircuits op x with
      | true =>
        obtain ⟨e1, e2⟩ := evalOut_logical_short lower item op l r x hx hs
        rw [e1, e2]; exact ihl
      | false =>
        obtain ⟨e1, e2⟩ := evalOut_logical_seq lower item op l r x hx hs
        rw [e1, e2]
        simp [Out.seq, ihl, ihr]

/-- an operand error that is not "invalid operation" (absent attribute, wrong type or format) is not an
evaluation error: the comparison is false -/
theorem C06_mismatch_no_error (lower : Bytes → Bytes) (item : List (Bytes × Value)) (path : List String) (k : Kind)
    (lit : Lit) (v : Value) (kind : OpKind) (r : ROp) (op : CmpOp) (e : OpErr) (c : List Nat)
    (hd : denote item path = .ok v) (hl : litOperand lit = some (kind, r)) (hk : cmpOfKind k = some op)
    (ha : apply lower kind op v r = .err e c) (he : e ≠ .invalidOperation) :
    (leafOut lower item (.compare path k lit)).res = .verdict false := by
  simp only [leafOut, hd, hl, hk, ha]

/-- an absent attribute compared with a supported operator (other than a null test) is false, never an error -/
theorem C06_absent_false (lower : Bytes → Bytes) (kind : OpKind) (op : CmpOp) (r : ROp)
    (hs : unsupportedOp kind op = false) (hk : kind ≠ .null) :
    (∃ c, apply lower kind op .null r = .ok false c) ∨ (∃ e c, apply lower kind op .null r = .err e c ∧ e ≠ .invalidOperation) := by
  cases kind with
  | null => exact absurd rfl hk
  | bool => cases op <;> simp_all [unsupportedOp, apply, boolOp]
  | int =>
    cases op <;> simp_all [unsupportedOp, apply, intOp, intRelOp]
    cases r <;> simp
    rename_i l
    cases l <;> simp [intInLoop, intRelOp]
  | float => cases op <;> simp_all [unsupportedOp, apply, floatOp, floatRelOp, toFloatL]
  | string =>
    cases op <;> simp_all [unsupportedOp, apply, stringOp, strRelOp]
    cases r <;> simp
    rename_i l
    cases l <;> simp [strInLoop, strRelOp]
  | version => cases op <;> simp_all [unsupportedOp, apply, versionOp]

/-- non-vacuity: `a gt null or b pr` on `{}`: the first comparison is reached and fails, the rest is not consulted -/
example : (evalOut id [] (.logical "or" (.compare ["a"] 15 .null) (.present ["b"]))).res = .fail .invalidOperation := by
  decide +kernel
/-- … while `a eq 1 and b gt null` on `{}` does not reach the unsupported comparison -/
example : (evalOut id [] (.logical "and" (.compare ["a"] 13 (.long false "1" none)) (.compare ["b"] 15 .null))).res
    = .verdict false := by decide +kernel

end Rules
