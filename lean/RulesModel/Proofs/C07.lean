import RulesModel.Proofs.C14
import RulesModel.Model.NestedError
/-!
# C07 — No input can crash the engine: every failure is a returned error

In the model a panic is a value (`Except.error`) and `Process`' `recover()` is the explicit handler in
`processTree`; every model function is total (Lean checks termination – for `NestedError.Error` that needed the
depth invariant, see Model/NestedError.lean). What is left to state:
* `C07_panic_is_error`  : a panic inside the visitor (non-object in a path, panicking `String()`, failed type
                          assertion) comes out of `Process` as a returned error with verdict false and no diagnostic;
* `C07_error_false`     : whenever any entry point reports an error the verdict is false;
* `C07_outcomes`        : every `Process` outcome is a verdict without error or `false` with an error.
Fatal errors of the Go runtime (stack exhaustion, out of memory, deadlock) are not expressible in the model; the
harness explores them in a watched child process.
-/
namespace Rules
open Rules.P (Tree Kind)

theorem C07_panic_is_error (lower : Bytes → Bytes) (t : Tree) (item : List (Bytes × Value)) (p : PanicInfo)
    (h : visit lower t (VState.init item) = .error p) :
    processTree lower t item = { verdict := false, err := some (.panic p.p), debug := p.debug, calls := p.calls } := by
  simp [processTree, h]

theorem C07_outcomes (lower : Bytes → Bytes) (t : Tree) (item : List (Bytes × Value)) :
    ((processTree lower t item).err = none) ∨
    ((processTree lower t item).verdict = false ∧ (processTree lower t item).err ≠ none) := by
  rw [processTree_eq]; unfold toProc
  cases (evalOut lower item t).res <;> simp

theorem C07_error_false (rules : List (Kind × Regex)) (lower : Bytes → Bytes) (text : List Char) (item : List (Bytes × Value)) :
    (rulesEvaluate rules lower text item).err ≠ none →
      (rulesEvaluate rules lower text item).verdict = false ∧ parserEvaluate rules lower text item = false := by
  intro h
  exact ⟨C14_error_false lower _ item h, C14_error_false lower _ item h⟩

/-- a panicking Stringer inside a compound rule is a returned error (non-vacuity) -/
example : (processTree id (.logical "or" (.present ["z"]) (.compare ["x"] 13 (.str "\"a\""))) [(bytesOf "x", .stringer 7 .panics)])
    = { verdict := false, err := some (.panic .stringer), debug := none, calls := [7] } := by decide +kernel
example : (processTree id (.compare ["a", "b"] 13 (.long false "1" none)) [(bytesOf "a", .int 5)]).err = some (.panic .notAMap) := by
  decide +kernel

end Rules
