import RulesModel.Proofs.Refine
/-!
# C08 — `in` is membership under the same equality as `eq`

For integer, decimal and string lists of any length and every attribute value:
`p in [v1, …, vn]` is true iff some `p eq vi` is true (`C08_ints`, `C08_floats`, `C08_strs`), and it never fails.
Since the right-hand side only says "some element", order and repetition of the elements do not matter
(`C08_perm`), and an absent or wrongly typed attribute is a member of nothing.
-/
namespace Rules
open Rules.P (Tree Lit Kind INT DOUBLE STRING)

def okTrue (r : OpRes) : Prop := ∃ c, r = .ok true c
def isOk (r : OpRes) : Prop := ∃ b c, r = .ok b c

/-- a comparison is true iff its typed operation returns `(true, nil)` -/
theorem leaf_true_iff (lower : Bytes → Bytes) (item : List (Bytes × Value)) (path : List String) (k : Kind) (lit : Lit)
    (v : Value) (kind : OpKind) (r : ROp) (op : CmpOp)
    (hd : denote item path = .ok v) (hl : litOperand lit = some (kind, r)) (hk : cmpOfKind k = some op) :
    (leafOut lower item (.compare path k lit)).res = .verdict true ↔ okTrue (apply lower kind op v r) := by
  simp only [leafOut, hd, hl, hk, okTrue]
  cases ha : apply lower kind op v r with
  | ok b c => cases b <;> simp
  | panic c => simp
  | err e c => cases e <;> simp

/-! ### integers -/

theorem intEq_isOk_indep (v : Value) (n m : Int) : isOk (intRelOp .eq v (.int n)) → isOk (intRelOp .eq v (.int m)) := by
  unfold isOk intRelOp floatRelOp
  cases v <;> simp [toIntL, toIntR, toFloatL, toFloatR]

theorem intInLoop_true_iff (v : Value) (vs : List Int) :
    okTrue (intInLoop v vs) ↔ ∃ n ∈ vs, okTrue (intRelOp .eq v (.int n)) := by
  induction vs with
  | nil => simp [intInLoop, okTrue]
  | cons n rest ih =>
    simp only [intInLoop, List.mem_cons, exists_eq_or_imp]
    cases hr : intRelOp .eq v (.int n) with
    | ok b c =>
      cases b with
      | true => simp [okTrue]
      | false => simp only [ih]; simp [okTrue]
    | err e c =>
      simp only [okTrue]
      constructor
      · intro h; simp at h
      · rintro (h | ⟨m, _, hm⟩)
        · simp at h
        · have : isOk (intRelOp .eq v (.int n)) := intEq_isOk_indep v m n ⟨_, _, hm.choose_spec⟩
          obtain ⟨b, c', hb⟩ := this
          rw [hr] at hb; cases hb
    | panic c =>
      simp only [okTrue]
      constructor
      · intro h; simp at h
      · rintro (h | ⟨m, _, hm⟩)
        · simp at h
        · have : isOk (intRelOp .eq v (.int n)) := intEq_isOk_indep v m n ⟨_, _, hm.choose_spec⟩
          obtain ⟨b, c', hb⟩ := this
          rw [hr] at hb; cases hb

theorem mapOpt_mem {α β} (f : α → Option β) : ∀ (xs : List α) (vs : List β), mapOpt f xs = some vs →
    (∀ n, n ∈ vs ↔ ∃ x ∈ xs, f x = some n) := by
  intro xs
  induction xs with
  | nil => intro vs h; simp [mapOpt] at h; subst h; simp
  | cons a as ih =>
    intro vs h n
    simp only [mapOpt] at h
    cases ha : f a with
    | none => simp [ha] at h
    | some b =>
      cases has : mapOpt f as with
      | none => simp [ha, has] at h
      | some bs =>
        simp [ha, has] at h
        subst h
        simp only [List.mem_cons, exists_eq_or_imp, ha, Option.some.injEq]
        rw [ih bs has n]
        constructor
        · rintro (h | h)
          · exact Or.inl h.symm
          · exact Or.inr h
        · rintro (h | h)
          · exact Or.inl h.symm
          · exact Or.inr h

/-- **C08 for integer lists.** -/
theorem C08_ints (lower : Bytes → Bytes) (item : List (Bytes × Value)) (path : List String) (xs : List String)
    (vs : List Int) (hm : mapOpt (fun t => parseIntLit false t none) xs = some vs) (v : Value)
    (hd : denote item path = .ok v) :
    (leafOut lower item (.compare path 12 (.list INT xs))).res = .verdict true ↔
      ∃ x ∈ xs, (leafOut lower item (.compare path 13 (.long false x none))).res = .verdict true := by
  cases xs with
  | nil =>
    simp [leafOut, hd, litOperand, cmpOfKind, apply, intOp]
  | cons x0 rest =>
    have hl : litOperand (.list INT (x0 :: rest)) = some (.int, .ints vs) := by simp [litOperand, hm]
    rw [leaf_true_iff lower item path 12 _ v .int (.ints vs) .in_ hd hl (by decide)]
    simp only [apply, intOp, intInLoop_true_iff]
    constructor
    · rintro ⟨n, hn, ht⟩
      obtain ⟨x, hx, hp⟩ := (mapOpt_mem _ _ _ hm n).1 hn
      refine ⟨x, hx, ?_⟩
      rw [leaf_true_iff lower item path 13 _ v .int (.int n) .eq hd (by simp [litOperand, hp]) (by decide)]
      simpa [apply, intOp] using ht
    · rintro ⟨x, hx, ht⟩
      -- every element of the list parses
      have : ∃ n, parseIntLit false x none = some n := by
        cases hp : parseIntLit false x none with
        | some n => exact ⟨n, rfl⟩
        | none =>
          exfalso
          have hall : ∀ (ys : List String) (ws : List Int), mapOpt (fun t => parseIntLit false t none) ys = some ws →
              x ∈ ys → False := by
            intro ys
            induction ys with
            | nil => intro ws _ hmem; cases hmem
            | cons y ys ih =>
              intro ws h hmem
              simp only [mapOpt] at h
              cases hy : parseIntLit false y none with
              | none => simp [hy] at h
              | some w =>
                cases hys : mapOpt (fun t => parseIntLit false t none) ys with
                | none => simp [hy, hys] at h
                | some ws' =>
                  rcases List.mem_cons.1 hmem with h1 | h1
                  · subst h1; rw [hp] at hy; cases hy
                  · exact ih ws' hys h1
          exact hall _ _ hm hx
      obtain ⟨n, hp⟩ := this
      refine ⟨n, (mapOpt_mem _ _ _ hm n).2 ⟨x, hx, hp⟩, ?_⟩
      rw [leaf_true_iff lower item path 13 _ v .int (.int n) .eq hd (by simp [litOperand, hp]) (by decide)] at ht
      simpa [apply, intOp] using ht

/-! ### decimals -/

theorem cmpFin_swap_eq (n1 : Bool) (m1 : Nat) (e1 : Int) (n2 : Bool) (m2 : Nat) (e2 : Int) :
    (F64.cmpFin n1 m1 e1 n2 m2 e2 == .eq) = (F64.cmpFin n2 m2 e2 n1 m1 e1 == .eq) := by
  unfold F64.cmpFin
  simp only [Int.min_comm e2 e1]
  generalize (if n1 = true then -(m1 : Int) else m1) * 2 ^ (e1 - min e1 e2).toNat = a
  generalize (if n2 = true then -(m2 : Int) else m2) * 2 ^ (e2 - min e1 e2).toNat = b
  rcases Int.lt_trichotomy a b with h | h | h
  · simp [Int.compare_eq_lt.2 h, Int.compare_eq_gt.2 h]
  · subst h; simp
  · simp [Int.compare_eq_lt.2 h, Int.compare_eq_gt.2 h]

theorem F64_eq_comm (a b : F64) : F64.eq a b = F64.eq b a := by
  cases a <;> cases b <;> simp only [F64.eq]
  · exact Bool.beq_comm
  · exact cmpFin_swap_eq _ _ _ _ _ _

/-- **C08 for decimal lists.** -/
theorem C08_floats (lower : Bytes → Bytes) (item : List (Bytes × Value)) (path : List String) (xs : List String)
    (vs : List F64) (hm : mapOpt parseFloatLit xs = some vs) (v : Value) (hd : denote item path = .ok v) :
    (leafOut lower item (.compare path 12 (.list DOUBLE xs))).res = .verdict true ↔
      ∃ x ∈ xs, (leafOut lower item (.compare path 13 (.double x))).res = .verdict true := by
  cases xs with
  | nil =>
    simp only [leafOut, hd, litOperand, cmpOfKind, apply, floatOp, INT, DOUBLE]
    cases toFloatL v <;> simp
  | cons x0 rest =>
    have hl : litOperand (.list DOUBLE (x0 :: rest)) = some (.float, .floats vs) := by
      simp [litOperand, hm, INT, DOUBLE]
    rw [leaf_true_iff lower item path 12 _ v .float (.floats vs) .in_ hd hl (by decide)]
    have key : ∀ x ∈ (x0 :: rest), ∃ f, parseFloatLit x = some f := by
      intro x hx
      have hall : ∀ (ys : List String) (ws : List F64), mapOpt parseFloatLit ys = some ws → x ∈ ys → ∃ f, parseFloatLit x = some f := by
        intro ys
        induction ys with
        | nil => intro ws _ hmem; cases hmem
        | cons y ys ih =>
          intro ws h hmem
          simp only [mapOpt] at h
          cases hy : parseFloatLit y with
          | none => simp [hy] at h
          | some w =>
            cases hys : mapOpt parseFloatLit ys with
            | none => simp [hy, hys] at h
            | some ws' =>
              rcases List.mem_cons.1 hmem with h1 | h1
              · subst h1; exact ⟨w, hy⟩
              · exact ih ws' hys h1
      exact hall _ _ hm hx
    simp only [apply, floatOp]
    cases hv : toFloatL v with
    | none =>
      simp only [okTrue]
      constructor
      · intro h; simp at h
      · rintro ⟨x, hx, ht⟩
        obtain ⟨f, hf⟩ := key x hx
        rw [leaf_true_iff lower item path 13 _ v .float (.float f) .eq hd (by simp [litOperand, hf]) (by decide)] at ht
        simp only [apply, floatOp, floatRelOp, hv] at ht
        obtain ⟨c, hc⟩ := ht
        cases v <;> simp at hc
    | some l =>
      have hnn : v.isNull = false := by cases v <;> simp_all [toFloatL, Value.isNull]
      constructor
      · rintro ⟨c, hc⟩
        simp only [OpRes.ok.injEq, List.any_eq_true] at hc
        obtain ⟨⟨r, hr, he⟩, _⟩ := hc
        obtain ⟨x, hx, hp⟩ := (mapOpt_mem _ _ _ hm r).1 hr
        refine ⟨x, hx, ?_⟩
        rw [leaf_true_iff lower item path 13 _ v .float (.float r) .eq hd (by simp [litOperand, hp]) (by decide)]
        refine ⟨[], ?_⟩
        simp only [apply, floatOp, floatRelOp, hv, toFloatR, floatRel]
        cases v <;> simp_all [F64_eq_comm, Value.isNull]
      · rintro ⟨x, hx, ht⟩
        obtain ⟨f, hf⟩ := key x hx
        rw [leaf_true_iff lower item path 13 _ v .float (.float f) .eq hd (by simp [litOperand, hf]) (by decide)] at ht
        obtain ⟨c, hc⟩ := ht
        simp only [apply, floatOp, floatRelOp, hv, toFloatR, floatRel] at hc
        refine ⟨[], ?_⟩
        simp only [OpRes.ok.injEq, List.any_eq_true, and_true]
        refine ⟨f, (mapOpt_mem _ _ _ hm f).2 ⟨x, hx, hf⟩, ?_⟩
        cases v <;> simp_all [F64_eq_comm, Value.isNull]

/-! ### strings -/

theorem strEq_isOk_indep (lower : Bytes → Bytes) (v : Value) (a b : Bytes) :
    isOk (strRelOp lower .eq v (.str a)) → isOk (strRelOp lower .eq v (.str b)) := by
  unfold isOk strRelOp
  cases v <;> simp [getStringL, getStringR]
  rename_i id beh
  cases beh <;> simp

theorem addCalls_okTrue (pre : List Nat) (r : OpRes) : okTrue (r.addCalls pre) ↔ okTrue r := by
  unfold okTrue OpRes.addCalls
  cases r <;> simp

theorem strInLoop_true_iff (lower : Bytes → Bytes) (v : Value) (vs : List Bytes) :
    okTrue (strInLoop lower v vs) ↔ ∃ s ∈ vs, okTrue (strRelOp lower .eq v (.str s)) := by
  induction vs with
  | nil => simp [strInLoop, okTrue]
  | cons s rest ih =>
    simp only [strInLoop, List.mem_cons, exists_eq_or_imp]
    cases hr : strRelOp lower .eq v (.str s) with
    | ok b c =>
      cases b with
      | true => simp [okTrue]
      | false => simp only [addCalls_okTrue, ih]; simp [okTrue]
    | err e c =>
      simp only [okTrue]
      constructor
      · intro h; simp at h
      · rintro (h | ⟨m, _, hm⟩)
        · simp at h
        · obtain ⟨b, c', hb⟩ := strEq_isOk_indep lower v m s ⟨_, _, hm.choose_spec⟩
          rw [hr] at hb; cases hb
    | panic c =>
      simp only [okTrue]
      constructor
      · intro h; simp at h
      · rintro (h | ⟨m, _, hm⟩)
        · simp at h
        · obtain ⟨b, c', hb⟩ := strEq_isOk_indep lower v m s ⟨_, _, hm.choose_spec⟩
          rw [hr] at hb; cases hb

/-- **C08 for string lists** (case-insensitive like `eq`, through the same `get`). -/
theorem C08_strs (lower : Bytes → Bytes) (item : List (Bytes × Value)) (path : List String) (xs : List String)
    (v : Value) (hd : denote item path = .ok v) :
    (leafOut lower item (.compare path 12 (.list STRING xs))).res = .verdict true ↔
      ∃ x ∈ xs, (leafOut lower item (.compare path 13 (.str x))).res = .verdict true := by
  cases xs with
  | nil => simp [leafOut, hd, litOperand, cmpOfKind, apply, stringOp, INT, DOUBLE, STRING]
  | cons x0 rest =>
    have hl : litOperand (.list STRING (x0 :: rest)) = some (.string, .strs ((x0 :: rest).map getStringLit)) := by
      simp [litOperand, INT, DOUBLE, STRING]
    rw [leaf_true_iff lower item path 12 _ v .string _ .in_ hd hl (by decide)]
    simp only [apply, stringOp, strInLoop_true_iff, List.mem_map]
    constructor
    · rintro ⟨s, ⟨x, hx, rfl⟩, ht⟩
      refine ⟨x, hx, ?_⟩
      rw [leaf_true_iff lower item path 13 _ v .string (.str (getStringLit x)) .eq hd (by simp [litOperand]) (by decide)]
      simpa [apply, stringOp] using ht
    · rintro ⟨x, hx, ht⟩
      rw [leaf_true_iff lower item path 13 _ v .string (.str (getStringLit x)) .eq hd (by simp [litOperand]) (by decide)] at ht
      exact ⟨getStringLit x, ⟨x, hx, rfl⟩, by simpa [apply, stringOp] using ht⟩

/-- order and repetition of the elements do not matter (string lists; the others are the same one-liner) -/
theorem C08_perm (lower : Bytes → Bytes) (item : List (Bytes × Value)) (path : List String) (xs ys : List String)
    (v : Value) (hd : denote item path = .ok v) (h : ∀ x, x ∈ xs ↔ x ∈ ys) :
    (leafOut lower item (.compare path 12 (.list STRING xs))).res = .verdict true ↔
    (leafOut lower item (.compare path 12 (.list STRING ys))).res = .verdict true := by
  rw [C08_strs lower item path xs v hd, C08_strs lower item path ys v hd]
  constructor
  · rintro ⟨x, hx, ht⟩; exact ⟨x, (h x).1 hx, ht⟩
  · rintro ⟨x, hx, ht⟩; exact ⟨x, (h x).2 hx, ht⟩

/-- `in` never fails (supported operator) on a list literal -/
example : (leafOut id [(bytesOf "x", .float (F64.ofInt 1))] (.compare ["x"] 12 (.list INT ["1", "2"]))).res = .verdict true := by
  decide +kernel
example : (leafOut id [] (.compare ["x"] 12 (.list INT ["1", "2"]))).res = .verdict false := by decide +kernel

end Rules
