import RulesModel.Proofs.Refine
/-!
# C09 — Version literals compare by semantic-version precedence

`Sv.parse` / `Version.cmp` transcribe blang/semver v3.5.1 `Parse` / `Compare` (validated against the library by the
correspondence on every run). Here:
* `good_version`        : `Version.cmp` is a total preorder in three-way form (swap-antisymmetric, `lt`-transitive,
                          `eq`-congruent) – via `good_pair`, `good_lex` and `good_preCmp`;
* `cmp_major_lt`, `cmp_minor_lt`, `cmp_patch_lt` : components compare numerically (so 1.10.0 > 1.9.0);
* `pre_lt_release`      : a pre-release sorts below its release;  `build_ignored` : build metadata is ignored;
* `C09_precedence_u64`  : a comparison with a version literal, on a string attribute that parses, is `verRel op` of that
                          precedence (components < 2^64 – beyond that the library rejects the string: known finding);
* `C09_other`           : any other attribute value makes all six operators false without error.
-/
namespace Rules.Sv

/-- lexicographic combination of two three-way comparisons -/
def pairCmp {α β} (c1 : α → α → Ordering) (c2 : β → β → Ordering) (x y : α × β) : Ordering :=
  match c1 x.1 y.1 with
  | .eq => c2 x.2 y.2
  | o => o

theorem good_pair {α β} (c1 : α → α → Ordering) (c2 : β → β → Ordering) (g1 : Good c1) (g2 : Good c2) :
    Good (pairCmp c1 c2) where
  swap a b := by
    simp only [pairCmp]
    rw [g1.swap a.1 b.1]
    cases h : c1 a.1 b.1 <;> simp [Ordering.swap, g2.swap a.2 b.2]
  trans_lt a b d h1 h2 := by
    simp only [pairCmp] at *
    cases hab : c1 a.1 b.1 with
    | gt => simp [hab] at h1
    | lt =>
      cases hbd : c1 b.1 d.1 with
      | gt => simp [hbd] at h2
      | lt => rw [g1.trans_lt _ _ _ hab hbd]
      | eq =>
        have := g1.eq_trans_l b.1 d.1 a.1 hbd
        rw [g1.swap a.1 b.1, g1.swap a.1 d.1, hab] at this
        have hxz : c1 a.1 d.1 = .lt := by cases h : c1 a.1 d.1 <;> simp_all [Ordering.swap]
        rw [hxz]
    | eq =>
      simp only [hab] at h1
      rw [← g1.eq_trans_l a.1 b.1 d.1 hab]
      cases hbd : c1 b.1 d.1 with
      | gt => simp [hbd] at h2
      | lt => rfl
      | eq => simp only [hbd] at h2 ⊢; exact g2.trans_lt _ _ _ h1 h2
  eq_trans_l a b d h := by
    simp only [pairCmp] at *
    cases hab : c1 a.1 b.1 with
    | lt => simp [hab] at h
    | gt => simp [hab] at h
    | eq =>
      simp only [hab] at h
      rw [g1.eq_trans_l a.1 b.1 d.1 hab]
      cases c1 a.1 d.1 <;> simp [g2.eq_trans_l a.2 b.2 d.2 h]

theorem cmpBytes_eq_lex (a b : List Nat) : cmpBytes a b = lexCmp compare a b := by
  induction a generalizing b with
  | nil => cases b <;> rfl
  | cons x xs ih =>
    cases b with
    | nil => rfl
    | cons y ys =>
      simp only [cmpBytes, lexCmp]
      rcases Nat.lt_trichotomy x y with h | h | h
      · simp [h, Nat.compare_eq_lt.2 h]
      · subst h; simp [ih]
      · have : ¬ x < y := by omega
        simp [this, h, Nat.compare_eq_gt.2 h]

theorem good_cmpBytes : Good cmpBytes := by
  have : cmpBytes = lexCmp compare := by funext a b; exact cmpBytes_eq_lex a b
  rw [this]; exact good_lex _ good_nat

theorem good_ident : Good Ident.cmp where
  swap a b := by
    cases a <;> cases b <;> simp only [Ident.cmp, Ordering.swap]
    · exact good_nat.swap _ _
    · exact good_cmpBytes.swap _ _
  trans_lt a b d h1 h2 := by
    cases a <;> cases b <;> cases d <;> simp_all [Ident.cmp]
    all_goals first | exact good_nat.trans_lt _ _ _ h1 h2 | exact good_cmpBytes.trans_lt _ _ _ h1 h2
  eq_trans_l a b d h := by
    cases a <;> cases b <;> cases d <;> simp_all [Ident.cmp]
    all_goals first | exact good_nat.eq_trans_l _ _ _ h | exact good_cmpBytes.eq_trans_l _ _ _ h

theorem cmpPre_eq_lex (a b : List Ident) : cmpPre a b = lexCmp Ident.cmp a b := by
  induction a generalizing b with
  | nil => cases b <;> rfl
  | cons x xs ih =>
    cases b with
    | nil => rfl
    | cons y ys => simp only [cmpPre, lexCmp]; cases Ident.cmp x y <;> simp [ih]

theorem good_cmpPre : Good cmpPre := by
  have : cmpPre = lexCmp Ident.cmp := by funext a b; exact cmpPre_eq_lex a b
  rw [this]; exact good_lex _ good_ident

/-- pre-release lists with "no pre-release" (a release) as the greatest element -/
def preCmp : List Ident → List Ident → Ordering
  | [], [] => .eq
  | [], _ :: _ => .gt
  | _ :: _, [] => .lt
  | a, b => cmpPre a b

theorem good_preCmp : Good preCmp where
  swap a b := by
    cases a <;> cases b <;> simp only [preCmp, Ordering.swap]
    exact good_cmpPre.swap _ _
  trans_lt a b d h1 h2 := by
    cases a <;> cases b <;> cases d <;> simp_all [preCmp]
    exact good_cmpPre.trans_lt _ _ _ h1 h2
  eq_trans_l a b d h := by
    cases a <;> cases b <;> cases d <;> simp_all [preCmp]
    exact good_cmpPre.eq_trans_l _ _ _ h

def key (v : Version) : Nat × Nat × Nat × List Ident := (v.major, v.minor, v.patch, v.pre)

theorem natIf (a b : Nat) (X : Ordering) :
    (if a ≠ b then compare a b else X) = (match compare a b with | .eq => X | o => o) := by
  rcases Nat.lt_trichotomy a b with h | h | h
  · have : a ≠ b := by omega
    simp [this, Nat.compare_eq_lt.2 h]
  · subst h; simp
  · have : a ≠ b := by omega
    simp [this, Nat.compare_eq_gt.2 h]

theorem cmp_eq_pair (v o : Version) :
    v.cmp o = pairCmp compare (pairCmp compare (pairCmp compare preCmp)) (key v) (key o) := by
  simp only [Version.cmp, key, pairCmp, natIf]
  cases compare v.major o.major <;> simp only []
  cases compare v.minor o.minor <;> simp only []
  cases compare v.patch o.patch <;> simp only []
  cases v.pre <;> cases o.pre <;> rfl

/-- **`Compare` is a total preorder** (in the three-way form; build metadata does not take part) -/
theorem good_version : Good Version.cmp := by
  have g := good_pair compare (pairCmp compare (pairCmp compare preCmp)) good_nat
    (good_pair compare (pairCmp compare preCmp) good_nat (good_pair compare preCmp good_nat good_preCmp))
  constructor
  · intro a b; rw [cmp_eq_pair, cmp_eq_pair]; exact g.swap _ _
  · intro a b d h1 h2; simp only [cmp_eq_pair] at *; exact g.trans_lt _ _ _ h1 h2
  · intro a b d h; simp only [cmp_eq_pair] at *; exact g.eq_trans_l _ _ _ h

theorem cmp_major_lt (v o : Version) (h : v.major < o.major) : v.cmp o = .lt := by
  have : v.major ≠ o.major := by omega
  simp [Version.cmp, this, Nat.compare_eq_lt.2 h]

theorem cmp_minor_lt (v o : Version) (h0 : v.major = o.major) (h : v.minor < o.minor) : v.cmp o = .lt := by
  have : v.minor ≠ o.minor := by omega
  simp [Version.cmp, h0, this, Nat.compare_eq_lt.2 h]

theorem cmp_patch_lt (v o : Version) (h0 : v.major = o.major) (h1 : v.minor = o.minor) (h : v.patch < o.patch) :
    v.cmp o = .lt := by
  have : v.patch ≠ o.patch := by omega
  simp [Version.cmp, h0, h1, this, Nat.compare_eq_lt.2 h]

/-- a pre-release sorts below its release -/
theorem pre_lt_release (v : Version) (h : v.pre ≠ []) : v.cmp { v with pre := [] } = .lt := by
  simp only [Version.cmp, ne_eq, not_true_eq_false, if_false]
  cases hp : v.pre with
  | nil => exact absurd hp h
  | cons x xs => rfl

/-- build metadata is ignored -/
theorem build_ignored (v o : Version) (b1 b2 : List (List Nat)) :
    ({ v with build := b1 } : Version).cmp { o with build := b2 } = v.cmp o := rfl

end Rules.Sv

namespace Rules
open Rules.P (Tree Lit Kind)

/-- **C09.** String attribute holding a semantic version (components < 2^64) against a version literal -/
theorem C09_precedence_u64 (lower : Bytes → Bytes) (op : CmpOp) (hop : isRelational op = true) (a r : Bytes)
    (va vr : Sv.Version) (ha : Sv.parse (natBytes a) = some va) (hr : Sv.parse (natBytes r) = some vr) :
    apply lower .version op (.str a) (.str r) = .ok (verRel op (va.cmp vr)) [] := by
  cases op <;> simp [isRelational] at hop <;> simp [apply, versionOp, getStringR, ha, hr]

/-- anything else – absent, not a Go string (a Stringer included), or a string that is not a semantic version –
makes all six relational operators false, without error -/
theorem C09_other (lower : Bytes → Bytes) (op : CmpOp) (hop : isRelational op = true) (left : Value) (r : Bytes)
    (h : ∀ a, left = .str a → Sv.parse (natBytes a) = none) :
    ∃ e, apply lower .version op left (.str r) = .err e [] ∧ e ≠ .invalidOperation := by
  cases op <;> simp [isRelational] at hop <;>
    (cases left <;> simp_all [apply, versionOp, getStringR])

/-- the six operators on a precedence result -/
theorem verRel_laws (o : Ordering) :
    verRel .ne o = !verRel .eq o ∧ verRel .le o = (verRel .lt o || verRel .eq o) ∧ verRel .ge o = (verRel .gt o || verRel .eq o) := by
  cases o <;> decide

def sv (s : String) : Option Sv.Version := Sv.parse (natBytes (bytesOf s))

/-- the statement's examples: numeric components, pre-release below release, build ignored, near-misses rejected -/
example : (do let a ← sv "1.10.0"; let b ← sv "1.9.0"; pure (a.cmp b)) = some .gt := by decide +kernel
example : (do let a ← sv "1.0.0-beta"; let b ← sv "1.0.0"; pure (a.cmp b)) = some .lt := by decide +kernel
example : (do let a ← sv "1.0.0+build.5"; let b ← sv "1.0.0"; pure (a.cmp b)) = some .eq := by decide +kernel
example : sv "1.0" = none ∧ sv "v1.0.0" = none ∧ sv "1.0.0." = none ∧ sv "01.0.0" = none ∧ sv "1.0.0-" = none := by
  decide +kernel
example : sv "18446744073709551616.0.0" = none ∧ (sv "18446744073709551615.0.0").isSome = true := by decide +kernel

end Rules
