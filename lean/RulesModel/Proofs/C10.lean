import RulesModel.Proofs.Refine
/-!
# C10 — Presence, null and boolean literals mean what they say

For every path (any length) and every attribute value, with `v = denote item path` (null = absent or explicit nil):
* `C10_pr`       : `p pr` is true iff `v` is not null (so `false`, `0`, `""`, `{}` and a typed nil pointer are present);
* `C10_null_eq` / `C10_null_ne` : `p eq null` is true iff `v` is null, `p ne null` is its complement;
* `C10_bool`     : `p eq b` is true iff `v` is the Go bool `b`, `p ne b` iff `v` is the Go bool `!b`;
                   for absent or non-bool attributes both are false; never an error.
Stated on `leafOut`; `processTree_eq`/`C02_locality` carry them to `Process` and into compound rules.
-/
namespace Rules
open Rules.P (Tree Lit Kind)

theorem C10_pr (lower : Bytes → Bytes) (item : List (Bytes × Value)) (path : List String) (v : Value)
    (h : denote item path = .ok v) :
    leafOut lower item (.present path) = ⟨.verdict (!v.isNull), none, []⟩ := by
  simp [leafOut, h]

theorem C10_null_eq (lower : Bytes → Bytes) (item : List (Bytes × Value)) (path : List String) (v : Value)
    (h : denote item path = .ok v) :
    leafOut lower item (.compare path 13 .null) = ⟨.verdict v.isNull, none, []⟩ := by
  simp [leafOut, h, litOperand, cmpOfKind, apply, nullOp]

theorem C10_null_ne (lower : Bytes → Bytes) (item : List (Bytes × Value)) (path : List String) (v : Value)
    (h : denote item path = .ok v) :
    leafOut lower item (.compare path 14 .null) = ⟨.verdict (!v.isNull), none, []⟩ := by
  simp [leafOut, h, litOperand, cmpOfKind, apply, nullOp]

def isBoolValue (v : Value) (b : Bool) : Bool := match v with | .bool x => x == b | _ => false

def boolText (b : Bool) : String := if b then "true" else "false"

theorem C10_bool (lower : Bytes → Bytes) (item : List (Bytes × Value)) (path : List String) (v : Value) (b : Bool)
    (h : denote item path = .ok v) :
    (leafOut lower item (.compare path 13 (.bool (boolText b)))).res = .verdict (isBoolValue v b) ∧
    (leafOut lower item (.compare path 14 (.bool (boolText b)))).res = .verdict (isBoolValue v (!b)) := by
  cases b <;> cases v <;> simp [leafOut, h, litOperand, cmpOfKind, apply, boolOp, boolText, isBoolValue] <;>
    (rename_i x; cases x <;> rfl)

/-- falsy values are present; a typed nil pointer (an `other` value) is present and not null -/
example : (leafOut id [(bytesOf "a", .bool false), (bytesOf "z", .int 0), (bytesOf "s", .str []), (bytesOf "o", .obj []), (bytesOf "t", .other 4)]
    (.present ["a"])).res = .verdict true := by decide +kernel
example : (leafOut id [(bytesOf "a", .obj [(bytesOf "b", .null)])] (.present ["a", "b", "c"])).res = .verdict false := by
  decide +kernel
example : (leafOut id [(bytesOf "t", .other 4)] (.compare ["t"] 13 .null)).res = .verdict false := by decide +kernel

end Rules
