import RulesModel.Proofs.Refine
/-!
# C11 — A parsed evaluator can be reused: verdicts do not depend on history

The evaluator is the state machine `stepWith` over `{tree, lastDebug}`; `Process` builds a fresh visitor, so the only
state a call can leave behind is `lastDebug`. For **every** finite history of `Process / Reset / LastDebugErr` calls
(induction over the list) and every way `pf` of evaluating a tree (so the statement does not depend on what the
comparisons do):
* `C11_tree_invariant` : the parse tree never changes;
* `C11_history`        : the answer of a `Process` call after any history is the answer of a fresh evaluator;
* `C11_lastDebug`      : `LastDebugErr` after a history = diagnostic of the most recent `Process`, nil after `Reset`
                         or when there was none.
Parser caches (cold/warm) are outside the model: creation has no shared state in it; that part is correspondence only.
-/
namespace Rules
open Rules.P (Tree Kind)

def runState (pf : Tree → List (Bytes × Value) → ProcOut) (e : Evaluator) : List ApiOp → Evaluator
  | [] => e
  | op :: ops => runState pf (stepWith pf e op).1 ops

theorem C11_tree_invariant (pf : Tree → List (Bytes × Value) → ProcOut) (e : Evaluator) (ops : List ApiOp) :
    (runState pf e ops).tree = e.tree := by
  induction ops generalizing e with
  | nil => rfl
  | cons op ops ih =>
    simp only [runState]
    rw [ih]
    cases op with
    | process item => simp only [stepWith, Evaluator.processWith]; cases e.tree <;> rfl
    | reset => rfl
    | lastDebug => rfl

/-- what `Process item` returns depends on the tree only -/
theorem processWith_out (pf : Tree → List (Bytes × Value) → ProcOut) (e e' : Evaluator) (h : e.tree = e'.tree)
    (item : List (Bytes × Value)) : (e.processWith pf item).2 = (e'.processWith pf item).2 := by
  unfold Evaluator.processWith
  rw [h]

/-- **C11.** After any history, `Process` returns exactly what a freshly created evaluator returns. -/
theorem C11_history (pf : Tree → List (Bytes × Value) → ProcOut) (rules : List (Kind × Regex)) (text : List Char)
    (ops : List ApiOp) (item : List (Bytes × Value)) :
    ((runState pf (newEvaluator rules text) ops).processWith pf item).2 =
      ((newEvaluator rules text).processWith pf item).2 :=
  processWith_out pf _ _ (C11_tree_invariant pf _ ops) item

/-- the diagnostic the latest `Process` of a history produced (none if the history ends with a `Reset` or has no `Process`) -/
def latestDebug (pf : Tree → List (Bytes × Value) → ProcOut) (e : Evaluator) : List ApiOp → Option Dbg → Option Dbg
  | [], acc => acc
  | .process item :: ops, _ => latestDebug pf e ops (e.processWith pf item).2.debug
  | .reset :: ops, _ => latestDebug pf e ops none
  | .lastDebug :: ops, acc => latestDebug pf e ops acc

theorem processWith_lastDebug (pf : Tree → List (Bytes × Value) → ProcOut) (e : Evaluator) (item : List (Bytes × Value)) :
    (e.processWith pf item).1.lastDebug = (e.processWith pf item).2.debug ∧ (e.processWith pf item).1.tree = e.tree := by
  unfold Evaluator.processWith
  cases e.tree <;> simp [syntaxOut]

theorem C11_lastDebug_gen (pf : Tree → List (Bytes × Value) → ProcOut) (e0 e : Evaluator) (h : e.tree = e0.tree)
    (ops : List ApiOp) : (runState pf e ops).lastDebug = latestDebug pf e0 ops e.lastDebug := by
  induction ops generalizing e with
  | nil => rfl
  | cons op ops ih =>
    cases op with
    | process item =>
      simp only [runState, stepWith, latestDebug]
      have hp := processWith_lastDebug pf e item
      rw [ih _ (by rw [hp.2, h]), hp.1, processWith_out pf e e0 h item]
    | reset =>
      simp only [runState, stepWith, latestDebug]
      rw [ih _ (by simpa using h)]
    | lastDebug =>
      simp only [runState, stepWith, latestDebug]
      rw [ih _ h]

/-- `LastDebugErr` describes only the most recent `Process` call and is nil after `Reset` -/
theorem C11_lastDebug (pf : Tree → List (Bytes × Value) → ProcOut) (rules : List (Kind × Regex)) (text : List Char) (ops : List ApiOp) :
    (runState pf (newEvaluator rules text) ops).lastDebug =
      latestDebug pf (newEvaluator rules text) ops none :=
  C11_lastDebug_gen pf _ _ rfl ops

theorem C11_after_reset (pf : Tree → List (Bytes × Value) → ProcOut) (e : Evaluator) (ops : List ApiOp) :
    (runState pf e (ops ++ [.reset])).lastDebug = none := by
  induction ops generalizing e with
  | nil => simp [runState, stepWith]
  | cons op ops ih => simp only [List.cons_append, runState]; exact ih _

end Rules
