/-!
# C12 — Evaluators on different goroutines do not interfere      (PARTIAL: logic of non-interference only)

Model (DESIGN §3.11): goroutines own their evaluator values (private state: the calls still to make, an in-flight
call, the results obtained so far); the only shared state is a memo standing for the ANTLR DFA / prediction-context
caches behind `sync.Once`. A call is two atomic steps that other goroutines may interleave with arbitrarily:
`begin` (read the memo, on a miss compute) and `commit` (publish the entry, return the result).
`f k` is what call `k` returns when run alone (for the engine: `processTree` of that rule on that object).

* `C12_interleave_partial` : for **every** schedule, if the memo starts transparent (every entry is what
  recomputation yields) then it stays transparent and every goroutine has obtained, for each call it completed,
  exactly `f` of that call, in program order.
* The premise that hand-written code has no package-level mutable state, no goroutines and no sync primitives of its
  own is the tie `RulesModel/Tie/PkgState.lean`, re-extracted from the Go source on every run.

What this model cannot exhibit: Go-memory-model data races, torn reads, the locking inside the ANTLR runtime. Those are
observed only dynamically (race detector, fresh processes) – hence the level `other`.
-/
namespace Rules.Conc

structure Thread where
  todo : List Nat                    -- calls still to make (keys)
  inflight : Option (Nat × Nat)      -- call begun but not committed: key and computed result
  done : List (Nat × Nat)            -- completed calls: key and result, oldest first
  deriving Repr

structure State where
  memo : List (Nat × Nat)
  threads : List Thread
  deriving Repr

def lookup (k : Nat) : List (Nat × Nat) → Option Nat
  | [] => none
  | (k', v) :: rest => if k' = k then some v else lookup k rest

/-- one atomic step of one goroutine -/
def stepThread (f : Nat → Nat) (memo : List (Nat × Nat)) (t : Thread) : List (Nat × Nat) × Thread :=
  match t.inflight with
  | some (k, v) => ((k, v) :: memo, { t with inflight := none, done := t.done ++ [(k, v)] })      -- commit
  | none =>
    match t.todo with
    | [] => (memo, t)
    | k :: rest =>
      let v := match lookup k memo with | some v => v | none => f k                                -- begin
      (memo, { t with todo := rest, inflight := some (k, v) })

def stepAt (f : Nat → Nat) (st : State) (i : Nat) : State :=
  match st.threads[i]? with
  | none => st
  | some t =>
    let (m, t') := stepThread f st.memo t
    { memo := m, threads := st.threads.set i t' }

def run (f : Nat → Nat) : State → List Nat → State
  | st, [] => st
  | st, i :: sched => run f (stepAt f st i) sched

/-- every entry of the memo is what recomputation yields -/
def Transparent (f : Nat → Nat) (memo : List (Nat × Nat)) : Prop := ∀ kv ∈ memo, kv.2 = f kv.1

def ThreadOK (f : Nat → Nat) (t : Thread) : Prop :=
  (∀ kv ∈ t.done, kv.2 = f kv.1) ∧ (∀ kv, t.inflight = some kv → kv.2 = f kv.1)

def Inv (f : Nat → Nat) (st : State) : Prop := Transparent f st.memo ∧ ∀ t ∈ st.threads, ThreadOK f t

theorem lookup_transparent (f : Nat → Nat) (memo : List (Nat × Nat)) (h : Transparent f memo) (k v : Nat)
    (hl : lookup k memo = some v) : v = f k := by
  induction memo with
  | nil => simp [lookup] at hl
  | cons kv rest ih =>
    obtain ⟨k', v'⟩ := kv
    simp only [lookup] at hl
    by_cases hk : k' = k
    · simp only [hk, if_true, Option.some.injEq] at hl
      have := h (k', v') (by simp)
      simp only at this
      rw [← hl, this, hk]
    · simp only [hk, if_false] at hl
      exact ih (fun x hx => h x (by simp [hx])) hl

theorem stepThread_inv (f : Nat → Nat) (memo : List (Nat × Nat)) (t : Thread) (hm : Transparent f memo) (ht : ThreadOK f t) :
    Transparent f (stepThread f memo t).1 ∧ ThreadOK f (stepThread f memo t).2 := by
  unfold stepThread
  cases hi : t.inflight with
  | some kv =>
    obtain ⟨k, v⟩ := kv
    have hv := ht.2 (k, v) hi
    refine ⟨?_, ?_, ?_⟩
    · intro x hx
      rcases List.mem_cons.1 hx with h | h
      · subst h; exact hv
      · exact hm x h
    · intro x hx
      rcases List.mem_append.1 hx with h | h
      · exact ht.1 x h
      · simp at h; subst h; exact hv
    · intro x hx; simp at hx
  | none =>
    cases hd : t.todo with
    | nil => exact ⟨hm, ht⟩
    | cons k rest =>
      refine ⟨hm, ht.1, ?_⟩
      intro x hx
      simp only [Option.some.injEq] at hx
      subst hx
      cases hl : lookup k memo with
      | some v => exact lookup_transparent f memo hm k v hl
      | none => rfl

theorem stepAt_inv (f : Nat → Nat) (st : State) (i : Nat) (h : Inv f st) : Inv f (stepAt f st i) := by
  unfold stepAt
  cases hg : st.threads[i]? with
  | none => exact h
  | some t =>
    have ht : t ∈ st.threads := List.mem_of_getElem? hg
    have := stepThread_inv f st.memo t h.1 (h.2 t ht)
    refine ⟨this.1, ?_⟩
    intro t' ht'
    rcases List.mem_or_eq_of_mem_set ht' with h1 | h1
    · exact h.2 t' h1
    · subst h1; exact this.2

/-- **Non-interference under every interleaving.** -/
theorem C12_interleave_partial (f : Nat → Nat) (st : State) (sched : List Nat) (h : Inv f st) :
    Inv f (run f st sched) := by
  induction sched generalizing st with
  | nil => exact h
  | cons i rest ih => exact ih _ (stepAt_inv f st i h)

/-- every completed call of every goroutine returned what it returns when run alone -/
theorem C12_results (f : Nat → Nat) (progs : List (List Nat)) (sched : List Nat) :
    ∀ t ∈ (run f { memo := [], threads := progs.map fun p => { todo := p, inflight := none, done := [] } } sched).threads,
      ∀ kv ∈ t.done, kv.2 = f kv.1 := by
  have h0 : Inv f { memo := [], threads := progs.map fun p => ({ todo := p, inflight := none, done := [] } : Thread) } := by
    refine ⟨fun x hx => by simp at hx, ?_⟩
    intro t ht
    obtain ⟨p, _, rfl⟩ := List.mem_map.1 ht
    exact ⟨fun x hx => by simp at hx, fun x hx => by simp at hx⟩
  intro t ht
  exact ((C12_interleave_partial f _ sched h0).2 t ht).1

/-- non-vacuity: two goroutines, interleaved begin/commit steps on the same key -/
example : ((run (fun k => k * k) { memo := [], threads := [⟨[3, 4], none, []⟩, ⟨[3], none, []⟩] } [0, 1, 0, 1, 0, 0]).threads.map (·.done))
    = [[(3, 9), (4, 16)], [(3, 9)]] := by decide

end Rules.Conc
