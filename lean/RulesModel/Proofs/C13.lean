import RulesModel.Proofs.Refine
/-!
# C13 — Evaluation never modifies the input object   (partial: see below)

Model values are immutable, so an in-place write into a Go map cannot be expressed; what the model *can* exclude is
that the visitor replaces or normalises what it was given:
* `C13_frame`  : whatever happens (verdict, failure), the visitor's `item` register is the object it was given;
* `C13_reads_subvalues` : the value `VisitAttrPath` hands to a comparison is a sub-value of the input object.
Aliasing writes are covered only by the deep-snapshot correspondence of the harness (level `other`).
-/
namespace Rules
open Rules.P (Tree Lit Kind)

theorem visitAttrPath_item (s : VState) (path : List String) (s' : VState) (h : visitAttrPath s path = .ok s') :
    s'.item = s.item := by
  induction path generalizing s with
  | nil => simp [visitAttrPath] at h; subst h; rfl
  | cons k ks ih =>
    cases ks with
    | nil =>
      simp only [visitAttrPath] at h
      split at h <;> simp at h <;> (subst h; rfl)
    | cons k' ks' =>
      simp only [visitAttrPath] at h
      split at h
      · simp at h; subst h; rfl
      · have := ih _ h; exact this
      · simp at h

theorem visitSubInts_item (xs : List String) : ∀ (s s' : VState), visitSubInts s xs = .ok s' → s'.item = s.item := by
  induction xs with
  | nil => intro s s' h; simp [visitSubInts] at h; subst h; rfl
  | cons t rest ih =>
    intro s s' h
    simp only [visitSubInts] at h
    split at h
    · split at h
      · simp at h; subst h; split <;> rfl
      · have := ih _ _ h; rw [this]; split <;> rfl
    · simp at h

theorem visitSubFloats_item (xs : List String) : ∀ (s s' : VState), visitSubFloats s xs = .ok s' → s'.item = s.item := by
  induction xs with
  | nil => intro s s' h; simp [visitSubFloats] at h; subst h; rfl
  | cons t rest ih =>
    intro s s' h
    simp only [visitSubFloats] at h
    split at h
    · split at h
      · simp at h; subst h; split <;> rfl
      · have := ih _ _ h; rw [this]; split <;> rfl
    · simp at h

theorem visitSubStrs_item (xs : List String) : ∀ (s s' : VState), visitSubStrs s xs = .ok s' → s'.item = s.item := by
  induction xs with
  | nil => intro s s' h; simp [visitSubStrs] at h; subst h; rfl
  | cons t rest ih =>
    intro s s' h
    simp only [visitSubStrs] at h
    split at h
    · have := ih _ _ h; rw [this]; split <;> rfl
    · simp at h

theorem visitLit_item (s : VState) (lit : Lit) (s' : VState) (h : visitLit s lit = .ok s') : s'.item = s.item := by
  cases lit with
  | bool t =>
    simp only [visitLit] at h
    by_cases h1 : t = "true"
    · simp [h1] at h; subst h; rfl
    · by_cases h2 : t = "false"
      · simp [h1, h2] at h; subst h; rfl
      · simp [h1, h2] at h; subst h; rfl
  | null => simp [visitLit] at h; subst h; rfl
  | version t => simp [visitLit] at h; subst h; rfl
  | str t => simp [visitLit] at h; subst h; rfl
  | double t => simp only [visitLit] at h; split at h <;> simp at h <;> (subst h; rfl)
  | long n i e => simp only [visitLit] at h; split at h <;> simp at h <;> (subst h; rfl)
  | list k xs =>
    simp only [visitLit] at h
    split at h
    · have := visitSubInts_item xs _ _ h; exact this
    · split at h
      · have := visitSubFloats_item xs _ _ h; exact this
      · have := visitSubStrs_item xs _ _ h; exact this

/-- **Frame.** Visiting never changes which object the visitor looks at. -/
theorem C13_frame (lower : Bytes → Bytes) (t : Tree) : ∀ (s : VState) (b : Bool) (s' : VState),
    visit lower t s = .ok (b, s') → s'.item = s.item := by
  induction t with
  | present path =>
    intro s b s' h
    simp only [visit, visitPresent] at h
    split at h
    · simp at h
    · rename_i s1 h1
      simp at h; rw [← h.2]; exact visitAttrPath_item s path s1 h1
  | compare path k lit =>
    intro s b s' h
    simp only [visit, visitCompare] at h
    split at h
    · simp at h
    · rename_i s1 h1
      have i1 := visitAttrPath_item s path s1 h1
      split at h
      · simp at h
      · rename_i s2 h2
        have i2 := visitLit_item s1 lit s2 h2
        split at h
        · simp at h; rw [← h.2, i2, i1]
        · split at h
          · simp at h; rw [← h.2]; simp [i2, i1]
          · split at h
            · simp at h
            · split at h
              · simp at h
              · simp at h; rw [← h.2]; simp [i2, i1]
              · split at h <;> (simp at h; rw [← h.2]; simp [i2, i1])
  | paren neg q ih =>
    intro s b s' h
    simp only [visit] at h
    split at h
    · simp at h
    · rename_i r s1 h1
      simp at h; rw [← h.2]; exact ih s r s1 h1
  | logical op l r ihl ihr =>
    intro s b s' h
    simp only [visit] at h
    split at h
    · simp at h
    · rename_i a s1 h1
      have i1 := ihl s a s1 h1
      split at h
      · simp at h; rw [← h.2]; exact i1
      · split at h
        · split at h
          · simp at h; rw [← h.2]; exact i1
          · rw [ihr s1 b s' h, i1]
        · split at h
          · simp at h; rw [← h.2]; exact i1
          · rw [ihr s1 b s' h, i1]

theorem denoteV_sub (v : Value) (path : List String) (w : Value) (h : denoteV v path = .ok w) (hn : w.isNull = false) :
    SubValue w v := by
  induction path generalizing v with
  | nil => simp [denoteV] at h; subst h; exact .refl _
  | cons k ks ih =>
    cases v with
    | obj kvs =>
      simp only [denoteV] at h
      have := ih _ h
      -- the looked-up value is an entry of the map (it is not null)
      have hmem : ∀ (l : List (Bytes × Value)) (key : Bytes), SubValue w (Value.get l key) →
          ∃ k' v', (k', v') ∈ l ∧ SubValue w v' := by
        intro l key
        induction l with
        | nil =>
          intro hs
          simp only [Value.get] at hs
          cases hs with
          | refl => simp [Value.isNull] at hn
        | cons kv rest ihl =>
          obtain ⟨k', v'⟩ := kv
          intro hs
          simp only [Value.get] at hs
          split at hs
          · exact ⟨k', v', List.mem_cons_self, hs⟩
          · obtain ⟨k2, v2, hm, hsub⟩ := ihl hs
            exact ⟨k2, v2, List.mem_cons_of_mem _ hm, hsub⟩
      obtain ⟨k2, v2, hm, hsub⟩ := hmem kvs _ this
      exact .step hm hsub
    | null => simp [denoteV] at h; subst h; simp [Value.isNull] at hn
    | _ => simp [denoteV] at h

/-- what a comparison reads is (a part of) the input object -/
theorem C13_reads_subvalues (item : List (Bytes × Value)) (path : List String) (w : Value)
    (h : denote item path = .ok w) (hn : w.isNull = false) : SubValue w (.obj item) := by
  cases path with
  | nil => simp [denote] at h; subst h; simp [Value.isNull] at hn
  | cons k ks => exact denoteV_sub _ _ _ (by simpa [denote] using h) hn

end Rules
