import RulesModel.Proofs.Refine
/-!
# C14 — All entry points give the same answer

In the model the three entry points are the three wrappers of `evaluate.go` (root and parser package); the
theorems are short – the weight of C14 is the side-by-side correspondence on the implementation.
-/
namespace Rules
open Rules.P (Tree Kind)

/-- `rules.Evaluate` = `NewEvaluator` followed by `Process` (verdict and error) -/
theorem C14_rules_evaluate (rules : List (Kind × Regex)) (lower : Bytes → Bytes) (text : List Char) (item : List (Bytes × Value)) :
    rulesEvaluate rules lower text item = ((newEvaluator rules text).process lower item).2 := rfl

/-- `parser.Evaluate` returns that verdict -/
theorem C14_parser_evaluate (rules : List (Kind × Regex)) (lower : Bytes → Bytes) (text : List Char) (item : List (Bytes × Value)) :
    parserEvaluate rules lower text item = (rulesEvaluate rules lower text item).verdict := rfl

/-- whenever an error is reported the verdict is false (Process on any evaluator, hence all entry points) -/
theorem C14_error_false (lower : Bytes → Bytes) (e : Evaluator) (item : List (Bytes × Value)) :
    (e.process lower item).2.err ≠ none → (e.process lower item).2.verdict = false := by
  unfold Evaluator.process Evaluator.processWith
  cases e.tree with
  | none => simp [syntaxOut]
  | some t =>
    simp only [processTree_eq]
    unfold toProc
    cases (evalOut lower item t).res <;> simp

theorem C14_rules_error_false (rules : List (Kind × Regex)) (lower : Bytes → Bytes) (text : List Char) (item : List (Bytes × Value)) :
    (rulesEvaluate rules lower text item).err ≠ none → parserEvaluate rules lower text item = false :=
  C14_error_false lower (newEvaluator rules text) item

end Rules
