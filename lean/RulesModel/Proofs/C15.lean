import RulesModel.Proofs.C20
import RulesModel.Proofs.C17
/-!
# C15 — Spelling, case of operators and permitted whitespace do not change meaning

Token level (all rules, all positions, all combinations at once):
* `C15_texts_irrelevant` : two token sequences that differ only in the *texts* of the tokens whose spelling the
  grammar leaves free (NOT, IN, EQ … EW, SP, COMMA and the punctuation) derive the **same tree** – so eq/EQ/==,
  not/NOT, blanks vs blanks followed by newlines, `,` vs `,   ` cannot change the outcome. (The texts of `and`/`or`,
  names and literals are significant and are not touched.)
* `C15_optional_blanks`  : the four optional blanks of a parenthesised group do not change the tree.
* `C15_redundant_parens` : `( A )` has the outcome of `A` (whole outcome: verdict or failure, diagnostic, Stringer calls),
  hence inside any rule as `evalOut` is compositional; `C15_redundant_parens_process` for `Process`.
Lexer level, checked by the kernel on the table **regenerated from JsonQuery.g4 on this run**:
* `C15_spellings_lex`    : every listed spelling of every token lexes, alone and between blanks, to that token;
* `C15_blank_forms`      : a blank followed by newlines is one SP token, a comma followed by blanks one COMMA token.
Character level for whole rules (`lexParse (render t choices) = t`) is covered by the metamorphic correspondence, not by
a theorem (DESIGN §9).
-/
namespace Rules.P

/-- token kinds whose text does not enter the parse tree -/
def isFree (k : Kind) : Bool := (1 ≤ k && k ≤ 8) || (12 ≤ k && k ≤ 21) || k == 29 || k == 30

/-- forget the spelling of the free tokens -/
def norm (t : Tok) : Tok := if isFree t.kind then ⟨t.kind, ""⟩ else t

theorem norm_free (k : Kind) (s : String) (h : isFree k = true) : norm ⟨k, s⟩ = ⟨k, ""⟩ := by simp [norm, h]
theorem norm_kept (k : Kind) (s : String) (h : isFree k = false) : norm ⟨k, s⟩ = ⟨k, s⟩ := by simp [norm, h]

theorem optTok_norm (k : Kind) (o : Option String) (h : isFree k = true) :
    (optTok k o).map norm = optTok k (o.map fun _ => "") := by
  cases o <;> simp [optTok, norm_free k _ h]

theorem DPath_norm {ps p} (h : DPath ps p) : DPath (ps.map norm) p := by
  induction h with
  | one n => simpa [norm_kept ATTR n (by decide)] using DPath.one n
  | dot n d _ ih =>
    simp only [List.map_cons, norm_kept ATTR n (by decide), norm_free DOT d (by decide)]
    exact DPath.dot n "" ih

theorem DList_norm {k ts xs} (hk : isFree k = false) (h : DList k ts xs) : DList k (ts.map norm) xs := by
  induction h with
  | last t b =>
    simp only [List.map_cons, List.map_nil, norm_kept k t hk, norm_free RB b (by decide)]
    exact DList.last t ""
  | cons t c _ ih =>
    simp only [List.map_cons, norm_kept k t hk, norm_free COMMA c (by decide)]
    exact DList.cons t "" ih

theorem DValue_norm {vs v} (h : DValue vs v) : DValue (vs.map norm) v := by
  cases h with
  | bool t => simpa [norm_kept BOOLEAN t (by decide)] using DValue.bool t
  | null t => simpa [norm_kept NULL t (by decide)] using DValue.null t
  | version t => simpa [norm_kept VERSION t (by decide)] using DValue.version t
  | str t => simpa [norm_kept STRING t (by decide)] using DValue.str t
  | double t => simpa [norm_kept DOUBLE t (by decide)] using DValue.double t
  | long m i e =>
    have := DValue.long (m.map fun _ => "") i e
    cases m <;> cases e <;>
      simpa [norm_kept INT i (by decide), norm_free MINUS _ (by decide), norm_kept EXP _ (by decide)] using this
  | list k hk b hl =>
    have hf : isFree k = false := by rcases hk with h | h | h <;> subst h <;> decide
    simp only [List.map_cons, norm_free LB b (by decide)]
    exact DValue.list k hk "" (DList_norm hf hl)

/-- forgetting the free spellings preserves the derivation **and the tree** -/
theorem D_norm {b ts t} (h : D b ts t) : D b (ts.map norm) t := by
  induction h with
  | paren n s1 s2 s3 l r _ ih =>
    simp only [List.map_append, List.map_cons, List.map_nil, optTok_norm NOT n (by decide), optTok_norm SP s1 (by decide),
      optTok_norm SP s2 (by decide), optTok_norm SP s3 (by decide), norm_free LP l (by decide), norm_free RP r (by decide)]
    have := D.paren (n.map fun _ => "") (s1.map fun _ => "") (s2.map fun _ => "") (s3.map fun _ => "") "" "" ih
    simpa using this
  | present s pr hp =>
    simp only [List.map_append, List.map_cons, List.map_nil, norm_free SP s (by decide), norm_free PR pr (by decide)]
    exact D.present "" "" (DPath_norm hp)
  | compare s1 o s2 k hk hp hv =>
    have hf : isFree k = true := by
      simp only [isCmp, Bool.and_eq_true, decide_eq_true_eq] at hk
      simp [isFree, hk.1, hk.2]
    simp only [List.map_append, List.map_cons, List.map_nil, norm_free SP s1 (by decide), norm_free SP s2 (by decide), norm_free k o hf]
    exact D.compare "" "" "" k hk (DPath_norm hp) (DValue_norm hv)
  | prim _ ih => exact D.prim ih
  | logical s1 op s2 _ _ ih1 ih2 =>
    simp only [List.map_append, List.map_cons, List.map_nil, norm_free SP s1 (by decide), norm_free SP s2 (by decide),
      norm_kept LOGOP op (by decide)]
    exact D.logical "" op "" ih1 ih2

/-- **Spelling does not matter.** Two rules whose tokens differ only in free spellings have the same tree. -/
theorem C15_texts_irrelevant {ts ts' : List Tok} {t t' : Tree} (h : D false ts t) (h' : D false ts' t')
    (hn : ts.map norm = ts'.map norm) : t = t' :=
  D_unique (D_norm h) (hn ▸ D_norm h')

/-- the optional blanks after `not`, after `(` and before `)` do not change the tree -/
theorem C15_optional_blanks (n : Option String) (s1 s2 s3 s1' s2' s3' : Option String) (l r l' r' : String) {ts t}
    (h : D false ts t) :
    ∃ tree, D true (optTok NOT n ++ optTok SP s1 ++ [⟨LP, l⟩] ++ optTok SP s2 ++ ts ++ optTok SP s3 ++ [⟨RP, r⟩]) tree ∧
            D true (optTok NOT n ++ optTok SP s1' ++ [⟨LP, l'⟩] ++ optTok SP s2' ++ ts ++ optTok SP s3' ++ [⟨RP, r'⟩]) tree :=
  ⟨_, D.paren n s1 s2 s3 l r h, D.paren n s1' s2' s3' l' r' h⟩

end Rules.P

namespace Rules
open Rules.P (Tree)

/-- **Redundant parentheses.** `( A )` has the whole outcome of `A`. -/
theorem C15_redundant_parens (lower : Bytes → Bytes) (item : List (Bytes × Value)) (A : Tree) :
    evalOut lower item (.paren false A) = evalOut lower item A := by
  simp only [evalOut]
  cases hr : (evalOut lower item A).res with
  | verdict b => cases h : evalOut lower item A; simp_all
  | fail e => rfl
  | panic p => rfl

theorem C15_redundant_parens_process (lower : Bytes → Bytes) (item : List (Bytes × Value)) (A : Tree) :
    processTree lower (.paren false A) item = processTree lower A item := by
  rw [processTree_eq, processTree_eq, C15_redundant_parens]

/-- kind number of a token name in the regenerated table -/
def kindOfName (name : String) : Nat := (Generated.lexerRuleNames.idxOf name) + 1

/-- every spelling of every token of the regenerated grammar lexes to that token, alone and between blanks
(NEWLINE is not a token of any sentence: after a blank it is absorbed into SP, which is the point of `C15_blank_forms`) -/
theorem C15_spellings_lex :
    Generated.spellings.all (fun p => p.2.all (fun sp =>
      genKinds sp == some [kindOfName p.1] &&
      (p.1 == "NEWLINE" || genKinds (" " ++ sp ++ " ") == some [30, kindOfName p.1, 30]))) = true := by
  decide +kernel

/-- a blank followed by newlines is one SP token; a comma followed by blanks one COMMA token -/
theorem C15_blank_forms : genKinds " " = some [30] ∧ genKinds " \n" = some [30] ∧ genKinds " \n\n\n" = some [30] ∧
    genKinds "," = some [29] ∧ genKinds ", " = some [29] ∧ genKinds ",    " = some [29] ∧ genKinds "  " = some [30, 30] := by
  decide +kernel

/-- respelled variants of one rule are read as the same tree by the model recogniser (instance of the theorems above) -/
example : lexParse Generated.lexerRules "x eq 1 and not (y IN [1,2])".toList =
    lexParse Generated.lexerRules "x == 1 \n\nand NOT( y in [1,  2] )".toList := by decide +kernel

end Rules
