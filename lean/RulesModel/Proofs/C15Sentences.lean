import RulesModel.Proofs.Render
import RulesModel.Proofs.LexClosedP
/-!
# C15 for sentences: from "well-formed tree" to "any rule text the engine accepts"

`C15_render` needs `wf rules cl t`: every name, literal and connective of the tree is a canonical token of its kind. Here that
hypothesis is *derived* for every tree that comes out of lexing and parsing a rule text:
* `lex_canon` – every token the lexer produces is canonical (it is matched whole by the first rule of the table that
  matches it: `C20_priority`), for any table;
* `wf_of_D` – a tree the grammar derives from good tokens is well-formed;
* **`C15_sentences`** – for every rule text `s` that is a sentence (with tree `t`), every rendering of `t` under every
  choice of the free spellings is read back as `t`; what remains are facts about the *table* (`TableOK`, `spellOK`, closed
  string literals), all proved for the table regenerated on this run (`C15SignedTable`, `C15StringClosed`). Signed
  integers and integers with exponents are included (`Proofs/LexSigned.lean`).
-/
namespace Rules
open Rules.Regex

/-- the converse of `canon_of_canonB` -/
theorem canonB_of_canon (rules : List (Kind × Regex)) (t : Token) (h : Canon rules t) : canonB rules t = true := by
  obtain ⟨hne, i, hi, hk, hm, hfirst⟩ := h
  unfold canonB
  have hf : rules.findIdx? (fun kr => kr.2.matchesB t.text) = some i := by
    rw [List.findIdx?_eq_some_iff_getElem]
    refine ⟨hi, (matchesB_iff _ _).2 hm, ?_⟩
    intro j hji
    have hj : j < rules.length := Nat.lt_trans hji hi
    have := hfirst j hj hji
    simp only [Bool.not_eq_true]
    cases hb : (rules[j]).2.matchesB t.text with
    | false => rfl
    | true => exact absurd ((matchesB_iff _ _).1 hb) this
  simp [hf, hne, List.getElem?_eq_getElem hi, hk]

/-- **every token the lexer produces is canonical**: its text is matched whole by the first rule of the table that
matches it, and that rule has the token's kind -/
theorem lexFuel_canon (rules : List (Kind × Regex)) : ∀ (fuel : Nat) (s : List Char) (ts : List Token),
    lexFuel rules fuel s = some ts → ∀ t ∈ ts, Canon rules t := by
  intro fuel
  induction fuel with
  | zero =>
    intro s ts h
    cases s with
    | nil => simp [lexFuel] at h; subst h; simp
    | cons c cs => simp [lexFuel] at h
  | succ fuel ih =>
    intro s ts h
    cases s with
    | nil => simp [lexFuel] at h; subst h; simp
    | cons c cs =>
      simp only [lexFuel] at h
      cases hb : bestMatch rules (c :: cs) with
      | none => simp [hb] at h
      | some kn =>
        obtain ⟨k, n⟩ := kn
        simp only [hb] at h
        cases hr : lexFuel rules fuel ((c :: cs).drop n) with
        | none => simp [hr] at h
        | some rest =>
          simp only [hr, Option.some.injEq] at h
          subst h
          intro t ht
          rcases List.mem_cons.1 ht with rfl | ht
          · obtain ⟨hpos, _, _⟩ := bestMatch_pos rules (c :: cs) k n hb
            obtain ⟨i, hi, e1, e2, e3⟩ := C20_priority rules (c :: cs) k n hb
            refine ⟨?_, i, hi, e1, e2, e3⟩
            intro hnil
            have hnil' : (c :: cs).take n = [] := hnil
            cases n with
            | zero => omega
            | succ m => simp at hnil'
          · exact ih _ rest hr t ht

theorem lex_canon (rules : List (Kind × Regex)) (s : List Char) (ts : List Token) (h : lex rules s = some ts) :
    ∀ t ∈ ts, canonB rules t = true := fun t ht =>
  canonB_of_canon rules t (lexFuel_canon rules _ s ts h t ht)
end Rules

namespace Rules.Render
open Rules.P Rules

/-- what a token of the input must satisfy for the tree built from it to be well-formed in the sense of `wf` -/
def GoodTok (rules : List (Kind × Regex)) (cl : List Char → Bool) (x : Tok) : Prop := okTok rules cl x.kind x.text = true

theorem wfPath_of_DPath (rules : List (Kind × Regex)) (cl : List Char → Bool) {ps p} (h : DPath ps p) (hg : ∀ x ∈ ps, x.kind = ATTR → GoodTok rules cl x) :
    wfPath rules cl p = true := by
  induction h with
  | one n => simpa [wfPath, GoodTok] using hg ⟨ATTR, n⟩ (by simp) rfl
  | dot n d _ ih =>
    have h1 := hg ⟨ATTR, n⟩ (by simp) rfl
    have h2 := ih (fun x hx hk => hg x (by simp [hx]) hk)
    simp only [wfPath, Bool.and_eq_true, Bool.not_eq_true', List.isEmpty_eq_false_iff, List.all_cons] at h2 ⊢
    exact ⟨by simp, by simpa [GoodTok] using h1, h2.2⟩

theorem all_of_DList (rules : List (Kind × Regex)) (cl : List Char → Bool) {k ts xs} (h : DList k ts xs) (hg : ∀ x ∈ ts, x.kind = k → GoodTok rules cl x) :
    xs ≠ [] ∧ xs.all (okTok rules cl k) = true := by
  induction h with
  | last t b => exact ⟨by simp, by simpa [GoodTok] using hg ⟨k, t⟩ (by simp) rfl⟩
  | cons t c _ ih =>
    have h1 := hg ⟨k, t⟩ (by simp) rfl
    have h2 := ih (fun x hx hk => hg x (by simp [hx]) hk)
    exact ⟨by simp, by simpa [GoodTok, h2.2] using h1⟩

theorem isPrimary_of_D {ts t} (h : D true ts t) : isPrimary t = true := by
  cases h <;> rfl

theorem wfLit_of_DValue (rules : List (Kind × Regex)) (cl : List Char → Bool) {vs v} (h : DValue vs v) (hg : ∀ x ∈ vs, GoodTok rules cl x)
    : wfLit rules cl v = true := by
  cases h with
  | bool t => simpa [wfLit, GoodTok] using hg ⟨BOOLEAN, t⟩ (by simp)
  | null t => rfl
  | version t => simpa [wfLit, GoodTok] using hg ⟨VERSION, t⟩ (by simp)
  | str t => simpa [wfLit, GoodTok] using hg ⟨STRING, t⟩ (by simp)
  | double t => simpa [wfLit, GoodTok] using hg ⟨DOUBLE, t⟩ (by simp)
  | long m i e =>
    have h1 : GoodTok rules cl ⟨INT, i⟩ := hg ⟨INT, i⟩ (by simp)
    simp only [wfLit, Bool.and_eq_true]
    refine ⟨by simpa [GoodTok] using h1, ?_⟩
    cases e with
    | none => rfl
    | some x =>
      have h2 : GoodTok rules cl ⟨EXP, x⟩ := hg ⟨EXP, x⟩ (by simp)
      simpa [GoodTok] using h2
  | list k hk b hlst =>
    have := all_of_DList rules cl hlst (fun x hx _ => hg x (by simp [hx]))
    simp only [wfLit, Bool.and_eq_true, Bool.or_eq_true, beq_iff_eq, Bool.not_eq_true', List.isEmpty_eq_false_iff]
    exact ⟨⟨by rcases hk with h | h | h <;> simp [h], this.1⟩, this.2⟩

/-- **every tree the grammar derives from good tokens is well-formed** -/
theorem wf_of_D (rules : List (Kind × Regex)) (cl : List Char → Bool) : ∀ {b ts t}, D b ts t → (∀ x ∈ ts, GoodTok rules cl x) →
    wf rules cl t = true := by
  intro b ts t h
  induction h with
  | paren n s1 s2 s3 l r _ ih =>
    intro hg
    exact ih (fun x hx => hg x (by simp [hx]))
  | present s pr hpth =>
    intro hg
    exact wfPath_of_DPath rules cl hpth (fun x hx _ => hg x (by simp [hx]))
  | compare s1 o s2 k hk hpth hv =>
    intro hg
    have h1 := wfPath_of_DPath rules cl hpth (fun x hx _ => hg x (by simp [hx]))
    have h2 := wfLit_of_DValue rules cl hv (fun x hx => hg x (by simp [hx]))
    simp [wf, h1, hk, h2]
  | prim _ ih => exact ih
  | logical s1 op s2 _ hr ih1 ih2 =>
    intro hg
    have h0 : GoodTok rules cl ⟨LOGOP, op⟩ := hg _ (by simp)
    have h1 := ih1 (fun x hx => hg x (by simp [hx]))
    have h2 := ih2 (fun x hx => hg x (by simp [hx]))
    simp only [wf, Bool.and_eq_true]
    exact ⟨⟨⟨by simpa [GoodTok] using h0, h1⟩, h2⟩, isPrimary_of_D hr⟩

/-- `C15_render` with closedness of the string literals as a proposition about the table -/
theorem C15_renderP (rules : List (Kind × Regex)) (htab : TableOK rules) (hsp : spellOK rules = true)
    (hstr : ∀ x : Token, Canon rules x → x.kind = STRING → ClosedP rules x.text)
    (t : Tree) (h : wf rules (fun _ => true) t = true) (sty : Sty) :
    lexParse rules (text (render sty [] t)) = some t := by
  have hd := (render_D rules (fun _ => true) sty t [] h).1
  have hg := render_good rules (fun _ => true) hsp sty t [] h
  exact lexParse_tokensQ rules htab.adj htab.follow htab.signed (render sty [] t) t hd (fun x hx => (hg x hx).1)
    (fun x hx hk => hstr x (hg x hx).1 hk)

/-- **C15 for every sentence.** Let `s` be any rule text the grammar accepts, `t` its tree. Then every rendering of `t` –
every choice of the free spellings, optional blanks, newlines, comma blanks – is read back as `t`, provided the table's
string literals are closed (a property of the table, `hstr`; proved for the regenerated table in `C15StringClosed`) and the
table separates neighbouring tokens (`TableOK`, proved for the regenerated table in `C15SignedTable`). Nothing is assumed
about `s` itself: negative integers and integers with exponents are covered. -/
theorem C15_sentences (rules : List (Kind × Regex)) (htab : TableOK rules) (hsp : spellOK rules = true)
    (hstr : ∀ x : Token, Canon rules x → x.kind = STRING → ClosedP rules x.text)
    (s : List Char) (ts : List Token) (t : Tree) (hl : lex rules s = some ts) (hpar : P.parse (ts.map toTok) = some t)
    (sty : Sty) :
    lexParse rules (text (render sty [] t)) = some t := by
  have hd : D false (ts.map toTok) t := (P.parse_iff _ _).1 hpar
  have hg : ∀ x ∈ ts.map toTok, GoodTok rules (fun _ => true) x := by
    intro x hx
    obtain ⟨tok, htok, rfl⟩ := List.mem_map.1 hx
    have hc := lex_canon rules s ts hl tok htok
    have hround : tkS tok.kind (String.ofList tok.text) = tok := by
      cases tok; simp [tkS]
    simp [GoodTok, okTok, toTok, hround, hc]
  exact C15_renderP rules htab hsp hstr t (wf_of_D rules (fun _ => true) hd hg) sty

/-- … so any two renderings of a sentence's tree evaluate alike on every object -/
theorem C15_sentences_process (rules : List (Kind × Regex)) (htab : TableOK rules) (hsp : spellOK rules = true)
    (hstr : ∀ x : Token, Canon rules x → x.kind = STRING → ClosedP rules x.text)
    (s : List Char) (ts : List Token) (t : Tree) (hl : lex rules s = some ts) (hpar : P.parse (ts.map toTok) = some t)
    (sty sty' : Sty) (lower : Bytes → Bytes) (item : List (Bytes × Value)) :
    (lexParse rules (text (render sty [] t))).map (fun tr => processTree lower tr item) =
    (lexParse rules (text (render sty' [] t))).map (fun tr => processTree lower tr item) := by
  rw [C15_sentences rules htab hsp hstr s ts t hl hpar sty, C15_sentences rules htab hsp hstr s ts t hl hpar sty']
end Rules.Render
