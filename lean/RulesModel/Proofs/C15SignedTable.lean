import RulesModel.Proofs.LexSigned
/-!
# `SignedOK` for the table regenerated from JsonQuery.g4

The two statements `LexSigned` needs about `-` and integer tokens, proved for `Generated.lexerRules`:
* a canonical `-` token is the text `-`;
* after an integer token followed by anything that starts with neither a digit nor a dot, the lexer takes the integer
  whole - and a `-` in front of it is taken alone.

What is used of the table (`table_facts`, evaluated by the kernel): the only rule of kind 5 is `'-'`, the only rule of kind
26 is `INT : '0' | [1-9][0-9]*`; a rule that can start with `-` is `'-'` or has the shape `'-'? INT '.' …`; a rule that can
start with a digit is `INT`, `INT '.' …` or `'-'? INT '.' …`. The rest is reasoning about those shapes for digit strings
of every length.
-/
namespace Rules.Signed
open Rules Rules.Regex

theorem matches_range_iff {lo hi : Nat} {s : List Char} :
    Matches (.range lo hi) s ↔ ∃ c, s = [c] ∧ lo ≤ c.toNat ∧ c.toNat ≤ hi := by
  constructor
  · intro h; cases h with | range h1 h2 => exact ⟨_, rfl, h1, h2⟩
  · rintro ⟨c, rfl, h1, h2⟩; exact .range h1 h2

def intRe : Regex := .alt (.range 48 48) (.seq (.range 49 57) (.star (.range 48 57)))

def isDigit (c : Char) : Prop := 48 ≤ c.toNat ∧ c.toNat ≤ 57

/-- `a '.' …` with `a = INT` -/
def dottedB : Regex → Bool
  | .seq a (.seq (.range 46 46) _) => a == intRe
  | _ => false
/-- `'-'? INT '.' …` -/
def signedDottedB : Regex → Bool
  | .seq (.alt (.range 45 45) .eps) r => dottedB r
  | _ => false
def noDigitFirst (r : Regex) : Bool := (List.range' 48 10).all (fun d => !(firstChars r).mem d)

def factKinds (kr : Kind × Regex) : Bool := (kr.1 != 5 || kr.2 == .range 45 45) && (kr.1 != 26 || kr.2 == intRe)
def factMinus (kr : Kind × Regex) : Bool := !(firstChars kr.2).mem 45 || kr.2 == .range 45 45 || signedDottedB kr.2
def factDigit (kr : Kind × Regex) : Bool := noDigitFirst kr.2 || kr.2 == intRe || dottedB kr.2 || signedDottedB kr.2

theorem table_facts :
    Generated.lexerRules.all (fun kr => factKinds kr && factMinus kr && factDigit kr) = true ∧
    bestMatch Generated.lexerRules ['-'] = some (P.MINUS, 1) := by
  decide +kernel

/-! ### shapes -/
theorem int_shape {w : List Char} (h : Matches intRe w) : w ≠ [] ∧ ∀ c ∈ w, isDigit c := by
  refine ⟨?_, ?_⟩
  · rintro rfl
    have := (nullable_iff intRe).2 h
    simp [intRe, nullable] at this
  · intro c hc
    have := charsOf_sound h c hc
    simp only [intRe, charsOf, CSet.mem, List.cons_append, List.nil_append, List.any_cons, List.any_nil, Bool.or_false,
      Bool.or_eq_true, Bool.and_eq_true, decide_eq_true_eq] at this
    unfold isDigit
    omega

theorem dotted_shape {r : Regex} (hr : dottedB r = true) {w : List Char} (h : Matches r w) :
    ∃ ds dot q, w = ds ++ dot :: q ∧ ds ≠ [] ∧ (∀ c ∈ ds, isDigit c) ∧ dot.toNat = 46 := by
  match r, hr with
  | .seq a (.seq (.range 46 46) tl), hr =>
    simp only [dottedB, beq_iff_eq] at hr
    subst hr
    simp only [matches_seq_iff, matches_range_iff] at h
    obtain ⟨ds, s2, rfl, hds, s3, q, rfl, ⟨dot, rfl, h1, h2⟩, _⟩ := h
    obtain ⟨hne, hdig⟩ := int_shape hds
    exact ⟨ds, dot, q, by simp, hne, hdig, by omega⟩

theorem signed_shape {r : Regex} (hr : signedDottedB r = true) {w : List Char} (h : Matches r w) :
    ∃ sg ds dot q, w = sg ++ (ds ++ dot :: q) ∧ (sg = [] ∨ ∃ m, sg = [m] ∧ m.toNat = 45) ∧ ds ≠ [] ∧
      (∀ c ∈ ds, isDigit c) ∧ dot.toNat = 46 := by
  match r, hr with
  | .seq (.alt (.range 45 45) .eps) r', hr =>
    simp only [signedDottedB] at hr
    simp only [matches_seq_iff (a := .alt (.range 45 45) .eps), matches_alt_iff, matches_range_iff] at h
    obtain ⟨sg, s2, rfl, hsg, h2⟩ := h
    obtain ⟨ds, dot, q, rfl, hne, hdig, hdot⟩ := dotted_shape hr h2
    refine ⟨sg, ds, dot, q, rfl, ?_, hne, hdig, hdot⟩
    rcases hsg with ⟨m, rfl, h1, h2⟩ | he
    · exact .inr ⟨m, rfl, by omega⟩
    · cases he; exact .inl rfl

/-- the condition on what follows an integer -/
def FollowOK (r : List Char) : Prop := ∀ c, r.head? = some c → nonDigitDot c.toNat = true

theorem nonDigitDot_spec {c : Char} (h : nonDigitDot c.toNat = true) : ¬ isDigit c ∧ c.toNat ≠ 46 := by
  simp only [nonDigitDot, Bool.and_eq_true, Bool.not_eq_true', Bool.and_eq_false_iff, decide_eq_false_iff_not,
    bne_iff_ne, ne_eq] at h
  unfold isDigit
  omega

/-- **a digit string followed by a non-digit, non-dot cannot be continued to `digits '.' …`** -/
theorem digits_dot : ∀ (ds it : List Char) (dot : Char) (z r : List Char),
    (∀ c ∈ ds, isDigit c) → (∀ c ∈ it, isDigit c) → dot.toNat = 46 → FollowOK r →
    it ++ r = ds ++ dot :: z → False
  | [], [], dot, z, r, _, _, hdot, hr, he => by
    simp only [List.nil_append] at he
    subst he
    have := (nonDigitDot_spec (hr dot rfl)).2
    exact this hdot
  | [], c :: it, dot, z, r, _, hit, hdot, _, he => by
    simp only [List.nil_append, List.cons_append, List.cons.injEq] at he
    have := hit c (by simp)
    rw [he.1] at this
    unfold isDigit at this
    omega
  | d :: ds, [], dot, z, r, hds, _, _, hr, he => by
    simp only [List.nil_append, List.cons_append] at he
    subst he
    exact (nonDigitDot_spec (hr d rfl)).1 (hds d (by simp))
  | d :: ds, c :: it, dot, z, r, hds, hit, hdot, hr, he => by
    simp only [List.cons_append, List.cons.injEq] at he
    exact digits_dot ds it dot z r (fun x hx => hds x (by simp [hx])) (fun x hx => hit x (by simp [hx])) hdot hr he.2

/-- `longest` does not see what follows `w` when no rule match reaches into it -/
theorem longest_prefix_closed (r : Regex) (w rest : List Char)
    (h : ∀ n, 0 < n → n ≤ rest.length → ¬ Matches r (w ++ rest.take n)) :
    longest r (w ++ rest) = longest r w := by
  apply longest_congr
  intro k
  constructor
  · rintro ⟨hk, hm⟩
    by_cases hle : k ≤ w.length
    · exact ⟨hle, by rwa [List.take_append_of_le_length hle] at hm⟩
    · exfalso
      obtain ⟨j, rfl⟩ : ∃ j, k = w.length + (j + 1) := ⟨k - (w.length + 1), by omega⟩
      rw [take_len_add] at hm
      have hlen : (w ++ rest).length = w.length + rest.length := by simp
      exact h (j + 1) (by omega) (by omega) hm
  · rintro ⟨hk, hm⟩
    exact ⟨by simp; omega, by rwa [List.take_append_of_le_length hk]⟩

theorem minus_char {m : Char} (h : m.toNat = 45) : m = '-' := by
  apply Char.ext
  have : m.val.toNat = 45 := h
  apply UInt32.toNat_inj.1
  simpa using this

/-- an integer token of the table is a non-empty digit string -/
theorem int_token (i : Token) (hc : Canon Generated.lexerRules i) (hk : i.kind = P.INT) :
    i.text ≠ [] ∧ ∀ c ∈ i.text, isDigit c := by
  obtain ⟨_, idx, hi, e1, e2, _⟩ := hc
  have hf := List.all_eq_true.1 table_facts.1 _ (List.getElem_mem hi)
  simp only [Bool.and_eq_true, factKinds, Bool.or_eq_true, bne_iff_ne, ne_eq, beq_iff_eq] at hf
  have hre : (Generated.lexerRules[idx]).2 = intRe := by
    rcases hf.1.1.2 with h | h
    · exact absurd (e1.trans hk) h
    · exact h
  rw [hre] at e2
  exact int_shape e2

/-- **the two statements about the regenerated table** -/
theorem signed_ok : SignedOK Generated.lexerRules where
  minus := by
    intro x hc hk
    obtain ⟨_, idx, hi, e1, e2, _⟩ := hc
    have hf := List.all_eq_true.1 table_facts.1 _ (List.getElem_mem hi)
    simp only [Bool.and_eq_true, factKinds, Bool.or_eq_true, bne_iff_ne, ne_eq, beq_iff_eq] at hf
    have hre : (Generated.lexerRules[idx]).2 = .range 45 45 := by
      rcases hf.1.1.1 with h | h
      · exact absurd (e1.trans hk) h
      · exact h
    rw [hre, matches_range_iff] at e2
    obtain ⟨c, hc, h1, h2⟩ := e2
    rw [hc, minus_char (by omega : c.toNat = 45)]
  int := by
    intro i r hc hk hr
    obtain ⟨hne, hdig⟩ := int_token i hc hk
    refine ⟨?_, ?_⟩
    · -- `-` in front of the integer is taken alone
      have : bestMatch Generated.lexerRules (['-'] ++ (i.text ++ r)) = bestMatch Generated.lexerRules ['-'] := by
        apply bestMatch_congr
        intro kr hkr
        apply longest_prefix_closed
        intro n hn hle hm
        have hf := List.all_eq_true.1 table_facts.1 kr hkr
        simp only [Bool.and_eq_true, factMinus, Bool.or_eq_true, Bool.not_eq_true', beq_iff_eq] at hf
        have hrest : i.text ++ r = (i.text ++ r).take n ++ (i.text ++ r).drop n := (List.take_append_drop _ _).symm
        rcases hf.1.2 with (h | h) | h
        · have := firstChars_sound hm '-' _ rfl
          rw [show ('-' : Char).toNat = 45 from rfl, h] at this
          cases this
        · rw [h, matches_range_iff] at hm
          obtain ⟨c, he, _⟩ := hm
          have hl := congrArg List.length he
          simp only [List.cons_append, List.nil_append, List.length_cons, List.length_take, List.length_nil] at hl
          omega
        · obtain ⟨sg, ds, dot, q, he, hsg, hdne, hds, hdot⟩ := signed_shape h hm
          rcases hsg with rfl | ⟨m, rfl, _⟩
          · -- the digit string would start with `-`
            obtain ⟨d, ds', rfl⟩ : ∃ d ds', ds = d :: ds' := by
              cases ds with
              | nil => exact absurd rfl hdne
              | cons d ds' => exact ⟨d, ds', rfl⟩
            simp only [List.cons_append, List.nil_append, List.cons.injEq] at he
            have := hds d (by simp)
            rw [← he.1] at this
            unfold isDigit at this
            have h45 : ('-' : Char).toNat = 45 := rfl
            omega
          · simp only [List.cons_append, List.nil_append, List.cons.injEq] at he
            rw [he.2] at hrest
            exact digits_dot ds i.text dot (q ++ (i.text ++ r).drop n) r hds hdig hdot hr (by simpa using hrest)
      simpa using this.trans table_facts.2
    · -- the integer is taken whole
      have : bestMatch Generated.lexerRules (i.text ++ r) = bestMatch Generated.lexerRules i.text := by
        apply bestMatch_congr
        intro kr hkr
        apply longest_prefix_closed
        intro n hn hle hm
        have hf := List.all_eq_true.1 table_facts.1 kr hkr
        simp only [Bool.and_eq_true, factDigit, Bool.or_eq_true, beq_iff_eq] at hf
        obtain ⟨c0, it', hit⟩ : ∃ c0 it', i.text = c0 :: it' := by
          cases h : i.text with
          | nil => exact absurd h hne
          | cons c0 it' => exact ⟨c0, it', rfl⟩
        have hc0 : isDigit c0 := hdig c0 (by rw [hit]; simp)
        have hrest : r = r.take n ++ r.drop n := (List.take_append_drop _ _).symm
        obtain ⟨u0, u', hu⟩ : ∃ u0 u', r.take n = u0 :: u' := by
          cases h : r.take n with
          | nil =>
            have := congrArg List.length h
            simp only [List.length_take, List.length_nil] at this
            omega
          | cons u0 u' => exact ⟨u0, u', rfl⟩
        have hu0 : ¬ isDigit u0 := by
          have : r.head? = some u0 := by rw [hrest, hu]; rfl
          exact (nonDigitDot_spec (hr u0 this)).1
        rcases hf.2 with ((h | h) | h) | h
        · have := firstChars_sound hm c0 (it' ++ r.take n) (by rw [hit]; rfl)
          unfold noDigitFirst at h
          have hmem : c0.toNat ∈ List.range' 48 10 := by
            unfold isDigit at hc0
            simp only [List.mem_range'_1]; omega
          have h2 := List.all_eq_true.1 h _ hmem
          rw [this] at h2
          cases h2
        · rw [h] at hm
          have := (int_shape hm).2 u0 (by rw [hu]; simp)
          exact hu0 this
        · obtain ⟨ds, dot, q, he, _, hds, hdot⟩ := dotted_shape h hm
          have : i.text ++ r = ds ++ dot :: (q ++ r.drop n) := by
            conv => lhs; rw [hrest]
            rw [← List.append_assoc, he]; simp
          exact digits_dot ds i.text dot _ r hds hdig hdot hr this
        · obtain ⟨sg, ds, dot, q, he, hsg, _, hds, hdot⟩ := signed_shape h hm
          rcases hsg with rfl | ⟨m, rfl, hm45⟩
          · have : i.text ++ r = ds ++ dot :: (q ++ r.drop n) := by
              conv => lhs; rw [hrest]
              rw [← List.append_assoc, he]; simp
            exact digits_dot ds i.text dot _ r hds hdig hdot hr this
          · rw [hit] at he
            simp only [List.cons_append, List.nil_append, List.cons.injEq] at he
            unfold isDigit at hc0
            rw [he.1] at hc0
            omega
      rw [this, ← hk]
      exact canon_bestMatch _ i hc

/-- non-vacuity: the integer token `120` followed by an exponent, and by a parenthesis after a `-` -/
example : bestMatch Generated.lexerRules "-120e+5 ".toList = some (P.MINUS, 1) ∧
    bestMatch Generated.lexerRules "120e+5 ".toList = some (P.INT, 3) ∧
    bestMatch Generated.lexerRules "e+5 ".toList = some (P.EXP, 3) := by decide +kernel

end Rules.Signed
