import RulesModel.Proofs.C15Sentences
import RulesModel.Proofs.C15SignedTable
namespace Rules.StrClosed
open Rules Rules.Regex

theorem matches_range_iff {lo hi : Nat} {s : List Char} :
    Matches (.range lo hi) s ↔ ∃ c, s = [c] ∧ lo ≤ c.toNat ∧ c.toNat ≤ hi := by
  constructor
  · intro h; cases h with | range h1 h2 => exact ⟨_, rfl, h1, h2⟩
  · rintro ⟨c, rfl, h1, h2⟩; exact .range h1 h2

theorem matches_notIn_iff {cs : List Nat} {s : List Char} :
    Matches (.notIn cs) s ↔ ∃ c, s = [c] ∧ c.toNat ∉ cs := by
  constructor
  · intro h; cases h with | notIn h1 => exact ⟨_, rfl, h1⟩
  · rintro ⟨c, rfl, h1⟩; exact .notIn h1

def hexRe : Regex := .alt (.range 48 57) (.alt (.range 97 102) (.range 65 70))
def escRe : Regex := .seq (.range 92 92) (.alt (.alt (.range 34 34) (.alt (.range 92 92) (.alt (.range 47 47) (.alt (.range 98 98) (.alt (.range 102 102) (.alt (.range 110 110) (.alt (.range 114 114) (.range 116 116)))))))) (.seq (.range 117 117) (.seq hexRe (.seq hexRe (.seq hexRe hexRe)))))
def elemRe : Regex := .alt escRe (.notIn [34, 92])
def strRe : Regex := .seq (.range 34 34) (.seq (.star elemRe) (.range 34 34))

def isHex (c : Char) : Bool := (48 ≤ c.toNat && c.toNat ≤ 57) || (97 ≤ c.toNat && c.toNat ≤ 102) || (65 ≤ c.toNat && c.toNat ≤ 70)
def isEsc1 (c : Char) : Bool := [34, 92, 47, 98, 102, 110, 114, 116].contains c.toNat

/-- strip one element of a string body from the front (deterministic) -/
def scan : List Char → Option (List Char)
  | c :: rest =>
    if c.toNat = 92 then
      match rest with
      | e :: rest2 =>
        if isEsc1 e then some rest2
        else if e.toNat = 117 then
          match rest2 with
          | h1 :: h2 :: h3 :: h4 :: rest3 => if isHex h1 && isHex h2 && isHex h3 && isHex h4 then some rest3 else none
          | _ => none
        else none
      | [] => none
    else if c.toNat = 34 then none
    else some rest
  | [] => none

theorem hex_of_matches {s : List Char} (h : Matches hexRe s) : ∃ c, s = [c] ∧ isHex c = true := by
  simp only [hexRe, matches_alt_iff, matches_range_iff] at h
  rcases h with ⟨c, rfl, h1, h2⟩ | ⟨c, rfl, h1, h2⟩ | ⟨c, rfl, h1, h2⟩ <;> exact ⟨c, rfl, by simp [isHex, h1, h2]⟩

theorem scan_of_elem {x : List Char} (h : Matches elemRe x) (r : List Char) : scan (x ++ r) = some r := by
  simp only [elemRe, escRe, matches_alt_iff, matches_seq_iff, matches_range_iff, matches_notIn_iff] at h
  rcases h with ⟨s1, s2, rfl, ⟨b, rfl, hb1, hb2⟩, h2⟩ | ⟨c, rfl, hc⟩
  · have hb : b.toNat = 92 := by omega
    rcases h2 with h2 | ⟨u1, u2, rfl, ⟨u, rfl, hu1, hu2⟩, v1, v2, rfl, hh1, w1, w2, rfl, hh2, x1, x2, rfl, hh3, hh4⟩
    · -- one of the eight single escape characters
      have : ∃ e, s2 = [e] ∧ isEsc1 e = true := by
        rcases h2 with ⟨e, rfl, h1, h2⟩ | ⟨e, rfl, h1, h2⟩ | ⟨e, rfl, h1, h2⟩ | ⟨e, rfl, h1, h2⟩ | ⟨e, rfl, h1, h2⟩ | ⟨e, rfl, h1, h2⟩ | ⟨e, rfl, h1, h2⟩ | ⟨e, rfl, h1, h2⟩ <;>
          exact ⟨e, rfl, by simp [isEsc1]; omega⟩
      obtain ⟨e, rfl, he⟩ := this
      simp [scan, hb, he]
    · obtain ⟨a1, rfl, g1⟩ := hex_of_matches hh1
      obtain ⟨a2, rfl, g2⟩ := hex_of_matches hh2
      obtain ⟨a3, rfl, g3⟩ := hex_of_matches hh3
      obtain ⟨a4, rfl, g4⟩ := hex_of_matches hh4
      have hu : u.toNat = 117 := by omega
      have hne : isEsc1 u = false := by simp [isEsc1, hu]
      simp [scan, hb, hu, hne, g1, g2, g3, g4]
  · simp only [List.mem_cons, List.mem_nil_iff, or_false, not_or] at hc
    simp [scan, hc.1, hc.2]

/-- stripping the first element of a body is deterministic -/
theorem strip {x rest : List Char} (hx : Matches elemRe x) (hne : x ≠ []) (h : Matches (.star elemRe) (x ++ rest)) :
    Matches (.star elemRe) rest := by
  obtain ⟨c, x', rfl⟩ : ∃ c x', x = c :: x' := by cases x with | nil => exact absurd rfl hne | cons c x' => exact ⟨c, x', rfl⟩
  obtain ⟨s1, s2, he, h1, h2⟩ := star_cons_inv (by simpa using h)
  have e1 := scan_of_elem hx rest
  have e2 := scan_of_elem h1 s2
  have : (c :: x') ++ rest = (c :: s1) ++ s2 := by simp [he]
  rw [this, e2] at e1
  cases e1
  exact h2

theorem elem_ne_nil {x : List Char} (h : Matches elemRe x) : x ≠ [] := by
  intro hx
  subst hx
  have := scan_of_elem h []
  simp [scan] at this

/-- a string body cannot continue across an unescaped quote -/
theorem body_no_quote : ∀ (n : Nat) (b : List Char), b.length ≤ n → Matches (.star elemRe) b →
    ∀ (q : Char) (u : List Char), q.toNat = 34 → ¬ Matches (.star elemRe) (b ++ q :: u) := by
  intro n
  induction n with
  | zero =>
    intro b hb _ q u hq h
    have : b = [] := by cases b with | nil => rfl | cons _ _ => simp at hb
    subst this
    obtain ⟨s1, s2, _, h1, _⟩ := star_cons_inv (by simpa using h)
    have := scan_of_elem h1 []
    simp [scan, hq] at this
  | succ n ih =>
    intro b hb hm q u hq h
    cases b with
    | nil =>
      obtain ⟨s1, s2, _, h1, _⟩ := star_cons_inv (by simpa using h)
      have := scan_of_elem h1 []
      simp [scan, hq] at this
    | cons c s =>
      obtain ⟨s1, s2, rfl, h1, h2⟩ := star_cons_inv hm
      have h3 : Matches (.star elemRe) (s2 ++ q :: u) :=
        strip h1 (by simp) (by simpa [List.append_assoc] using h)
      exact ih s2 (by simp at hb; omega) h2 q u hq h3

theorem str_shape {w : List Char} (h : Matches strRe w) :
    ∃ q1 b q2, w = q1 :: (b ++ [q2]) ∧ q1.toNat = 34 ∧ q2.toNat = 34 ∧ Matches (.star elemRe) b := by
  simp only [strRe, matches_seq_iff, matches_range_iff] at h
  obtain ⟨s1, s2, rfl, ⟨q1, rfl, h1, h2⟩, b, s3, rfl, hb, q2, rfl, h3, h4⟩ := h
  exact ⟨q1, b, q2, by simp, by omega, by omega, hb⟩

/-- the language of a string literal is prefix-free: nothing can be appended to a complete literal -/
theorem str_prefix_free {w u : List Char} (hw : Matches strRe w) (hu : u ≠ []) : ¬ Matches strRe (w ++ u) := by
  intro h
  obtain ⟨q1, b, q2, rfl, _, hq2, hb⟩ := str_shape hw
  obtain ⟨p1, b', p2, he, _, _, hb'⟩ := str_shape h
  rcases List.eq_nil_or_concat u with rfl | ⟨u', x, rfl⟩
  · exact hu rfl
  · have he2 : b ++ q2 :: u' ++ [x] = b' ++ [p2] := by
      have := List.cons.inj he
      simpa [List.append_assoc] using this.2
    have := List.append_inj' he2 rfl
    rw [← this.1] at hb'
    exact body_no_quote _ b (Nat.le_refl _) hb q2 u' hq2 hb'

/-- every other rule of the regenerated table is dead after a quote, and the only rule of kind STRING is `strRe` -/
theorem table_facts :
    Generated.lexerRules.all (fun kr => (kr.2 == strRe || (kr.2.deriv (Char.ofNat 34)).isEmpty) && (kr.1 != 24 || kr.2 == strRe)) = true := by
  decide +kernel

theorem quote_eq {q : Char} (h : q.toNat = 34) : q = Char.ofNat 34 := by
  apply Char.ext
  have : q.val.toNat = 34 := h
  apply UInt32.toNat_inj.1
  simpa using this

/-- **no rule of the regenerated table matches a proper extension of a complete string literal** -/
theorem str_semclosed {w : List Char} (hw : Matches strRe w) : SemClosed Generated.lexerRules w := by
  intro kr hkr u hu hm
  have hf := List.all_eq_true.1 table_facts kr hkr
  simp only [Bool.and_eq_true, Bool.or_eq_true, beq_iff_eq] at hf
  rcases hf.1 with he | hd
  · rw [he] at hm
    exact str_prefix_free hw hu hm
  · obtain ⟨q1, b, q2, rfl, hq1, _, _⟩ := str_shape hw
    rw [quote_eq hq1] at hm
    have := (deriv_iff kr.2 (Char.ofNat 34) _).2 (by simpa using hm)
    exact isEmpty_sound _ hd _ this

/-- **every string literal the lexer can produce is closed**: whatever follows it in a rule text, it is taken whole -/
theorem string_tokens_closed (x : Token) (hc : Canon Generated.lexerRules x) (hk : x.kind = P.STRING) :
    ClosedP Generated.lexerRules x.text := by
  obtain ⟨_, i, hi, e1, e2, _⟩ := hc
  have hmem : Generated.lexerRules[i] ∈ Generated.lexerRules := List.getElem_mem hi
  have hf := List.all_eq_true.1 table_facts _ hmem
  simp only [Bool.and_eq_true, Bool.or_eq_true, beq_iff_eq, bne_iff_ne, ne_eq] at hf
  have hre : (Generated.lexerRules[i]).2 = strRe := by
    rcases hf.2 with h | h
    · exact absurd (e1.trans hk) h
    · exact h
  rw [hre] at e2
  exact closedP_of_sem _ _ (str_semclosed e2)
end Rules.StrClosed

namespace Rules.Render
open Rules.P Rules

/-- the three table facts of `TableOK`, for the table regenerated on this run -/
theorem table_ok : TableOK Generated.lexerRules := ⟨adj_separated_all, int_follow, Signed.signed_ok⟩

/-- `C15_render_generated` without hypothesis about the table -/
theorem C15_render_all (t : Tree) (h : wf Generated.lexerRules (extClosed Generated.lexerRules) t = true) (sty : Sty) :
    lexParse Generated.lexerRules (text (render sty [] t)) = some t :=
  C15_render_generated Signed.signed_ok t h sty

/-- **C15 for every sentence of the shipped grammar.** For every rule text `s` the grammar accepts - negative integers and
integers with exponents included -, every rendering of its tree - any spelling of `not` and of the ten operators, optional
blanks, newlines after blanks, blanks after commas, all chosen by an arbitrary style function - is read back as the same
tree. No hypothesis about individual names, numbers or string literals is left. -/
theorem C15_sentences_generated (s : List Char) (ts : List Token) (t : Tree)
    (hl : lex Generated.lexerRules s = some ts) (hpar : P.parse (ts.map toTok) = some t) (sty : Sty) :
    lexParse Generated.lexerRules (text (render sty [] t)) = some t :=
  C15_sentences Generated.lexerRules table_ok spell_table StrClosed.string_tokens_closed s ts t hl hpar sty

/-- … and any two such renderings evaluate alike on every object (verdict, error, diagnostic, Stringer calls) -/
theorem C15_sentences_generated_process (s : List Char) (ts : List Token) (t : Tree)
    (hl : lex Generated.lexerRules s = some ts) (hpar : P.parse (ts.map toTok) = some t)
    (sty sty' : Sty) (lower : Bytes → Bytes) (item : List (Bytes × Value)) :
    (lexParse Generated.lexerRules (text (render sty [] t))).map (fun tr => processTree lower tr item) =
    (lexParse Generated.lexerRules (text (render sty' [] t))).map (fun tr => processTree lower tr item) :=
  C15_sentences_process Generated.lexerRules table_ok spell_table StrClosed.string_tokens_closed s ts t hl hpar sty sty' lower item

/-- non-vacuity: a rule text with escapes, blanks and parentheses inside string literals, a list and a nested path satisfies
the hypotheses, and its rendering in another style is a different text that reads back as the same tree -/
example :
    let s := "not (name eq \"a) \\\" (b\" and x.y in [\"p q\", \"r\"]) or n ge -10e+3 and (m lt 7E+0)".toList
    (match lex Generated.lexerRules s with
     | some ts => (match P.parse (ts.map toTok) with
       | some t => (text (render (fun p => p.length + 1) [] t) != s) &&
                   (lexParse Generated.lexerRules (text (render (fun p => p.length + 1) [] t)) == some t)
       | none => false)
     | none => false) = true := by decide +kernel
end Rules.Render
