import RulesModel.Proofs.C06
/-!
# C16 — LastDebugErr tells exactly when a comparison could not be decided

* `undecidable` : a comparison whose typed operation returns an operand error (attribute absent, type or format the
  literal cannot be compared with, operator unsupported for the literal).
* `C16_leaf`    : a comparison has a diagnostic iff it is undecidable; presence tests and null tests never have one.
* `C16_iff`     : after `Process` (not ended by a recovered panic) `LastDebugErr` is non-nil iff some *reached*
  comparison is undecidable – every rule shape, every object.
* `C16_decided_nil` : if every reached comparison was decided, `LastDebugErr` is nil.
The printable-text part of C16 (`Error()` non-empty, never panics) is total by construction in the model
(the repaired `ErrInvalidOperand.Error` formats with `%T`); it is checked on the implementation by the harness.
-/
namespace Rules
open Rules.P (Tree Lit Kind)

/-- the typed operation of the literal returns an operand error for this attribute value -/
def undecidable (lower : Bytes → Bytes) (item : List (Bytes × Value)) : Tree → Prop
  | .compare path k lit =>
    ∃ v kind r op e c, denote item path = .ok v ∧ litOperand lit = some (kind, r) ∧ cmpOfKind k = some op ∧
      apply lower kind op v r = .err e c
  | _ => False

theorem C16_leaf (lower : Bytes → Bytes) (item : List (Bytes × Value)) (t : Tree) :
    (leafOut lower item t).dbg.isSome = true ↔ undecidable lower item t := by
  cases t with
  | present p => simp only [leafOut, undecidable]; split <;> simp
  | paren n q => simp [leafOut, undecidable]
  | logical o a b => simp [leafOut, undecidable]
  | compare path k lit =>
    simp only [leafOut, undecidable]
    cases hd : denote item path with
    | error p => simp
    | ok v =>
      cases hl : litOperand lit with
      | none => simp
      | some kr =>
        obtain ⟨kind, r⟩ := kr
        cases hk : cmpOfKind k with
        | none => simp
        | some op =>
          cases ha : apply lower kind op v r with
          | ok b c => simp [ha]
          | panic c => simp [ha]
          | err e c =>
            simp only [ha]
            constructor
            · intro _; exact ⟨v, kind, r, op, e, c, rfl, rfl, rfl, ha⟩
            · intro _; cases e <;> rfl

/-- null tests and presence tests are always decided -/
theorem C16_null_decided (lower : Bytes → Bytes) (item : List (Bytes × Value)) (path : List String) (eqne : Bool) :
    (leafOut lower item (.compare path (if eqne then 13 else 14) .null)).dbg = none := by
  simp only [leafOut, litOperand]
  cases denote item path with
  | error p => rfl
  | ok v => cases eqne <;> simp [cmpOfKind, apply, nullOp]

theorem C16_present_decided (lower : Bytes → Bytes) (item : List (Bytes × Value)) (path : List String) :
    (leafOut lower item (.present path)).dbg = none := by
  simp only [leafOut]; split <;> rfl

/-- the diagnostic of a rule is that of the last reached comparison that has one -/
theorem dbg_isSome_iff (lower : Bytes → Bytes) (item : List (Bytes × Value)) (t : Tree) :
    (evalOut lower item t).dbg.isSome = true ↔ ∃ l ∈ reached lower item t, (leafOut lower item l).dbg.isSome = true := by
  induction t with
  | present p => simp [evalOut, reached]
  | compare p k v => simp [evalOut, reached]
  | paren neg q ih => rw [(evalOut_paren_res lower item neg q).2.2.2, ih]; simp [reached]
  | logical op l r ihl ihr =>
    cases hv : isVerdict (evalOut lower item l).res with
    | false =>
      obtain ⟨e1, e2⟩ := evalOut_logical_stop lower item op l r hv
      rw [e1, e2]; exact ihl
    | true =>
      obtain ⟨x, hx⟩ : ∃ x, (evalOut lower item l).res = .verdict x := by
        cases hr : (evalOut lower item l).res <;> simp_all [isVerdict]
      cases hs : shortCircuits op x with
      | true =>
        obtain ⟨e1, e2⟩ := evalOut_logical_short lower item op l r x hx hs
        rw [e1, e2]; exact ihl
      | false =>
        obtain ⟨e1, e2⟩ := evalOut_logical_seq lower item op l r x hx hs
        rw [e1, e2]
        simp only [Out.seq, List.mem_append]
        constructor
        · intro h
          cases hb : (evalOut lower item r).dbg with
          | some d =>
            obtain ⟨y, hy, hd⟩ := ihr.1 (by simp [hb])
            exact ⟨y, Or.inr hy, hd⟩
          | none =>
            simp only [hb, Option.orElse] at h
            obtain ⟨y, hy, hd⟩ := ihl.1 h
            exact ⟨y, Or.inl hy, hd⟩
        · rintro ⟨y, hy | hy, hd⟩
          · have := ihl.2 ⟨y, hy, hd⟩
            cases hb : (evalOut lower item r).dbg <;> simp_all [Option.orElse]
          · have := ihr.2 ⟨y, hy, hd⟩
            cases hb : (evalOut lower item r).dbg <;> simp_all [Option.orElse]

/-- **C16.** `LastDebugErr()` is non-nil exactly when some comparison that was actually reached could not be decided –
for every call, also one that ends in a recovered panic (with repair D10 `Process` keeps the diagnostic gathered before
the panic; before it this needed the hypothesis "the call did not end in a recovered panic"). -/
theorem C16_iff (lower : Bytes → Bytes) (item : List (Bytes × Value)) (t : Tree) :
    (processTree lower t item).debug.isSome = true ↔ ∃ l ∈ reached lower item t, undecidable lower item l := by
  rw [processTree_eq]
  have : (toProc (evalOut lower item t)).debug = (evalOut lower item t).dbg := by
    unfold toProc
    cases hr : (evalOut lower item t).res <;> rfl
  rw [this, dbg_isSome_iff]
  constructor
  · rintro ⟨l, hl, hd⟩; exact ⟨l, hl, (C16_leaf lower item l).1 hd⟩
  · rintro ⟨l, hl, hu⟩; exact ⟨l, hl, (C16_leaf lower item l).2 hu⟩

/-- non-vacuity of the panic case: `x eq 1 or s eq "a"` with `x` absent and `s` a Stringer whose `String()` panics –
the call ends in a recovered panic and the diagnostic of the first comparison is still reported -/
example : (processTree id (.logical "or" (.compare ["x"] 13 (.long false "1" none)) (.compare ["s"] 13 (.str "\"a\"")))
    [(bytesOf "s", .stringer 7 .panics)]) = { verdict := false, err := some (.panic .stringer), debug := some .missing, calls := [7] } := by
  decide +kernel

theorem C16_decided_nil (lower : Bytes → Bytes) (item : List (Bytes × Value)) (t : Tree)
    (h : ∀ l ∈ reached lower item t, ¬ undecidable lower item l) :
    (processTree lower t item).debug = none := by
  rw [processTree_eq]
  have hd : (evalOut lower item t).dbg = none := by
    cases hh : (evalOut lower item t).dbg with
    | none => rfl
    | some d =>
      obtain ⟨l, hl, hs⟩ := (dbg_isSome_iff lower item t).1 (by simp [hh])
      exact absurd ((C16_leaf lower item l).1 hs) (h l hl)
  unfold toProc
  cases (evalOut lower item t).res <;> simp [hd]

/-- non-vacuity: `x le 1.5` on x = "s" (the D7 witness) is undecidable and has a diagnostic -/
example : (evalOut id [(bytesOf "x", .str (bytesOf "s"))] (.compare ["x"] 18 (.double "1.5"))).dbg = some .invalidOperand := by
  decide +kernel

end Rules
