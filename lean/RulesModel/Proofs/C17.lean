import RulesModel.Proofs.C06
/-!
# C17 — Rules obey the laws of Boolean algebra, including failures

For **all** sub-rules A, B, C (any size) and every object, on the compositional semantics `evalOut` (which is what
`Process` computes, `processTree_eq`): double negation, both De Morgan laws and associativity hold as *equalities of
the whole outcome* (verdict or failure, diagnostic and Stringer call order); idempotence and – when A and B cannot
fail – commutativity hold for the outcome class (`sameOutcome`: same verdict, or both fail).
-/
namespace Rules
open Rules.P (Tree Lit Kind)

/-- "same verdict, or both fail" -/
def sameOutcome (a b : Out) : Prop :=
  match a.res, b.res with
  | .verdict x, .verdict y => x = y
  | .verdict _, _ => False
  | _, .verdict _ => False
  | _, _ => True

theorem sameOutcome_of_eq {a b : Out} (h : a = b) : sameOutcome a b := by
  subst h; unfold sameOutcome; cases a.res <;> simp

def Not' (t : Tree) : Tree := .paren true t
def And' (a b : Tree) : Tree := .logical "and" a b
def Or' (a b : Tree) : Tree := .logical "or" a b

section
variable (lower : Bytes → Bytes) (item : List (Bytes × Value))
local notation "E" => evalOut lower item

theorem C17_double_negation (A : Tree) : E (Not' (Not' A)) = E A := by
  simp only [Not', evalOut]
  cases hr : (E A).res with
  | verdict b => cases b <;> simp [hr] <;> (cases h : E A; simp_all)
  | fail e => simp [hr]
  | panic p => simp [hr]

theorem C17_de_morgan_and (A B : Tree) : E (Not' (And' A B)) = E (Or' (Not' A) (Not' B)) := by
  simp only [Not', And', Or', evalOut]
  cases hr : (E A).res with
  | fail e => simp [hr]
  | panic p => simp [hr]
  | verdict a =>
    cases a with
    | false => simp [hr]
    | true =>
      simp only [hr, Out.seq]
      cases hb : (E B).res with
      | verdict b => cases b <;> simp [hb]
      | fail e => simp [hb]
      | panic p => simp [hb]

theorem C17_de_morgan_or (A B : Tree) : E (Not' (Or' A B)) = E (And' (Not' A) (Not' B)) := by
  simp only [Not', And', Or', evalOut]
  cases hr : (E A).res with
  | fail e => simp [hr]
  | panic p => simp [hr]
  | verdict a =>
    cases a with
    | true => simp [hr]
    | false =>
      simp only [hr, Out.seq]
      cases hb : (E B).res with
      | verdict b => cases b <;> simp [hb]
      | fail e => simp [hb]
      | panic p => simp [hb]

theorem orElse_assoc (a b c : Option Dbg) :
    (c.orElse fun _ => b.orElse fun _ => a) = ((c.orElse fun _ => b).orElse fun _ => a) := by
  cases c <;> cases b <;> simp [Option.orElse]

theorem C17_assoc_and (A B C : Tree) : E (And' (And' A B) C) = E (And' A (.paren false (And' B C))) := by
  simp only [And', evalOut]
  cases hr : (E A).res with
  | fail e => simp [hr]
  | panic p => simp [hr]
  | verdict a =>
    cases a with
    | false => simp [hr]
    | true =>
      simp only [hr, Out.seq]
      cases hb : (E B).res with
      | fail e => simp [hb]
      | panic p => simp [hb]
      | verdict b =>
        cases b with
        | false => simp [hb]
        | true =>
          simp only [hb]
          cases hc : (E C).res <;> simp [hc, List.append_assoc, Option.or_assoc]

theorem C17_assoc_or (A B C : Tree) : E (Or' (Or' A B) C) = E (Or' A (.paren false (Or' B C))) := by
  simp only [Or', evalOut]
  cases hr : (E A).res with
  | fail e => simp [hr]
  | panic p => simp [hr]
  | verdict a =>
    cases a with
    | true => simp [hr]
    | false =>
      simp only [hr, Out.seq]
      cases hb : (E B).res with
      | fail e => simp [hb]
      | panic p => simp [hb]
      | verdict b =>
        cases b with
        | true => simp [hb]
        | false =>
          simp only [hb]
          cases hc : (E C).res <;> simp [hc, List.append_assoc, Option.or_assoc]

theorem C17_idem_and (A : Tree) : sameOutcome (E (And' A A)) (E A) := by
  simp only [And', evalOut, sameOutcome]
  cases hr : (E A).res with
  | fail e => simp [hr]
  | panic p => simp [hr]
  | verdict a => cases a <;> simp [hr, Out.seq]

theorem C17_idem_or (A : Tree) : sameOutcome (E (Or' A A)) (E A) := by
  simp only [Or', evalOut, sameOutcome]
  cases hr : (E A).res with
  | fail e => simp [hr]
  | panic p => simp [hr]
  | verdict a => cases a <;> simp [hr, Out.seq]

/-- A cannot fail on this object: none of its comparisons fails or panics, reached or not -/
def cannotFail (A : Tree) : Prop := ∀ l ∈ leaves A, isVerdict (leafOut lower item l).res = true

theorem C17_comm_and (A B : Tree) (ha : cannotFail lower item A) (hb : cannotFail lower item B) :
    sameOutcome (E (And' A B)) (E (And' B A)) := by
  have h1 := C01_combination lower item A ha
  have h2 := C01_combination lower item B hb
  generalize boolOf (fun l => verdictOf (leafOut lower item l)) A = x at h1
  generalize boolOf (fun l => verdictOf (leafOut lower item l)) B = y at h2
  simp only [And', evalOut, sameOutcome, h1, h2, Out.seq]
  cases x <;> cases y <;> simp [h1, h2]

theorem C17_comm_or (A B : Tree) (ha : cannotFail lower item A) (hb : cannotFail lower item B) :
    sameOutcome (E (Or' A B)) (E (Or' B A)) := by
  have h1 := C01_combination lower item A ha
  have h2 := C01_combination lower item B hb
  generalize boolOf (fun l => verdictOf (leafOut lower item l)) A = x at h1
  generalize boolOf (fun l => verdictOf (leafOut lower item l)) B = y at h2
  simp only [Or', evalOut, sameOutcome, h1, h2, Out.seq]
  cases x <;> cases y <;> simp [h1, h2]

end

/-- transported to `Process`: both sides of a law return the same observable result -/
theorem C17_process_de_morgan_and (lower : Bytes → Bytes) (item : List (Bytes × Value)) (A B : Tree) :
    processTree lower (Not' (And' A B)) item = processTree lower (Or' (Not' A) (Not' B)) item := by
  rw [processTree_eq, processTree_eq, C17_de_morgan_and]

theorem C17_process_double_negation (lower : Bytes → Bytes) (item : List (Bytes × Value)) (A : Tree) :
    processTree lower (Not' (Not' A)) item = processTree lower A item := by
  rw [processTree_eq, processTree_eq, C17_double_negation]

/-- non-vacuity: De Morgan where B fails and is reached on one side only if the law were wrong -/
example :
    let A := Tree.compare ["x"] 13 (.long false "1" none)
    let B := Tree.compare ["y"] 15 (.bool "true")
    (evalOut id [(bytesOf "x", .int 2)] (Not' (And' A B))).res = .verdict true ∧
    (evalOut id [(bytesOf "x", .int 1)] (Not' (And' A B))).res = .fail .invalidOperation := by decide +kernel

end Rules
