import RulesModel.Proofs.C03
import RulesModel.Proofs.C04
import RulesModel.Proofs.C09
/-!
# C18 — Each typed comparison family is a consistent order

`OrderLaws r` for the six answers `r op` on one pair of operands: exactly one of lt/eq/gt, `ne = !eq`,
`le = lt || eq`, `ge = gt || eq`. Proved for the functions that transcribe the exported `Operation` methods
(direct calls) – hence, by `leafOut`, for the six single-comparison rules:
* integers (`intRel`, all of ℤ), decimals (`floatRel`, operands not NaN – through `F64.val` into a linear order),
  strings (`strRel` on the lower-cased bytes), versions (`verRel` of the precedence);
* monotone in the literal: `a lt v`, `v ≤ w` ⇒ `a lt w`; `a gt w`, `v ≤ w` ⇒ `a gt v` – for each family
  (versions: through `good_version`);
* not comparable ⇒ all six false (`C03_non_numeric`, `C04_non_string`, `C09_other`: an operand error is `verdict false`).
-/
namespace Rules
open Rules.F64

structure OrderLaws (r : CmpOp → Bool) : Prop where
  tri : (r .lt = true ∧ r .eq = false ∧ r .gt = false) ∨ (r .lt = false ∧ r .eq = true ∧ r .gt = false) ∨
        (r .lt = false ∧ r .eq = false ∧ r .gt = true)
  ne : r .ne = !r .eq
  le : r .le = (r .lt || r .eq)
  ge : r .ge = (r .gt || r .eq)

theorem C18_int (a n : Int) : OrderLaws (fun op => intRel op a n) := by
  constructor
  · simp only [intRel, beq_iff_eq, decide_eq_true_eq, decide_eq_false_iff_not]
    rcases Int.lt_trichotomy a n with h | h | h
    · left; refine ⟨h, ?_, ?_⟩ <;> simp <;> omega
    · right; left; subst h; simp
    · right; right; refine ⟨?_, ?_, h⟩ <;> simp <;> omega
  · rfl
  · apply Bool.eq_iff_iff.2; simp only [intRel, Bool.or_eq_true, decide_eq_true_eq, beq_iff_eq]; omega
  · apply Bool.eq_iff_iff.2; simp only [intRel, Bool.or_eq_true, decide_eq_true_eq, beq_iff_eq]; omega

theorem C18_int_mono (a v w : Int) (h : v ≤ w) :
    (intRel .lt a v = true → intRel .lt a w = true) ∧ (intRel .gt a w = true → intRel .gt a v = true) := by
  simp only [intRel, decide_eq_true_eq]; constructor <;> intro <;> omega

theorem C18_float (a b : F64) (ha : a.isNaN = false) (hb : b.isNaN = false) : OrderLaws (fun op => floatRel op a b) := by
  have hlt := lt_iff a b ha hb
  have hgt := lt_iff b a hb ha
  have heq := eq_iff a b ha hb
  have b2 : ∀ x : Bool, x = false ↔ ¬ x = true := by intro x; cases x <;> simp
  constructor
  · simp only [floatRel, F64.gt, b2, hlt, hgt, heq]
    rcases lt_trichotomy (val a) (val b) with h | h | h
    · left; exact ⟨h, ne_of_lt h, not_lt_of_gt h⟩
    · right; left; exact ⟨by rw [h]; exact lt_irrefl _, h, by rw [h]; exact lt_irrefl _⟩
    · right; right; exact ⟨not_lt_of_gt h, ne_of_gt h, h⟩
  · rfl
  · rfl
  · rfl

theorem C18_float_mono (a v w : F64) (ha : a.isNaN = false) (hv : v.isNaN = false) (hw : w.isNaN = false)
    (h : val v ≤ val w) :
    (floatRel .lt a v = true → floatRel .lt a w = true) ∧ (floatRel .gt a w = true → floatRel .gt a v = true) := by
  simp only [floatRel, F64.gt, lt_iff a v ha hv, lt_iff a w ha hw, lt_iff w a hw ha, lt_iff v a hv ha]
  exact ⟨fun h1 => lt_of_lt_of_le h1 h, fun h1 => lt_of_le_of_lt h h1⟩

theorem C18_str (a b : Bytes) : OrderLaws (fun op => strRel op a b) := by
  have t := bytesLt_trichotomy a b
  constructor
  · simp only [strRel, beq_iff_eq, beq_eq_false_iff_ne]
    rcases t with h | h | h
    · left; exact ⟨h.1, h.2.1, h.2.2⟩
    · right; left; exact ⟨h.1, h.2.1, h.2.2⟩
    · right; right; exact ⟨h.1, h.2.1, h.2.2⟩
  · rfl
  · rfl
  · rfl

theorem C18_str_mono (a v w : Bytes) (h : bytesLt v w = true ∨ v = w) :
    (strRel .lt a v = true → strRel .lt a w = true) ∧ (strRel .gt a w = true → strRel .gt a v = true) := by
  simp only [strRel]
  rcases h with h | h
  · exact ⟨fun h1 => bytesLt_trans _ _ _ h1 h, fun h1 => bytesLt_trans _ _ _ h h1⟩
  · subst h; exact ⟨id, id⟩

theorem C18_version (o : Ordering) : OrderLaws (fun op => verRel op o) := by
  cases o <;> constructor <;> decide

/-- monotone in the literal for versions: precedence is transitive (`good_version`) -/
theorem C18_version_mono (a v w : Sv.Version) (h : v.cmp w = .lt ∨ v.cmp w = .eq) :
    (verRel .lt (a.cmp v) = true → verRel .lt (a.cmp w) = true) ∧ (verRel .gt (a.cmp w) = true → verRel .gt (a.cmp v) = true) := by
  have g := Sv.good_version
  simp only [verRel, beq_iff_eq]
  constructor
  · intro h1
    rcases h with h | h
    · exact g.trans_lt _ _ _ h1 h
    · -- v ≈ w: comparisons against v and w agree
      have := g.eq_trans_l v w a h
      rw [g.swap a w, g.swap a v] at this
      have h2 : a.cmp w = a.cmp v := by
        cases hw : a.cmp w <;> cases hv : a.cmp v <;> simp_all [Ordering.swap]
      rw [h2, h1]
  · intro h1
    -- a > w means w < a
    have hwa : w.cmp a = .lt := by rw [g.swap a w, h1]; rfl
    rcases h with h | h
    · have := g.trans_lt _ _ _ h hwa
      rw [g.swap v a, this]; rfl
    · have := g.eq_trans_l v w a h
      rw [hwa] at this
      rw [g.swap v a, ← this]; rfl

/-- the same laws for the six single-comparison rules on one object (integers shown; the other families are the
same composition of `leafOut` with the family theorem) -/
theorem C18_leaf_int (lower : Bytes → Bytes) (left : Value) (a n : Int) (hl : toIntL left = some a) :
    OrderLaws (fun op => match apply lower .int op left (.int n) with | .ok b _ => b | _ => false) := by
  have h : ∀ op, isRelational op = true → apply lower .int op left (.int n) = .ok (intRel op a n) [] :=
    fun op hop => C03_int_int lower op hop left a n hl
  have L := C18_int a n
  constructor
  · simpa [h .lt rfl, h .eq rfl, h .gt rfl] using L.tri
  · simpa [h .ne rfl, h .eq rfl] using L.ne
  · simpa [h .le rfl, h .lt rfl, h .eq rfl] using L.le
  · simpa [h .ge rfl, h .gt rfl, h .eq rfl] using L.ge

end Rules
