import RulesModel.Model.NestedError
/-!
# C19 — Nested diagnostic errors keep their cause and their context

On the `NestedError` model (`Model/NestedError.lean`), for every nesting depth and every sequence of `Set` calls:
* `C19_original`     : `Original()` is the innermost non-nested cause;
* `C19_idempotent`   : calling `Error()` again returns the same text and leaves the same error (although the first
                       call writes `err`/`msg` into `Vals` of every layer);
* `C19_error_json`   : when every attached value is encodable the text is the JSON object of the attached values with
                       `err` = text of the cause and `msg` = the message, keys sorted;
* `C19_error_fallback` : otherwise it is the plain text `msg: cause`;
* `C19_set_override` : `Set` calls merge key by key, later calls overriding earlier ones.
`Error()` terminates on every input – the definition only passed Lean's termination checker with the invariant
that `Error()` does not change the nesting depth.
-/
namespace Rules.NE

/-- the innermost plain cause -/
def bottom : NE → String
  | .leaf t => t
  | .nest c _ _ => bottom c

theorem C19_original (e : NE) : original e = .leaf (bottom e) := by
  induction e with
  | leaf t => rfl
  | nest c msg vals ih =>
    cases c with
    | leaf t => rfl
    | nest c' m' v' => simpa [original, bottom] using ih

theorem error_leaf (t : String) : error (.leaf t) = (t, .leaf t) := by
  simp [error, errorAux]

/-- one unfolding of `Error()` on a nested error -/
theorem error_nest (c : NE) (msg : String) (vals : List (String × JVal)) :
    error (.nest c msg vals) =
      (let vals' := setKey "msg" (.enc (jsonString msg)) (setKey "err" (.enc (jsonString (error c).1)) vals)
       if encodable vals' then (renderObj vals', .nest (error c).2 msg vals')
       else (msg ++ ": " ++ (error (error c).2).1, .nest (error (error c).2).2 msg vals')) := by
  simp only [error]
  rw [errorAux]
  simp only []
  split <;> simp_all

theorem setKey_idem (k : String) (v : JVal) (l : List (String × JVal)) : setKey k v (setKey k v l) = setKey k v l := by
  induction l with
  | nil => simp [setKey]
  | cons kv rest ih =>
    obtain ⟨k', v'⟩ := kv
    simp only [setKey]
    by_cases h : k' = k
    · simp [h, setKey]
    · simp [h, setKey, ih]

theorem setKey_comm_idem (k1 k2 : String) (v1 v2 : JVal) (l : List (String × JVal)) (hne : k1 ≠ k2) :
    setKey k1 v1 (setKey k2 v2 (setKey k1 v1 l)) = setKey k2 v2 (setKey k1 v1 l) := by
  induction l with
  | nil => simp [setKey, hne, Ne.symm hne]
  | cons kv rest ih =>
    obtain ⟨k', v'⟩ := kv
    simp only [setKey]
    by_cases h1 : k' = k1
    · subst h1
      simp [setKey, hne]
    · by_cases h2 : k' = k2
      · subst h2; simp [h1, setKey, setKey_idem]
      · simp [h1, h2, setKey, ih]

/-- writing `err` and `msg` a second time with the same texts changes nothing -/
theorem stamp_idem (e m : JVal) (l : List (String × JVal)) :
    setKey "msg" m (setKey "err" e (setKey "msg" m (setKey "err" e l))) = setKey "msg" m (setKey "err" e l) := by
  rw [setKey_comm_idem "err" "msg" e m l (by decide), setKey_idem]

/-- **Idempotence.** A second `Error()` returns the same text and the same error value as the first. -/
theorem C19_idempotent (e : NE) : error (error e).2 = error e := by
  induction e with
  | leaf t => simp [error_leaf]
  | nest c msg vals ih =>
    rw [error_nest c msg vals]
    simp only []
    split
    · rename_i henc
      rw [error_nest]
      simp only [ih, stamp_idem, henc, if_true]
    · rename_i henc
      rw [error_nest]
      simp only [ih, stamp_idem, henc]
      simp

theorem C19_error_twice_text (e : NE) : (error (error e).2).1 = (error e).1 := by rw [C19_idempotent]

/-- all attached values (and `err`, `msg`) encodable ⇒ the JSON object with `err` and `msg` stamped in -/
theorem C19_error_json (c : NE) (msg : String) (vals : List (String × JVal))
    (h : encodable (setKey "msg" (.enc (jsonString msg)) (setKey "err" (.enc (jsonString (error c).1)) vals)) = true) :
    (error (.nest c msg vals)).1 =
      renderObj (setKey "msg" (.enc (jsonString msg)) (setKey "err" (.enc (jsonString (error c).1)) vals)) := by
  rw [error_nest]; simp [h]

/-- otherwise the plain text `msg: cause` -/
theorem C19_error_fallback (c : NE) (msg : String) (vals : List (String × JVal))
    (h : encodable (setKey "msg" (.enc (jsonString msg)) (setKey "err" (.enc (jsonString (error c).1)) vals)) = false) :
    (error (.nest c msg vals)).1 = msg ++ ": " ++ (error c).1 := by
  rw [error_nest]; simp [h, C19_idempotent]

/-- value bound to a key -/
def lookup (k : String) : List (String × JVal) → Option JVal
  | [] => none
  | (k', v) :: rest => if k' = k then some v else lookup k rest

theorem lookup_setKey (k k' : String) (v : JVal) (l : List (String × JVal)) :
    lookup k' (setKey k v l) = if k = k' then some v else lookup k' l := by
  induction l with
  | nil => simp [setKey, lookup]
  | cons kv rest ih =>
    obtain ⟨k2, v2⟩ := kv
    simp only [setKey]
    by_cases h : k2 = k
    · subst h; by_cases h' : k2 = k' <;> simp [lookup, h']
    · by_cases h' : k2 = k'
      · subst h'; simp [lookup, h, Ne.symm h]
      · simp [lookup, h, h', ih]

/-- the last binding of a key in a `Set` argument -/
def lastBinding (k : String) (new : List (String × JVal)) : Option JVal :=
  new.foldl (fun acc kv => if kv.1 = k then some kv.2 else acc) none

theorem lookup_merge_gen (k : String) (new : List (String × JVal)) : ∀ (vals : List (String × JVal)) (acc : Option JVal),
    lookup k vals = acc ∨ acc = none →
    lookup k (merge vals new) =
      (new.foldl (fun acc kv => if kv.1 = k then some kv.2 else acc) (lookup k vals)) := by
  induction new with
  | nil => intro vals acc _; simp [merge]
  | cons kv rest ih =>
    intro vals acc _
    simp only [merge, List.foldl_cons]
    have := ih (setKey kv.1 kv.2 vals) (lookup k (setKey kv.1 kv.2 vals)) (Or.inl rfl)
    simp only [merge] at this
    rw [this, lookup_setKey]

/-- **Set overrides key by key**: after `Set(v₁); Set(v₂)` a key has its last binding in `v₂`, else its last binding in
`v₁`, else what it had before. -/
theorem C19_set_override (k : String) (vals v1 v2 : List (String × JVal)) :
    lookup k (merge (merge vals v1) v2) =
      v2.foldl (fun acc kv => if kv.1 = k then some kv.2 else acc)
        (v1.foldl (fun acc kv => if kv.1 = k then some kv.2 else acc) (lookup k vals)) := by
  rw [lookup_merge_gen k v2 _ none (Or.inr rfl), lookup_merge_gen k v1 _ none (Or.inr rfl)]

/-- `Error()` never changes the cause -/
theorem C19_error_keeps_cause (e : NE) : bottom (error e).2 = bottom e := by
  induction e with
  | leaf t => simp [error_leaf, bottom]
  | nest c msg vals ih =>
    rw [error_nest]
    simp only []
    split
    · simpa [bottom] using ih
    · simp only [bottom, C19_idempotent]; exact ih

end Rules.NE
