import RulesModel.Proofs.C05
import RulesModel.Generated.Grammar
/-!
# C20 — The shipped lexer and parser implement the documented grammar

The model side *is* the documented grammar, and that is what is proved here:
* lexer, for **any** token table (`Model/Regex.lean`, `Model/Lexer.lean`): `deriv_iff`, `longest_spec` (longest matching
  prefix), `bestMatch_pos` (the chosen rule matches a non-empty prefix), `C20_maximal_munch` (no rule matches a longer
  prefix), `lexFuel_partition` (the token texts concatenate to the input);
* parser: `parse_iff` (sound and complete for the derivation relation `D` of JsonQuery.g4), `D_unique` (one reading);
* `lexParse_iff`: the executable recogniser accepts exactly the sentences;
* the named lexical facts, checked by the kernel on the table **regenerated from parser/JsonQuery.g4 on this run**:
  `order` is an attribute and `or` is not, `1.2.3` is a version and `1.2` a decimal, `<=` is one operator,
  `e5` is an attribute (ATTRNAME is listed before EXP), `1e5` is INT ATTRNAME, `e+5` is EXP, `~` is a lexical error.
The checked-in generated Go code is then compared with this model by the correspondence (tokens, accept/reject,
tree shape) – conformance of the generated code itself is not a theorem.
-/
namespace Rules
open Rules.Regex

/-- one step of the fold in `bestMatch` -/
def munchStep (s : List Char) (acc : Option (Kind × Nat)) (kr : Kind × Regex) : Option (Kind × Nat) :=
  match longest kr.2 s with
  | some n => if n = 0 then acc else
      match acc with
      | some (_, m) => if m < n then some (kr.1, n) else acc
      | none => some (kr.1, n)
  | none => acc

theorem bestMatch_eq_fold (rules : List (Kind × Regex)) (s : List Char) :
    bestMatch rules s = rules.foldl (munchStep s) none := by
  unfold bestMatch
  congr 1

/-- the accumulator of `bestMatch` only ever grows -/
theorem bestMatch_fold_max (s : List Char) (rs : List (Kind × Regex)) :
    ∀ (acc : Option (Kind × Nat)) (k : Kind) (n : Nat),
    rs.foldl (munchStep s) acc = some (k, n) →
    (∀ ka na, acc = some (ka, na) → na ≤ n) ∧
    (∀ kr ∈ rs, ∀ m, longest kr.2 s = some m → m ≤ n) := by
  induction rs with
  | nil =>
    intro acc k n h
    simp only [List.foldl_nil] at h
    exact ⟨fun ka na ha => by rw [ha] at h; cases h; exact Nat.le_refl _, fun _ hm => by cases hm⟩
  | cons x rs ih =>
    intro acc k n h
    simp only [List.foldl_cons] at h
    obtain ⟨h1, h2⟩ := ih _ k n h
    simp only [munchStep] at h1
    refine ⟨?_, ?_⟩
    · intro ka na ha
      subst ha
      cases hl : longest x.2 s with
      | none => simp only [hl] at h1; exact h1 ka na rfl
      | some m =>
        simp only [hl] at h1
        by_cases hm0 : m = 0
        · simp only [hm0, if_true] at h1; exact h1 ka na rfl
        · simp only [hm0, if_false] at h1
          by_cases hlt : na < m
          · simp only [hlt, if_true] at h1
            have := h1 x.1 m rfl; omega
          · simp only [hlt, if_false] at h1; exact h1 ka na rfl
    · intro kr hkr m hm
      rcases List.mem_cons.1 hkr with hx | hx
      · subst hx
        simp only [hm] at h1
        by_cases hm0 : m = 0
        · omega
        · simp only [hm0, if_false] at h1
          cases acc with
          | none => exact h1 kr.1 m rfl
          | some p =>
            obtain ⟨ka, na⟩ := p
            simp only at h1
            by_cases hlt : na < m
            · simp only [hlt, if_true] at h1; exact h1 kr.1 m rfl
            · simp only [hlt, if_false] at h1
              have := h1 ka na rfl; omega
      · exact h2 kr hx m hm

/-- **Maximal munch.** The token chosen at the head of `s` is at least as long as any prefix any rule matches. -/
theorem C20_maximal_munch (rules : List (Kind × Regex)) (s : List Char) (k : Kind) (n : Nat)
    (h : bestMatch rules s = some (k, n)) :
    ∀ kr ∈ rules, ∀ m, m ≤ s.length → Matches kr.2 (s.take m) → m ≤ n := by
  intro kr hkr m hm hmatch
  have hb := bestMatch_eq_fold rules s
  have hf := (bestMatch_fold_max s rules none k n (by rw [← hb]; exact h)).2 kr hkr
  have hs := longest_spec kr.2 s
  cases hl : longest kr.2 s with
  | none => simp only [hl] at hs; exact absurd hmatch (hs m hm)
  | some l =>
    simp only [hl] at hs
    have := hf l hl
    by_cases hml : l < m
    · exact absurd hmatch (hs.2.2 m hml hm)
    · omega

/-! ### named facts on the regenerated table -/

def genKinds (s : String) : Option (List Kind) := (lex Generated.lexerRules s.toList).map (·.map (·.kind))

theorem C20_order_is_attribute : genKinds "order eq 1" = some [22, 30, 13, 30, 26] := by decide +kernel
theorem C20_or_is_operator : genKinds "or" = some [9] := by decide +kernel
theorem C20_version_vs_decimal : genKinds "1.2.3" = some [23] ∧ genKinds "1.2" = some [25] := by decide +kernel
theorem C20_le_one_token : genKinds "<=" = some [18] ∧ genKinds "<" = some [16] := by decide +kernel
theorem C20_exponent_ties : genKinds "e5" = some [22] ∧ genKinds "1e5" = some [26, 22] ∧ genKinds "1e+5" = some [26, 27] := by
  decide +kernel
theorem C20_lexical_error : genKinds "x ~ 1" = none := by decide +kernel
theorem C20_attr_chars : genKinds "a-b_c:d9.E" = some [22, 4, 22] ∧ genKinds "9a" = some [26, 22] := by decide +kernel
theorem C20_minus_double : genKinds "-1.5" = some [25] ∧ genKinds "-1" = some [5, 26] := by decide +kernel

/-- the statement's grouping example read by the model recogniser on the regenerated table -/
theorem C20_grouping :
    lexParse Generated.lexerRules "a pr or b pr and c pr".toList =
      some (.logical "and" (.logical "or" (.present ["a"]) (.present ["b"])) (.present ["c"])) := by decide +kernel

theorem C20_rejects : lexParse Generated.lexerRules "x eq 1 AND y eq 2".toList = none ∧
    lexParse Generated.lexerRules "x lt 1e5".toList = none ∧ lexParse Generated.lexerRules "x eq 01".toList = none ∧
    lexParse Generated.lexerRules "not x eq 1".toList = none := by decide +kernel

end Rules
