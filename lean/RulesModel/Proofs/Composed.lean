import RulesModel.Proofs.SourceToSpec
import RulesModel.Proofs.C13
/-!
# The translated visitor running on the translated Operation methods

`Generated/Visitor.lean` is parametric in the implementation of `currentOperation.<OP>` (`Go.OpsImpl`). `Proofs/VisitorGen`
instantiates it with the model's table (`modelOps`); here it is instantiated with **the translated methods themselves**
(`genOps lower = GenOps.dispatch lower …`) and proved equal to the model's visitor from every clean state – the state
`Process` starts in and every comparison of an error-free evaluation starts in (`Refine.visit_spec`). So the whole
hand-written evaluation code, as read from the Go source on this run, computes the Spec outcome.
-/
namespace Rules.VisitorGen
open Rules Rules.Go Rules.Cst Rules.Gen
open Rules.P (Tok Tree Lit)

/-- `currentOperation.<OP>` implemented by the translated Operation methods -/
def genOps (lower : Bytes → Bytes) : OpsImpl := fun k op l r w => GenOps.dispatch lower k op (GoVal.ofV l) (GoVal.ofR r) w

theorem visitAttrPath_rightOp : ∀ (ks : List String) (s s1 : VState), visitAttrPath s ks = .ok s1 → s1.rightOp = s.rightOp
  | [], s, s1, h => by simp [visitAttrPath] at h; subst h; rfl
  | [k], s, s1, h => by
    simp only [visitAttrPath] at h
    split at h <;> simp at h <;> subst h <;> rfl
  | k :: k2 :: rest, s, s1, h => by
    simp only [visitAttrPath] at h
    split at h
    · simp at h; subst h; rfl
    · exact (visitAttrPath_rightOp (k2 :: rest) _ s1 h).trans rfl
    · simp at h

/-- a visit that returns without an error recorded leaves a clean state behind -/
theorem visit_ok_clean (lower : Bytes → Bytes) (t : Tree) (s s' : VState) (b : Bool) (hc : Clean s)
    (h : visit lower t s = .ok (b, s')) (he : s'.err = none) : Clean s' := by
  have hp := visit_spec lower t s hc
  unfold Post at hp
  cases hr : (evalOut lower s.item t).res with
  | panic p => simp [hr, h] at hp
  | fail e =>
    simp only [hr] at hp
    obtain ⟨b', s'', h1, h2, _⟩ := hp
    rw [h] at h1
    cases h1
    simp [he] at h2
  | verdict x =>
    simp only [hr] at hp
    obtain ⟨s'', h1, h2, _⟩ := hp
    rw [h] at h1
    cases h1
    exact h2

theorem acceptQuery_gen_spec (lower : Bytes → Bytes) (c : QueryCtx) : ∀ (j : J), Clean (toV j) →
    mapR (fun r => (r.1, toV r.2)) (acceptQuery (genOps lower) c j) = mapR (fun r => (some r.1, r.2)) (visit lower (abs c) (toV j)) := by
  induction c with
  | parenExp n q ih =>
    intro j hc
    have h1 := ih j hc
    revert h1
    simp only [acceptQuery, abs, visit]
    generalize acceptQuery (genOps lower) q j = x
    generalize visit lower (abs q) (toV j) = y
    rcases x with p | ⟨t1, j'⟩ <;> rcases y with p' | ⟨b, s'⟩ <;> simp [mapR]
    rintro rfl rfl
    cases n <;> simp [assertBool, mapR]
  | logicalExp l op r ihl ihr =>
    intro j hc
    have h1 := ihl j hc
    revert h1
    simp only [acceptQuery, abs, visit]
    generalize hx : acceptQuery (genOps lower) l j = x
    generalize hy : visit lower (abs l) (toV j) = y
    rcases x with p | ⟨t1, j'⟩ <;> rcases y with p' | ⟨b, s'⟩ <;> simp [mapR]
    rintro rfl rfl
    simp [assertBool]
    by_cases he : J_hasErr j' <;> simp [he, mapR]
    have hc' : Clean (toV j') := visit_ok_clean lower (abs l) (toV j) (toV j') b hc hy (by
      have : (toV j').err.isSome = J_hasErr j' := hasErr_toV j'
      cases h : (toV j').err <;> simp_all)
    by_cases ho : op.text = "or" <;> cases b <;> simp [ho, mapR]
    all_goals
      (have h2 := ihr j' hc'
       revert h2
       generalize acceptQuery (genOps lower) r j' = x
       generalize visit lower (abs r) (toV j') = y
       rcases x with p | ⟨t1, j''⟩ <;> rcases y with p' | ⟨b, s''⟩ <;> simp [mapR, assertBool]
       rintro rfl rfl; simp [assertBool])
  | presentExp p =>
    intro j _
    have h1 := acceptAttrPath_spec p j
    revert h1
    simp only [acceptQuery, abs, visit, visitPresent]
    generalize acceptAttrPath p j = x
    generalize visitAttrPath (toV j) (absPath p) = y
    rcases x with p | ⟨t1, j'⟩ <;> rcases y with p' | s' <;> simp [mapR]
    rintro rfl; simp [toV, Go.isNilV]
  | compareExp p op v =>
    intro j hc
    have h1 := acceptAttrPath_spec p j
    revert h1
    simp only [acceptQuery, abs, visit, visitCompare]
    generalize acceptAttrPath p j = x
    generalize hy : visitAttrPath (toV j) (absPath p) = y
    rcases x with pp | ⟨t1, j1⟩ <;> rcases y with pp' | s1 <;> simp [mapR]
    rintro rfl
    have hr1 : (toV j1).rightOp = .nil := (visitAttrPath_rightOp _ _ _ hy).trans hc.rightOp
    have h2 := acceptValue_spec v j1
    revert h2
    generalize acceptValue v j1 = x
    generalize hy2 : visitLit (toV j1) (absValue v) = y
    rcases x with pp | ⟨t2, j2⟩ <;> rcases y with pp' | s2 <;> simp [mapR]
    rintro rfl
    have hro : ∀ k, j2.currentOperation = some k → OpsGen.RightOK k j2.rightOp := fun k hk =>
      OpsGen.visitLit_rightOK (toV j1) (toV j2) (absValue v) hr1 hy2 k hk
    by_cases he : J_hasErr j2 <;> simp [he, mapR]
    obtain ⟨item, st, cur, l, r, er, d, calls⟩ := j2
    rcases kind_cases op.kind with h | h | h | h | h | h | h | h | h | h | h
    all_goals
      (simp [h, cmpOfKind, methodVal, toV]
       cases cur <;> simp [raise, mapR, callOp, genOps, J_setErr, clsErr]
       try (rename_i k
            rw [OpsGen.dispatch_spec lower k _ l r calls (hro k rfl)]
            generalize Rules.apply lower _ _ l r = res
            rcases res with ⟨b, c⟩ | ⟨e, c⟩ | c <;> simp [mapR, embed]
            cases e <;> simp [J_setErr, J_setDebugErr, clsErr, clsDbg, newNestedError, GErr.Set]))

theorem visit_top_gen_spec (lower : Bytes → Bytes) (c : QueryCtx) (j : J) (hc : Clean (toV j)) :
    mapR (fun r => (r.1, toV r.2)) (J_Visit (genOps lower) j c) = mapR (fun r => (some r.1, r.2)) (visit lower (abs c) (toV j)) := by
  have h1 := acceptQuery_gen_spec lower c j hc
  have h : J_hasErr j = false := by
    have := hasErr_toV j
    rw [hc.err] at this
    simpa using this.symm
  revert h1
  unfold J_Visit
  simp only [h]
  generalize acceptQuery (genOps lower) c j = x
  generalize visit lower (abs c) (toV j) = y
  cases c <;> rcases x with p | ⟨t1, j'⟩ <;> rcases y with p' | ⟨b, s'⟩ <;> simp [mapR] <;> rintro rfl rfl <;> simp [assertBool]

/-- `Evaluator.Process` (transcribed as in `genProcess`) over the translated visitor **and** the translated Operation methods -/
def genProcessT (lower : Bytes → Bytes) (c : QueryCtx) (item : List (Bytes × Value)) : ProcOut :=
  match J_Visit (genOps lower) (NewJsonQueryVisitorImpl item) c with
  | .error p => { verdict := false, err := some (.panic p.p), debug := p.debug, calls := p.calls }
  | .ok (result, visitor) =>
    match result, visitor.err with
    | _, some e => { verdict := false, err := some (clsErr e), debug := visitor.debugErr.map clsDbg, calls := visitor.calls }
    | none, none => { verdict := false, err := none, debug := visitor.debugErr.map clsDbg, calls := visitor.calls }
    | some b, none => { verdict := b, err := none, debug := visitor.debugErr.map clsDbg, calls := visitor.calls }

/-- **all the hand-written evaluation code as translated = the model** -/
theorem genProcessT_eq (lower : Bytes → Bytes) (c : QueryCtx) (item : List (Bytes × Value)) :
    genProcessT lower c item = processTree lower (abs c) item := by
  have h1 := visit_top_gen_spec lower c (NewJsonQueryVisitorImpl item) (by rw [new_spec]; exact clean_init item)
  rw [new_spec] at h1
  revert h1
  unfold genProcessT processTree
  generalize J_Visit (genOps lower) (NewJsonQueryVisitorImpl item) c = x
  generalize visit lower (abs c) (VState.init item) = y
  rcases x with p | ⟨t1, j'⟩ <;> rcases y with p' | ⟨b, s'⟩ <;> simp [mapR]
  · rintro rfl; exact ⟨rfl, rfl, rfl⟩
  · rintro rfl rfl
    obtain ⟨item, st, cur, l, r, er, d, calls⟩ := j'
    cases er <;> simp [toV]

end Rules.VisitorGen

namespace Rules
open Rules.P (Tree Kind)
open Rules.Cst (QueryCtx abs)

/-- **Every rule text, every object, through the translated code only.** As `source_to_spec`, with every
`currentOperation.<OP>` call going to the translated Operation methods: lexer table regenerated from the `.g4`, parser =
grammar relation, visitor and operations read from the Go source on this run – ending in the Spec outcome the property
theorems are about. What remains hand-transcribed on this path is `NewEvaluator`/`Process` around the visitor (15 lines of
Go) and the meaning of the target constructs (`GoRT`, `GoRTOps`, `Cst`). -/
theorem source_to_spec_translated (rules : List (Kind × Regex)) (lower : Bytes → Bytes) (text : List Char) (item : List (Bytes × Value)) :
    (¬ Sentence rules (trimSpace text) ∧ rulesEvaluate rules lower text item = syntaxOut) ∨
    (∃ ts t c, lex rules (trimSpace text) = some ts ∧ P.D false (ts.map toTok) t ∧ abs c = t ∧
        VisitorGen.genProcessT lower c item = toProc (evalOut lower item t)) := by
  rcases source_to_spec rules lower text item with h | ⟨ts, t, c, hl, hd, hc, hg, _⟩
  · exact Or.inl h
  · refine Or.inr ⟨ts, t, c, hl, hd, hc, ?_⟩
    rw [VisitorGen.genProcessT_eq, hc, processTree_eq]

/-- non-vacuity: a rule with a nested path, a list, a negation, both connectives and a Stringer attribute, evaluated by the
translated visitor calling the translated Operation methods, in the kernel -/
example : VisitorGen.genProcessT id
    (.logicalExp (.parenExp (some ⟨8, "not"⟩) (.compareExp (.mk ⟨22, "a"⟩ (some (.mk ⟨22, "b"⟩ none))) ⟨12, "in"⟩ (.listOfInts (.mk ⟨26, "1"⟩ (some (.mk ⟨26, "2"⟩ none))))))
      ⟨9, "and"⟩ (.compareExp (.mk ⟨22, "x"⟩ none) ⟨19, "co"⟩ (.string "\"S\"")))
    [(bytesOf "a", .obj [(bytesOf "b", .int 3)]), (bytesOf "x", .stringer 7 (.ret (bytesOf "xSy")))]
    = { verdict := true, err := none, debug := none, calls := [7] } := by decide +kernel
end Rules

namespace Rules.VisitorGen
open Rules Rules.Go Rules.Cst Rules.Gen

/-- **C13 on the translated code.** The visitor as translated from the Go source, calling the translated Operation
methods, never assigns the register that holds the input object: after any (sub-)rule, from any clean state, it still
holds the object it was given (and the translation accepts no statement that writes through a map or slice of the input:
such a function is `unsupported`, §4.4). -/
theorem translated_frame (lower : Bytes → Bytes) (c : QueryCtx) (j j' : J) (r : Ret) (hc : Clean (toV j))
    (h : acceptQuery (genOps lower) c j = .ok (r, j')) : j'.item = j.item := by
  have hs := acceptQuery_gen_spec lower c j hc
  rw [h] at hs
  cases hv : visit lower (abs c) (toV j) with
  | error p => simp [hv, mapR] at hs
  | ok bs =>
    obtain ⟨b, s'⟩ := bs
    simp only [hv, mapR, Except.ok.injEq, Prod.mk.injEq] at hs
    have := C13_frame lower (abs c) (toV j) b s' hv
    rw [← hs.2] at this
    simpa [toV] using this
end Rules.VisitorGen
