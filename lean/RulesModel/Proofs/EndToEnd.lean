import RulesModel.Proofs.C05
import RulesModel.Proofs.C06
/-!
# End to end: rule text and object ↦ outcome

`rules.Evaluate` / `NewEvaluator`+`Process` on a rule text is: trim, lex with the token table, parse, and take the
observable of the compositional outcome – or the syntax error when the trimmed text is not a sentence. This composes
`lexParse_iff` (recogniser = grammar), `parse_iff` (parser = derivation relation), `processTree_eq` (visitor = `evalOut`).
-/
namespace Rules
open Rules.P (Tree Kind)

theorem rulesEvaluate_sentence (rules : List (Kind × Regex)) (lower : Bytes → Bytes) (text : List Char) (t : Tree)
    (h : lexParse rules (trimSpace text) = some t) (item : List (Bytes × Value)) :
    rulesEvaluate rules lower text item = toProc (evalOut lower item t) := by
  simp [rulesEvaluate, newEvaluator, Evaluator.process, Evaluator.processWith, h, processTree_eq]

/-- every text, every object: the outcome of all three entry points, in one statement -/
theorem rulesEvaluate_total (rules : List (Kind × Regex)) (lower : Bytes → Bytes) (text : List Char) (item : List (Bytes × Value)) :
    (¬ Sentence rules (trimSpace text) ∧ rulesEvaluate rules lower text item = syntaxOut) ∨
    (∃ ts t, lex rules (trimSpace text) = some ts ∧ P.D false (ts.map toTok) t ∧
        rulesEvaluate rules lower text item = toProc (evalOut lower item t)) := by
  cases hp : lexParse rules (trimSpace text) with
  | none =>
    left
    have hns : ¬ Sentence rules (trimSpace text) := by
      intro hs
      obtain ⟨t, ht⟩ := (lexParse_iff rules _).2 hs
      rw [hp] at ht; cases ht
    exact ⟨hns, (C05_only_sentences rules lower text hns item).1⟩
  | some t =>
    right
    unfold lexParse at hp
    cases hl : lex rules (trimSpace text) with
    | none => simp [hl] at hp
    | some ts =>
      simp only [hl] at hp
      refine ⟨ts, t, rfl, (P.parse_iff _ _).1 hp, ?_⟩
      exact rulesEvaluate_sentence rules lower text t (by unfold lexParse; simp [hl, hp]) item

/-- the error a rule text reports (other than the syntax error) is the failure of the first failing comparison that is
reached: no comparison after it is reached -/
theorem first_failure_is_last_reached (lower : Bytes → Bytes) (item : List (Bytes × Value)) (t : Tree) (e : EvalErr)
    (h : (evalOut lower item t).res = .fail e) :
    ∃ pre last, reached lower item t = pre ++ [last] ∧ (leafOut lower item last).res = .fail e ∧
      ∀ l ∈ pre, isVerdict (leafOut lower item l).res = true := by
  obtain ⟨pre, last, h1, h2, h3⟩ := (C06_reached_shape lower item t).2 (by simp [isVerdict, h])
  exact ⟨pre, last, h1, by rw [h3, h], h2⟩

end Rules
