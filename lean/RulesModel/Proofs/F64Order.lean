import RulesModel.Model.F64
import Mathlib.Tactic.Linarith
import Mathlib.Tactic.Ring
import Mathlib.Tactic.Positivity
import Mathlib.Tactic.FieldSimp
import Mathlib.Algebra.Order.Field.Power
import Mathlib.Data.Rat.Defs

namespace Rules.F64

/-- mathematical value of a finite binary64 -/
def finVal (neg : Bool) (m : Nat) (e : Int) : ℚ := (if neg then -(m : ℚ) else (m : ℚ)) * (2 : ℚ) ^ e

theorem scale_eq (v : Int) (e e0 : Int) (h : e0 ≤ e) :
    ((v * 2 ^ (e - e0).toNat : Int) : ℚ) = (v : ℚ) * (2 : ℚ) ^ e / (2 : ℚ) ^ e0 := by
  have h2 : (2 : ℚ) ≠ 0 := by norm_num
  have : ((e - e0).toNat : Int) = e - e0 := Int.toNat_of_nonneg (by omega)
  push_cast
  rw [div_eq_mul_inv, ← zpow_neg, mul_assoc, ← zpow_add₀ h2]
  congr 1
  rw [← zpow_natCast, this]
  congr 1

theorem cmpFin_eq (n1 : Bool) (m1 : Nat) (e1 : Int) (n2 : Bool) (m2 : Nat) (e2 : Int) :
    cmpFin n1 m1 e1 n2 m2 e2 = compare (finVal n1 m1 e1) (finVal n2 m2 e2) := by
  unfold cmpFin finVal
  simp only
  set v1 : Int := if n1 then -(m1 : Int) else m1 with hv1
  set v2 : Int := if n2 then -(m2 : Int) else m2 with hv2
  have c1 : (if n1 then -(m1 : ℚ) else (m1 : ℚ)) = (v1 : ℚ) := by cases n1 <;> simp [hv1]
  have c2 : (if n2 then -(m2 : ℚ) else (m2 : ℚ)) = (v2 : ℚ) := by cases n2 <;> simp [hv2]
  rw [c1, c2]
  have hp : (0 : ℚ) < (2 : ℚ) ^ (min e1 e2) := by positivity
  have s1 := scale_eq v1 e1 (min e1 e2) (min_le_left _ _)
  have s2 := scale_eq v2 e2 (min e1 e2) (min_le_right _ _)
  -- compare on Int agrees with compare on ℚ after the (positive) common scaling
  have key : ∀ a b : Int, compare a b = compare (a : ℚ) (b : ℚ) := by
    intro a b
    rcases lt_trichotomy a b with h | h | h
    · rw [compare_lt_iff_lt.2 h, compare_lt_iff_lt.2 (by exact_mod_cast h)]
    · subst h; simp
    · rw [compare_gt_iff_gt.2 h, compare_gt_iff_gt.2 (by exact_mod_cast h)]
  rw [key, s1, s2]
  rcases lt_trichotomy ((v1 : ℚ) * 2 ^ e1) ((v2 : ℚ) * 2 ^ e2) with h | h | h
  · rw [compare_lt_iff_lt.2 h, compare_lt_iff_lt.2 (div_lt_div_of_pos_right h hp)]
  · rw [h]; simp
  · rw [compare_gt_iff_gt.2 h, compare_gt_iff_gt.2 (div_lt_div_of_pos_right h hp)]

/-- the executable `<` on finite values is the order of ℚ -/
theorem lt_fin_iff (n1 m1 e1 n2 m2 e2) :
    lt (.fin n1 m1 e1) (.fin n2 m2 e2) = true ↔ finVal n1 m1 e1 < finVal n2 m2 e2 := by
  simp only [lt, cmpFin_eq, beq_iff_eq]
  exact compare_lt_iff_lt

theorem eq_fin_iff (n1 m1 e1 n2 m2 e2) :
    eq (.fin n1 m1 e1) (.fin n2 m2 e2) = true ↔ finVal n1 m1 e1 = finVal n2 m2 e2 := by
  simp only [eq, cmpFin_eq, beq_iff_eq]
  exact compare_eq_iff_eq

end Rules.F64
#print axioms Rules.F64.lt_fin_iff

/-! ### every non-NaN binary64 value as a point of the extended rationals -/
namespace Rules.F64
open Rules

/-- ℚ with a least (−Inf) and a greatest (+Inf) element -/
abbrev EQ := WithBot (WithTop ℚ)

/-- the mathematical value of a non-NaN binary64 (NaN is sent to 0; every statement excludes it) -/
def val : F64 → EQ
  | .nan => ((0 : ℚ) : WithTop ℚ)
  | .inf true => ⊥
  | .inf false => ((⊤ : WithTop ℚ) : WithBot (WithTop ℚ))
  | .fin n m e => ((finVal n m e : ℚ) : WithTop ℚ)

theorem lt_iff (a b : F64) (ha : a.isNaN = false) (hb : b.isNaN = false) : lt a b = true ↔ val a < val b := by
  cases a with
  | nan => simp [isNaN] at ha
  | inf na =>
    cases b with
    | nan => simp [isNaN] at hb
    | inf nb => cases na <;> cases nb <;> simp [lt, val]
    | fin nb mb eb => cases na <;> simp [lt, val, WithBot.bot_lt_coe]
  | fin na ma ea =>
    cases b with
    | nan => simp [isNaN] at hb
    | inf nb =>
      cases nb with
      | true => simp [lt, val]
      | false =>
        simp only [lt, val, Bool.not_false, true_iff]
        exact WithBot.coe_lt_coe.2 (WithTop.coe_lt_top _)
    | fin nb mb eb =>
      rw [lt_fin_iff]
      simp [val]

theorem eq_iff (a b : F64) (ha : a.isNaN = false) (hb : b.isNaN = false) : eq a b = true ↔ val a = val b := by
  cases a with
  | nan => simp [isNaN] at ha
  | inf na =>
    cases b with
    | nan => simp [isNaN] at hb
    | inf nb => cases na <;> cases nb <;> simp [eq, val]
    | fin nb mb eb => cases na <;> simp [eq, val]
  | fin na ma ea =>
    cases b with
    | nan => simp [isNaN] at hb
    | inf nb => cases nb <;> simp [eq, val]
    | fin nb mb eb =>
      rw [eq_fin_iff]
      simp [val]

/-- NaN is unordered and unequal to everything -/
theorem nan_unordered (a : F64) :
    lt .nan a = false ∧ lt a .nan = false ∧ eq .nan a = false ∧ eq a .nan = false := by
  cases a <;> simp [lt, eq]

/-- `float64(n)` is exact for |n| ≤ 2^53 -/
theorem val_ofInt (n : Int) (h : n.natAbs ≤ 2 ^ 53) : val (ofInt n) = (((n : ℚ) : WithTop ℚ) : EQ) := by
  unfold ofInt
  simp only [h, if_true, val, finVal, zpow_zero, mul_one]
  by_cases hn : n < 0
  · simp only [hn, decide_true, if_true]
    have : ((n.natAbs : ℤ) : ℚ) = -(n : ℚ) := by
      have := Int.ofNat_natAbs_of_nonpos (le_of_lt hn)
      rw [this]; push_cast; ring
    norm_cast at this ⊢
    simp [this]
  · simp only [hn, decide_false, Bool.false_eq_true, if_false]
    have : ((n.natAbs : ℤ) : ℚ) = (n : ℚ) := by
      rw [Int.natAbs_of_nonneg (not_lt.1 hn)]
    norm_cast at this ⊢
    simp [this]

theorem mkFin_not_nan (neg : Bool) (m : Nat) (e : Int) (f : F64) (h : mkFin neg m e = some f) : f.isNaN = false := by
  unfold mkFin at h
  split at h
  · cases h
  · cases h; rfl

theorem roundRat_not_nan (neg : Bool) (n d : Nat) (f : F64) (h : roundRat neg n d = some f) : f.isNaN = false := by
  unfold roundRat at h
  split at h
  · cases h; rfl
  · exact mkFin_not_nan _ _ _ _ h

theorem ofInt_not_nan (n : Int) : (ofInt n).isNaN = false := by
  unfold ofInt
  split
  · rfl
  · split
    · rename_i f hf; exact roundRat_not_nan _ _ _ _ hf
    · rfl

end Rules.F64
