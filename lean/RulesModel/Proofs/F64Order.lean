import RulesModel.Model.F64
import Mathlib.Tactic.Linarith
import Mathlib.Tactic.Ring
import Mathlib.Tactic.Positivity
import Mathlib.Tactic.FieldSimp
import Mathlib.Algebra.Order.Field.Power
import Mathlib.Data.Rat.Defs

namespace Rules.F64

/-- mathematical value of a finite binary64 -/
def finVal (neg : Bool) (m : Nat) (e : Int) : ℚ := (if neg then -(m : ℚ) else (m : ℚ)) * (2 : ℚ) ^ e

theorem scale_eq (v : Int) (e e0 : Int) (h : e0 ≤ e) :
    ((v * 2 ^ (e - e0).toNat : Int) : ℚ) = (v : ℚ) * (2 : ℚ) ^ e / (2 : ℚ) ^ e0 := by
  have h2 : (2 : ℚ) ≠ 0 := by norm_num
  have : ((e - e0).toNat : Int) = e - e0 := Int.toNat_of_nonneg (by omega)
  push_cast
  rw [div_eq_mul_inv, ← zpow_neg, mul_assoc, ← zpow_add₀ h2]
  congr 1
  rw [← zpow_natCast, this]
  congr 1

theorem cmpFin_eq (n1 : Bool) (m1 : Nat) (e1 : Int) (n2 : Bool) (m2 : Nat) (e2 : Int) :
    cmpFin n1 m1 e1 n2 m2 e2 = compare (finVal n1 m1 e1) (finVal n2 m2 e2) := by
  unfold cmpFin finVal
  simp only
  set v1 : Int := if n1 then -(m1 : Int) else m1 with hv1
  set v2 : Int := if n2 then -(m2 : Int) else m2 with hv2
  have c1 : (if n1 then -(m1 : ℚ) else (m1 : ℚ)) = (v1 : ℚ) := by cases n1 <;> simp [hv1]
  have c2 : (if n2 then -(m2 : ℚ) else (m2 : ℚ)) = (v2 : ℚ) := by cases n2 <;> simp [hv2]
  rw [c1, c2]
  have hp : (0 : ℚ) < (2 : ℚ) ^ (min e1 e2) := by positivity
  have s1 := scale_eq v1 e1 (min e1 e2) (min_le_left _ _)
  have s2 := scale_eq v2 e2 (min e1 e2) (min_le_right _ _)
  -- compare on Int agrees with compare on ℚ after the (positive) common scaling
  have key : ∀ a b : Int, compare a b = compare (a : ℚ) (b : ℚ) := by
    intro a b
    rcases lt_trichotomy a b with h | h | h
    · rw [compare_lt_iff_lt.2 h, compare_lt_iff_lt.2 (by exact_mod_cast h)]
    · subst h; simp
    · rw [compare_gt_iff_gt.2 h, compare_gt_iff_gt.2 (by exact_mod_cast h)]
  rw [key, s1, s2]
  rcases lt_trichotomy ((v1 : ℚ) * 2 ^ e1) ((v2 : ℚ) * 2 ^ e2) with h | h | h
  · rw [compare_lt_iff_lt.2 h, compare_lt_iff_lt.2 (div_lt_div_of_pos_right h hp)]
  · rw [h]; simp
  · rw [compare_gt_iff_gt.2 h, compare_gt_iff_gt.2 (div_lt_div_of_pos_right h hp)]

/-- the executable `<` on finite values is the order of ℚ -/
theorem lt_fin_iff (n1 m1 e1 n2 m2 e2) :
    lt (.fin n1 m1 e1) (.fin n2 m2 e2) = true ↔ finVal n1 m1 e1 < finVal n2 m2 e2 := by
  simp only [lt, cmpFin_eq, beq_iff_eq]
  exact compare_lt_iff_lt

theorem eq_fin_iff (n1 m1 e1 n2 m2 e2) :
    eq (.fin n1 m1 e1) (.fin n2 m2 e2) = true ↔ finVal n1 m1 e1 = finVal n2 m2 e2 := by
  simp only [eq, cmpFin_eq, beq_iff_eq]
  exact compare_eq_iff_eq

end Rules.F64
#print axioms Rules.F64.lt_fin_iff
