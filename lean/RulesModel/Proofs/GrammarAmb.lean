import RulesModel.Proofs.ParseComplete
/-!
# The derivation relation `D` generates exactly the language of the file's (ambiguous) rule `query`

`parser/JsonQuery.g4` writes the rule with a directly left-recursive, ambiguous alternative

    query : NOT? SP? '(' SP? query SP? ')' | query SP LOGICAL_OPERATOR SP query | attrPath SP 'pr' | attrPath SP op SP value

`DA` is that rule read literally as a context-free grammar (both operands of a connective are arbitrary queries).
`D` is ANTLR's reading: a left-associative chain of primaries. `derivesAmb_iff` shows that the two generate the same
token language, so "sentence of the documented grammar" does not depend on my reading of the left recursion; `D_unique`
then says which of the literal grammar's several trees is the one ANTLR (and the model) builds.
-/
namespace Rules.P

/-- the rule `query` of the file, literally -/
inductive DA : List Tok → Prop
  | paren (n s1 s2 s3 : Option String) (l r : String) {ts} : DA ts →
      DA (optTok NOT n ++ optTok SP s1 ++ [⟨LP, l⟩] ++ optTok SP s2 ++ ts ++ optTok SP s3 ++ [⟨RP, r⟩])
  | logical (s1 op s2 : String) {ts1 ts2} : DA ts1 → DA ts2 → DA (ts1 ++ [⟨SP, s1⟩, ⟨LOGOP, op⟩, ⟨SP, s2⟩] ++ ts2)
  | present (s pr : String) {ps p} : DPath ps p → DA (ps ++ [⟨SP, s⟩, ⟨PR, pr⟩])
  | compare (s1 o s2 : String) (k : Kind) (hk : isCmp k = true) {ps p vs v} : DPath ps p → DValue vs v →
      DA (ps ++ [⟨SP, s1⟩, ⟨k, o⟩, ⟨SP, s2⟩] ++ vs)

/-- appending a whole query on the right of a query is again a (left-associative) query: re-association -/
theorem D_append_query {ts2 : List Tok} {t2 : Tree} {b : Bool} (h2 : D b ts2 t2) :
    ∀ {ts1 : List Tok} {t1 : Tree} (s1 op s2 : String), D false ts1 t1 →
      ∃ t, D false (ts1 ++ [⟨SP, s1⟩, ⟨LOGOP, op⟩, ⟨SP, s2⟩] ++ ts2) t := by
  induction h2 with
  | paren n a b c l r h _ => intro ts1 t1 s1 op s2 h1; exact ⟨_, D.logical s1 op s2 h1 (D.paren n a b c l r h)⟩
  | present s pr hp => intro ts1 t1 s1 op s2 h1; exact ⟨_, D.logical s1 op s2 h1 (D.present s pr hp)⟩
  | compare a o c k hk hp hv => intro ts1 t1 s1 op s2 h1; exact ⟨_, D.logical s1 op s2 h1 (D.compare a o c k hk hp hv)⟩
  | prim _ ih => intro ts1 t1 s1 op s2 h1; exact ih s1 op s2 h1
  | logical a op' c hl hr ihl _ =>
    intro ts1 t1 s1 op s2 h1
    obtain ⟨t, ht⟩ := ihl s1 op s2 h1
    have := D.logical a op' c ht hr
    exact ⟨_, by simpa [List.append_assoc] using this⟩

theorem D_of_DA {ts : List Tok} (h : DA ts) : ∃ t, D false ts t := by
  induction h with
  | paren n s1 s2 s3 l r _ ih => obtain ⟨t, ht⟩ := ih; exact ⟨_, D.prim (D.paren n s1 s2 s3 l r ht)⟩
  | logical s1 op s2 _ _ ih1 ih2 =>
    obtain ⟨t1, h1⟩ := ih1
    obtain ⟨t2, h2⟩ := ih2
    exact D_append_query h2 s1 op s2 h1
  | present s pr hp => exact ⟨_, D.prim (D.present s pr hp)⟩
  | compare s1 o s2 k hk hp hv => exact ⟨_, D.prim (D.compare s1 o s2 k hk hp hv)⟩

theorem DA_of_D {b : Bool} {ts : List Tok} {t : Tree} (h : D b ts t) : DA ts := by
  induction h with
  | paren n s1 s2 s3 l r _ ih => exact DA.paren n s1 s2 s3 l r ih
  | present s pr hp => exact DA.present s pr hp
  | compare s1 o s2 k hk hp hv => exact DA.compare s1 o s2 k hk hp hv
  | prim _ ih => exact ih
  | logical s1 op s2 _ _ ih1 ih2 => exact DA.logical s1 op s2 ih1 ih2

/-- **The left-associative reading generates the language of the file's ambiguous rule.** -/
theorem derivesAmb_iff (ts : List Tok) : DA ts ↔ ∃ t, D false ts t :=
  ⟨D_of_DA, fun ⟨_, h⟩ => DA_of_D h⟩

/-- … hence the executable parser accepts exactly the token sequences the file's rule derives -/
theorem parse_accepts_iff_DA (ts : List Tok) : (∃ t, parse ts = some t) ↔ DA ts := by
  rw [derivesAmb_iff]
  constructor
  · rintro ⟨t, h⟩; exact ⟨t, (parse_iff ts t).1 h⟩
  · rintro ⟨t, h⟩; exact ⟨t, (parse_iff ts t).2 h⟩

end Rules.P
