import RulesModel.Proofs.LexClosed
/-!
# From per-token conditions to the character-level round trip: which tokens can be neighbours in a rule

`lexParse_canon_sep2` needs a side condition on every *adjacent pair* of tokens. Here that condition is derived from the
grammar: in every token sequence the derivation relation `D` accepts, neighbours are related by a fixed finite relation
`adj` on token kinds (`D_adjacent`), and for the regenerated table every `adj`-related pair of kinds is separated by one
character of look-ahead unless the left kind is a string literal (`adj_separated`, evaluated by the kernel on
`Generated.lexerRules`). What remains are conditions on **single tokens**.

* `C15_char_level_tokens` : a derivable token sequence without `-`/exponent tokens, each token canonical for the table and
  each string literal closed, is read back from its text as the tree it derives; two such sequences that differ only in free
  spellings are read as the same tree.
The three look-ahead adjacencies of `Proofs/LexChar.lean` shrink to two (`-` before an integer, an integer before an
exponent); string literals are covered.
-/
namespace Rules.Adj
open Rules.P

def isFirst (k : Kind) : Bool := k == NOT || k == SP || k == LP || k == ATTR
def isVal (k : Kind) : Bool := k == BOOLEAN || k == NULL || k == VERSION || k == STRING || k == DOUBLE || k == INT
def isElem (k : Kind) : Bool := k == INT || k == DOUBLE || k == STRING
def isLast (k : Kind) : Bool := k == RP || k == PR || isVal k || k == RB

/-- kinds that can be neighbours in a derivable token sequence (without MINUS / EXP tokens) -/
def adj (a b : Kind) : Bool :=
  (a == ATTR && (b == DOT || b == SP)) || (a == DOT && b == ATTR) ||
  (isElem a && (b == RB || b == COMMA)) || (a == COMMA && isElem b) || (a == LB && isElem b) ||
  (a == SP && (b == PR || isCmp b || isVal b || b == LB || isFirst b || b == RP || b == LOGOP)) ||
  (isCmp a && b == SP) || (a == LOGOP && b == SP) ||
  (a == NOT && (b == SP || b == LP)) || (a == LP && isFirst b) ||
  (isLast a && (b == SP || b == RP))

def chainAdj : List Kind → Bool
  | a :: b :: rest => adj a b && chainAdj (b :: rest)
  | _ => true

def bnd (xs ys : List Kind) : Bool :=
  match xs.getLast?, ys.head? with
  | some a, some b => adj a b
  | _, _ => true

theorem chainAdj_append : ∀ (xs ys : List Kind), chainAdj (xs ++ ys) = (chainAdj xs && chainAdj ys && bnd xs ys)
  | [], ys => by simp [chainAdj, bnd]
  | [a], [] => by simp [chainAdj, bnd]
  | [a], b :: ys => by simp [chainAdj, bnd, Bool.and_comm]
  | a :: b :: xs, ys => by
    have ih := chainAdj_append (b :: xs) ys
    simp only [List.cons_append] at ih ⊢
    simp only [chainAdj, ih, bnd, List.getLast?_cons_cons]
    cases adj a b <;> simp

/-- summary of a kind sequence: non-empty with first kind `f`, last kind `l`, neighbours related -/
structure Seg (ks : List Kind) (f l : Kind) : Prop where
  head : ks.head? = some f
  last : ks.getLast? = some l
  chain : chainAdj ks = true

theorem Seg.single (k : Kind) : Seg [k] k k := ⟨rfl, rfl, rfl⟩

theorem Seg.append {xs ys f1 l1 f2 l2} (h1 : Seg xs f1 l1) (h2 : Seg ys f2 l2) (ha : adj l1 f2 = true) :
    Seg (xs ++ ys) f1 l2 := by
  refine ⟨?_, ?_, ?_⟩
  · rw [List.head?_append]; simp [h1.head]
  · rw [List.getLast?_append]; simp [h2.last]
  · rw [chainAdj_append, h1.chain, h2.chain]; simp [bnd, h1.last, h2.head, ha]

/-- prepend an optional single token -/
theorem Seg.optCons {ys f l} (k : Kind) (o : Option String) (h : Seg ys f l) (ha : adj k f = true) :
    Seg ((optTok k o).map (·.kind) ++ ys) (if o.isSome then k else f) l := by
  cases o with
  | none => simpa [optTok] using h
  | some s => simpa [optTok] using Seg.append (Seg.single k) h ha

/-- append an optional single token -/
theorem Seg.optSnoc {xs f l} (k : Kind) (o : Option String) (h : Seg xs f l) (ha : adj l k = true) :
    Seg (xs ++ (optTok k o).map (·.kind)) f (if o.isSome then k else l) := by
  cases o with
  | none => simpa [optTok] using h
  | some s => simpa [optTok] using Seg.append h (Seg.single k) ha

def kinds (ts : List Tok) : List Kind := ts.map (·.kind)

theorem DPath_seg {ps p} (h : DPath ps p) : Seg (kinds ps) ATTR ATTR := by
  induction h with
  | one n => exact Seg.single ATTR
  | dot n d _ ih =>
    have := Seg.append (Seg.append (Seg.single ATTR) (Seg.single DOT) (by decide)) ih (by decide)
    simpa [kinds] using this

theorem DList_seg {k ts xs} (hk : isElem k = true) (h : DList k ts xs) : Seg (kinds ts) k RB := by
  induction h with
  | last t b =>
    have := Seg.append (Seg.single k) (Seg.single RB) (by simp [adj, hk, RB])
    simpa [kinds] using this
  | cons t c _ ih =>
    have h1 := Seg.append (Seg.single k) (Seg.single COMMA) (by simp [adj, hk, COMMA])
    have := Seg.append h1 ih (by simp [adj, hk, COMMA])
    simpa [kinds] using this

def NoSign (ts : List Tok) : Prop := ∀ x ∈ ts, x.kind ≠ MINUS ∧ x.kind ≠ EXP

theorem DValue_seg {vs v} (h : DValue vs v) (hn : NoSign vs) :
    ∃ f l, Seg (kinds vs) f l ∧ (isVal f = true ∨ f = LB) ∧ (isVal l = true ∨ l = RB) := by
  cases h with
  | bool t => exact ⟨BOOLEAN, BOOLEAN, Seg.single _, .inl (by decide), .inl (by decide)⟩
  | null t => exact ⟨NULL, NULL, Seg.single _, .inl (by decide), .inl (by decide)⟩
  | version t => exact ⟨VERSION, VERSION, Seg.single _, .inl (by decide), .inl (by decide)⟩
  | str t => exact ⟨STRING, STRING, Seg.single _, .inl (by decide), .inl (by decide)⟩
  | double t => exact ⟨DOUBLE, DOUBLE, Seg.single _, .inl (by decide), .inl (by decide)⟩
  | long m i e =>
    cases m with
    | some s => exact absurd rfl (hn ⟨MINUS, s⟩ (by simp)).1
    | none =>
      cases e with
      | some s => exact absurd rfl (hn ⟨EXP, s⟩ (by simp)).2
      | none => exact ⟨INT, INT, by simpa [kinds] using Seg.single INT, .inl (by decide), .inl (by decide)⟩
  | list k hk b hl =>
    have he : isElem k = true := by rcases hk with h | h | h <;> subst h <;> decide
    have := Seg.append (Seg.single LB) (DList_seg he hl) (by simp [adj, he, LB])
    exact ⟨LB, RB, by simpa [kinds] using this, .inr rfl, .inr rfl⟩

theorem NoSign.append_left {a b : List Tok} (h : NoSign (a ++ b)) : NoSign a := fun x hx => h x (by simp [hx])
theorem NoSign.append_right {a b : List Tok} (h : NoSign (a ++ b)) : NoSign b := fun x hx => h x (by simp [hx])

/-- **Neighbours in a rule.** Every derivable token sequence without `-`/exponent tokens starts with a kind in `isFirst`,
ends with a kind in `isLast`, and all its neighbours are `adj`-related. -/
theorem D_adjacent {b ts t} (h : D b ts t) (hn : NoSign ts) :
    ∃ f l, Seg (kinds ts) f l ∧ isFirst f = true ∧ isLast l = true := by
  induction h with
  | @paren n s1 s2 s3 l r ts t _ ih =>
    have hin : NoSign ts := by
      intro x hx; exact hn x (by simp [hx])
    obtain ⟨f, la, hs, hf, hl⟩ := ih hin
    -- [LP] SP? ts SP? [RP]
    have a1 := Seg.optCons SP s2 hs (by simp [adj, hf, SP])
    have hf1 : isFirst (if s2.isSome then SP else f) = true := by
      cases s2 with
      | none => simpa using hf
      | some _ => simp [isFirst]
    have a2 := Seg.append (Seg.single LP) a1 (by simp [adj, hf1, LP])
    have a3 := Seg.optSnoc SP s3 a2 (by simp [adj, hl, SP])
    have a4 := Seg.append a3 (Seg.single RP) (by
      cases s3 with
      | none => simp [adj, hl, RP]
      | some _ => simp [adj, SP, RP])
    have a5 := Seg.optCons SP s1 a4 (by simp [adj, isFirst, SP, LP])
    have a6 := Seg.optCons NOT n a5 (by cases s1 <;> simp [adj, NOT, SP, LP])
    refine ⟨_, RP, by simpa [kinds, List.map_append, List.append_assoc] using a6, ?_, by decide⟩
    cases n <;> cases s1 <;> simp [isFirst]
  | @present s pr ps p hp =>
    have := Seg.append (Seg.append (DPath_seg hp) (Seg.single SP) (by decide)) (Seg.single PR) (by decide)
    exact ⟨ATTR, PR, by simpa [kinds, List.map_append] using this, by decide, by decide⟩
  | @compare s1 o s2 k hk ps p vs v hp hv =>
    have hnv : NoSign vs := fun x hx => hn x (by simp [hx])
    obtain ⟨f, la, hs, hf, hl⟩ := DValue_seg hv hnv
    have b1 := Seg.append (DPath_seg hp) (Seg.single SP) (by decide)
    have b2 := Seg.append b1 (Seg.single k) (by simp [adj, hk, SP])
    have b3 := Seg.append b2 (Seg.single SP) (by simp [adj, hk, SP])
    have b4 := Seg.append b3 hs (by rcases hf with h | h <;> simp [adj, h, SP])
    refine ⟨ATTR, la, by simpa [kinds, List.map_append, List.append_assoc] using b4, by decide, ?_⟩
    rcases hl with h | h <;> simp [isLast, h]
  | prim _ ih => exact ih hn
  | @logical s1 op s2 ts1 t1 ts2 t2 _ _ ih1 ih2 =>
    have hn1 : NoSign ts1 := fun x hx => hn x (by simp [hx])
    have hn2 : NoSign ts2 := fun x hx => hn x (by simp [hx])
    obtain ⟨f1, l1, hs1, hf1, hl1⟩ := ih1 hn1
    obtain ⟨f2, l2, hs2, hf2, hl2⟩ := ih2 hn2
    have c1 := Seg.append hs1 (Seg.single SP) (by simp [adj, hl1, SP])
    have c2 := Seg.append c1 (Seg.single LOGOP) (by decide)
    have c3 := Seg.append c2 (Seg.single SP) (by decide)
    have c4 := Seg.append c3 hs2 (by simp [adj, hf2, SP])
    exact ⟨f1, l2, by simpa [kinds, List.map_append, List.append_assoc] using c4, hf1, hl2⟩

end Rules.Adj

namespace Rules
open Rules.Regex

/-- first characters a token of kind `k` can have, according to the table -/
def firstOfKind (rules : List (Kind × Regex)) (k : Kind) : CSet :=
  (rules.filter (fun kr => kr.1 == k)).flatMap (fun kr => firstChars kr.2)

def expand (cs : CSet) : List Nat := cs.flatMap (fun p => List.range' p.1 (p.2 + 1 - p.1))

theorem mem_expand (cs : CSet) (x : Nat) (h : cs.mem x = true) : x ∈ expand cs := by
  unfold CSet.mem at h
  obtain ⟨p, hp, hx⟩ := List.any_eq_true.1 h
  obtain ⟨lo, hi⟩ := p
  simp only [Bool.and_eq_true, decide_eq_true_eq] at hx
  unfold expand
  refine List.mem_flatMap.2 ⟨(lo, hi), hp, ?_⟩
  simp only [List.mem_range'_1]
  omega

/-- every first character of kind `a` is separated from every first character of kind `b` -/
def sepKinds (rules : List (Kind × Regex)) (a b : Kind) : Bool :=
  (expand (firstOfKind rules a)).all fun d => (expand (firstOfKind rules b)).all fun c => sepOK rules d c

/-- the table fact: kinds that can be neighbours are separated by one character of look-ahead, unless the left one is a
string literal (closed instead) -/
def adjTableOK (rules : List (Kind × Regex)) : Bool :=
  (rules.map (·.1)).all fun a => (rules.map (·.1)).all fun b => !Adj.adj a b || a == P.STRING || sepKinds rules a b

/-- … and it holds of the table regenerated from JsonQuery.g4 on this run -/
theorem adj_separated : adjTableOK Generated.lexerRules = true := by decide +kernel

theorem canon_first (rules : List (Kind × Regex)) (x : Token) (h : Canon rules x) :
    ∃ d w, x.text = d :: w ∧ d.toNat ∈ expand (firstOfKind rules x.kind) ∧ x.kind ∈ rules.map (·.1) := by
  obtain ⟨hne, i, hi, e1, e2, _⟩ := h
  obtain ⟨d, w, hd⟩ : ∃ d w, x.text = d :: w := by
    cases h : x.text with
    | nil => exact absurd h hne
    | cons d w => exact ⟨d, w, rfl⟩
  refine ⟨d, w, hd, ?_, ?_⟩
  · apply mem_expand
    have hf := firstChars_sound e2 d w hd
    unfold firstOfKind CSet.mem
    unfold CSet.mem at hf
    obtain ⟨p, hp, hx⟩ := List.any_eq_true.1 hf
    refine List.any_eq_true.2 ⟨p, ?_, hx⟩
    refine List.mem_flatMap.2 ⟨rules[i], ?_, hp⟩
    refine List.mem_filter.2 ⟨List.getElem_mem hi, ?_⟩
    simp [e1]
  · rw [← e1]
    exact List.mem_map.2 ⟨rules[i], List.getElem_mem hi, rfl⟩

/-- **From neighbours by kind to separation by characters.** -/
theorem sepChain2_of_adj (rules : List (Kind × Regex)) (htab : adjTableOK rules = true) : ∀ ts : List Token,
    (∀ x ∈ ts, Canon rules x) → (∀ x ∈ ts, x.kind = P.STRING → extClosed rules x.text = true) →
    Adj.chainAdj (ts.map (·.kind)) = true → sepChain2 rules ts = true
  | [], _, _, _ => rfl
  | [_], _, _, _ => rfl
  | t :: t' :: rest, hc, hcl, hch => by
    simp only [List.map_cons, Adj.chainAdj, Bool.and_eq_true] at hch
    have ih := sepChain2_of_adj rules htab (t' :: rest) (fun x hx => hc x (by simp [hx])) (fun x hx => hcl x (by simp [hx]))
      (by simpa using hch.2)
    simp only [sepChain2, Bool.and_eq_true, Bool.or_eq_true]
    refine ⟨?_, ih⟩
    obtain ⟨d, w, hd, hdm, hka⟩ := canon_first rules t (hc t (by simp))
    obtain ⟨c, v, hcv, hcm, hkb⟩ := canon_first rules t' (hc t' (by simp))
    have h1 := List.all_eq_true.1 htab t.kind hka
    have h2 := List.all_eq_true.1 h1 t'.kind hkb
    simp only [Bool.or_eq_true, Bool.not_eq_true', beq_iff_eq] at h2
    rcases h2 with (h2 | h2) | h2
    · rw [hch.1] at h2; cases h2
    · exact .inr (hcl t (by simp) h2)
    · left
      rw [hd, hcv]
      have h3 := List.all_eq_true.1 h2 d.toNat hdm
      exact List.all_eq_true.1 h3 c.toNat hcm

theorem kinds_toTok (ts : List Token) : Adj.kinds (ts.map toTok) = ts.map (·.kind) := by
  simp [Adj.kinds, toTok, Function.comp_def]

/-- **Character-level round trip from per-token conditions.** A token sequence the grammar derives, without `-` and
exponent tokens, in which every token is canonical for the table and every string literal is closed, is read back from
its text as the tree it derives. -/
theorem lexParse_tokens (rules : List (Kind × Regex)) (htab : adjTableOK rules = true) (ts : List Token) (t : P.Tree)
    (hd : P.D false (ts.map toTok) t) (hc : ∀ x ∈ ts, Canon rules x)
    (hcl : ∀ x ∈ ts, x.kind = P.STRING → extClosed rules x.text = true)
    (hns : ∀ x ∈ ts, x.kind ≠ P.MINUS ∧ x.kind ≠ P.EXP) :
    lexParse rules (ts.flatMap (·.text)) = some t := by
  have hn : Adj.NoSign (ts.map toTok) := by
    intro x hx
    obtain ⟨y, hy, rfl⟩ := List.mem_map.1 hx
    exact hns y hy
  obtain ⟨f, l, hs, _, _⟩ := Adj.D_adjacent hd hn
  have hch : Adj.chainAdj (ts.map (·.kind)) = true := by rw [← kinds_toTok]; exact hs.chain
  exact lexParse_canon_sep2 rules ts t hd hc (sepChain2_of_adj rules htab ts hc hcl hch)

/-- **C15 at character level from per-token conditions.** Two renderings of rules as token sequences that satisfy the
per-token conditions and differ only in the spellings the grammar leaves free are read back from their *texts* as the
same tree. -/
theorem C15_char_level_tokens (rules : List (Kind × Regex)) (htab : adjTableOK rules = true) (ts ts' : List Token) (t t' : P.Tree)
    (hd : P.D false (ts.map toTok) t) (hd' : P.D false (ts'.map toTok) t')
    (hc : ∀ x ∈ ts, Canon rules x) (hc' : ∀ x ∈ ts', Canon rules x)
    (hcl : ∀ x ∈ ts, x.kind = P.STRING → extClosed rules x.text = true)
    (hcl' : ∀ x ∈ ts', x.kind = P.STRING → extClosed rules x.text = true)
    (hns : ∀ x ∈ ts, x.kind ≠ P.MINUS ∧ x.kind ≠ P.EXP) (hns' : ∀ x ∈ ts', x.kind ≠ P.MINUS ∧ x.kind ≠ P.EXP)
    (hn : (ts.map toTok).map P.norm = (ts'.map toTok).map P.norm) :
    lexParse rules (ts.flatMap (·.text)) = lexParse rules (ts'.flatMap (·.text)) ∧
    lexParse rules (ts.flatMap (·.text)) = some t := by
  have e := P.C15_texts_irrelevant hd hd' hn
  subst e
  rw [lexParse_tokens rules htab ts t hd hc hcl hns, lexParse_tokens rules htab ts' t hd' hc' hcl' hns']
  exact ⟨rfl, rfl⟩

/-- executable form of the per-token conditions -/
def tokOK (rules : List (Kind × Regex)) (x : Token) : Bool :=
  canonB rules x && (x.kind != P.STRING || extClosed rules x.text) && x.kind != P.MINUS && x.kind != P.EXP

theorem tokOK_spec (rules : List (Kind × Regex)) (x : Token) (h : tokOK rules x = true) :
    Canon rules x ∧ (x.kind = P.STRING → extClosed rules x.text = true) ∧ x.kind ≠ P.MINUS ∧ x.kind ≠ P.EXP := by
  simp only [tokOK, Bool.and_eq_true, Bool.or_eq_true, bne_iff_ne, ne_eq] at h
  obtain ⟨⟨⟨h1, h2⟩, h3⟩, h4⟩ := h
  refine ⟨canon_of_canonB rules x h1, ?_, h3, h4⟩
  intro hk
  rcases h2 with h2 | h2
  · exact absurd hk h2
  · exact h2

/-- non-vacuity on the regenerated table: only per-token conditions are evaluated; the grammar supplies the rest -/
example :
    let ts := [tk 8 "not", tk 30 " ", tk 1 "(", tk 22 "name", tk 30 " ", tk 19 "co", tk 30 " ", tk 24 "\"Ann \\\"B\\\"\"", tk 30 " ", tk 9 "and", tk 30 " \n",
               tk 22 "a", tk 4 ".", tk 22 "b", tk 30 " ", tk 12 "in", tk 30 " ", tk 6 "[", tk 25 "1.5", tk 29 ", ", tk 25 "-2.0e3", tk 7 "]", tk 2 ")",
               tk 30 " ", tk 9 "or", tk 30 " ", tk 22 "v", tk 30 " ", tk 17 ">=", tk 30 " ", tk 23 "1.2.3"]
    ts.all (tokOK Generated.lexerRules) = true ∧ (lexParse Generated.lexerRules (ts.flatMap (·.text))).isSome = true := by
  decide +kernel

end Rules
