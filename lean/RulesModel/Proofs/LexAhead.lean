import RulesModel.Proofs.LexAdj
/-!
# Look-ahead over whole tokens: `-` before an integer, an integer before an exponent

The last adjacencies one character of look-ahead cannot separate: after `-` a digit could continue a DOUBLE (`-12.5`),
after `12` an `e` could … . What decides them are the *next tokens as wholes*: `-12` followed by a blank is not a DOUBLE.
`aheadOK` looks ahead over up to `fuel` following tokens: at some point the maximal-munch choice on the texts read so far
is still the left token, and the next character cuts off every rule that could have started with the left token's first
character (or the input ends). `sepChain3` uses it, and the round trip then holds for **every** token kind.
-/
namespace Rules
open Rules.Regex

def headSep (rules : List (Kind × Regex)) (t n : Token) : Bool :=
  match t.text, n.text with
  | d :: _, c :: _ => sepOK rules d.toNat c.toNat
  | _, _ => false

/-- look-ahead over the following tokens (`acc` = their texts read so far) -/
def aheadOK (rules : List (Kind × Regex)) (t : Token) : Nat → List Token → List Char → Bool
  | _, [], acc => decide (bestMatch rules (t.text ++ acc) = some (t.kind, t.text.length))
  | 0, _ :: _, _ => false
  | fuel + 1, n :: rest, acc =>
    (decide (bestMatch rules (t.text ++ acc) = some (t.kind, t.text.length)) && headSep rules t n) ||
    aheadOK rules t fuel rest (acc ++ n.text)

theorem aheadOK_sound (rules : List (Kind × Regex)) (t : Token) (ht : t.text ≠ []) :
    ∀ (fuel : Nat) (fol : List Token) (acc : List Char), (∀ x ∈ fol, x.text ≠ []) →
      aheadOK rules t fuel fol acc = true →
      bestMatch rules (t.text ++ acc ++ fol.flatMap (·.text)) = some (t.kind, t.text.length) := by
  intro fuel
  induction fuel with
  | zero =>
    intro fol acc hne h
    cases fol with
    | nil => simpa [aheadOK] using h
    | cons n rest => simp [aheadOK] at h
  | succ f ih =>
    intro fol acc hne h
    cases fol with
    | nil => simpa [aheadOK] using h
    | cons n rest =>
      simp only [aheadOK, Bool.or_eq_true, Bool.and_eq_true, decide_eq_true_eq] at h
      rcases h with ⟨hbm, hsep⟩ | hrec
      · obtain ⟨d, w', hd⟩ : ∃ d w', t.text = d :: w' := by
          cases h : t.text with
          | nil => exact absurd h ht
          | cons d w' => exact ⟨d, w', rfl⟩
        obtain ⟨c, v', hcv⟩ : ∃ c v', n.text = c :: v' := by
          cases h : n.text with
          | nil => exact absurd h (hne n (by simp))
          | cons c v' => exact ⟨c, v', rfl⟩
        have hs : sepOK rules d.toNat c.toNat = true := by simpa [headSep, hd, hcv] using hsep
        have := bestMatch_sep rules d (w' ++ acc) c (v' ++ rest.flatMap (·.text)) hs
        simp only [List.flatMap_cons, hd, hcv, List.cons_append, List.append_assoc] at this hbm ⊢
        rw [this]; exact hbm
      · have := ih rest (acc ++ n.text) (fun x hx => hne x (by simp [hx])) hrec
        simpa [List.append_assoc] using this

/-- adjacent tokens: one character of look-ahead, or the left token is closed, or look-ahead over up to four tokens -/
def sepChain3 (rules : List (Kind × Regex)) : List Token → Bool
  | t :: rest =>
    (match rest with
     | [] => true
     | t' :: _ => headSep rules t t' || extClosed rules t.text || aheadOK rules t 4 rest []) && sepChain3 rules rest
  | [] => true

theorem sepChain3_cons2 (rules : List (Kind × Regex)) (t t' : Token) (rest : List Token) :
    sepChain3 rules (t :: t' :: rest) =
      ((headSep rules t t' || extClosed rules t.text || aheadOK rules t 4 (t' :: rest) []) && sepChain3 rules (t' :: rest)) := rfl

theorem sepChain3_of_sepChain2 (rules : List (Kind × Regex)) : ∀ ts, sepChain2 rules ts = true → sepChain3 rules ts = true
  | [] => fun _ => rfl
  | [_] => fun _ => rfl
  | t :: t' :: rest => by
    intro h
    simp only [sepChain2, Bool.and_eq_true, Bool.or_eq_true] at h
    rw [sepChain3_cons2]
    simp only [Bool.and_eq_true, Bool.or_eq_true]
    refine ⟨?_, sepChain3_of_sepChain2 rules (t' :: rest) h.2⟩
    rcases h.1 with h1 | h1
    · exact .inl (.inl h1)
    · exact .inl (.inr h1)

/-- **Round trip, every token kind.** -/
theorem lex_canon_sep3 (rules : List (Kind × Regex)) : ∀ (ts : List Token),
    (∀ t ∈ ts, Canon rules t) → sepChain3 rules ts = true → lex rules (ts.flatMap (·.text)) = some ts := by
  intro ts
  induction ts with
  | nil => intro _ _; simp [lex, lexFuel]
  | cons t post ih =>
    intro hc hs
    have ht := hc t (by simp)
    simp only [sepChain3, Bool.and_eq_true] at hs
    have hrest : lex rules (post.flatMap (·.text)) = some post :=
      ih (fun x hx => hc x (by simp [hx])) hs.2
    have hb : bestMatch rules (t.text ++ post.flatMap (·.text)) = some (t.kind, t.text.length) := by
      cases post with
      | nil => simpa using canon_bestMatch rules t ht
      | cons t' rest =>
        have h1 := hs.1
        simp only [Bool.or_eq_true] at h1
        rcases h1 with (hsep | hcl) | hah
        · have := aheadOK_sound rules t ht.1 1 (t' :: rest) [] (fun x hx => (hc x (by simp [hx])).1)
            (by simp [aheadOK, hsep, canon_bestMatch rules t ht])
          simpa using this
        · rw [bestMatch_closed rules t.text _ hcl]
          exact canon_bestMatch rules t ht
        · have := aheadOK_sound rules t ht.1 4 (t' :: rest) [] (fun x hx => (hc x (by simp [hx])).1) hah
          simpa using this
    simpa using lex_cons rules t.text (post.flatMap (·.text)) t.kind ht.1 hb post hrest

theorem lexParse_canon_sep3 (rules : List (Kind × Regex)) (ts : List Token) (tree : P.Tree)
    (hd : P.D false (ts.map toTok) tree) (hc : ∀ t ∈ ts, Canon rules t) (hs : sepChain3 rules ts = true) :
    lexParse rules (ts.flatMap (·.text)) = some tree := by
  unfold lexParse
  rw [lex_canon_sep3 rules ts hc hs]
  exact (P.parse_iff _ _).2 hd

/-- **C15 at character level, every token kind (conditional on the decidable local conditions).** -/
theorem C15_char_level3 (rules : List (Kind × Regex)) (ts ts' : List Token) (t t' : P.Tree)
    (hd : P.D false (ts.map toTok) t) (hd' : P.D false (ts'.map toTok) t')
    (hc : ∀ x ∈ ts, Canon rules x) (hc' : ∀ x ∈ ts', Canon rules x)
    (hs : sepChain3 rules ts = true) (hs' : sepChain3 rules ts' = true)
    (hn : (ts.map toTok).map P.norm = (ts'.map toTok).map P.norm) :
    lexParse rules (ts.flatMap (·.text)) = lexParse rules (ts'.flatMap (·.text)) ∧
    lexParse rules (ts.flatMap (·.text)) = some t := by
  have e := P.C15_texts_irrelevant hd hd' hn
  subst e
  rw [lexParse_canon_sep3 rules ts t hd hc hs, lexParse_canon_sep3 rules ts' t hd' hc' hs']
  exact ⟨rfl, rfl⟩

/-- instance on the regenerated table: negative integers and integers with exponents – at the end of the rule, before a
blank and before a parenthesis – and a respelling of the same rule -/
example :
    let ts := [tk 1 "(", tk 22 "x", tk 30 " ", tk 17 "ge", tk 30 " ", tk 5 "-", tk 26 "12", tk 2 ")", tk 30 " ", tk 9 "and", tk 30 " ",
               tk 22 "y", tk 30 " ", tk 16 "<", tk 30 " ", tk 26 "3", tk 27 "e+5", tk 30 " ", tk 9 "or", tk 30 " ", tk 22 "z", tk 30 " ", tk 13 "eq", tk 30 " ", tk 5 "-", tk 26 "7", tk 27 "E+2"]
    let ts' := [tk 1 "(", tk 30 " ", tk 22 "x", tk 30 " ", tk 17 ">=", tk 30 " ", tk 5 "-", tk 26 "12", tk 30 " ", tk 2 ")", tk 30 " \n", tk 9 "and", tk 30 " ",
               tk 22 "y", tk 30 " ", tk 16 "LT", tk 30 " ", tk 26 "3", tk 27 "e+5", tk 30 " ", tk 9 "or", tk 30 " ", tk 22 "z", tk 30 " ", tk 13 "==", tk 30 " ", tk 5 "-", tk 26 "7", tk 27 "E+2"]
    (ts.all (canonB Generated.lexerRules) && sepChain3 Generated.lexerRules ts &&
     ts'.all (canonB Generated.lexerRules) && sepChain3 Generated.lexerRules ts') = true ∧
    lexParse Generated.lexerRules (ts.flatMap (·.text)) = lexParse Generated.lexerRules (ts'.flatMap (·.text)) ∧
    (lexParse Generated.lexerRules (ts.flatMap (·.text))).isSome = true := by
  decide +kernel

end Rules
