import RulesModel.Proofs.C20
import RulesModel.Proofs.C15
import RulesModel.Model.LexSep
/-!
# Character-level lexer theorems (any token table)

* `bestMatch_first_max` : the chosen rule is the **first** rule of the table among those achieving the maximal match length;
* `C20_priority`        : so no rule listed before it matches a prefix of that length – "keywords win ties";
* `bestMatch_full`      : if a rule matches the whole of `s`, and no rule listed before it does, the lexer takes all of `s`
                          as one token of that rule;
* `lex_cons`, `lex_concat` : if every token text, followed by what comes after it, is taken whole by `bestMatch`, then lexing
                          the concatenation of the texts gives back exactly the tokens – the round-trip lemma for a
                          character-level respelling theorem (`Model/LexSep.lean` supplies `bestMatch_sep` for its hypothesis).
-/
namespace Rules
open Rules.Regex

/-- what the fold of `bestMatch` knows after the rules `pre` -/
structure MunchInv (s : List Char) (pre : List (Kind × Regex)) (acc : Option (Kind × Nat)) : Prop where
  none_all : acc = none → ∀ j, ∀ hj : j < pre.length, ∀ m, longest (pre[j]).2 s = some m → m = 0
  some_first : ∀ ka na, acc = some (ka, na) → 0 < na ∧ ∃ i, ∃ hi : i < pre.length,
      (pre[i]).1 = ka ∧ longest (pre[i]).2 s = some na ∧
      (∀ j, ∀ hj : j < pre.length, ∀ m, longest (pre[j]).2 s = some m → m ≤ na) ∧
      (∀ j, ∀ hj : j < pre.length, j < i → ∀ m, longest (pre[j]).2 s = some m → m < na)

theorem getElem_snoc_lt {α} (pre : List α) (x : α) (j : Nat) (hj : j < pre.length) :
    (pre ++ [x])[j]'(by simp; omega) = pre[j] := List.getElem_append_left hj

theorem getElem_snoc_last {α} (pre : List α) (x : α) : (pre ++ [x])[pre.length]'(by simp) = x := by simp

theorem munchInv_step (s : List Char) (pre : List (Kind × Regex)) (acc : Option (Kind × Nat)) (x : Kind × Regex)
    (h : MunchInv s pre acc) : MunchInv s (pre ++ [x]) (munchStep s acc x) := by
  -- every index of `pre ++ [x]` is an index of `pre` or the last one
  have split : ∀ j, j < (pre ++ [x]).length → j < pre.length ∨ j = pre.length := by
    intro j hj; simp at hj; omega
  unfold munchStep
  cases hl : longest x.2 s with
  | none =>
    simp only []
    constructor
    · intro hn j hj m hm
      rcases split j hj with h1 | h1
      · rw [getElem_snoc_lt pre x j h1] at hm; exact h.none_all hn j h1 m hm
      · subst h1; rw [getElem_snoc_last] at hm; rw [hl] at hm; cases hm
    · intro ka na hk
      obtain ⟨hp, i, hi, e1, e2, e3, e4⟩ := h.some_first ka na hk
      refine ⟨hp, i, by simp; omega, by rw [getElem_snoc_lt pre x i hi]; exact e1, by rw [getElem_snoc_lt pre x i hi]; exact e2, ?_, ?_⟩
      · intro j hj m hm
        rcases split j hj with h1 | h1
        · rw [getElem_snoc_lt pre x j h1] at hm; exact e3 j h1 m hm
        · subst h1; rw [getElem_snoc_last] at hm; rw [hl] at hm; cases hm
      · intro j hj hji m hm
        have h1 : j < pre.length := by omega
        rw [getElem_snoc_lt pre x j h1] at hm; exact e4 j h1 hji m hm
  | some m0 =>
    simp only []
    by_cases hm0 : m0 = 0
    · simp only [hm0, if_true]
      constructor
      · intro hn j hj m hm
        rcases split j hj with h1 | h1
        · rw [getElem_snoc_lt pre x j h1] at hm; exact h.none_all hn j h1 m hm
        · subst h1; rw [getElem_snoc_last] at hm; rw [hl] at hm; cases hm; exact hm0
      · intro ka na hk
        obtain ⟨hp, i, hi, e1, e2, e3, e4⟩ := h.some_first ka na hk
        refine ⟨hp, i, by simp; omega, by rw [getElem_snoc_lt pre x i hi]; exact e1, by rw [getElem_snoc_lt pre x i hi]; exact e2, ?_, ?_⟩
        · intro j hj m hm
          rcases split j hj with h1 | h1
          · rw [getElem_snoc_lt pre x j h1] at hm; exact e3 j h1 m hm
          · subst h1; rw [getElem_snoc_last] at hm; rw [hl] at hm; cases hm; omega
        · intro j hj hji m hm
          have h1 : j < pre.length := by omega
          rw [getElem_snoc_lt pre x j h1] at hm; exact e4 j h1 hji m hm
    · simp only [hm0, if_false]
      have newBest : ∀ (hall : ∀ j, ∀ hj : j < pre.length, ∀ m, longest (pre[j]).2 s = some m → m < m0),
          MunchInv s (pre ++ [x]) (some (x.1, m0)) := by
        intro hall
        constructor
        · intro hn; cases hn
        · intro ka na hk
          cases hk
          refine ⟨by omega, pre.length, by simp, by rw [getElem_snoc_last], by rw [getElem_snoc_last]; exact hl, ?_, ?_⟩
          · intro j hj m hm
            rcases split j hj with h1 | h1
            · rw [getElem_snoc_lt pre x j h1] at hm; exact Nat.le_of_lt (hall j h1 m hm)
            · subst h1; rw [getElem_snoc_last] at hm; rw [hl] at hm; cases hm; exact Nat.le_refl _
          · intro j hj hji m hm
            rw [getElem_snoc_lt pre x j hji] at hm; exact hall j hji m hm
      cases hacc : acc with
      | none =>
        simp only []
        exact newBest (fun j hj m hm => by have := h.none_all hacc j hj m hm; omega)
      | some p =>
        obtain ⟨kb, nb⟩ := p
        simp only []
        obtain ⟨hp, i, hi, e1, e2, e3, e4⟩ := h.some_first kb nb hacc
        by_cases hlt : nb < m0
        · simp only [hlt, if_true]
          exact newBest (fun j hj m hm => by have := e3 j hj m hm; omega)
        · simp only [hlt, if_false]
          constructor
          · intro hn; cases hn
          · intro ka na hk
            cases hk
            refine ⟨hp, i, by simp; omega, by rw [getElem_snoc_lt pre x i hi]; exact e1, by rw [getElem_snoc_lt pre x i hi]; exact e2, ?_, ?_⟩
            · intro j hj m hm
              rcases split j hj with h1 | h1
              · rw [getElem_snoc_lt pre x j h1] at hm; exact e3 j h1 m hm
              · subst h1; rw [getElem_snoc_last] at hm; rw [hl] at hm; cases hm; omega
            · intro j hj hji m hm
              have h1 : j < pre.length := by omega
              rw [getElem_snoc_lt pre x j h1] at hm; exact e4 j h1 hji m hm

theorem munchInv_fold (s : List Char) (rs : List (Kind × Regex)) :
    ∀ (pre : List (Kind × Regex)) (acc : Option (Kind × Nat)), MunchInv s pre acc →
      MunchInv s (pre ++ rs) (rs.foldl (munchStep s) acc) := by
  induction rs with
  | nil => intro pre acc h; simpa using h
  | cons x rs ih =>
    intro pre acc h
    have := ih (pre ++ [x]) (munchStep s acc x) (munchInv_step s pre acc x h)
    simpa [List.append_assoc] using this

theorem munchInv_bestMatch (rules : List (Kind × Regex)) (s : List Char) : MunchInv s rules (bestMatch rules s) := by
  rw [bestMatch_eq_fold]
  have h0 : MunchInv s [] none := ⟨fun _ j hj => by simp at hj, fun _ _ h => by cases h⟩
  simpa using munchInv_fold s rules [] none h0

/-- the chosen rule is the first rule of the table achieving the maximal match length -/
theorem bestMatch_first_max (rules : List (Kind × Regex)) (s : List Char) (k : Kind) (n : Nat)
    (h : bestMatch rules s = some (k, n)) :
    0 < n ∧ ∃ i, ∃ hi : i < rules.length, (rules[i]).1 = k ∧ longest (rules[i]).2 s = some n ∧
      (∀ j, ∀ hj : j < rules.length, ∀ m, longest (rules[j]).2 s = some m → m ≤ n) ∧
      (∀ j, ∀ hj : j < rules.length, j < i → ∀ m, longest (rules[j]).2 s = some m → m < n) :=
  (munchInv_bestMatch rules s).some_first k n h

/-- **Keywords win ties.** No rule listed before the chosen one matches the chosen prefix (or a longer one). -/
theorem C20_priority (rules : List (Kind × Regex)) (s : List Char) (k : Kind) (n : Nat)
    (h : bestMatch rules s = some (k, n)) :
    ∃ i, ∃ hi : i < rules.length, (rules[i]).1 = k ∧ Matches (rules[i]).2 (s.take n) ∧
      ∀ j, ∀ hj : j < rules.length, j < i → ¬ Matches (rules[j]).2 (s.take n) := by
  obtain ⟨_, i, hi, e1, e2, _, e4⟩ := bestMatch_first_max rules s k n h
  have hs := longest_spec (rules[i]).2 s
  rw [e2] at hs
  refine ⟨i, hi, e1, hs.2.1, ?_⟩
  intro j hj hji hm
  have hsj := longest_spec (rules[j]).2 s
  cases hlj : longest (rules[j]).2 s with
  | none => rw [hlj] at hsj; exact hsj n hs.1 hm
  | some m =>
    rw [hlj] at hsj
    have := e4 j hj hji m hlj
    exact hsj.2.2 n this hs.1 hm

/-- a rule that matches all of `s`, with no earlier rule doing so, takes all of `s` as one token -/
theorem bestMatch_full (rules : List (Kind × Regex)) (s : List Char) (hs : s ≠ []) (i : Nat) (hi : i < rules.length)
    (hm : Matches (rules[i]).2 s) (hfirst : ∀ j, ∀ hj : j < rules.length, j < i → ¬ Matches (rules[j]).2 s) :
    bestMatch rules s = some ((rules[i]).1, s.length) := by
  have hpos : 0 < s.length := by cases s with | nil => exact absurd rfl hs | cons _ _ => simp
  -- the rule's own longest match is the whole string
  have hli : longest (rules[i]).2 s = some s.length := by
    have := longest_spec (rules[i]).2 s
    cases hl : longest (rules[i]).2 s with
    | none => rw [hl] at this; exact absurd (by simpa using hm) (this s.length (Nat.le_refl _))
    | some n =>
      rw [hl] at this
      by_cases hn : n < s.length
      · exact absurd (by simpa using hm) (this.2.2 s.length hn (Nat.le_refl _))
      · congr 1; omega
  have inv := munchInv_bestMatch rules s
  cases hb : bestMatch rules s with
  | none =>
    have := inv.none_all hb i hi s.length hli
    omega
  | some p =>
    obtain ⟨k, n⟩ := p
    obtain ⟨_, i', hi', e1, e2, e3, e4⟩ := inv.some_first k n hb
    have hle := e3 i hi s.length hli
    have hn : n = s.length := by
      have := longest_spec (rules[i']).2 s
      rw [e2] at this
      omega
    subst hn
    -- i' is the first index achieving the full length; so is i
    have hii : i' = i := by
      rcases Nat.lt_trichotomy i' i with h1 | h1 | h1
      · exfalso
        have := longest_spec (rules[i']).2 s
        rw [e2] at this
        exact hfirst i' hi' h1 (by simpa using this.2.1)
      · exact h1
      · have := e4 i hi h1 s.length hli; omega
    subst hii
    rw [e1]

/-! ### round trip -/

theorem lexFuel_mono (rules : List (Kind × Regex)) : ∀ (fuel : Nat) (s : List Char) (ts : List Token),
    lexFuel rules fuel s = some ts → ∀ extra, lexFuel rules (fuel + extra) s = some ts := by
  intro fuel
  induction fuel with
  | zero => intro s ts h extra; cases s <;> simp_all [lexFuel]
  | succ f ih =>
    intro s ts h extra
    cases s with
    | nil => simp_all [lexFuel]
    | cons c cs =>
      have e : f + 1 + extra = (f + extra) + 1 := by omega
      rw [e]
      simp only [lexFuel] at h ⊢
      cases hb : bestMatch rules (c :: cs) with
      | none => simp [hb] at h
      | some p =>
        obtain ⟨k, n⟩ := p
        simp only [hb] at h ⊢
        cases hr : lexFuel rules f ((c :: cs).drop n) with
        | none => simp [hr] at h
        | some ts' =>
          simp only [hr] at h
          rw [ih _ _ hr extra]
          exact h

/-- one token off the front -/
theorem lex_cons (rules : List (Kind × Regex)) (w rest : List Char) (k : Kind) (hw : w ≠ [])
    (hb : bestMatch rules (w ++ rest) = some (k, w.length)) (ts : List Token) (hr : lex rules rest = some ts) :
    lex rules (w ++ rest) = some (⟨k, w⟩ :: ts) := by
  unfold lex at hr ⊢
  obtain ⟨c, w', rfl⟩ : ∃ c w', w = c :: w' := by cases w with | nil => exact absurd rfl hw | cons c w' => exact ⟨c, w', rfl⟩
  have hlen : ((c :: w') ++ rest).length = (rest.length + w'.length) + 1 := by simp; omega
  rw [hlen]
  simp only [List.cons_append, lexFuel]
  have hb' : bestMatch rules (c :: (w' ++ rest)) = some (k, (c :: w').length) := by simpa using hb
  rw [hb']
  have hd : (c :: (w' ++ rest)).drop (c :: w').length = rest := by simp
  have ht : (c :: (w' ++ rest)).take (c :: w').length = c :: w' := by simp
  simp only [hd, ht, lexFuel_mono rules rest.length rest ts hr w'.length]

/-- **Round trip.** If each token text, followed by the rest of the input, is taken whole by the maximal-munch choice,
lexing the concatenation of the texts returns the tokens. -/
theorem lex_concat (rules : List (Kind × Regex)) : ∀ (ts : List Token),
    (∀ (pre post : List Token) (t : Token), ts = pre ++ t :: post →
      t.text ≠ [] ∧ bestMatch rules (t.text ++ (post.flatMap (·.text))) = some (t.kind, t.text.length)) →
    lex rules (ts.flatMap (·.text)) = some ts := by
  intro ts
  induction ts with
  | nil => intro _; simp [lex, lexFuel]
  | cons t post ih =>
    intro h
    obtain ⟨hne, hb⟩ := h [] post t rfl
    have hrest := ih (fun pre post' t' e => h (t :: pre) post' t' (by simp [e]))
    simpa using lex_cons rules t.text (post.flatMap (·.text)) t.kind hne hb post hrest

end Rules

/-! ### from local, decidable conditions on the tokens to the round trip -/
namespace Rules
open Rules.Regex

/-- a token is *canonical* for the table: its whole text is matched by a rule of its kind and by no rule listed before -/
def Canon (rules : List (Kind × Regex)) (t : Token) : Prop :=
  t.text ≠ [] ∧ ∃ i, ∃ hi : i < rules.length, (rules[i]).1 = t.kind ∧ Matches (rules[i]).2 t.text ∧
    ∀ j, ∀ hj : j < rules.length, j < i → ¬ Matches (rules[j]).2 t.text

/-- executable version of `Canon` -/
def canonB (rules : List (Kind × Regex)) (t : Token) : Bool :=
  !t.text.isEmpty &&
  (match rules.findIdx? (fun kr => kr.2.matchesB t.text) with
   | some i => (rules[i]?).map (·.1) == some t.kind
   | none => false)

theorem canon_of_canonB (rules : List (Kind × Regex)) (t : Token) (h : canonB rules t = true) : Canon rules t := by
  unfold canonB at h
  simp only [Bool.and_eq_true, Bool.not_eq_true', List.isEmpty_eq_false_iff] at h
  obtain ⟨hne, h2⟩ := h
  refine ⟨hne, ?_⟩
  cases hf : rules.findIdx? (fun kr => kr.2.matchesB t.text) with
  | none => simp [hf] at h2
  | some i =>
    simp only [hf] at h2
    have hlt : i < rules.length := by
      have := List.findIdx?_eq_some_iff_getElem.1 hf
      exact this.1
    have hspec := List.findIdx?_eq_some_iff_getElem.1 hf
    refine ⟨i, hlt, ?_, ?_, ?_⟩
    · simpa [List.getElem?_eq_getElem hlt] using h2
    · exact (matchesB_iff _ _).1 (by simpa using hspec.2.1)
    · intro j hj hji hm
      have := hspec.2.2 j hji
      simp only [Bool.not_eq_true] at this
      rw [(matchesB_iff _ _).2 hm] at this
      cases this

/-- adjacent tokens are separated: the first character of the next token cuts off (or cannot continue) every rule
that could start with the first character of this one – the side condition of `bestMatch_sep` -/
def sepChain (rules : List (Kind × Regex)) : List Token → Bool
  | t :: t' :: rest =>
    (match t.text, t'.text with
     | d :: _, c :: _ => sepOK rules d.toNat c.toNat
     | _, _ => false) && sepChain rules (t' :: rest)
  | _ => true

theorem canon_bestMatch (rules : List (Kind × Regex)) (t : Token) (h : Canon rules t) :
    bestMatch rules t.text = some (t.kind, t.text.length) := by
  obtain ⟨hne, i, hi, e1, e2, e3⟩ := h
  rw [← e1]
  exact bestMatch_full rules t.text hne i hi e2 e3

/-- **Round trip from local conditions.** Canonical, separated tokens lex back to themselves. -/
theorem lex_canon_sep (rules : List (Kind × Regex)) : ∀ (ts : List Token),
    (∀ t ∈ ts, Canon rules t) → sepChain rules ts = true → lex rules (ts.flatMap (·.text)) = some ts := by
  intro ts
  induction ts with
  | nil => intro _ _; simp [lex, lexFuel]
  | cons t post ih =>
    intro hc hs
    have ht := hc t (by simp)
    have hrest : lex rules (post.flatMap (·.text)) = some post := by
      apply ih (fun x hx => hc x (by simp [hx]))
      cases post with
      | nil => rfl
      | cons t' rest => simp only [sepChain, Bool.and_eq_true] at hs; exact hs.2
    have hb : bestMatch rules (t.text ++ post.flatMap (·.text)) = some (t.kind, t.text.length) := by
      cases post with
      | nil => simpa using canon_bestMatch rules t ht
      | cons t' rest =>
        simp only [sepChain, Bool.and_eq_true] at hs
        have ht' := hc t' (by simp)
        obtain ⟨d, w', hd⟩ : ∃ d w', t.text = d :: w' := by
          cases h : t.text with
          | nil => exact absurd h ht.1
          | cons d w' => exact ⟨d, w', rfl⟩
        obtain ⟨c, v', hcv⟩ : ∃ c v', t'.text = c :: v' := by
          cases h : t'.text with
          | nil => exact absurd h ht'.1
          | cons c v' => exact ⟨c, v', rfl⟩
        have hsep : sepOK rules d.toNat c.toNat = true := by
          have := hs.1; rw [hd, hcv] at this; exact this
        have := bestMatch_sep rules d w' c (v' ++ rest.flatMap (·.text)) hsep
        simp only [List.flatMap_cons, hd, hcv, List.cons_append, List.append_assoc] at this ⊢
        rw [this]
        have hcb := canon_bestMatch rules t ht
        rw [hd] at hcb
        exact hcb
    simpa using lex_cons rules t.text (post.flatMap (·.text)) t.kind ht.1 hb post hrest

/-- … and parse back to the tree they derive -/
theorem lexParse_canon_sep (rules : List (Kind × Regex)) (ts : List Token) (tree : P.Tree)
    (hd : P.D false (ts.map toTok) tree) (hc : ∀ t ∈ ts, Canon rules t) (hs : sepChain rules ts = true) :
    lexParse rules (ts.flatMap (·.text)) = some tree := by
  unfold lexParse
  rw [lex_canon_sep rules ts hc hs]
  exact (P.parse_iff _ _).2 hd

/-- **C15 at character level (conditional on the local conditions).** Two renderings of rules – token lists that are
canonical and separated for the table, derive trees, and differ only in the spellings the grammar leaves free – are
read back from their *texts* as the same tree. -/
theorem C15_char_level (rules : List (Kind × Regex)) (ts ts' : List Token) (t t' : P.Tree)
    (hd : P.D false (ts.map toTok) t) (hd' : P.D false (ts'.map toTok) t')
    (hc : ∀ x ∈ ts, Canon rules x) (hc' : ∀ x ∈ ts', Canon rules x)
    (hs : sepChain rules ts = true) (hs' : sepChain rules ts' = true)
    (hn : (ts.map toTok).map P.norm = (ts'.map toTok).map P.norm) :
    lexParse rules (ts.flatMap (·.text)) = lexParse rules (ts'.flatMap (·.text)) ∧
    lexParse rules (ts.flatMap (·.text)) = some t := by
  have e := P.C15_texts_irrelevant hd hd' hn
  subst e
  rw [lexParse_canon_sep rules ts t hd hc hs, lexParse_canon_sep rules ts' t hd' hc' hs']
  exact ⟨rfl, rfl⟩

end Rules

/-! ### the separation side condition on the regenerated table, for every adjacency a rendered rule can contain
(except the three that need more than one character of look-ahead: a string literal followed by anything, `-` before an
integer, an integer before an exponent – those are left to the correspondence) -/
namespace Rules

def asciiLetters : List Nat := (List.range 26).map (· + 97) ++ (List.range 26).map (· + 65)
def asciiDigits : List Nat := (List.range 10).map (· + 48)

def sepAll (ds cs : List Nat) : Bool := ds.all fun d => cs.all fun c => sepOK Generated.lexerRules d c

/-- names, keywords and `pr` are cut off by a blank, a dot and parentheses; numbers by blank, `)`, `,`, `]`; a blank by
everything that can start a token (and by another blank); punctuation and symbolic operators by what follows them -/
theorem C15_sep_table :
    sepAll asciiLetters [32, 46, 40, 41] = true ∧
    sepAll asciiDigits [32, 41, 44, 93] = true ∧
    sepAll [32] (asciiLetters ++ asciiDigits ++ [40, 32, 45, 34, 91, 61, 33, 60, 62]) = true ∧
    sepAll [40] (asciiLetters ++ [32, 40]) = true ∧ sepAll [41] [32, 41] = true ∧
    sepAll [91] (asciiDigits ++ [34]) = true ∧ sepAll [93] [32, 41] = true ∧
    sepAll [44] (asciiDigits ++ [34]) = true ∧ sepAll [46] asciiLetters = true ∧
    sepAll [61, 33, 60, 62] [32] = true := by decide +kernel

def tk (k : Kind) (s : String) : Token := ⟨k, s.toList⟩

/-- an instance of the conditional theorem, all side conditions evaluated by the kernel on the regenerated table:
`order eq 1 and not (x.y IN [1,2])` and a respelling of it -/
example :
    let ts := [tk 22 "order", tk 30 " ", tk 13 "eq", tk 30 " ", tk 26 "1", tk 30 " ", tk 9 "and", tk 30 " ", tk 8 "not", tk 30 " ",
               tk 1 "(", tk 22 "x", tk 4 ".", tk 22 "y", tk 30 " ", tk 12 "IN", tk 30 " ", tk 6 "[", tk 26 "1", tk 29 ",", tk 26 "2", tk 7 "]", tk 2 ")"]
    let ts' := [tk 22 "order", tk 30 " \n", tk 13 "==", tk 30 " ", tk 26 "1", tk 30 " ", tk 9 "and", tk 30 " \n\n", tk 8 "NOT",
               tk 1 "(", tk 30 " ", tk 22 "x", tk 4 ".", tk 22 "y", tk 30 " ", tk 12 "in", tk 30 " ", tk 6 "[", tk 26 "1", tk 29 ",  ", tk 26 "2", tk 7 "]", tk 30 " ", tk 2 ")"]
    (ts.all (canonB Generated.lexerRules) && sepChain Generated.lexerRules ts &&
     ts'.all (canonB Generated.lexerRules) && sepChain Generated.lexerRules ts') = true ∧
    lexParse Generated.lexerRules (ts.flatMap (·.text)) = lexParse Generated.lexerRules (ts'.flatMap (·.text)) := by
  decide +kernel

end Rules
