import RulesModel.Proofs.LexChar
/-!
# Tokens that nothing can extend (string literals, punctuation) – the look-ahead side of the character-level round trip

`Proofs/LexChar.lean` separates adjacent tokens by **one** character of look-ahead (`sepOK`). That cannot work after a
string literal: the STRING rule can continue over any character, so no single next character "cuts it off". What is true
instead is that *after a complete literal no rule can match anything longer*: the Brzozowski derivative of every rule by the
token's text accepts no non-empty word. That is decidable per token (`extClosed`), and

* `bestMatch_closed` : a token that nothing can extend is chosen whole, whatever follows;
* `lex_canon_sep2`, `lexParse_canon_sep2`, `C15_char_level2` : the round trip and the character-level respelling theorem
  with the side condition per adjacent pair weakened to "`sepOK` **or** the left token is closed" – which covers string
  literals (first in-kernel instances below).
-/
namespace Rules
open Rules.Regex

def derivs (r : Regex) : List Char → Regex
  | [] => r
  | c :: cs => derivs (r.deriv c) cs

theorem derivs_iff (r : Regex) (w u : List Char) : Matches (derivs r w) u ↔ Matches r (w ++ u) := by
  induction w generalizing r with
  | nil => simp [derivs]
  | cons c cs ih => simp only [derivs, List.cons_append]; rw [ih, deriv_iff]

/-- after `w`, rule `r` accepts no non-empty continuation (conservative: decided on the first-character set of the derivative) -/
def closedAfter (r : Regex) (w : List Char) : Bool := (firstChars (derivs r w)).isEmpty

theorem closedAfter_sound (r : Regex) (w : List Char) (h : closedAfter r w = true) (u : List Char) (hu : u ≠ []) :
    ¬ Matches r (w ++ u) := by
  intro hm
  have hd := (derivs_iff r w u).2 hm
  obtain ⟨c, t, rfl⟩ : ∃ c t, u = c :: t := by cases u with | nil => exact absurd rfl hu | cons c t => exact ⟨c, t, rfl⟩
  have := firstChars_nonempty hd
  unfold closedAfter at h
  rw [h] at this
  cases this

theorem longest_closed (r : Regex) (w rest : List Char) (h : closedAfter r w = true) :
    longest r (w ++ rest) = longest r w := by
  apply longest_congr
  intro k
  constructor
  · rintro ⟨hk, hm⟩
    by_cases hle : k ≤ w.length
    · exact ⟨hle, by rwa [List.take_append_of_le_length hle] at hm⟩
    · exfalso
      obtain ⟨j, rfl⟩ : ∃ j, k = w.length + (j + 1) := ⟨k - (w.length + 1), by omega⟩
      rw [take_len_add] at hm
      have hlen : (w ++ rest).length = w.length + rest.length := by simp
      have hj : j + 1 ≤ rest.length := by omega
      have hne : rest.take (j + 1) ≠ [] := by
        cases rest with
        | nil => simp at hj
        | cons a b => simp
      exact closedAfter_sound r w h _ hne hm
  · rintro ⟨hk, hm⟩
    exact ⟨by simp; omega, by rwa [List.take_append_of_le_length hk]⟩

/-- no rule of the table can extend `w` -/
def extClosed (rules : List (Kind × Regex)) (w : List Char) : Bool := rules.all (fun kr => closedAfter kr.2 w)

theorem bestMatch_closed (rules : List (Kind × Regex)) (w rest : List Char) (h : extClosed rules w = true) :
    bestMatch rules (w ++ rest) = bestMatch rules w := by
  apply bestMatch_congr
  intro x hx
  exact longest_closed x.2 w rest (List.all_eq_true.1 h x hx)

/-- adjacent tokens are separated by one character of look-ahead **or** the left one cannot be extended at all -/
def sepChain2 (rules : List (Kind × Regex)) : List Token → Bool
  | t :: t' :: rest =>
    ((match t.text, t'.text with
      | d :: _, c :: _ => sepOK rules d.toNat c.toNat
      | _, _ => false) || extClosed rules t.text) && sepChain2 rules (t' :: rest)
  | _ => true

theorem sepChain2_of_sepChain (rules : List (Kind × Regex)) : ∀ ts, sepChain rules ts = true → sepChain2 rules ts = true
  | [] => fun _ => rfl
  | [_] => fun _ => rfl
  | t :: t' :: rest => by
    intro h
    simp only [sepChain, Bool.and_eq_true] at h
    simp only [sepChain2, Bool.and_eq_true, Bool.or_eq_true]
    exact ⟨.inl h.1, sepChain2_of_sepChain rules (t' :: rest) h.2⟩

/-- **Round trip from local conditions (with closed tokens).** -/
theorem lex_canon_sep2 (rules : List (Kind × Regex)) : ∀ (ts : List Token),
    (∀ t ∈ ts, Canon rules t) → sepChain2 rules ts = true → lex rules (ts.flatMap (·.text)) = some ts := by
  intro ts
  induction ts with
  | nil => intro _ _; simp [lex, lexFuel]
  | cons t post ih =>
    intro hc hs
    have ht := hc t (by simp)
    have hrest : lex rules (post.flatMap (·.text)) = some post := by
      apply ih (fun x hx => hc x (by simp [hx]))
      cases post with
      | nil => rfl
      | cons t' rest => simp only [sepChain2, Bool.and_eq_true] at hs; exact hs.2
    have hb : bestMatch rules (t.text ++ post.flatMap (·.text)) = some (t.kind, t.text.length) := by
      cases post with
      | nil => simpa using canon_bestMatch rules t ht
      | cons t' rest =>
        simp only [sepChain2, Bool.and_eq_true, Bool.or_eq_true] at hs
        have ht' := hc t' (by simp)
        rcases hs.1 with hsep | hcl
        · obtain ⟨d, w', hd⟩ : ∃ d w', t.text = d :: w' := by
            cases h : t.text with
            | nil => exact absurd h ht.1
            | cons d w' => exact ⟨d, w', rfl⟩
          obtain ⟨c, v', hcv⟩ : ∃ c v', t'.text = c :: v' := by
            cases h : t'.text with
            | nil => exact absurd h ht'.1
            | cons c v' => exact ⟨c, v', rfl⟩
          have hsep' : sepOK rules d.toNat c.toNat = true := by rw [hd, hcv] at hsep; exact hsep
          have := bestMatch_sep rules d w' c (v' ++ rest.flatMap (·.text)) hsep'
          simp only [List.flatMap_cons, hd, hcv, List.cons_append, List.append_assoc] at this ⊢
          rw [this]
          have hcb := canon_bestMatch rules t ht
          rw [hd] at hcb
          exact hcb
        · rw [bestMatch_closed rules t.text _ hcl]
          exact canon_bestMatch rules t ht
    simpa using lex_cons rules t.text (post.flatMap (·.text)) t.kind ht.1 hb post hrest

theorem lexParse_canon_sep2 (rules : List (Kind × Regex)) (ts : List Token) (tree : P.Tree)
    (hd : P.D false (ts.map toTok) tree) (hc : ∀ t ∈ ts, Canon rules t) (hs : sepChain2 rules ts = true) :
    lexParse rules (ts.flatMap (·.text)) = some tree := by
  unfold lexParse
  rw [lex_canon_sep2 rules ts hc hs]
  exact (P.parse_iff _ _).2 hd

/-- **C15 at character level, string literals included (conditional on the decidable local conditions).** -/
theorem C15_char_level2 (rules : List (Kind × Regex)) (ts ts' : List Token) (t t' : P.Tree)
    (hd : P.D false (ts.map toTok) t) (hd' : P.D false (ts'.map toTok) t')
    (hc : ∀ x ∈ ts, Canon rules x) (hc' : ∀ x ∈ ts', Canon rules x)
    (hs : sepChain2 rules ts = true) (hs' : sepChain2 rules ts' = true)
    (hn : (ts.map toTok).map P.norm = (ts'.map toTok).map P.norm) :
    lexParse rules (ts.flatMap (·.text)) = lexParse rules (ts'.flatMap (·.text)) ∧
    lexParse rules (ts.flatMap (·.text)) = some t := by
  have e := P.C15_texts_irrelevant hd hd' hn
  subst e
  rw [lexParse_canon_sep2 rules ts t hd hc hs, lexParse_canon_sep2 rules ts' t hd' hc' hs']
  exact ⟨rfl, rfl⟩

/-- string literals of the regenerated table are closed: plain, empty, with blanks, with every kind of escape, non-ASCII -/
theorem string_literals_closed :
    ["\"abc\"", "\"\"", "\" a b \"", "\"a\\\"\"", "\"\\\\\"", "\"\\u00e9x\"", "\"Straße Ω\"", "\"x\\n\""].all
      (fun s => extClosed Generated.lexerRules s.toList && canonB Generated.lexerRules ⟨24, s.toList⟩) = true := by
  decide +kernel

/-- an instance with string literals and a string list, all side conditions evaluated by the kernel on the regenerated table -/
example :
    let ts := [tk 22 "name", tk 30 " ", tk 13 "eq", tk 30 " ", tk 24 "\"Ann B\"", tk 30 " ", tk 9 "or", tk 30 " ",
               tk 22 "tag", tk 30 " ", tk 12 "in", tk 30 " ", tk 6 "[", tk 24 "\"a\\\"\"", tk 29 ",", tk 24 "\"b\"", tk 7 "]"]
    let ts' := [tk 22 "name", tk 30 " \n", tk 13 "==", tk 30 " ", tk 24 "\"Ann B\"", tk 30 " ", tk 9 "or", tk 30 " ",
               tk 22 "tag", tk 30 " ", tk 12 "IN", tk 30 " ", tk 6 "[", tk 24 "\"a\\\"\"", tk 29 ",   ", tk 24 "\"b\"", tk 7 "]"]
    (ts.all (canonB Generated.lexerRules) && sepChain2 Generated.lexerRules ts &&
     ts'.all (canonB Generated.lexerRules) && sepChain2 Generated.lexerRules ts') = true ∧
    lexParse Generated.lexerRules (ts.flatMap (·.text)) = lexParse Generated.lexerRules (ts'.flatMap (·.text)) := by
  decide +kernel

end Rules
