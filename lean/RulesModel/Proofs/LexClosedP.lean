import RulesModel.Proofs.LexAdj
/-!
# Closedness as a proposition (so that it can be *proved* for a whole token class)

`extClosed` (LexClosed) is a syntactic, executable test: after the text no rule's derivative has a first character. It is
evaluated per token. To state C15 for *every* sentence, closedness of string literals has to be a theorem about all
texts the STRING rule matches; that is a semantic statement (`SemClosed`: no rule matches a proper extension), so the
round-trip chain of LexClosed / LexAdj is repeated here with closedness as a proposition (`ClosedP`).
-/
namespace Rules
open Rules.Regex

/-- whatever follows, the lexer's choice at `w` is its choice for `w` alone -/
def ClosedP (rules : List (Kind × Regex)) (w : List Char) : Prop :=
  ∀ rest, bestMatch rules (w ++ rest) = bestMatch rules w

/-- no rule of the table matches a proper extension of `w` -/
def SemClosed (rules : List (Kind × Regex)) (w : List Char) : Prop :=
  ∀ kr ∈ rules, ∀ u, u ≠ [] → ¬ Matches kr.2 (w ++ u)

theorem closedP_of_ext (rules : List (Kind × Regex)) (w : List Char) (h : extClosed rules w = true) : ClosedP rules w :=
  fun rest => bestMatch_closed rules w rest h

theorem longest_semclosed (r : Regex) (w rest : List Char) (h : ∀ u, u ≠ [] → ¬ Matches r (w ++ u)) :
    longest r (w ++ rest) = longest r w := by
  apply longest_congr
  intro k
  constructor
  · rintro ⟨hk, hm⟩
    by_cases hle : k ≤ w.length
    · exact ⟨hle, by rwa [List.take_append_of_le_length hle] at hm⟩
    · exfalso
      obtain ⟨j, rfl⟩ : ∃ j, k = w.length + (j + 1) := ⟨k - (w.length + 1), by omega⟩
      rw [take_len_add] at hm
      have hlen : (w ++ rest).length = w.length + rest.length := by simp
      have hj : j + 1 ≤ rest.length := by omega
      have hne : rest.take (j + 1) ≠ [] := by
        cases rest with
        | nil => simp at hj
        | cons a b => simp
      exact h _ hne hm
  · rintro ⟨hk, hm⟩
    exact ⟨by simp; omega, by rwa [List.take_append_of_le_length hk]⟩

theorem closedP_of_sem (rules : List (Kind × Regex)) (w : List Char) (h : SemClosed rules w) : ClosedP rules w := by
  intro rest
  apply bestMatch_congr
  intro x hx
  exact longest_semclosed x.2 w rest (h x hx)

/-- adjacent tokens are separated by one character of look-ahead or the left one is closed -/
def SepChainP (rules : List (Kind × Regex)) : List Token → Prop
  | t :: t' :: rest =>
    ((match t.text, t'.text with
      | d :: _, c :: _ => sepOK rules d.toNat c.toNat = true
      | _, _ => False) ∨ ClosedP rules t.text) ∧ SepChainP rules (t' :: rest)
  | _ => True

theorem lex_canon_sepP (rules : List (Kind × Regex)) : ∀ (ts : List Token),
    (∀ t ∈ ts, Canon rules t) → SepChainP rules ts → lex rules (ts.flatMap (·.text)) = some ts := by
  intro ts
  induction ts with
  | nil => intro _ _; simp [lex, lexFuel]
  | cons t post ih =>
    intro hc hs
    have ht := hc t (by simp)
    have hrest : lex rules (post.flatMap (·.text)) = some post := by
      apply ih (fun x hx => hc x (by simp [hx]))
      cases post with
      | nil => trivial
      | cons t' rest => exact hs.2
    have hb : bestMatch rules (t.text ++ post.flatMap (·.text)) = some (t.kind, t.text.length) := by
      cases post with
      | nil => simpa using canon_bestMatch rules t ht
      | cons t' rest =>
        have ht' := hc t' (by simp)
        rcases hs.1 with hsep | hcl
        · obtain ⟨d, w', hd⟩ : ∃ d w', t.text = d :: w' := by
            cases h : t.text with
            | nil => exact absurd h ht.1
            | cons d w' => exact ⟨d, w', rfl⟩
          obtain ⟨c, v', hcv⟩ : ∃ c v', t'.text = c :: v' := by
            cases h : t'.text with
            | nil => exact absurd h ht'.1
            | cons c v' => exact ⟨c, v', rfl⟩
          have hsep' : sepOK rules d.toNat c.toNat = true := by rw [hd, hcv] at hsep; exact hsep
          have := bestMatch_sep rules d w' c (v' ++ rest.flatMap (·.text)) hsep'
          simp only [List.flatMap_cons, hd, hcv, List.cons_append, List.append_assoc] at this ⊢
          rw [this]
          have hcb := canon_bestMatch rules t ht
          rw [hd] at hcb
          exact hcb
        · rw [hcl]
          exact canon_bestMatch rules t ht
    simpa using lex_cons rules t.text (post.flatMap (·.text)) t.kind ht.1 hb post hrest

theorem sepChainP_of_adj (rules : List (Kind × Regex)) (htab : adjTableOK rules = true) : ∀ ts : List Token,
    (∀ x ∈ ts, Canon rules x) → (∀ x ∈ ts, x.kind = P.STRING → ClosedP rules x.text) →
    Adj.chainAdj (ts.map (·.kind)) = true → SepChainP rules ts
  | [], _, _, _ => trivial
  | [_], _, _, _ => trivial
  | t :: t' :: rest, hc, hcl, hch => by
    simp only [List.map_cons, Adj.chainAdj, Bool.and_eq_true] at hch
    have ih := sepChainP_of_adj rules htab (t' :: rest) (fun x hx => hc x (by simp [hx])) (fun x hx => hcl x (by simp [hx]))
      (by simpa using hch.2)
    refine ⟨?_, ih⟩
    obtain ⟨d, w, hd, hdm, hka⟩ := canon_first rules t (hc t (by simp))
    obtain ⟨c, v, hcv, hcm, hkb⟩ := canon_first rules t' (hc t' (by simp))
    have h1 := List.all_eq_true.1 htab t.kind hka
    have h2 := List.all_eq_true.1 h1 t'.kind hkb
    simp only [Bool.or_eq_true, Bool.not_eq_true', beq_iff_eq] at h2
    rcases h2 with (h2 | h2) | h2
    · rw [hch.1] at h2; cases h2
    · exact .inr (hcl t (by simp) h2)
    · left
      rw [hd, hcv]
      have h3 := List.all_eq_true.1 h2 d.toNat hdm
      exact List.all_eq_true.1 h3 c.toNat hcm

/-- `lexParse_tokens` with closedness as a proposition -/
theorem lexParse_tokensP (rules : List (Kind × Regex)) (htab : adjTableOK rules = true) (ts : List Token) (t : P.Tree)
    (hd : P.D false (ts.map toTok) t) (hc : ∀ x ∈ ts, Canon rules x)
    (hcl : ∀ x ∈ ts, x.kind = P.STRING → ClosedP rules x.text)
    (hns : ∀ x ∈ ts, x.kind ≠ P.MINUS ∧ x.kind ≠ P.EXP) :
    lexParse rules (ts.flatMap (·.text)) = some t := by
  have hn : Adj.NoSign (ts.map toTok) := by
    intro x hx
    obtain ⟨y, hy, rfl⟩ := List.mem_map.1 hx
    exact hns y hy
  obtain ⟨f, l, hs, _, _⟩ := Adj.D_adjacent hd hn
  have hch : Adj.chainAdj (ts.map (·.kind)) = true := by rw [← kinds_toTok]; exact hs.chain
  unfold lexParse
  rw [lex_canon_sepP rules ts hc (sepChainP_of_adj rules htab ts hc hcl hch)]
  exact (P.parse_iff _ _).2 hd

end Rules
