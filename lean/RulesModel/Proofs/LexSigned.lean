import RulesModel.Proofs.LexClosedP
/-!
# The last two adjacencies: `-` before an integer, an integer before an exponent

`Adj.D_adjacent` (LexAdj) leaves out token sequences with a `-` or an exponent token, because one character of
look-ahead does not separate them: after `-` a digit could start a DOUBLE (`-12.5`), after `12` an `e` could belong to
the exponent of a DOUBLE. What decides these two is the *shape* of the integer token and of what follows it: an INT is a
digit string, and whatever can follow it in a rule (`]`, `,`, a blank, `)`, an exponent) starts with neither a digit nor
a dot, so no DOUBLE / VERSION can be completed.

This file repeats the neighbour analysis of LexAdj for **all** derivable token sequences (`AdjS.D_adjacent`), adds a
third way of separating neighbours to the chain condition (`SepChainQ`: the maximal-munch choice on the rest of the text
is the left token) and reduces that third way to two statements about the table (`SignedOK`), which
`Proofs/C15SignedTable.lean` proves for the table regenerated from JsonQuery.g4.

* `lexParse_tokensQ` : a token sequence the grammar derives - any sentence - in which every token is canonical for the
  table and every string literal is closed is read back from its text as the tree it derives.
-/
namespace Rules.AdjS
open Rules.P
open Rules.Adj (isFirst isVal isElem isLast adj)

def isLastS (k : Kind) : Bool := isLast k || k == EXP

/-- kinds that can be neighbours in a derivable token sequence -/
def adjS (a b : Kind) : Bool :=
  adj a b || (a == SP && b == MINUS) || (a == MINUS && b == INT) || (a == INT && b == EXP) ||
  (a == EXP && (b == SP || b == RP))

def chain : List Kind → Bool
  | a :: b :: rest => adjS a b && chain (b :: rest)
  | _ => true

def bnd (xs ys : List Kind) : Bool :=
  match xs.getLast?, ys.head? with
  | some a, some b => adjS a b
  | _, _ => true

theorem chain_append : ∀ (xs ys : List Kind), chain (xs ++ ys) = (chain xs && chain ys && bnd xs ys)
  | [], ys => by simp [chain, bnd]
  | [a], [] => by simp [chain, bnd]
  | [a], b :: ys => by simp [chain, bnd, Bool.and_comm]
  | a :: b :: xs, ys => by
    have ih := chain_append (b :: xs) ys
    simp only [List.cons_append] at ih ⊢
    simp only [chain, ih, bnd, List.getLast?_cons_cons]
    cases adjS a b <;> simp

structure Seg (ks : List Kind) (f l : Kind) : Prop where
  head : ks.head? = some f
  last : ks.getLast? = some l
  chain : chain ks = true

theorem Seg.single (k : Kind) : Seg [k] k k := ⟨rfl, rfl, rfl⟩

theorem Seg.append {xs ys f1 l1 f2 l2} (h1 : Seg xs f1 l1) (h2 : Seg ys f2 l2) (ha : adjS l1 f2 = true) :
    Seg (xs ++ ys) f1 l2 := by
  refine ⟨?_, ?_, ?_⟩
  · rw [List.head?_append]; simp [h1.head]
  · rw [List.getLast?_append]; simp [h2.last]
  · rw [chain_append, h1.chain, h2.chain]; simp [bnd, h1.last, h2.head, ha]

theorem Seg.optCons {ys f l} (k : Kind) (o : Option String) (h : Seg ys f l) (ha : adjS k f = true) :
    Seg ((optTok k o).map (·.kind) ++ ys) (if o.isSome then k else f) l := by
  cases o with
  | none => simpa [optTok] using h
  | some s => simpa [optTok] using Seg.append (Seg.single k) h ha

theorem Seg.optSnoc {xs f l} (k : Kind) (o : Option String) (h : Seg xs f l) (ha : adjS l k = true) :
    Seg (xs ++ (optTok k o).map (·.kind)) f (if o.isSome then k else l) := by
  cases o with
  | none => simpa [optTok] using h
  | some s => simpa [optTok] using Seg.append h (Seg.single k) ha

def kinds (ts : List Tok) : List Kind := ts.map (·.kind)

theorem DPath_seg {ps p} (h : DPath ps p) : Seg (kinds ps) ATTR ATTR := by
  induction h with
  | one n => exact Seg.single ATTR
  | dot n d _ ih =>
    have := Seg.append (Seg.append (Seg.single ATTR) (Seg.single DOT) (by decide)) ih (by decide)
    simpa [kinds] using this

theorem DList_seg {k ts xs} (hk : isElem k = true) (h : DList k ts xs) : Seg (kinds ts) k RB := by
  induction h with
  | last t b =>
    have := Seg.append (Seg.single k) (Seg.single RB) (by simp [adjS, adj, hk, RB])
    simpa [kinds] using this
  | cons t c _ ih =>
    have h1 := Seg.append (Seg.single k) (Seg.single COMMA) (by simp [adjS, adj, hk, COMMA])
    have := Seg.append h1 ih (by simp [adjS, adj, hk, COMMA])
    simpa [kinds] using this

/-- what a value can start and end with -/
def isValFirst (k : Kind) : Bool := isVal k || k == LB || k == MINUS
def isValLast (k : Kind) : Bool := isVal k || k == RB || k == EXP

theorem DValue_seg {vs v} (h : DValue vs v) :
    ∃ f l, Seg (kinds vs) f l ∧ isValFirst f = true ∧ isValLast l = true := by
  cases h with
  | bool t => exact ⟨BOOLEAN, BOOLEAN, Seg.single _, by decide, by decide⟩
  | null t => exact ⟨NULL, NULL, Seg.single _, by decide, by decide⟩
  | version t => exact ⟨VERSION, VERSION, Seg.single _, by decide, by decide⟩
  | str t => exact ⟨STRING, STRING, Seg.single _, by decide, by decide⟩
  | double t => exact ⟨DOUBLE, DOUBLE, Seg.single _, by decide, by decide⟩
  | long m i e =>
    have a0 : Seg [INT] INT INT := Seg.single INT
    have a1 := Seg.optSnoc EXP e a0 (by decide)
    have a2 := Seg.optCons MINUS m a1 (by cases e <;> decide)
    refine ⟨_, _, by simpa [kinds, optTok, List.map_append, Function.comp_def] using a2, ?_, ?_⟩
    · cases m <;> cases e <;> simp [isValFirst, isVal, MINUS, INT, BOOLEAN, NULL, VERSION, STRING, DOUBLE, LB]
    · cases m <;> cases e <;> simp [isValLast, isVal, EXP, INT, BOOLEAN, NULL, VERSION, STRING, DOUBLE, RB]
  | list k hk b hl =>
    have he : isElem k = true := by rcases hk with h | h | h <;> subst h <;> decide
    have := Seg.append (Seg.single LB) (DList_seg he hl) (by simp [adjS, adj, he, LB])
    exact ⟨LB, RB, by simpa [kinds] using this, by decide, by decide⟩

theorem adjS_sp_valFirst (f : Kind) (h : isValFirst f = true) : adjS SP f = true := by
  simp only [isValFirst, Bool.or_eq_true, beq_iff_eq] at h
  rcases h with (h | h) | h
  · simp [adjS, adj, h, SP]
  · subst h; decide
  · subst h; decide

theorem isLastS_of_valLast (l : Kind) (h : isValLast l = true) : isLastS l = true := by
  simp only [isValLast, Bool.or_eq_true, beq_iff_eq] at h
  rcases h with (h | h) | h
  · simp [isLastS, isLast, h]
  · subst h; decide
  · subst h; decide

theorem adjS_last_sp (l : Kind) (h : isLastS l = true) : adjS l SP = true := by
  simp only [isLastS, Bool.or_eq_true, beq_iff_eq] at h
  rcases h with h | h
  · simp [adjS, adj, h, SP]
  · subst h; decide

theorem adjS_last_rp (l : Kind) (h : isLastS l = true) : adjS l RP = true := by
  simp only [isLastS, Bool.or_eq_true, beq_iff_eq] at h
  rcases h with h | h
  · simp [adjS, adj, h, RP]
  · subst h; decide

theorem adjS_sp_first (f : Kind) (h : isFirst f = true) : adjS SP f = true := by simp [adjS, adj, h, SP]
theorem adjS_lp_first (f : Kind) (h : isFirst f = true) : adjS LP f = true := by simp [adjS, adj, h, LP]

/-- **Neighbours in a rule – every sentence.** Every derivable token sequence starts with a kind in `isFirst`, ends with a
kind in `isLastS`, and all its neighbours are `adjS`-related. -/
theorem D_adjacent {b ts t} (h : D b ts t) :
    ∃ f l, Seg (kinds ts) f l ∧ isFirst f = true ∧ isLastS l = true := by
  induction h with
  | @paren n s1 s2 s3 l r ts t _ ih =>
    obtain ⟨f, la, hs, hf, hl⟩ := ih
    have a1 := Seg.optCons SP s2 hs (adjS_sp_first f hf)
    have hf1 : isFirst (if s2.isSome then SP else f) = true := by
      cases s2 with
      | none => simpa using hf
      | some _ => simp [isFirst]
    have a2 := Seg.append (Seg.single LP) a1 (adjS_lp_first _ hf1)
    have a3 := Seg.optSnoc SP s3 a2 (adjS_last_sp la hl)
    have a4 := Seg.append a3 (Seg.single RP) (by
      cases s3 with
      | none => simpa using adjS_last_rp la hl
      | some _ => simp [adjS, adj, SP, RP])
    have a5 := Seg.optCons SP s1 a4 (by decide)
    have a6 := Seg.optCons NOT n a5 (by cases s1 <;> simp [adjS, adj, NOT, SP, LP])
    refine ⟨_, RP, by simpa [kinds, List.map_append, List.append_assoc] using a6, ?_, by decide⟩
    cases n <;> cases s1 <;> simp [isFirst]
  | @present s pr ps p hp =>
    have := Seg.append (Seg.append (DPath_seg hp) (Seg.single SP) (by decide)) (Seg.single PR) (by decide)
    exact ⟨ATTR, PR, by simpa [kinds, List.map_append] using this, by decide, by decide⟩
  | @compare s1 o s2 k hk ps p vs v hp hv =>
    obtain ⟨f, la, hs, hf, hl⟩ := DValue_seg hv
    have b1 := Seg.append (DPath_seg hp) (Seg.single SP) (by decide)
    have b2 := Seg.append b1 (Seg.single k) (by simp [adjS, adj, hk, SP])
    have b3 := Seg.append b2 (Seg.single SP) (by simp [adjS, adj, hk, SP])
    have b4 := Seg.append b3 hs (adjS_sp_valFirst f hf)
    exact ⟨ATTR, la, by simpa [kinds, List.map_append, List.append_assoc] using b4, by decide, isLastS_of_valLast la hl⟩
  | prim _ ih => exact ih
  | @logical s1 op s2 ts1 t1 ts2 t2 _ _ ih1 ih2 =>
    obtain ⟨f1, l1, hs1, hf1, hl1⟩ := ih1
    obtain ⟨f2, l2, hs2, hf2, hl2⟩ := ih2
    have c1 := Seg.append hs1 (Seg.single SP) (adjS_last_sp l1 hl1)
    have c2 := Seg.append c1 (Seg.single LOGOP) (by decide)
    have c3 := Seg.append c2 (Seg.single SP) (by decide)
    have c4 := Seg.append c3 hs2 (adjS_sp_first f2 hf2)
    exact ⟨f1, l2, by simpa [kinds, List.map_append, List.append_assoc] using c4, hf1, hl2⟩

end Rules.AdjS

namespace Rules
open Rules.Regex

/-- neither a decimal digit nor a dot -/
def nonDigitDot (c : Nat) : Bool := !(decide (48 ≤ c) && decide (c ≤ 57)) && c != 46

/-- the table fact for all sentences: kinds that can be neighbours are separated by one character of look-ahead, unless the
left one is a string literal (closed), a `-` before an integer or an integer before an exponent (`SignedOK`) -/
def adjTableOKS (rules : List (Kind × Regex)) : Bool :=
  (rules.map (·.1)).all fun a => (rules.map (·.1)).all fun b =>
    !AdjS.adjS a b || a == P.STRING || (a == P.MINUS && b == P.INT) || (a == P.INT && b == P.EXP) || sepKinds rules a b

/-- whatever can follow an integer token starts with neither a digit nor a dot -/
def intFollowOK (rules : List (Kind × Regex)) : Bool :=
  (rules.map (·.1)).all fun b => !AdjS.adjS P.INT b || (expand (firstOfKind rules b)).all nonDigitDot

/-- what the table has to guarantee about `-` and integer tokens -/
structure SignedOK (rules : List (Kind × Regex)) : Prop where
  minus : ∀ x : Token, Canon rules x → x.kind = P.MINUS → x.text = ['-']
  int : ∀ (i : Token) (r : List Char), Canon rules i → i.kind = P.INT →
    (∀ c, r.head? = some c → nonDigitDot c.toNat = true) →
    bestMatch rules ('-' :: (i.text ++ r)) = some (P.MINUS, 1) ∧
    bestMatch rules (i.text ++ r) = some (P.INT, i.text.length)

/-- adjacent tokens are separated by one character of look-ahead, or the left one is closed, or the maximal-munch choice
on the rest of the text is the left token -/
def SepChainQ (rules : List (Kind × Regex)) : List Token → Prop
  | t :: t' :: rest =>
    ((match t.text, t'.text with
      | d :: _, c :: _ => sepOK rules d.toNat c.toNat = true
      | _, _ => False) ∨ ClosedP rules t.text ∨
      bestMatch rules (t.text ++ (t' :: rest).flatMap (·.text)) = some (t.kind, t.text.length)) ∧
    SepChainQ rules (t' :: rest)
  | _ => True

theorem lex_canon_sepQ (rules : List (Kind × Regex)) : ∀ (ts : List Token),
    (∀ t ∈ ts, Canon rules t) → SepChainQ rules ts → lex rules (ts.flatMap (·.text)) = some ts := by
  intro ts
  induction ts with
  | nil => intro _ _; simp [lex, lexFuel]
  | cons t post ih =>
    intro hc hs
    have ht := hc t (by simp)
    have hrest : lex rules (post.flatMap (·.text)) = some post := by
      apply ih (fun x hx => hc x (by simp [hx]))
      cases post with
      | nil => trivial
      | cons t' rest => exact hs.2
    have hb : bestMatch rules (t.text ++ post.flatMap (·.text)) = some (t.kind, t.text.length) := by
      cases post with
      | nil => simpa using canon_bestMatch rules t ht
      | cons t' rest =>
        have ht' := hc t' (by simp)
        rcases hs.1 with hsep | hcl | hah
        · obtain ⟨d, w', hd⟩ : ∃ d w', t.text = d :: w' := by
            cases h : t.text with
            | nil => exact absurd h ht.1
            | cons d w' => exact ⟨d, w', rfl⟩
          obtain ⟨c, v', hcv⟩ : ∃ c v', t'.text = c :: v' := by
            cases h : t'.text with
            | nil => exact absurd h ht'.1
            | cons c v' => exact ⟨c, v', rfl⟩
          have hsep' : sepOK rules d.toNat c.toNat = true := by rw [hd, hcv] at hsep; exact hsep
          have := bestMatch_sep rules d w' c (v' ++ rest.flatMap (·.text)) hsep'
          simp only [List.flatMap_cons, hd, hcv, List.cons_append, List.append_assoc] at this ⊢
          rw [this]
          have hcb := canon_bestMatch rules t ht
          rw [hd] at hcb
          exact hcb
        · rw [hcl]
          exact canon_bestMatch rules t ht
        · exact hah
    simpa using lex_cons rules t.text (post.flatMap (·.text)) t.kind ht.1 hb post hrest

/-- the first character of a canonical token of a kind that may follow an integer -/
theorem follow_head (rules : List (Kind × Regex)) (hfol : intFollowOK rules = true) (x : Token) (hx : Canon rules x)
    (ha : AdjS.adjS P.INT x.kind = true) (rest : List Char) :
    ∀ c, (x.text ++ rest).head? = some c → nonDigitDot c.toNat = true := by
  obtain ⟨c0, v, hcv, hcm, hkb⟩ := canon_first rules x hx
  intro c hc
  rw [hcv] at hc
  simp only [List.cons_append, List.head?_cons, Option.some.injEq] at hc
  subst hc
  have h1 := List.all_eq_true.1 hfol x.kind hkb
  simp only [ha, Bool.not_true, Bool.false_or] at h1
  exact List.all_eq_true.1 h1 _ hcm

theorem sepChainQ_of_adj (rules : List (Kind × Regex)) (htab : adjTableOKS rules = true) (hfol : intFollowOK rules = true)
    (hsig : SignedOK rules) : ∀ ts : List Token,
    (∀ x ∈ ts, Canon rules x) → (∀ x ∈ ts, x.kind = P.STRING → ClosedP rules x.text) →
    AdjS.chain (ts.map (·.kind)) = true → SepChainQ rules ts
  | [], _, _, _ => trivial
  | [_], _, _, _ => trivial
  | t :: t' :: rest, hc, hcl, hch => by
    simp only [List.map_cons, AdjS.chain, Bool.and_eq_true] at hch
    have ih := sepChainQ_of_adj rules htab hfol hsig (t' :: rest) (fun x hx => hc x (by simp [hx]))
      (fun x hx => hcl x (by simp [hx])) (by simpa using hch.2)
    refine ⟨?_, ih⟩
    obtain ⟨d, w, hd, hdm, hka⟩ := canon_first rules t (hc t (by simp))
    obtain ⟨c, v, hcv, hcm, hkb⟩ := canon_first rules t' (hc t' (by simp))
    have h1 := List.all_eq_true.1 htab t.kind hka
    have h2 := List.all_eq_true.1 h1 t'.kind hkb
    simp only [Bool.or_eq_true, Bool.not_eq_true', beq_iff_eq, Bool.and_eq_true] at h2
    rcases h2 with (((h2 | h2) | h2) | h2) | h2
    · rw [hch.1] at h2; cases h2
    · exact .inr (.inl (hcl t (by simp) h2))
    · -- `-` before an integer: look over the integer at what follows it
      right; right
      have hm := hsig.minus t (hc t (by simp)) h2.1
      have hr : ∀ c, (rest.flatMap (·.text)).head? = some c → nonDigitDot c.toNat = true := by
        cases rest with
        | nil => intro c hc'; simp at hc'
        | cons t'' rest' =>
          have ha : AdjS.adjS P.INT t''.kind = true := by
            have := hch.2
            simp only [List.map_cons, AdjS.chain, Bool.and_eq_true] at this
            rw [← h2.2]; exact this.1
          simpa using follow_head rules hfol t'' (hc t'' (by simp)) ha (rest'.flatMap (·.text))
      have := (hsig.int t' (rest.flatMap (·.text)) (hc t' (by simp)) h2.2 hr).1
      rw [hm, h2.1]
      simpa using this
    · -- an integer before an exponent
      right; right
      have ha : AdjS.adjS P.INT t'.kind = true := by rw [h2.2]; decide
      have hr := follow_head rules hfol t' (hc t' (by simp)) ha (rest.flatMap (·.text))
      have := (hsig.int t ((t' :: rest).flatMap (·.text)) (hc t (by simp)) h2.1 (by simpa using hr)).2
      rw [h2.1]
      exact this
    · left
      rw [hd, hcv]
      have h3 := List.all_eq_true.1 h2 d.toNat hdm
      exact List.all_eq_true.1 h3 c.toNat hcm

/-- the two decidable table facts, on the table regenerated from JsonQuery.g4 on this run -/
theorem adj_separated_all : adjTableOKS Generated.lexerRules = true := by decide +kernel
theorem int_follow : intFollowOK Generated.lexerRules = true := by decide +kernel

theorem kindsS_toTok (ts : List Token) : AdjS.kinds (ts.map toTok) = ts.map (·.kind) := by
  simp [AdjS.kinds, toTok, Function.comp_def]

/-- **Character-level round trip from per-token conditions, every sentence.** A token sequence the grammar derives, in
which every token is canonical for the table and every string literal is closed, is read back from its text as the tree it
derives – `-` and exponent tokens included. -/
theorem lexParse_tokensQ (rules : List (Kind × Regex)) (htab : adjTableOKS rules = true) (hfol : intFollowOK rules = true)
    (hsig : SignedOK rules) (ts : List Token) (t : P.Tree)
    (hd : P.D false (ts.map toTok) t) (hc : ∀ x ∈ ts, Canon rules x)
    (hcl : ∀ x ∈ ts, x.kind = P.STRING → ClosedP rules x.text) :
    lexParse rules (ts.flatMap (·.text)) = some t := by
  obtain ⟨f, l, hs, _, _⟩ := AdjS.D_adjacent hd
  have hch : AdjS.chain (ts.map (·.kind)) = true := by rw [← kindsS_toTok]; exact hs.chain
  unfold lexParse
  rw [lex_canon_sepQ rules ts hc (sepChainQ_of_adj rules htab hfol hsig ts hc hcl hch)]
  exact (P.parse_iff _ _).2 hd

end Rules
