import RulesModel.Generated.Ops
namespace Rules.OpsGen
open Rules Rules.Go Rules.GenOps

/-- pure functions: no Stringer is asked -/
def embedP : OpRes → Bool × Option GErr
  | .ok b _ => (b, none)
  | .err e _ => (false, some (.op e))
  | .panic _ => (false, none)

theorem toFloat_V (lower : Bytes → Bytes) (l : Value) :
    toFloat lower (GoVal.ofV l) = match toFloatL l with
      | some f => (f, none)
      | none => (F64.ofInt 0, some (.op .invalidOperand)) := by
  cases l <;> simp [toFloat, GoVal.ofV, toFloatL]

theorem toFloat_R (lower : Bytes → Bytes) (r : ROp) :
    toFloat lower (GoVal.ofR r) = match toFloatR r with
      | some f => (f, none)
      | none => (F64.ofInt 0, some (.op .invalidOperand)) := by
  cases r <;> simp [toFloat, GoVal.ofR, toFloatR]

theorem float_get (lower : Bytes → Bytes) (l : Value) (r : ROp) :
    FloatOperation_get lower (GoVal.ofV l) (GoVal.ofR r) =
      match l with
      | .null => (F64.ofInt 0, F64.ofInt 0, some (.op .missing))
      | _ => match toFloatL l with
        | none => (F64.ofInt 0, F64.ofInt 0, some (.op .invalidOperand))
        | some a => match toFloatR r with
          | none => (a, F64.ofInt 0, some (.op .invalidOperand))
          | some b => (a, b, none) := by
  unfold FloatOperation_get
  rw [toFloat_V, toFloat_R]
  cases l <;> cases r <;> simp [GoVal.ofV, isNilG, toFloatL, toFloatR]

theorem float_rel (lower : Bytes → Bytes) (l : Value) (r : ROp) :
    FloatOperation_EQ lower (GoVal.ofV l) (GoVal.ofR r) = embedP (floatRelOp .eq l r) ∧
    FloatOperation_NE lower (GoVal.ofV l) (GoVal.ofR r) = embedP (floatRelOp .ne l r) ∧
    FloatOperation_GT lower (GoVal.ofV l) (GoVal.ofR r) = embedP (floatRelOp .gt l r) ∧
    FloatOperation_LT lower (GoVal.ofV l) (GoVal.ofR r) = embedP (floatRelOp .lt l r) ∧
    FloatOperation_GE lower (GoVal.ofV l) (GoVal.ofR r) = embedP (floatRelOp .ge l r) ∧
    FloatOperation_LE lower (GoVal.ofV l) (GoVal.ofR r) = embedP (floatRelOp .le l r) := by
  simp only [FloatOperation_EQ, FloatOperation_NE, FloatOperation_GT, FloatOperation_LT, FloatOperation_GE, FloatOperation_LE, float_get]
  cases l <;> cases r <;> simp [floatRelOp, toFloatL, toFloatR, embedP, floatRel]

theorem forRange_any (rs : List F64) (a : F64) :
    Go.forRange rs (fun v => if F64.eq v a = true then some (true, (none : Option GErr)) else none) =
      if rs.any (fun r => F64.eq r a) then some (true, none) else none := by
  induction rs with
  | nil => simp [Go.forRange]
  | cons x xs ih =>
    simp only [Go.forRange, List.any_cons]
    by_cases h : F64.eq x a = true <;> simp [h, ih]

theorem float_in (lower : Bytes → Bytes) (l : Value) (r : ROp) :
    FloatOperation_IN lower (GoVal.ofV l) (GoVal.ofR r) = embedP (floatOp .in_ l r) := by
  unfold FloatOperation_IN
  rw [toFloat_V]
  cases hl : toFloatL l with
  | none => simp [floatOp, hl, embedP]
  | some a =>
    cases r <;> simp [floatOp, hl, embedP, GoVal.ofR, asFloats]
    rename_i rs
    rw [forRange_any rs a]
    cases rs.any (fun r => F64.eq r a) <;> simp

/-! ### IntOperation (the rule operand is never a float64: `visitLit` pairs it with ints only) -/
def NotFloat : ROp → Prop
  | .float _ => False
  | _ => True

theorem toInt_V (lower : Bytes → Bytes) (l : Value) (h : ∀ f, l ≠ .float f) :
    toInt lower (GoVal.ofV l) = match toIntL l with
      | some n => (n, none)
      | none => (0, some (.op .invalidOperand)) := by
  cases l <;> simp [toInt, GoVal.ofV, toIntL] at *

theorem toInt_R (lower : Bytes → Bytes) (r : ROp) (h : NotFloat r) :
    toInt lower (GoVal.ofR r) = match toIntR r with
      | some n => (n, none)
      | none => (0, some (.op .invalidOperand)) := by
  cases r <;> simp [toInt, GoVal.ofR, toIntR, NotFloat] at *

theorem int_rel (lower : Bytes → Bytes) (l : Value) (r : ROp) (h : NotFloat r) :
    IntOperation_EQ lower (GoVal.ofV l) (GoVal.ofR r) = embedP (intRelOp .eq l r) ∧
    IntOperation_NE lower (GoVal.ofV l) (GoVal.ofR r) = embedP (intRelOp .ne l r) ∧
    IntOperation_GT lower (GoVal.ofV l) (GoVal.ofR r) = embedP (intRelOp .gt l r) ∧
    IntOperation_LT lower (GoVal.ofV l) (GoVal.ofR r) = embedP (intRelOp .lt l r) ∧
    IntOperation_GE lower (GoVal.ofV l) (GoVal.ofR r) = embedP (intRelOp .ge l r) ∧
    IntOperation_LE lower (GoVal.ofV l) (GoVal.ofR r) = embedP (intRelOp .le l r) := by
  have fr := float_rel lower l r
  cases l with
  | float f =>
    simp only [IntOperation_EQ, IntOperation_NE, IntOperation_GT, IntOperation_LT, IntOperation_GE, IntOperation_LE, GoVal.ofV, asFloat, intRelOp]
    simpa [GoVal.ofV] using fr
  | _ =>
    clear fr
    cases r <;> simp [bne, IntOperation_EQ, IntOperation_NE, IntOperation_GT, IntOperation_LT, IntOperation_GE, IntOperation_LE, IntOperation_get, GoVal.ofV, GoVal.ofR,
      asFloat, isNilG, toInt, intRelOp, toIntL, toIntR, embedP, intRel, NotFloat] at *

theorem int_in_loop (lower : Bytes → Bytes) (l : Value) (ns : List Int) :
    (match Go.forRange ns (fun v2 =>
        (let (t4, t5) := IntOperation_EQ lower (GoVal.ofV l) (GoVal.int v2)
         if t5.isSome then some (false, t5) else if t4 then some (true, none) else none)) with
      | some t3 => t3
      | none => (false, (none : Option GErr))) = embedP (intInLoop l ns) := by
  induction ns with
  | nil => simp [Go.forRange, intInLoop, embedP]
  | cons n rest ih =>
    have h1 := (int_rel lower l (.int n) trivial).1
    simp only [GoVal.ofR] at h1
    simp only [Go.forRange, intInLoop, h1]
    cases hr : intRelOp .eq l (.int n) with
    | ok b c => cases b <;> simp [embedP, ih]
    | err e c => simp [embedP]
    | panic c => 
      exfalso
      cases l <;> simp [intRelOp, floatRelOp, toFloatL, toFloatR, toIntL, toIntR] at hr

theorem int_in (lower : Bytes → Bytes) (l : Value) (r : ROp) :
    IntOperation_IN lower (GoVal.ofV l) (GoVal.ofR r) = embedP (intOp .in_ l r) := by
  unfold IntOperation_IN
  cases r <;> simp [intOp, embedP, GoVal.ofR, asInts]
  rename_i ns
  exact int_in_loop lower l ns

/-! ### NullOperation, BoolOperation -/
theorem null_all (lower : Bytes → Bytes) (l : Value) (r : ROp) :
    NullOperation_EQ lower (GoVal.ofV l) (GoVal.ofR r) = embedP (nullOp .eq l) ∧
    NullOperation_NE lower (GoVal.ofV l) (GoVal.ofR r) = embedP (nullOp .ne l) ∧
    NullOperation_GT lower (GoVal.ofV l) (GoVal.ofR r) = embedP (nullOp .gt l) ∧
    NullOperation_LT lower (GoVal.ofV l) (GoVal.ofR r) = embedP (nullOp .lt l) ∧
    NullOperation_GE lower (GoVal.ofV l) (GoVal.ofR r) = embedP (nullOp .ge l) ∧
    NullOperation_LE lower (GoVal.ofV l) (GoVal.ofR r) = embedP (nullOp .le l) ∧
    NullOperation_CO lower (GoVal.ofV l) (GoVal.ofR r) = embedP (nullOp .co l) ∧
    NullOperation_SW lower (GoVal.ofV l) (GoVal.ofR r) = embedP (nullOp .sw l) ∧
    NullOperation_EW lower (GoVal.ofV l) (GoVal.ofR r) = embedP (nullOp .ew l) ∧
    NullOperation_IN lower (GoVal.ofV l) (GoVal.ofR r) = embedP (nullOp .in_ l) := by
  cases l <;> simp [NullOperation_EQ, NullOperation_NE, NullOperation_GT, NullOperation_LT, NullOperation_GE, NullOperation_LE,
    NullOperation_CO, NullOperation_SW, NullOperation_EW, NullOperation_IN, nullOp, embedP, GoVal.ofV, isNilG, Value.isNull]

theorem bool_rel (lower : Bytes → Bytes) (l : Value) (r : ROp) :
    BoolOperation_EQ lower (GoVal.ofV l) (GoVal.ofR r) = embedP (boolOp .eq l r) ∧
    BoolOperation_NE lower (GoVal.ofV l) (GoVal.ofR r) = embedP (boolOp .ne l r) := by
  cases l <;> cases r <;> simp [bne, BoolOperation_EQ, BoolOperation_NE, BoolOperation_get, boolOp, embedP, GoVal.ofV, GoVal.ofR, isNilG, asBool]

/-! ### StringOperation (threads the log of Stringer calls) -/
theorem getString_V (lower : Bytes → Bytes) (w : W) (l : Value) :
    StringOperation_getString lower w (GoVal.ofV l) = match getStringL l with
      | .str s c => .ok ((s, none), w ++ c)
      | .invalid => .ok (([], some (.op .invalidOperand)), w)
      | .panic c => .error (w ++ c) := by
  cases l with
  | stringer id beh => cases beh <;> simp [StringOperation_getString, GoVal.ofV, getStringL, callString]
  | _ => simp [StringOperation_getString, GoVal.ofV, getStringL]

theorem getString_R (lower : Bytes → Bytes) (w : W) (r : ROp) :
    StringOperation_getString lower w (GoVal.ofR r) = match getStringR r with
      | some s => .ok ((s, none), w)
      | none => .ok (([], some (.op .invalidOperand)), w) := by
  cases r <;> simp [StringOperation_getString, GoVal.ofR, getStringR]

theorem string_get (lower : Bytes → Bytes) (w : W) (l : Value) (r : ROp) :
    StringOperation_get lower w (GoVal.ofV l) (GoVal.ofR r) =
      match l with
      | .null => .ok (([], [], some (.op .missing)), w)
      | _ => match getStringL l with
        | .invalid => .ok (([], [], some (.op .invalidOperand)), w)
        | .panic c => .error (w ++ c)
        | .str a c => match getStringR r with
          | none => .ok (([], [], some (.op .invalidOperand)), w ++ c)
          | some b => .ok ((lower a, lower b, none), w ++ c) := by
  unfold StringOperation_get
  simp only [getString_V, getString_R]
  cases l with
  | stringer id beh => cases beh <;> cases r <;> simp [GoVal.ofV, isNilG, getStringL, getStringR]
  | _ => cases r <;> simp [GoVal.ofV, isNilG, getStringL, getStringR]

theorem string_rel (lower : Bytes → Bytes) (w : W) (l : Value) (r : ROp) :
    StringOperation_EQ lower w (GoVal.ofV l) (GoVal.ofR r) = embed w (strRelOp lower .eq l r) ∧
    StringOperation_NE lower w (GoVal.ofV l) (GoVal.ofR r) = embed w (strRelOp lower .ne l r) ∧
    StringOperation_GT lower w (GoVal.ofV l) (GoVal.ofR r) = embed w (strRelOp lower .gt l r) ∧
    StringOperation_LT lower w (GoVal.ofV l) (GoVal.ofR r) = embed w (strRelOp lower .lt l r) ∧
    StringOperation_GE lower w (GoVal.ofV l) (GoVal.ofR r) = embed w (strRelOp lower .ge l r) ∧
    StringOperation_LE lower w (GoVal.ofV l) (GoVal.ofR r) = embed w (strRelOp lower .le l r) ∧
    StringOperation_CO lower w (GoVal.ofV l) (GoVal.ofR r) = embed w (strRelOp lower .co l r) ∧
    StringOperation_SW lower w (GoVal.ofV l) (GoVal.ofR r) = embed w (strRelOp lower .sw l r) ∧
    StringOperation_EW lower w (GoVal.ofV l) (GoVal.ofR r) = embed w (strRelOp lower .ew l r) := by
  simp only [StringOperation_EQ, StringOperation_NE, StringOperation_GT, StringOperation_LT, StringOperation_GE, StringOperation_LE,
    StringOperation_CO, StringOperation_SW, StringOperation_EW, string_get]
  cases l with
  | stringer id beh => cases beh <;> cases r <;> simp [bne, strRelOp, getStringL, getStringR, embed, strRel, strLt, strGt, strLe, strGe, Go.contains, hasPrefix, hasSuffix]
  | _ => cases r <;> simp [bne, strRelOp, getStringL, getStringR, embed, strRel, strLt, strGt, strLe, strGe, Go.contains, hasPrefix, hasSuffix]

theorem embed_addCalls (w c : W) (r : OpRes) : embed w (r.addCalls c) = embed (w ++ c) r := by
  cases r <;> simp [embed, OpRes.addCalls, List.append_assoc]

theorem string_in_loop (lower : Bytes → Bytes) (l : Value) (vs : List Bytes) : ∀ (w : W),
    (match Go.forRangeM vs (fun v2 recv =>
        (match StringOperation_EQ lower recv (GoVal.ofV l) (GoVal.str v2) with
         | .error p => .error p
         | .ok ((t4, t5), t6) =>
           if t5.isSome then .ok (some ((false, t5), t6), t6)
           else if t4 then .ok (some ((true, none), t6), t6) else .ok (none, t6))) w with
      | .error p => .error p
      | .ok (some t3, _) => .ok t3
      | .ok (none, recv) => .ok ((false, (none : Option GErr)), recv)) = embed w (strInLoop lower l vs) := by
  induction vs with
  | nil => intro w; simp [Go.forRangeM, strInLoop, embed]
  | cons v rest ih =>
    intro w
    have h1 := (string_rel lower w l (.str v)).1
    simp only [GoVal.ofR] at h1
    simp only [Go.forRangeM, strInLoop, h1]
    cases hr : strRelOp lower .eq l (.str v) with
    | ok b c =>
      cases b
      · rw [embed_addCalls]
        simpa [embed] using ih (w ++ c)
      · simp [embed]
    | err e c => simp [embed]
    | panic c => simp [embed]

theorem string_in (lower : Bytes → Bytes) (w : W) (l : Value) (r : ROp) :
    StringOperation_IN lower w (GoVal.ofV l) (GoVal.ofR r) = embed w (stringOp lower .in_ l r) := by
  unfold StringOperation_IN
  cases r <;> simp [stringOp, embed, GoVal.ofR, asStrs]
  rename_i vs
  exact string_in_loop lower l vs w

/-! ### VersionOperation -/
theorem version_rel (lower : Bytes → Bytes) (l : Value) (r : ROp) :
    VersionOperation_EQ lower (GoVal.ofV l) (GoVal.ofR r) = embedP (versionOp .eq l r) ∧
    VersionOperation_NE lower (GoVal.ofV l) (GoVal.ofR r) = embedP (versionOp .ne l r) ∧
    VersionOperation_GT lower (GoVal.ofV l) (GoVal.ofR r) = embedP (versionOp .gt l r) ∧
    VersionOperation_LT lower (GoVal.ofV l) (GoVal.ofR r) = embedP (versionOp .lt l r) ∧
    VersionOperation_GE lower (GoVal.ofV l) (GoVal.ofR r) = embedP (versionOp .ge l r) ∧
    VersionOperation_LE lower (GoVal.ofV l) (GoVal.ofR r) = embedP (versionOp .le l r) := by
  simp only [VersionOperation_EQ, VersionOperation_NE, VersionOperation_GT, VersionOperation_LT, VersionOperation_GE, VersionOperation_LE, VersionOperation_get]
  cases l <;> cases r <;> simp [versionOp, embedP, GoVal.ofV, GoVal.ofR, asStr, getStringR]
  all_goals
    (rename_i a b
     cases ha : Sv.parse (natBytes a) <;> cases hb : Sv.parse (natBytes b) <;> simp [semverMake, ha, hb, embedP, verEQ, verNE, verGT, verLT, verGE, verLE])

/-- an outcome that asked no Stringer -/
def IsPure : OpRes → Prop
  | .ok _ [] => True
  | .err _ [] => True
  | _ => False

theorem embed_of_pure (w : W) (r : OpRes) (h : IsPure r) : (.ok (embedP r, w) : OM ((Bool × Option GErr) × W)) = embed w r := by
  cases r with
  | ok b c => cases c <;> simp [embedP, embed, IsPure] at *
  | err e c => cases c <;> simp [embedP, embed, IsPure] at *
  | panic c => simp [IsPure] at h

theorem pure_null (op : CmpOp) (l : Value) : IsPure (nullOp op l) := by
  cases op <;> simp [nullOp, IsPure]
theorem pure_bool (op : CmpOp) (l : Value) (r : ROp) : IsPure (boolOp op l r) := by
  cases op <;> cases l <;> cases r <;> simp [boolOp, IsPure]
theorem pure_floatRel (op : CmpOp) (l : Value) (r : ROp) : IsPure (floatRelOp op l r) := by
  cases l <;> cases r <;> simp [floatRelOp, toFloatL, toFloatR, IsPure]
theorem pure_intRel (op : CmpOp) (l : Value) (r : ROp) : IsPure (intRelOp op l r) := by
  cases l <;> cases r <;> simp [intRelOp, floatRelOp, toFloatL, toFloatR, toIntL, toIntR, IsPure]
theorem pure_intInLoop (l : Value) : ∀ ns : List Int, IsPure (intInLoop l ns)
  | [] => by simp [intInLoop, IsPure]
  | n :: rest => by
    have h := pure_intRel .eq l (.int n)
    have ih := pure_intInLoop l rest
    simp only [intInLoop]
    cases hr : intRelOp .eq l (.int n) with
    | ok b c => cases b <;> cases c <;> simp_all [IsPure]
    | err e c => simpa [hr] using h
    | panic c => simp [hr, IsPure] at h
theorem pure_int (op : CmpOp) (l : Value) (r : ROp) : IsPure (intOp op l r) := by
  cases op <;> simp only [intOp] <;> first | exact pure_intRel _ l r | simp [IsPure] | skip
  cases r <;> first | exact pure_intInLoop l _ | simp [IsPure]
theorem pure_float (op : CmpOp) (l : Value) (r : ROp) : IsPure (floatOp op l r) := by
  cases op <;> simp only [floatOp] <;> first | exact pure_floatRel _ l r | simp [IsPure] | skip
  cases toFloatL l <;> cases r <;> simp [IsPure]
theorem pure_version (op : CmpOp) (l : Value) (r : ROp) : IsPure (versionOp op l r) := by
  cases op <;> simp only [versionOp] <;> (try simp [IsPure]) <;>
    (cases l <;> cases r <;> simp [getStringR, IsPure] <;>
      (rename_i a b; cases Sv.parse (natBytes a) <;> cases Sv.parse (natBytes b) <;> simp [IsPure]))

/-- the rule operand the visitor pairs with `IntOperation` is never a float64 -/
def RightOK (k : OpKind) (r : ROp) : Prop := k = .int → NotFloat r

/-- **The translated Operation methods compute what the model's `apply` computes**: for every Operation type, every
operator (with Go's method promotion through the embedded `NullOperation`), every attribute value and every rule
operand the visitor can pair with that type, started with any log of earlier Stringer calls. -/
theorem dispatch_spec (lower : Bytes → Bytes) (k : OpKind) (op : CmpOp) (l : Value) (r : ROp) (w : W) (h : RightOK k r) :
    dispatch lower k op (GoVal.ofV l) (GoVal.ofR r) w = embed w (apply lower k op l r) := by
  have hn := null_all lower l r
  cases k with
  | null =>
    cases op <;> simp only [dispatch, apply] <;> simp only [hn] <;> exact embed_of_pure w _ (pure_null _ l)
  | bool =>
    have hb := bool_rel lower l r
    cases op <;> simp only [dispatch, apply] <;> (first | simp only [hb] | simp only [hn]) <;>
      (first | exact embed_of_pure w _ (pure_bool _ l r) | simp [boolOp, nullOp, embedP, embed])
  | int =>
    have hi := int_rel lower l r (h rfl)
    have hin := int_in lower l r
    cases op <;> simp only [dispatch, apply] <;> (first | simp only [hi] | simp only [hin] | simp only [hn]) <;>
      (first | exact embed_of_pure w _ (pure_int _ l r) | (simp only [intOp]; exact embed_of_pure w _ (pure_intRel _ l r)) | simp [intOp, nullOp, embedP, embed])
  | float =>
    have hf := float_rel lower l r
    have hin := float_in lower l r
    cases op <;> simp only [dispatch, apply] <;> (first | simp only [hf] | simp only [hin] | simp only [hn]) <;>
      (first | exact embed_of_pure w _ (pure_float _ l r) | (simp only [floatOp]; exact embed_of_pure w _ (pure_floatRel _ l r)) | simp [floatOp, nullOp, embedP, embed])
  | string =>
    have hs := string_rel lower w l r
    have hin := string_in lower w l r
    cases op <;> simp only [dispatch, apply] <;> (first | simp only [hs] | simp only [hin]) <;> simp [stringOp]
  | version =>
    have hv := version_rel lower l r
    cases op <;> simp only [dispatch, apply] <;> (first | simp only [hv] | simp only [hn]) <;>
      (first | exact embed_of_pure w _ (pure_version _ l r) | simp [versionOp, nullOp, embedP, embed])

/-! ### the hypothesis of `dispatch_spec` is what the visitor establishes -/
open Rules.P (Lit) in
theorem visitSubInts_notFloat : ∀ (xs : List String) (s s' : VState), NotFloat s.rightOp →
    visitSubInts s xs = .ok s' → NotFloat s'.rightOp
  | [], s, s', h, he => by simp [visitSubInts] at he; subst he; exact h
  | t :: rest, s, s', h, he => by
    simp only [visitSubInts] at he
    cases hr : s.rightOp with
    | nil =>
      simp only [hr] at he
      cases hp : parseIntLit false t none with
      | none => simp [hp] at he; subst he; simp [NotFloat]
      | some v =>
        simp only [hp] at he
        exact visitSubInts_notFloat rest _ s' (by simp [NotFloat]) he
    | ints l =>
      simp only [hr] at he
      cases hp : parseIntLit false t none with
      | none => simp [hp] at he; subst he; simp [hr, NotFloat]
      | some v =>
        simp only [hp] at he
        exact visitSubInts_notFloat rest _ s' (by simp [NotFloat]) he
    | _ => simp [hr] at he

theorem visitSubFloats_curOp : ∀ (xs : List String) (s s' : VState), visitSubFloats s xs = .ok s' → s'.curOp = s.curOp
  | [], s, s', he => by simp [visitSubFloats] at he; subst he; rfl
  | t :: rest, s, s', he => by
    simp only [visitSubFloats] at he
    cases hr : s.rightOp <;> simp only [hr] at he <;> (try (simp at he; done)) <;>
      (cases hp : parseFloatLit t <;> simp only [hp] at he <;>
        first | (simp at he; subst he; rfl) | (have := visitSubFloats_curOp rest _ s' he; simpa using this))

theorem visitSubStrs_curOp : ∀ (xs : List String) (s s' : VState), visitSubStrs s xs = .ok s' → s'.curOp = s.curOp
  | [], s, s', he => by simp [visitSubStrs] at he; subst he; rfl
  | t :: rest, s, s', he => by
    simp only [visitSubStrs] at he
    cases hr : s.rightOp <;> simp only [hr] at he <;> (try (simp at he; done)) <;>
      (have := visitSubStrs_curOp rest _ s' he; simpa using this)

open Rules.P (Lit) in
/-- after a literal has been visited from a state whose rule operand is nil, `IntOperation` is never paired with a float64 -/
theorem visitLit_rightOK (s s' : VState) (lit : Lit) (hs : s.rightOp = .nil) (he : visitLit s lit = .ok s')
    (k : OpKind) (hk : s'.curOp = some k) : RightOK k s'.rightOp := by
  intro hki
  subst hki
  cases lit with
  | long neg i e =>
    simp only [visitLit] at he
    cases hp : parseIntLit neg i e <;> simp [hp] at he <;> subst he <;> simp [NotFloat]
  | list kk xs =>
    simp only [visitLit] at he
    by_cases h1 : kk = P.INT
    · simp only [h1, if_true] at he
      exact visitSubInts_notFloat xs _ s' (by simp [hs, NotFloat]) he
    · simp only [h1, if_false] at he
      by_cases h2 : kk = P.DOUBLE
      · simp only [h2, if_true] at he
        have := visitSubFloats_curOp xs _ s' he
        simp [hk] at this
      · simp only [h2, if_false] at he
        have := visitSubStrs_curOp xs _ s' he
        simp [hk] at this
  | bool t =>
    simp only [visitLit] at he
    split at he <;> (try split at he) <;> simp at he <;> subst he <;> simp at hk
  | null => simp [visitLit] at he; subst he; simp at hk
  | version t => simp [visitLit] at he; subst he; simp at hk
  | str t => simp [visitLit] at he; subst he; simp at hk
  | double t =>
    simp only [visitLit] at he
    cases hp : parseFloatLit t <;> simp [hp] at he <;> subst he <;> simp at hk

open Rules.P (Lit) in
/-- **Every `currentOperation.<OP>(leftOp, rightOp)` the visitor performs**: once a literal has been visited from a state
whose rule operand is nil (the state `VisitCompareExp` starts from), the translated method – selected through Go's
method promotion – returns what the model's `apply` returns, with the same Stringer calls in the same order. -/
theorem ops_translated (lower : Bytes → Bytes) (s s' : VState) (lit : Lit) (hs : s.rightOp = .nil)
    (he : visitLit s lit = .ok s') (k : OpKind) (hk : s'.curOp = some k) (op : CmpOp) (w : W) :
    dispatch lower k op (GoVal.ofV s'.leftOp) (GoVal.ofR s'.rightOp) w = embed w (apply lower k op s'.leftOp s'.rightOp) :=
  dispatch_spec lower k op s'.leftOp s'.rightOp w (visitLit_rightOK s s' lit hs he k hk)

/-- what can be observed of a result (for kernel-evaluated examples: `GErr` has no decidable equality) -/
def obs : OM ((Bool × Option GErr) × W) → Option (Bool × Bool × W)
  | .ok ((b, e), w) => some (b, e.isSome, w)
  | .error _ => none

/-- non-vacuity: `x in ["b", "a"]` on a Stringer attribute asks it once per element compared, through the translated code -/
example : obs (dispatch id .string .in_ (GoVal.ofV (.stringer 7 (.ret (bytesOf "a")))) (GoVal.ofR (.strs [bytesOf "b", bytesOf "a"])) [3])
    = some (true, false, [3, 7, 7]) := by decide +kernel
example : obs (dispatch id .int .ge (GoVal.ofV (.float (F64.ofInt 2))) (GoVal.ofR (.int 1)) []) = some (true, false, []) := by decide +kernel
example : obs (dispatch id .version .co (GoVal.ofV (.str (bytesOf "1.0.0"))) (GoVal.ofR (.str (bytesOf "1.0.0"))) []) = some (false, true, []) := by decide +kernel
end Rules.OpsGen
