import RulesModel.Proofs.ParseSound
namespace Rules.P

/-- the continuation does not start with a token that would extend a path or an integer literal -/
def noDotExp (rest : List Tok) : Prop := ∀ k t r, rest = ⟨k, t⟩ :: r → k ≠ DOT ∧ k ≠ EXP

/-- the continuation does not start another `SP LOGICAL_OPERATOR` segment -/
def noLoop (rest : List Tok) : Prop := ∀ k1 t1 k2 t2 r, rest = ⟨k1, t1⟩ :: ⟨k2, t2⟩ :: r → ¬ (k1 = SP ∧ k2 = LOGOP)

theorem parsePath_complete {pre p} (h : DPath pre p) : ∀ rest, noDotExp rest → parsePath (pre ++ rest) = some (p, rest) := by
  induction h with
  | one n =>
    intro rest hr
    cases rest with
    | nil => simp [parsePath]
    | cons tk r =>
      obtain ⟨k2, d⟩ := tk
      have := (hr k2 d r rfl).1
      simp [parsePath, this]
  | dot n d _ ih =>
    intro rest hr
    simp [parsePath, ih rest hr]

theorem DList_kind {k pre xs} (h : DList k pre xs) : ∃ t r, pre = ⟨k, t⟩ :: r := by
  cases h <;> exact ⟨_, _, rfl⟩

theorem parseList_complete {k pre xs} (h : DList k pre xs) : ∀ rest, parseList k (pre ++ rest) = some (xs, rest) := by
  induction h with
  | last t b => intro rest; simp [parseList]
  | cons t c _ ih => intro rest; simp [parseList, ih rest, COMMA, RB]

theorem parseValue_complete {pre v} (h : DValue pre v) : ∀ rest, noDotExp rest → parseValue (pre ++ rest) = some (v, rest) := by
  cases h with
  | bool t => intro rest _; simp [parseValue]
  | null t => intro rest _; simp [parseValue, NULL, BOOLEAN]
  | version t => intro rest _; simp [parseValue, NULL, BOOLEAN, VERSION]
  | str t => intro rest _; simp [parseValue, NULL, BOOLEAN, VERSION, STRING]
  | double t => intro rest _; simp [parseValue, NULL, BOOLEAN, VERSION, STRING, DOUBLE]
  | long m i e =>
    intro rest hr
    cases m <;> cases e
    · -- INT alone
      cases rest with
      | nil => simp [parseValue, NULL, BOOLEAN, VERSION, STRING, DOUBLE, INT]
      | cons tk r =>
        obtain ⟨k2, e2⟩ := tk
        have := (hr k2 e2 r rfl).2
        simp [parseValue, NULL, BOOLEAN, VERSION, STRING, DOUBLE, INT, this]
    · simp [parseValue, NULL, BOOLEAN, VERSION, STRING, DOUBLE, INT, EXP]
    · cases rest with
      | nil => simp [parseValue, NULL, BOOLEAN, VERSION, STRING, DOUBLE, INT, MINUS]
      | cons tk r =>
        obtain ⟨k2, e2⟩ := tk
        have := (hr k2 e2 r rfl).2
        simp [parseValue, NULL, BOOLEAN, VERSION, STRING, DOUBLE, INT, MINUS, this]
    · simp [parseValue, NULL, BOOLEAN, VERSION, STRING, DOUBLE, INT, MINUS, EXP]
  | list k hk b hl =>
    intro rest _
    obtain ⟨t, r, hpre⟩ := DList_kind hl
    have hc := parseList_complete hl rest
    subst hpre
    rcases hk with rfl | rfl | rfl <;>
      simp [parseValue, NULL, BOOLEAN, VERSION, STRING, DOUBLE, INT, MINUS, LB] at hc ⊢ <;> simp [hc, INT, DOUBLE, STRING]

/-- number of top-level `logical` nodes on the left spine -/
def nsegs : Tree → Nat
  | .logical _ l _ => nsegs l + 1
  | _ => 0

theorem D_true_nsegs {pre t} (h : D true pre t) : nsegs t = 0 := by
  generalize hb : true = b at h
  cases h <;> simp_all [nsegs]

theorem DPath_length {pre p} (h : DPath pre p) : 1 ≤ pre.length := by cases h <;> simp
theorem DPath_head {pre p} (h : DPath pre p) : ∃ n r, pre = ⟨ATTR, n⟩ :: r := by cases h <;> exact ⟨_, _, rfl⟩

theorem D_length {b pre t} (h : D b pre t) : 1 ≤ pre.length ∧ 2 * nsegs t + 1 ≤ pre.length := by
  induction h with
  | paren n s1 s2 s3 l r _ _ => simp [nsegs]; omega
  | present s pr hp => have := DPath_length hp; simp [nsegs]
  | compare s1 o s2 k hk hp hv => have := DPath_length hp; simp [nsegs]; omega
  | prim _ ih => exact ih
  | logical s1 op s2 _ _ ih1 ih2 => simp [nsegs]; omega

theorem eatOpt_optTok_ne (k : Kind) (o : Option String) (k' : Kind) (t : String) (r : List Tok) (hne : k' ≠ k) :
    eatOpt k (optTok k o ++ ⟨k', t⟩ :: r) = (o.isSome, ⟨k', t⟩ :: r) := by
  cases o <;> simp [optTok, eatOpt, hne]

theorem parseLoop_exit (fuel : Nat) (acc : Tree) (rest : List Tok) (h : noLoop rest) :
    parseLoop (fuel + 1) acc rest = some (acc, rest) := by
  unfold parseLoop
  split
  · rename_i k1 s1 k2 op k3 s2 r
    have := h k1 s1 k2 op _ rfl
    simp [this]
  · rfl

/-- main statements -/
def MainT (pre : List Tok) (t : Tree) : Prop :=
  ∀ rest F, noDotExp rest → 2 * pre.length ≤ F → parsePrim F (pre ++ rest) = some (t, rest)
def MainF (pre : List Tok) (t : Tree) : Prop :=
  ∀ rest F, noDotExp rest → 2 * pre.length + 2 ≤ F → parseQuery F (pre ++ rest) = parseLoop (F - 1 - nsegs t) t rest

def Stmt (b : Bool) (pre : List Tok) (t : Tree) : Prop :=
  (if b then MainT pre t else MainF pre t) ∧
  (∀ s pre', pre = ⟨SP, s⟩ :: pre' → (if b then MainT pre' t else MainF pre' t))

/-- paren case, for any choice of the optional tokens (this is what makes the dropped-SP variant free) -/
theorem paren_main (n s1 s2 s3 : Option String) (l r : String) {ts t} (ih : Stmt false ts t) (hlen : 1 ≤ ts.length ∧ 2 * nsegs t + 1 ≤ ts.length) :
    MainT (optTok NOT n ++ optTok SP s1 ++ [⟨LP, l⟩] ++ optTok SP s2 ++ ts ++ optTok SP s3 ++ [⟨RP, r⟩]) (.paren n.isSome t) := by
  intro rest F hrest hF
  obtain ⟨ihMain, ihVar⟩ := ih
  simp only [Bool.false_eq_true, if_false] at ihMain ihVar
  -- fuel is positive
  obtain ⟨F, rfl⟩ : ∃ f, F = f + 1 := ⟨F - 1, by simp at hF; omega⟩
  have e1 : optTok NOT n ++ optTok SP s1 ++ [⟨LP, l⟩] ++ optTok SP s2 ++ ts ++ optTok SP s3 ++ [⟨RP, r⟩] ++ rest
      = optTok NOT n ++ (optTok SP s1 ++ ⟨LP, l⟩ :: (optTok SP s2 ++ ts ++ (optTok SP s3 ++ ⟨RP, r⟩ :: rest))) := by simp
  rw [e1]
  simp only [parsePrim]
  -- eat NOT
  have hN : eatOpt NOT (optTok NOT n ++ (optTok SP s1 ++ ⟨LP, l⟩ :: (optTok SP s2 ++ ts ++ (optTok SP s3 ++ ⟨RP, r⟩ :: rest))))
      = (n.isSome, optTok SP s1 ++ ⟨LP, l⟩ :: (optTok SP s2 ++ ts ++ (optTok SP s3 ++ ⟨RP, r⟩ :: rest))) := by
    cases s1 with
    | none => simpa [optTok] using eatOpt_optTok_ne NOT n LP l _ (by decide)
    | some s => simpa [optTok] using eatOpt_optTok_ne NOT n SP s _ (by decide)
  rw [hN]
  simp only
  have hS : eatOpt SP (optTok SP s1 ++ ⟨LP, l⟩ :: (optTok SP s2 ++ ts ++ (optTok SP s3 ++ ⟨RP, r⟩ :: rest)))
      = (s1.isSome, ⟨LP, l⟩ :: (optTok SP s2 ++ ts ++ (optTok SP s3 ++ ⟨RP, r⟩ :: rest))) :=
    eatOpt_optTok_ne SP s1 LP l _ (by decide)
  rw [hS]
  simp only [if_true]
  -- after LP: optional SP, then the inner query (possibly with its own leading SP eaten here)
  have hrest' : noDotExp (optTok SP s3 ++ ⟨RP, r⟩ :: rest) := by
    intro k t r' h
    cases s3 <;> simp [optTok] at h <;> obtain ⟨⟨rfl, _⟩, _⟩ := h <;> decide
  have hloop' : noLoop (optTok SP s3 ++ ⟨RP, r⟩ :: rest) := by
    intro k1 t1 k2 t2 r' h
    cases s3 <;> simp [optTok] at h
    · obtain ⟨⟨rfl, _⟩, _⟩ := h; simp [RP, SP]
    · obtain ⟨_, ⟨rfl, _⟩, _⟩ := h; simp [RP, LOGOP]
  have hlenF : 2 * ts.length + 2 ≤ F := by
    simp only [List.length_append, List.length_cons, List.length_nil] at hF; omega
  -- the inner parse result, whichever way the blank after '(' is attributed
  have hinner : ∀ ts4, (ts4 = ts ∨ ∃ s, ts = ⟨SP, s⟩ :: ts4) →
      parseQuery F (ts4 ++ (optTok SP s3 ++ ⟨RP, r⟩ :: rest)) = some (t, optTok SP s3 ++ ⟨RP, r⟩ :: rest) := by
    intro ts4 h4
    have hm : MainF ts4 t := by
      rcases h4 with rfl | ⟨s, hs⟩
      · exact ihMain
      · exact ihVar s ts4 hs
    have hl4 : ts4.length ≤ ts.length := by
      rcases h4 with rfl | ⟨s, hs⟩ <;> simp_all
    rw [hm _ F hrest' (by omega)]
    obtain ⟨f', hf'⟩ : ∃ f', F - 1 - nsegs t = f' + 1 := ⟨F - 1 - nsegs t - 1, by omega⟩
    rw [hf']
    exact parseLoop_exit _ _ _ hloop'
  -- now case on s2 and on whether ts starts with a blank
  have hEat : ∃ ts4, (ts4 = ts ∨ ∃ s, ts = ⟨SP, s⟩ :: ts4) ∧
      (eatOpt SP (optTok SP s2 ++ ts ++ (optTok SP s3 ++ ⟨RP, r⟩ :: rest))).2 = ts4 ++ (optTok SP s3 ++ ⟨RP, r⟩ :: rest) := by
    cases s2 with
    | some s => exact ⟨ts, .inl rfl, by simp [optTok, eatOpt]⟩
    | none =>
      cases ts with
      | nil => simp at hlen
      | cons tk ts' =>
        obtain ⟨k, s⟩ := tk
        by_cases hk : k = SP
        · subst hk; exact ⟨ts', .inr ⟨s, rfl⟩, by simp [optTok, eatOpt]⟩
        · exact ⟨⟨k, s⟩ :: ts', .inl rfl, by simp [optTok, eatOpt, hk]⟩
  obtain ⟨ts4, h4, hE⟩ := hEat
  generalize hg : eatOpt SP (optTok SP s2 ++ ts ++ (optTok SP s3 ++ ⟨RP, r⟩ :: rest)) = eo at hE
  obtain ⟨eb, ets⟩ := eo
  simp only at hE
  subst hE
  simp only [hinner ts4 h4]
  have hS3 : eatOpt SP (optTok SP s3 ++ ⟨RP, r⟩ :: rest) = (s3.isSome, ⟨RP, r⟩ :: rest) :=
    eatOpt_optTok_ne SP s3 RP r _ (by decide)
  rw [hS3]
  simp

theorem complete_all {b pre t} (h : D b pre t) : Stmt b pre t := by
  induction h with
  | @paren n s1 s2 s3 l r ts0 t0 hq ih =>
    have hlen := D_length hq
    refine ⟨by simpa using paren_main n s1 s2 s3 l r ih hlen, ?_⟩
    intro s pre' hpre
    simp only [if_true]
    -- a leading blank can only be s1 (when there is no NOT)
    cases n with
    | some nt => simp [optTok, NOT, SP] at hpre
    | none =>
      cases s1 with
      | none => simp [optTok, LP, SP] at hpre
      | some s1v =>
        have : pre' = optTok NOT none ++ optTok SP none ++ [⟨LP, l⟩] ++ optTok SP s2 ++ ts0 ++ optTok SP s3 ++ [⟨RP, r⟩] := by
          simp [optTok] at hpre ⊢; exact hpre.2.symm
        rw [this]
        exact paren_main none none s2 s3 l r ih hlen
  | present s pr hp =>
    obtain ⟨n, r, hhead⟩ := DPath_head hp
    refine ⟨?_, ?_⟩
    · simp only [if_true]
      intro rest F hrest hF
      obtain ⟨F, rfl⟩ : ∃ f, F = f + 1 := ⟨F - 1, by have := DPath_length hp; simp at hF; omega⟩
      have hpath := parsePath_complete hp (⟨SP, s⟩ :: ⟨PR, pr⟩ :: rest) (by intro k t r h; cases h; decide)
      subst hhead
      simp only [List.cons_append, List.append_assoc, List.nil_append] at hpath ⊢
      simp only [ATTR, SP, PR] at hpath
      simp [parsePrim, eatOpt, ATTR, NOT, SP, LP, hpath, PR]
    · intro s' pre' hpre; subst hhead; simp [ATTR, SP] at hpre
  | @compare s1 o s2 k hk ps0 p0 vs0 v0 hp hv =>
    obtain ⟨n, r, hhead⟩ := DPath_head hp
    refine ⟨?_, ?_⟩
    · simp only [if_true]
      intro rest F hrest hF
      obtain ⟨F, rfl⟩ : ∃ f, F = f + 1 := ⟨F - 1, by have := DPath_length hp; simp at hF; omega⟩
      have hpath := parsePath_complete hp (⟨SP, s1⟩ :: ⟨k, o⟩ :: ⟨SP, s2⟩ :: (vs0 ++ rest)) (by intro k t r h; cases h; decide)
      have hval := parseValue_complete hv rest hrest
      have hkpr : k ≠ PR := by intro h; subst h; simp [isCmp, PR] at hk
      subst hhead
      simp only [List.cons_append, List.append_assoc, List.nil_append] at hpath ⊢
      simp only [ATTR, SP, PR] at hpath
      simp [parsePrim, eatOpt, ATTR, NOT, SP, LP, hpath, hkpr, hk, hval]
    · intro s' pre' hpre; subst hhead; simp [ATTR, SP] at hpre
  | @prim tsp tp hd ih =>
    have hn := D_true_nsegs hd
    have hlen := D_length hd
    obtain ⟨ihM, ihV⟩ := ih
    simp only [if_true] at ihM ihV
    have key : ∀ pre0, MainT pre0 tp → pre0.length ≤ tsp.length → MainF pre0 tp := by
      intro pre0 hm _ rest F hrest hF
      obtain ⟨F, rfl⟩ : ∃ f, F = f + 1 := ⟨F - 1, by omega⟩
      simp only [parseQuery, hm rest F hrest (by omega), hn]
      simp
    refine ⟨by simpa using key _ ihM (Nat.le_refl _), ?_⟩
    intro s pre' hpre
    simpa using key pre' (ihV s pre' hpre) (by simp [hpre])
  | @logical s1 op s2 ts1 t1 ts2 t2 h1 h2 ih1 ih2 =>
    obtain ⟨ih1M, ih1V⟩ := ih1
    obtain ⟨ih2M, _⟩ := ih2
    simp only [Bool.false_eq_true, if_false, if_true] at ih1M ih1V ih2M
    have hl1 := D_length h1
    have hl2 := D_length h2
    have key : ∀ pre1, MainF pre1 t1 → pre1.length ≤ ts1.length → ts1.length ≤ pre1.length + 1 →
        MainF (pre1 ++ [⟨SP, s1⟩, ⟨LOGOP, op⟩, ⟨SP, s2⟩] ++ ts2) (.logical op t1 t2) := by
      intro pre1 hm hle hge rest F hrest hF
      simp only [List.length_append, List.length_cons, List.length_nil] at hF
      have e : pre1 ++ [⟨SP, s1⟩, ⟨LOGOP, op⟩, ⟨SP, s2⟩] ++ ts2 ++ rest
          = pre1 ++ (⟨SP, s1⟩ :: ⟨LOGOP, op⟩ :: ⟨SP, s2⟩ :: (ts2 ++ rest)) := by simp
      rw [e, hm _ F (by intro k t r h; cases h; decide) (by omega)]
      obtain ⟨f, hf⟩ : ∃ f, F - 1 - nsegs t1 = f + 1 := ⟨F - 1 - nsegs t1 - 1, by omega⟩
      rw [hf]
      simp only [parseLoop, and_self, if_true]
      rw [ih2M rest f hrest (by omega)]
      simp only [nsegs]
      congr 1
      omega
    refine ⟨key _ ih1M (Nat.le_refl _) (by omega), ?_⟩
    intro s pre' hpre
    -- the leading blank belongs to the left operand
    cases ts1 with
    | nil => simp at hl1
    | cons tk ts1' =>
      simp only [List.cons_append, List.append_assoc] at hpre
      obtain ⟨rfl, rfl⟩ := List.cons.inj hpre
      have := key ts1' (ih1V s ts1' rfl) (by simp) (by simp)
      simpa using this

theorem parse_complete {ts t} (h : D false ts t) : parse ts = some t := by
  have hm := (complete_all h).1
  simp only [Bool.false_eq_true, if_false] at hm
  have hl := D_length h
  unfold parse
  have := hm [] (2 * ts.length + 2) (by intro k t r h; cases h) (Nat.le_refl _)
  simp only [List.append_nil] at this
  rw [this]
  obtain ⟨f, hf⟩ : ∃ f, 2 * ts.length + 2 - 1 - nsegs t = f + 1 := ⟨2 * ts.length + 2 - 1 - nsegs t - 1, by omega⟩
  rw [hf, parseLoop_exit _ _ _ (by intro k1 t1 k2 t2 r h; cases h)]

theorem parse_iff (ts : List Tok) (t : Tree) : parse ts = some t ↔ D false ts t :=
  ⟨parse_sound ts t, parse_complete⟩

/-- uniqueness of the tree is then free: the parser is a function -/
theorem D_unique {ts t t'} (h : D false ts t) (h' : D false ts t') : t = t' := by
  have := parse_complete h; have := parse_complete h'; simp_all

end Rules.P
