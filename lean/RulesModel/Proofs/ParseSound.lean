import RulesModel.Model.Grammar
namespace Rules.P

theorem parsePath_sound : ∀ (ts : List Tok) (p rest), parsePath ts = some (p, rest) →
    ∃ pre, ts = pre ++ rest ∧ DPath pre p
  | [], p, rest, h => by simp [parsePath] at h
  | [⟨k, n⟩], p, rest, h => by
    simp only [parsePath] at h
    split at h
    · rename_i hk; cases h; subst hk; exact ⟨[⟨ATTR, n⟩], by simp, .one n⟩
    · cases h
  | ⟨k, n⟩ :: ⟨k2, d⟩ :: ts, p, rest, h => by
    simp only [parsePath] at h
    split at h
    · rename_i hk; subst hk
      split at h
      · rename_i hk2; subst hk2
        split at h
        · rename_i p' r' hrec
          cases h
          obtain ⟨pre, rfl, hd⟩ := parsePath_sound ts p' _ hrec
          exact ⟨⟨ATTR, n⟩ :: ⟨DOT, d⟩ :: pre, by simp, .dot n d hd⟩
        · cases h
      · cases h; exact ⟨[⟨ATTR, n⟩], by simp, .one n⟩
    · cases h

theorem parseList_sound (k : Kind) : ∀ (ts : List Tok) (xs rest), parseList k ts = some (xs, rest) →
    ∃ pre, ts = pre ++ rest ∧ DList k pre xs
  | [], xs, rest, h => by simp [parseList] at h
  | [_], xs, rest, h => by simp [parseList] at h
  | ⟨k1, t⟩ :: ⟨k2, c⟩ :: ts, xs, rest, h => by
    simp only [parseList] at h
    split at h
    · rename_i hk; subst hk
      split at h
      · rename_i hk2; subst hk2; cases h
        exact ⟨[⟨k1, t⟩, ⟨RB, c⟩], by simp, .last t c⟩
      · split at h
        · rename_i hk2; subst hk2
          split at h
          · rename_i xs' r' hrec
            cases h
            obtain ⟨pre, rfl, hd⟩ := parseList_sound k1 ts xs' _ hrec
            exact ⟨⟨k1, t⟩ :: ⟨COMMA, c⟩ :: pre, by simp, .cons t c hd⟩
          · cases h
        · cases h
    · cases h

theorem parseValue_sound (ts : List Tok) (v rest) (h : parseValue ts = some (v, rest)) :
    ∃ pre, ts = pre ++ rest ∧ DValue pre v := by
  cases ts with
  | nil => simp [parseValue] at h
  | cons tk ts =>
    obtain ⟨k, t⟩ := tk
    simp only [parseValue] at h
    split at h
    · rename_i hk; subst hk; cases h; exact ⟨[_], by simp, .bool t⟩
    split at h
    · rename_i hk; subst hk; cases h; exact ⟨[_], by simp, .null t⟩
    split at h
    · rename_i hk; subst hk; cases h; exact ⟨[_], by simp, .version t⟩
    split at h
    · rename_i hk; subst hk; cases h; exact ⟨[_], by simp, .str t⟩
    split at h
    · rename_i hk; subst hk; cases h; exact ⟨[_], by simp, .double t⟩
    split at h
    · rename_i hk; subst hk
      split at h
      · rename_i k2 e rest2
        split at h
        · rename_i hk2; subst hk2; cases h
          exact ⟨[⟨INT, t⟩, ⟨EXP, e⟩], by simp, by simpa using DValue.long none t (some e)⟩
        · cases h; exact ⟨[⟨INT, t⟩], by simp, by simpa using DValue.long none t none⟩
      · cases h; exact ⟨[⟨INT, t⟩], by simp, by simpa using DValue.long none t none⟩
    split at h
    · rename_i hk; subst hk
      split at h
      · rename_i k1 i rest1
        split at h
        · rename_i hk1; subst hk1
          split at h
          · rename_i k2 e rest2
            split at h
            · rename_i hk2; subst hk2; cases h
              exact ⟨[⟨MINUS, t⟩, ⟨INT, i⟩, ⟨EXP, e⟩], by simp, by simpa using DValue.long (some t) i (some e)⟩
            · cases h; exact ⟨[⟨MINUS, t⟩, ⟨INT, i⟩], by simp, by simpa using DValue.long (some t) i none⟩
          · cases h; exact ⟨[⟨MINUS, t⟩, ⟨INT, i⟩], by simp, by simpa using DValue.long (some t) i none⟩
        · cases h
      · cases h
    split at h
    · rename_i hk; subst hk
      split at h
      · rename_i k1 t1 rest1
        split at h
        · rename_i hk1
          split at h
          · rename_i xs r hrec
            cases h
            obtain ⟨pre, hpre, hd⟩ := parseList_sound k1 _ xs _ hrec
            exact ⟨⟨LB, t⟩ :: pre, by simp [hpre], .list k1 hk1 t hd⟩
          · cases h
        · cases h
      · cases h
    · cases h

theorem eatOpt_spec (k : Kind) (ts : List Tok) :
    ∃ o : Option String, ts = optTok k o ++ (eatOpt k ts).2 ∧ (eatOpt k ts).1 = o.isSome := by
  cases ts with
  | nil => exact ⟨none, by simp [eatOpt, optTok]⟩
  | cons tk ts =>
    obtain ⟨k1, t⟩ := tk
    simp only [eatOpt]
    split
    · rename_i hk; subst hk; exact ⟨some t, by simp [optTok]⟩
    · exact ⟨none, by simp [optTok]⟩

/-- soundness of the three mutually recursive parsing functions, by induction on the fuel -/
theorem parse_mutual_sound (fuel : Nat) :
    (∀ ts t rest, parsePrim fuel ts = some (t, rest) → ∃ pre, ts = pre ++ rest ∧ D true pre t) ∧
    (∀ ts t rest, parseQuery fuel ts = some (t, rest) → ∃ pre, ts = pre ++ rest ∧ D false pre t) ∧
    (∀ acc ts t rest, parseLoop fuel acc ts = some (t, rest) →
        ∀ pre0, D false pre0 acc → ∃ pre, ts = pre ++ rest ∧ D false (pre0 ++ pre) t) := by
  induction fuel with
  | zero => simp [parsePrim, parseQuery, parseLoop]
  | succ fuel ih =>
    obtain ⟨ihP, ihQ, ihL⟩ := ih
    refine ⟨?_, ?_, ?_⟩
    · -- parsePrim
      intro ts t rest h
      simp only [parsePrim] at h
      obtain ⟨n, hn, hnb⟩ := eatOpt_spec NOT ts
      obtain ⟨s1, hs1, _⟩ := eatOpt_spec SP (eatOpt NOT ts).2
      generalize (eatOpt NOT ts).1 = neg at h hnb
      generalize (eatOpt NOT ts).2 = ts1 at h hn hs1
      generalize (eatOpt SP ts1).2 = ts2 at h hs1
      cases ts2 with
      | nil => simp at h
      | cons tk ts3 =>
        obtain ⟨k, l⟩ := tk
        simp only at h
        split at h
        · rename_i hk; subst hk
          obtain ⟨s2, hs2, _⟩ := eatOpt_spec SP ts3
          generalize (eatOpt SP ts3).2 = ts4 at h hs2
          split at h
          · cases h
          · rename_i q ts5 hq
            obtain ⟨preq, hpreq, hdq⟩ := ihQ _ _ _ hq
            obtain ⟨s3, hs3, _⟩ := eatOpt_spec SP ts5
            generalize (eatOpt SP ts5).2 = ts6 at h hs3
            cases ts6 with
            | nil => simp at h
            | cons tk7 ts7 =>
              obtain ⟨k', r⟩ := tk7
              simp only at h
              split at h
              · rename_i hk'; subst hk'; cases h
                refine ⟨optTok NOT n ++ optTok SP s1 ++ [⟨LP, l⟩] ++ optTok SP s2 ++ preq ++ optTok SP s3 ++ [⟨RP, r⟩], ?_, ?_⟩
                · rw [hn, hs1, hs2, hpreq, hs3]; simp
                · rw [hnb]; exact .paren n s1 s2 s3 l r hdq
              · cases h
        · split at h
          · cases h
          · split at h
            · cases h
            · rename_i p r1 hp
              obtain ⟨prep, hprep, hdp⟩ := parsePath_sound _ _ _ hp
              split at h
              · rename_i k1 sp k2 o r2
                split at h
                · rename_i hk1; subst hk1
                  split at h
                  · rename_i hk2; subst hk2; cases h
                    exact ⟨prep ++ [⟨SP, sp⟩, ⟨PR, o⟩], by simp [hprep], .present sp o hdp⟩
                  · split at h
                    · rename_i hcmp
                      split at h
                      · rename_i k3 sp2 r3
                        split at h
                        · rename_i hk3; subst hk3
                          split at h
                          · rename_i v r4 hv
                            cases h
                            obtain ⟨prev, hprev, hdv⟩ := parseValue_sound _ _ _ hv
                            exact ⟨prep ++ [⟨SP, sp⟩, ⟨k2, o⟩, ⟨SP, sp2⟩] ++ prev, by simp [hprep, hprev],
                              .compare sp o sp2 k2 hcmp hdp hdv⟩
                          · cases h
                        · cases h
                      · cases h
                    · cases h
                · cases h
              · cases h
    · -- parseQuery
      intro ts t rest h
      simp only [parseQuery] at h
      split at h
      · cases h
      · rename_i t0 rest0 hp
        obtain ⟨pre1, rfl, hd1⟩ := ihP _ _ _ hp
        obtain ⟨pre2, rfl, hd2⟩ := ihL _ _ _ _ h pre1 (.prim hd1)
        exact ⟨pre1 ++ pre2, by simp, hd2⟩
    · -- parseLoop
      intro acc ts t rest h pre0 hacc
      simp only [parseLoop] at h
      split at h
      · rename_i k1 s1 k2 op k3 s2 rest1
        split at h
        · rename_i hk; obtain ⟨hk1, hk2⟩ := hk; subst hk1; subst hk2
          split at h
          · rename_i hk3; subst hk3
            split at h
            · cases h
            · rename_i t' rest' hp
              obtain ⟨pre1, rfl, hd1⟩ := ihP _ _ _ hp
              have hnew : D false (pre0 ++ [⟨SP, s1⟩, ⟨LOGOP, op⟩, ⟨SP, s2⟩] ++ pre1) (.logical op acc t') :=
                .logical s1 op s2 hacc hd1
              obtain ⟨pre2, rfl, hd2⟩ := ihL _ _ _ _ h _ hnew
              exact ⟨[⟨SP, s1⟩, ⟨LOGOP, op⟩, ⟨SP, s2⟩] ++ pre1 ++ pre2, by simp, by simpa using hd2⟩
          · cases h
        · cases h; exact ⟨[], by simp, by simpa using hacc⟩
      · cases h; exact ⟨[], by simp, by simpa using hacc⟩

theorem parse_sound (ts : List Tok) (t : Tree) (h : parse ts = some t) : D false ts t := by
  unfold parse at h
  split at h
  · rename_i t' hq
    cases h
    obtain ⟨pre, hpre, hd⟩ := (parse_mutual_sound _).2.1 _ _ _ hq
    simpa [hpre] using hd
  · cases h

end Rules.P
