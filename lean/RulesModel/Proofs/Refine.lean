import RulesModel.Model.Spec
/-!
# The refinement theorem (DESIGN §3.9): the visitor state machine computes the compositional semantics

`visit_spec`: from every clean state (empty path stack, rule operand nil, no sticky error; left operand,
current operation, diagnostic and call log arbitrary) visiting a rule yields `evalOut` of that rule and, unless
it failed, leaves a clean state again. Induction over the tree: any depth, any mix, any path length.
`processTree_eq`: `Process` returns `toProc (evalOut …)`.
-/
namespace Rules
open Rules.P (Tree Lit Kind INT DOUBLE STRING)

/-! ### path resolution: `VisitAttrPath` = `denote` -/

theorem visitAttrPath_top (s : VState) (top : Value) (rest : List Value) (hs : s.stack = top :: rest)
    (k : String) (ks : List String) :
    visitAttrPath s (k :: ks) =
      match denoteV top (k :: ks) with
      | .ok v => .ok { s with leftOp := v, stack := [] }
      | .error p => .error ⟨p, s.calls, s.debugErr⟩ := by
  induction ks generalizing s top rest k with
  | nil =>
    cases top <;> simp [visitAttrPath, denoteV, hs]
  | cons k' ks ih =>
    cases top with
    | obj kvs =>
      have := ih { s with stack := Value.get kvs (bytesOf k) :: s.stack } (Value.get kvs (bytesOf k)) s.stack rfl k'
      simp only [visitAttrPath, denoteV, hs] at *
      rw [this]
    | _ => simp [visitAttrPath, denoteV, hs]

theorem visitAttrPath_spec (s : VState) (hs : s.stack = []) (path : List String) :
    visitAttrPath s path =
      match denote s.item path with
      | .ok v => .ok { s with leftOp := v, stack := [] }
      | .error p => .error ⟨p, s.calls, s.debugErr⟩ := by
  match path with
  | [] => simp [visitAttrPath, denote]
  | [k] => simp [visitAttrPath, denote, denoteV, hs]
  | k :: k' :: ks =>
    have := visitAttrPath_top { s with stack := Value.get s.item (bytesOf k) :: s.stack } (Value.get s.item (bytesOf k)) s.stack rfl k' ks
    simp only [visitAttrPath, denote, denoteV, hs] at *
    rw [this]

/-! ### literals: the literal visitors = `litOperand` -/

/-- a literal visitor failed: only the sticky error changed among what is observable -/
def FailedLit (s s' : VState) : Prop :=
  s'.err = some .badLiteral ∧ s'.debugErr = s.debugErr ∧ s'.calls = s.calls

theorem visitSubInts_acc (xs : List String) : ∀ (s : VState) (acc : List Int), s.rightOp = .ints acc →
    match mapOpt (fun t => parseIntLit false t none) xs with
    | some vs => visitSubInts s xs = .ok { s with rightOp := .ints (acc ++ vs) }
    | none => ∃ s', visitSubInts s xs = .ok s' ∧ FailedLit s s' := by
  induction xs with
  | nil =>
    intro s acc hacc
    simp only [mapOpt, visitSubInts, List.append_nil, ← hacc]
  | cons t rest ih =>
    intro s acc hacc
    simp only [mapOpt, visitSubInts, hacc]
    cases h : parseIntLit false t none with
    | none => exact ⟨_, rfl, rfl, rfl, rfl⟩
    | some v =>
      have := ih { s with rightOp := .ints (acc ++ [v]) } (acc ++ [v]) rfl
      simp only []
      cases hm : mapOpt (fun t => parseIntLit false t none) rest with
      | none =>
        simp only [hm] at this
        obtain ⟨s', hs', hf⟩ := this
        exact ⟨s', hs', hf⟩
      | some vs =>
        simp only [hm] at this
        simp [this, List.append_assoc]

theorem visitSubFloats_acc (xs : List String) : ∀ (s : VState) (acc : List F64), s.rightOp = .floats acc →
    match mapOpt parseFloatLit xs with
    | some vs => visitSubFloats s xs = .ok { s with rightOp := .floats (acc ++ vs) }
    | none => ∃ s', visitSubFloats s xs = .ok s' ∧ FailedLit s s' := by
  induction xs with
  | nil =>
    intro s acc hacc
    simp only [mapOpt, visitSubFloats, List.append_nil, ← hacc]
  | cons t rest ih =>
    intro s acc hacc
    simp only [mapOpt, visitSubFloats, hacc]
    cases h : parseFloatLit t with
    | none => exact ⟨_, rfl, rfl, rfl, rfl⟩
    | some v =>
      have := ih { s with rightOp := .floats (acc ++ [v]) } (acc ++ [v]) rfl
      simp only []
      cases hm : mapOpt parseFloatLit rest with
      | none =>
        simp only [hm] at this
        obtain ⟨s', hs', hf⟩ := this
        exact ⟨s', hs', hf⟩
      | some vs =>
        simp only [hm] at this
        simp [this, List.append_assoc]

theorem visitSubStrs_acc (xs : List String) : ∀ (s : VState) (acc : List Bytes), s.rightOp = .strs acc →
    visitSubStrs s xs = .ok { s with rightOp := .strs (acc ++ xs.map getStringLit) } := by
  induction xs with
  | nil =>
    intro s acc hacc
    simp only [visitSubStrs, List.map_nil, List.append_nil, ← hacc]
  | cons t rest ih =>
    intro s acc hacc
    have := ih { s with rightOp := .strs (acc ++ [getStringLit t]) } (acc ++ [getStringLit t]) rfl
    simp only [visitSubStrs, hacc]
    simp [this, List.append_assoc]

theorem visitLit_spec (s : VState) (h : s.rightOp = .nil) (lit : Lit) :
    match litOperand lit with
    | some (k, r) => visitLit s lit = .ok { s with curOp := some k, rightOp := r }
    | none => ∃ s', visitLit s lit = .ok s' ∧ FailedLit s s' := by
  cases lit with
  | bool t =>
    simp only [litOperand, visitLit]
    by_cases h1 : t = "true"
    · simp [h1]
    · by_cases h2 : t = "false"
      · simp [h2]
      · simp only [h1, h2, if_false]
        exact ⟨_, rfl, rfl, rfl, rfl⟩
  | null => simp [litOperand, visitLit, h]
  | version t => simp [litOperand, visitLit]
  | str t => simp [litOperand, visitLit]
  | double t =>
    simp only [litOperand, visitLit]
    cases parseFloatLit t <;> simp
  | long neg i e =>
    simp only [litOperand, visitLit]
    cases parseIntLit neg i e <;> simp [FailedLit]
  | list k xs =>
    simp only [litOperand, visitLit]
    by_cases hi : k = INT
    · simp only [hi, if_true]
      cases xs with
      | nil => simp [visitSubInts, h]
      | cons t rest =>
        have := visitSubInts_acc (t :: rest) { s with curOp := some .int, rightOp := .ints [] } [] rfl
        have e : visitSubInts { s with curOp := some .int } (t :: rest) =
            visitSubInts { s with curOp := some .int, rightOp := .ints [] } (t :: rest) := by
          simp [visitSubInts, h]
        rw [e]
        cases hm : mapOpt (fun t => parseIntLit false t none) (t :: rest) with
        | none =>
          simp only [hm] at this
          obtain ⟨s', hs', hf⟩ := this
          simp only [Option.map]
          exact ⟨s', hs', by simpa [FailedLit] using hf⟩
        | some vs =>
          simp only [hm] at this
          simp [this]
    · simp only [hi, if_false]
      by_cases hd : k = DOUBLE
      · simp only [hd, if_true]
        cases xs with
        | nil => simp [visitSubFloats, h]
        | cons t rest =>
          have := visitSubFloats_acc (t :: rest) { s with curOp := some .float, rightOp := .floats [] } [] rfl
          have e : visitSubFloats { s with curOp := some .float } (t :: rest) =
              visitSubFloats { s with curOp := some .float, rightOp := .floats [] } (t :: rest) := by
            simp [visitSubFloats, h]
          rw [e]
          cases hm : mapOpt parseFloatLit (t :: rest) with
          | none =>
            simp only [hm] at this
            obtain ⟨s', hs', hf⟩ := this
            simp only [Option.map]
            exact ⟨s', hs', by simpa [FailedLit] using hf⟩
          | some vs =>
            simp only [hm] at this
            simp [this]
      · simp only [hd, if_false]
        cases xs with
        | nil => simp [visitSubStrs, h]
        | cons t rest =>
          have := visitSubStrs_acc (t :: rest) { s with curOp := some .string, rightOp := .strs [] } [] rfl
          have e : visitSubStrs { s with curOp := some .string } (t :: rest) =
              visitSubStrs { s with curOp := some .string, rightOp := .strs [] } (t :: rest) := by
            simp [visitSubStrs, h]
          rw [e, this]
          simp

/-! ### the post-condition of visiting a (sub-)rule -/

/-- the registers that must be in their rest position between comparisons -/
structure Clean (s : VState) : Prop where
  err : s.err = none
  stack : s.stack = []
  rightOp : s.rightOp = .nil

def orElseDbg (d : Option Dbg) (old : Option Dbg) : Option Dbg :=
  match d with
  | some x => some x
  | none => old

/-- what visiting from state `s` must return when the (sub-)rule's outcome is `o` -/
def Post (s : VState) (o : Out) (r : VM (Bool × VState)) : Prop :=
  match o.res with
  | .panic p => r = .error ⟨p, s.calls ++ o.calls, orElseDbg o.dbg s.debugErr⟩
  | .fail e => ∃ b s', r = .ok (b, s') ∧ s'.err = some e ∧ s'.debugErr = orElseDbg o.dbg s.debugErr ∧
      s'.calls = s.calls ++ o.calls
  | .verdict b => ∃ s', r = .ok (b, s') ∧ Clean s' ∧ s'.item = s.item ∧
      s'.debugErr = orElseDbg o.dbg s.debugErr ∧ s'.calls = s.calls ++ o.calls

theorem visitPresent_spec (lower : Bytes → Bytes) (s : VState) (hc : Clean s) (path : List String) :
    Post s (leafOut lower s.item (.present path)) (visitPresent s path) := by
  have h1 := visitAttrPath_spec s hc.stack path
  simp only [visitPresent, leafOut, h1]
  cases hd : denote s.item path with
  | error p => simp [Post, orElseDbg]
  | ok v =>
    simp only [Post]
    exact ⟨_, rfl, ⟨hc.err, rfl, hc.rightOp⟩, rfl, rfl, by simp⟩

theorem visitCompare_spec (lower : Bytes → Bytes) (s : VState) (hc : Clean s) (path : List String) (k : Kind) (lit : Lit) :
    Post s (leafOut lower s.item (.compare path k lit)) (visitCompare lower s path k lit) := by
  have h1 := visitAttrPath_spec s hc.stack path
  simp only [visitCompare, leafOut, h1]
  cases hd : denote s.item path with
  | error p => simp [Post, orElseDbg]
  | ok v =>
    simp only []
    have h2 := visitLit_spec { s with leftOp := v, stack := [] } hc.rightOp lit
    cases hl : litOperand lit with
    | none =>
      simp only [hl] at h2
      obtain ⟨s2, hs2, hf⟩ := h2
      simp only [hs2, hf.1, Option.isSome_some, if_true, Post]
      exact ⟨false, s2, rfl, hf.1, by simp [orElseDbg, hf.2.1], by simp [hf.2.2]⟩
    | some kr =>
      obtain ⟨kind, r⟩ := kr
      simp only [hl] at h2
      simp only [h2]
      simp only [hc.err, Option.isSome_none, Bool.false_eq_true, if_false]
      cases hk : cmpOfKind k with
      | none => simp [Post, orElseDbg]
      | some op =>
        simp only []
        cases ha : apply lower kind op v r with
        | panic c => simp [Post, orElseDbg]
        | ok b c =>
          simp only [Post]
          exact ⟨_, rfl, ⟨rfl, rfl, rfl⟩, rfl, by simp [orElseDbg], rfl⟩
        | err e c =>
          cases e with
          | invalidOperation => simp [Post, orElseDbg]
          | missing =>
            simp only [Post, dbgOfErr]
            exact ⟨_, rfl, ⟨rfl, rfl, rfl⟩, rfl, by simp [orElseDbg], rfl⟩
          | invalidOperand =>
            simp only [Post, dbgOfErr]
            exact ⟨_, rfl, ⟨rfl, rfl, rfl⟩, rfl, by simp [orElseDbg], rfl⟩
          | other =>
            simp only [Post, dbgOfErr]
            exact ⟨_, rfl, ⟨rfl, rfl, rfl⟩, rfl, by simp [orElseDbg], rfl⟩

theorem orElseDbg_assoc (a b c : Option Dbg) :
    orElseDbg (b.orElse fun _ => a) c = orElseDbg b (orElseDbg a c) := by
  cases a <;> cases b <;> simp [orElseDbg]

/-- **Refinement.** For every rule, from every clean state, the visitor returns the compositional outcome. -/
theorem visit_spec (lower : Bytes → Bytes) (t : Tree) :
    ∀ (s : VState), Clean s → Post s (evalOut lower s.item t) (visit lower t s) := by
  induction t with
  | present path => intro s hc; simpa [visit, evalOut] using visitPresent_spec lower s hc path
  | compare path k lit => intro s hc; simpa [visit, evalOut] using visitCompare_spec lower s hc path k lit
  | paren neg q ih =>
    intro s hc
    have := ih s hc
    simp only [visit, evalOut]
    cases hr : (evalOut lower s.item q).res with
    | panic p =>
      simp only [Post, hr] at this ⊢
      simp [this]
    | fail e =>
      simp only [Post, hr] at this ⊢
      obtain ⟨b, s', h1, h2, h3, h4⟩ := this
      simp only [h1]
      exact ⟨_, s', rfl, h2, h3, h4⟩
    | verdict b =>
      simp only [Post, hr] at this ⊢
      obtain ⟨s', h1, h2, h3, h4, h5⟩ := this
      simp only [h1]
      exact ⟨s', rfl, h2, h3, h4, h5⟩
  | logical op l r ihl ihr =>
    intro s hc
    have hl := ihl s hc
    simp only [visit, evalOut]
    cases hr : (evalOut lower s.item l).res with
    | panic p =>
      simp only [Post, hr] at hl ⊢
      simp [hl]
    | fail e =>
      simp only [Post, hr] at hl ⊢
      obtain ⟨b, s', h1, h2, h3, h4⟩ := hl
      simp only [h1, h2, Option.isSome_some, if_true]
      exact ⟨_, s', rfl, h2, h3, h4⟩
    | verdict x =>
      simp only [Post, hr] at hl
      obtain ⟨s1, h1, h2, h3, h4, h5⟩ := hl
      simp only [h1, h2.err, Option.isSome_none, Bool.false_eq_true, if_false]
      have hr2 := ihr s1 h2
      rw [h3] at hr2
      -- the right operand, when it is visited
      have key : Post s ((evalOut lower s.item l).seq (evalOut lower s.item r)) (visit lower r s1) := by
        cases hrr : (evalOut lower s.item r).res with
        | panic p =>
          simp only [Post, hrr, Out.seq] at hr2 ⊢
          simp [hr2, h5, h4, List.append_assoc]
          cases (evalOut lower s.item r).dbg <;> cases (evalOut lower s.item l).dbg <;> simp [orElseDbg]
        | fail e =>
          simp only [Post, hrr, Out.seq] at hr2 ⊢
          obtain ⟨b, s', g1, g2, g3, g4⟩ := hr2
          exact ⟨b, s', g1, g2, by rw [g3, h4, orElseDbg_assoc], by rw [g4, h5, List.append_assoc]⟩
        | verdict y =>
          simp only [Post, hrr, Out.seq] at hr2 ⊢
          obtain ⟨s', g1, g2, g3, g4, g5⟩ := hr2
          exact ⟨s', g1, g2, by rw [g3, h3], by rw [g4, h4, orElseDbg_assoc], by rw [g5, h5, List.append_assoc]⟩
      by_cases hop : op = "or"
      · simp only [hop, if_true]
        cases x with
        | true =>
          simp only [if_true, Post, hr]
          exact ⟨s1, rfl, h2, h3, h4, h5⟩
        | false => simpa using key
      · simp only [hop, if_false]
        cases x with
        | false =>
          simp only [Bool.not_false, if_true, Post, hr]
          exact ⟨s1, rfl, h2, h3, h4, h5⟩
        | true => simpa using key

theorem clean_init (item : List (Bytes × Value)) : Clean (VState.init item) := ⟨rfl, rfl, rfl⟩

/-- `Process` on a parsed rule returns the observable of the compositional outcome. -/
theorem processTree_eq (lower : Bytes → Bytes) (t : Tree) (item : List (Bytes × Value)) :
    processTree lower t item = toProc (evalOut lower item t) := by
  have := visit_spec lower t (VState.init item) (clean_init item)
  simp only [VState.init] at this
  unfold processTree toProc
  cases hr : (evalOut lower item t).res with
  | panic p =>
    simp only [Post, hr] at this
    simp [VState.init, this, orElseDbg]
    cases (evalOut lower item t).dbg <;> rfl
  | fail e =>
    simp only [Post, hr] at this
    obtain ⟨b, s', h1, h2, h3, h4⟩ := this
    simp [VState.init, h1, h2, h3, h4, orElseDbg]
    cases (evalOut lower item t).dbg <;> rfl
  | verdict b =>
    simp only [Post, hr] at this
    obtain ⟨s', h1, h2, h3, h4, h5⟩ := this
    simp [VState.init, h1, h2.err, h4, h5, orElseDbg]
    cases (evalOut lower item t).dbg <;> rfl

end Rules
