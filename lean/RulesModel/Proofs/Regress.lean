import RulesModel.Proofs.Refine
/-!
# Regressions: the *pinned* (unrepaired) definitions and kernel-checked counter-examples (DESIGN §7)

The refinement proof did not close for the code as pinned; the obstacles were concrete, and each is kept here as the
pinned transcription together with a witness evaluated by the kernel. They are the model-side replays of the defects
repaired by the `fix:` commits in /repo (known_findings.txt); the corresponding inputs run first in the harness.
-/
namespace Rules.Regress
open Rules Rules.P

/-- D1: `VisitAttrPath` as pinned – on a nil step it returned without touching `leftOp` and the stack -/
def visitAttrPathOld (s : VState) : List String → VM VState
  | [] => .ok s
  | [k] =>
    let (item, stack') : Value × List Value := match s.stack with
      | top :: rest => (top, rest)
      | [] => (.obj s.item, [])
    match item with
    | .null => .ok { s with stack := stack' }
    | .obj kvs => .ok { s with leftOp := Value.get kvs (bytesOf k), stack := [] }
    | _ => .error ⟨.notAMap, s.calls, s.debugErr⟩
  | k :: k' :: ks =>
    let item : Value := match s.stack with
      | top :: _ => top
      | [] => .obj s.item
    match item with
    | .null => .ok s
    | .obj kvs => visitAttrPathOld { s with stack := Value.get kvs (bytesOf k) :: s.stack } (k' :: ks)
    | _ => .error ⟨.notAMap, s.calls, s.debugErr⟩

/-- `y == 1 and x.a == 1` on `{y:1}`: after the first comparison the left operand register holds 1; the pinned
path walk for `x.a` leaves it there (x is missing), so the second comparison sees 1 – the spec says `null`. -/
theorem D1_left_operand_leaks :
    (visitAttrPathOld { VState.init [(bytesOf "y", .int 1)] with leftOp := .int 1 } ["x", "a"]).toOption.map (fun s => s.leftOp.isNull)
      = some false ∧
    (visitAttrPath { VState.init [(bytesOf "y", .int 1)] with leftOp := .int 1 } ["x", "a"]).toOption.map (fun s => s.leftOp.isNull)
      = some true := by decide +kernel

/-- … and the stack is left non-empty: `x.a.b.c` with `x = {a: nil}` leaves `[nil, x]` behind, so the next path is
resolved inside `x` instead of the root object -/
theorem D1_stack_leaks :
    (visitAttrPathOld (VState.init [(bytesOf "x", .obj [(bytesOf "a", .null)])]) ["x", "a", "b", "c"]).toOption.map (fun s => s.stack.length)
      = some 2 := by decide +kernel

/-- D3: `toInt` as pinned truncated a float64 attribute (Go `int(val)`); 1.7 compared equal to 1.
(The model of truncation is only needed for this witness: 1.7 = 7656119366529843·2^-52 truncates to 1.) -/
theorem D3_truncation_witness : intRel .eq 1 1 = true ∧ floatRel .eq (.fin false 7656119366529843 (-52)) (F64.ofInt 1) = false := by
  decide +kernel

/-- D6: `IntOperation.IN` as pinned accepted only a Go `int` attribute -/
def intInOld (left : Value) (l : List Int) : OpRes :=
  match left with
  | .int a => .ok (l.any (· == a)) []
  | _ => .err .invalidOperand []

theorem D6_in_stricter_than_eq :
    intInOld (.float (F64.ofInt 1)) [1, 2] = .err .invalidOperand [] ∧ intOp .in_ (.float (F64.ofInt 1)) (.ints [1, 2]) = .ok true [] ∧
    intOp .eq (.float (F64.ofInt 1)) (.int 1) = .ok true [] := by decide +kernel

/-- D2: without the `hasErr` guard after the left operand, the right operand was visited with the registers of the
failed comparison; with the guard a failure is final (`C06_final_logical`). Witness on the repaired model: -/
theorem D2_failure_is_final :
    (processTree id (.logical "or" (.logical "or" (.compare ["a"] 15 .null) (.compare ["b"] 18 (.str "\"bc\"")))
        (.compare ["k"] 12 (.list INT ["1"]))) []).err = some .invalidOperation := by decide +kernel

/-- D7: `FloatOperation.LE` as pinned returned `(false, nil)` on an operand error, so no diagnostic was recorded -/
theorem D7_le_reports_operand_error :
    floatOp .le (.str [115]) (.float (.fin false 3 (-1))) = .err .invalidOperand [] ∧
    floatOp .lt (.str [115]) (.float (.fin false 3 (-1))) = .err .invalidOperand [] := by decide +kernel

end Rules.Regress
