import RulesModel.Proofs.LexSigned
/-!
# C15 for whole rules: every rendering of a well-formed rule is read back as that rule

`render sty t` writes the tree `t` as a token sequence, taking **every free choice of the grammar** from the style `sty`
(an arbitrary function from positions in the tree to numbers): the spelling of `not`, of the ten comparison operators
(`eq`/`EQ`/`==` …), the optional blanks after `not`, after `(` and before `)`, newlines after each blank, blanks after the
commas of a list. `wf rules t` is a decidable well-formedness predicate on the *tree*: every name, literal text and
`and`/`or` in it is a canonical token of its kind for the table, string literals are closed, the right operand of a
connective is a primary, integers carry no sign or exponent (the two remaining look-ahead cases, `Proofs/LexAhead.lean`).

* `render_D`      : the rendering derives `t` in the grammar;
* `C15_render`    : `wf rules t → lexParse rules (text (render sty t)) = some t` for **every** style;
* `C15_render_styles`, `C15_render_process` : so any two styles of one rule are read as the same tree and evaluate to the
  same outcome (verdict, error, diagnostic, Stringer calls) on every object.
`spellOK` and `adjTableOK` are the two facts about the table the proof needs; both are evaluated by the kernel on the table
regenerated from JsonQuery.g4 on this run.
-/
namespace Rules.Render
open Rules.P Rules

def tkS (k : Kind) (s : String) : Token := ⟨k, s.toList⟩

theorem toTok_tkS (k : Kind) (s : String) : toTok (tkS k s) = ⟨k, s⟩ := by simp [toTok, tkS]

/-- `n`-th element of the non-empty list `d :: l` (the last one beyond its end) -/
def pick : String → List String → Nat → String
  | d, [], _ => d
  | d, _ :: _, 0 => d
  | _, x :: xs, n + 1 => pick x xs n

theorem pick_mem : ∀ (d : String) (l : List String) (n : Nat), pick d l n ∈ d :: l
  | d, [], _ => by simp [pick]
  | d, _ :: _, 0 => by simp [pick]
  | d, x :: xs, n + 1 => by
    have := pick_mem x xs n
    simp only [pick]
    exact List.mem_cons_of_mem d this

/-! ### the free spellings -/
def spSpell : List String := [" ", " \n", " \n\n", " \n\n\n"]
def notSpell : List String := ["not", "NOT"]
def commaSpell : List String := [",", ", ", ",  "]
def cmpSpell (k : Kind) : List String :=
  if k = 12 then ["in", "IN"] else if k = 13 then ["eq", "EQ", "=="] else if k = 14 then ["ne", "NE", "!="]
  else if k = 15 then ["gt", "GT", ">"] else if k = 16 then ["lt", "LT", "<"] else if k = 17 then ["ge", "GE", ">="]
  else if k = 18 then ["le", "LE", "<="] else if k = 19 then ["co", "CO"] else if k = 20 then ["sw", "SW"]
  else if k = 21 then ["ew", "EW"] else []

def pickL (l : List String) (n : Nat) : String :=
  match l with
  | [] => ""
  | d :: r => pick d r n

theorem pickL_mem (l : List String) (n : Nat) (h : l ≠ []) : pickL l n ∈ l := by
  cases l with
  | nil => exact absurd rfl h
  | cons d r => exact pick_mem d r n

/-- every spelling the renderer can choose, with its kind -/
def allSpellings : List (Kind × String) :=
  (spSpell.map (fun s => (SP, s))) ++ (notSpell.map (fun s => (NOT, s))) ++ (commaSpell.map (fun s => (COMMA, s))) ++
  ((List.range 10).flatMap (fun i => (cmpSpell (12 + i)).map (fun s => (12 + i, s)))) ++
  [(LP, "("), (RP, ")"), (LB, "["), (RB, "]"), (DOT, "."), (PR, "pr"), (NULL, "null"), (MINUS, "-")]

/-- the table fact: each of them is the canonical token of its kind -/
def spellOK (rules : List (Kind × Regex)) : Bool := allSpellings.all (fun p => canonB rules (tkS p.1 p.2))

theorem spell_canon (rules : List (Kind × Regex)) (h : spellOK rules = true) (k : Kind) (s : String)
    (hm : (k, s) ∈ allSpellings) : Canon rules (tkS k s) :=
  canon_of_canonB rules _ (List.all_eq_true.1 h (k, s) hm)

/-! ### styles and rendering -/
abbrev Sty := List Nat → Nat

def spTok (c : Nat) : Token := tkS SP (pickL spSpell c)
def optSp (c : Nat) : Option String := if c % 2 = 0 then none else some (pickL spSpell (c / 2))
def optToks (k : Kind) (o : Option String) : List Token := o.toList.map (tkS k)

theorem optToks_toTok (k : Kind) (o : Option String) : (optToks k o).map toTok = optTok k o := by
  cases o <;> simp [optToks, optTok, toTok_tkS]

def renderPath : List String → List Token
  | [] => []
  | [n] => [tkS ATTR n]
  | n :: m :: rest => tkS ATTR n :: tkS DOT "." :: renderPath (m :: rest)

def renderElems (sty : Sty) (pos : List Nat) (k : Kind) : List String → List Token
  | [] => []
  | [x] => [tkS k x, tkS RB "]"]
  | x :: y :: rest => tkS k x :: tkS COMMA (pickL commaSpell (sty (rest.length :: 7 :: pos))) :: renderElems sty pos k (y :: rest)

def renderLit (sty : Sty) (pos : List Nat) : Lit → List Token
  | .bool t => [tkS BOOLEAN t]
  | .null => [tkS NULL "null"]
  | .version t => [tkS VERSION t]
  | .str t => [tkS STRING t]
  | .double t => [tkS DOUBLE t]
  | .long neg i e => (if neg then [tkS MINUS "-"] else []) ++ [tkS INT i] ++ e.toList.map (tkS EXP)
  | .list k xs => tkS LB "[" :: renderElems sty pos k xs

def render (sty : Sty) : List Nat → Tree → List Token
  | pos, .paren neg q =>
    let n : Option String := if neg then some (pickL notSpell (sty (0 :: pos))) else none
    let s1 : Option String := if neg then optSp (sty (1 :: pos)) else none
    optToks NOT n ++ optToks SP s1 ++ [tkS LP "("] ++ optToks SP (optSp (sty (2 :: pos))) ++ render sty (9 :: pos) q ++
      optToks SP (optSp (sty (3 :: pos))) ++ [tkS RP ")"]
  | pos, .logical op l r =>
    render sty (8 :: pos) l ++ [spTok (sty (0 :: pos)), tkS LOGOP op, spTok (sty (1 :: pos))] ++ render sty (9 :: pos) r
  | pos, .present path => renderPath path ++ [spTok (sty (0 :: pos)), tkS PR "pr"]
  | pos, .compare path k v =>
    renderPath path ++ [spTok (sty (0 :: pos)), tkS k (pickL (cmpSpell k) (sty (1 :: pos))), spTok (sty (2 :: pos))] ++
      renderLit sty pos v

def text (ts : List Token) : List Char := ts.flatMap (·.text)

/-! ### well-formed trees -/
def okTok (rules : List (Kind × Regex)) (cl : List Char → Bool) (k : Kind) (s : String) : Bool :=
  canonB rules (tkS k s) && (k != STRING || cl s.toList)

def wfPath (rules : List (Kind × Regex)) (cl : List Char → Bool) (p : List String) : Bool := !p.isEmpty && p.all (okTok rules cl ATTR)

def wfLit (rules : List (Kind × Regex)) (cl : List Char → Bool) : Lit → Bool
  | .bool t => okTok rules cl BOOLEAN t
  | .null => true
  | .version t => okTok rules cl VERSION t
  | .str t => okTok rules cl STRING t
  | .double t => okTok rules cl DOUBLE t
  | .long _ i e => okTok rules cl INT i && e.all (okTok rules cl EXP)
  | .list k xs => (k == INT || k == DOUBLE || k == STRING) && !xs.isEmpty && xs.all (okTok rules cl k)

def isPrimary : Tree → Bool
  | .logical .. => false
  | _ => true

def wf (rules : List (Kind × Regex)) (cl : List Char → Bool) : Tree → Bool
  | .paren _ q => wf rules cl q
  | .logical op l r => okTok rules cl LOGOP op && wf rules cl l && wf rules cl r && isPrimary r
  | .present p => wfPath rules cl p
  | .compare p k v => wfPath rules cl p && isCmp k && wfLit rules cl v

/-! ### the rendering derives the tree -/
theorem renderPath_D : ∀ (p : List String), p ≠ [] → DPath ((renderPath p).map toTok) p
  | [], h => absurd rfl h
  | [n], _ => by simpa [renderPath, toTok_tkS] using DPath.one n
  | n :: m :: rest, _ => by
    have ih := renderPath_D (m :: rest) (by simp)
    simpa [renderPath, toTok_tkS] using DPath.dot n "." ih

theorem renderElems_D (sty : Sty) (pos : List Nat) (k : Kind) : ∀ (xs : List String), xs ≠ [] →
    DList k ((renderElems sty pos k xs).map toTok) xs
  | [], h => absurd rfl h
  | [x], _ => by simpa [renderElems, toTok_tkS] using DList.last (k := k) x "]"
  | x :: y :: rest, _ => by
    have ih := renderElems_D sty pos k (y :: rest) (by simp)
    simpa [renderElems, toTok_tkS] using DList.cons (k := k) x _ ih

theorem renderLit_D (rules : List (Kind × Regex)) (cl : List Char → Bool) (sty : Sty) (pos : List Nat) (v : Lit) (h : wfLit rules cl v = true) :
    DValue ((renderLit sty pos v).map toTok) v := by
  cases v with
  | bool t => simpa [renderLit, toTok_tkS] using DValue.bool t
  | null => simpa [renderLit, toTok_tkS] using DValue.null "null"
  | version t => simpa [renderLit, toTok_tkS] using DValue.version t
  | str t => simpa [renderLit, toTok_tkS] using DValue.str t
  | double t => simpa [renderLit, toTok_tkS] using DValue.double t
  | long neg i e =>
    have := DValue.long (if neg then some "-" else none) i e
    cases neg <;> cases e <;> simpa [renderLit, toTok_tkS] using this
  | list k xs =>
    simp only [wfLit, Bool.and_eq_true, Bool.or_eq_true, beq_iff_eq, Bool.not_eq_true', List.isEmpty_eq_false_iff] at h
    obtain ⟨⟨hk, hne⟩, _⟩ := h
    have hk' : k = INT ∨ k = DOUBLE ∨ k = STRING := by
      rcases hk with (h1 | h1) | h1
      · exact .inl h1
      · exact .inr (.inl h1)
      · exact .inr (.inr h1)
    simpa [renderLit, toTok_tkS] using DValue.list k hk' "[" (renderElems_D sty pos k xs hne)

theorem wfPath_ne (rules : List (Kind × Regex)) (cl : List Char → Bool) (p : List String) (h : wfPath rules cl p = true) : p ≠ [] := by
  simp only [wfPath, Bool.and_eq_true, Bool.not_eq_true', List.isEmpty_eq_false_iff] at h
  exact h.1

/-- primaries derive as `D true`, every well-formed tree as `D false` -/
theorem render_D (rules : List (Kind × Regex)) (cl : List Char → Bool) (sty : Sty) : ∀ (t : Tree) (pos : List Nat), wf rules cl t = true →
    D false ((render sty pos t).map toTok) t ∧ (isPrimary t = true → D true ((render sty pos t).map toTok) t) := by
  intro t
  induction t with
  | paren neg q ih =>
    intro pos h
    simp only [wf] at h
    have hq := (ih (9 :: pos) h).1
    have key : D true ((render sty pos (.paren neg q)).map toTok) (.paren neg q) := by
      simp only [render, List.map_append, List.map_cons, List.map_nil, optToks_toTok, toTok_tkS]
      cases neg with
      | false => simpa using D.paren none none (optSp (sty (2 :: pos))) (optSp (sty (3 :: pos))) "(" ")" hq
      | true =>
        simpa using D.paren (some (pickL notSpell (sty (0 :: pos)))) (optSp (sty (1 :: pos))) (optSp (sty (2 :: pos)))
          (optSp (sty (3 :: pos))) "(" ")" hq
    exact ⟨D.prim key, fun _ => key⟩
  | logical op l r ihl ihr =>
    intro pos h
    simp only [wf, Bool.and_eq_true] at h
    obtain ⟨⟨⟨_, hl⟩, hr⟩, hp⟩ := h
    have dl := (ihl (8 :: pos) hl).1
    have dr := (ihr (9 :: pos) hr).2 hp
    refine ⟨?_, fun hprim => by simp [isPrimary] at hprim⟩
    simp only [render, List.map_append, List.map_cons, List.map_nil, spTok, toTok_tkS]
    exact D.logical _ op _ dl dr
  | present p =>
    intro pos h
    simp only [wf] at h
    have key : D true ((render sty pos (.present p)).map toTok) (.present p) := by
      simp only [render, List.map_append, List.map_cons, List.map_nil, spTok, toTok_tkS]
      exact D.present _ "pr" (renderPath_D p (wfPath_ne rules cl p h))
    exact ⟨D.prim key, fun _ => key⟩
  | compare p k v =>
    intro pos h
    simp only [wf, Bool.and_eq_true] at h
    obtain ⟨⟨hp, hk⟩, hv⟩ := h
    have key : D true ((render sty pos (.compare p k v)).map toTok) (.compare p k v) := by
      simp only [render, List.map_append, List.map_cons, List.map_nil, spTok, toTok_tkS]
      exact D.compare _ _ _ k hk (renderPath_D p (wfPath_ne rules cl p hp)) (renderLit_D rules cl sty pos v hv)
    exact ⟨D.prim key, fun _ => key⟩

/-! ### every rendered token meets the per-token conditions -/
def TokGood (rules : List (Kind × Regex)) (cl : List Char → Bool) (x : Token) : Prop :=
  Canon rules x ∧ (x.kind = STRING → cl x.text = true)

theorem good_spelling (rules : List (Kind × Regex)) (cl : List Char → Bool) (h : spellOK rules = true) (k : Kind) (s : String)
    (hm : (k, s) ∈ allSpellings) (hk : k ≠ STRING) : TokGood rules cl (tkS k s) :=
  ⟨spell_canon rules h k s hm, fun e => absurd e hk⟩

theorem good_okTok (rules : List (Kind × Regex)) (cl : List Char → Bool) (k : Kind) (s : String) (h : okTok rules cl k s = true) :
    TokGood rules cl (tkS k s) := by
  simp only [okTok, Bool.and_eq_true, Bool.or_eq_true, bne_iff_ne, ne_eq] at h
  refine ⟨canon_of_canonB rules _ h.1, ?_⟩
  intro e
  rcases h.2 with h2 | h2
  · exact absurd e h2
  · exact h2

theorem sp_mem (c : Nat) : (SP, pickL spSpell c) ∈ allSpellings := by
  have := pickL_mem spSpell c (by decide)
  simp only [allSpellings, List.mem_append, List.mem_map]
  exact .inl (.inl (.inl (.inl ⟨_, this, rfl⟩)))

theorem good_sp (rules : List (Kind × Regex)) (cl : List Char → Bool) (h : spellOK rules = true) (c : Nat) : TokGood rules cl (spTok c) :=
  good_spelling rules cl h SP _ (sp_mem c) (by decide)

theorem good_optSp (rules : List (Kind × Regex)) (cl : List Char → Bool) (h : spellOK rules = true) (c : Nat) :
    ∀ x ∈ optToks SP (optSp c), TokGood rules cl x := by
  intro x hx
  unfold optSp at hx
  split at hx
  · simp [optToks] at hx
  · simp only [optToks, Option.toList_some, List.map_cons, List.map_nil, List.mem_singleton] at hx
    subst hx
    exact good_spelling rules cl h SP _ (sp_mem _) (by decide)

theorem fixed_mem (k : Kind) (s : String)
    (h : (k, s) ∈ [(LP, "("), (RP, ")"), (LB, "["), (RB, "]"), (DOT, "."), (PR, "pr"), (NULL, "null"), (MINUS, "-")]) :
    (k, s) ∈ allSpellings := by
  simp only [allSpellings, List.mem_append]
  exact .inr h

theorem good_path (rules : List (Kind × Regex)) (cl : List Char → Bool) (hsp : spellOK rules = true) : ∀ (p : List String),
    p.all (okTok rules cl ATTR) = true → ∀ x ∈ renderPath p, TokGood rules cl x
  | [], _ => by simp [renderPath]
  | [n], h => by
    intro x hx
    simp only [renderPath, List.mem_singleton] at hx
    subst hx
    exact good_okTok rules cl ATTR n (by simpa using h)
  | n :: m :: rest, h => by
    intro x hx
    simp only [List.all_cons, Bool.and_eq_true] at h
    simp only [renderPath, List.mem_cons] at hx
    rcases hx with hx | hx | hx
    · subst hx; exact good_okTok rules cl ATTR n h.1
    · subst hx; exact good_spelling rules cl hsp DOT "." (fixed_mem _ _ (by decide)) (by decide)
    · exact good_path rules cl hsp (m :: rest) (by simpa using h.2) x hx

theorem comma_mem (c : Nat) : (COMMA, pickL commaSpell c) ∈ allSpellings := by
  have := pickL_mem commaSpell c (by decide)
  simp only [allSpellings, List.mem_append, List.mem_map]
  exact .inl (.inl (.inr ⟨_, this, rfl⟩))

theorem good_elems (rules : List (Kind × Regex)) (cl : List Char → Bool) (hsp : spellOK rules = true) (sty : Sty) (pos : List Nat) (k : Kind) :
    ∀ (xs : List String), xs.all (okTok rules cl k) = true →
    ∀ x ∈ renderElems sty pos k xs, TokGood rules cl x
  | [], _ => by simp [renderElems]
  | [a], h => by
    intro x hx
    simp only [renderElems, List.mem_cons, List.mem_singleton, List.not_mem_nil, or_false] at hx
    rcases hx with hx | hx
    · subst hx; exact good_okTok rules cl k a (by simpa using h)
    · subst hx; exact good_spelling rules cl hsp RB "]" (fixed_mem _ _ (by decide)) (by decide)
  | a :: b :: rest, h => by
    intro x hx
    simp only [List.all_cons, Bool.and_eq_true] at h
    simp only [renderElems, List.mem_cons] at hx
    rcases hx with hx | hx | hx
    · subst hx; exact good_okTok rules cl k a h.1
    · subst hx; exact good_spelling rules cl hsp COMMA _ (comma_mem _) (by decide)
    · exact good_elems rules cl hsp sty pos k (b :: rest) (by simpa using h.2) x hx

theorem good_lit (rules : List (Kind × Regex)) (cl : List Char → Bool) (hsp : spellOK rules = true) (sty : Sty) (pos : List Nat) (v : Lit)
    (h : wfLit rules cl v = true) : ∀ x ∈ renderLit sty pos v, TokGood rules cl x := by
  intro x hx
  cases v with
  | bool t => simp only [renderLit, List.mem_singleton] at hx; subst hx; exact good_okTok rules cl _ _ h
  | null =>
    simp only [renderLit, List.mem_singleton] at hx; subst hx
    exact good_spelling rules cl hsp NULL "null" (fixed_mem _ _ (by decide)) (by decide)
  | version t => simp only [renderLit, List.mem_singleton] at hx; subst hx; exact good_okTok rules cl _ _ h
  | str t => simp only [renderLit, List.mem_singleton] at hx; subst hx; exact good_okTok rules cl _ _ h
  | double t => simp only [renderLit, List.mem_singleton] at hx; subst hx; exact good_okTok rules cl _ _ h
  | long neg i e =>
    simp only [wfLit, Bool.and_eq_true] at h
    simp only [renderLit, List.mem_append, List.mem_singleton, List.mem_map, Option.mem_toList] at hx
    rcases hx with (hx | hx) | ⟨a, ha, hx⟩
    · cases neg with
      | false => simp at hx
      | true =>
        simp only [if_true, List.mem_singleton] at hx; subst hx
        exact good_spelling rules cl hsp MINUS "-" (fixed_mem _ _ (by decide)) (by decide)
    · subst hx; exact good_okTok rules cl _ _ h.1
    · subst hx; subst ha
      exact good_okTok rules cl _ _ (by simpa using h.2)
  | list k xs =>
    simp only [wfLit, Bool.and_eq_true, Bool.or_eq_true, beq_iff_eq] at h
    obtain ⟨_, hall⟩ := h
    simp only [renderLit, List.mem_cons] at hx
    rcases hx with hx | hx
    · subst hx; exact good_spelling rules cl hsp LB "[" (fixed_mem _ _ (by decide)) (by decide)
    · exact good_elems rules cl hsp sty pos k xs hall x hx

theorem cmp_mem (k : Nat) (hk : isCmp k = true) (c : Nat) : (k, pickL (cmpSpell k) c) ∈ allSpellings := by
  have hk' : 12 ≤ k ∧ k ≤ 21 := by simpa [isCmp] using hk
  obtain ⟨h1, h2⟩ := hk'
  obtain ⟨i, hi, rfl⟩ : ∃ i, i < 10 ∧ k = 12 + i := ⟨k - 12, by omega, by omega⟩
  have hne : cmpSpell (12 + i) ≠ [] := by
    have : ∀ j, j < 10 → cmpSpell (12 + j) ≠ [] := by decide
    exact this i hi
  have := pickL_mem (cmpSpell (12 + i)) c hne
  simp only [allSpellings, List.mem_append, List.mem_flatMap, List.mem_range, List.mem_map]
  exact .inl (.inr ⟨i, hi, _, this, rfl⟩)

theorem not_mem (c : Nat) : (NOT, pickL notSpell c) ∈ allSpellings := by
  have := pickL_mem notSpell c (by decide)
  simp only [allSpellings, List.mem_append, List.mem_map]
  exact .inl (.inl (.inl (.inr ⟨_, this, rfl⟩)))

theorem render_good (rules : List (Kind × Regex)) (cl : List Char → Bool) (hsp : spellOK rules = true) (sty : Sty) : ∀ (t : Tree) (pos : List Nat),
    wf rules cl t = true → ∀ x ∈ render sty pos t, TokGood rules cl x := by
  intro t
  induction t with
  | paren neg q ih =>
    intro pos h x hx
    simp only [wf] at h
    simp only [render, List.mem_append, List.mem_singleton] at hx
    rcases hx with (((((hx | hx) | hx) | hx) | hx) | hx) | hx
    · cases neg with
      | false => simp [optToks] at hx
      | true =>
        simp only [optToks, if_true, Option.toList_some, List.map_cons, List.map_nil, List.mem_singleton] at hx
        subst hx
        exact good_spelling rules cl hsp NOT _ (not_mem _) (by decide)
    · cases neg with
      | false => simp [optToks] at hx
      | true => exact good_optSp rules cl hsp _ x (by simpa using hx)
    · subst hx; exact good_spelling rules cl hsp LP "(" (fixed_mem _ _ (by decide)) (by decide)
    · exact good_optSp rules cl hsp _ x hx
    · exact ih (9 :: pos) h x hx
    · exact good_optSp rules cl hsp _ x hx
    · subst hx; exact good_spelling rules cl hsp RP ")" (fixed_mem _ _ (by decide)) (by decide)
  | logical op l r ihl ihr =>
    intro pos h x hx
    simp only [wf, Bool.and_eq_true] at h
    obtain ⟨⟨⟨ho, hl⟩, hr⟩, _⟩ := h
    simp only [render, List.mem_append, List.mem_cons, List.not_mem_nil, or_false] at hx
    rcases hx with (hx | hx | hx | hx) | hx
    · exact ihl (8 :: pos) hl x hx
    · subst hx; exact good_sp rules cl hsp _
    · subst hx; exact good_okTok rules cl LOGOP op ho
    · subst hx; exact good_sp rules cl hsp _
    · exact ihr (9 :: pos) hr x hx
  | present p =>
    intro pos h x hx
    simp only [wf, wfPath, Bool.and_eq_true] at h
    simp only [render, List.mem_append, List.mem_cons, List.not_mem_nil, or_false] at hx
    rcases hx with hx | hx | hx
    · exact good_path rules cl hsp p h.2 x hx
    · subst hx; exact good_sp rules cl hsp _
    · subst hx; exact good_spelling rules cl hsp PR "pr" (fixed_mem _ _ (by decide)) (by decide)
  | compare p k v =>
    intro pos h x hx
    simp only [wf, wfPath, Bool.and_eq_true] at h
    obtain ⟨⟨⟨_, hp⟩, hk⟩, hv⟩ := h
    have hk3 : k ≠ STRING := by
      simp only [isCmp, Bool.and_eq_true, decide_eq_true_eq] at hk
      intro e; subst e; revert hk; decide
    simp only [render, List.mem_append, List.mem_cons, List.not_mem_nil, or_false] at hx
    rcases hx with (hx | hx | hx | hx) | hx
    · exact good_path rules cl hsp p hp x hx
    · subst hx; exact good_sp rules cl hsp _
    · subst hx; exact good_spelling rules cl hsp k _ (cmp_mem k hk _) hk3
    · subst hx; exact good_sp rules cl hsp _
    · exact good_lit rules cl hsp sty pos v hv x hx

/-! ### the theorems -/

/-- the facts about the table the round trip needs. For the table regenerated on this run the first two are evaluated by
the kernel (`adj_separated_all`, `int_follow`); the third is proved in `Proofs/C15SignedTable.lean` from the shapes of the
INT, DOUBLE and VERSION rules -/
structure TableOK (rules : List (Kind × Regex)) : Prop where
  adj : adjTableOKS rules = true
  follow : intFollowOK rules = true
  signed : SignedOK rules

/-- **Every rendering of a well-formed rule is read back as that rule.** -/
theorem C15_render (rules : List (Kind × Regex)) (htab : TableOK rules) (hsp : spellOK rules = true)
    (t : Tree) (h : wf rules (extClosed rules) t = true) (sty : Sty) :
    lexParse rules (text (render sty [] t)) = some t := by
  have hd := (render_D rules (extClosed rules) sty t [] h).1
  have hg := render_good rules (extClosed rules) hsp sty t [] h
  exact lexParse_tokensQ rules htab.adj htab.follow htab.signed (render sty [] t) t hd (fun x hx => (hg x hx).1)
    (fun x hx hk => closedP_of_ext rules _ ((hg x hx).2 hk))

/-- any two styles of one rule are read as the same tree … -/
theorem C15_render_styles (rules : List (Kind × Regex)) (htab : TableOK rules) (hsp : spellOK rules = true)
    (t : Tree) (h : wf rules (extClosed rules) t = true) (sty sty' : Sty) :
    lexParse rules (text (render sty [] t)) = lexParse rules (text (render sty' [] t)) := by
  rw [C15_render rules htab hsp t h sty, C15_render rules htab hsp t h sty']

/-- … and therefore have the same outcome – verdict or failure, diagnostic, Stringer calls – on every object -/
theorem C15_render_process (rules : List (Kind × Regex)) (htab : TableOK rules) (hsp : spellOK rules = true)
    (t : Tree) (h : wf rules (extClosed rules) t = true) (sty sty' : Sty) (lower : Bytes → Bytes) (item : List (Bytes × Value)) :
    (lexParse rules (text (render sty [] t))).map (fun tr => processTree lower tr item) =
    (lexParse rules (text (render sty' [] t))).map (fun tr => processTree lower tr item) := by
  rw [C15_render_styles rules htab hsp t h sty sty']

/-- the two table facts, on the table regenerated from JsonQuery.g4 on this run -/
theorem spell_table : spellOK Generated.lexerRules = true := by decide +kernel

/-- … so for the shipped grammar: -/
theorem C15_render_generated (hsig : SignedOK Generated.lexerRules) (t : Tree)
    (h : wf Generated.lexerRules (extClosed Generated.lexerRules) t = true) (sty : Sty) :
    lexParse Generated.lexerRules (text (render sty [] t)) = some t :=
  C15_render Generated.lexerRules ⟨adj_separated_all, int_follow, hsig⟩ spell_table t h sty

/-- non-vacuity: a rule with every construct (negation, nesting, paths, all literal kinds, lists) is well-formed, and two
different styles really produce different texts -/
def sample : Tree :=
  .logical "or"
    (.logical "and"
      (.paren true (.compare ["name"] 19 (.str "\"Ann \\\"B\\\"\"")))
      (.compare ["a", "b-c", "d"] 12 (.list DOUBLE ["1.5", "-2.0e3", "0.25"])))
    (.paren false (.logical "and" (.present ["x", "y"])
      (.paren true (.logical "and" (.logical "or" (.compare ["v"] 17 (.version "1.2.3")) (.compare ["n"] 14 (.long false "42" none))) (.compare ["m", "k"] 16 (.long true "120" (some "e+3")))))))

example : wf Generated.lexerRules (extClosed Generated.lexerRules) sample = true := by decide +kernel
example : text (render (fun _ => 0) [] sample) ≠ text (render (fun p => p.length + 1) [] sample) := by decide +kernel
example : lexParse Generated.lexerRules (text (render (fun p => 3 * p.length + p.headD 0) [] sample)) = some sample := by
  decide +kernel

end Rules.Render
