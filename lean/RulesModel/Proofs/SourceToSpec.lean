import RulesModel.Proofs.EndToEnd
import RulesModel.Proofs.VisitorGen
import RulesModel.Proofs.OpsGen
/-!
# From the Go source text to the compositional semantics, in one statement

`Generated/Visitor.lean` and `Generated/Ops.lean` are what `/verif/extract` reads out of `jsonquery_visitor_impl.go`,
`operation.go` and `*_operation.go` on this run. The chain

  rule text ─trim, lex (regenerated token table), parse (= grammar relation `D`)─► tree `t` = `abs c` of a parse tree `c`
  `c`, object ─translated `Visit…` methods (`genProcess`)─► outcome   with every `currentOperation.<OP>` = translated method

ends in `toProc (evalOut lower item t)`, the Spec layer every property theorem `C01 … C20` is stated about.
-/
namespace Rules
open Rules.P (Tree Kind)
open Rules.Cst (QueryCtx abs)

/-- **Every rule text, every object.** Either the trimmed text is not a sentence of the grammar and the outcome is the
syntax error; or it lexes and parses to a tree `t`, `t` is the abstraction of an ANTLR-shaped parse tree `c`, and the
visitor *as translated from the Go source on this run*, run on `c` through the transcription of `Process`, returns the
observable of the compositional outcome of `t` – which is also what the model's `rules.Evaluate` returns. -/
theorem source_to_spec (rules : List (Kind × Regex)) (lower : Bytes → Bytes) (text : List Char) (item : List (Bytes × Value)) :
    (¬ Sentence rules (trimSpace text) ∧ rulesEvaluate rules lower text item = syntaxOut) ∨
    (∃ ts t c, lex rules (trimSpace text) = some ts ∧ P.D false (ts.map toTok) t ∧ abs c = t ∧
        VisitorGen.genProcess lower c item = toProc (evalOut lower item t) ∧
        rulesEvaluate rules lower text item = VisitorGen.genProcess lower c item) := by
  rcases rulesEvaluate_total rules lower text item with h | ⟨ts, t, hl, hd, he⟩
  · exact Or.inl h
  · obtain ⟨c, hc, hg⟩ := VisitorGen.translated_process hd lower item
    refine Or.inr ⟨ts, t, c, hl, hd, hc, ?_, ?_⟩
    · rw [hg, processTree_eq]
    · rw [he, hg, processTree_eq]

/-- **Every Operation call of that evaluation.** Whenever the model's visitor has walked a path and visited a literal
from the state `VisitCompareExp` starts in, the method Go selects for `currentOperation.<OP>` – as translated from the Go
source on this run, with method promotion – returns exactly what the model's `apply` returns: verdict, error class and
the Stringer calls in order (or panics with the same calls). -/
theorem every_operation_call_translated (lower : Bytes → Bytes) (s s1 s2 : VState) (path : List String) (lit : P.Lit)
    (hs : s.rightOp = .nil) (hp : visitAttrPath s path = .ok s1) (hv : visitLit s1 lit = .ok s2)
    (k : OpKind) (hk : s2.curOp = some k) (op : CmpOp) (w : Go.W) :
    GenOps.dispatch lower k op (Go.GoVal.ofV s2.leftOp) (Go.GoVal.ofR s2.rightOp) w
      = Go.embed w (apply lower k op s2.leftOp s2.rightOp) := by
  have h1 : s1.rightOp = .nil := by
    cases path with
    | nil => simp [visitAttrPath] at hp; subst hp; exact hs
    | cons k' ks =>
      -- the path walk touches leftOp and the stack only
      have : ∀ (ks : List String) (k' : String) (s s1 : VState), visitAttrPath s (k' :: ks) = .ok s1 → s1.rightOp = s.rightOp := by
        intro ks
        induction ks with
        | nil =>
          intro k' s s1 h
          simp only [visitAttrPath] at h
          split at h <;> simp at h <;> subst h <;> rfl
        | cons k2 rest ih =>
          intro k' s s1 h
          simp only [visitAttrPath] at h
          split at h
          · simp at h; subst h; rfl
          · exact ih k2 _ s1 h |>.trans rfl
          · simp at h
      rw [this ks k' s s1 hp, hs]
  exact OpsGen.ops_translated lower s1 s2 lit h1 hv k hk op w

end Rules
