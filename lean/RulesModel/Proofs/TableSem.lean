import RulesModel.Model.Visitor
import RulesModel.Expected.LexTable
/-!
# What the regenerated tables *mean*, and that the model is that meaning

The translator (`/verif/extract`) does not emit Lean code for the Go methods: it classifies every `Operation` method,
the `switch` of `VisitCompareExp` and the literal visitors into rows of small tables (`Generated.opTable`,
`Generated.dispatch`, `Generated.litOps`, `Generated.tokenConsts`), and the tie modules check those rows against the
frozen `Expected.*` tables. This file closes the remaining gap between the frozen tables and the hand-written model:
it gives the row language a **semantics in Lean** and proves that the model's functions are exactly the semantics of
the expected rows. The chain for, say, `IntOperation.GE` is then

  Go source ──(translator: row `fdel;rel(>=);propagate`)──▶ `Generated.opTable` ══(Tie.OpsNumeric, kernel)══
  `Expected.opTable` ══(`opTable_sem`, this file)══ `apply lower .int .ge`

so that a swapped relation, a dropped delegation, a swallowed error or a re-routed token is a *kernel-checked*
difference and not a comparison of strings whose meaning is only in my head.

* `opTable_sem`   : for every Operation type and every method, the semantics of the expected row is `apply`.
* `dispatch_sem`  : the token → method table read through the token constants is `cmpOfKind`.
* `litOps_sem`    : the Operation type each literal visitor selects is the one `litOperand` / `visitLit` uses.
* `tokenConsts_sem` : the token numbers of the generated parser are the kinds the grammar model uses.
`IN` rows are `as-modelled:` rows: their bodies are frozen text (translator `knownBodies`), transcribed by hand; their
semantics here is the model function itself – a definition, not a theorem (trusted transcription, DESIGN §10).
-/
namespace Rules.TableSem

/-- the row language -/
inductive RowCode where
  | invalid                                        -- `return false, ErrInvalidOperation`
  | isnil                                          -- `return left == nil, nil`
  | notnil                                         -- `return left != nil, nil`
  | rel (fdel : Bool) (r : CmpOp) (propagate : Bool) -- [float64 → FloatOperation.<same method>;] `l, r, err := o.get(..)`; err returned or dropped; `return l <r> r`
  | modelled                                       -- frozen body transcribed by hand
  | unrecognised
  deriving DecidableEq, Repr

/-- relation symbols / function names that can stand in `rel(…)` -/
def relOfName (s : List Char) : Option CmpOp :=
  if s = "==".toList then some .eq else if s = "!=".toList then some .ne
  else if s = ">".toList then some .gt else if s = "<".toList then some .lt
  else if s = ">=".toList then some .ge else if s = "<=".toList then some .le
  else if s = "Contains".toList then some .co else if s = "HasPrefix".toList then some .sw
  else if s = "HasSuffix".toList then some .ew
  else if s = "semver.EQ".toList then some .eq else if s = "semver.NE".toList then some .ne
  else if s = "semver.GT".toList then some .gt else if s = "semver.LT".toList then some .lt
  else if s = "semver.GE".toList then some .ge else if s = "semver.LE".toList then some .le
  else none

def splitSemi : List Char → List (List Char)
  | [] => [[]]
  | c :: cs =>
    match splitSemi cs with
    | [] => [[c]]
    | p :: ps => if c = ';' then [] :: p :: ps else (c :: p) :: ps

/-- `rel(X)` ↦ X -/
def relArg (p : List Char) : Option (List Char) :=
  match p with
  | 'r' :: 'e' :: 'l' :: '(' :: rest => if rest.getLast? = some ')' then some rest.dropLast else none
  | _ => none

def modeOf (p : List Char) : Option Bool :=
  if p = "propagate".toList then some true else if p = "swallow".toList then some false else none

def parseClass (cls : List Char) : RowCode :=
  if cls = "invalid".toList then .invalid
  else if cls = "isnil".toList then .isnil
  else if cls = "notnil".toList then .notnil
  else if "as-modelled:".toList.isPrefixOf cls then .modelled
  else
    match splitSemi cls with
    | [a, b] =>
      match (relArg a).bind relOfName, modeOf b with
      | some r, some m => .rel false r m
      | _, _ => .unrecognised
    | [f, a, b] =>
      if f = "fdel".toList then
        match (relArg a).bind relOfName, modeOf b with
        | some r, some m => .rel true r m
        | _, _ => .unrecognised
      else .unrecognised
    | _ => .unrecognised

def typeName : OpKind → String
  | .null => "NullOperation" | .bool => "BoolOperation" | .int => "IntOperation"
  | .float => "FloatOperation" | .string => "StringOperation" | .version => "VersionOperation"

def methodName : CmpOp → String
  | .eq => "EQ" | .ne => "NE" | .gt => "GT" | .lt => "LT" | .ge => "GE" | .le => "LE"
  | .co => "CO" | .sw => "SW" | .ew => "EW" | .in_ => "IN"

def lookupC (key : List Char) : List (String × String) → Option (List Char)
  | [] => none
  | (k, v) :: rest => if k.toList = key then some v.toList else lookupC key rest

/-- the row of `Type.Method`, following one `inherit:` step (Go method promotion from the embedded type) -/
def resolve (table : List (String × String)) (k : OpKind) (m : CmpOp) : RowCode :=
  match lookupC ((typeName k).toList ++ '.' :: (methodName m).toList) table with
  | none => .unrecognised
  | some cls =>
    if "inherit:".toList.isPrefixOf cls then
      match lookupC (cls.drop 8 ++ '.' :: (methodName m).toList) table with
      | none => .unrecognised
      | some c2 => parseClass c2
    else parseClass cls

/-! ### semantics -/

/-- `IntOperation.get` followed by a relation (no float64 delegation) -/
def intGetRel (r : CmpOp) (left : Value) (right : ROp) : OpRes :=
  match left with
  | .null => .err .missing []
  | _ =>
    match toIntL left with
    | none => .err .invalidOperand []
    | some l =>
      match toIntR right with
      | none => .err .invalidOperand []
      | some rv => .ok (intRel r l rv) []

/-- `BoolOperation.get` followed by `==` / `!=` -/
def boolGetRel (r : CmpOp) (left : Value) (right : ROp) : OpRes :=
  match left with
  | .null => .err .missing []
  | .bool l =>
    match right with
    | .bool rv => .ok (if r = .eq then l == rv else l != rv) []
    | _ => .err .invalidOperand []
  | _ => .err .invalidOperand []

/-- `VersionOperation.get` followed by a comparison method of the parsed versions -/
def verGetRel (r : CmpOp) (left : Value) (right : ROp) : OpRes :=
  match left with
  | .str l =>
    match getStringR right with
    | none => .err .invalidOperand []
    | some rv =>
      match Sv.parse (natBytes l) with
      | none => .err .other []
      | some lv =>
        match Sv.parse (natBytes rv) with
        | none => .err .other []
        | some rv' => .ok (verRel r (lv.cmp rv')) []
  | _ => .err .invalidOperand []

/-- the `get` of the family followed by relation `r` -/
def famRel (lower : Bytes → Bytes) (k : OpKind) (r : CmpOp) (l : Value) (rt : ROp) : OpRes :=
  match k with
  | .null => .err .invalidOperation []
  | .bool => boolGetRel r l rt
  | .int => intGetRel r l rt
  | .float => floatRelOp r l rt
  | .string => strRelOp lower r l rt
  | .version => verGetRel r l rt

def swallow : OpRes → OpRes
  | .err _ c => .ok false c
  | x => x

/-- meaning of a row for method `m` of Operation type `k` -/
def codeSem (lower : Bytes → Bytes) (k : OpKind) (m : CmpOp) (c : RowCode) (l : Value) (rt : ROp) : Option OpRes :=
  match c with
  | .invalid => some (.err .invalidOperation [])
  | .isnil => some (.ok l.isNull [])
  | .notnil => some (.ok (!l.isNull) [])
  | .rel fdel r prop =>
    let base := famRel lower k r l rt
    let res := if prop then base else swallow base
    some (if fdel then (match l with | .float _ => floatRelOp m l rt | _ => res) else res)
  | .modelled => some (apply lower k m l rt)       -- frozen text, transcribed by hand (definition, not theorem)
  | .unrecognised => none

/-- the codes the model was written from -/
def expectedCode : OpKind → CmpOp → RowCode
  | .null, .eq => .isnil
  | .null, .ne => .notnil
  | .null, _ => .invalid
  | .bool, .eq => .rel false .eq true
  | .bool, .ne => .rel false .ne true
  | .bool, _ => .invalid
  | .int, .in_ => .modelled
  | .int, .co => .invalid | .int, .sw => .invalid | .int, .ew => .invalid
  | .int, m => .rel true m true
  | .float, .in_ => .modelled
  | .float, .co => .invalid | .float, .sw => .invalid | .float, .ew => .invalid
  | .float, m => .rel false m true
  | .string, .in_ => .modelled
  | .string, m => .rel false m true
  | .version, .co => .invalid | .version, .sw => .invalid | .version, .ew => .invalid | .version, .in_ => .invalid
  | .version, m => .rel false m true

def allKinds : List OpKind := [.null, .bool, .int, .float, .string, .version]
def allOps : List CmpOp := [.eq, .ne, .gt, .lt, .ge, .le, .co, .sw, .ew, .in_]

theorem allKinds_mem (k : OpKind) : k ∈ allKinds := by cases k <;> simp [allKinds]
theorem allOps_mem (m : CmpOp) : m ∈ allOps := by cases m <;> simp [allOps]

/-- the frozen table parses to exactly those codes (60 rows, one evaluation by the kernel) -/
theorem expected_resolves_all :
    (allKinds.all fun k => allOps.all fun m => decide (resolve Expected.opTable k m = expectedCode k m)) = true := by
  decide +kernel

theorem expected_resolves (k : OpKind) (m : CmpOp) : resolve Expected.opTable k m = expectedCode k m := by
  have h := List.all_eq_true.1 expected_resolves_all k (allKinds_mem k)
  have h2 := List.all_eq_true.1 h m (allOps_mem m)
  exact of_decide_eq_true h2

theorem intRelOp_eq (m : CmpOp) (l : Value) (rt : ROp) :
    intRelOp m l rt = (match l with | .float _ => floatRelOp m l rt | _ => intGetRel m l rt) := by
  cases l <;> rfl

/-- **The model is the meaning of the table.** For every Operation type `k`, method `m` and operands, the semantics of
the row `k.m` of the frozen table (after Go's method promotion) is what the model's `apply` computes. -/
theorem opTable_sem (lower : Bytes → Bytes) (k : OpKind) (m : CmpOp) (l : Value) (rt : ROp) :
    codeSem lower k m (resolve Expected.opTable k m) l rt = some (apply lower k m l rt) := by
  rw [expected_resolves]
  cases k with
  | null => cases m <;> rfl
  | bool => cases m <;> first | rfl | (cases l <;> first | rfl | (cases rt <;> rfl))
  | int => cases m <;> first | rfl | (cases l <;> rfl)
  | float => cases m <;> rfl
  | string => cases m <;> rfl
  | version => cases m <;> first | rfl | (cases l <;> rfl)

/-- non-vacuity: no row of the frozen table is unrecognised -/
theorem expected_all_recognised (k : OpKind) (m : CmpOp) : resolve Expected.opTable k m ≠ .unrecognised := by
  rw [expected_resolves]; cases k <;> cases m <;> decide

/-- the semantic form of the per-family ties: every row of `t` for the types `ks` is either not recognised by the
translator (nothing claimed: the correspondence alone carries it) or parses to the code the model was written from -/
def codesOK (t : List (String × String)) (ks : List OpKind) : Bool :=
  ks.all fun k => allOps.all fun m => decide (resolve t k m = .unrecognised ∨ resolve t k m = expectedCode k m)

/-- … and a recognised row of such a table **means** what the model computes. With `t := Generated.opTable` (the tie
modules prove `codesOK Generated.opTable …` on every run) this is the statement that the Go method, as read by the
translator today, is the model's function. -/
theorem codesOK_sem (t : List (String × String)) (ks : List OpKind) (h : codesOK t ks = true) (k : OpKind) (hk : k ∈ ks)
    (m : CmpOp) (hr : resolve t k m ≠ .unrecognised) (lower : Bytes → Bytes) (l : Value) (rt : ROp) :
    codeSem lower k m (resolve t k m) l rt = some (apply lower k m l rt) := by
  have h1 := List.all_eq_true.1 h k hk
  have h2 := of_decide_eq_true (List.all_eq_true.1 h1 m (allOps_mem m))
  rcases h2 with h2 | h2
  · exact absurd h2 hr
  · rw [h2, ← expected_resolves]; exact opTable_sem lower k m l rt

/-! ### dispatch, literal visitors, token constants -/

def cmpOfMethod (s : String) : Option CmpOp :=
  [CmpOp.eq, .ne, .gt, .lt, .ge, .le, .co, .sw, .ew, .in_].find? (fun m => methodName m == s)

def digitsAux : List Char → Nat → Option Nat
  | [], acc => some acc
  | c :: cs, acc => if '0' ≤ c ∧ c ≤ '9' then digitsAux cs (acc * 10 + (c.toNat - 48)) else none

def natOfDigits (s : String) : Option Nat :=
  match s.toList with
  | [] => none
  | cs => digitsAux cs 0

/-- token constant name ↦ number, as in the generated parser -/
def constOf (consts : List (String × String)) (name : String) : Option Nat :=
  match consts.find? (fun p => p.1 == name) with
  | some p => natOfDigits p.2
  | none => none

/-- the method a token kind is routed to, according to the dispatch table and the token constants -/
def dispatchSem (dispatch consts : List (String × String)) (kind : Nat) : Option CmpOp :=
  match dispatch.find? (fun row => constOf consts row.1 == some kind) with
  | some row => cmpOfMethod row.2
  | none => none

/-- **Dispatch.** The `switch` of `VisitCompareExp`, read through the generated parser's token constants, routes a
token kind to exactly the method `cmpOfKind` names – for every kind (any other kind has no case: "Unknown operation"). -/
theorem dispatch_sem (kind : Nat) : dispatchSem Expected.dispatch Expected.tokenConsts kind = cmpOfKind kind := by
  by_cases h : kind ≤ 31
  · have : ∀ k, k ≤ 31 → dispatchSem Expected.dispatch Expected.tokenConsts k = cmpOfKind k := by decide +kernel
    exact this kind h
  · have hk : cmpOfKind kind = none := by
      have h1 : kind ≠ 13 := by omega
      have h2 : kind ≠ 14 := by omega
      have h3 : kind ≠ 15 := by omega
      have h4 : kind ≠ 16 := by omega
      have h5 : kind ≠ 17 := by omega
      have h6 : kind ≠ 18 := by omega
      have h7 : kind ≠ 19 := by omega
      have h8 : kind ≠ 20 := by omega
      have h9 : kind ≠ 21 := by omega
      have h0 : kind ≠ 12 := by omega
      simp [cmpOfKind, h1, h2, h3, h4, h5, h6, h7, h8, h9, h0]
    rw [hk]
    have hall : ∀ row ∈ Expected.dispatch, ∀ n, constOf Expected.tokenConsts row.1 = some n → n ≤ 31 := by decide +kernel
    unfold dispatchSem
    cases hf : Expected.dispatch.find? (fun row => constOf Expected.tokenConsts row.1 == some kind) with
    | none => rfl
    | some row =>
      exfalso
      have hm := List.mem_of_find?_eq_some hf
      have hp := List.find?_some hf
      simp only [beq_iff_eq] at hp
      exact h (hall row hm kind hp)

def kindOfTypeName (s : String) : Option OpKind :=
  [OpKind.null, .bool, .int, .float, .string, .version].find? (fun k => typeName k == s)

/-- the Operation type a literal visitor assigns to `currentOperation` -/
def litOpSem (litOps : List (String × String)) (visitor : String) : Option OpKind :=
  match litOps.find? (fun p => p.1 == visitor) with
  | some p => kindOfTypeName p.2
  | none => none

/-- which generated visitor method handles a literal of the grammar model -/
def visitorOf : P.Lit → String
  | .bool _ => "VisitBoolean" | .null => "VisitNull" | .version _ => "VisitVersion" | .str _ => "VisitString"
  | .double _ => "VisitDouble" | .long .. => "VisitLong"
  | .list k _ => if k = P.INT then "VisitListOfInts" else if k = P.DOUBLE then "VisitListOfDoubles" else "VisitListOfStrings"

theorem subInts_curOp : ∀ (xs : List String) (s s' : VState), visitSubInts s xs = .ok s' → s'.curOp = s.curOp := by
  intro xs
  induction xs with
  | nil => intro s s' h; simp only [visitSubInts] at h; cases h; rfl
  | cons t rest ih =>
    intro s s' h
    simp only [visitSubInts] at h
    split at h
    · split at h
      · cases h; split <;> rfl
      · have := ih _ _ h; rw [this]; split <;> rfl
    · cases h

theorem subFloats_curOp : ∀ (xs : List String) (s s' : VState), visitSubFloats s xs = .ok s' → s'.curOp = s.curOp := by
  intro xs
  induction xs with
  | nil => intro s s' h; simp only [visitSubFloats] at h; cases h; rfl
  | cons t rest ih =>
    intro s s' h
    simp only [visitSubFloats] at h
    split at h
    · split at h
      · cases h; split <;> rfl
      · have := ih _ _ h; rw [this]; split <;> rfl
    · cases h

theorem subStrs_curOp : ∀ (xs : List String) (s s' : VState), visitSubStrs s xs = .ok s' → s'.curOp = s.curOp := by
  intro xs
  induction xs with
  | nil => intro s s' h; simp only [visitSubStrs] at h; cases h; rfl
  | cons t rest ih =>
    intro s s' h
    simp only [visitSubStrs] at h
    split at h
    · have := ih _ _ h; rw [this]; split <;> rfl
    · cases h

theorem lo_bool : litOpSem Expected.litOps "VisitBoolean" = some .bool := by decide +kernel
theorem lo_null : litOpSem Expected.litOps "VisitNull" = some .null := by decide +kernel
theorem lo_version : litOpSem Expected.litOps "VisitVersion" = some .version := by decide +kernel
theorem lo_string : litOpSem Expected.litOps "VisitString" = some .string := by decide +kernel
theorem lo_double : litOpSem Expected.litOps "VisitDouble" = some .float := by decide +kernel
theorem lo_long : litOpSem Expected.litOps "VisitLong" = some .int := by decide +kernel
theorem lo_ints : litOpSem Expected.litOps "VisitListOfInts" = some .int := by decide +kernel
theorem lo_doubles : litOpSem Expected.litOps "VisitListOfDoubles" = some .float := by decide +kernel
theorem lo_strs : litOpSem Expected.litOps "VisitListOfStrings" = some .string := by decide +kernel

/-- **Literal visitors.** Whenever the model's literal visitor succeeds, the Operation type it leaves in
`currentOperation` is the one the source assigns in the visitor method for that literal. -/
theorem litOps_sem (s : VState) (lit : P.Lit) (s' : VState) (h : visitLit s lit = .ok s') :
    s'.curOp = litOpSem Expected.litOps (visitorOf lit) := by
  cases lit with
  | bool t =>
    simp only [visitLit] at h
    split at h
    · cases h; simp only [visitorOf, lo_bool]
    · split at h <;> (cases h; simp only [visitorOf, lo_bool])
  | null => simp only [visitLit] at h; cases h; simp only [visitorOf, lo_null]
  | version t => simp only [visitLit] at h; cases h; simp only [visitorOf, lo_version]
  | str t => simp only [visitLit] at h; cases h; simp only [visitorOf, lo_string]
  | double t =>
    simp only [visitLit] at h
    split at h <;> (cases h; simp only [visitorOf, lo_double])
  | long neg i e =>
    simp only [visitLit] at h
    split at h <;> (cases h; simp only [visitorOf, lo_long])
  | list k xs =>
    simp only [visitLit] at h
    split at h
    · rename_i hk; rw [subInts_curOp _ _ _ h]; simp only [visitorOf, hk, if_true, lo_ints]
    · split at h
      · rename_i hk1 hk2; rw [subFloats_curOp _ _ _ h]; subst hk2; simp only [visitorOf, show (P.DOUBLE = P.INT) = False from by decide, if_true, if_false, lo_doubles]
      · rename_i hk1 hk2; rw [subStrs_curOp _ _ _ h]; simp only [visitorOf, hk1, hk2, if_false, lo_strs]

/-- **Token constants.** The numbers of the generated parser's token constants are the kinds of the grammar model. -/
theorem tokenConsts_sem :
    constOf Expected.tokenConsts "T__0" = some P.LP ∧ constOf Expected.tokenConsts "T__1" = some P.RP ∧
    constOf Expected.tokenConsts "T__2" = some P.PR ∧ constOf Expected.tokenConsts "T__3" = some P.DOT ∧
    constOf Expected.tokenConsts "T__4" = some P.MINUS ∧ constOf Expected.tokenConsts "T__5" = some P.LB ∧
    constOf Expected.tokenConsts "T__6" = some P.RB ∧ constOf Expected.tokenConsts "NOT" = some P.NOT ∧
    constOf Expected.tokenConsts "LOGICAL_OPERATOR" = some P.LOGOP ∧ constOf Expected.tokenConsts "BOOLEAN" = some P.BOOLEAN ∧
    constOf Expected.tokenConsts "NULL" = some P.NULL ∧ constOf Expected.tokenConsts "ATTRNAME" = some P.ATTR ∧
    constOf Expected.tokenConsts "VERSION" = some P.VERSION ∧ constOf Expected.tokenConsts "STRING" = some P.STRING ∧
    constOf Expected.tokenConsts "DOUBLE" = some P.DOUBLE ∧ constOf Expected.tokenConsts "INT" = some P.INT ∧
    constOf Expected.tokenConsts "EXP" = some P.EXP ∧ constOf Expected.tokenConsts "COMMA" = some P.COMMA ∧
    constOf Expected.tokenConsts "SP" = some P.SP ∧
    (∀ m : CmpOp, ∃ n, constOf Expected.tokenConsts (methodName m) = some n ∧ P.isCmp n = true ∧ cmpOfKind n = some m) := by
  refine ⟨by decide +kernel, by decide +kernel, by decide +kernel, by decide +kernel, by decide +kernel, by decide +kernel,
    by decide +kernel, by decide +kernel, by decide +kernel, by decide +kernel, by decide +kernel, by decide +kernel,
    by decide +kernel, by decide +kernel, by decide +kernel, by decide +kernel, by decide +kernel, by decide +kernel,
    by decide +kernel, ?_⟩
  intro m
  cases m
  · exact ⟨13, by decide +kernel, by decide, by decide⟩
  · exact ⟨14, by decide +kernel, by decide, by decide⟩
  · exact ⟨15, by decide +kernel, by decide, by decide⟩
  · exact ⟨16, by decide +kernel, by decide, by decide⟩
  · exact ⟨17, by decide +kernel, by decide, by decide⟩
  · exact ⟨18, by decide +kernel, by decide, by decide⟩
  · exact ⟨19, by decide +kernel, by decide, by decide⟩
  · exact ⟨20, by decide +kernel, by decide, by decide⟩
  · exact ⟨21, by decide +kernel, by decide, by decide⟩
  · exact ⟨12, by decide +kernel, by decide, by decide⟩

end Rules.TableSem
