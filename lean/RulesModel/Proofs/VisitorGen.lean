import RulesModel.Generated.Visitor
namespace Rules.VisitorGen
open Rules Rules.Go Rules.Cst Rules.Gen
open Rules.P (Tok Tree Lit)

/-- the abstraction of the translated visitor's state: the path stack is kept bottom-first by the Go slice -/
def toV (j : J) : VState :=
  { item := j.item, stack := j.stack.items.reverse, leftOp := j.leftOp, rightOp := j.rightOp,
    curOp := j.currentOperation, err := j.err.map clsErr, debugErr := j.debugErr.map clsDbg, calls := j.calls }

def mapR {α β} (f : α → β) : VM α → VM β
  | .ok a => .ok (f a)
  | .error p => .error p

@[simp] theorem toV_calls (j : J) : (toV j).calls = j.calls := rfl

theorem peek_spec (o : ObjStack) :
    objStack_peek o = match o.items.reverse with
      | top :: _ => .ok top
      | [] => .error .indexRange := by
  obtain ⟨items⟩ := o
  unfold objStack_peek Go.index Go.len
  rcases List.eq_nil_or_concat items with rfl | ⟨l, x, rfl⟩
  · simp
  · have : ¬ ((l.length : Int) < 0) := by omega
    simp [this]

theorem pop_spec (o : ObjStack) :
    objStack_pop o = match o.items.reverse with
      | top :: rest => .ok (top, { items := rest.reverse })
      | [] => .error .indexRange := by
  unfold objStack_pop
  rw [peek_spec]
  obtain ⟨items⟩ := o
  rcases List.eq_nil_or_concat items with rfl | ⟨l, x, rfl⟩
  · simp
  · have : ¬ (((l.length : Int) < 0) ∨ ((l.length : Int) + 1 < (l.length : Int))) := by omega
    simp [Go.sliceTo, Go.len, this]

theorem empty_spec (o : ObjStack) : objStack_empty o = o.items.isEmpty := by
  obtain ⟨items⟩ := o
  cases items with
  | nil => simp [objStack_empty, Go.len]
  | cons a t =>
    have : ¬ ((t.length : Int) + 1 = 0) := by omega
    simp [objStack_empty, Go.len, this]

theorem absPath_ne : (c : AttrPathCtx) → ∃ k ks, absPath c = k :: ks
  | .mk n none => ⟨n.text, [], rfl⟩
  | .mk n (some s) => ⟨n.text, absPath s, rfl⟩

@[simp] theorem bind_eta {α β} (x : VM (α × β)) :
    (match x with | .error p => .error p | .ok (a, b) => (.ok (a, b) : VM (α × β))) = x := by
  cases x <;> rfl

theorem acceptAttrPath_spec : (c : AttrPathCtx) → (j : J) →
    mapR (fun r => toV r.2) (acceptAttrPath c j) = visitAttrPath (toV j) (absPath c)
  | .mk n none, j => by
    obtain ⟨item, ⟨items⟩, cur, l, r, e, d, calls⟩ := j
    rcases List.eq_nil_or_concat items with rfl | ⟨st, x, rfl⟩
    · simp [acceptAttrPath, absPath, visitAttrPath, toV, empty_spec, mapR, Go.isNilV, objStack_clear, Value.isNull, assertMap, mapIndex]
    · cases x <;> simp [acceptAttrPath, absPath, visitAttrPath, toV, empty_spec, pop_spec, mapR, Go.isNilV, Go.lift, objStack_clear, Value.isNull, assertMap, mapIndex, raise]
  | .mk n (some s), j => by
    have ih := acceptAttrPath_spec s
    obtain ⟨k', ks, hk⟩ := absPath_ne s
    obtain ⟨item, ⟨items⟩, cur, l, r, e, d, calls⟩ := j
    rcases List.eq_nil_or_concat items with rfl | ⟨st, x, rfl⟩
    · simp [acceptAttrPath, absPath, hk, visitAttrPath, toV, empty_spec, Go.isNilV, Value.isNull, assertMap, mapIndex, objStack_push, Go.append]
      have h1 := ih ⟨item, ⟨[Value.get item (bytesOf n.text)]⟩, cur, l, r, e, d, calls⟩
      revert h1
      cases acceptAttrPath s ⟨item, ⟨[Value.get item (bytesOf n.text)]⟩, cur, l, r, e, d, calls⟩ <;> simp [toV, mapR, hk] <;> intro h <;> exact h
    · cases x <;> simp [acceptAttrPath, absPath, hk, visitAttrPath, toV, empty_spec, peek_spec, mapR, Go.isNilV, Go.lift, objStack_clear, Value.isNull, assertMap, mapIndex, raise, objStack_push, Go.append]
      rename_i kvs
      have h1 := ih ⟨item, ⟨st ++ [Value.obj kvs, Value.get kvs (bytesOf n.text)]⟩, cur, l, r, e, d, calls⟩
      revert h1
      cases acceptAttrPath s ⟨item, ⟨st ++ [Value.obj kvs, Value.get kvs (bytesOf n.text)]⟩, cur, l, r, e, d, calls⟩ <;> simp [toV, mapR, hk] <;> intro h <;> exact h

theorem getString_spec (t : String) : getString t = .ok (getStringLit t) := by
  unfold getString getStringLit Go.strLen Go.substr
  by_cases h : (bytesOf t).length > 2
  · have h1 : ((bytesOf t).length : Int) > 2 := by omega
    have h2 : ¬ (((bytesOf t).length : Int) - 1 < 1 ∨ ((bytesOf t).length : Int) < ((bytesOf t).length : Int) - 1) := by omega
    simp [h, h1, h2]
    generalize bytesOf t = b
    rw [List.dropLast_eq_take, List.dropLast_eq_take.symm]
    cases b with
    | nil => rfl
    | cons x xs => cases xs <;> simp [List.dropLast_eq_take]
  · have h1 : ¬ ((bytesOf t).length : Int) > 2 := by omega
    simp [h, h1]

theorem acceptSubListOfInts_spec : (c : SubListCtx) → (j : J) →
    mapR (fun r => toV r.2) (acceptSubListOfInts c j) = visitSubInts (toV j) (absList c)
  | .mk e none, j => by
    obtain ⟨item, st, cur, l, r, er, d, calls⟩ := j
    cases r <;> cases h : parseIntLit false e.text none <;>
      simp [acceptSubListOfInts, absList, visitSubInts, toV, mapR, Go.isNilR, assertInts, raise, Go.ParseInt, IntText.parse, h, J_setErr, clsErr, Go.append]
  | .mk e (some s), j => by
    have ih := acceptSubListOfInts_spec s
    obtain ⟨item, st, cur, l, r, er, d, calls⟩ := j
    cases r <;> cases h : parseIntLit false e.text none <;>
      simp [acceptSubListOfInts, absList, visitSubInts, toV, mapR, Go.isNilR, assertInts, raise, Go.ParseInt, IntText.parse, h, J_setErr, clsErr, Go.append]
    all_goals
      (first
        | (have h1 := ih ⟨item, st, cur, l, ROp.ints [‹Int›], er, d, calls⟩
           revert h1
           generalize acceptSubListOfInts s _ = x
           cases x <;> simp [toV, mapR] <;> intro h <;> exact h)
        | (have h1 := ih ⟨item, st, cur, l, ROp.ints (‹List Int› ++ [‹Int›]), er, d, calls⟩
           revert h1
           generalize acceptSubListOfInts s _ = x
           cases x <;> simp [toV, mapR] <;> intro h <;> exact h))

theorem acceptSubListOfDoubles_spec : (c : SubListCtx) → (j : J) →
    mapR (fun r => toV r.2) (acceptSubListOfDoubles c j) = visitSubFloats (toV j) (absList c)
  | .mk e none, j => by
    obtain ⟨item, st, cur, l, r, er, d, calls⟩ := j
    cases r <;> cases h : parseFloatLit e.text <;>
      simp [acceptSubListOfDoubles, absList, visitSubFloats, toV, mapR, Go.isNilR, assertFloats, raise, Go.ParseFloat, h, J_setErr, clsErr, Go.append]
  | .mk e (some s), j => by
    have ih := acceptSubListOfDoubles_spec s
    obtain ⟨item, st, cur, l, r, er, d, calls⟩ := j
    cases r <;> cases h : parseFloatLit e.text <;>
      simp [acceptSubListOfDoubles, absList, visitSubFloats, toV, mapR, Go.isNilR, assertFloats, raise, Go.ParseFloat, h, J_setErr, clsErr, Go.append]
    all_goals
      (first
        | (have h1 := ih ⟨item, st, cur, l, ROp.floats [‹F64›], er, d, calls⟩
           revert h1
           generalize acceptSubListOfDoubles s _ = x
           cases x <;> simp [toV, mapR] <;> intro h <;> exact h)
        | (have h1 := ih ⟨item, st, cur, l, ROp.floats (‹List F64› ++ [‹F64›]), er, d, calls⟩
           revert h1
           generalize acceptSubListOfDoubles s _ = x
           cases x <;> simp [toV, mapR] <;> intro h <;> exact h))

theorem acceptSubListOfStrings_spec : (c : SubListCtx) → (j : J) →
    mapR (fun r => toV r.2) (acceptSubListOfStrings c j) = visitSubStrs (toV j) (absList c)
  | .mk e none, j => by
    obtain ⟨item, st, cur, l, r, er, d, calls⟩ := j
    cases r <;>
      simp [acceptSubListOfStrings, absList, visitSubStrs, toV, mapR, Go.isNilR, assertStrs, raise, getString_spec, Go.lift, Go.append]
  | .mk e (some s), j => by
    have ih := acceptSubListOfStrings_spec s
    obtain ⟨item, st, cur, l, r, er, d, calls⟩ := j
    cases r <;>
      simp [acceptSubListOfStrings, absList, visitSubStrs, toV, mapR, Go.isNilR, assertStrs, raise, getString_spec, Go.lift, Go.append]
    all_goals
      (first
        | (have h1 := ih ⟨item, st, cur, l, ROp.strs [getStringLit e.text], er, d, calls⟩
           revert h1
           generalize acceptSubListOfStrings s _ = x
           cases x <;> simp [toV, mapR] <;> intro h <;> exact h)
        | (have h1 := ih ⟨item, st, cur, l, ROp.strs (‹List Bytes› ++ [getStringLit e.text]), er, d, calls⟩
           revert h1
           generalize acceptSubListOfStrings s _ = x
           cases x <;> simp [toV, mapR] <;> intro h <;> exact h))

theorem acceptValue_spec (c : ValueCtx) (j : J) :
    mapR (fun r => toV r.2) (acceptValue c j) = visitLit (toV j) (absValue c) := by
  obtain ⟨item, st, cur, l, r, er, d, calls⟩ := j
  cases c with
  | boolean t =>
    by_cases h1 : t = "true" <;> by_cases h2 : t = "false" <;>
      simp [acceptValue, absValue, visitLit, toV, mapR, Go.ParseBool, h1, h2, J_setErr, clsErr, Go.newNestedError]
  | null => simp [acceptValue, absValue, visitLit, toV, mapR]
  | version v => simp [acceptValue, absValue, visitLit, toV, mapR]
  | string t => simp [acceptValue, absValue, visitLit, toV, mapR, getString_spec, Go.lift]
  | double t => cases h : parseFloatLit t <;> simp [acceptValue, absValue, visitLit, toV, mapR, Go.ParseFloat, h]
  | long t => cases h : parseIntLit t.neg t.int t.exp <;> simp [acceptValue, absValue, visitLit, toV, mapR, Go.ParseInt, IntText.parse, h, J_setErr, clsErr]
  | listOfInts s =>
    have h1 := acceptSubListOfInts_spec s ⟨item, st, some .int, l, r, er, d, calls⟩
    revert h1
    simp [acceptValue, absValue, visitLit, P.INT, P.DOUBLE]
    generalize acceptSubListOfInts s _ = x
    cases x <;> simp [toV, mapR] <;> intro h <;> exact h
  | listOfDoubles s =>
    have h1 := acceptSubListOfDoubles_spec s ⟨item, st, some .float, l, r, er, d, calls⟩
    revert h1
    simp [acceptValue, absValue, visitLit, P.INT, P.DOUBLE]
    generalize acceptSubListOfDoubles s _ = x
    cases x <;> simp [toV, mapR] <;> intro h <;> exact h
  | listOfStrings s =>
    have h1 := acceptSubListOfStrings_spec s ⟨item, st, some .string, l, r, er, d, calls⟩
    revert h1
    simp [acceptValue, absValue, visitLit, P.INT, P.DOUBLE, P.STRING]
    generalize acceptSubListOfStrings s _ = x
    cases x <;> simp [toV, mapR] <;> intro h <;> exact h

theorem kind_cases (k : Nat) : k = 13 ∨ k = 14 ∨ k = 15 ∨ k = 16 ∨ k = 18 ∨ k = 17 ∨ k = 19 ∨ k = 20 ∨ k = 21 ∨ k = 12 ∨
    (k ≠ 13 ∧ k ≠ 14 ∧ k ≠ 15 ∧ k ≠ 16 ∧ k ≠ 18 ∧ k ≠ 17 ∧ k ≠ 19 ∧ k ≠ 20 ∧ k ≠ 21 ∧ k ≠ 12) := by omega

@[simp] theorem hasErr_toV (j : J) : (toV j).err.isSome = J_hasErr j := by
  simp [toV, J_hasErr]

theorem acceptQuery_spec (lower : Bytes → Bytes) (c : QueryCtx) : ∀ (j : J),
    mapR (fun r => (r.1, toV r.2)) (acceptQuery (modelOps lower) c j) = mapR (fun r => (some r.1, r.2)) (visit lower (abs c) (toV j)) := by
  induction c with
  | parenExp n q ih =>
    intro j
    have h1 := ih j
    revert h1
    simp only [acceptQuery, abs, visit]
    generalize acceptQuery (modelOps lower) q j = x
    generalize visit lower (abs q) (toV j) = y
    rcases x with p | ⟨t1, j'⟩ <;> rcases y with p' | ⟨b, s'⟩ <;> simp [mapR]
    rintro rfl rfl
    cases n <;> simp [assertBool, mapR]
  | logicalExp l op r ihl ihr =>
    intro j
    have h1 := ihl j
    revert h1
    simp only [acceptQuery, abs, visit]
    generalize acceptQuery (modelOps lower) l j = x
    generalize visit lower (abs l) (toV j) = y
    rcases x with p | ⟨t1, j'⟩ <;> rcases y with p' | ⟨b, s'⟩ <;> simp [mapR]
    rintro rfl rfl
    simp [assertBool]
    by_cases he : J_hasErr j' <;> simp [he, mapR]
    by_cases ho : op.text = "or" <;> cases b <;> simp [ho, mapR]
    all_goals
      (have h2 := ihr j'
       revert h2
       generalize acceptQuery (modelOps lower) r j' = x
       generalize visit lower (abs r) (toV j') = y
       rcases x with p | ⟨t1, j''⟩ <;> rcases y with p' | ⟨b, s''⟩ <;> simp [mapR, assertBool]
       rintro rfl rfl; simp [assertBool])
  | presentExp p =>
    intro j
    have h1 := acceptAttrPath_spec p j
    revert h1
    simp only [acceptQuery, abs, visit, visitPresent]
    generalize acceptAttrPath p j = x
    generalize visitAttrPath (toV j) (absPath p) = y
    rcases x with p | ⟨t1, j'⟩ <;> rcases y with p' | s' <;> simp [mapR]
    rintro rfl; simp [toV, Go.isNilV]
  | compareExp p op v =>
    intro j
    have h1 := acceptAttrPath_spec p j
    revert h1
    simp only [acceptQuery, abs, visit, visitCompare]
    generalize acceptAttrPath p j = x
    generalize visitAttrPath (toV j) (absPath p) = y
    rcases x with pp | ⟨t1, j1⟩ <;> rcases y with pp' | s1 <;> simp [mapR]
    rintro rfl
    have h2 := acceptValue_spec v j1
    revert h2
    generalize acceptValue v j1 = x
    generalize visitLit (toV j1) (absValue v) = y
    rcases x with pp | ⟨t2, j2⟩ <;> rcases y with pp' | s2 <;> simp [mapR]
    rintro rfl
    by_cases he : J_hasErr j2 <;> simp [he, mapR]
    obtain ⟨item, st, cur, l, r, er, d, calls⟩ := j2
    rcases kind_cases op.kind with h | h | h | h | h | h | h | h | h | h | h
    all_goals
      (simp [h, cmpOfKind, methodVal, toV]
       cases cur <;> simp [raise, mapR, callOp, modelOps, J_setErr, clsErr]
       try (generalize Rules.apply lower _ _ l r = res
            rcases res with ⟨b, c⟩ | ⟨e, c⟩ | c <;> simp [mapR, embed]
            cases e <;> simp [J_setErr, J_setDebugErr, clsErr, clsDbg, newNestedError, GErr.Set]))

theorem new_spec (item : List (Bytes × Value)) : toV (NewJsonQueryVisitorImpl item) = VState.init item := by
  simp [toV, NewJsonQueryVisitorImpl, VState.init]

theorem visit_top_spec (lower : Bytes → Bytes) (c : QueryCtx) (j : J) (h : J_hasErr j = false) :
    mapR (fun r => (r.1, toV r.2)) (J_Visit (modelOps lower) j c) = mapR (fun r => (some r.1, r.2)) (visit lower (abs c) (toV j)) := by
  have h1 := acceptQuery_spec lower c j
  revert h1
  unfold J_Visit
  simp only [h]
  generalize acceptQuery (modelOps lower) c j = x
  generalize visit lower (abs c) (toV j) = y
  cases c <;> rcases x with p | ⟨t1, j'⟩ <;> rcases y with p' | ⟨b, s'⟩ <;> simp [mapR] <;> rintro rfl rfl <;> simp [assertBool]

/-- `Evaluator.Process` once the rule has been found well-formed, over the *translated* visitor:
`visitor := NewJsonQueryVisitorImpl(items); result := visitor.Visit(e.tree); e.lastDebugErr = visitor.debugErr;
if result == nil || visitor.err != nil { return false, visitor.err }; return result.(bool), visitor.err`, with the
deferred `recover()` (this function itself is transcribed by hand: `Process` is not in the translated file) -/
def genProcess (lower : Bytes → Bytes) (c : QueryCtx) (item : List (Bytes × Value)) : ProcOut :=
  match J_Visit (modelOps lower) (NewJsonQueryVisitorImpl item) c with
  | .error p => { verdict := false, err := some (.panic p.p), debug := p.debug, calls := p.calls }
  | .ok (result, visitor) =>
    match result, visitor.err with
    | _, some e => { verdict := false, err := some (clsErr e), debug := visitor.debugErr.map clsDbg, calls := visitor.calls }
    | none, none => { verdict := false, err := none, debug := visitor.debugErr.map clsDbg, calls := visitor.calls }
    | some b, none => { verdict := b, err := none, debug := visitor.debugErr.map clsDbg, calls := visitor.calls }

/-- **the translated visitor computes what the model computes** on every parse tree and every object -/
theorem genProcess_eq (lower : Bytes → Bytes) (c : QueryCtx) (item : List (Bytes × Value)) :
    genProcess lower c item = processTree lower (abs c) item := by
  have h1 := visit_top_spec lower c (NewJsonQueryVisitorImpl item) (by simp [J_hasErr, NewJsonQueryVisitorImpl])
  rw [new_spec] at h1
  revert h1
  unfold genProcess processTree
  generalize J_Visit (modelOps lower) (NewJsonQueryVisitorImpl item) c = x
  generalize visit lower (abs c) (VState.init item) = y
  rcases x with p | ⟨t1, j'⟩ <;> rcases y with p' | ⟨b, s'⟩ <;> simp [mapR]
  · rintro rfl; exact ⟨rfl, rfl, rfl⟩
  · rintro rfl rfl
    obtain ⟨item, st, cur, l, r, er, d, calls⟩ := j'
    cases er <;> simp [toV]

/-! ### every tree the grammar derives is the abstraction of a parse tree -/
def cstPathOf : List String → Option AttrPathCtx
  | [] => none
  | n :: ms => some (cstPath n ms)
def cstListOf (k : P.Kind) : List String → Option SubListCtx
  | [] => none
  | e :: es => some (cstList k e es)
def cstLit : Lit → Option ValueCtx
  | .bool t => some (.boolean t)
  | .null => some .null
  | .version t => some (.version ⟨P.VERSION, t⟩)
  | .str t => some (.string t)
  | .double t => some (.double t)
  | .long n i e => some (.long ⟨n, i, e⟩)
  | .list k xs =>
    if k = P.INT then (cstListOf k xs).map .listOfInts
    else if k = P.DOUBLE then (cstListOf k xs).map .listOfDoubles
    else if k = P.STRING then (cstListOf k xs).map .listOfStrings
    else none
def cstOf : Tree → Option QueryCtx
  | .paren neg q => (cstOf q).map (.parenExp (if neg then some ⟨P.NOT, "not"⟩ else none))
  | .logical op l r =>
    match cstOf l, cstOf r with
    | some a, some b => some (.logicalExp a ⟨P.LOGOP, op⟩ b)
    | _, _ => none
  | .present p => (cstPathOf p).map .presentExp
  | .compare p k v =>
    match cstPathOf p, cstLit v with
    | some a, some b => some (.compareExp a ⟨k, ""⟩ b)
    | _, _ => none

theorem absPath_cstPath : ∀ (ms : List String) (n : String), absPath (cstPath n ms) = n :: ms
  | [], n => rfl
  | m :: ms, n => by simp [cstPath, absPath, absPath_cstPath ms m]
theorem absList_cstList (k : P.Kind) : ∀ (es : List String) (e : String), absList (cstList k e es) = e :: es
  | [], e => rfl
  | f :: fs, e => by simp [cstList, absList, absList_cstList k fs f]

theorem abs_cstLit {v : Lit} {c : ValueCtx} (h : cstLit v = some c) : absValue c = v := by
  cases v with
  | list k xs =>
    cases xs with
    | nil => simp [cstLit, cstListOf] at h
    | cons e es =>
      simp only [cstLit, cstListOf] at h
      split at h
      · simp at h; subst h; simp [absValue, absList_cstList, *]
      · split at h
        · simp at h; subst h; simp [absValue, absList_cstList, *]
        · split at h
          · simp at h; subst h; simp [absValue, absList_cstList, *]
          · simp at h
  | _ => simp [cstLit] at h; subst h; rfl

theorem abs_cstOf : ∀ {t : Tree} {c : QueryCtx}, cstOf t = some c → abs c = t
  | .paren neg q, c, h => by
    simp [cstOf] at h
    obtain ⟨c', hc, rfl⟩ := h
    cases neg <;> simp [abs, abs_cstOf hc]
  | .logical op l r, c, h => by
    simp only [cstOf] at h
    cases hl : cstOf l <;> cases hr : cstOf r <;> simp [hl, hr] at h
    subst h
    simp [abs, abs_cstOf hl, abs_cstOf hr]
  | .present p, c, h => by
    cases p with
    | nil => simp [cstOf, cstPathOf] at h
    | cons n ms => simp [cstOf, cstPathOf] at h; subst h; simp [abs, absPath_cstPath]
  | .compare p k v, c, h => by
    cases p with
    | nil => simp [cstOf, cstPathOf] at h
    | cons n ms =>
      simp only [cstOf, cstPathOf] at h
      cases hv : cstLit v <;> simp [hv] at h
      subst h
      simp [abs, absPath_cstPath, abs_cstLit hv]

theorem cstPathOf_of_DPath {ts p} (h : P.DPath ts p) : (cstPathOf p).isSome := by
  cases h <;> simp [cstPathOf]
theorem cstListOf_of_DList {k ts xs} (h : P.DList k ts xs) : (cstListOf k xs).isSome := by
  cases h <;> simp [cstListOf]
theorem cstLit_of_DValue {ts v} (h : P.DValue ts v) : (cstLit v).isSome := by
  cases h with
  | list k hk b hl =>
    have := cstListOf_of_DList hl
    rcases hk with rfl | rfl | rfl <;> simp [cstLit, P.INT, P.DOUBLE, P.STRING] <;> simpa [P.INT, P.DOUBLE, P.STRING] using this
  | _ => simp [cstLit]

theorem cstOf_of_D {b ts t} (h : P.D b ts t) : (cstOf t).isSome := by
  induction h with
  | paren n s1 s2 s3 l r _ ih => simpa [cstOf] using ih
  | present s pr hp => simpa [cstOf] using cstPathOf_of_DPath hp
  | compare s1 o s2 k hk hp hv =>
    have h1 := cstPathOf_of_DPath hp
    have h2 := cstLit_of_DValue hv
    simp only [cstOf]
    cases h3 : cstPathOf _ <;> cases h4 : cstLit _ <;> simp_all
  | prim _ ih => exact ih
  | logical s1 op s2 _ _ ih1 ih2 =>
    simp only [cstOf]
    cases h3 : cstOf _ <;> cases h4 : cstOf _ <;> simp_all

/-- **From the source text of the visitor to `Process`**: for every rule the grammar derives there is a parse tree
whose abstraction is the model's tree, and on it the visitor *as translated from the Go source on this run* returns
what the model's `processTree` returns, for every object. Together with `processTree_eq` (Proofs/Refine) every
property theorem about `evalOut` is a theorem about the translated code. -/
theorem translated_process {b ts t} (h : P.D b ts t) (lower : Bytes → Bytes) (item : List (Bytes × Value)) :
    ∃ c : QueryCtx, abs c = t ∧ genProcess lower c item = processTree lower t item := by
  have h1 := cstOf_of_D h
  cases hc : cstOf t with
  | none => simp [hc] at h1
  | some c => exact ⟨c, abs_cstOf hc, by rw [genProcess_eq, abs_cstOf hc]⟩

/-- non-vacuity: a rule with a nested path, a list, a negation and both connectives, evaluated through the translated code -/
example : genProcess id
    (.logicalExp (.parenExp (some ⟨8, "not"⟩) (.compareExp (.mk ⟨22, "a"⟩ (some (.mk ⟨22, "b"⟩ none))) ⟨12, "in"⟩ (.listOfInts (.mk ⟨26, "1"⟩ (some (.mk ⟨26, "2"⟩ none))))))
      ⟨9, "and"⟩ (.compareExp (.mk ⟨22, "x"⟩ none) ⟨13, "eq"⟩ (.string "\"s\"")))
    [(bytesOf "a", .obj [(bytesOf "b", .int 3)]), (bytesOf "x", .str (bytesOf "s"))]
    = { verdict := true, err := none, debug := none, calls := [] } := by decide +kernel
end Rules.VisitorGen
