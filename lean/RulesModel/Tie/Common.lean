import RulesModel.Expected.LexTable
import RulesModel.Generated.Facts
/-! helpers for the per-family ties of the operation table (DESIGN §4.1 T2): a row the extractor no longer recognises is not claimed, a recognised row must be the expected one -/
namespace Rules.Tie
def rowOK (exp : List (String × String)) (row : String × String) : Bool :=
  row.2 == "unrecognised" || exp.contains row
def rowsOf (pre : List String) (t : List (String × String)) : List (String × String) :=
  t.filter (fun r => pre.any (fun p => p.isPrefixOf r.1))
end Rules.Tie
