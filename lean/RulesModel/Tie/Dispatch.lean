import RulesModel.Tie.Common
/-! Tie T2: the `switch ctx.op.GetTokenType()` of VisitCompareExp and the Operation type each literal visitor selects -/
namespace Rules.Tie
theorem dispatch_tie : Generated.dispatch = Expected.dispatch := by decide +kernel
theorem litOps_tie : Generated.litOps = Expected.litOps := by decide +kernel
end Rules.Tie
