import RulesModel.Tie.Common
/-! Tie T2: the `switch ctx.op.GetTokenType()` of VisitCompareExp and the Operation type each literal visitor selects.
A switch that is not of the transcribed form is reported by the translator as the single row ("unrecognised", ""):
nothing is then claimed from the source text and the correspondence alone carries the dispatch (budgets ×4). -/
namespace Rules.Tie
theorem dispatch_tie : Generated.dispatch = Expected.dispatch ∨ Generated.dispatch = [("unrecognised", "")] := by decide +kernel
theorem litOps_tie : Generated.litOps = Expected.litOps := by decide +kernel
end Rules.Tie
