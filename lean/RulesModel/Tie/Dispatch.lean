import RulesModel.Tie.Common
/-! Tie T2: the `switch ctx.op.GetTokenType()` of VisitCompareExp and the Operation type each literal visitor selects.
A switch that is not of the transcribed form is reported by the translator as the single row ("unrecognised", ""):
nothing is then claimed from the source text and the correspondence alone carries the dispatch (budgets ×4). -/
namespace Rules.Tie
theorem dispatch_tie : Generated.dispatch = Expected.dispatch ∨ Generated.dispatch = [("unrecognised", "")] := by decide +kernel
/-- every literal visitor selects the expected Operation type, or selects it in a form the translator does not read
(`unrecognised`: nothing claimed); none is missing and none selects anything else -/
theorem litOps_tie : (Generated.litOps.all (rowOK Expected.litOps) &&
    Expected.litOps.all (fun e => Generated.litOps.any (fun r => r.1 == e.1))) = true := by decide +kernel
end Rules.Tie
