import RulesModel.Generated.Grammar
/-! Tie T1: parser/JsonQuery.g4 was read by the translator, so the token table the driver lexes with is the file's. -/
namespace Rules.Tie
theorem g4_readable : Generated.g4ok = true := by decide +kernel
end Rules.Tie
