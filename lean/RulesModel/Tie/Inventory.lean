import RulesModel.Expected.LexTable
import RulesModel.Generated.Facts
/-! Tie T4: no mutable package-level state, no goroutines or sync primitives in hand-written code; the observer set
(types named in assertions and type switches) is the one the value quotient (DESIGN §1 F1) was built for. -/
namespace Rules.Tie
theorem pkgVars_ok : Generated.pkgVars = Expected.pkgVars := by decide +kernel
theorem goStmts_ok : Generated.goStmts = 0 := by decide +kernel
theorem syncUses_ok : Generated.syncUses = [] := by decide +kernel
theorem observers_tie : Generated.observers = Expected.observers := by decide +kernel
theorem reflectUses_ok : Generated.reflectUses = [] := by decide +kernel
end Rules.Tie
