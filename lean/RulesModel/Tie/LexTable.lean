import RulesModel.Expected.LexTable
import RulesModel.Generated.Grammar
/-! Tie T1: the token table regenerated from parser/JsonQuery.g4 is the one the lexer theorems were proved for. -/
namespace Rules.Tie
theorem g4_readable : Generated.g4ok = true := by decide +kernel
theorem lexerRules_tie : Generated.lexerRules = jqRules := by decide +kernel
theorem lexerRuleNames_tie : Generated.lexerRuleNames = Expected.lexerRuleNames := by decide +kernel
theorem spellings_tie : Generated.spellings = Expected.spellings := by decide +kernel
end Rules.Tie
