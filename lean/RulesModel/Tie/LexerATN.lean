import RulesModel.Generated.Facts
/-! Tie: the serialised lexer ATN shipped in jsonquery_lexer.go accepts, token rule by token rule and in the same
priority order, the language of the token rules of JsonQuery.g4 - as computed by the translator (extract/atn.go: the
tables decoded, each rule explored against the Brzozowski derivatives of the grammar's rule over the common refinement
of all character classes). A fact of the translator, not a theorem about ANTLR. -/
namespace Rules.Tie
theorem lexer_atn_equivalent : Rules.Generated.lexerAtn = "equivalent" := by decide
end Rules.Tie
