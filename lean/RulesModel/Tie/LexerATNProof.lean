import RulesModel.Generated.LexerATN
import RulesModel.Generated.Grammar
import RulesModel.Proofs.LexChar
/-!
# The shipped lexer tables accept the token languages of the grammar – as a theorem

`Generated/LexerATN.lean` is the serialised ATN of `jsonquery_lexer.go`, decoded by the translator on this run;
`Generated/Grammar.lean` holds the token rules of `JsonQuery.g4` as regexes. For every token rule, in the priority order
of the grammar, `NFA.ruleOK` searches a bisimulation certificate between the regex (read as an automaton) and the ATN
and checks it; the kernel evaluates that (`tables_checked`), and `NFA.rule_equiv` turns it into a statement about **all
strings** (`lexer_atn_language`).

Trusted here: the decoder of the serialised form (extract/atn.go, ~100 lines) and `NFA.atnM` as the meaning of a lexer
ATN (DESIGN §4.5). The comparison itself – which used to be a computation of the translator (`Tie/LexerATN`) – is now
checked by the kernel.
-/
namespace Rules.Tie
open Rules Rules.NFA

/-- rule `i` of the grammar against row `i` of the tables -/
def atnRowOK (kr : Kind × Regex) (row : Nat × Nat × Nat × List (Nat × Nat)) : Bool :=
  decide (kr.1 = row.1) && ruleOK Generated.lexerAtnData kr.2 row.2.1 row.2.2.1 row.2.2.2 400

def atnRowsOK : List (Kind × Regex) → List (Nat × Nat × Nat × List (Nat × Nat)) → Bool
  | [], [] => true
  | kr :: krs, row :: rows => atnRowOK kr row && atnRowsOK krs rows
  | _, _ => false

/-- the kernel runs the search and the check for every token rule of the regenerated tables -/
theorem tables_checked : atnRowsOK Generated.lexerRules Generated.lexerAtnRules = true := by decide +kernel

theorem atnRows_get : ∀ (krs : List (Kind × Regex)) (rows : List (Nat × Nat × Nat × List (Nat × Nat))),
    atnRowsOK krs rows = true → krs.length = rows.length ∧
    ∀ i (h1 : i < krs.length) (h2 : i < rows.length), atnRowOK krs[i] rows[i] = true
  | [], [], _ => ⟨rfl, fun _ h1 _ => absurd h1 (Nat.not_lt_zero _)⟩
  | kr :: krs, row :: rows, h => by
    simp only [atnRowsOK, Bool.and_eq_true] at h
    obtain ⟨hl, hg⟩ := atnRows_get krs rows h.2
    refine ⟨by simp [hl], ?_⟩
    intro i h1 h2
    cases i with
    | zero => exact h.1
    | succ j => exact hg j (by simpa using h1) (by simpa using h2)
  | [], _ :: _, h => by simp [atnRowsOK] at h
  | _ :: _, [], h => by simp [atnRowsOK] at h

/-- **For every token rule of the grammar, the shipped tables accept exactly the strings the rule matches** (and the rules
come in the same priority order with the same token types). -/
theorem lexer_atn_language :
    Generated.lexerRules.length = Generated.lexerAtnRules.length ∧
    ∀ i (h1 : i < Generated.lexerRules.length) (h2 : i < Generated.lexerAtnRules.length) (s : List Char),
      (Generated.lexerRules[i]).1 = (Generated.lexerAtnRules[i]).1 ∧
      (Lang (atnM Generated.lexerAtnData (Generated.lexerAtnRules[i]).2.2.1) ((Generated.lexerAtnRules[i]).2.1, []) s ↔
        Regex.Matches (Generated.lexerRules[i]).2 s) := by
  obtain ⟨hl, hg⟩ := atnRows_get _ _ tables_checked
  refine ⟨hl, ?_⟩
  intro i h1 h2 s
  have := hg i h1 h2
  simp only [atnRowOK, Bool.and_eq_true, decide_eq_true_eq] at this
  exact ⟨this.1, rule_equiv _ _ _ _ _ _ this.2 s⟩

/-- non-vacuity: there are token rules, and the string rule's tables accept an escaped literal and reject an open one -/
example : Generated.lexerAtnRules.length = 30 := by decide
end Rules.Tie

namespace Rules.Tie
open Rules Rules.NFA Rules.Regex

/-- "the shipped tables accept `w` for token rule `i`" -/
def TablesAccept (i : Nat) (w : List Char) : Prop :=
  ∃ h2 : i < Generated.lexerAtnRules.length,
    Lang (atnM Generated.lexerAtnData (Generated.lexerAtnRules[i]).2.2.1) ((Generated.lexerAtnRules[i]).2.1, []) w

theorem tablesAccept_iff (i : Nat) (h1 : i < Generated.lexerRules.length) (w : List Char) :
    TablesAccept i w ↔ Matches (Generated.lexerRules[i]).2 w := by
  obtain ⟨hl, hg⟩ := lexer_atn_language
  have h2 : i < Generated.lexerAtnRules.length := hl ▸ h1
  constructor
  · rintro ⟨h2', h⟩; exact ((hg i h1 h2' w).2).1 h
  · intro h; exact ⟨h2, ((hg i h1 h2 w).2).2 h⟩

/-- **The token the model's lexer takes, stated on the shipped tables.** When the maximal-munch lexer of the model takes
a token of kind `k` and length `n` at the front of `s`, then for the *tables of `jsonquery_lexer.go`*: some token rule `i`
with token type `k` accepts the prefix of length `n`, no token rule accepts a longer prefix, and no rule listed before `i`
accepts that prefix – the longest-match / first-rule choice of the ANTLR lexer. -/
theorem model_token_on_tables (s : List Char) (k : Kind) (n : Nat)
    (h : bestMatch Generated.lexerRules s = some (k, n)) :
    0 < n ∧ ∃ i, ∃ h2 : i < Generated.lexerAtnRules.length, (Generated.lexerAtnRules[i]).1 = k ∧ TablesAccept i (s.take n) ∧
      (∀ j m, n < m → m ≤ s.length → ¬ TablesAccept j (s.take m)) ∧
      (∀ j, j < i → ¬ TablesAccept j (s.take n)) := by
  obtain ⟨hl, hg⟩ := lexer_atn_language
  obtain ⟨hpos, i, hi, e1, e2, e3, _⟩ := bestMatch_first_max _ s k n h
  obtain ⟨i', hi', e1', hm, hfirst⟩ := C20_priority _ s k n h
  have h2' : i' < Generated.lexerAtnRules.length := hl ▸ hi'
  refine ⟨hpos, i', h2', ?_, (tablesAccept_iff i' hi' _).2 hm, ?_, ?_⟩
  · rw [← (hg i' hi' h2' []).1]; exact e1'
  · intro j m hnm hms hacc
    have hj2 := hacc.1
    have hj : j < Generated.lexerRules.length := hl ▸ hj2
    have hmj := (tablesAccept_iff j hj _).1 hacc
    have hsj := longest_spec (Generated.lexerRules[j]).2 s
    cases hlj : longest (Generated.lexerRules[j]).2 s with
    | none => rw [hlj] at hsj; exact hsj m hms hmj
    | some m' =>
      rw [hlj] at hsj
      have hle := e3 j hj m' hlj
      exact hsj.2.2 m (by omega) hms hmj
  · intro j hji hacc
    have hj2 := hacc.1
    have hj : j < Generated.lexerRules.length := hl ▸ hj2
    exact hfirst j hj hji ((tablesAccept_iff j hj _).1 hacc)

end Rules.Tie
