import RulesModel.Expected.LexTable
import RulesModel.Generated.Facts
/-! Tie T4 (observers): every type named in a type assertion / type switch of the hand-written code that the API can reach
is one the value quotient (DESIGN §1 F1) was built for, and `reflect` is not used – so "all Go values" in the theorems means
all. (Inclusion, not equality: an observer that disappears makes the engine distinguish *less*, which the quotient covers.
An assertion to a type built from a type parameter of a generic function is listed as `<type parameter>`: it names no type
by itself, nothing is claimed for it and the check widens its budgets.) -/
namespace Rules.Tie
theorem observers_tie : Generated.observers.all (fun t => t == "<type parameter>" || Expected.observers.contains t) = true := by
  decide +kernel
theorem reflectUses_ok : Generated.reflectUses = [] := by decide +kernel
end Rules.Tie
