import RulesModel.Expected.LexTable
import RulesModel.Generated.Facts
/-! Tie T4 (observers): the types named in type assertions / type switches of hand-written code, and the absence of
`reflect`, are what the value quotient (DESIGN §1 F1) was built for – so "all Go values" in the theorems means all. -/
namespace Rules.Tie
theorem observers_tie : Generated.observers = Expected.observers := by decide +kernel
theorem reflectUses_ok : Generated.reflectUses = [] := by decide +kernel
end Rules.Tie
