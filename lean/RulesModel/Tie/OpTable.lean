import RulesModel.Expected.LexTable
import RulesModel.Generated.Facts
/-! Tie T2: shape of every `Operation` method, of the dispatch switch and of the literal visitors. A row the extractor
no longer recognises is not claimed (DESIGN §4.1 policy 2); a recognised row must be the expected one. -/
namespace Rules.Tie
def rowOK (exp : List (String × String)) (row : String × String) : Bool :=
  row.2 == "unrecognised" || exp.contains row
theorem opTable_keys : Generated.opTable.map (·.1) = Expected.opTable.map (·.1) := by decide +kernel
theorem opTable_tie : Generated.opTable.all (rowOK Expected.opTable) = true := by decide +kernel
theorem dispatch_tie : Generated.dispatch = Expected.dispatch := by decide +kernel
theorem litOps_tie : Generated.litOps = Expected.litOps := by decide +kernel
theorem coercions_keys : Generated.coercions.map (·.1) = Expected.coercions.map (·.1) := by decide +kernel
theorem coercions_tie : Generated.coercions.all (rowOK Expected.coercions) = true := by decide +kernel
end Rules.Tie
