import RulesModel.Tie.Common
/-! Tie T2 (error mode, C16): every relational method returns the operand error of `get` (no method swallows it) -/
namespace Rules.Tie
theorem errMode_tie : (Generated.opTable.filter (fun r => "swallow".toList.isSuffixOf r.2.toList)) = [] := by decide +kernel
end Rules.Tie
