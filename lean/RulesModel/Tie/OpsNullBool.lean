import RulesModel.Tie.Common
import RulesModel.Proofs.TableSem
/-! Tie T2 (NullOperation and BoolOperation): shapes of the methods as read from the Go source by the translator -/
namespace Rules.Tie
theorem OpsNullBool_keys : (rowsOf ["NullOperation.", "BoolOperation."] Generated.opTable).map (·.1) = (rowsOf ["NullOperation.", "BoolOperation."] Expected.opTable).map (·.1) := by decide +kernel
theorem OpsNullBool_tie : (rowsOf ["NullOperation.", "BoolOperation."] Generated.opTable).all (rowOK Expected.opTable) = true := by decide +kernel
/-- semantic form: each recognised row parses to the code whose meaning `TableSem.opTable_sem` proves to be the model's function -/
theorem OpsNullBool_sem : TableSem.codesOK Generated.opTable [.null, .bool] = true := by decide +kernel
end Rules.Tie
