import RulesModel.Tie.Common
/-! Tie T2 (NullOperation and BoolOperation): shapes of the methods as read from the Go source by the translator -/
namespace Rules.Tie
theorem OpsNullBool_keys : (rowsOf ["NullOperation.", "BoolOperation."] Generated.opTable).map (·.1) = (rowsOf ["NullOperation.", "BoolOperation."] Expected.opTable).map (·.1) := by decide +kernel
theorem OpsNullBool_tie : (rowsOf ["NullOperation.", "BoolOperation."] Generated.opTable).all (rowOK Expected.opTable) = true := by decide +kernel
end Rules.Tie
