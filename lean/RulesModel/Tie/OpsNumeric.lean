import RulesModel.Tie.Common
import RulesModel.Proofs.TableSem
/-! Tie T2 (IntOperation and FloatOperation): shapes of the methods as read from the Go source by the translator -/
namespace Rules.Tie
theorem OpsNumeric_keys : (rowsOf ["IntOperation.", "FloatOperation."] Generated.opTable).map (·.1) = (rowsOf ["IntOperation.", "FloatOperation."] Expected.opTable).map (·.1) := by decide +kernel
theorem OpsNumeric_tie : (rowsOf ["IntOperation.", "FloatOperation."] Generated.opTable).all (rowOK Expected.opTable) = true := by decide +kernel
/-- semantic form: each recognised row parses to the code whose meaning `TableSem.opTable_sem` proves to be the model's function -/
theorem OpsNumeric_sem : TableSem.codesOK Generated.opTable [.int, .float] = true := by decide +kernel
end Rules.Tie
