import RulesModel.Tie.Common
/-! Tie T2 (IntOperation and FloatOperation): shapes of the methods as read from the Go source by the translator -/
namespace Rules.Tie
theorem OpsNumeric_keys : (rowsOf ["IntOperation.", "FloatOperation."] Generated.opTable).map (·.1) = (rowsOf ["IntOperation.", "FloatOperation."] Expected.opTable).map (·.1) := by decide +kernel
theorem OpsNumeric_tie : (rowsOf ["IntOperation.", "FloatOperation."] Generated.opTable).all (rowOK Expected.opTable) = true := by decide +kernel
end Rules.Tie
