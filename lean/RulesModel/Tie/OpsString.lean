import RulesModel.Tie.Common
import RulesModel.Proofs.TableSem
/-! Tie T2 (StringOperation): shapes of the methods as read from the Go source by the translator -/
namespace Rules.Tie
theorem OpsString_keys : (rowsOf ["StringOperation."] Generated.opTable).map (·.1) = (rowsOf ["StringOperation."] Expected.opTable).map (·.1) := by decide +kernel
theorem OpsString_tie : (rowsOf ["StringOperation."] Generated.opTable).all (rowOK Expected.opTable) = true := by decide +kernel
/-- semantic form: each recognised row parses to the code whose meaning `TableSem.opTable_sem` proves to be the model's function -/
theorem OpsString_sem : TableSem.codesOK Generated.opTable [.string] = true := by decide +kernel
end Rules.Tie
