import RulesModel.Tie.Common
/-! Tie T2 (support table, C06): which (Operation type, operator) pairs are `return false, ErrInvalidOperation`
(directly or inherited from the embedded NullOperation) -/
namespace Rules.Tie
def isInvalid (r : String × String) : Bool := r.2 == "invalid" || r.2 == "inherit:NullOperation"
theorem support_tie : (Generated.opTable.filter isInvalid).map (·.1) = (Expected.opTable.filter isInvalid).map (·.1) := by decide +kernel
theorem support_recognised : (Generated.opTable.filter (fun r => r.2 == "unrecognised" && (Expected.opTable.filter isInvalid).any (fun e => e.1 == r.1))) = [] := by decide +kernel
end Rules.Tie
