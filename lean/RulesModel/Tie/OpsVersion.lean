import RulesModel.Tie.Common
import RulesModel.Proofs.TableSem
/-! Tie T2 (VersionOperation): shapes of the methods as read from the Go source by the translator -/
namespace Rules.Tie
theorem OpsVersion_keys : (rowsOf ["VersionOperation."] Generated.opTable).map (·.1) = (rowsOf ["VersionOperation."] Expected.opTable).map (·.1) := by decide +kernel
theorem OpsVersion_tie : (rowsOf ["VersionOperation."] Generated.opTable).all (rowOK Expected.opTable) = true := by decide +kernel
/-- semantic form: each recognised row parses to the code whose meaning `TableSem.opTable_sem` proves to be the model's function -/
theorem OpsVersion_sem : TableSem.codesOK Generated.opTable [.version] = true := by decide +kernel
end Rules.Tie
