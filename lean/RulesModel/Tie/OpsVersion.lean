import RulesModel.Tie.Common
/-! Tie T2 (VersionOperation): shapes of the methods as read from the Go source by the translator -/
namespace Rules.Tie
theorem OpsVersion_keys : (rowsOf ["VersionOperation."] Generated.opTable).map (·.1) = (rowsOf ["VersionOperation."] Expected.opTable).map (·.1) := by decide +kernel
theorem OpsVersion_tie : (rowsOf ["VersionOperation."] Generated.opTable).all (rowOK Expected.opTable) = true := by decide +kernel
end Rules.Tie
