import RulesModel.Expected.LexTable
import RulesModel.Generated.Grammar
/-! Tie T1: the parser productions of JsonQuery.g4 are the ones the derivation relation `P.D` was written from. -/
namespace Rules.Tie
theorem parserRules_tie : Generated.parserRules = Expected.parserRules := by decide +kernel
end Rules.Tie
