import RulesModel.Expected.LexTable
import RulesModel.Generated.Facts
/-! Tie T4 (shared state): hand-written code has no package-level variables besides the two error sentinels, starts no
goroutines and uses no sync/atomic primitives – the premise of the per-evaluator / per-call state model (C11, C12). -/
namespace Rules.Tie
theorem pkgVars_ok : Generated.pkgVars.all (fun v => Expected.pkgVars.contains v) = true := by decide +kernel
theorem goStmts_ok : Generated.goStmts = 0 := by decide +kernel
theorem syncUses_ok : Generated.syncUses = [] := by decide +kernel
end Rules.Tie
