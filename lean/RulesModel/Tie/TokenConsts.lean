import RulesModel.Expected.LexTable
import RulesModel.Generated.Facts
/-! Tie T1': token constants of the generated Go parser/lexer = numbering the model uses (= order of the .g4). -/
namespace Rules.Tie
theorem tokenConsts_tie : Generated.tokenConsts = Expected.tokenConsts := by decide +kernel
theorem lexerConsts_tie : Generated.lexerConsts = Expected.lexerConsts := by decide +kernel
end Rules.Tie
