#!/bin/sh
# Run once after a fresh restore (offline): builds the translator, regenerates the tables from /repo,
# builds the Lean development (driver, ties, proofs) and the harness. Everything stays under /verif.
set -e
cd "$(dirname "$0")"
export GOFLAGS=-mod=mod GOPROXY=off GOSUMDB=off GOTOOLCHAIN=local
export GOCACHE="$(pwd)/work/gocache"
mkdir -p work/bin evidence replays lean/RulesModel/Generated
(cd extract && go build -o ../work/bin/extract .)
REPO="${VERIF_REPO:-/repo}"
./work/bin/extract "$REPO" lean/RulesModel/Generated work/generated.json
(cd lean && lake build) || echo "setup: not every Lean module builds against this tree (each check reports which of its obligations that concerns)"
cp "$REPO/go.sum" harness/go.sum
sed -i "s#^replace github.com/nikunjy/rules => .*#replace github.com/nikunjy/rules => $REPO#" harness/go.mod
(cd harness && go build -tags verif -o ../work/bin/rulesharness .)
echo "setup done"
