#!/usr/bin/env python3
"""tools/importwave.py <srcroot> <tag>: copies <srcroot>/Cnn/out/m{1,2} to seeded/Cnn-<tag>m{1,2} (patch, demonstration, meta)."""
import json, os, shutil, sys
root, tag = sys.argv[1], sys.argv[2]
here = os.path.dirname(os.path.dirname(os.path.abspath(__file__)))
for p in sorted(os.listdir(root)):
    for m in ("m1", "m2"):
        src = os.path.join(root, p, "out", m)
        if not os.path.exists(os.path.join(src, "patch.diff")):
            print("missing", src)
            continue
        dst = os.path.join(here, "seeded", "%s-%s%s" % (p, tag, m))
        shutil.rmtree(dst, ignore_errors=True)
        shutil.copytree(src, dst)
        mf = os.path.join(dst, "meta.json")
        try:
            meta = json.load(open(mf))
        except Exception:
            meta = {"property": p}
        meta["property"] = p
        json.dump(meta, open(mf, "w"), indent=1)
        print("imported", dst)
